//go:build verif_internals

package main

// internals_on.go — the unexported strategies, through the hooks under the
// second tag; compared with the structure-faithful Coq model (Impl) only.

import (
	"fmt"

	"github.com/charlievieth/strcase"
	"github.com/charlievieth/strcase/bytcase"
)

const haveInternals = true

func (x *Ctx) internalPrefix(s, p []byte) {
	defer x.recoverInternal("internalPrefix")
	m1, e1 := strcase.VerifHasPrefixUnicode(string(s), string(p))
	m2, e2 := bytcase.VerifHasPrefixUnicode(s, p)
	x.rawPair(fmt.Sprintf("i.hasPrefixUnicode\t%s\t%s", hexOrDash(s), hexOrDash(p)), b2s(m1)+":"+b2s(e1), b2s(m2)+":"+b2s(e2))
	x.rawPair(fmt.Sprintf("i.containsKelvin\t%s", hexOrDash(p)), b2s(strcase.VerifContainsKelvin(string(p))), b2s(bytcase.VerifContainsKelvin(p)))
}

// recoverInternal: an unexported strategy that panics on an input its callers may never pass is a diagnostic of the
// correspondence with the structure-faithful model, not a verdict (the exported functions are observed with their own
// recover and ARE the verdict); the harness must survive it
func (x *Ctx) recoverInternal(which string) {
	if r := recover(); r != nil {
		x.internalPanics++
		if x.internalPanics <= 3 {
			x.st.Notes = append(x.st.Notes, fmt.Sprintf("unexported strategy panicked in %s: %v", which, r))
		}
	}
}

func pairStr(i, sz int) string { return itoa(i) + ":" + itoa(sz) }

// internalRune: the unexported single-character strategies on (s, r)
func (x *Ctx) internalRune(s []byte, r int64) {
	defer x.recoverInternal("internalRune")
	if r < -2147483648 || r > 2147483647 {
		return
	}
	rr := rune(r)
	a := strcase.VerifIndexRuneCase(string(s), rr)
	b := bytcase.VerifIndexRuneCase(s, rr)
	x.rawPair(fmt.Sprintf("i.indexRuneCase\t%s\t%d", hexOrDash(s), r), itoa(a), itoa(b))
	i1, z1 := strcase.VerifIndexRune(string(s), rr)
	i2, z2 := bytcase.VerifIndexRune(s, rr)
	// the size is only meaningful when something was found
	if i1 < 0 {
		z1 = 1
	}
	if i2 < 0 {
		z2 = 1
	}
	x.rawPair(fmt.Sprintf("i.indexRune\t%s\t%d", hexOrDash(s), r), pairStr(i1, z1), pairStr(i2, z2))
	x.rawPair(fmt.Sprintf("i.lastIndexRune\t%s\t%d", hexOrDash(s), r), itoa(strcase.VerifLastIndexRune(string(s), rr)), itoa(bytcase.VerifLastIndexRune(s, rr)))
}

func (x *Ctx) internalByte(s []byte, c int64) {
	defer x.recoverInternal("internalByte")
	if c < 0 || c > 255 {
		return
	}
	i1, z1 := strcase.VerifIndexByte(string(s), byte(c))
	i2, z2 := bytcase.VerifIndexByte(s, byte(c))
	if i1 < 0 {
		z1 = 1
	}
	if i2 < 0 {
		z2 = 1
	}
	x.rawPair(fmt.Sprintf("i.indexByte\t%s\t%d", hexOrDash(s), c), pairStr(i1, z1), pairStr(i2, z2))
}

// internalIndex: the unexported search strategies on (s, sub); sub needs at least two code points
func (x *Ctx) internalIndex(s, sub []byte) {
	defer x.recoverInternal("internalIndex")
	if len(segsOf(sub)) < 2 {
		return
	}
	x.rawPair(fmt.Sprintf("i.rabinKarp\t%s\t%s", hexOrDash(s), hexOrDash(sub)),
		itoa(strcase.VerifIndexRabinKarpUnicode(string(s), string(sub))), itoa(bytcase.VerifIndexRabinKarpUnicode(s, sub)))
	x.rawPair(fmt.Sprintf("i.rabinKarpRev\t%s\t%s", hexOrDash(s), hexOrDash(sub)),
		itoa(strcase.VerifIndexRabinKarpRevUnicode(string(s), string(sub))), itoa(bytcase.VerifIndexRabinKarpRevUnicode(s, sub)))
	// bruteForceIndexUnicode indexes s while i < t <= len(s): callers never pass an empty haystack
	if len(s) > 0 {
		x.rawPair(fmt.Sprintf("i.bruteForce\t%s\t%s", hexOrDash(s), hexOrDash(sub)),
			itoa(strcase.VerifBruteForceIndexUnicode(string(s), string(sub))), itoa(bytcase.VerifBruteForceIndexUnicode(s, sub)))
	}
}

// rkPrime: the multiplier of the rolling hash, read off the code (the power returned for a needle of one code point)
func rkPrime() uint32 {
	_, pow, _ := strcase.VerifHashStrUnicode("a")
	return pow
}
