//go:build verif_internals

package main

// internals_on.go — the unexported strategies, through the hooks under the
// second tag; compared with the structure-faithful Coq model (Impl) only.

import (
	"fmt"

	"github.com/charlievieth/strcase"
	"github.com/charlievieth/strcase/bytcase"
)

const haveInternals = true

func (x *Ctx) internalPrefix(s, p []byte) {
	m1, e1 := strcase.VerifHasPrefixUnicode(string(s), string(p))
	m2, e2 := bytcase.VerifHasPrefixUnicode(s, p)
	x.rawPair(fmt.Sprintf("i.hasPrefixUnicode\t%s\t%s", hexOrDash(s), hexOrDash(p)), b2s(m1)+":"+b2s(e1), b2s(m2)+":"+b2s(e2))
	x.rawPair(fmt.Sprintf("i.containsKelvin\t%s", hexOrDash(p)), b2s(strcase.VerifContainsKelvin(string(p))), b2s(bytcase.VerifContainsKelvin(p)))
}
