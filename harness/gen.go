package main

// gen.go — the common corpus generator G.  Every random choice derives
// from one PRNG seeded by VERIF_SEED so that a run replays exactly.

import (
	"math/rand"
	"unicode"
	"unicode/utf8"

	"github.com/charlievieth/strcase"
)

// fold-relevant code points of every width and cross-width orbit, plus
// caseless ones
var validTokens = []string{
	"a", "A", "b", "k", "K", "K", "s", "S", "ſ", "ß", "ẞ", "µ", "μ", "Μ",
	"Ω", "ω", "Ω", "Ⱥ", "ⱥ", "ǅ", "Ǆ", "ǆ", "ǈ", "İ", "ı", "i", "I", "𐐀", "𐐨",
	"世", "界", "é", "É", "1", "-", " ", "x", "z", "Z", "�", "ϑ", "ϴ", "θ", "Θ",
	"ᲈ", "Ꙋ", "ꙋ", "Å", "å", "Å", "σ", "ς", "Σ", "ῼ", "ῳ", "ⱦ", "Ⱦ", "ɐ", "Ɐ",
	"😀", ".", "0", "\x00", "\x7f", "Ა", "ა", "ᲀ", "в", "В", "ﬅ", "ﬆ", "𞤢", "𞤀", "ꭰ", "Ꭰ",
	// one code point for every class of UTF-8 lead byte and both ends of every encoded length
	"\u0080", "\u07ff", "\u0800", "\u0fff", "\u1000", "\ud7ff", "\ue000", "\uffff", "\U00010000", "\U0003ffff",
	"\U00040000", "\U000fffff", "\U00100000", "\U0010ffff", "न", "ส", "ก", "ꯍ",
}

var caselessTokens = []string{
	"1", "2", "0", "-", " ", ".", ",", "世", "界", "😀", "�", "_", "!", "@", "语", "あ", " ", "€", "\x00", "\x7f", "𝄞", "×",
	"\u0080", "\u07ff", "\u0800", "\u0fff", "\u1000", "\ud7ff", "\ue000", "\uffff", "\U00010000", "\U0003ffff",
	"\U00040000", "\U000fffff", "\U00100000", "\U0010ffff", "न", "ส", "ก", "[", "{", "`", "~",
}

var asciiTokens = []string{
	"a", "A", "b", "B", "k", "K", "s", "S", "z", "Z", "x", "1", "-", " ", ".", "@", "[", "`", "{", "\x00", "\x7f", "i", "I",
	"]", "}", "^", "~", "_", "\x1f", "?", "\x5c", "|", "0", "\x10", "*", "\n",
}

var badTokens = []string{
	"\xff", "\x80", "\xc0", "\xc3", "\xe4\xb8", "\xf0\x90", "\xed\xa0\x80", "\xf4\x90\x80\x80",
	"\xc1\xbf", "\xe0\x80\x80", "\xf5", "\xbf", "\xfe", "\xe2\x84", "\xc5", "\xf0\x90\x90", "\xef\xbf",
}

var padLens = []int{0, 0, 0, 1, 2, 3, 4, 5, 6, 7, 8, 9, 10, 11, 12, 13, 14, 15, 16, 17, 18, 28, 29, 30, 31, 32, 33, 34, 60, 61, 62, 63, 64, 65, 66, 100, 300}
var padToks = []string{"x", "-", "k", "世", "a", "K", " ", "é"}

// deviants: pairs of code points on which the repository's CaseFold table departs from the
// toolchain's SimpleFold orbits (a pair the table equates but the toolchain does not, or the
// reverse).  Empty on a correct table, so the corpus is unchanged there; on a defective table
// they are fed into the alphabets, so that the defect shows up as a concrete input of every
// property that speaks of fold-equality, not only of C03.
var deviants [][2]rune
var deviantsDone bool

func findDeviants() {
	if deviantsDone {
		return
	}
	deviantsDone = true
	for r := rune(0); r <= unicode.MaxRune && len(deviants) < 64; r++ {
		cf := strcase.VerifCaseFold(r)
		if orbitMin(cf) != orbitMin(r) {
			deviants = append(deviants, [2]rune{r, cf})
		}
		for _, m := range orbitOf(r)[1:] {
			if strcase.VerifCaseFold(m) != cf {
				deviants = append(deviants, [2]rune{r, m})
			}
		}
	}
}

type Gen struct {
	rng *rand.Rand
}

func (g *Gen) intn(n int) int { return g.rng.Intn(n) }
func (g *Gen) chance(p float64) bool {
	return g.rng.Float64() < p
}
func (g *Gen) pick(l []string) string { return l[g.intn(len(l))] }

const (
	streamValid = iota
	streamIll
	streamCaseless
	streamASCII
)

// alphabet: a small per-case token set so that matches are frequent
func (g *Gen) alphabet(stream int) []string {
	var base []string
	switch stream {
	case streamCaseless:
		base = caselessTokens
	case streamASCII:
		base = asciiTokens
	default:
		base = validTokens
	}
	n := 1 + g.intn(4)
	var out []string
	for i := 0; i < n; i++ {
		t := g.pick(base)
		out = append(out, t)
		if stream == streamValid || stream == streamIll {
			r, _ := utf8.DecodeRuneInString(t)
			for _, o := range orbitOf(r)[1:] {
				out = append(out, string(o))
			}
		}
		if stream == streamASCII {
			r := rune(t[0])
			if unicode.IsLetter(r) {
				out = append(out, string(r^0x20))
			}
		}
	}
	findDeviants()
	if len(deviants) > 0 && (stream == streamValid || stream == streamIll) && g.chance(0.4) {
		d := deviants[g.intn(len(deviants))]
		if utf8.ValidRune(d[0]) && utf8.ValidRune(d[1]) {
			out = append(out, string(d[0]), string(d[1]))
		}
	}
	if stream == streamIll {
		m := 1 + g.intn(3)
		for i := 0; i < m; i++ {
			out = append(out, g.pick(badTokens))
		}
		if g.chance(0.5) {
			out = append(out, "�")
		}
	}
	return out
}

func (g *Gen) toks(alpha []string, n int) []string {
	out := make([]string, n)
	for i := range out {
		out[i] = g.pick(alpha)
	}
	return out
}

func join(t []string) []byte {
	var b []byte
	for _, x := range t {
		b = append(b, x...)
	}
	return b
}

// recase walks every code point of s to a random member of its orbit
// (ill-formed bytes are swapped with other ill-formed bytes or U+FFFD when ill is set)
func (g *Gen) recase(s []byte, ill bool, p float64) []byte {
	var out []byte
	for i := 0; i < len(s); {
		r, w := utf8.DecodeRune(s[i:])
		if r == utf8.RuneError && w == 1 {
			if ill && g.chance(p) {
				out = append(out, g.pick([]string{"\xff", "\x80", "\xc3", "�", "\xf5"})...)
			} else {
				out = append(out, s[i])
			}
		} else if r == utf8.RuneError && ill && g.chance(p) {
			out = append(out, g.pick([]string{"\xff", "\x80", "�"})...)
		} else if g.chance(p) {
			o := orbitOf(r)
			out = utf8.AppendRune(out, o[g.intn(len(o))])
		} else {
			out = append(out, s[i:i+w]...)
		}
		i += w
	}
	// swapping ill-formed bytes can create or destroy multi-byte sequences;
	// keep the re-casing only if the code-point sequence is still fold-equal
	a, b := keyOf(s), keyOf(out)
	if len(a.k) != len(b.k) {
		return append([]byte{}, s...)
	}
	for i := range a.k {
		if a.k[i] != b.k[i] {
			return append([]byte{}, s...)
		}
	}
	return out
}

func (g *Gen) pad(stream int) []byte {
	n := padLens[g.intn(len(padLens))]
	var t string
	switch stream {
	case streamCaseless:
		t = g.pick([]string{"1", "-", "世", " "})
	case streamASCII:
		t = g.pick([]string{"x", "-", "k", "a", " ", "K"})
	default:
		t = g.pick(padToks)
	}
	var b []byte
	for len(b)+len(t) <= n {
		b = append(b, t...)
	}
	return b
}

// pair generates a (haystack, needle) pair
func (g *Gen) pair(stream int) (s, sub []byte) {
	alpha := g.alphabet(stream)
	ill := stream == streamIll
	kind := g.intn(12)
	if kind >= 10 {
		if stream == streamValid || stream == streamIll {
			return g.extremal(stream)
		}
		kind = 2 + g.intn(5)
	}
	switch {
	case kind < 2: // independent random strings over the same small alphabet
		s = append(append(g.pad(stream), join(g.toks(alpha, g.intn(10)))...), g.pad(stream)...)
		sub = join(g.toks(alpha, g.intn(5)))
	case kind < 7: // needle is a re-cased slice of the haystack (maybe mutated)
		core := g.toks(alpha, 1+g.intn(10))
		var all []string
		padL, padR := g.pad(stream), g.pad(stream)
		if g.chance(0.5) {
			padR = nil
		}
		if g.chance(0.3) {
			padL = nil
		}
		s = append(append(append([]byte{}, padL...), join(core)...), padR...)
		// choose the slice on token boundaries of the core, sometimes reaching into the pads
		all = core
		i := g.intn(len(all))
		j := i + 1 + g.intn(len(all)-i)
		nt := append([]string{}, all[i:j]...)
		pre, post := []byte{}, []byte{}
		if i == 0 && len(padL) > 0 && g.chance(0.3) {
			k := 1 + g.intn(3)
			sg := segsOf(padL)
			if k > len(sg) {
				k = len(sg)
			}
			w := 0
			for _, x := range sg[len(sg)-k:] {
				w += x.w
			}
			pre = padL[len(padL)-w:]
		}
		if j == len(all) && len(padR) > 0 && g.chance(0.3) {
			k := 1 + g.intn(3)
			sg := segsOf(padR)
			if k > len(sg) {
				k = len(sg)
			}
			w := 0
			for _, x := range sg[:k] {
				w += x.w
			}
			post = padR[:w]
		}
		if g.chance(0.4) && len(nt) > 0 { // near miss
			switch g.intn(4) {
			case 0:
				nt[g.intn(len(nt))] = g.pick(alpha)
			case 1:
				nt = append(nt, g.pick(alpha))
			case 2:
				nt = nt[:len(nt)-1]
			case 3:
				nt = append([]string{g.pick(alpha)}, nt...)
			}
		}
		sub = append(append(append([]byte{}, pre...), join(nt)...), post...)
		sub = g.recase(sub, ill, 0.6)
		if g.chance(0.3) {
			s = g.recase(s, ill, 0.5)
		}
	case kind < 8: // length-ratio edges: short haystack, needle longer in bytes
		core := g.toks(alpha, 1+g.intn(6))
		s = join(core)
		sub = g.recase(s, ill, 0.9)
		if g.chance(0.5) {
			sub = append(sub, g.pick(alpha)...)
		}
		if g.chance(0.3) {
			s = append(g.pad(stream), s...)
		}
	case kind < 9: // decoys: first code point of the needle repeated with a wrong successor
		nt := g.toks(alpha, 2+g.intn(4))
		sub = join(nt)
		m := g.intn(40)
		wrong := g.pick(alpha)
		for i := 0; i < m; i++ {
			s = append(s, g.recase([]byte(nt[0]), ill, 0.5)...)
			if g.chance(0.7) {
				s = append(s, wrong...)
			}
			if g.chance(0.2) {
				s = append(s, g.pad(stream)...)
			}
		}
		if g.chance(0.7) {
			s = append(s, g.recase(sub, ill, 0.6)...)
		}
		if g.chance(0.5) {
			s = append(s, g.pad(stream)...)
		}
	default: // periodic haystacks with overlapping candidates
		unit := g.toks(alpha, 1+g.intn(3))
		m := 1 + g.intn(12)
		for i := 0; i < m; i++ {
			s = append(s, g.recase(join(unit), ill, 0.5)...)
		}
		k := 1 + g.intn(3)
		for i := 0; i < k; i++ {
			sub = append(sub, join(unit)...)
		}
		if g.chance(0.4) {
			sg := segsOf(sub)
			if len(sg) > 1 {
				sub = sub[sg[0].w:]
			}
		}
		sub = g.recase(sub, ill, 0.5)
		if g.chance(0.3) {
			s = append(g.pad(stream), s...)
		}
		if g.chance(0.3) {
			s = append(s, g.pad(stream)...)
		}
	}
	return
}

var edgeRunes = []int64{-2147483648, -1, 0, 0x41, 0x4b, 0x6b, 0x53, 0x73, 0x7f, 0x80, 0xb5, 0xdf, 0x130, 0x131, 0x17f, 0x7ff, 0x800,
	0x1e9e, 0x212a, 0x212b, 0xd7ff, 0xd800, 0xdfff, 0xe000, 0xfffd, 0xfffe, 0xffff, 0x10000, 0x10400, 0x10428, 0x10ffff, 0x110000, 2147483647}

// runeCase: a haystack and a rune needle
func (g *Gen) runeCase(stream int) (s []byte, r int64) {
	alpha := g.alphabet(stream)
	switch g.intn(6) {
	case 0:
		r = edgeRunes[g.intn(len(edgeRunes))]
	case 1:
		r = int64(g.intn(0x110000))
	default:
		t := g.pick(alpha)
		rr, _ := utf8.DecodeRuneInString(t)
		o := orbitOf(rr)
		r = int64(o[g.intn(len(o))])
	}
	// decoys sharing trailing bytes of r's encoding
	var decoys []string
	if validRune(r) && r >= 0x80 {
		e := []byte(string(rune(r)))
		d1 := append([]byte{}, e...)
		d1[0] ^= 1
		decoys = append(decoys, string(d1), string(e[1:]), string(e[:len(e)-1]), string(rune(r+64)), string(rune(r^1)))
		if len(e) >= 3 {
			d2 := append([]byte{}, e...)
			d2[1] ^= 1
			decoys = append(decoys, string(d2))
		}
		if stream != streamIll {
			// keep only well-formed decoys in the valid stream
			var v []string
			for _, d := range decoys {
				if utf8.ValidString(d) {
					v = append(v, d)
				}
			}
			decoys = v
		}
	}
	s = g.pad(stream)
	m := g.intn(45)
	for i := 0; i < m && len(decoys) > 0; i++ {
		s = append(s, g.pick(decoys)...)
		if g.chance(0.2) {
			s = append(s, g.pick(alpha)...)
		}
	}
	s = append(s, join(g.toks(alpha, g.intn(8)))...)
	if g.chance(0.6) && validRune(r) {
		o := orbitOf(rune(r))
		s = utf8.AppendRune(s, o[g.intn(len(o))])
	}
	s = append(s, join(g.toks(alpha, g.intn(4)))...)
	if g.chance(0.4) {
		s = append(s, g.pad(stream)...)
	}
	return
}

// byteCase: a haystack and a byte needle
func (g *Gen) byteCase(stream int) (s []byte, c int64) {
	alpha := g.alphabet(stream)
	switch g.intn(4) {
	case 0:
		c = int64(g.intn(256))
	case 1:
		c = int64("KkSsaAzZ@[`{"[g.intn(12)])
	default:
		t := g.pick(alpha)
		c = int64(t[g.intn(len(t))])
	}
	s = g.pad(stream)
	if c < 0x80 && c != 'x' && g.chance(0.5) {
		s = nil
		n := padLens[g.intn(len(padLens))]
		for i := 0; i < n; i++ {
			s = append(s, 'x')
		}
	}
	s = append(s, join(g.toks(alpha, g.intn(8)))...)
	if g.chance(0.5) {
		switch c | 0x20 {
		case 'k':
			s = append(s, g.pick([]string{"k", "K", "K", "\xe2\x84", "\x84\xaa"})...)
		case 's':
			s = append(s, g.pick([]string{"s", "S", "ſ", "\xc5", "\xbf"})...)
		default:
			s = append(s, byte(c))
		}
	}
	s = append(s, join(g.toks(alpha, g.intn(4)))...)
	if g.chance(0.4) {
		s = append(s, g.pad(stream)...)
	}
	if stream != streamIll && !utf8.Valid(s) {
		s = []byte(string([]rune(string(s)))) // normalise stray bytes to U+FFFD
	}
	return
}

// anyCase: (s, chars) for the Any family, crossing len(s) > 8 and len(s) > 2*len(chars)
func (g *Gen) anyCase(stream int) (s, chars []byte) {
	alpha := g.alphabet(stream)
	ascii := []string{"a", "b", "k", "K", "s", "S", "x", "1", "-", "z", "Q"}
	src := alpha
	if g.chance(0.5) {
		src = ascii
	}
	chars = join(g.toks(src, g.intn(7)))
	if g.chance(0.2) {
		chars = append(chars, g.pick(alpha)...)
	}
	n := g.intn(21)
	filler := g.pick([]string{"x", "-", "y", "世", "1"})
	for len(s) < n {
		if g.chance(0.25) {
			s = append(s, g.pick(alpha)...)
		} else if g.chance(0.1) {
			s = append(s, g.pick([]string{"k", "K", "K", "s", "S", "ſ"})...)
		} else {
			s = append(s, filler...)
		}
	}
	if g.chance(0.1) {
		s = append(s, g.pad(stream)...)
	}
	if stream == streamASCII || stream == streamCaseless {
		// keep within the class
		f := func(b []byte) []byte {
			var o []byte
			for _, x := range segsOf(b) {
				_ = x
			}
			for i := 0; i < len(b); {
				r, w := utf8.DecodeRune(b[i:])
				keep := true
				if stream == streamASCII && r >= 0x80 {
					keep = false
				}
				if stream == streamCaseless && len(orbitOf(r)) > 1 {
					keep = false
				}
				if keep {
					o = append(o, b[i:i+w]...)
				}
				i += w
			}
			return o
		}
		s, chars = f(s), f(chars)
	}
	return
}

func init() {
	// keep only code points that really are alone in their folding orbit
	var keep []string
	for _, t := range caselessTokens {
		ok := true
		for _, r := range t {
			if len(orbitOf(r)) != 1 {
				ok = false
			}
		}
		if ok {
			keep = append(keep, t)
		}
	}
	caselessTokens = keep
}
