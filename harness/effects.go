package main

// effects.go — the dynamic side of C05 (mallocs per call) and C18 (argument
// snapshots, determinism, many goroutines over shared backing arrays; run
// under the race detector by the ./check driver).

import (
	"bytes"
	"fmt"
	"runtime"
	"runtime/debug"
	"strings"
	"sync"
	"unicode/utf8"

	"github.com/charlievieth/strcase"
	"github.com/charlievieth/strcase/bytcase"
)

// one call of every exported function of both packages on (s, t, r, c);
// results are folded into a checksum so that nothing is optimised away
func callAll(s string, t string, sb, tb []byte, r rune, c byte) int {
	n := 0
	n += strcase.Compare(s, t) + bytcase.Compare(sb, tb)
	if strcase.EqualFold(s, t) || bytcase.EqualFold(sb, tb) {
		n++
	}
	n += strcase.Index(s, t) + bytcase.Index(sb, tb)
	if strcase.Contains(s, t) || bytcase.Contains(sb, tb) {
		n++
	}
	n += strcase.LastIndex(s, t) + bytcase.LastIndex(sb, tb)
	if strcase.HasPrefix(s, t) || bytcase.HasPrefix(sb, tb) {
		n++
	}
	if strcase.HasSuffix(s, t) || bytcase.HasSuffix(sb, tb) {
		n++
	}
	n += len(strcase.TrimPrefix(s, t)) + len(bytcase.TrimPrefix(sb, tb))
	n += len(strcase.TrimSuffix(s, t)) + len(bytcase.TrimSuffix(sb, tb))
	a1, f1 := strcase.CutPrefix(s, t)
	a2, f2 := bytcase.CutPrefix(sb, tb)
	a3, f3 := strcase.CutSuffix(s, t)
	a4, f4 := bytcase.CutSuffix(sb, tb)
	n += len(a1) + len(a2) + len(a3) + len(a4)
	if f1 || f2 || f3 || f4 {
		n++
	}
	n += strcase.Count(s, t) + bytcase.Count(sb, tb)
	b1, c1, g1 := strcase.Cut(s, t)
	b2, c2, g2 := bytcase.Cut(sb, tb)
	n += len(b1) + len(c1) + len(b2) + len(c2)
	if g1 || g2 {
		n++
	}
	n += strcase.IndexAny(s, t) + bytcase.IndexAny(sb, tb)
	n += strcase.LastIndexAny(s, t) + bytcase.LastIndexAny(sb, tb)
	if strcase.ContainsAny(s, t) || bytcase.ContainsAny(sb, tb) {
		n++
	}
	n += strcase.IndexRune(s, r) + bytcase.IndexRune(sb, r)
	if strcase.ContainsRune(s, r) || bytcase.ContainsRune(sb, r) {
		n++
	}
	n += strcase.IndexByte(s, c) + bytcase.IndexByte(sb, c)
	n += strcase.LastIndexByte(s, c) + bytcase.LastIndexByte(sb, c)
	n += strcase.IndexByteASCII(s, c) + bytcase.IndexByteASCII(sb, c)
	n += strcase.IndexNonASCII(s) + bytcase.IndexNonASCII(sb)
	if strcase.ContainsNonASCII(s) || bytcase.ContainsNonASCII(sb) {
		n++
	}
	return n
}

var sink int

// mallocs of one call of fn on prepared arguments (min over 3 repeats)
func mallocsOf(f func()) uint64 {
	best := ^uint64(0)
	var m0, m1 runtime.MemStats
	for rep := 0; rep < 3; rep++ {
		runtime.ReadMemStats(&m0)
		f()
		runtime.ReadMemStats(&m1)
		d := m1.Mallocs - m0.Mallocs
		if d < best {
			best = d
		}
	}
	return best
}

type shape struct {
	name string
	s, t []byte
	r    rune
	c    byte
}

func allocShapes(x *Ctx) []shape {
	var out []shape
	rep := func(u string, n int) []byte { return bytes.Repeat([]byte(u), n) }
	sizes := []int{0, 1, 8, 16, 17, 32, 33, 64, 65, 200, 1024, 5000, 70000}
	if x.tier == "thorough" {
		sizes = append(sizes, 262144, 300000)
	}
	for _, n := range sizes {
		out = append(out,
			shape{fmt.Sprintf("ascii-%d/no-match", n), rep("x", n), []byte("needle"), 'q', 'q'},
			shape{fmt.Sprintf("ascii-%d/match-at-end", n), append(rep("x", n), "NeEdLe"...), []byte("needle"), 'L', 'l'},
			shape{fmt.Sprintf("unicode-%d/match-at-end", n), append(rep("世", n/3), "ΩK"...), []byte("ωk"), 'Ω', 'k'},
			shape{fmt.Sprintf("illformed-%d", n), append(rep("\xff\x80", n/2), "\xe4\xb8�k"...), []byte("�\xc3K"), 0xFFFD, 0xff},
			// decoys: first rune of the needle repeated with a wrong successor (drives fails up: Rabin-Karp cut-over)
			shape{fmt.Sprintf("decoys-%d/rabin-karp", n), append(rep("ab", n/2), "ac"...), []byte("AC"), 'c', 'C'},
			// decoys sharing the trailing bytes of the rune's encoding (indexRuneCase -> IndexString hand-off)
			shape{fmt.Sprintf("rune-decoys-%d", n), append(rep("丗", n/3), "世"...), []byte("世"), '世', 0x96},
			shape{fmt.Sprintf("kelvin-%d", n), append(rep("k", n), "K"...), rep("K", 3), 'K', 'K'},
			// decoys sharing the LAST byte of the rune's encoding: false positives of the last-byte search,
			// drives indexRuneCase over its cut-over into bytealg.IndexString(s, string(r))
			shape{fmt.Sprintf("last-byte-decoys2-%d", n), append(rep("Џ", n/2), "я"...), []byte("Я"), 'я', 0x8f},
			shape{fmt.Sprintf("last-byte-decoys3-%d", n), append(rep("世", n/3), "乖"...), []byte("乖"), '乖', 0x96},
			shape{fmt.Sprintf("last-byte-decoys4-%d", n), append(rep("\U0001F600", n/4), "\U0001F640"...), []byte("\U0001F640"), 0x1F640, 0x80},
		)
	}
	// needles longer than 32 and 64 bytes, multi-kilobyte needles
	for _, m := range []int{33, 65, 200, 4096} {
		nd := rep("Ab", m/2)
		out = append(out,
			shape{fmt.Sprintf("long-needle-%d/match", m), append(rep("-", 100), bytes.ToLower(nd)...), nd, 'b', 'B'},
			shape{fmt.Sprintf("long-needle-%d/near-miss", m), append(rep("-", 100), bytes.ToLower(nd[:len(nd)-1])...), nd, 'b', 'B'},
			shape{fmt.Sprintf("long-needle-%d/short-haystack", m), []byte("ab"), nd, 'b', 'B'},
		)
	}
	// long needles (more code points than any fixed scratch array one would write: 65, 130, 3000) through every
	// strategy: straight to Rabin-Karp (ill-formed first / second code point), handed over from the main loop
	// (the needle's first two code points recur as false candidates in a periodic haystack), found, absent
	for _, m := range []int{65, 130, 3000} {
		body := rep("Ab", m/2)
		bodyU := rep("Щж", m/2)
		per := rep("ab", 3*m)
		for _, v := range []struct {
			name string
			s, t []byte
		}{
			{"illformed-first/found", append(append(rep("-", 50), "\xff"...), bytes.ToLower(body)...), append([]byte("\x80"), body...)},
			{"illformed-first/absent", append(append(rep("-", 50), "\xff"...), bytes.ToLower(body[:len(body)-1])...), append([]byte("\x80"), body...)},
			{"illformed-second/found", append(append(rep("-", 50), "a\xff"...), bytes.ToLower(body)...), append([]byte("A\xfe"), body...)},
			{"periodic/absent", per, append(append([]byte{}, per[:2*m]...), "c"...)},
			{"periodic/found-at-end", append(append([]byte{}, per...), "c"...), append(append([]byte{}, bytes.ToUpper(per[:2*m])...), "C"...)},
			{"unicode/found", append(rep("щж", 2*m), "я"...), append(append([]byte{}, bodyU...), "Я"...)},
			{"unicode/absent", rep("щж", 2*m), append(append([]byte{}, bodyU...), "Я"...)},
		} {
			out = append(out, shape{fmt.Sprintf("long-needle-%d-code-points/%s", m, v.name), v.s, v.t, 'b', 'B'})
		}
	}
	// second arguments (needle / chars / affix) longer than the runtime's 32-byte temporary buffer and not
	// ASCII, against haystacks more than twice / less than twice as long: every strategy of the Any family and
	// the affix functions with an argument that a hidden string<->[]byte conversion would have to copy
	for _, m := range []int{33, 40, 64, 200} {
		cyr := rep("щжяю", (m+7)/8)
		for _, k := range []int{1, 3} {
			hs := append(rep("the quick brown fox ", (k*len(cyr))/20+1), "Щ"...)
			out = append(out,
				shape{fmt.Sprintf("long-nonascii-arg-%d/haystack-x%d", m, k), hs, cyr, 'Щ', 0x89},
				shape{fmt.Sprintf("long-nonascii-arg-%d/haystack-x%d/no-match", m, k), hs[:len(hs)-2], append(append([]byte{}, cyr...), "k"...), 'ф', 0x84},
			)
		}
	}
	// brute force region (len(s) <= 16) with folds
	out = append(out, shape{"brute-force-folds", []byte("xxKſßx"), []byte("ksẞ"), 'ſ', 's'},
		shape{"any-ascii", []byte("the quick brown fox"), []byte("XYZq"), 'Q', 'Q'},
		shape{"any-unicode", []byte("the quick brown fox ſ"), []byte("Sß"), 'ß', 'S'},
		shape{"empty-needle", []byte("abc世"), nil, 0, 0},
		shape{"invalid-rune", []byte("abc世"), []byte("世"), -1, 0x80})
	return out
}

func init() {
	props["C05"] = func(x *Ctx) {
		old := debug.SetGCPercent(-1)
		defer debug.SetGCPercent(old)
		prev := runtime.GOMAXPROCS(1)
		defer runtime.GOMAXPROCS(prev)
		shapes := allocShapes(x)
		// self-test of the measurement: a call known to allocate must be seen to allocate
		probe := strings.Repeat("abc", 100)
		if m := mallocsOf(func() { sink += len(strings.ToUpper(probe)) }); m == 0 {
			x.finding(Finding{Kind: "infra", Detail: "malloc measurement self-test failed: strings.ToUpper measured 0 mallocs"})
			return
		} else {
			x.note("measurement self-test: strings.ToUpper(300 bytes) = %d mallocs", m)
		}
		// per function measurement: every exported function of both packages separately
		// every shape also with its needle replaced by the single byte / single code point of the shape
		// (the one-byte and one-rune paths of Index, LastIndex, Count, Cut, IndexAny: kernels, countRune)
		var all []shape
		for _, sh := range shapes {
			all = append(all, sh)
			if sh.c != 0 {
				all = append(all, shape{sh.name + "/needle=1 byte", sh.s, []byte{sh.c}, sh.r, sh.c})
			}
			if sh.r > 0 {
				all = append(all, shape{sh.name + "/needle=1 rune", sh.s, []byte(string(sh.r)), sh.r, sh.c})
			}
		}
		for _, sh := range all {
			s, t := string(sh.s), string(sh.t)
			sb, tb := append([]byte{}, sh.s...), append([]byte{}, sh.t...)
			for i := range fnDefs {
				d := &fnDefs[i]
				if d.kind != kSS && (strings.HasSuffix(sh.name, "1 byte") || strings.HasSuffix(sh.name, "1 rune")) {
					continue
				}
				var ms, mb uint64
				rr := int64(sh.r)
				if d.kind == kSB {
					rr = int64(sh.c)
				}
				// measure the raw call (the observation strings of obs.go allocate, so call the API directly)
				ms = mallocsOf(func() { sink += rawCallStr(d.name, s, t, rune(rr), byte(rr)) })
				mb = mallocsOf(func() { sink += rawCallByt(d.name, sb, tb, rune(rr), byte(rr)) })
				x.st.Evaluations += 2
				x.st.Distinct += 2
				x.st.Nontrivial += 2
				x.st.PerFn[d.name] += 2
				if ms != 0 || mb != 0 {
					x.finding(Finding{Kind: "alloc", Fn: d.name, Case: (&Case{Fn: d.name, S: sh.s, T: sh.t, R: rr}).line(),
						Detail: fmt.Sprintf("shape %s: mallocs per call strcase=%d bytcase=%d (want 0)", sh.name, ms, mb)})
				}
				if len(x.st.Samples) < 10 && i == 2 {
					x.st.Samples = append(x.st.Samples, fmt.Sprintf("%s on shape %s: mallocs strcase=%d bytcase=%d", d.name, sh.name, ms, mb))
				}
			}
			x.st.Dist["len_s:"+lenBucket(len(sh.s))]++
		}
		// views: checked by obs.go on every correspondence case ("COPY"); here on the shapes as well
		for _, sh := range shapes {
			for _, fn := range []string{"TrimPrefix", "TrimSuffix", "CutPrefix", "CutSuffix", "Cut"} {
				a, b := x.run(fn, sh.s, sh.t, 0)
				if strings.Contains(a, "COPY") || strings.Contains(b, "COPY") {
					x.relFail("copy", fn, &Case{Fn: fn, S: sh.s, T: sh.t}, "result is not a view of the first argument")
				}
			}
		}
		x.note("shapes: %d, functions: %d x 2 packages; GC off, GOMAXPROCS=1, min of 3 repeats", len(shapes), len(fnDefs))
	}

	props["C18"] = func(x *Ctx) {
		// shared backing arrays used by all goroutines at once
		type job struct {
			s, t []byte
			r    rune
			c    byte
			want int
		}
		var jobs []job
		n := 300 * x.scale
		for i := 0; i < n; i++ {
			st := streamValid
			if i%3 == 2 {
				st = streamIll
			}
			s, t := x.g.pair(st)
			_, r := x.g.runeCase(st)
			_, c := x.g.byteCase(st)
			j := job{s: s, t: t, r: rune(r), c: byte(c)}
			jobs = append(jobs, j)
		}
		for _, sh := range allocShapes(x) {
			if len(sh.s) <= 6000 {
				jobs = append(jobs, job{s: sh.s, t: sh.t, r: sh.r, c: sh.c})
			}
		}
		// jobs that lean on the shared folding tables: for every orbit with three or more members, each member
		// at the END of a long caseless haystack (beyond any "large input" threshold), searched for through each
		// other member, so that concurrent goroutines look up the same table rows for different haystacks
		for r := rune(0x80); r <= 0x1FFFF; r++ {
			if orbitMin(r) != r {
				continue
			}
			o := orbitOf(r)
			if len(o) < 3 {
				continue
			}
			for _, m := range o {
				hs := append(bytes.Repeat([]byte("0123456789 "), 190), string(m)...)
				for _, q := range o {
					if q != m {
						jobs = append(jobs, job{s: hs, t: []byte(string(q)), r: q, c: '9'})
					}
				}
			}
		}
		// sequential results (twice: determinism), with argument snapshots
		for i := range jobs {
			j := &jobs[i]
			s0, t0 := append([]byte{}, j.s...), append([]byte{}, j.t...)
			ss, ts := strView(j.s), strView(j.t) // strings sharing the backing arrays the byte functions get
			j.want = callAll(ss, ts, j.s, j.t, j.r, j.c)
			again := callAll(ss, ts, j.s, j.t, j.r, j.c)
			x.st.Evaluations += 92
			if again != j.want {
				x.relFail("relation", "all", &Case{Fn: "Index", S: j.s, T: j.t}, "repeated call returned a different result")
			}
			if !bytes.Equal(s0, j.s) || !bytes.Equal(t0, j.t) {
				x.relFail("mutated", "all", &Case{Fn: "Index", S: s0, T: t0}, "an argument was modified")
			}
		}
		// the views: every result of the Trim and Cut families must alias the first argument at the positions the
		// result implies (compared with the Go reference's offsets; an empty result must be the empty slice at that
		// offset — aliasHook, obs.go), on every job and on edge shapes: the match at the very end, at the very
		// start, the whole argument, an empty second argument, an empty first argument
		viewFns := []string{"TrimPrefix", "TrimSuffix", "CutPrefix", "CutSuffix", "Cut"}
		nViews := 0
		checkViews := func(sv, tv []byte) {
			for _, fn := range viewFns {
				c := &Case{Fn: fn, S: sv, T: tv}
				a, b := observe(c)
				want := ref(c)
				nViews++
				if a != want || b != want {
					x.relFail("copy", fn, c, fmt.Sprintf("result views strcase=%s bytcase=%s, the positions implied by the result are %s", a, b, want))
				}
			}
		}
		for i := range jobs {
			checkViews(jobs[i].s, jobs[i].t)
		}
		for _, w := range [][2]string{{"k", "K"}, {"K", "k"}, {"ſ", "S"}, {"ß", "ẞ"}, {"x", "X"}, {"=", "="}, {"\xff", "\xfe"}, {"世", "世"}, {"ab", "AB"}} {
			for _, pad := range []string{"", "key", "0123456789abcdefghij"} {
				big := make([]byte, 0, 64) // spare capacity behind the argument
				for _, sv := range []string{pad + w[0], w[0] + pad, w[0], pad + w[0] + pad, pad, ""} {
					sb := append(big[:0:0], sv...)
					sb = append(make([]byte, 0, len(sv)+17), sb...)
					checkViews(sb, []byte(w[1]))
					checkViews(sb, nil)
				}
			}
		}
		x.note("views of the Trim/Cut families checked against the implied positions on %d calls", nViews)
		// nor on what the SAME buffer held during an earlier call (a result remembered by address): a needle buffer
		// and a haystack buffer are refilled in place with contents of the same length and every function is called
		// again; each result must be the one private copies of the new contents give
		{
			fills := [][2]string{{"abcdef", "\u212a\u212a"}, {"\u212a\u212a", "abcdef"}, {"kkkkkk", "\u017f\u017f\u017f"}, {"xyz", "XYZ"}, {"\xff\xfe\xfd", "\ufffd"}, {"aaa", "\u4e16"}}
			hays := []string{"kk", "abcdef", "xKkx", "sss", "\ufffd", "xyz-xyz-\u4e16"}
			nRe := 0
			type rec struct {
				fn        string
				s, t      []byte
				got, held string
			}
			for _, fl := range fills {
				nb := make([]byte, len(fl[0]))
				hb := make([]byte, len(fl[0]))
				for _, other := range hays {
					// all calls on the buffers first (both fillings, no other call in between that could evict what a
					// function remembered), the reference calls on private copies only afterwards
					var recs []rec
					for phase := 0; phase < 2; phase++ {
						copy(nb, fl[phase])
						copy(hb, fl[phase])
						for _, fn := range allSS {
							d := fnByName[fn]
							for _, pr := range [][2][]byte{{[]byte(other), nb}, {hb, []byte(other)}} {
								got := d.byt(pr[0], pr[1], 0)
								recs = append(recs, rec{fn, append([]byte{}, pr[0]...), append([]byte{}, pr[1]...), got, fl[1-phase]})
							}
						}
					}
					for _, r := range recs {
						want := fnByName[r.fn].byt(append([]byte{}, r.s...), append([]byte{}, r.t...), 0)
						nRe++
						if r.got != want {
							x.relFail("relation", r.fn, &Case{Fn: r.fn, S: r.s, T: r.t},
								fmt.Sprintf("bytcase.%s returns %s on a buffer refilled in place (it held %q during earlier calls) but %s on a private copy of the same bytes", r.fn, r.got, r.held, want))
						}
					}
				}
			}
			x.note("buffers refilled in place between calls: %d calls compared with private copies", nRe)
		}
		// results must not depend on whether the arguments share memory, nor on nil versus empty
		x.aliasedViews(allSS)
		x.nilArgs()
		// concurrent: G goroutines, each walks all jobs from a different offset
		G := 64
		var wg sync.WaitGroup
		bad := make([]int, G)
		for g := 0; g < G; g++ {
			wg.Add(1)
			go func(g int) {
				defer wg.Done()
				for k := 0; k < len(jobs); k++ {
					j := &jobs[(k*7+g*13)%len(jobs)]
					if callAll(strView(j.s), strView(j.t), j.s, j.t, j.r, j.c) != j.want {
						bad[g]++
					}
				}
			}(g)
		}
		wg.Wait()
		x.st.Evaluations += G * len(jobs) * 46
		x.st.Distinct += len(jobs)
		x.st.Nontrivial += len(jobs)
		for g, b := range bad {
			if b > 0 {
				x.relFail("relation", "all", nil, fmt.Sprintf("goroutine %d: %d concurrent calls returned a result different from the sequential one", g, b))
			}
		}
		// shared state must be as it was: the sequential results once more
		for i := range jobs {
			j := &jobs[i]
			if callAll(strView(j.s), strView(j.t), j.s, j.t, j.r, j.c) != j.want {
				x.relFail("relation", "all", &Case{Fn: "Index", S: j.s, T: j.t}, "after the concurrent run the same call returns a different result: shared state was modified")
				break
			}
		}
		x.note("jobs: %d, goroutines: %d, every exported function of both packages per job, strings and slices share backing arrays; race detector: %v", len(jobs), G, raceEnabled)
		if len(jobs) > 0 {
			x.st.Samples = append(x.st.Samples, fmt.Sprintf("job 0: s=%x t=%x r=%d c=%d", jobs[0].s, jobs[0].t, jobs[0].r, jobs[0].c))
		}
		_ = utf8.RuneError
	}
}

func rawCallStr(fn, s, t string, r rune, c byte) int {
	switch fn {
	case "Compare":
		return strcase.Compare(s, t)
	case "EqualFold":
		return bi(strcase.EqualFold(s, t))
	case "Index":
		return strcase.Index(s, t)
	case "Contains":
		return bi(strcase.Contains(s, t))
	case "LastIndex":
		return strcase.LastIndex(s, t)
	case "HasPrefix":
		return bi(strcase.HasPrefix(s, t))
	case "HasSuffix":
		return bi(strcase.HasSuffix(s, t))
	case "TrimPrefix":
		return len(strcase.TrimPrefix(s, t))
	case "TrimSuffix":
		return len(strcase.TrimSuffix(s, t))
	case "CutPrefix":
		a, f := strcase.CutPrefix(s, t)
		return len(a) + bi(f)
	case "CutSuffix":
		a, f := strcase.CutSuffix(s, t)
		return len(a) + bi(f)
	case "Count":
		return strcase.Count(s, t)
	case "Cut":
		a, b, f := strcase.Cut(s, t)
		return len(a) + len(b) + bi(f)
	case "IndexAny":
		return strcase.IndexAny(s, t)
	case "LastIndexAny":
		return strcase.LastIndexAny(s, t)
	case "ContainsAny":
		return bi(strcase.ContainsAny(s, t))
	case "IndexRune":
		return strcase.IndexRune(s, r)
	case "ContainsRune":
		return bi(strcase.ContainsRune(s, r))
	case "IndexByte":
		return strcase.IndexByte(s, c)
	case "LastIndexByte":
		return strcase.LastIndexByte(s, c)
	case "IndexByteASCII":
		return strcase.IndexByteASCII(s, c)
	case "IndexNonASCII":
		return strcase.IndexNonASCII(s)
	case "ContainsNonASCII":
		return bi(strcase.ContainsNonASCII(s))
	}
	panic("rawCallStr: " + fn)
}

func rawCallByt(fn string, s, t []byte, r rune, c byte) int {
	switch fn {
	case "Compare":
		return bytcase.Compare(s, t)
	case "EqualFold":
		return bi(bytcase.EqualFold(s, t))
	case "Index":
		return bytcase.Index(s, t)
	case "Contains":
		return bi(bytcase.Contains(s, t))
	case "LastIndex":
		return bytcase.LastIndex(s, t)
	case "HasPrefix":
		return bi(bytcase.HasPrefix(s, t))
	case "HasSuffix":
		return bi(bytcase.HasSuffix(s, t))
	case "TrimPrefix":
		return len(bytcase.TrimPrefix(s, t))
	case "TrimSuffix":
		return len(bytcase.TrimSuffix(s, t))
	case "CutPrefix":
		a, f := bytcase.CutPrefix(s, t)
		return len(a) + bi(f)
	case "CutSuffix":
		a, f := bytcase.CutSuffix(s, t)
		return len(a) + bi(f)
	case "Count":
		return bytcase.Count(s, t)
	case "Cut":
		a, b, f := bytcase.Cut(s, t)
		return len(a) + len(b) + bi(f)
	case "IndexAny":
		return bytcase.IndexAny(s, t)
	case "LastIndexAny":
		return bytcase.LastIndexAny(s, t)
	case "ContainsAny":
		return bi(bytcase.ContainsAny(s, t))
	case "IndexRune":
		return bytcase.IndexRune(s, r)
	case "ContainsRune":
		return bi(bytcase.ContainsRune(s, r))
	case "IndexByte":
		return bytcase.IndexByte(s, c)
	case "LastIndexByte":
		return bytcase.LastIndexByte(s, c)
	case "IndexByteASCII":
		return bytcase.IndexByteASCII(s, c)
	case "IndexNonASCII":
		return bytcase.IndexNonASCII(s)
	case "ContainsNonASCII":
		return bi(bytcase.ContainsNonASCII(s))
	}
	panic("rawCallByt: " + fn)
}

func bi(b bool) int {
	if b {
		return 1
	}
	return 0
}
