//go:build !verif_internals

package main

const haveInternals = false

func (x *Ctx) internalPrefix(s, p []byte) {}

func (x *Ctx) internalRune(s []byte, r int64) {}
func (x *Ctx) internalByte(s []byte, c int64) {}
func (x *Ctx) internalIndex(s, sub []byte)    {}

// rkPrime: without the internal hooks, the value in the pinned source
func rkPrime() uint32 { return 16777619 }
