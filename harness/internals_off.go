//go:build !verif_internals

package main

const haveInternals = false

func (x *Ctx) internalPrefix(s, p []byte) {}
