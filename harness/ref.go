package main

// ref.go — a fast Go transcription of coq/theories/Spec.v, used only for
// volume: every disagreement between the implementation and this reference
// is re-decided by the extracted Coq Spec before anything is reported, and
// the reference itself is compared with the extracted Spec on every case
// that goes through the OCaml driver.  It uses unicode.SimpleFold (orbit
// minimum) for code-point equality, and the repository's CaseFold (via the
// verif hook) only for the order Compare reports between unequal orbits.

import (
	"unicode"
	"unicode/utf8"

	"github.com/charlievieth/strcase"
)

type segm struct {
	r rune
	w int
}

func segsOf(s []byte) []segm {
	out := make([]segm, 0, len(s))
	for i := 0; i < len(s); {
		r, w := utf8.DecodeRune(s[i:])
		out = append(out, segm{r, w})
		i += w
	}
	return out
}

var orbitMinCache [0x110000]int32

func init() {
	for i := range orbitMinCache {
		orbitMinCache[i] = -1
	}
}

// orbitMin: least member of r's SimpleFold orbit
func orbitMin(r rune) rune {
	if r < 0 || r > unicode.MaxRune {
		return r
	}
	if v := orbitMinCache[r]; v >= 0 {
		return rune(v)
	}
	m := r
	for x := unicode.SimpleFold(r); x != r; x = unicode.SimpleFold(x) {
		if x < m {
			m = x
		}
	}
	orbitMinCache[r] = int32(m)
	return m
}

func orbitOf(r rune) []rune {
	out := []rune{r}
	if r < 0 || r > unicode.MaxRune {
		return out
	}
	for x := unicode.SimpleFold(r); x != r; x = unicode.SimpleFold(x) {
		out = append(out, x)
	}
	return out
}

type keyed struct {
	k   []rune // orbit minimum per code point
	off []int  // off[i] = byte offset of boundary i; len = len(k)+1
}

func keyOf(s []byte) keyed {
	sg := segsOf(s)
	k := keyed{k: make([]rune, len(sg)), off: make([]int, len(sg)+1)}
	o := 0
	for i, x := range sg {
		k.k[i] = orbitMin(x.r)
		k.off[i] = o
		o += x.w
	}
	k.off[len(sg)] = o
	return k
}

func prefixAt(p, l []rune, at int) bool {
	if len(p) > len(l)-at {
		return false
	}
	for i, x := range p {
		if l[at+i] != x {
			return false
		}
	}
	return true
}

func refFindFirst(p, l []rune) int {
	for k := 0; k <= len(l); k++ {
		if prefixAt(p, l, k) {
			return k
		}
	}
	return -1
}

func refFindLast(p, l []rune) int {
	for k := len(l); k >= 0; k-- {
		if prefixAt(p, l, k) {
			return k
		}
	}
	return -1
}

func offOr(k keyed, i int) int {
	if i < 0 {
		return -1
	}
	return k.off[i]
}

func sl(lo, hi int) string {
	if lo == hi {
		return "e"
	}
	return itoa(lo) + ":" + itoa(hi)
}

func refCompare(s, t []byte) int {
	a, b := segsOf(s), segsOf(t)
	for i := 0; i < len(a) && i < len(b); i++ {
		x, y := strcase.VerifCaseFold(a[i].r), strcase.VerifCaseFold(b[i].r)
		if x != y {
			return sign(int(x) - int(y))
		}
	}
	return sign(len(a) - len(b))
}

func validRune(r int64) bool {
	return r >= 0 && r <= unicode.MaxRune && !(0xD800 <= r && r <= 0xDFFF)
}

func isAlphaB(c byte) bool { return 'A' <= c && c <= 'Z' || 'a' <= c && c <= 'z' }

func bytePats(c byte) [][]byte {
	if !isAlphaB(c) {
		return [][]byte{{c}}
	}
	l := c | 0x20
	p := [][]byte{{l}, {l - 32}}
	if l == 'k' {
		p = append(p, []byte("K"))
	}
	if l == 's' {
		p = append(p, []byte("ſ"))
	}
	return p
}

func hasPrefB(s, p []byte) bool {
	return len(s) >= len(p) && string(s[:len(p)]) == string(p)
}

// ref computes the reference observation for a case ("" if the function is unknown)
func ref(c *Case) string {
	s, t := c.S, c.T
	switch c.Fn {
	case "Compare":
		return itoa(refCompare(s, t))
	case "IndexNonASCII", "ContainsNonASCII":
		i := -1
		for j, b := range s {
			if b >= 0x80 {
				i = j
				break
			}
		}
		if c.Fn == "ContainsNonASCII" {
			return b2s(i >= 0)
		}
		return itoa(i)
	case "IndexByte", "LastIndexByte":
		pats := bytePats(byte(c.R))
		first, last := -1, -1
		for i := range s {
			for _, p := range pats {
				if hasPrefB(s[i:], p) {
					if first < 0 {
						first = i
					}
					last = i
				}
			}
		}
		if c.Fn == "IndexByte" {
			return itoa(first)
		}
		return itoa(last)
	case "IndexByteASCII":
		cc := byte(c.R)
		for i, b := range s {
			if b == cc || (isAlphaB(cc) && b|0x20 == cc|0x20 && b < 0x80 && isAlphaB(b)) {
				return itoa(i)
			}
		}
		return "-1"
	}
	ks := keyOf(s)
	switch c.Fn {
	case "IndexRune", "ContainsRune":
		i := -1
		if validRune(c.R) {
			m := orbitMin(rune(c.R))
			for j, x := range ks.k {
				if x == m {
					i = ks.off[j]
					break
				}
			}
		}
		if c.Fn == "ContainsRune" {
			return b2s(i >= 0)
		}
		return itoa(i)
	}
	kt := keyOf(t)
	switch c.Fn {
	case "EqualFold":
		return b2s(len(ks.k) == len(kt.k) && prefixAt(kt.k, ks.k, 0))
	case "Index":
		return itoa(offOr(ks, refFindFirst(kt.k, ks.k)))
	case "Contains":
		return b2s(refFindFirst(kt.k, ks.k) >= 0)
	case "LastIndex":
		return itoa(offOr(ks, refFindLast(kt.k, ks.k)))
	case "HasPrefix":
		return b2s(prefixAt(kt.k, ks.k, 0))
	case "HasSuffix":
		return b2s(len(kt.k) <= len(ks.k) && prefixAt(kt.k, ks.k, len(ks.k)-len(kt.k)))
	case "TrimPrefix", "CutPrefix":
		ok := prefixAt(kt.k, ks.k, 0)
		r := sl(0, len(s))
		if ok {
			r = sl(ks.off[len(kt.k)], len(s))
		}
		if c.Fn == "CutPrefix" {
			r += ":" + b2s(ok)
		}
		return r
	case "TrimSuffix", "CutSuffix":
		ok := len(kt.k) <= len(ks.k) && prefixAt(kt.k, ks.k, len(ks.k)-len(kt.k))
		r := sl(0, len(s))
		if ok {
			r = sl(0, ks.off[len(ks.k)-len(kt.k)])
		}
		if c.Fn == "CutSuffix" {
			r += ":" + b2s(ok)
		}
		return r
	case "Count":
		if len(t) == 0 {
			return itoa(len(ks.k) + 1)
		}
		n := 0
		for k := 0; k <= len(ks.k); {
			if prefixAt(kt.k, ks.k, k) {
				n++
				k += len(kt.k)
			} else {
				k++
			}
		}
		return itoa(n)
	case "Cut":
		k := refFindFirst(kt.k, ks.k)
		if k < 0 {
			return sl(0, len(s)) + ":e:0"
		}
		return sl(0, ks.off[k]) + ":" + sl(ks.off[k+len(kt.k)], len(s)) + ":1"
	case "IndexAny", "ContainsAny", "LastIndexAny":
		set := map[rune]bool{}
		for _, x := range kt.k {
			set[x] = true
		}
		first, last := -1, -1
		for j, x := range ks.k {
			if set[x] {
				if first < 0 {
					first = ks.off[j]
				}
				last = ks.off[j]
			}
		}
		switch c.Fn {
		case "IndexAny":
			return itoa(first)
		case "LastIndexAny":
			return itoa(last)
		}
		return b2s(first >= 0)
	}
	return ""
}
