package main

// props.go — what each property's run explores (correspondence corpus).
// Relational checks (C04 algebra, C16, C17, C19, C20) are in rel.go.

import (
	"bufio"
	"bytes"
	"fmt"
	"os"
	"strconv"
	"strings"
	"unicode"
	"unicode/utf8"

	"github.com/charlievieth/strcase"
	"github.com/charlievieth/strcase/bytcase"
)

var corpusPath = "/verif/corpus/regressions.tsv"

func nativeIndex() bool { return strcase.VerifNativeIndex }

func unhex(h string) ([]byte, error) {
	if h == "-" || h == "" {
		return nil, nil
	}
	if len(h)%2 != 0 {
		return nil, fmt.Errorf("odd hex %q", h)
	}
	out := make([]byte, len(h)/2)
	for i := range out {
		v, err := strconv.ParseUint(h[2*i:2*i+2], 16, 8)
		if err != nil {
			return nil, err
		}
		out[i] = byte(v)
	}
	return out, nil
}

func parseCase(line string) (*Case, error) {
	f := strings.Split(strings.TrimRight(line, "\n"), "\t")
	if len(f) < 2 {
		return nil, fmt.Errorf("bad case line %q", line)
	}
	d := fnByName[f[0]]
	if d == nil {
		return nil, fmt.Errorf("unknown function %q", f[0])
	}
	c := &Case{Fn: f[0]}
	var err error
	if c.S, err = unhex(f[1]); err != nil {
		return nil, err
	}
	switch d.kind {
	case kSS:
		if len(f) < 3 {
			return nil, fmt.Errorf("missing argument in %q", line)
		}
		if c.T, err = unhex(f[2]); err != nil {
			return nil, err
		}
	case kSR, kSB:
		if len(f) < 3 {
			return nil, fmt.Errorf("missing argument in %q", line)
		}
		if c.R, err = strconv.ParseInt(f[2], 10, 64); err != nil {
			return nil, err
		}
	}
	return c, nil
}

// regressions: the committed corpus (the defects found so far and every
// minimised failure) runs first, through the model as well.
func (x *Ctx) regressions() {
	f, err := os.Open(corpusPath)
	if err != nil {
		x.note("regression corpus not found: %v", err)
		return
	}
	defer f.Close()
	sc := bufio.NewScanner(f)
	sc.Buffer(make([]byte, 1<<20), 1<<24)
	n := 0
	for sc.Scan() {
		line := sc.Text()
		if line == "" || line[0] == '#' {
			continue
		}
		i := strings.IndexByte(line, '\t')
		if i < 0 {
			continue
		}
		tags := line[:i]
		if tags != "*" && !strings.Contains(","+tags+",", ","+x.prop+",") {
			continue
		}
		c, err := parseCase(line[i+1:])
		if err != nil {
			x.note("corpus: %v", err)
			continue
		}
		x.eval(c, true)
		n++
	}
	x.note("regression corpus: %d cases", n)
}

var allSS = []string{"Compare", "EqualFold", "Index", "Contains", "LastIndex", "HasPrefix", "HasSuffix",
	"TrimPrefix", "TrimSuffix", "CutPrefix", "CutSuffix", "Count", "Cut", "IndexAny", "LastIndexAny", "ContainsAny"}

func (x *Ctx) pairsFor(fns []string, streams []int, n int) {
	hasIndex := false
	for _, fn := range fns {
		if fn == "Index" || fn == "LastIndex" {
			hasIndex = true
		}
	}
	for i := 0; i < n; i++ {
		st := streams[i%len(streams)]
		s, t := x.g.pair(st)
		for _, fn := range fns {
			x.run(fn, s, t, 0)
		}
		if hasIndex && i%8 == 0 {
			x.internalIndex(s, t)
		}
	}
}

// affix pairs: needle is a re-cased prefix or suffix of s (or nearly)
func (x *Ctx) affixPair(stream int) (s, p []byte) {
	g := x.g
	alpha := g.alphabet(stream)
	ill := stream == streamIll
	core := g.toks(alpha, g.intn(9))
	s = join(core)
	if g.chance(0.5) {
		if g.chance(0.5) {
			s = append(s, g.pad(stream)...)
		} else {
			s = append(g.pad(stream), s...)
		}
	}
	sg := segsOf(s)
	k := 0
	if len(sg) > 0 {
		k = g.intn(len(sg) + 1)
	}
	w := 0
	if g.chance(0.5) { // prefix
		for _, q := range sg[:k] {
			w += q.w
		}
		p = append([]byte{}, s[:w]...)
	} else {
		for _, q := range sg[len(sg)-k:] {
			w += q.w
		}
		p = append([]byte{}, s[len(s)-w:]...)
	}
	p = g.recase(p, ill, 0.6)
	switch g.intn(8) {
	case 0:
		p = append(p, g.pick(alpha)...)
	case 1:
		p = append([]byte(g.pick(alpha)), p...)
	case 2: // s is a proper prefix / suffix of the affix
		p = g.recase(s, ill, 0.5)
		if g.chance(0.5) {
			p = append(p, g.pick(alpha)...)
		} else {
			p = append([]byte(g.pick(alpha)), p...)
		}
	case 3:
		if len(p) > 0 {
			q := segsOf(p)
			i := g.intn(len(q))
			o := 0
			for _, y := range q[:i] {
				o += y.w
			}
			np := append([]byte{}, p[:o]...)
			np = append(np, g.pick(alpha)...)
			np = append(np, p[o+q[i].w:]...)
			p = np
		}
	}
	return
}

func (x *Ctx) affixFor(fns []string, streams []int, n int) {
	for i := 0; i < n; i++ {
		s, p := x.affixPair(streams[i%len(streams)])
		for _, fn := range fns {
			x.run(fn, s, p, 0)
		}
		if i%4 == 0 {
			x.internalPrefix(s, p)
		}
	}
}

func (x *Ctx) runesFor(streams []int, n int) {
	for i := 0; i < n; i++ {
		s, r := x.g.runeCase(streams[i%len(streams)])
		x.run("IndexRune", s, nil, r)
		x.run("ContainsRune", s, nil, r)
		if i%5 == 0 {
			x.internalRune(s, r)
		}
	}
}

func (x *Ctx) bytesFor(streams []int, n int) {
	for i := 0; i < n; i++ {
		s, c := x.g.byteCase(streams[i%len(streams)])
		x.run("IndexByte", s, nil, c)
		x.run("LastIndexByte", s, nil, c)
		x.run("IndexByteASCII", s, nil, c)
		if i%5 == 0 {
			x.internalByte(s, c)
		}
	}
}

func (x *Ctx) anyFor(streams []int, n int) {
	for i := 0; i < n; i++ {
		s, chars := x.g.anyCase(streams[i%len(streams)])
		x.run("IndexAny", s, chars, 0)
		x.run("LastIndexAny", s, chars, 0)
		x.run("ContainsAny", s, chars, 0)
	}
}

func (x *Ctx) nonASCIIFor(n int) {
	for i := 0; i < n; i++ {
		l := padLens[x.g.intn(len(padLens))] + x.g.intn(4)
		s := bytes.Repeat([]byte{byte('a' + x.g.intn(26))}, l)
		if l > 0 && x.g.chance(0.7) {
			s[x.g.intn(l)] = byte(0x80 + x.g.intn(128))
			if x.g.chance(0.3) {
				s[x.g.intn(l)] = byte(0x80 + x.g.intn(128))
			}
		}
		x.run("IndexNonASCII", s, nil, 0)
		x.run("ContainsNonASCII", s, nil, 0)
	}
}

// threshold sweep: len(s) x len(sub) grid around the strategy cut-overs
func (x *Ctx) thresholdSweep(fns []string, stream int, maxS, maxT int) {
	g := x.g
	for ls := 0; ls <= maxS; ls++ {
		for lt := 0; lt <= maxT; lt++ {
			alpha := g.alphabet(stream)
			var s, t []byte
			for len(t) < lt {
				t = append(t, g.pick(alpha)...)
			}
			// place a re-cased copy of t somewhere in s (or not)
			fill := g.pick([]string{"x", "-", "世", "k"})
			pos := 0
			if ls > 0 {
				pos = g.intn(ls)
			}
			for len(s) < pos {
				s = append(s, fill...)
			}
			if g.chance(0.7) {
				s = append(s, g.recase(t, stream == streamIll, 0.5)...)
			}
			for len(s) < ls {
				s = append(s, fill...)
			}
			for _, fn := range fns {
				x.run(fn, s, t, 0)
			}
		}
	}
}

func init() {
	valid := []int{streamValid}
	both := []int{streamValid, streamIll}
	ill := []int{streamIll}

	props["C01"] = func(x *Ctx) {
		fns := []string{"Index", "Contains"}
		x.limit = x.limit * 5 / 2
		x.aliasedViews(fns)
		x.pairsFor(fns, valid, 15000*x.scale)
		x.ratioSweep(fns, false)
		x.thresholdSweep(fns, streamValid, 80, 40)
		x.orbitPairsSS(fns)
		x.hashCollisions(fns)
		x.nearMissBlocks(fns)
		x.siblingDecoys(fns)
		x.straddleSS(fns)
		x.kelvinTails(fns)
		x.offsetNeighbours(fns)
		x.nonLetterHead(fns)
		x.specialPairContexts(fns)
		x.pairsFor(fns, valid, 120000*x.scale)
		relC01(x, 20000*x.scale)
	}
	props["C02"] = func(x *Ctx) {
		fns := []string{"EqualFold"}
		x.aliasedViews(fns)
		// all single byte pairs
		for a := 0; a < 256; a++ {
			for b := 0; b < 256; b++ {
				x.eval(&Case{Fn: "EqualFold", S: []byte{byte(a)}, T: []byte{byte(b)}}, a%16 == b%16)
			}
		}
		// hand-over offsets from the ASCII loop to the rune loop
		for off := 0; off <= 40; off++ {
			for _, tok := range []string{"K", "ſ", "é", "\xff", "�", "世", "𐐀"} {
				for _, tok2 := range []string{"k", "s", "É", "\x80", "\xfe", "世", "𐐨", "x"} {
					pre := bytes.Repeat([]byte("aB"), 21)[:off]
					s := append(append([]byte{}, pre...), tok...)
					t := append(x.g.recase(pre, false, 0.5), tok2...)
					x.run("EqualFold", append(s, "tail"...), append(t, "TAIL"...), 0)
					x.run("EqualFold", s, append(t, "T"...), 0)
				}
			}
		}
		x.bytePairBlocks(fns)
		x.offsetNeighbours(fns)
		x.truncatedInPlace(fns)
		x.specialPairContexts(fns)
		x.pairsFor(fns, both, 60000*x.scale)
		x.equalPairs(fns, both, 60000*x.scale)
		relC02(x)
	}
	props["C04"] = func(x *Ctx) {
		fns := []string{"Compare", "EqualFold"}
		x.aliasedViews(fns)
		x.bytePairBlocks(fns)
		x.offsetNeighbours(fns)
		x.truncatedInPlace(fns)
		x.specialPairContexts(fns)
		x.pairsFor(fns, both, 50000*x.scale)
		x.equalPairs(fns, both, 50000*x.scale)
		relC04(x, 60000*x.scale)
	}
	props["C06"] = func(x *Ctx) {
		x.nilArgs()
		x.hugeHaystacks()
		x.aliasedViews(allSS)
		x.kelvinTails(allSS)
		x.truncatedInPlace(allSS)
		x.ratioSweep(allSS, true)
		x.pairsFor(allSS, ill, 12000*x.scale)
		x.affixFor(allSS, ill, 6000*x.scale)
		x.runesFor(ill, 20000*x.scale)
		x.bytesFor(ill, 20000*x.scale)
		x.anyFor(ill, 20000*x.scale)
		x.nonASCIIFor(3000 * x.scale)
		x.strayAll()
		x.exhaustiveSmall(allSS, []string{"a", "K", "\xff", "\x80", "�", "\xe4\xb8", "世", "\xc3", "ſ", "\xed\xa0\x80", "\xf0\x90"}, 3, 2)
		relC06(x)
		x.guardedAPI()
	}
	props["C07"] = func(x *Ctx) {
		x.nilArgs()
		x.hugeHaystacks()
		x.aliasedViews(allSS)
		x.nonLetterHead(allSS)
		x.kelvinTails(allSS)
		x.truncatedInPlace(allSS)
		x.ratioSweep(allSS, true)
		x.pairsFor(allSS, both, 12000*x.scale)
		x.affixFor(allSS, both, 6000*x.scale)
		x.runesFor(both, 20000*x.scale)
		x.bytesFor(both, 20000*x.scale)
		x.anyFor(both, 20000*x.scale)
		x.nonASCIIFor(3000 * x.scale)
		x.strayAll()
		relC07(x)
	}
	props["C08"] = func(x *Ctx) {
		fns := []string{"LastIndex"}
		x.aliasedViews(fns)
		x.ratioSweep(fns, false)
		x.thresholdSweep(fns, streamValid, 80, 40)
		x.orbitPairsSS(fns)
		x.hashCollisions(fns)
		x.nearMissBlocks(fns)
		x.siblingDecoys(fns)
		x.straddleSS(fns)
		x.kelvinTails(fns)
		x.offsetNeighbours(fns)
		x.nonLetterHead(fns)
		x.specialPairContexts(fns)
		x.pairsFor(fns, valid, 150000*x.scale)
		relC08(x, 30000*x.scale)
	}
	props["C09"] = func(x *Ctx) {
		fns := []string{"HasPrefix", "HasSuffix", "TrimPrefix", "TrimSuffix", "CutPrefix", "CutSuffix"}
		x.aliasedViews(fns)
		x.ratioSweep(fns, false)
		x.nearMissBlocks(fns)
		x.bytePairBlocks(fns)
		x.fffdBait(fns)
		x.kelvinTails(fns)
		x.offsetNeighbours(fns)
		x.nonLetterHead(fns)
		x.specialPairContexts(fns)
		x.affixFor(fns, valid, 60000*x.scale)
		x.pairsFor(fns, valid, 20000*x.scale)
		x.thresholdSweep(fns, streamValid, 40, 40)
	}
	props["C10"] = func(x *Ctx) {
		x.limit *= 3
		for k := 0; k < 4; k++ {
			x.bytesFor(both, 20000*x.scale)
			x.runesFor(both, 20000*x.scale)
		}
		x.everyCodePoint()
		x.orbitPairs()
		x.offsetNeighboursRune()
		x.strayTails(func(s []byte, r rune) {
			for _, q := range []rune{r, unicode.SimpleFold(r)} {
				x.eval(&Case{Fn: "IndexRune", S: s, R: int64(q)}, false)
				x.eval(&Case{Fn: "ContainsRune", S: s, R: int64(q)}, false)
			}
		})
		x.straddle(func(s []byte, have, want rune) {
			x.eval(&Case{Fn: "IndexRune", S: s, R: int64(want)}, false)
			x.eval(&Case{Fn: "ContainsRune", S: s, R: int64(want)}, false)
			if have < 0x80 {
				x.eval(&Case{Fn: "IndexByte", S: s, R: int64(have)}, false)
				x.eval(&Case{Fn: "LastIndexByte", S: s, R: int64(have)}, false)
			}
		})
		for _, r := range []rune{'é', 'я', 'ß', '世', '乖', 'K', 0x0800, 0xFFFD, '😀', 0x10000, 0xE0041, 0x10FFFF, 0x1F640, 'σ'} {
			for _, q := range siblings(r) {
				for _, pad := range []string{"", "x", "0123456789abcdef0123"} {
					for _, s := range []string{pad + string(q), pad + string(q) + pad + string(r), string(r) + pad + string(q) + pad} {
						x.eval(&Case{Fn: "IndexRune", S: []byte(s), R: int64(r)}, false)
						x.eval(&Case{Fn: "ContainsRune", S: []byte(s), R: int64(r)}, false)
					}
				}
			}
		}
	}
	props["C11"] = func(x *Ctx) {
		x.aliasedViews([]string{"IndexAny", "LastIndexAny", "ContainsAny"})
		x.anyFor(both, 150000*x.scale)
		x.anyGrid()
		x.anyCaseBit()
		x.strayTailsSS([]string{"IndexAny", "LastIndexAny"})
		x.siblingDecoys([]string{"IndexAny", "LastIndexAny"})
		x.straddleSS([]string{"IndexAny", "LastIndexAny"})
		x.orbitPairsSS([]string{"IndexAny", "LastIndexAny"})
	}
	props["C12"] = func(x *Ctx) {
		fns := []string{"Count", "Cut"}
		x.aliasedViews(fns)
		x.ratioSweep(fns, false)
		x.pairsFor(fns, valid, 120000*x.scale)
		x.thresholdSweep(fns, streamValid, 60, 20)
		x.orbitPairsSS(fns)
		x.hashCollisions(fns)
		x.siblingDecoys(fns)
		x.straddleSS(fns)
		x.kelvinTails(fns)
		x.nonLetterHead(fns)
		x.specialPairContexts(fns)
		for _, c := range "KkSsaZ1" { // single byte needles
			for i := 0; i < 300*x.scale; i++ {
				s, _ := x.g.byteCase(streamValid)
				x.run("Count", s, []byte{byte(c)}, 0)
				x.run("Cut", s, []byte{byte(c)}, 0)
			}
		}
	}
	props["C15"] = func(x *Ctx) {
		x.aliasedViews(allSS)
		x.truncatedInPlace(allSS)
		x.kelvinTails(allSS)
		x.ratioSweep(allSS, true)
		x.pairsFor(allSS, ill, 12000*x.scale)
		x.affixFor(allSS, ill, 6000*x.scale)
		x.runesFor(ill, 15000*x.scale)
		x.bytesFor(ill, 15000*x.scale)
		x.anyFor(ill, 15000*x.scale)
		x.strayAll()
		x.exhaustiveSmall(allSS, []string{"a", "k", "K", "\xff", "\x80", "�", "\xe4\xb8", "世", "\xc3", "ſ"}, 3, 2)
		relC15(x)
	}
}

// equalPairs: pairs that are fold-equal or differ in exactly one place
func (x *Ctx) equalPairs(fns []string, streams []int, n int) {
	g := x.g
	for i := 0; i < n; i++ {
		st := streams[i%len(streams)]
		alpha := g.alphabet(st)
		s := join(g.toks(alpha, g.intn(12)))
		if g.chance(0.4) {
			s = append(g.pad(st), s...)
		}
		t := g.recase(s, st == streamIll, 0.6)
		switch g.intn(5) {
		case 0:
			t = append(t, g.pick(alpha)...)
		case 1:
			sg := segsOf(t)
			if len(sg) > 0 {
				k := g.intn(len(sg))
				o := 0
				for _, y := range sg[:k] {
					o += y.w
				}
				nt := append([]byte{}, t[:o]...)
				nt = append(nt, g.pick(alpha)...)
				nt = append(nt, t[o+sg[k].w:]...)
				t = nt
			}
		case 2:
			sg := segsOf(t)
			if len(sg) > 0 {
				t = t[:len(t)-sg[len(sg)-1].w]
			}
		}
		for _, fn := range fns {
			x.run(fn, s, t, 0)
			x.run(fn, t, s, 0)
		}
	}
}

// exhaustiveSmall: all haystacks of <= ns tokens x needles of <= nt tokens
func allSeqs(alpha []string, n int) [][]byte {
	out := [][]byte{nil}
	cur := [][]byte{nil}
	for i := 0; i < n; i++ {
		var next [][]byte
		for _, p := range cur {
			for _, a := range alpha {
				next = append(next, append(append([]byte{}, p...), a...))
			}
		}
		out = append(out, next...)
		cur = next
	}
	return dedupe(out)
}

func (x *Ctx) exhaustiveSmall(fns []string, alpha []string, ns, nt int) {
	hs := allSeqs(alpha, ns)
	ts := allSeqs(alpha, nt)
	for _, s := range hs {
		for _, t := range ts {
			for _, fn := range fns {
				x.run(fn, s, t, 0)
			}
		}
	}
	x.note("exhaustive: %d haystacks x %d needles x %d functions over %d tokens", len(hs), len(ts), len(fns), len(alpha))
}

func dedupe(l [][]byte) [][]byte {
	seen := map[string]bool{}
	var out [][]byte
	for _, b := range l {
		if !seen[string(b)] {
			seen[string(b)] = true
			out = append(out, b)
		}
	}
	return out
}

// everyCodePoint: each code point with a non-trivial orbit as needle and
// haystack member (quick), every code point (thorough)
func (x *Ctx) everyCodePoint() {
	step := 37
	if x.tier == "thorough" {
		step = 1
	}
	n := 0
	for r := rune(0); r <= 0x10FFFF; r++ {
		o := orbitOf(r)
		if len(o) == 1 && int(r)%step != 0 {
			continue
		}
		if !utf8.ValidRune(r) {
			continue
		}
		for _, m := range o {
			var s []byte
			s = append(s, "xx"...)
			e := []byte(string(m))
			if len(e) > 1 {
				s = append(s, e[1:]...)
				d := append([]byte{}, e...)
				d[0] ^= 1
				s = append(s, d...)
			}
			s = utf8.AppendRune(s, m)
			s = append(s, "y"...)
			c := &Case{Fn: "IndexRune", S: s, R: int64(r)}
			x.eval(c, len(o) > 1 && n%5 == 0)
			n++
		}
	}
	x.note("every-code-point sweep: %d cases (step %d for caseless code points)", n, step)
}

// bytePairBlocks: two strings of equal length (8 .. 33, so that word-at-a-time, 16- and 32-byte block
// code would be entered) that are fold-equal everywhere except at ONE position, where every pair of byte
// values (a, b) stands: all 128 x 128 ASCII pairs at the first and last position of the first block, and
// the pairs differing in exactly one bit (in particular the case bit 0x20 on non-letters) at every
// position; plus high-byte pairs.  Comparisons must not take "differs only in the case bit" for "equal".
func (x *Ctx) bytePairBlocks(fns []string) {
	base := []byte("config_2 Value-7 [xyz] {QRS} 9@`~end")
	n := 0
	put := func(L, pos int, a, b byte) {
		s := append([]byte{}, base[:L]...)
		t := x.g.recase(s, false, 0.5)
		if len(t) != L { // re-casing an ASCII string keeps its length unless K/S partners were drawn
			t = append([]byte{}, s...)
		}
		s[pos], t[pos] = a, b
		for _, fn := range fns {
			x.eval(&Case{Fn: fn, S: s, T: t}, n%401 == 0)
		}
		n++
	}
	for _, L := range []int{8, 9, 15, 16, 17, 24, 32, 33} {
		for _, pos := range []int{0, 7, L - 1} {
			for a := 0; a < 128; a++ {
				for b := 0; b < 128; b++ {
					if L == 8 || L == 16 || (a^b)&(a^b-1) == 0 {
						put(L, pos, byte(a), byte(b))
					}
				}
			}
		}
		for pos := 0; pos < L; pos++ {
			for a := 0; a < 256; a++ {
				for bit := 0; bit < 8; bit++ {
					put(L, pos, byte(a), byte(a^(1<<bit)))
				}
			}
		}
	}
	x.note("byte-pair blocks: %d pairs of equal-length strings differing at one position", n)
}

// nearMissBlocks: the byte-pair blocks inside longer haystacks — a window that equals the needle except at
// one position (one-bit differences, in particular the case bit on non-letters), alone, before and after a
// real match, as a prefix and as a suffix: block-wise comparison code in the search and affix functions
func (x *Ctx) nearMissBlocks(fns []string) {
	base := []byte("config_2 Value-7 [xyz] {QRS} 9@`~end")
	n := 0
	for _, L := range []int{8, 9, 16, 17, 32, 33} {
		for _, pos := range []int{0, 1, 7, 8, L - 2, L - 1} {
			if pos < 0 || pos >= L {
				continue
			}
			for _, bit := range []uint{0, 5, 6, 7} {
				needle := append([]byte{}, base[:L]...)
				miss := x.g.recase(needle, false, 0.5)
				if len(miss) != L {
					miss = append([]byte{}, needle...)
				}
				miss[pos] ^= 1 << bit
				real := x.g.recase(needle, false, 0.5)
				for _, pre := range []string{"", "x", "0123456789abcdef0123456789"} {
					hay := [][]byte{
						[]byte(pre + string(miss)),
						[]byte(pre + string(miss) + "--"),
						[]byte(pre + string(miss) + string(real)),
						[]byte(pre + string(real) + string(miss)),
						[]byte(string(miss) + pre),
					}
					for _, s := range hay {
						for _, fn := range fns {
							x.eval(&Case{Fn: fn, S: s, T: needle}, n%53 == 0)
							n++
						}
					}
				}
			}
		}
	}
	x.note("near-miss blocks: %d cases", n)
}

// offsetNeighbours: every code point against the code points at the distances case pairs usually have (1, 16,
// 26, 32, 40, 48, 80 ...): a hand-written fast path that folds a RANGE by adding an offset is wrong exactly at
// the holes of the range (× U+00D7 / ÷ U+00F7 inside Latin-1, the gaps of Greek, Cyrillic, Armenian ...)
func (x *Ctx) offsetNeighbours(fns []string) {
	deltas := []rune{1, 2, 8, 16, 26, 32, 38, 40, 48, 64, 80, 96, 116, 128, 7264}
	top := rune(0x3000)
	if x.tier == "thorough" {
		top = 0x1FFFF
	}
	n := 0
	for r := rune(0x80); r <= top; r++ {
		if !utf8.ValidRune(r) {
			continue
		}
		for _, d := range deltas {
			q := r + d
			if !utf8.ValidRune(q) {
				continue
			}
			a, b := []byte(string(r)), []byte(string(q))
			for _, fn := range fns {
				x.eval(&Case{Fn: fn, S: a, T: b}, false)
				x.eval(&Case{Fn: fn, S: b, T: a}, false)
			}
			if n%64 == 0 { // inside longer strings too
				for _, fn := range fns {
					x.eval(&Case{Fn: fn, S: append(append([]byte("ab"), a...), 'z'), T: append(append([]byte("AB"), b...), 'Z')}, false)
				}
			}
			if n%4 == 0 { // as the last / first code point of a longer argument (suffix and prefix loops, multi-rune needles)
				for _, fn := range fns {
					x.eval(&Case{Fn: fn, S: append([]byte("3"), a...), T: append([]byte("3"), b...)}, false)
					x.eval(&Case{Fn: fn, S: append(append([]byte{}, a...), "4"...), T: append(append([]byte{}, b...), "4"...)}, false)
				}
			}
			n++
		}
	}
	x.note("offset neighbours: %d pairs of code points", n)
}

// offsetNeighboursRune: the same sweep for the single-character searches — the code point at a usual case-pair distance
// from r, alone and in front of a real occurrence of r, searched for through IndexRune / ContainsRune and through the
// one-code-point needles of Index, LastIndex, IndexAny, LastIndexAny and Count
func (x *Ctx) offsetNeighboursRune() {
	deltas := []rune{1, 2, 8, 16, 26, 32, 38, 40, 48, 64, 80, 96, 116, 128, 7264}
	top := rune(0x3000)
	if x.tier == "thorough" {
		top = 0x1FFFF
	}
	n := 0
	for r := rune(0x80); r <= top; r++ {
		if !utf8.ValidRune(r) {
			continue
		}
		for _, d := range deltas {
			for _, q := range []rune{r + d, r - d} {
				if q < 0x80 || !utf8.ValidRune(q) {
					continue
				}
				s1 := []byte(string(q))
				s2 := []byte("a" + string(q) + "b" + string(r) + "c")
				x.eval(&Case{Fn: "IndexRune", S: s1, R: int64(r)}, false)
				x.eval(&Case{Fn: "IndexRune", S: s2, R: int64(r)}, false)
				if n%16 == 0 {
					x.eval(&Case{Fn: "ContainsRune", S: s1, R: int64(r)}, false)
					for _, fn := range []string{"Index", "LastIndex", "IndexAny", "LastIndexAny", "Count"} {
						x.eval(&Case{Fn: fn, S: s2, T: []byte(string(r))}, false)
					}
				}
				n++
			}
		}
	}
	x.note("offset neighbours of every code point, single-character searches: %d pairs", n)
}

// orbitPairs: for every folding orbit with more than one member, every ordered pair (a, b) of its
// members placed next to each other (a first) behind short prefixes of every width, searched for each
// member: the candidate searches of indexRune / indexRune2 look for one member, then for another in a
// truncated haystack, and what they return depends on which member comes first and how wide it is
func (x *Ctx) orbitPairs() {
	pres := []string{"", "x", "xy", "é", "世"}
	mids := []string{"", "-"}
	n := 0
	for r := rune(0); r <= 0x10FFFF; r++ {
		o := orbitOf(r)
		if len(o) == 1 || o[0] != r && orbitMin(r) != r {
			continue // visit each orbit once, from its least member
		}
		if orbitMin(r) != r {
			continue
		}
		for _, a := range o {
			for _, b := range o {
				if a == b {
					continue
				}
				for _, pre := range pres {
					for _, mid := range mids {
						s := []byte(pre + string(a) + mid + string(b))
						for _, m := range o {
							x.eval(&Case{Fn: "IndexRune", S: s, R: int64(m)}, n%211 == 0)
							n++
						}
						x.eval(&Case{Fn: "ContainsRune", S: s, R: int64(b)}, false)
					}
				}
			}
		}
	}
	x.note("orbit-pair adjacency sweep: %d IndexRune cases", n)
}

// orbitPairsSS: the same arrangements (two different members of one orbit next to each other behind a
// short prefix, optionally followed by a tail) for the two-string functions, the needle being one member
// of the orbit alone or followed by the tail's first byte
func (x *Ctx) orbitPairsSS(fns []string) {
	pres := []string{"", "x", "é", "世"}
	n := 0
	for r := rune(0); r <= 0x10FFFF; r++ {
		if orbitMin(r) != r {
			continue
		}
		o := orbitOf(r)
		if len(o) == 1 {
			continue
		}
		for _, a := range o {
			for _, b := range o {
				if a == b {
					continue
				}
				for pi, pre := range pres {
					s := []byte(pre + string(a) + string(b))
					s2 := []byte(pre + string(a) + string(b) + "z")
					for _, m := range o {
						for _, fn := range fns {
							x.eval(&Case{Fn: fn, S: s, T: []byte(string(m))}, n%997 == 0)
							if pi < 2 {
								x.eval(&Case{Fn: fn, S: s2, T: []byte(string(m) + "z")}, false)
								x.eval(&Case{Fn: fn, S: s2, T: []byte(string(m) + string(m))}, false)
							}
							n++
						}
					}
				}
			}
		}
	}
	x.note("orbit-pair adjacency sweep (two-string functions): %d cases", n)
}

// anyGrid: (len s, len chars) across both thresholds x content classes
func (x *Ctx) anyGrid() {
	contents := [][2]string{{"x", "abc"}, {"x", "kq"}, {"x", "sq"}, {"K", "kq"}, {"ſ", "Sq"}, {"x", "Kq"}, {"k", "Kz"}, {"s", "ſz"}, {"k", "\xffz"}, {"\xff", "�z"}}
	for ls := 0; ls <= 20; ls++ {
		for lc := 0; lc <= 12; lc++ {
			for _, ct := range contents {
				for pos := -1; pos < ls; pos += 1 + ls/5 {
					s := bytes.Repeat([]byte("y"), ls)
					if pos >= 0 {
						s = append(append(append([]byte{}, s[:pos]...), ct[0]...), s[pos:]...)
					}
					var chars []byte
					for len(chars) < lc {
						chars = append(chars, ct[1]...)
					}
					chars = chars[:lc]
					for nonASCIIAt := -1; nonASCIIAt <= len(s); nonASCIIAt += 1 + len(s)/3 {
						s2 := s
						if nonASCIIAt >= 0 {
							s2 = append(append(append([]byte{}, s[:nonASCIIAt]...), "世"...), s[nonASCIIAt:]...)
						}
						x.run("IndexAny", s2, chars, 0)
						x.run("LastIndexAny", s2, chars, 0)
					}
				}
			}
		}
	}
}

// anyCaseBit: chars made of an ASCII byte c that is NOT a letter (alone, after a K/S, before one), the
// haystack holding c ^ 0x20 (what c's "other case" would be if it were a letter) before, instead of, or
// after c, in ASCII-only and mixed haystacks on both sides of the len(s) > 8 threshold
func (x *Ctx) anyCaseBit() {
	n := 0
	for c := 0; c < 128; c++ {
		if isAlphaB(byte(c)) || c^0x20 >= 128 {
			continue
		}
		o := byte(c ^ 0x20)
		for _, ch := range []string{string(rune(c)), "k" + string(rune(c)), "S" + string(rune(c)), string(rune(c)) + "k", "q" + string(rune(c))} {
			for _, pad := range []string{"", "yyyy", "yyyyyyyyyy", "yyyy世yyyyyy"} {
				for _, s := range [][]byte{
					[]byte(pad + string(o) + pad),
					[]byte(pad + string(o) + pad + string(rune(c))),
					[]byte(string(rune(c)) + pad + string(o) + pad),
				} {
					x.run("IndexAny", s, []byte(ch), 0)
					x.run("LastIndexAny", s, []byte(ch), 0)
					x.run("ContainsAny", s, []byte(ch), 0)
					n += 3
				}
			}
		}
	}
	x.note("any/case-bit family: %d cases", n)
}

// siblings: code points whose UTF-8 encoding differs from r's in exactly one byte (the lead byte, or one
// continuation byte) — what a byte-wise comparison that skips or mis-indexes one byte cannot tell from r
func siblings(r rune) []rune {
	e := []byte(string(r))
	var out []rune
	for i := range e {
		found := 0
		for d := 1; d < 256 && found < 3; d++ {
			b := append([]byte{}, e...)
			b[i] = e[i] + byte(d)*37 // spread over the byte values
			q, w := utf8.DecodeRune(b)
			if q != utf8.RuneError && w == len(b) && len(string(q)) == len(e) && q != r && len(orbitOf(q)) == 1 && len(orbitOf(r)) >= 1 {
				out = append(out, q)
				found++
			}
		}
	}
	return out
}

// straddleSS: the same haystacks for the two-string functions, the needle being the wanted code point alone or
// followed by the first byte of the tail
func (x *Ctx) straddleSS(fns []string) {
	x.straddle(func(s []byte, have, want rune) {
		for _, fn := range fns {
			x.eval(&Case{Fn: fn, S: s, T: []byte(string(want))}, false)
			x.eval(&Case{Fn: fn, S: s, T: []byte(string(want) + "t")}, false)
			x.eval(&Case{Fn: fn, S: s, T: []byte(string(want) + "TAIL")}, false)
		}
	})
}

// siblingDecoys: a sibling of the needle's code point in the haystack, alone, and to the left / right of a real occurrence
func (x *Ctx) siblingDecoys(fns []string) {
	n := 0
	for _, r := range []rune{'é', 'я', 'ß', '世', '乖', 'K', 0x0800, 0xFFFD, '😀', 0x10000, 0xE0041, 0x10FFFF, 0x1F640} {
		for _, q := range siblings(r) {
			for _, pad := range []string{"", "x", "0123456789abcdef0123"} {
				for _, s := range [][]byte{
					[]byte(pad + string(q)), []byte(pad + string(q) + pad), []byte(pad + string(r) + pad + string(q)),
					[]byte(string(q) + pad + string(r) + pad), []byte(string(q) + string(q) + string(r) + string(q)),
				} {
					for _, fn := range fns {
						x.eval(&Case{Fn: fn, S: s, T: []byte(string(r))}, n%31 == 0)
						x.eval(&Case{Fn: fn, S: s, T: []byte(string(r) + "x")}, false)
						x.eval(&Case{Fn: fn, S: s, T: []byte(string(q))}, false)
						n += 3
					}
				}
			}
		}
	}
	x.note("UTF-8 sibling decoys: %d cases", n)
}

// straddle: long haystacks in which the only occurrence (or the first / last one) of a code point lies ACROSS
// a power-of-two offset (the block sizes a chunked or page-wise search would use), for every encoded width and
// for orbit members of different widths; cb gets (haystack, code point in the haystack, code point to search for)
func (x *Ctx) straddle(cb func(s []byte, have, want rune)) {
	type pr struct{ have, want rune }
	prs := []pr{{'σ', 'ς'}, {'ς', 'Σ'}, {'K', 'k'}, {'k', 'K'}, {'ſ', 'S'}, {'é', 'É'}, {'世', '世'}, {'😀', '😀'}, {'ß', 'ẞ'}, {'ⱥ', 'Ⱥ'}, {0xFFFD, 0xFFFD}}
	blocks := []int{64, 256, 1024, 4096, 8192}
	if x.tier == "thorough" {
		blocks = append(blocks, 32768, 65536)
	}
	for _, B := range blocks {
		for _, p := range prs {
			w := utf8.RuneLen(p.have)
			for back := 0; back <= w; back++ { // starts at B-back: straddles for 0 < back < w
				for _, fill := range []string{"x", "é"} {
					var s []byte
					for len(s) < B-back {
						s = append(s, fill...)
					}
					if len(s) != B-back { // a 2-byte filler overshot by one: pad with one ASCII byte in front
						s = append([]byte("y"), s[:B-back-1]...)
					}
					s = utf8.AppendRune(s, p.have)
					s = append(s, "tail of the haystack 0123456789"...)
					cb(s, p.have, p.want)
				}
			}
		}
	}
}

// strayTails: ill-formed haystacks in which a complete code point stands next to stray copies of its OWN bytes
// (its last byte repeated after it, its lead byte or a proper prefix of its encoding right in front of it, a
// proper suffix right behind it) — the shapes on which a byte-wise scan that "knows" how UTF-8 continues skips
// the real occurrence; code points with repeated bytes in their encoding (U+9104 e9 84 84, U+2000, U+FFFF,
// U+10000, U+10FFFF, U+20820) make the stray copy indistinguishable from the real byte
func (x *Ctx) strayTails(cb func(s []byte, r rune)) {
	rs := []rune{'é', 'Á', 'я', 'ß', 0x80, 0x7ff, 0x800, '世', '鄄', 0x2000, 0x2028, 0xFFFF, 0xFFFD, 'K', 'ẞ', 'ⱥ',
		'😀', 0x10000, 0x10FFFF, 0x20820, 0x1F640, 0xE0041, 0x10428, 0x1F61F, 0x1D11D, 0x2A6AA, 0x1F91F}
	n := 0
	for _, r := range rs {
		e := []byte(string(r))
		w := len(e)
		var mids [][]byte
		for k := 1; k <= 4; k++ { // the last byte (and every other byte) of the encoding, k times, behind the code point
			for j := 0; j < w; j++ {
				mids = append(mids, append(append([]byte{}, e...), bytes.Repeat(e[j:j+1], k)...))
			}
		}
		for j := 1; j < w; j++ {
			mids = append(mids, append(append([]byte{}, e[:j]...), e...))                   // proper prefix, then the code point
			mids = append(mids, append(append([]byte{}, e...), e[j:]...))                   // the code point, then a proper suffix
			mids = append(mids, append(append(append([]byte{}, e[:j]...), e[:j]...), e...)) // the prefix twice
			mids = append(mids, append(append(append([]byte{}, e...), e[j:]...), e[:j]...)) // suffix then prefix
			mids = append(mids, append(append(append([]byte{}, e...), e[w-1]), e...))       // two occurrences around a stray byte
		}
		for _, m := range mids {
			for _, pre := range []string{"", "x", "0123456789abcdefghij", string(r) + " "} {
				for _, post := range []string{"", " tail", "\x80"} {
					s := append(append([]byte(pre), m...), post...)
					cb(s, r)
					n++
				}
			}
		}
		// no complete occurrence at all: the haystack BEGINS with a proper suffix of the encoding (a string cut through
		// its first code point), ENDS with a proper prefix (cut through its last one), or is made of the two halves in
		// the wrong order — where a backward or forward byte-wise comparison can run off the end of the haystack
		for j := 1; j < w; j++ {
			for _, fill := range []string{"", "x", "xyz", "0123456789abcdefghij"} {
				for _, hs := range [][]byte{
					append(append([]byte{}, e[j:]...), fill...),
					append([]byte(fill), e[:j]...),
					append(append(append([]byte{}, e[j:]...), fill...), e[:j]...),
					append(append([]byte{}, e[j:]...), e[:j]...),
				} {
					cb(hs, r)
					n++
				}
			}
		}
		// decoys of OTHER widths that end in the code point's last byte (a two-byte and a three-byte one), exactly as
		// many as it takes a last-byte scan to give up (the cut-over counts depend on the offset: 3 .. 8, and 20), then
		// the complete code point once and twice — with code points whose encoding repeats a byte at distance two
		// (U+1F61F f0 9f 98 9f, U+1D11D, U+2A6AA) the scan's false hit can be the code point's own second byte
		if w > 1 {
			last := e[w-1]
			for _, dec := range [][]byte{{0xC3, last}, {0xE4, 0xB8, last}} {
				for _, k := range []int{3, 4, 5, 6, 7, 8, 20} {
					hs := bytes.Repeat(dec, k)
					hs = append(hs, e...)
					cb(hs, r)
					cb(append(append([]byte{}, hs...), e...), r)
					cb(append([]byte("x"), hs...), r)
					n += 3
				}
			}
		}
		// decoys that share the last byte, enough of them for a byte scan to give up, then the stray shape
		var sib rune = -1
		for _, q := range siblings(r) {
			if q != r && utf8.RuneLen(q) == w && []byte(string(q))[w-1] == e[w-1] {
				sib = q
				break
			}
		}
		if sib >= 0 && w > 1 {
			for _, k := range []int{3, 4, 5, 8, 20} {
				for j := 1; j < w; j++ {
					s := bytes.Repeat([]byte(string(sib)), k)
					s = append(append(s, e[:j]...), e...)
					cb(s, r)
					cb(append(s, " tail"...), r)
					n += 2
				}
			}
		}
	}
	x.note("stray copies of a code point's own bytes: %d haystacks", n)
}

// strayAll: the stray-byte haystacks through every search function (string, rune and character-set needles)
func (x *Ctx) strayAll() {
	x.strayTailsSS(allSS)
	x.strayTails(func(s []byte, r rune) {
		for _, q := range []rune{r, unicode.SimpleFold(r)} {
			x.eval(&Case{Fn: "IndexRune", S: s, R: int64(q)}, false)
			x.eval(&Case{Fn: "ContainsRune", S: s, R: int64(q)}, false)
			x.eval(&Case{Fn: "IndexAny", S: s, T: []byte(string(q))}, false)
			x.eval(&Case{Fn: "LastIndexAny", S: s, T: []byte(string(q))}, false)
			x.eval(&Case{Fn: "ContainsAny", S: s, T: []byte(string(q) + "#")}, false)
		}
	})
}

func (x *Ctx) strayTailsSS(fns []string) {
	x.strayTails(func(s []byte, r rune) {
		for _, fn := range fns {
			x.eval(&Case{Fn: fn, S: s, T: []byte(string(r))}, false)
			x.eval(&Case{Fn: fn, S: s, T: []byte(string(unicode.SimpleFold(r)))}, false)
		}
	})
}

// specialPairContexts: the code points the sources special-case (dotted / dotless i, Kelvin, long s, sharp s, final
// sigma, micro, Angstrom, Ohm, the theta and iota families, the DZ digraphs), every ordered pair inside each family,
// with the pair at needle positions 0..3 (the first two code points of a needle are handled apart from the rest),
// against haystacks short enough for the brute-force search and long enough for the main loop and Rabin-Karp
func (x *Ctx) specialPairContexts(fns []string) {
	groups := [][]rune{
		{'I', 'i', 0x130, 0x131}, {'K', 'k', 0x212A}, {'S', 's', 0x17F}, {0xDF, 0x1E9E}, {0x3C3, 0x3C2, 0x3A3},
		{0xB5, 0x3BC, 0x39C}, {0xC5, 0xE5, 0x212B}, {0x3A9, 0x3C9, 0x2126}, {0x3B8, 0x3D1, 0x3F4, 0x398},
		{0x1C4, 0x1C5, 0x1C6}, {0x3B9, 0x345, 0x1FBE, 0x399}, {'x', 'X'},
	}
	pres := []string{"", "q", "qz", "qzw"}
	posts := []string{"", "v", "zv"}
	pads := []string{"", "0123", "0123456789012345", strings.Repeat("0123456789", 7)}
	n := 0
	for _, g := range groups {
		for _, a := range g {
			for _, b := range g {
				for _, pre := range pres {
					for _, post := range posts {
						nd := []byte(pre + string(a) + post)
						for _, pad := range pads {
							hs := []byte(pad + pre + string(b) + post + pad)
							for _, fn := range fns {
								switch fn {
								case "EqualFold", "Compare", "HasPrefix", "HasSuffix", "TrimPrefix", "TrimSuffix", "CutPrefix", "CutSuffix":
									if pad != "" && (fn == "EqualFold" || fn == "Compare") {
										continue
									}
								}
								x.eval(&Case{Fn: fn, S: hs, T: nd}, n%211 == 0)
								n++
							}
						}
					}
				}
			}
		}
	}
	x.note("special-cased code points, every pair of a family at needle positions 0..3: %d cases", n)
}

// aliasedViews: the []byte functions called with arguments that SHARE memory (two prefixes of one buffer, two
// suffixes, a window of the other argument) or that are short views with the REST of the other argument lying in
// their spare capacity — a result must be a function of the bytes in [0, len) of each argument, never of where they
// live or of what follows them; every call is compared with the same call on private copies
func (x *Ctx) aliasedViews(fns []string) {
	bufs := []string{"caf\u00e9", "\u212a", "\ufffd", "a\ufffd", "\ufffd\xff", "\u4e16\u754c", "kK\u212a", "\u017fs", "x\xe2\x84k", "Content-Length: 42",
		"\U0001F600\u4e16", "ab", "\u00e9\u00c9", "ss\u00df", "\xff\xfe"}
	for i := 0; i < 12; i++ {
		a, _ := x.g.pair(streamValid)
		if len(a) > 14 {
			a = a[:14]
		}
		bufs = append(bufs, string(a))
	}
	n, bad := 0, 0
	call := func(d *fnDef, sv, tv []byte) (res string) {
		defer func() {
			if e := recover(); e != nil {
				res = "PANIC"
			}
		}()
		return d.byt(sv, tv, 0)
	}
	callS := func(d *fnDef, sv, tv string) (res string) {
		defer func() {
			if e := recover(); e != nil {
				res = "PANIC"
			}
		}()
		return d.str(sv, tv, 0)
	}
	for _, fn := range fns {
		d := fnByName[fn]
		if d == nil || d.kind != kSS {
			continue
		}
		for _, bs := range bufs {
			L := len(bs)
			for a := 0; a <= L; a++ {
				for b := 0; b <= L; b++ {
					buf := []byte(bs)
					// (views that share memory, the same bytes as private copies)
					type pr struct {
						s, t []byte
						how  string
					}
					prs := []pr{
						{buf[:a], buf[:b], "two prefixes of one buffer"},
						{buf[a:], buf[b:], "two suffixes of one buffer"},
					}
					if a <= b {
						prs = append(prs, pr{buf, buf[a:b], "the second argument is a window of the first"},
							pr{buf[a:b], buf, "the first argument is a window of the second"},
							pr{buf[:a:L], append([]byte{}, buf[:b]...), "the first argument is a short view; the rest of the second lies in its spare capacity"})
					}
					// the string functions on substrings of ONE string versus on clones
					if a <= b {
						for _, sp := range [][2]string{{bs[:a], bs[:b]}, {bs[a:], bs[b:]}, {bs, bs[a:b]}, {bs[a:b], bs}} {
							want := callS(d, strings.Clone(sp[0]), strings.Clone(sp[1]))
							got := callS(d, sp[0], sp[1])
							n++
							if got != want && bad < 5 {
								bad++
								x.relFail("relation", fn, &Case{Fn: fn, S: []byte(sp[0]), T: []byte(sp[1])},
									fmt.Sprintf("strcase.%s returns %s on clones of these strings but %s on substrings of one string %q", fn, want, got, bs))
							}
						}
					}
					for _, p := range prs {
						sc, tc := append([]byte{}, p.s...), append([]byte{}, p.t...)
						want := call(d, sc, tc)
						got := call(d, p.s, p.t)
						n++
						if got != want && bad < 5 {
							bad++
							x.relFail("relation", fn, &Case{Fn: fn, S: sc, T: tc},
								fmt.Sprintf("bytcase.%s returns %s on these bytes as private copies but %s when %s (buffer %q, cut points %d and %d)", fn, want, got, p.how, bs, a, b))
						}
					}
				}
			}
		}
	}
	x.note("[]byte arguments sharing memory / with the other argument's bytes in their spare capacity: %d calls compared with private copies", n)
}

// nonLetterHead: needles that begin with a long run of non-letter ASCII (1 .. 64 bytes: below, at and above the 32-byte
// limits of the byte-exact fast paths) and end in something that folds, against haystacks that hold the needle re-cased
// (so that a byte-exact search misses it), alone and behind an earlier byte-identical occurrence
func (x *Ctx) nonLetterHead(fns []string) {
	n := 0
	for _, h := range []int{1, 2, 8, 16, 31, 32, 33, 40, 64} {
		for _, fill := range []string{"-", "0123456789", "[]{}"} {
			head := strings.Repeat(fill, h/len(fill)+1)[:h]
			for _, tail := range [][2]string{{"a", "A"}, {"K", "k"}, {"\u00e9", "\u00c9"}, {"zz", "Zz"}, {"\u017f", "S"}, {"1a2", "1A2"}} {
				nd := []byte(head + tail[0])
				re := head + tail[1]
				for _, hs := range []string{re, "xx" + re, re + "yy", head + tail[0] + " " + re, re + " " + head + tail[0], "q" + re + re + "q"} {
					for _, fn := range fns {
						x.eval(&Case{Fn: fn, S: []byte(hs), T: nd}, n%53 == 0)
						n++
					}
				}
			}
		}
	}
	x.note("long non-letter heads (1..64 bytes) before a folding tail: %d cases", n)
}

// kelvinTails: needles made of a first code point of each encoded width (cased pairs of different widths included)
// followed by 1..6 Kelvin signs, long s or literal U+FFFD — the code points that are up to three times wider than what
// they match — against haystacks that spell them narrowly, with the match at the very end, at the start, and with the
// needle's first code point occurring only near the end of a haystack much shorter than the needle (the bounds of the
// brute-force search are computed from len(needle)/3)
func (x *Ctx) kelvinTails(fns []string) {
	firsts := [][2]string{{"1", "1"}, {"a", "A"}, {"\u00e9", "\u00c9"}, {"\u023a", "\u2c65"}, {"\u4e16", "\u4e16"}, {"\U00010400", "\U00010428"}, {"\U0001F600", "\U0001F600"}}
	wides := [][2]string{{"\u212a", "k"}, {"\u212a", "K"}, {"\u017f", "s"}, {"\ufffd", "\xff"}}
	n := 0
	for _, f := range firsts {
		for _, w := range wides {
			for j := 1; j <= 6; j++ {
				nd := []byte(f[0] + strings.Repeat(w[0], j))
				narrow := f[1] + strings.Repeat(w[1], j)
				for _, hs := range []string{narrow, "x" + narrow, narrow + "x", "xxxxxxxxxxxxxxxxxxxx" + narrow, narrow[:len(narrow)-1], "x" + narrow[:len(narrow)-1] + "y"} {
					for _, fn := range fns {
						x.eval(&Case{Fn: fn, S: []byte(hs), T: nd}, n%37 == 0)
						n++
					}
				}
			}
		}
	}
	// the first code point of a long wide needle occurring only near the end of a short haystack
	for _, head := range []string{"123", "12", "1\u4e16", "\u4e16\u754c"} {
		for j := 1; j <= 8; j++ {
			for _, w := range []string{"\u212a", "\ufffd", "\u017f"} {
				nd := []byte(head + strings.Repeat(w, j))
				first := string([]rune(head)[0])
				for _, hs := range []string{"xxx" + first, "x" + first, first, "xxxxxx" + first + "x", "xxx" + head} {
					for _, fn := range fns {
						x.eval(&Case{Fn: fn, S: []byte(hs), T: nd}, false)
						n++
					}
				}
			}
		}
	}
	x.note("wide tails (Kelvin / long s / U+FFFD runs behind first code points of every width): %d cases", n)
}

// truncatedInPlace: one argument holds a multi-byte sequence cut short IN PLACE (followed by a starter byte) where the
// other holds the complete sequence, behind 0..24 bytes of shared prefix — every offset, so that a comparison that
// skips identical bytes in blocks and then looks for a code-point boundary in ONE argument only is caught resuming
// inside a code point of the other
func (x *Ctx) truncatedInPlace(fns []string) {
	runes := []string{"\u212a", "\u00e9", "\u4e16", "\U0001F600", "\ufffd"}
	n := 0
	for off := 0; off <= 24; off++ {
		pad := strings.Repeat("a", off)
		for _, r := range runes {
			for cut := 1; cut < len(r); cut++ {
				for _, next := range []string{"z", "\xff\xff", "\u00e9", ""} {
					a := []byte(pad + r[:cut] + next)
					for _, tl := range []string{"z", "", "\u00e9"} {
						b := []byte(pad + r + tl)
						for _, fn := range fns {
							x.eval(&Case{Fn: fn, S: a, T: b}, false)
							x.eval(&Case{Fn: fn, S: b, T: a}, false)
							n += 2
						}
					}
				}
			}
		}
	}
	x.note("sequences truncated in place against the complete sequence, at every offset 0..24: %d cases", n)
}

// hugeHaystacks: offsets, distances and counts beyond 2^16 (and a haystack beyond 2^20): a match just before, at and
// after offset 65536, the only match at the far end / the far start, more than 65535 occurrences to count
func (x *Ctx) hugeHaystacks() {
	n := 0
	ev := func(fn string, s, t []byte, r int64) {
		x.eval(&Case{Fn: fn, S: s, T: t, R: r}, false)
		n++
	}
	for _, fill := range []string{"x", "\u00e9"} {
		for _, size := range []int{65530, 65536, 65541, 70001, 1<<20 + 3} {
			body := bytes.Repeat([]byte(fill), size/len(fill))
			end := append(append([]byte{}, body...), "K\u00e9nd"...)
			start := append([]byte("K\u00e9nd"), body...)
			for _, nd := range []string{"k\u00c9ND", "\u212a\u00e9", "d"} {
				ev("Index", end, []byte(nd), 0)
				ev("LastIndex", start, []byte(nd), 0)
				ev("Contains", end, []byte(nd), 0)
				ev("Cut", end, []byte(nd), 0)
			}
			ev("HasSuffix", end, []byte("k\u00c9ND"), 0)
			ev("IndexRune", end, nil, 0x212A)
			ev("IndexByte", end, nil, 'k')
			ev("LastIndexByte", start, nil, 'K')
			ev("IndexAny", end, []byte("qK"), 0)
			ev("LastIndexAny", start, []byte("qk"), 0)
			ev("IndexNonASCII", append(bytes.Repeat([]byte("x"), size), 0xC3, 0xA9), nil, 0)
		}
	}
	many := bytes.Repeat([]byte("kK"), 35000) // 70000 one-byte matches, 35000 two-byte ones
	ev("Count", many, []byte("K"), 0)
	ev("Count", many, []byte("kk"), 0)
	ev("Count", many, []byte("\u212a"), 0)
	ev("Count", bytes.Repeat([]byte("-"), 70000), []byte("-"), 0)
	x.note("haystacks beyond 2^16 / 2^20 bytes and counts beyond 2^16: %d cases", n)
}

// nilArgs: the []byte functions with nil arguments must behave exactly as with empty non-nil ones (for every function,
// every combination of nil / empty / non-empty arguments; rune and byte searches in a nil haystack too)
func (x *Ctx) nilArgs() {
	n, bad := 0, 0
	call := func(f func() string) (res string) {
		defer func() {
			if e := recover(); e != nil {
				res = "PANIC"
			}
		}()
		return f()
	}
	others := [][]byte{[]byte("k"), []byte("\u212a"), []byte("ab"), []byte("\xff"), {}}
	for i := range fnDefs {
		d := &fnDefs[i]
		type pr struct {
			nilS, nilT bool
			o          []byte
		}
		var prs []pr
		for _, o := range others {
			prs = append(prs, pr{true, false, o}, pr{false, true, o}, pr{true, true, o})
		}
		for _, p := range prs {
			mk := func(isNil bool, empty bool) []byte {
				if isNil {
					if empty {
						return []byte{}
					}
					return nil
				}
				return append([]byte{}, p.o...)
			}
			for _, r := range []int64{'k', 0x212A, 0xFFFD, -1} {
				sN, tN := mk(p.nilS, false), mk(p.nilT, false)
				sE, tE := mk(p.nilS, true), mk(p.nilT, true)
				got := call(func() string { return d.byt(sN, tN, r) })
				want := call(func() string { return d.byt(sE, tE, r) })
				n++
				if got != want && bad < 5 {
					bad++
					x.relFail("relation", d.name, &Case{Fn: d.name, S: sE, T: tE, R: r},
						fmt.Sprintf("bytcase.%s returns %s with empty non-nil arguments but %s when the empty argument(s) are nil (s nil: %v, second argument nil: %v)", d.name, want, got, p.nilS, p.nilT))
				}
				if d.kind == kSS {
					break
				}
			}
		}
	}
	x.note("nil arguments versus empty non-nil ones: %d calls", n)
}

// fffdBait: a literal U+FFFD in one argument opposite a multi-byte code point in the other, behind (or in
// front of) code points whose fold partners have another width — if a function slices by the OTHER string's
// byte length it cuts a code point in two, and the stray bytes decode as U+FFFD, which the bait then matches
func (x *Ctx) fffdBait(fns []string) {
	wide := [][2]string{{"K", "k"}, {"ſ", "s"}, {"ẞ", "ß"}, {"ⱥ", "Ⱥ"}, {"Ω", "ω"}, {"ſſ", "ss"}, {"K", "K"}, {"KK", "kk"}}
	mids := []string{"é", "世", "😀", "न", "\u07ff", "\u0800", "x"}
	n := 0
	for _, w := range wide {
		for _, m := range mids {
			for _, tail := range []string{"", "x", "tail"} {
				pairs := [][2]string{
					{w[0] + m + tail, w[1] + "\uFFFD" + tail}, {w[1] + m + tail, w[0] + "\uFFFD" + tail},
					{w[0] + "\uFFFD" + tail, w[1] + m + tail},
					{tail + m + w[0], tail + "\uFFFD" + w[1]}, {tail + m + w[1], tail + "\uFFFD" + w[0]},
					{"pre" + w[0] + m + tail, w[1] + "\uFFFD" + tail}, {w[0] + m + tail + "post", w[1] + "\uFFFD" + tail},
				}
				for _, pr := range pairs {
					for _, fn := range fns {
						x.eval(&Case{Fn: fn, S: []byte(pr[0]), T: []byte(pr[1])}, n%17 == 0)
						n++
					}
				}
			}
		}
	}
	x.note("U+FFFD bait: %d cases", n)
}

var _ = bytcase.Index

func bytcaseLower(c byte) byte { return bytcase.VerifLower(c) }
