package main

// obs.go — calling the implementation (both packages) and turning what it
// returns into canonical observation strings, the same format the OCaml
// driver prints for the extracted Coq model:
//   ints in decimal, bools 0/1, sub-slices "lo:hi" (positions in the first
//   argument; "e" when empty, because Go does not promise the pointer of an
//   empty slice), tuples joined with ":".
// A panic is observed as "PANIC", a result that is not a view of the first
// argument as "COPY", an argument modified by the call as "MUTATED".

import (
	"bytes"
	"fmt"
	"os"
	"strconv"
	"sync/atomic"
	"time"
	"unsafe"

	"github.com/charlievieth/strcase"
	"github.com/charlievieth/strcase/bytcase"
)

type Case struct {
	Fn string
	S  []byte
	T  []byte // second string argument (kinds SS)
	R  int64  // rune / byte argument (kinds SR, SB)
}

const (
	kSS = iota // (s, t string)
	kSR        // (s string, r rune)
	kSB        // (s string, c byte)
	kS         // (s string)
)

type fnDef struct {
	name string
	kind int
	str  func(s, t string, r int64) string
	byt  func(s, t []byte, r int64) string
}

func b2s(b bool) string {
	if b {
		return "1"
	}
	return "0"
}
func itoa(i int) string { return strconv.Itoa(i) }

func viewS(s, res string) string {
	if len(res) == 0 {
		return "e"
	}
	if len(s) == 0 {
		return "COPY"
	}
	base := uintptr(unsafe.Pointer(unsafe.StringData(s)))
	p := uintptr(unsafe.Pointer(unsafe.StringData(res)))
	if p < base || p+uintptr(len(res)) > base+uintptr(len(s)) {
		return "COPY"
	}
	lo := int(p - base)
	return itoa(lo) + ":" + itoa(lo+len(res))
}

func viewB(s, res []byte) string {
	if len(res) == 0 {
		return "e"
	}
	if len(s) == 0 {
		return "COPY"
	}
	base := uintptr(unsafe.Pointer(unsafe.SliceData(s)))
	p := uintptr(unsafe.Pointer(unsafe.SliceData(res)))
	if p < base || p+uintptr(len(res)) > base+uintptr(len(s)) {
		return "COPY"
	}
	lo := int(p - base)
	return itoa(lo) + ":" + itoa(lo+len(res))
}

// aliasHook, when set (C05, C18), receives the empty results of the bytcase Trim/Cut families that do not alias the
// first argument where the result implies: an empty result must be s[off:off] (non-nil, capacity cap(s)-off), nil
// only where the function documents it (Cut's "after" when nothing was found)
var aliasHook func(fn string, s, t []byte, detail string)

func emptyAlias(fn string, s, t, res []byte, off int, nilOK bool) {
	if aliasHook == nil || len(res) != 0 {
		return
	}
	if res == nil {
		if !nilOK && s != nil { // a view of a nil argument is nil
			aliasHook(fn, s, t, fmt.Sprintf("empty result is nil, want the empty slice s[%d:%d]", off, off))
		}
		return
	}
	if cap(res) != cap(s)-off {
		aliasHook(fn, s, t, fmt.Sprintf("empty result has capacity %d, want cap(s)-%d = %d: it is not s[%d:%d]", cap(res), off, cap(s)-off, off, off))
	}
}

var fnDefs = []fnDef{
	{"Compare", kSS, func(s, t string, _ int64) string { return itoa(sign(strcase.Compare(s, t))) },
		func(s, t []byte, _ int64) string { return itoa(sign(bytcase.Compare(s, t))) }},
	{"EqualFold", kSS, func(s, t string, _ int64) string { return b2s(strcase.EqualFold(s, t)) },
		func(s, t []byte, _ int64) string { return b2s(bytcase.EqualFold(s, t)) }},
	{"Index", kSS, func(s, t string, _ int64) string { return itoa(strcase.Index(s, t)) },
		func(s, t []byte, _ int64) string { return itoa(bytcase.Index(s, t)) }},
	{"Contains", kSS, func(s, t string, _ int64) string { return b2s(strcase.Contains(s, t)) },
		func(s, t []byte, _ int64) string { return b2s(bytcase.Contains(s, t)) }},
	{"LastIndex", kSS, func(s, t string, _ int64) string { return itoa(strcase.LastIndex(s, t)) },
		func(s, t []byte, _ int64) string { return itoa(bytcase.LastIndex(s, t)) }},
	{"HasPrefix", kSS, func(s, t string, _ int64) string { return b2s(strcase.HasPrefix(s, t)) },
		func(s, t []byte, _ int64) string { return b2s(bytcase.HasPrefix(s, t)) }},
	{"HasSuffix", kSS, func(s, t string, _ int64) string { return b2s(strcase.HasSuffix(s, t)) },
		func(s, t []byte, _ int64) string { return b2s(bytcase.HasSuffix(s, t)) }},
	{"TrimPrefix", kSS, func(s, t string, _ int64) string { return viewS(s, strcase.TrimPrefix(s, t)) },
		func(s, t []byte, _ int64) string {
			r := bytcase.TrimPrefix(s, t)
			emptyAlias("TrimPrefix", s, t, r, len(s), false)
			return viewB(s, r)
		}},
	{"TrimSuffix", kSS, func(s, t string, _ int64) string { return viewS(s, strcase.TrimSuffix(s, t)) },
		func(s, t []byte, _ int64) string {
			r := bytcase.TrimSuffix(s, t)
			emptyAlias("TrimSuffix", s, t, r, 0, false)
			return viewB(s, r)
		}},
	{"CutPrefix", kSS, func(s, t string, _ int64) string {
		a, f := strcase.CutPrefix(s, t)
		return viewS(s, a) + ":" + b2s(f)
	}, func(s, t []byte, _ int64) string {
		a, f := bytcase.CutPrefix(s, t)
		emptyAlias("CutPrefix", s, t, a, len(s), false)
		return viewB(s, a) + ":" + b2s(f)
	}},
	{"CutSuffix", kSS, func(s, t string, _ int64) string {
		a, f := strcase.CutSuffix(s, t)
		return viewS(s, a) + ":" + b2s(f)
	}, func(s, t []byte, _ int64) string {
		a, f := bytcase.CutSuffix(s, t)
		emptyAlias("CutSuffix", s, t, a, 0, false)
		return viewB(s, a) + ":" + b2s(f)
	}},
	{"Count", kSS, func(s, t string, _ int64) string { return itoa(strcase.Count(s, t)) },
		func(s, t []byte, _ int64) string { return itoa(bytcase.Count(s, t)) }},
	{"Cut", kSS, func(s, t string, _ int64) string {
		b, a, f := strcase.Cut(s, t)
		return viewS(s, b) + ":" + viewS(s, a) + ":" + b2s(f)
	}, func(s, t []byte, _ int64) string {
		b, a, f := bytcase.Cut(s, t)
		emptyAlias("Cut", s, t, b, 0, false)
		emptyAlias("Cut", s, t, a, len(s), !f)
		return viewB(s, b) + ":" + viewB(s, a) + ":" + b2s(f)
	}},
	{"IndexAny", kSS, func(s, t string, _ int64) string { return itoa(strcase.IndexAny(s, t)) },
		func(s, t []byte, _ int64) string { return itoa(bytcase.IndexAny(s, t)) }},
	{"LastIndexAny", kSS, func(s, t string, _ int64) string { return itoa(strcase.LastIndexAny(s, t)) },
		func(s, t []byte, _ int64) string { return itoa(bytcase.LastIndexAny(s, t)) }},
	{"ContainsAny", kSS, func(s, t string, _ int64) string { return b2s(strcase.ContainsAny(s, t)) },
		func(s, t []byte, _ int64) string { return b2s(bytcase.ContainsAny(s, t)) }},
	{"IndexRune", kSR, func(s, _ string, r int64) string { return itoa(strcase.IndexRune(s, rune(r))) },
		func(s, _ []byte, r int64) string { return itoa(bytcase.IndexRune(s, rune(r))) }},
	{"ContainsRune", kSR, func(s, _ string, r int64) string { return b2s(strcase.ContainsRune(s, rune(r))) },
		func(s, _ []byte, r int64) string { return b2s(bytcase.ContainsRune(s, rune(r))) }},
	{"IndexByte", kSB, func(s, _ string, r int64) string { return itoa(strcase.IndexByte(s, byte(r))) },
		func(s, _ []byte, r int64) string { return itoa(bytcase.IndexByte(s, byte(r))) }},
	{"LastIndexByte", kSB, func(s, _ string, r int64) string { return itoa(strcase.LastIndexByte(s, byte(r))) },
		func(s, _ []byte, r int64) string { return itoa(bytcase.LastIndexByte(s, byte(r))) }},
	{"IndexByteASCII", kSB, func(s, _ string, r int64) string { return itoa(strcase.IndexByteASCII(s, byte(r))) },
		func(s, _ []byte, r int64) string { return itoa(bytcase.IndexByteASCII(s, byte(r))) }},
	{"IndexNonASCII", kS, func(s, _ string, _ int64) string { return itoa(strcase.IndexNonASCII(s)) },
		func(s, _ []byte, _ int64) string { return itoa(bytcase.IndexNonASCII(s)) }},
	{"ContainsNonASCII", kS, func(s, _ string, _ int64) string { return b2s(strcase.ContainsNonASCII(s)) },
		func(s, _ []byte, _ int64) string { return b2s(bytcase.ContainsNonASCII(s)) }},
}

var fnByName = map[string]*fnDef{}

func init() {
	for i := range fnDefs {
		fnByName[fnDefs[i].name] = &fnDefs[i]
	}
}

func sign(n int) int {
	if n < 0 {
		return -1
	}
	if n > 0 {
		return 1
	}
	return 0
}

// watchdog: the case currently executing, for hang detection
var (
	curCase  atomic.Pointer[Case]
	curSince atomic.Int64
)

// traceFile (flag -trace): every case is written, unbuffered, BEFORE it is executed, so that after a death of the
// process that no recover can catch (stack overflow, out of memory, a fault outside the guarded kernels) the last line
// names the input; used only for the re-run the check driver makes after such a death
var traceFile *os.File

func enter(c *Case) {
	if traceFile != nil {
		traceFile.WriteString(c.line() + "\n")
	}
	curCase.Store(c)
	curSince.Store(time.Now().UnixNano())
}
func leave() { curCase.Store(nil) }

func callStr(d *fnDef, c *Case) (res string) {
	defer func() {
		if e := recover(); e != nil {
			res = "PANIC"
			lastPanic = fmt.Sprint(e)
		}
	}()
	// fresh string copies so that views can be located and nothing is shared
	s := string(c.S)
	t := string(c.T)
	return d.str(s, t, c.R)
}

var lastPanic string

func callByt(d *fnDef, c *Case) (res string) {
	defer func() {
		if e := recover(); e != nil {
			res = "PANIC"
			lastPanic = fmt.Sprint(e)
		}
	}()
	// copies with spare capacity: writes into the spare capacity or the
	// argument bytes are detected below
	s := make([]byte, len(c.S), len(c.S)+8)
	copy(s, c.S)
	copy(s[len(s):cap(s)], "\xa5\xa5\xa5\xa5\xa5\xa5\xa5\xa5")
	t := make([]byte, len(c.T), len(c.T)+8)
	copy(t, c.T)
	copy(t[len(t):cap(t)], "\xa5\xa5\xa5\xa5\xa5\xa5\xa5\xa5")
	r := d.byt(s, t, c.R)
	if !bytes.Equal(s, c.S) || !bytes.Equal(t, c.T) ||
		string(s[len(s):cap(s)]) != "\xa5\xa5\xa5\xa5\xa5\xa5\xa5\xa5" ||
		string(t[len(t):cap(t)]) != "\xa5\xa5\xa5\xa5\xa5\xa5\xa5\xa5" {
		return "MUTATED"
	}
	return r
}

// observe runs one case on both packages
func observe(c *Case) (str, byt string) {
	d := fnByName[c.Fn]
	if d == nil {
		panic("unknown function " + c.Fn)
	}
	enter(c)
	str = callStr(d, c)
	byt = callByt(d, c)
	leave()
	return
}

func hexOrDash(b []byte) string {
	if len(b) == 0 {
		return "-"
	}
	const hexd = "0123456789abcdef"
	out := make([]byte, 2*len(b))
	for i, x := range b {
		out[2*i] = hexd[x>>4]
		out[2*i+1] = hexd[x&15]
	}
	return string(out)
}

// line renders the case the way the OCaml driver parses it
func (c *Case) line() string {
	d := fnByName[c.Fn]
	switch d.kind {
	case kSS:
		return c.Fn + "\t" + hexOrDash(c.S) + "\t" + hexOrDash(c.T)
	case kSR, kSB:
		return c.Fn + "\t" + hexOrDash(c.S) + "\t" + strconv.FormatInt(c.R, 10)
	default:
		return c.Fn + "\t" + hexOrDash(c.S)
	}
}
