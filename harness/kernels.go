package main

// kernels.go — C13: the accelerated byte kernels of internal/bytealg against
// their scalar definition at every length / alignment / placement, with
// the buffer flush against PROT_NONE pages (an over-read that could fault
// does fault and is caught), surroundings filled with the needle.

import (
	"fmt"
	"runtime/debug"
	"syscall"
	"unsafe"

	"github.com/charlievieth/strcase"
)

const pageSize = 4096

type guarded struct {
	region []byte // [guard][rw pages][guard]
	rw     []byte
}

func newGuarded(rwPages int) (*guarded, error) {
	total := (rwPages + 2) * pageSize
	m, err := syscall.Mmap(-1, 0, total, syscall.PROT_READ|syscall.PROT_WRITE, syscall.MAP_ANON|syscall.MAP_PRIVATE)
	if err != nil {
		return nil, err
	}
	if err := syscall.Mprotect(m[:pageSize], syscall.PROT_NONE); err != nil {
		return nil, err
	}
	if err := syscall.Mprotect(m[total-pageSize:], syscall.PROT_NONE); err != nil {
		return nil, err
	}
	return &guarded{region: m, rw: m[pageSize : total-pageSize]}, nil
}

// scalar definitions (the property's own words)
func scalarMatch(c, b byte) bool {
	if b == c {
		return true
	}
	if isAlphaB(c) {
		return b|0x20 == c|0x20 && isAlphaB(b)
	}
	return false
}
func scalarIndexByte(s []byte, c byte) int {
	for i, b := range s {
		if scalarMatch(c, b) {
			return i
		}
	}
	return -1
}
func scalarCount(s []byte, c byte) int {
	n := 0
	for _, b := range s {
		if scalarMatch(c, b) {
			n++
		}
	}
	return n
}
func scalarIndexNonASCII(s []byte) int {
	for i, b := range s {
		if b >= 0x80 {
			return i
		}
	}
	return -1
}

type kernel struct {
	name   string
	needsC bool
	call   func(s []byte, c byte) int
	want   func(s []byte, c byte) int
	model  string
}

func strView(s []byte) string {
	if len(s) == 0 {
		return ""
	}
	return unsafe.String(&s[0], len(s))
}

var kernels = []kernel{
	{"bytealg.IndexByte", true, func(s []byte, c byte) int { return strcase.VerifBytealgIndexByte(s, c) }, scalarIndexByte, "k.index_byte"},
	{"bytealg.IndexByteString", true, func(s []byte, c byte) int { return strcase.VerifBytealgIndexByteString(strView(s), c) }, scalarIndexByte, "k.index_byte"},
	{"bytealg.Count", true, func(s []byte, c byte) int { return strcase.VerifBytealgCount(s, c) }, scalarCount, "k.count"},
	{"bytealg.CountString", true, func(s []byte, c byte) int { return strcase.VerifBytealgCountString(strView(s), c) }, scalarCount, "k.count"},
	{"bytealg.IndexNonASCII", false, func(s []byte, _ byte) int { return strcase.VerifBytealgIndexNonASCII(strView(s)) },
		func(s []byte, _ byte) int { return scalarIndexNonASCII(s) }, "k.index_non_ascii"},
	{"bytealg.IndexByteNonASCII", false, func(s []byte, _ byte) int { return strcase.VerifBytealgIndexByteNonASCII(s) },
		func(s []byte, _ byte) int { return scalarIndexNonASCII(s) }, "k.index_non_ascii"},
}

func callGuarded(k *kernel, s []byte, c byte) (res int, fault string) {
	defer func() {
		if e := recover(); e != nil {
			fault = fmt.Sprint(e)
		}
	}()
	return k.call(s, c), ""
}

func init() {
	props["C13"] = func(x *Ctx) {
		x.limit = 14000
		old := debug.SetPanicOnFault(true)
		defer debug.SetPanicOnFault(old)
		g, err := newGuarded(3)
		if err != nil {
			x.note("mmap/mprotect failed: %v", err)
			x.finding(Finding{Kind: "infra", Detail: "cannot create guard pages: " + err.Error()})
			return
		}
		rw := g.rw
		var lengths []int
		if x.tier == "thorough" {
			for l := 0; l <= 4352; l++ {
				lengths = append(lengths, l)
			}
		} else {
			for l := 0; l <= 200; l++ {
				lengths = append(lengths, l)
			}
			lengths = append(lengths, 255, 256, 257, 511, 512, 513, 1023, 1024, 1025, 4095, 4096, 4097, 4111, 4112, 4113, 4352)
		}
		// (needle, filler, decoys that must not match)
		type cls struct {
			c      byte
			fill   byte
			hits   []byte // bytes that must match
			decoys []byte // bytes that must not
		}
		classes := []cls{
			{'a', 'x', []byte{'a', 'A'}, []byte{'a' ^ 0x80, 'b', '`', 0xE1, 0xC1}},
			{'Z', 'x', []byte{'z', 'Z'}, []byte{'[', '{', 'Y', 0xDA, 0xFA}},
			{'k', '-', []byte{'k', 'K'}, []byte{'j', 'l', 0x0B, 0x2B, 0xEB}},
			{'@', 'x', []byte{'@'}, []byte{'`', 'A', '?', 0xC0}},
			{'[', 'x', []byte{'['}, []byte{'{', 'Z', 'z'}},
			{'`', 'x', []byte{'`'}, []byte{'@', 'a'}},
			{'{', 'x', []byte{'{'}, []byte{'[', 'z'}},
			{'1', 'x', []byte{'1'}, []byte{0x11, 'Q', 'q', 0xB1}},
			{0x00, 'x', []byte{0x00}, []byte{0x20, 0x80}},
			{0x20, 'x', []byte{0x20}, []byte{0x00, 0xA0}},
			{0xC1, 'x', []byte{0xC1}, []byte{0xE1, 'A', 'a', 0x41}},
			{0xE1, 'x', []byte{0xE1}, []byte{0xC1, 'a'}},
			{0xFF, 'x', []byte{0xFF}, []byte{0xDF, 0x7F, 0xFE}},
			{0x7F, 'x', []byte{0x7F}, []byte{0x5F, 0xFF}},
			{0x80, 'x', []byte{0x80}, []byte{0xA0, 0x00}},
		}
		if x.tier == "thorough" {
			for c := 0; c < 256; c++ {
				cl := cls{c: byte(c), fill: 'x', hits: []byte{byte(c)}, decoys: []byte{byte(c) ^ 0x20, byte(c) ^ 0x80, byte(c) + 1}}
				if byte(c) == 'x' || byte(c) == 'X' {
					cl.fill = '-'
				}
				if isAlphaB(byte(c)) {
					cl.hits = append(cl.hits, byte(c)^0x20)
					cl.decoys = cl.decoys[1:]
				}
				classes = append(classes, cl)
			}
		}
		nCalls, nFaults := 0, 0
		written := map[string]int{}
		check := func(k *kernel, s []byte, c byte, where string) {
			nCalls++
			got, fault := callGuarded(k, s, c)
			want := k.want(s, c)
			x.st.Evaluations++
			if fault != "" {
				nFaults++
				x.finding(Finding{Kind: "kernel", Fn: k.name, Case: kcase(k, s, c),
					Detail: fmt.Sprintf("FAULT (%s) len=%d start%%64=%d %s c=%#x", fault, len(s), startAlign(s), where, c)})
				return
			}
			if got != want {
				x.finding(Finding{Kind: "kernel", Fn: k.name, Case: kcase(k, s, c),
					Detail: fmt.Sprintf("got %d want %d: len=%d start%%64=%d %s c=%#x", got, want, len(s), startAlign(s), where, c)})
			}
			// a sample goes through the extracted scalar definition as well
			// (and through the x86 machine model run on the translated assembly: lib/extra.py phase_C13);
			// stratified by length so that every 16-byte bucket up to 320 bytes is represented
			if wk := fmt.Sprintf("%s/%d", k.model, len(s)/16); len(s) <= 320 && written[wk] < 70 && (nCalls%7 == 0 || len(s) > 32) {
				written[wk]++
				x.raw(kcase(k, s, c), itoa(got), true)
			}
			if got >= 0 {
				x.st.Nontrivial++
			}
			x.st.Distinct++
		}
		for _, l := range lengths {
			// placements: flush against the trailing guard, flush against the leading guard, interior at varying alignment
			placements := []struct {
				off   int
				where string
			}{
				{len(rw) - l, "flush-end"},
				{0, "flush-start"},
			}
			nAlign := 4
			if x.tier == "thorough" {
				nAlign = 64
				if l > 512 {
					nAlign = 8 // every alignment up to 512 bytes; beyond, eight alignments that rotate with the length
				}
			}
			for a := 0; a < nAlign; a++ {
				al := a
				if nAlign != 64 {
					al = (l*7 + a*17) % 64
				}
				placements = append(placements, struct {
					off   int
					where string
				}{pageSize + 64 + al, fmt.Sprintf("interior+%d", al)})
			}
			for _, pl := range placements {
				if pl.off < 0 || pl.off+l > len(rw) {
					continue
				}
				s := rw[pl.off : pl.off+l : pl.off+l]
				for ci := range classes {
					cl := &classes[ci]
					if x.tier == "thorough" && ci >= 15 && l > 80 && l%97 != 0 {
						continue // the 256-needle sweep at every length only for short buffers, else a stride
					}
					// surroundings: needle everywhere outside s
					for i := range rw {
						rw[i] = cl.c
					}
					for i := range s {
						s[i] = cl.fill
					}
					for ki := range kernels {
						k := &kernels[ki]
						if !k.needsC {
							continue
						}
						check(k, s, cl.c, pl.where) // no match
					}
					if l == 0 {
						continue
					}
					// single match positions
					pos := []int{0, l - 1, l / 2, l - 16, l - 17, l - 15, 15, 16, 17, 31, 32, 33, 63, 64, 65, l - 32, l - 33, l - 64, l - 65}
					if l <= 70 || x.tier == "thorough" && l <= 200 {
						pos = pos[:0]
						for p := 0; p < l; p++ {
							pos = append(pos, p)
						}
					}
					for _, p := range pos {
						if p < 0 || p >= l {
							continue
						}
						for hi, h := range cl.hits {
							s[p] = h
							for ki := range kernels {
								if kernels[ki].needsC {
									check(&kernels[ki], s, cl.c, pl.where)
								}
							}
							// a second hit later on (count, and index must still report the first)
							if hi == 0 {
								for _, q := range []int{p + 1, p + 16, p + 33, l - 1} {
									if q > p && q < l {
										s[q] = cl.hits[len(cl.hits)-1]
										for ki := range kernels {
											if kernels[ki].needsC {
												check(&kernels[ki], s, cl.c, pl.where)
											}
										}
										s[q] = cl.fill
									}
								}
							}
							s[p] = cl.fill
						}
						for _, d := range cl.decoys {
							s[p] = d
							for ki := range kernels {
								if kernels[ki].needsC {
									check(&kernels[ki], s, cl.c, pl.where)
								}
							}
							s[p] = cl.fill
						}
					}
				}
				// non-ASCII kernels: surroundings high-bit, interior ASCII
				for i := range rw {
					rw[i] = 0xFF
				}
				for i := range s {
					s[i] = byte('a' + i%26)
				}
				for ki := range kernels {
					if !kernels[ki].needsC {
						check(&kernels[ki], s, 0, pl.where)
					}
				}
				pos := []int{0, l - 1, l / 2, l - 16, l - 17, l - 15, 7, 8, 15, 16, 17, 31, 32, 33, 63, 64, l - 8, l - 9, l - 32, l - 33}
				if l <= 70 {
					pos = pos[:0]
					for p := 0; p < l; p++ {
						pos = append(pos, p)
					}
				}
				for _, p := range pos {
					if p < 0 || p >= l {
						continue
					}
					for _, hb := range []byte{0x80, 0xFF, 0xC3} {
						s[p] = hb
						for ki := range kernels {
							if !kernels[ki].needsC {
								check(&kernels[ki], s, 0, pl.where)
							}
						}
						if p+5 < l {
							s[p+5] = 0x90
							for ki := range kernels {
								if !kernels[ki].needsC {
									check(&kernels[ki], s, 0, pl.where)
								}
							}
							s[p+5] = 'q'
						}
						s[p] = 0x7F // highest ASCII byte must not match
						for ki := range kernels {
							if !kernels[ki].needsC {
								check(&kernels[ki], s, 0, pl.where)
							}
						}
						s[p] = 'a'
					}
				}
			}
		}
		// all 256 x 256 (needle, data byte) combinations on each code path length class
		for _, l := range []int{1, 7, 15, 16, 17, 31, 32, 33, 48, 64, 65, 100, 130} {
			s := rw[len(rw)-l:]
			for c := 0; c < 256; c++ {
				for i := range rw {
					rw[i] = byte(c)
				}
				for d := 0; d < 256; d++ {
					for i := range s {
						s[i] = byte(d)
					}
					for ki := range kernels {
						if kernels[ki].needsC {
							check(&kernels[ki], s, byte(c), "flush-end all-bytes")
						}
					}
				}
			}
		}
		x.note("kernel calls: %d, faults: %d, lengths: %d (max %d), needle classes: %d", nCalls, nFaults, len(lengths), lengths[len(lengths)-1], len(classes))
	}
}

func startAlign(s []byte) int {
	if len(s) == 0 {
		return 0
	}
	return int(uintptr(unsafe.Pointer(&s[0])) % 64)
}

func kcase(k *kernel, s []byte, c byte) string {
	if k.needsC {
		return k.model + "\t" + hexOrDash(s) + "\t" + itoa(int(c))
	}
	return k.model + "\t" + hexOrDash(s)
}
