package main

// Verification harness for charlievieth/strcase (built with -tags verif
// against /repo through a replace directive).
//
//	harness -prop C01 -seed 1 -tier quick -out DIR
//
// writes DIR/cases.tsv (cases + the implementation's observations, for the
// extracted Coq model) and DIR/stats.json (what was explored, candidates
// for violations found on the Go side).  It never prints VIOLATION itself:
// the ./check driver decides, after consulting the extracted model.

import (
	"bufio"
	"encoding/json"
	"flag"
	"fmt"
	"hash/fnv"
	"math/rand"
	"os"
	"path/filepath"
	"runtime"
	"sort"
	"strconv"
	"strings"
	"time"

	"github.com/charlievieth/strcase"
)

type Finding struct {
	Prop   string `json:"prop"`
	Kind   string `json:"kind"` // ref-mismatch | parity | relation | panic | hang | copy | mutated | alloc | race | kernel | config
	Fn     string `json:"fn"`
	Case   string `json:"case"` // the case line (replayable through the model driver)
	Str    string `json:"strcase,omitempty"`
	Byt    string `json:"bytcase,omitempty"`
	Want   string `json:"want,omitempty"`
	Detail string `json:"detail,omitempty"`
}

type Stats struct {
	Prop         string         `json:"prop"`
	Seed         int64          `json:"seed"`
	Tier         string         `json:"tier"`
	Evaluations  int            `json:"evaluations"`
	Distinct     int            `json:"distinct"`
	Nontrivial   int            `json:"distinct_nontrivial"`
	CasesWritten int            `json:"cases_written"`
	PerFn        map[string]int `json:"per_function"`
	Dist         map[string]int `json:"distribution"`
	Samples      []string       `json:"samples"`
	Findings     []Finding      `json:"findings"`
	Notes        []string       `json:"notes"`
	GoArch       string         `json:"goarch"`
	NativeIndex  bool           `json:"native_index"`
	WallS        float64        `json:"wall_s"`
}

type Ctx struct {
	prop           string
	internalPanics int
	tier           string
	seed           int64
	g              *Gen
	st             *Stats
	out            *bufio.Writer
	seen           map[uint64]struct{}
	limit          int // max cases written for the model
	scale          int
}

func (x *Ctx) note(format string, a ...interface{}) {
	x.st.Notes = append(x.st.Notes, fmt.Sprintf(format, a...))
}

func (x *Ctx) finding(f Finding) {
	if len(x.st.Findings) < 200 {
		f.Prop = x.prop
		x.st.Findings = append(x.st.Findings, f)
	}
}

func lenBucket(n int) string {
	switch {
	case n == 0:
		return "0"
	case n <= 8:
		return "1-8"
	case n <= 16:
		return "9-16"
	case n <= 32:
		return "17-32"
	case n <= 64:
		return "33-64"
	default:
		return ">64"
	}
}

func trivialObs(fn, o string) bool {
	switch o {
	case "-1", "0", "":
		return true
	}
	switch fn {
	case "Cut":
		return len(o) > 1 && o[len(o)-1] == '0'
	case "CutPrefix", "CutSuffix":
		return len(o) > 1 && o[len(o)-1] == '0'
	}
	return false
}

// eval runs one case on the implementation, compares with the Go reference
// and the other package, and (subject to the budget) writes it out for the
// extracted model.  force makes the case go to the model regardless.
func (x *Ctx) eval(c *Case, force bool) (str, byt string) {
	str, byt = observe(c)
	x.st.Evaluations++
	x.st.PerFn[c.Fn]++
	line := c.line()
	h := fnv.New64a()
	h.Write([]byte(line))
	hv := h.Sum64()
	_, dup := x.seen[hv]
	if !dup {
		x.seen[hv] = struct{}{}
		x.st.Distinct++
		if !trivialObs(c.Fn, str) && len(c.S) > 0 {
			x.st.Nontrivial++
		}
		x.st.Dist["len_s:"+lenBucket(len(c.S))]++
		if fnByName[c.Fn].kind == kSS {
			x.st.Dist["len_t:"+lenBucket(len(c.T))]++
		}
		if trivialObs(c.Fn, str) {
			x.st.Dist["result:no-match-or-zero"]++
		} else {
			x.st.Dist["result:match-or-nonzero"]++
		}
	}
	want := ref(c)
	bad := false
	if str != byt {
		x.finding(Finding{Kind: "parity", Fn: c.Fn, Case: line, Str: str, Byt: byt, Want: want})
		bad = true
	}
	if want != "" && (str != want || byt != want) {
		x.finding(Finding{Kind: "ref-mismatch", Fn: c.Fn, Case: line, Str: str, Byt: byt, Want: want})
		bad = true
	}
	if str == "PANIC" || byt == "PANIC" {
		x.finding(Finding{Kind: "panic", Fn: c.Fn, Case: line, Str: str, Byt: byt, Detail: lastPanic})
		bad = true
	}
	// very long inputs are decided against the Go reference only (the extracted model works on
	// unary/binary inductive numbers); a disagreement is always sent to the model
	tooLong := len(c.S) > 8192 || len(c.T) > 8192
	if !dup && (bad || (!tooLong && (force || x.st.CasesWritten < x.limit))) {
		x.st.CasesWritten++
		fmt.Fprintf(x.out, "%s\t=\t%s\t%s\t%s\n", line, str, byt, want)
		if len(x.st.Samples) < 12 && (x.st.CasesWritten%97 == 1) {
			x.st.Samples = append(x.st.Samples, line+" => "+str)
		}
	}
	return
}

func (x *Ctx) run(fn string, s, t []byte, r int64) (string, string) {
	return x.eval(&Case{Fn: fn, S: s, T: t, R: r}, false)
}

var props = map[string]func(x *Ctx){}

func main() {
	prop := flag.String("prop", "", "property id")
	seed := flag.Int64("seed", 1, "PRNG seed")
	tier := flag.String("tier", "quick", "quick|thorough")
	out := flag.String("out", "", "output directory")
	replay := flag.String("replay", "", "replay a single case line (TAB separated) and print observations")
	trace := flag.String("trace", "", "write every case to this file before executing it (to find the input of a fatal crash)")
	replayFile := flag.String("replayfile", "", "replay every case line of this file; prints \"CASE <n>\" before executing line n (used by the instruction-set probe)")
	flag.Parse()

	if *trace != "" {
		tf, err := os.Create(*trace)
		if err != nil {
			fmt.Fprintln(os.Stderr, err)
			os.Exit(2)
		}
		traceFile = tf
	}
	if *replay != "" {
		doReplay(*replay)
		return
	}
	if *replayFile != "" {
		data, err := os.ReadFile(*replayFile)
		if err != nil {
			fmt.Fprintln(os.Stderr, err)
			os.Exit(2)
		}
		for i, line := range strings.Split(strings.TrimRight(string(data), "\n"), "\n") {
			fmt.Printf("CASE %d\n", i)
			doReplay(line)
		}
		return
	}
	f, ok := props[*prop]
	if !ok {
		fmt.Fprintf(os.Stderr, "unknown property %q\n", *prop)
		os.Exit(2)
	}
	if err := os.MkdirAll(*out, 0o755); err != nil {
		fmt.Fprintln(os.Stderr, err)
		os.Exit(2)
	}
	cf, err := os.Create(filepath.Join(*out, "cases.tsv"))
	if err != nil {
		fmt.Fprintln(os.Stderr, err)
		os.Exit(2)
	}
	w := bufio.NewWriterSize(cf, 1<<20)
	st := &Stats{Prop: *prop, Seed: *seed, Tier: *tier, PerFn: map[string]int{}, Dist: map[string]int{},
		GoArch: runtime.GOARCH, NativeIndex: nativeIndex()}
	x := &Ctx{prop: *prop, tier: *tier, seed: *seed, g: &Gen{rng: rand.New(rand.NewSource(*seed))},
		st: st, out: w, seen: map[uint64]struct{}{}, limit: 40000, scale: 1}
	if *tier == "thorough" {
		x.limit = 400000
		x.scale = 10
	}
	if *prop == "C05" || *prop == "C18" {
		nAlias := 0
		aliasHook = func(fn string, s, t []byte, detail string) {
			if nAlias++; nAlias <= 5 {
				x.finding(Finding{Kind: "copy", Fn: fn, Case: (&Case{Fn: fn, S: s, T: t}).line(), Detail: "bytcase." + fn + ": " + detail})
			}
		}
	}
	writeStats := func() {
		sort.Strings(st.Notes)
		w.Flush()
		cf.Close()
		js, _ := json.MarshalIndent(st, "", " ")
		os.WriteFile(filepath.Join(*out, "stats.json"), js, 0o644)
	}
	// hang watchdog: a single call never legitimately runs for 20 s
	go func() {
		ms := new(runtime.MemStats) // allocated once: the allocation measurements of C05 must not see this goroutine
		for {
			time.Sleep(500 * time.Millisecond)
			c := curCase.Load()
			// a call that makes the heap explode is stopped before the machine is (the library never allocates)
			runtime.ReadMemStats(ms)
			if ms.HeapAlloc > 6<<30 {
				f := Finding{Kind: "fatal", Detail: fmt.Sprintf("heap grew to %d MiB during a call", ms.HeapAlloc>>20)}
				if c != nil {
					f.Fn, f.Case = c.Fn, c.line()
				}
				x.finding(f)
				st.Notes = append(st.Notes, "aborted by watchdog (heap)")
				w.Flush()
				js, _ := json.MarshalIndent(st, "", " ")
				os.WriteFile(filepath.Join(*out, "stats.json"), js, 0o644)
				os.Exit(3)
			}
			if c != nil && time.Now().UnixNano()-curSince.Load() > int64(20*time.Second) {
				x.finding(Finding{Kind: "hang", Fn: c.Fn, Case: c.line(), Detail: "call did not return within 20s"})
				st.Notes = append(st.Notes, "aborted by watchdog")
				w.Flush() // the main goroutine is stuck inside the library call, not writing
				js, _ := json.MarshalIndent(st, "", " ")
				os.WriteFile(filepath.Join(*out, "stats.json"), js, 0o644)
				os.Exit(3)
			}
		}
	}()
	t0 := time.Now()
	x.regressions()
	f(x)
	st.WallS = time.Since(t0).Seconds()
	writeStats()
}

func doReplay(line string) {
	if strings.HasPrefix(line, "k.") {
		// a kernel case: both entry points of the kernel under the CPU features this process sees
		f := strings.Split(line, "\t")
		s, err := unhex(f[1])
		if err != nil {
			fmt.Fprintln(os.Stderr, err)
			os.Exit(2)
		}
		c := 0
		if len(f) > 2 {
			c, _ = strconv.Atoi(f[2])
		}
		var a, b int
		switch f[0] {
		case "k.index_non_ascii":
			a, b = strcase.VerifBytealgIndexNonASCII(string(s)), strcase.VerifBytealgIndexByteNonASCII(s)
		case "k.index_byte":
			a, b = strcase.VerifBytealgIndexByteString(string(s), byte(c)), strcase.VerifBytealgIndexByte(s, byte(c))
		case "k.count":
			a, b = strcase.VerifBytealgCountString(string(s), byte(c)), strcase.VerifBytealgCount(s, byte(c))
		default:
			fmt.Fprintln(os.Stderr, "unknown kernel case", f[0])
			os.Exit(2)
		}
		fmt.Printf("strcase=%d\tbytcase=%d\tref=\n", a, b)
		return
	}
	c, err := parseCase(line)
	if err != nil {
		fmt.Fprintln(os.Stderr, err)
		os.Exit(2)
	}
	s, b := observe(c)
	fmt.Printf("strcase=%s\tbytcase=%s\tref=%s\n", s, b, ref(c))
}
