package main

// rel.go — relational / oracle checks evaluated directly on the
// implementation: the property's own predicate, with strings/bytes or the
// API itself as the oracle.

import (
	"bytes"
	"fmt"
	"strconv"
	"strings"
	"unicode"
	"unicode/utf8"

	"github.com/charlievieth/strcase"
	"github.com/charlievieth/strcase/bytcase"
)

func atoi(s string) int {
	n, err := strconv.Atoi(s)
	if err != nil {
		return -99
	}
	return n
}

func (x *Ctx) relFail(kind, fn string, c *Case, detail string) {
	line := ""
	if c != nil {
		line = c.line()
	}
	x.finding(Finding{Kind: kind, Fn: fn, Case: line, Detail: detail})
}

// boundaries of s (byte offsets), including len(s)
func bounds(s []byte) []int {
	out := []int{0}
	o := 0
	for _, q := range segsOf(s) {
		o += q.w
		out = append(out, o)
	}
	return out
}

// runeIdx: code-point index of byte offset o in s, or -2 if o is not a boundary
func runeIdx(s []byte, o int) int {
	if o < 0 {
		return o
	}
	for k, b := range bounds(s) {
		if b == o {
			return k
		}
	}
	return -2
}

// ---- C01 / C08: the property's own words, strings.EqualFold as oracle ----

func leftmostByEqualFold(s, sub string, rightmost bool) int {
	bs := bounds([]byte(s))
	best := -1
	for ii, i := range bs {
		for _, j := range bs[ii:] {
			if strings.EqualFold(s[i:j], sub) {
				if best < 0 || rightmost {
					best = i
				}
				break
			}
		}
		if best >= 0 && !rightmost {
			break
		}
	}
	return best
}

func relC01(x *Ctx, n int) {
	for i := 0; i < n; i++ {
		s, t := x.g.pair(streamValid)
		if len(s) > 48 {
			continue
		}
		str, byt := x.run("Index", s, t, 0)
		want := leftmostByEqualFold(string(s), string(t), false)
		if atoi(str) != want || atoi(byt) != want {
			x.relFail("relation", "Index", &Case{Fn: "Index", S: s, T: t},
				fmt.Sprintf("leftmost boundary i with strings.EqualFold(s[i:j],sub) is %d; strcase=%s bytcase=%s", want, str, byt))
		}
		cs, cb := x.run("Contains", s, t, 0)
		if (cs == "1") != (want >= 0) || (cb == "1") != (want >= 0) {
			x.relFail("relation", "Contains", &Case{Fn: "Contains", S: s, T: t}, "Contains != (leftmost match exists)")
		}
	}
}

func relC08(x *Ctx, n int) {
	for i := 0; i < n; i++ {
		s, t := x.g.pair(streamValid)
		if len(s) > 48 {
			continue
		}
		str, byt := x.run("LastIndex", s, t, 0)
		want := leftmostByEqualFold(string(s), string(t), true)
		if len(t) == 0 {
			want = len(s)
		}
		if atoi(str) != want || atoi(byt) != want {
			x.relFail("relation", "LastIndex", &Case{Fn: "LastIndex", S: s, T: t},
				fmt.Sprintf("rightmost boundary i with strings.EqualFold(s[i:j],sub) is %d; strcase=%s bytcase=%s", want, str, byt))
		}
		is, _ := x.run("Index", s, t, 0)
		if (atoi(is) >= 0) != (atoi(str) >= 0) || atoi(is) > atoi(str) {
			x.relFail("relation", "LastIndex", &Case{Fn: "LastIndex", S: s, T: t}, "Index/LastIndex disagree: "+is+" vs "+str)
		}
	}
}

// ---- C02: strings.EqualFold / bytes.EqualFold as oracle, on every case ----

func relC02(x *Ctx) {
	check := func(s, t []byte) {
		a := strcase.EqualFold(string(s), string(t))
		b := bytcase.EqualFold(s, t)
		w1 := strings.EqualFold(string(s), string(t))
		w2 := bytes.EqualFold(s, t)
		x.st.Evaluations++
		if a != w1 || b != w2 {
			x.relFail("relation", "EqualFold", &Case{Fn: "EqualFold", S: s, T: t},
				fmt.Sprintf("strcase=%v strings=%v bytcase=%v bytes=%v", a, w1, b, w2))
		}
	}
	n := 100000 * x.scale
	for i := 0; i < n; i++ {
		st := streamValid
		if i%2 == 1 {
			st = streamIll
		}
		s, t := x.g.pair(st)
		check(s, t)
		alpha := x.g.alphabet(st)
		s = join(x.g.toks(alpha, x.g.intn(10)))
		t = x.g.recase(s, st == streamIll, 0.7)
		check(s, t)
		check(t, s)
		if len(t) > 0 {
			check(s, t[:len(t)-1])
		}
	}
	// every code point against every member of its orbit and near misses
	step := 1
	for r := rune(0); r <= 0x10FFFF; r += rune(step) {
		if !utf8.ValidRune(r) {
			continue
		}
		o := orbitOf(r)
		if len(o) == 1 && x.tier != "thorough" && r%61 != 0 {
			continue
		}
		for _, m := range o {
			check([]byte(string(r)), []byte(string(m)))
		}
		check([]byte(string(r)), []byte(string(r+1)))
		check([]byte(string(r)), []byte(string(r^0x20)))
	}
}

// ---- C04: order laws on the implementation ----

func relC04(x *Ctx, n int) {
	cmp := func(s, t []byte) int {
		a, b := x.run("Compare", s, t, 0)
		if a != b {
			return -99
		}
		return atoi(a)
	}
	g := x.g
	for i := 0; i < n; i++ {
		st := streamValid
		if i%3 == 2 {
			st = streamIll
		}
		alpha := g.alphabet(st)
		mk := func() []byte {
			b := join(g.toks(alpha, g.intn(6)))
			if g.chance(0.2) {
				b = append(g.pad(st), b...)
			}
			return b
		}
		a, b, c := mk(), mk(), mk()
		if g.chance(0.4) {
			b = append(g.recase(a, st == streamIll, 0.7), join(g.toks(alpha, g.intn(2)))...)
		}
		if g.chance(0.4) {
			c = append(g.recase(b, st == streamIll, 0.7), join(g.toks(alpha, g.intn(2)))...)
		}
		ab, ba, bc, ac := cmp(a, b), cmp(b, a), cmp(b, c), cmp(a, c)
		if ab != -ba {
			x.relFail("relation", "Compare", &Case{Fn: "Compare", S: a, T: b}, fmt.Sprintf("antisymmetry: Compare(s,t)=%d Compare(t,s)=%d", ab, ba))
		}
		es, _ := x.run("EqualFold", a, b, 0)
		if (ab == 0) != (es == "1") {
			x.relFail("relation", "Compare", &Case{Fn: "Compare", S: a, T: b}, "Compare==0 differs from EqualFold")
		}
		if ab <= 0 && bc <= 0 && ac > 0 {
			x.relFail("relation", "Compare", &Case{Fn: "Compare", S: a, T: c}, fmt.Sprintf("transitivity: a<=b<=c but Compare(a,c)=%d; b=%x", ac, b))
		}
		if ab >= 0 && bc >= 0 && ac < 0 {
			x.relFail("relation", "Compare", &Case{Fn: "Compare", S: a, T: c}, fmt.Sprintf("transitivity: a>=b>=c but Compare(a,c)=%d; b=%x", ac, b))
		}
		// unchanged when an argument is replaced by a fold-equal string
		a2 := g.recase(a, st == streamIll, 0.8)
		if cmp(a2, b) != ab {
			x.relFail("relation", "Compare", &Case{Fn: "Compare", S: a2, T: b}, fmt.Sprintf("Compare changed (%d -> %d) when s was re-cased from %x", ab, cmp(a2, b), a))
		}
		// ASCII: byte order of the lower-cased text
		if st == streamValid && i%4 == 0 {
			sa := []byte(strings.Map(func(r rune) rune {
				if r >= 0x80 {
					return -1
				}
				return r
			}, string(a)))
			sb := []byte(strings.Map(func(r rune) rune {
				if r >= 0x80 {
					return -1
				}
				return r
			}, string(b)))
			want := strings.Compare(strings.ToLower(string(sa)), strings.ToLower(string(sb)))
			if got := cmp(sa, sb); got != want {
				x.relFail("relation", "Compare", &Case{Fn: "Compare", S: sa, T: sb}, fmt.Sprintf("ASCII order: got %d want %d", got, want))
			}
		}
	}
	// all ordered pairs of single code points with non-trivial orbits (sampled in quick)
	var cps []rune
	for r := rune(0); r <= 0x10FFFF; r++ {
		if len(orbitOf(r)) > 1 {
			cps = append(cps, r)
		}
	}
	stride := 23
	if x.tier == "thorough" {
		stride = 1
	}
	cnt := 0
	for i := 0; i < len(cps); i++ {
		for j := (i * 7) % stride; j < len(cps); j += stride {
			a, b := string(cps[i]), string(cps[j])
			ab, ba := strcase.Compare(a, b), strcase.Compare(b, a)
			cnt++
			if sign(ab) != -sign(ba) || (ab == 0) != strings.EqualFold(a, b) {
				x.relFail("relation", "Compare", &Case{Fn: "Compare", S: []byte(a), T: []byte(b)}, "single code point pair: antisymmetry or zero-iff-EqualFold")
			}
		}
	}
	x.st.Evaluations += cnt
	x.note("single code point pairs: %d of %d^2", cnt, len(cps))
}

// ---- C06: random junk, ranges ----

func relC06(x *Ctx) {
	g := x.g
	n := 30000 * x.scale
	for i := 0; i < n; i++ {
		ls, lt := g.intn(40), g.intn(12)
		if g.chance(0.05) {
			ls = 60 + g.intn(300)
		}
		s := make([]byte, ls)
		t := make([]byte, lt)
		hi := 256
		lo := 0
		if g.chance(0.5) {
			lo, hi = 0x70, 0x100
		}
		for j := range s {
			s[j] = byte(lo + g.intn(hi-lo))
		}
		for j := range t {
			if g.chance(0.5) && ls > 0 {
				t[j] = s[g.intn(ls)]
			} else {
				t[j] = byte(lo + g.intn(hi-lo))
			}
		}
		for _, fn := range allSS {
			a, b := x.run(fn, s, t, 0)
			x.rangeCheck(fn, s, t, 0, a, b)
		}
		r := edgeRunes[g.intn(len(edgeRunes))]
		if g.chance(0.5) {
			r = int64(int32(g.rng.Uint32()))
		}
		a, b := x.run("IndexRune", s, nil, r)
		x.rangeCheck("IndexRune", s, nil, r, a, b)
		c := int64(g.intn(256))
		for _, fn := range []string{"IndexByte", "LastIndexByte", "IndexByteASCII"} {
			a, b := x.run(fn, s, nil, c)
			x.rangeCheck(fn, s, nil, c, a, b)
		}
	}
}

func (x *Ctx) rangeCheck(fn string, s, t []byte, r int64, obs ...string) {
	for _, o := range obs {
		switch fn {
		case "Index", "LastIndex", "IndexAny", "LastIndexAny", "IndexRune", "IndexByte", "LastIndexByte", "IndexByteASCII", "IndexNonASCII":
			v := atoi(o)
			if v < -1 || v > len(s) {
				x.relFail("relation", fn, &Case{Fn: fn, S: s, T: t, R: r}, "offset out of [-1,len(s)]: "+o)
			}
		}
		if strings.Contains(o, "COPY") || strings.Contains(o, "PANIC") || strings.Contains(o, "MUTATED") {
			x.relFail("relation", fn, &Case{Fn: fn, S: s, T: t, R: r}, "observation "+o)
		}
	}
}

func relC07(x *Ctx) {
	// parity is checked on every evaluated case by eval(); nothing extra here.
}

func relC15(x *Ctx) {
	// README examples
	ex := []struct {
		fn   string
		s, t string
		want string
	}{
		{"Index", "a\xff", "�", "1"},
		{"Compare", "\xff", "�", "0"},
		{"EqualFold", "\xff", "\x80", "1"},
		{"Index", "\xc3\xc3", "��", "0"},
		{"HasPrefix", "\xc3", "�", "1"},
		{"Count", "a�b\xfe", "\xff", "2"},
		{"LastIndex", "\xff", "\xfe", "0"},
	}
	for _, e := range ex {
		a, b := x.eval(&Case{Fn: e.fn, S: []byte(e.s), T: []byte(e.t)}, true)
		if a != e.want || b != e.want {
			x.relFail("relation", e.fn, &Case{Fn: e.fn, S: []byte(e.s), T: []byte(e.t)}, "documented example: want "+e.want+" got "+a+"/"+b)
		}
	}
}

// ---- C17: the API agrees with itself ----

func (x *Ctx) selfConsistent(s, t []byte) {
	o := map[string][2]string{}
	for _, fn := range allSS {
		a, b := x.run(fn, s, t, 0)
		o[fn] = [2]string{a, b}
	}
	fail := func(fn, d string) {
		x.relFail("relation", fn, &Case{Fn: fn, S: s, T: t}, d)
	}
	for p := 0; p < 2; p++ {
		get := func(fn string) string { return o[fn][p] }
		idx, lidx, cnt := atoi(get("Index")), atoi(get("LastIndex")), atoi(get("Count"))
		cutFound := strings.HasSuffix(get("Cut"), ":1")
		con := get("Contains") == "1"
		if con != (idx >= 0) || con != (lidx >= 0) || con != (cnt > 0) || con != cutFound {
			fail("Contains", fmt.Sprintf("pkg%d Contains=%v Index=%d LastIndex=%d Count=%d CutFound=%v", p, con, idx, lidx, cnt, cutFound))
		}
		if idx > lidx {
			fail("LastIndex", fmt.Sprintf("pkg%d Index=%d > LastIndex=%d", p, idx, lidx))
		}
		hp := get("HasPrefix") == "1"
		cpFound := strings.HasSuffix(get("CutPrefix"), ":1")
		tp := get("TrimPrefix")
		full := sl(0, len(s))
		shortened := tp != full
		if hp != (idx == 0) || hp != cpFound || hp != (shortened || len(t) == 0) {
			fail("HasPrefix", fmt.Sprintf("pkg%d HasPrefix=%v Index=%d CutPrefixFound=%v TrimPrefix=%s", p, hp, idx, cpFound, tp))
		}
		if get("CutPrefix") != tp+":"+b2s(hp) {
			fail("CutPrefix", fmt.Sprintf("pkg%d CutPrefix=%s TrimPrefix=%s", p, get("CutPrefix"), tp))
		}
		hs := get("HasSuffix") == "1"
		csFound := strings.HasSuffix(get("CutSuffix"), ":1")
		ts := get("TrimSuffix")
		sufByLast := false
		if lidx >= 0 && lidx <= len(s) {
			var eq string
			if p == 0 {
				eq = b2s(strcase.EqualFold(string(s[lidx:]), string(t)))
			} else {
				eq = b2s(bytcase.EqualFold(s[lidx:], t))
			}
			sufByLast = eq == "1"
		}
		if hs != sufByLast || hs != csFound {
			fail("HasSuffix", fmt.Sprintf("pkg%d HasSuffix=%v LastIndex=%d EqualFold(s[i:],t)=%v CutSuffixFound=%v", p, hs, lidx, sufByLast, csFound))
		}
		if hs && ts != sl(0, lidx) {
			fail("TrimSuffix", fmt.Sprintf("pkg%d TrimSuffix=%s but LastIndex=%d", p, ts, lidx))
		}
		if !hs && ts != full {
			fail("TrimSuffix", fmt.Sprintf("pkg%d TrimSuffix=%s without a suffix match", p, ts))
		}
		if get("CutSuffix") != ts+":"+b2s(hs) {
			fail("CutSuffix", fmt.Sprintf("pkg%d CutSuffix=%s TrimSuffix=%s", p, get("CutSuffix"), ts))
		}
		eq := get("EqualFold") == "1"
		sameCount := len(segsOf(s)) == len(segsOf(t))
		if eq != (get("Compare") == "0") || eq != (hp && hs && sameCount) {
			fail("EqualFold", fmt.Sprintf("pkg%d EqualFold=%v Compare=%s HasPrefix=%v HasSuffix=%v sameCount=%v", p, eq, get("Compare"), hp, hs, sameCount))
		}
		if (get("ContainsAny") == "1") != (atoi(get("IndexAny")) >= 0) || (atoi(get("IndexAny")) >= 0) != (atoi(get("LastIndexAny")) >= 0) || atoi(get("IndexAny")) > atoi(get("LastIndexAny")) {
			fail("ContainsAny", fmt.Sprintf("pkg%d ContainsAny=%s IndexAny=%s LastIndexAny=%s", p, get("ContainsAny"), get("IndexAny"), get("LastIndexAny")))
		}
		// Cut: before+matched+after == s, before ends at Index
		if cutFound {
			parts := strings.Split(get("Cut"), ":")
			// before is "e" or "0:i"
			bhi := 0
			if parts[0] != "e" && len(parts) >= 2 {
				bhi = atoi(parts[1])
			}
			if bhi != idx {
				fail("Cut", fmt.Sprintf("pkg%d Cut=%s but Index=%d", p, get("Cut"), idx))
			}
		}
	}
}

func (x *Ctx) selfConsistentRune(s []byte, r int64) {
	a, b := x.run("IndexRune", s, nil, r)
	ca, cb := x.run("ContainsRune", s, nil, r)
	if (ca == "1") != (atoi(a) >= 0) || (cb == "1") != (atoi(b) >= 0) {
		x.relFail("relation", "ContainsRune", &Case{Fn: "ContainsRune", S: s, R: r}, "ContainsRune != (IndexRune >= 0)")
	}
	if validRune(r) {
		rs := []byte(string(rune(r)))
		i1, i2 := x.run("Index", s, rs, 0)
		a1, a2 := x.run("IndexAny", s, rs, 0)
		if a != i1 || b != i2 || a != a1 || b != a2 {
			x.relFail("relation", "IndexRune", &Case{Fn: "IndexRune", S: s, R: r},
				fmt.Sprintf("IndexRune=%s/%s Index(s,string(r))=%s/%s IndexAny(s,string(r))=%s/%s", a, b, i1, i2, a1, a2))
		}
	}
}

func (x *Ctx) selfConsistentByte(s []byte, c int64) {
	a, b := x.run("IndexByte", s, nil, c)
	if c < 0x80 {
		i1, i2 := x.run("Index", s, []byte{byte(c)}, 0)
		if a != i1 || b != i2 {
			x.relFail("relation", "IndexByte", &Case{Fn: "IndexByte", S: s, R: c}, fmt.Sprintf("IndexByte=%s/%s Index(s,string(c))=%s/%s", a, b, i1, i2))
		}
		l1, l2 := x.run("LastIndexByte", s, nil, c)
		j1, j2 := x.run("LastIndex", s, []byte{byte(c)}, 0)
		if l1 != j1 || l2 != j2 {
			x.relFail("relation", "LastIndexByte", &Case{Fn: "LastIndexByte", S: s, R: c}, fmt.Sprintf("LastIndexByte=%s/%s LastIndex(s,string(c))=%s/%s", l1, l2, j1, j2))
		}
	}
	n1, n2 := x.run("IndexNonASCII", s, nil, 0)
	c1, c2 := x.run("ContainsNonASCII", s, nil, 0)
	if (c1 == "1") != (atoi(n1) >= 0) || (c2 == "1") != (atoi(n2) >= 0) {
		x.relFail("relation", "ContainsNonASCII", &Case{Fn: "ContainsNonASCII", S: s}, "ContainsNonASCII != (IndexNonASCII >= 0)")
	}
}

// ---- C16: invariance under re-casing ----

func (x *Ctx) recaseInvariant(s, t []byte) {
	g := x.g
	s2 := g.recase(s, false, 0.7)
	t2 := g.recase(t, false, 0.7)
	for _, fn := range allSS {
		a1, b1 := x.run(fn, s, t, 0)
		a2, b2 := x.run(fn, s2, t2, 0)
		for p, pr := range [][2]string{{a1, a2}, {b1, b2}} {
			o1, o2 := pr[0], pr[1]
			ok := true
			switch fn {
			case "Compare", "EqualFold", "Contains", "HasPrefix", "HasSuffix", "Count", "ContainsAny":
				ok = o1 == o2
			case "Index", "LastIndex", "IndexAny", "LastIndexAny":
				ok = runeIdx(s, atoi(o1)) == runeIdx(s2, atoi(o2))
			default: // slices: compare code-point positions of every bound
				ok = slicesRuneEq(fn, s, o1, s2, o2)
			}
			if !ok {
				x.relFail("relation", fn, &Case{Fn: fn, S: s2, T: t2},
					fmt.Sprintf("pkg%d: %s on (%x,%x) but %s on the re-cased arguments", p, o1, s, t, o2))
			}
		}
	}
}

// slicesRuneEq compares two slice observations position by position in
// code-point units (an empty slice is "e": its position is not observable)
func slicesRuneEq(fn string, s1 []byte, o1 string, s2 []byte, o2 string) bool {
	return normSlices(fn, s1, o1) == normSlices(fn, s2, o2)
}

func normSlices(fn string, s []byte, o string) string {
	n := 1
	if fn == "Cut" {
		n = 2
	}
	f := strings.Split(o, ":")
	var out []string
	i := 0
	for k := 0; k < n; k++ {
		if i >= len(f) {
			return "BAD:" + o
		}
		if f[i] == "e" {
			out = append(out, "e")
			i++
			continue
		}
		if i+1 >= len(f) {
			return "BAD:" + o
		}
		out = append(out, itoa(runeIdx(s, atoi(f[i])))+"-"+itoa(runeIdx(s, atoi(f[i+1]))))
		i += 2
	}
	out = append(out, f[i:]...)
	return strings.Join(out, ":")
}

// ---- C19: embedding ----

func (x *Ctx) embedding(xs, s, y, t []byte) {
	cat := func(parts ...[]byte) []byte {
		var o []byte
		for _, p := range parts {
			o = append(o, p...)
		}
		return o
	}
	sy, xsS, xsy := cat(s, y), cat(xs, s), cat(xs, s, y)
	for p := 0; p < 2; p++ {
		get := func(fn string, a []byte) string {
			o1, o2 := x.run(fn, a, t, 0)
			if p == 0 {
				return o1
			}
			return o2
		}
		fail := func(fn string, a []byte, d string) {
			x.relFail("relation", fn, &Case{Fn: fn, S: a, T: t}, fmt.Sprintf("pkg%d x=%x s=%x y=%x: %s", p, xs, s, y, d))
		}
		i := atoi(get("Index", s))
		if i >= 0 {
			if v := atoi(get("Index", sy)); v != i {
				fail("Index", sy, fmt.Sprintf("Index(s,t)=%d but Index(s+y,t)=%d", i, v))
			}
			if v := atoi(get("Index", xsS)); v < 0 || v > len(xs)+i {
				fail("Index", xsS, fmt.Sprintf("Index(s,t)=%d but Index(x+s,t)=%d > len(x)+i", i, v))
			}
		}
		l := atoi(get("LastIndex", s))
		if l >= 0 {
			if v := atoi(get("LastIndex", xsS)); v != len(xs)+l {
				fail("LastIndex", xsS, fmt.Sprintf("LastIndex(s,t)=%d but LastIndex(x+s,t)=%d", l, v))
			}
			if v := atoi(get("LastIndex", sy)); v < l {
				fail("LastIndex", sy, fmt.Sprintf("LastIndex(s,t)=%d but LastIndex(s+y,t)=%d", l, v))
			}
		}
		if get("HasPrefix", s) == "1" && get("HasPrefix", sy) != "1" {
			fail("HasPrefix", sy, "HasPrefix(s,t) but not HasPrefix(s+y,t)")
		}
		if get("HasSuffix", s) == "1" && get("HasSuffix", xsS) != "1" {
			fail("HasSuffix", xsS, "HasSuffix(s,t) but not HasSuffix(x+s,t)")
		}
		if c1, c2 := atoi(get("Count", s)), atoi(get("Count", xsy)); c2 < c1 && len(t) > 0 {
			fail("Count", xsy, fmt.Sprintf("Count(s,t)=%d > Count(x+s+y,t)=%d", c1, c2))
		}
		// converse: a match in x+s+y wholly inside s is reported for s alone
		cut := get("Cut", xsy)
		if strings.HasSuffix(cut, ":1") && len(t) > 0 {
			f := strings.Split(cut, ":")
			bhi, alo := 0, len(xsy)
			k := 0
			if f[0] == "e" {
				k = 1
			} else {
				bhi = atoi(f[1])
				k = 2
			}
			if f[k] != "e" {
				alo = atoi(f[k])
			}
			if bhi >= len(xs) && alo <= len(xs)+len(s) {
				if v := atoi(get("Index", s)); v < 0 || v > bhi-len(xs) {
					fail("Index", s, fmt.Sprintf("match [%d,%d) of x+s+y lies inside s but Index(s,t)=%d", bhi, alo, v))
				}
			}
		}
	}
}

// ---- C20: agreement with strings / bytes ----

func stdObs(fn string, s, t string, r int64) string {
	switch fn {
	case "Compare":
		return itoa(strings.Compare(s, t))
	case "EqualFold":
		return b2s(strings.EqualFold(s, t))
	case "Index":
		return itoa(strings.Index(s, t))
	case "Contains":
		return b2s(strings.Contains(s, t))
	case "LastIndex":
		return itoa(strings.LastIndex(s, t))
	case "HasPrefix":
		return b2s(strings.HasPrefix(s, t))
	case "HasSuffix":
		return b2s(strings.HasSuffix(s, t))
	case "TrimPrefix":
		return viewS(s, strings.TrimPrefix(s, t))
	case "TrimSuffix":
		return viewS(s, strings.TrimSuffix(s, t))
	case "CutPrefix":
		a, f := strings.CutPrefix(s, t)
		return viewS(s, a) + ":" + b2s(f)
	case "CutSuffix":
		a, f := strings.CutSuffix(s, t)
		return viewS(s, a) + ":" + b2s(f)
	case "Count":
		return itoa(strings.Count(s, t))
	case "Cut":
		b, a, f := strings.Cut(s, t)
		return viewS(s, b) + ":" + viewS(s, a) + ":" + b2s(f)
	case "IndexAny":
		return itoa(strings.IndexAny(s, t))
	case "LastIndexAny":
		return itoa(strings.LastIndexAny(s, t))
	case "ContainsAny":
		return b2s(strings.ContainsAny(s, t))
	case "IndexRune":
		return itoa(strings.IndexRune(s, rune(r)))
	case "ContainsRune":
		return b2s(strings.ContainsRune(s, rune(r)))
	case "IndexByte", "IndexByteASCII":
		return itoa(strings.IndexByte(s, byte(r)))
	case "LastIndexByte":
		return itoa(strings.LastIndexByte(s, byte(r)))
	}
	return ""
}

func bytesObs(fn string, s, t []byte, r int64) string {
	switch fn {
	case "Compare":
		return itoa(bytes.Compare(s, t))
	case "EqualFold":
		return b2s(bytes.EqualFold(s, t))
	case "Index":
		return itoa(bytes.Index(s, t))
	case "Contains":
		return b2s(bytes.Contains(s, t))
	case "LastIndex":
		return itoa(bytes.LastIndex(s, t))
	case "HasPrefix":
		return b2s(bytes.HasPrefix(s, t))
	case "HasSuffix":
		return b2s(bytes.HasSuffix(s, t))
	case "TrimPrefix":
		return viewB(s, bytes.TrimPrefix(s, t))
	case "TrimSuffix":
		return viewB(s, bytes.TrimSuffix(s, t))
	case "CutPrefix":
		a, f := bytes.CutPrefix(s, t)
		return viewB(s, a) + ":" + b2s(f)
	case "CutSuffix":
		a, f := bytes.CutSuffix(s, t)
		return viewB(s, a) + ":" + b2s(f)
	case "Count":
		return itoa(bytes.Count(s, t))
	case "Cut":
		b, a, f := bytes.Cut(s, t)
		return viewB(s, b) + ":" + viewB(s, a) + ":" + b2s(f)
	case "IndexAny":
		return itoa(bytes.IndexAny(s, string(t)))
	case "LastIndexAny":
		return itoa(bytes.LastIndexAny(s, string(t)))
	case "ContainsAny":
		return b2s(bytes.ContainsAny(s, string(t)))
	case "IndexRune":
		return itoa(bytes.IndexRune(s, rune(r)))
	case "ContainsRune":
		return b2s(bytes.ContainsRune(s, rune(r)))
	case "IndexByte", "IndexByteASCII":
		return itoa(bytes.IndexByte(s, byte(r)))
	case "LastIndexByte":
		return itoa(bytes.LastIndexByte(s, byte(r)))
	}
	return ""
}

// toClass forces a generated string into the class of its stream: in the
// ASCII stream a non-ASCII code point (introduced by re-casing, e.g. U+017F
// for s) is replaced by an ASCII member of its orbit, or dropped
func toClass(stream int, b []byte) []byte {
	if stream != streamASCII {
		return b
	}
	var o []byte
	for i := 0; i < len(b); {
		r, w := utf8.DecodeRune(b[i:])
		if r < 0x80 {
			o = append(o, byte(r))
		} else {
			for _, m := range orbitOf(r) {
				if m < 0x80 {
					o = append(o, byte(m))
					break
				}
			}
		}
		i += w
	}
	return o
}

func lowerASCII(b []byte) []byte {
	o := make([]byte, len(b))
	for i, c := range b {
		if 'A' <= c && c <= 'Z' {
			c += 32
		}
		o[i] = c
	}
	return o
}

// dropIn compares fn on (s,t,r) with the standard library namesake; when
// lower is set the namesake sees the ASCII-lower-cased arguments
func (x *Ctx) dropIn(fn string, s, t []byte, r int64, lower bool) {
	a, b := x.run(fn, s, t, r)
	ss, tt, rr := s, t, r
	if lower {
		ss, tt = lowerASCII(s), lowerASCII(t)
		if 'A' <= r && r <= 'Z' {
			rr = r + 32
		}
	}
	w1 := stdObs(fn, string(ss), string(tt), rr)
	w2 := bytesObs(fn, ss, tt, rr)
	if a != w1 || b != w2 {
		x.relFail("relation", fn, &Case{Fn: fn, S: s, T: t, R: r},
			fmt.Sprintf("strcase=%s strings=%s bytcase=%s bytes=%s (lowered=%v)", a, w1, b, w2, lower))
	}
}

func init() {
	props["C16"] = func(x *Ctx) {
		n := 12000 * x.scale
		ratioCases(false, func(s, t []byte) { x.recaseInvariant(s, t) })
		x.specialPairs(func(s, t []byte) { x.recaseInvariant(s, t) })
		// wide tails: a first code point of every width followed by Kelvin signs / long s, the haystack spelling them
		// narrowly, the match at the very end of the haystack (brute-force bounds) and far inside a long one
		for _, f := range []string{"1", "a", "\u00e9", "\u023a", "\u4e16", "\U00010400", "\U0001F600"} {
			for _, w := range [][2]string{{"\u212a", "k"}, {"\u017f", "s"}} {
				for j := 1; j <= 5; j++ {
					nd := []byte(f + strings.Repeat(w[0], j))
					for _, hs := range []string{f + strings.Repeat(w[1], j), "x" + f + strings.Repeat(w[1], j), "xxxxxxxxxxxxxxxxxxxx" + f + strings.Repeat(w[1], j), f + strings.Repeat(w[1], j) + "x"} {
						x.recaseInvariant([]byte(hs), nd)
					}
				}
			}
		}
		for i := 0; i < n; i++ {
			s, t := x.g.pair(streamValid)
			x.recaseInvariant(s, t)
			if i%3 == 0 {
				s, t = x.affixPair(streamValid)
				x.recaseInvariant(s, t)
			}
			if i%3 == 1 {
				s, t = x.g.anyCase(streamValid)
				x.recaseInvariant(s, t)
			}
		}
		// rune / byte arguments
		for i := 0; i < n; i++ {
			s, r := x.g.runeCase(streamValid)
			s2 := x.g.recase(s, false, 0.7)
			r2 := r
			if validRune(r) {
				o := orbitOf(rune(r))
				r2 = int64(o[x.g.intn(len(o))])
			}
			a1, b1 := x.run("IndexRune", s, nil, r)
			a2, b2 := x.run("IndexRune", s2, nil, r2)
			if runeIdx(s, atoi(a1)) != runeIdx(s2, atoi(a2)) || runeIdx(s, atoi(b1)) != runeIdx(s2, atoi(b2)) {
				x.relFail("relation", "IndexRune", &Case{Fn: "IndexRune", S: s2, R: r2}, fmt.Sprintf("%s on (%x,%d) but %s re-cased", a1, s, r, a2))
			}
			s, c := x.g.byteCase(streamValid)
			if c < 0x80 {
				s2 = x.g.recase(s, false, 0.7)
				c2 := c
				if isAlphaB(byte(c)) && x.g.chance(0.5) {
					c2 = c ^ 0x20
				}
				for _, fn := range []string{"IndexByte", "LastIndexByte"} {
					a1, b1 := x.run(fn, s, nil, c)
					a2, b2 := x.run(fn, s2, nil, c2)
					if runeIdx(s, atoi(a1)) != runeIdx(s2, atoi(a2)) || runeIdx(s, atoi(b1)) != runeIdx(s2, atoi(b2)) {
						x.relFail("relation", fn, &Case{Fn: fn, S: s2, R: c2}, fmt.Sprintf("%s on (%x,%d) but %s re-cased", a1, s, c, a2))
					}
				}
			}
		}
	}
	props["C17"] = func(x *Ctx) {
		x.nilArgs()
		x.aliasedViews(allSS)
		for _, h := range []int{31, 32, 33, 40} {
			head := strings.Repeat("-", h)
			for _, tl := range [][2]string{{"a", "A"}, {"K", "k"}, {"1a2", "1A2"}} {
				x.selfConsistent([]byte("xx"+head+tl[1]), []byte(head+tl[0]))
				x.selfConsistent([]byte(head+tl[0]+" "+head+tl[1]), []byte(head+tl[0]))
			}
		}
		n := 10000 * x.scale
		ratioCases(true, func(s, t []byte) { x.selfConsistent(s, t) })
		x.specialPairs(func(s, t []byte) { x.selfConsistent(s, t) })
		x.strayTails(func(s []byte, r rune) {
			x.selfConsistent(s, []byte(string(r)))
			x.selfConsistent(s, []byte(string(unicode.SimpleFold(r))))
			x.selfConsistentRune(s, int64(r))
		})
		for i := 0; i < n; i++ {
			st := streamValid
			if i%2 == 1 {
				st = streamIll
			}
			s, t := x.g.pair(st)
			x.selfConsistent(s, t)
			s, t = x.affixPair(st)
			x.selfConsistent(s, t)
			if i%4 == 0 {
				s, t = x.g.anyCase(st)
				x.selfConsistent(s, t)
			}
			s, r := x.g.runeCase(st)
			x.selfConsistentRune(s, r)
			s, c := x.g.byteCase(st)
			x.selfConsistentByte(s, c)
		}
		x.exhaustiveSelf([]string{"a", "K", "\xff", "�", "世", "ſ", "k"}, 3, 2)
	}
	props["C19"] = func(x *Ctx) {
		// the context x is a member of the orbit of s's first code point (every orbit with three or more members):
		// a search that steps over "the same letter again" must not step over the start of the match
		for r := rune(0x80); r <= 0x1FFFF; r++ {
			if orbitMin(r) != r {
				continue
			}
			o := orbitOf(r)
			if len(o) < 3 {
				continue
			}
			for _, m1 := range o {
				for _, m2 := range o {
					for _, m3 := range o {
						x.embedding([]byte(string(m1)), []byte(string(m2)+"x"), nil, []byte(string(m3)+"x"))
						x.embedding([]byte(string(m1)), []byte(string(m2)+"x"), []byte("0123456789abcdef"), []byte(string(m3)+"x"))
					}
				}
			}
		}
		n := 15000 * x.scale
		k := 0
		ratioCases(false, func(s, t []byte) {
			k++
			if k%4 != 0 { // a quarter of the sweep, each embedded with and without context
				return
			}
			x.embedding(nil, s, []byte("!"), t)
			x.embedding([]byte("xx"), s, []byte("zzzzzzzzzzzzz"), t)
		})
		x.specialPairs(func(s, t []byte) {
			x.embedding(nil, s, []byte("!"), t)
			x.embedding([]byte("世x"), s, []byte("zzzzzzzzzzzzzzzzzzzzzzzzzzzzzzzzzzzzzzzz"), t)
		})
		for i := 0; i < n; i++ {
			s, t := x.g.pair(streamValid)
			xs, y := x.g.pad(streamValid), x.g.pad(streamValid)
			if x.g.chance(0.5) {
				alpha := x.g.alphabet(streamValid)
				xs = append(xs, join(x.g.toks(alpha, x.g.intn(3)))...)
				y = append(join(x.g.toks(alpha, x.g.intn(3))), y...)
			}
			if x.g.chance(0.3) { // continue the match material across the seam
				sg := segsOf(t)
				if len(sg) > 0 {
					y = append(append([]byte{}, x.g.recase(t, false, 0.5)...), y...)
				}
			}
			x.embedding(xs, s, y, t)
		}
	}
	props["C20"] = func(x *Ctx) {
		n := 8000 * x.scale
		for _, st := range []int{streamCaseless, streamASCII} {
			lower := st == streamASCII
			for i := 0; i < n; i++ {
				s, t := x.g.pair(st)
				s, t = toClass(st, s), toClass(st, t)
				for _, fn := range allSS {
					x.dropIn(fn, s, t, 0, lower)
				}
				s, t = x.affixPair(st)
				s, t = toClass(st, s), toClass(st, t)
				for _, fn := range allSS {
					x.dropIn(fn, s, t, 0, lower)
				}
				s, t = x.g.anyCase(st)
				s, t = toClass(st, s), toClass(st, t)
				for _, fn := range []string{"IndexAny", "LastIndexAny", "ContainsAny"} {
					x.dropIn(fn, s, t, 0, lower)
				}
				// rune and byte arguments from the same class
				s, _ = x.g.pair(st)
				s = toClass(st, s)
				var r int64
				if len(s) > 0 && x.g.chance(0.7) {
					sg := segsOf(s)
					r = int64(sg[x.g.intn(len(sg))].r)
				} else if st == streamASCII {
					r = int64(x.g.intn(128))
				} else {
					tk := x.g.pick(caselessTokens)
					rr, _ := utf8.DecodeRuneInString(tk)
					r = int64(rr)
				}
				x.dropIn("IndexRune", s, nil, r, lower)
				x.dropIn("ContainsRune", s, nil, r, lower)
				if r < 0x80 {
					x.dropIn("IndexByte", s, nil, r, lower)
					x.dropIn("LastIndexByte", s, nil, r, lower)
					x.dropIn("IndexByteASCII", s, nil, r, lower)
				} else if len(s) > 0 {
					c := int64(s[x.g.intn(len(s))])
					x.dropIn("IndexByte", s, nil, c, lower)
					x.dropIn("LastIndexByte", s, nil, c, lower)
					x.dropIn("IndexByteASCII", s, nil, c, lower)
				}
			}
		}
	}
}

func (x *Ctx) exhaustiveSelf(alpha []string, ns, nt int) {
	hs := allSeqs(alpha, ns)
	ts := allSeqs(alpha, nt)
	for _, s := range hs {
		for _, t := range ts {
			x.selfConsistent(s, t)
		}
	}
	x.note("exhaustive self-consistency: %d x %d", len(hs), len(ts))
}
