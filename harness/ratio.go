package main

// ratio.go — "width-extremal" cases: runs of code points whose fold partners
// have another encoded width (k/K vs U+212A, s/S vs U+017F, an ill-formed byte
// vs U+FFFD, 2- vs 3-byte pairs), so that len(needle) sits exactly on, just
// below and just above the x2 / x3 length-ratio shortcuts and the len/3 window
// bounds of the search strategies, with the match at the very end or start of
// the haystack, behind decoys (first code point right, second wrong) that push
// the search into its fallback strategies.

import "bytes"

// {narrow, wide}: fold-equal, different encoded widths
var widePairs = [][2]string{
	{"k", "K"}, {"K", "K"}, {"s", "ſ"}, {"S", "ſ"}, {"ß", "ẞ"}, {"ω", "Ω"},
	{"å", "Å"}, {"Ⱥ", "ⱥ"}, {"Ⱦ", "ⱦ"}, {"ι", "ι"}, {"в", "ᲀ"},
}
var widePairsIll = [][2]string{{"\xff", "�"}, {"\x80", "�"}, {"\xc3", "�"}, {"\xe2\x84", "��"}}

func repeatMixed(g *Gen, a, b string, n int, pb float64) []byte {
	var out []byte
	for i := 0; i < n; i++ {
		if g != nil && g.chance(pb) {
			out = append(out, b...)
		} else {
			out = append(out, a...)
		}
	}
	return out
}

// extremal: a random member of the family
func (g *Gen) extremal(stream int) (s, sub []byte) {
	ps := widePairs
	if stream == streamIll && g.chance(0.5) {
		ps = widePairsIll
	}
	p := ps[g.intn(len(ps))]
	n := 1 + g.intn(8)
	if g.chance(0.15) {
		n = 8 + g.intn(40)
	}
	m := n
	switch g.intn(6) {
	case 0:
		m = n - 1
	case 1:
		m = n + 1
	case 2:
		m = n/2 + 1
	}
	if m < 1 {
		m = 1
	}
	narrow, wide := p[0], p[1]
	other := narrow
	if len(narrow) == 1 && narrow[0] < 0x80 {
		other = string(narrow[0] ^ 0x20) // the other ASCII case
	}
	run := repeatMixed(g, narrow, other, n, 0.3)
	sub = repeatMixed(g, wide, narrow, m, 0.15)
	if g.chance(0.25) { // roles swapped: wide haystack, narrow needle
		run = repeatMixed(g, wide, narrow, n, 0.2)
		sub = repeatMixed(g, narrow, other, m, 0.3)
	}
	wrong := g.pick([]string{".", "1", "x", "-", "世"})
	d := 0
	if g.chance(0.5) {
		d = 1 + g.intn(12)
	}
	if g.chance(0.7) {
		s = append(s, g.pad(stream)...)
	}
	for i := 0; i < d; i++ {
		s = append(s, narrow...)
		if g.chance(0.3) {
			s = append(s, narrow...)
		}
		s = append(s, wrong...)
	}
	s = append(s, run...)
	if g.chance(0.35) {
		s = append(s, g.pad(stream)...)
	} else if g.chance(0.2) {
		s = append(s, wrong...)
	}
	return
}

// ratioCases: the deterministic sweep; f is called with each (haystack, needle)
func ratioCases(ill bool, f func(s, sub []byte)) int {
	ps := append([][2]string{}, widePairs...)
	if ill {
		ps = append(ps, widePairsIll...)
	}
	count := 0
	emit := func(s, sub []byte) {
		count++
		f(s, sub)
	}
	for _, p := range ps {
		narrow, wide := p[0], p[1]
		other := narrow
		if len(narrow) == 1 && narrow[0] < 0x80 {
			other = string(narrow[0] ^ 0x20)
		}
		for _, n := range []int{1, 2, 3, 4, 5, 6, 8, 12, 20, 40} {
			for _, m := range []int{n - 1, n, n + 1} {
				if m < 1 {
					continue
				}
				var run []byte
				for i := 0; i < n; i++ {
					if i%3 == 1 {
						run = append(run, other...)
					} else {
						run = append(run, narrow...)
					}
				}
				wsub := bytes.Repeat([]byte(wide), m)
				nsub := bytes.Repeat([]byte(narrow), m)
				wrun := bytes.Repeat([]byte(wide), n)
				decoy := func(d int, w string) []byte {
					var b []byte
					for i := 0; i < d; i++ {
						b = append(b, narrow...)
						b = append(b, w...)
					}
					return b
				}
				var layouts [][]byte
				layouts = append(layouts, nil)
				for _, l := range []int{1, 5, 11, 13, 16, 17, 20, 33} {
					layouts = append(layouts, bytes.Repeat([]byte("x"), l))
				}
				for _, d := range []int{1, 2, 5, 9} {
					layouts = append(layouts, decoy(d, "."))
					layouts = append(layouts, append(bytes.Repeat([]byte("x"), 11), decoy(d, "1")...))
				}
				for _, pre := range layouts {
					for _, post := range []string{"", "x", "-------------"} {
						s := append(append(append([]byte{}, pre...), run...), post...)
						emit(s, wsub)
						if post == "" {
							emit(append(append([]byte{}, pre...), wrun...), nsub)
						}
					}
				}
			}
		}
	}
	return count
}

func (x *Ctx) ratioSweep(fns []string, ill bool) {
	n := ratioCases(ill, func(s, sub []byte) {
		for _, fn := range fns {
			x.run(fn, s, sub, 0)
		}
	})
	x.note("width-extremal sweep: %d (haystack, needle) pairs x %d functions", n, len(fns))
}
