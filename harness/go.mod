module verifharness

go 1.23

require (
	github.com/charlievieth/strcase v0.0.0
	golang.org/x/sys v0.28.0
)

replace github.com/charlievieth/strcase => /repo
