package main

// tables.go — C03: the lookup function bodies of internal/tables against the
// extracted model (correspondence) and against the toolchain's unicode
// package (the property's own predicate, evaluated on the implementation).

import (
	"fmt"
	"strings"
	"unicode"
	"unicode/utf8"

	"github.com/charlievieth/strcase"
)

// raw writes a non-API case (model validation) for the OCaml driver
func (x *Ctx) raw(line, obs string, force bool) {
	x.st.Evaluations++
	if force || x.st.CasesWritten < x.limit {
		x.st.CasesWritten++
		fmt.Fprintf(x.out, "%s\t=\t%s\t%s\t\n", line, obs, obs)
		if len(x.st.Samples) < 12 && x.st.CasesWritten%997 == 1 {
			x.st.Samples = append(x.st.Samples, line+" => "+obs)
		}
	}
}

// rawPair: like raw, with separate observations for the two packages
func (x *Ctx) rawPair(line, str, byt string) {
	x.st.Evaluations++
	if x.st.CasesWritten < x.limit {
		x.st.CasesWritten++
		fmt.Fprintf(x.out, "%s\t=\t%s\t%s\t\n", line, str, byt)
	}
}

func (x *Ctx) tableCase(r rune, force bool) {
	x.raw(fmt.Sprintf("t.case_fold\t%d", r), itoa(int(strcase.VerifCaseFold(r))), force)
	fm, ok := strcase.VerifFoldMap(r)
	o := "nil"
	if ok {
		o = fmt.Sprintf("%d,%d,%d,%d", fm[0], fm[1], fm[2], fm[3])
	}
	x.raw(fmt.Sprintf("t.fold_map\t%d", r), o, force)
	fx := strcase.VerifFoldMapExcludingUpperLower(r)
	x.raw(fmt.Sprintf("t.fold_map_excl\t%d", r), fmt.Sprintf("%d,%d", fx[0], fx[1]), force)
	u, l, f := strcase.VerifToUpperLower(r)
	x.raw(fmt.Sprintf("t.to_upper_lower\t%d", r), fmt.Sprintf("%d,%d,%s", u, l, b2s(f)), force)
}

func init() {
	props["C03"] = func(x *Ctx) {
		x.limit = 400000
		// --- correspondence of the five lookup bodies with the model ---
		var members []rune
		for r := rune(0); r <= unicode.MaxRune; r++ {
			if len(orbitOf(r)) > 1 {
				members = append(members, r)
			}
		}
		for _, r := range members {
			x.tableCase(r, true)
			x.tableCase(r-1, false)
			x.tableCase(r+1, false)
		}
		for r := rune(-1100); r < 1200; r++ {
			x.tableCase(r, false)
		}
		for r := rune(0x10F000); r < 0x110400; r++ {
			x.tableCase(r, false)
		}
		for _, r := range edgeRunes {
			x.tableCase(rune(r), true)
		}
		n := 20000 * x.scale
		for i := 0; i < n; i++ {
			x.tableCase(rune(int32(x.g.rng.Uint32())), false)
			x.tableCase(rune(x.g.intn(0x110000)), false)
		}
		for b := 0; b < 256; b++ {
			x.raw(fmt.Sprintf("t.lower_str\t%d", b), itoa(int(strcase.VerifLower(byte(b)))), true)
			x.raw(fmt.Sprintf("t.lower_byt\t%d", b), itoa(int(bytcaseLower(byte(b)))), true)
		}
		// --- the property's predicate on the implementation ---
		// (1) every code point: CaseFold classes == SimpleFold orbits
		lo, hi := rune(-70000), rune(0x110000+70000)
		for r := lo; r <= hi; r++ {
			cf := strcase.VerifCaseFold(r)
			x.st.Evaluations++
			if orbitMin(cf) != orbitMin(r) {
				x.tableFail(r, cf, "CaseFold(r) leaves r's SimpleFold orbit")
			}
			for _, m := range orbitOf(r)[1:] {
				if strcase.VerifCaseFold(m) != cf {
					x.tableFail(r, m, "orbit members fold differently")
				}
			}
			if r < 0 || r > unicode.MaxRune || (0xD800 <= r && r <= 0xDFFF) || r == 0xFFFD || r == 0x130 || r == 0x131 {
				if cf != r {
					x.tableFail(r, cf, "must fold to itself")
				}
			}
		}
		// distinct orbits have distinct representatives (all ordered pairs of orbit-bearing code points)
		repOf := map[rune]rune{}
		for _, r := range members {
			cf := strcase.VerifCaseFold(r)
			if prev, ok := repOf[cf]; ok && orbitMin(prev) != orbitMin(r) {
				x.tableFail(r, prev, "two orbits share a CaseFold representative")
			}
			repOf[cf] = r
		}
		for r := rune(0); r <= unicode.MaxRune; r++ {
			if len(orbitOf(r)) == 1 {
				if other, ok := repOf[r]; ok && strcase.VerifCaseFold(r) == r {
					x.tableFail(r, other, "a caseless code point is the representative of an orbit it does not belong to")
				}
			}
		}
		// (2) observation points: EqualFold / IndexRune / Compare on single code point strings
		for _, r := range members {
			for _, m := range orbitOf(r) {
				a, b := string(r), string(m)
				if !strcase.EqualFold(a, b) || strcase.IndexRune(a, m) != 0 || strcase.Compare(a, b) != 0 {
					x.relFail("table", "EqualFold", &Case{Fn: "EqualFold", S: []byte(a), T: []byte(b)}, "orbit members not equal")
				}
			}
			for _, m := range []rune{r + 1, r - 1, r ^ 0x20, r + 0x20} {
				if !utf8.ValidRune(m) {
					continue
				}
				a, b := string(r), string(m)
				want := strings.EqualFold(a, b)
				if strcase.EqualFold(a, b) != want || (strcase.IndexRune(a, m) == 0) != want || (strcase.Compare(a, b) == 0) != want {
					x.relFail("table", "EqualFold", &Case{Fn: "EqualFold", S: []byte(a), T: []byte(b)}, "near miss: differs from strings.EqualFold")
				}
			}
			x.st.Evaluations += 8
		}
		// (2b) the same question asked through every two-string function, for the code points the sources special-case,
		// at the needle positions and haystack lengths that select the different search strategies
		x.specialPairContexts(allSS)
		// (3) ToUpperLower / FoldMap against the toolchain
		var later []func() // findings without an API-level input are reported after those with one
		defer func() {
			for _, f := range later {
				f()
			}
		}()
		for r := lo; r <= hi; r++ {
			u, l, _ := strcase.VerifToUpperLower(r)
			wu, wl := r, r
			if r >= 0 && r <= unicode.MaxRune {
				wu, wl = unicode.ToUpper(r), unicode.ToLower(r)
			}
			if u != wu || l != wl {
				x.tableFail(r, u, fmt.Sprintf("ToUpperLower=(%d,%d) toolchain=(%d,%d)", u, l, wu, wl))
			}
			fm, ok := strcase.VerifFoldMap(r)
			if ok && r != 0 {
				set := map[rune]bool{}
				for _, v := range fm {
					if v != 0 {
						set[rune(v)] = true
					}
				}
				orb := orbitOf(r)
				if len(set) != len(orb) || rune(fm[0]) != r {
					x.tableFail(r, rune(fm[0]), "FoldMap entry is not the orbit")
				}
				for _, m := range orb {
					if !set[m] {
						x.tableFail(r, m, "FoldMap entry misses an orbit member")
					}
				}
			}
			// FoldMapExcludingUpperLower(r): exactly the orbit members that are neither r's upper nor r's lower
			// case (what Index adds to its two-byte candidate test for the needle's first two code points)
			fx := strcase.VerifFoldMapExcludingUpperLower(r)
			want := map[rune]bool{}
			if r >= 0 && r <= unicode.MaxRune {
				for _, m := range orbitOf(r) {
					if m != wu && m != wl {
						want[m] = true
					}
				}
			}
			got := map[rune]bool{}
			for _, v := range fx {
				if v != 0 {
					got[v] = true
				}
			}
			// (U+0130 and U+0131 list themselves: a member of r's own orbit is always admissible)
			inOrbit := map[rune]bool{}
			if r >= 0 && r <= unicode.MaxRune {
				for _, m := range orbitOf(r) {
					inOrbit[m] = true
				}
			}
			bad := false
			var stray rune = -1
			for m := range got {
				if !inOrbit[m] {
					bad, stray = true, m
				}
			}
			for m := range want {
				if !got[m] {
					bad = true
				}
			}
			if bad {
				if stray >= 0 && utf8.ValidRune(r) && utf8.ValidRune(stray) {
					// the observable consequence: a two-code-point needle starting with r found at a code point outside r's orbit
					hs, nd := string(stray)+"é", string(r)+"é"
					x.finding(Finding{Kind: "table", Fn: "Index", Case: (&Case{Fn: "Index", S: []byte(hs), T: []byte(nd)}).line(),
						Detail: fmt.Sprintf("FoldMapExcludingUpperLower(U+%04X) = %v contains U+%04X, which is not in the orbit %v: Index(%q, %q) = %d",
							r, fx, stray, orbitOf(r), hs, nd, strcase.Index(hs, nd))})
				} else {
					r, fx, want := r, fx, want
					later = append(later, func() {
						x.tableFail(r, fx[0], fmt.Sprintf("FoldMapExcludingUpperLower=%v, orbit without upper/lower=%v", fx, want))
					})
				}
			}
			if !ok && r >= 0 && r <= unicode.MaxRune && len(orbitOf(r)) > 2 {
				x.tableFail(r, r, "orbit with more than two members has no FoldMap entry")
			}
		}
		x.note("every rune in [%d, %d] checked against unicode.SimpleFold/ToUpper/ToLower; %d orbit-bearing code points", lo, hi, len(members))
		if strcase.UnicodeVersion != unicode.Version {
			x.relFail("table", "UnicodeVersion", nil, "UnicodeVersion "+strcase.UnicodeVersion+" != unicode.Version "+unicode.Version)
		}
	}
}

func (x *Ctx) tableFail(a, b rune, what string) {
	sa, sb := []byte(string(a)), []byte(string(b))
	x.finding(Finding{Kind: "table", Fn: "EqualFold", Case: (&Case{Fn: "EqualFold", S: sa, T: sb}).line(),
		Detail: fmt.Sprintf("%s: r=%d (U+%04X) other=%d (U+%04X); strcase.EqualFold=%v strings.EqualFold=%v",
			what, a, a, b, b, strcase.EqualFold(string(a), string(b)), strings.EqualFold(string(a), string(b)))})
}
