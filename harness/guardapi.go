package main

// guardapi.go — C06 "never reads outside its arguments": every exported
// function called with its arguments placed flush against PROT_NONE pages
// (before the first byte and after the last byte, for both arguments).  A load
// outside an argument that could fault does fault here and is reported; the
// result must also equal the result on ordinary heap copies of the arguments.

import (
	"fmt"
	"runtime/debug"
)

func guardedCall(f func() string) (res string, fault string) {
	defer func() {
		if e := recover(); e != nil {
			fault = fmt.Sprint(e)
		}
	}()
	return f(), ""
}

func (x *Ctx) guardedAPI() {
	old := debug.SetPanicOnFault(true)
	defer debug.SetPanicOnFault(old)
	g1, err1 := newGuarded(1)
	g2, err2 := newGuarded(1)
	if err1 != nil || err2 != nil {
		x.finding(Finding{Kind: "infra", Detail: "cannot create guard pages"})
		return
	}
	place := func(g *guarded, b []byte, end bool) []byte {
		rw := g.rw
		for i := range rw {
			rw[i] = 'z' // surroundings look like matches
		}
		var v []byte
		if end {
			v = rw[len(rw)-len(b):]
		} else {
			v = rw[:len(b):len(b)]
		}
		copy(v, b)
		return v
	}
	lengths := []int{0, 1, 2, 3, 4, 5, 6, 7, 8, 9, 10, 11, 12, 13, 14, 15, 16, 17, 18, 19, 20, 31, 32, 33, 47, 48, 63, 64, 65, 130}
	hits := []string{"z", "K", "K", "ſ", "\xff", "\xe2\x84", "Z"}
	needles := []string{"", "z", "Z", "k", "zq", "K", "ſſ", "\xff", "xz", "xxxxxxxxxxxxxxxxz", "xxxxxxxxxxxxxxxxxxxxxxxxxxxxxxxxxz"}
	runes := []int64{'z', 'Z', 0x212A, 'k', 's', 0x80, 0xFFFD, 0x4E16, '1'}
	calls, faults := 0, 0
	try := func(d *fnDef, s, t []byte, r int64, sEnd, tEnd bool) {
		hs, ht := string(s), string(t)
		var wantS, wantB string
		wantS, f0 := guardedCall(func() string { return d.str(hs, ht, r) })
		if f0 != "" {
			return // a panic on ordinary memory is the business of the main corpus
		}
		wantB, _ = guardedCall(func() string { return d.byt(append([]byte{}, s...), append([]byte{}, t...), r) })
		sg := place(g1, s, sEnd)
		tg := place(g2, t, tEnd)
		calls += 2
		gotS, f1 := guardedCall(func() string { return d.str(strView(sg), strView(tg), r) })
		gotB, f2 := guardedCall(func() string { return d.byt(sg, tg, r) })
		where := fmt.Sprintf("s %s, second argument %s", map[bool]string{true: "flush against the following guard page", false: "flush against the preceding guard page"}[sEnd],
			map[bool]string{true: "flush-end", false: "flush-start"}[tEnd])
		c := &Case{Fn: d.name, S: append([]byte{}, s...), T: append([]byte{}, t...), R: r}
		if f1 != "" || f2 != "" {
			faults++
			x.finding(Finding{Kind: "kernel", Fn: d.name, Case: c.line(), Str: gotS, Byt: gotB,
				Detail: fmt.Sprintf("FAULT reading outside the arguments (%s%s): len(s)=%d %s", f1, f2, len(s), where)})
			return
		}
		if gotS != wantS || gotB != wantB {
			x.finding(Finding{Kind: "kernel", Fn: d.name, Case: c.line(), Str: gotS, Byt: gotB, Want: wantS,
				Detail: fmt.Sprintf("result depends on the memory surrounding the arguments: %s/%s next to guard pages, %s/%s on the heap; len(s)=%d %s",
					gotS, gotB, wantS, wantB, len(s), where)})
		}
	}
	for _, l := range lengths {
		var hay [][]byte
		base := make([]byte, l)
		for i := range base {
			base[i] = 'x'
		}
		hay = append(hay, base)
		for _, h := range hits {
			if len(h) <= l {
				a := append([]byte{}, base...)
				copy(a, h)
				b := append([]byte{}, base...)
				copy(b[l-len(h):], h)
				hay = append(hay, a, b)
			}
		}
		for _, s := range hay {
			for _, sEnd := range []bool{false, true} {
				for i := range fnDefs {
					d := &fnDefs[i]
					switch d.kind {
					case kSS:
						for ni, t := range needles {
							try(d, s, []byte(t), 0, sEnd, ni%2 == 0)
							if len(t) > 0 && len(t) < 4 {
								try(d, s, []byte(t), 0, sEnd, ni%2 == 1)
							}
						}
					case kSR:
						for _, r := range runes {
							try(d, s, nil, r, sEnd, false)
						}
					case kSB:
						for _, r := range runes {
							if r < 256 {
								try(d, s, nil, r, sEnd, false)
							}
						}
					default:
						try(d, s, nil, 0, sEnd, false)
					}
				}
			}
		}
	}
	x.st.Evaluations += calls
	x.note("guard-page API sweep: %d calls with arguments flush against PROT_NONE pages, %d faults", calls, faults)
}
