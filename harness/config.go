package main

// config.go — C14: one deterministic corpus (fixed part + seeded part) run on
// every function; the ./check driver runs this same property under each
// configuration (runtime AVX2, GODEBUG=cpu.avx2=off, cpu.popcnt=off,
// GOAMD64=v3, GOARCH=386 = the portable file set) and compares the case
// files.  Also: the standard-library based kernels (*_simd.go) compiled on
// the host against the scalar definition.

import (
	"bytes"
	"fmt"
	"math/rand"
	"strconv"
	"unsafe"

	"golang.org/x/sys/cpu"

	"github.com/charlievieth/strcase"
	"github.com/charlievieth/strcase/bytcase"
	"verifharness/simdpkg"
)

func (x *Ctx) kernelCases(n int) {
	g := x.g
	for i := 0; i < n; i++ {
		l := padLens[g.intn(len(padLens))] + g.intn(20)
		if g.chance(0.1) {
			l = 200 + g.intn(900)
		}
		c := byte(g.intn(256))
		if g.chance(0.5) {
			c = "aZkKsS@[`{1 "[g.intn(12)]
		}
		s := bytes.Repeat([]byte{byte('b' + g.intn(20))}, l)
		for j := 0; j < g.intn(4) && l > 0; j++ {
			p := g.intn(l)
			switch g.intn(4) {
			case 0:
				s[p] = c
			case 1:
				s[p] = c ^ 0x20
			case 2:
				s[p] = c ^ 0x80
			default:
				s[p] = byte(g.intn(256))
			}
		}
		x.raw(fmt.Sprintf("k.index_byte\t%s\t%d", hexOrDash(s), c), itoa(strcase.VerifBytealgIndexByte(s, c)), true)
		x.raw(fmt.Sprintf("k.index_byte\t%s\t%d", hexOrDash(s), c), itoa(strcase.VerifBytealgIndexByteString(string(s), c)), true)
		x.raw(fmt.Sprintf("k.count\t%s\t%d", hexOrDash(s), c), itoa(strcase.VerifBytealgCount(s, c)), true)
		x.raw(fmt.Sprintf("k.count\t%s\t%d", hexOrDash(s), c), itoa(strcase.VerifBytealgCountString(string(s), c)), true)
		x.raw(fmt.Sprintf("k.index_non_ascii\t%s", hexOrDash(s)), itoa(strcase.VerifBytealgIndexNonASCII(string(s))), true)
		x.raw(fmt.Sprintf("k.index_non_ascii\t%s", hexOrDash(s)), itoa(strcase.VerifBytealgIndexByteNonASCII(s)), true)
		if simdpkg.Available {
			for _, o := range []struct {
				name      string
				got, want int
			}{
				{"simd.IndexByte", simdpkg.IndexByte(s, c), scalarIndexByte(s, c)},
				{"simd.IndexByteString", simdpkg.IndexByteString(string(s), c), scalarIndexByte(s, c)},
			} {
				if o.got != o.want {
					x.finding(Finding{Kind: "config", Fn: o.name, Case: fmt.Sprintf("k.index_byte\t%s\t%d", hexOrDash(s), c),
						Detail: fmt.Sprintf("standard-library based kernel (compiled on the host): got %d want %d", o.got, o.want)})
				}
			}
			if c < 0x80 { // CountString(s, c) is only reached with ASCII c; string(c) is UTF-8 for c >= 0x80
				for _, o := range []struct {
					name      string
					got, want int
				}{
					{"simd.Count", simdpkg.Count(s, c), scalarCount(s, c)},
					{"simd.CountString", simdpkg.CountString(string(s), c), scalarCount(s, c)},
				} {
					if o.got != o.want {
						x.finding(Finding{Kind: "config", Fn: o.name, Case: fmt.Sprintf("k.count\t%s\t%d", hexOrDash(s), c),
							Detail: fmt.Sprintf("standard-library based kernel (compiled on the host): got %d want %d", o.got, o.want)})
					}
				}
			}
		}
	}
}

func init() {
	props["C14"] = func(x *Ctx) {
		x.limit = 1 << 30 // every case is written: the configurations are compared case by case
		x.st.Notes = append(x.st.Notes, fmt.Sprintf("cpu flags seen by the kernels: HasAVX2=%v HasPOPCNT=%v; simdpkg=%v", cpu.X86.HasAVX2, cpu.X86.HasPOPCNT, simdpkg.Available))
		both := []int{streamValid, streamIll}
		run := func(scale int) {
			x.pairsFor(allSS, both, 2500*scale)
			x.affixFor(allSS, both, 1000*scale)
			x.runesFor(both, 4000*scale)
			x.bytesFor(both, 6000*scale)
			x.anyFor(both, 4000*scale)
			x.nonASCIIFor(2000 * scale)
			x.kernelCases(3000 * scale)
			for _, c := range "KkSsaZ1" {
				for i := 0; i < 200*scale; i++ {
					s, _ := x.g.byteCase(streamValid)
					x.run("Count", s, []byte{byte(c)}, 0)
				}
			}
		}
		x.strayAll()
		x.overflow32Probe()
		// fixed deterministic corpus
		saved := x.g
		x.g = &Gen{rng: rand.New(rand.NewSource(20240917))}
		run(1)
		// per-run random corpus
		x.g = saved
		run(x.scale)
	}
}

// overflow32Probe: with a 32-bit int (GOARCH=386) a haystack of 715 827 883 bytes or more makes len(s)*3 exceed
// 2^31: arithmetic on lengths must not wrap.  One 716 MB buffer of 'a' (the string functions get a view of the same
// memory), a handful of calls whose answers are known without a reference.  Skipped where int has 64 bits (no real
// string is long enough there).
func (x *Ctx) overflow32Probe() {
	if strconv.IntSize != 32 {
		return
	}
	const n = (1<<31)/3 + 1
	buf := bytes.Repeat([]byte("a"), n+2)
	full := unsafe.String(&buf[0], len(buf))
	s, sb := full[:n], buf[:n:n]
	bad := func(what string, got, want interface{}) {
		x.finding(Finding{Kind: "config", Fn: what,
			Detail: fmt.Sprintf("GOARCH=386, s = strings.Repeat(\"a\", %d) (len(s)*3 >= 2^31): %s = %v, want %v", n, what, got, want)})
	}
	chk := func(what string, got, want interface{}) {
		x.st.Evaluations++
		if got != want {
			bad(what, got, want)
		}
	}
	chk("strcase.HasPrefix(s, \"a\")", strcase.HasPrefix(s, "a"), true)
	chk("strcase.HasPrefix(s, \"\")", strcase.HasPrefix(s, ""), true)
	chk("strcase.HasSuffix(s, \"A\")", strcase.HasSuffix(s, "A"), true)
	chk("len(strcase.TrimPrefix(s, \"A\"))", len(strcase.TrimPrefix(s, "A")), n-1)
	chk("len(strcase.TrimSuffix(s, \"a\"))", len(strcase.TrimSuffix(s, "a")), n-1)
	_, f1 := strcase.CutPrefix(s, "A")
	chk("strcase.CutPrefix(s, \"A\") found", f1, true)
	_, f2 := strcase.CutSuffix(s, "A")
	chk("strcase.CutSuffix(s, \"A\") found", f2, true)
	chk("strcase.Index(s+\"aa\", \"AAA\")", strcase.Index(full, "AAA"), 0)
	chk("strcase.Contains(s+\"aa\", \"aaa\")", strcase.Contains(full, "aaa"), true)
	chk("strcase.LastIndex(s+\"aa\", \"AAA\")", strcase.LastIndex(full, "AAA"), n-1)
	chk("strcase.EqualFold(s, s)", strcase.EqualFold(s, full[:n]), true)
	chk("bytcase.HasPrefix(s, \"a\")", bytcase.HasPrefix(sb, []byte("a")), true)
	chk("bytcase.HasSuffix(s, \"A\")", bytcase.HasSuffix(sb, []byte("A")), true)
	chk("len(bytcase.TrimPrefix(s, \"A\"))", len(bytcase.TrimPrefix(sb, []byte("A"))), n-1)
	chk("bytcase.Index(s+\"aa\", \"AAA\")", bytcase.Index(buf, []byte("AAA")), 0)
	chk("bytcase.LastIndex(s+\"aa\", \"AAA\")", bytcase.LastIndex(buf, []byte("AAA")), n-1)
	x.note("32-bit length arithmetic: 16 calls on a haystack of %d bytes", n)
}
