package main

// collisions.go — haystacks containing a DECOY: a window that is not a match but has the same
// Rabin-Karp hash as the needle (forward hash for Index's Rabin-Karp path, reverse hash for
// LastIndex).  The hash only pre-filters; every hit must be confirmed and the scan must go on
// after a failed confirmation.  Random inputs meet such a window with probability 2^-32, so it
// is constructed: for adjacent code points (a, b) of the needle the decoy has (a+d, b-d*prime)
// with the least d that makes both caseless scalar values, which leaves
// a*prime + b (mod 2^32), and hence the hash of the whole window, unchanged.

import (
	"unicode/utf8"

	"github.com/charlievieth/strcase"
)

func caselessRune(r rune) bool {
	return r >= 0x80 && utf8.ValidRune(r) && r != 0xFFFD && len(orbitOf(r)) == 1 && strcase.VerifCaseFold(r) == r
}

// decoyPair: (a', b') != (a, b) with a'*p + b' == a*p + b (mod 2^32)
func decoyPair(a, b rune, p uint32) (rune, rune, bool) {
	for d := uint32(1); d < 1<<23; d++ {
		a2 := rune(uint32(a) + d)
		b2 := rune(uint32(b) - d*p)
		if caselessRune(a2) && caselessRune(b2) {
			return a2, b2, true
		}
	}
	return 0, 0, false
}

func runesToBytes(rs []rune) []byte {
	var out []byte
	for _, r := range rs {
		out = utf8.AppendRune(out, r)
	}
	return out
}

func (x *Ctx) hashCollisions(fns []string) {
	p := rkPrime()
	bases := [][]rune{
		{0x4E16, 0x754C}, {0x1F600, 0x4E00}, {0x3042, 0x8A9E}, {0x4E16, 0x754C, 'k'}, {'k', 0x4E16, 0x754C},
		{0xFFFD, 0x4E16, 0x754C}, {0x4E16, 0x754C, 0xFFFD}, {0x3042, 0x8A9E, 0x4E16, 0x754C}, {'1', 0x4E16, 0x754C, 's', 's'},
	}
	pads := []string{"", "x", "世x", "xxxxxxxxxxxxxxxxxxxxxxxxxxxxxxxxxxxxxxxx", "界界界界界界界界界界界界界界界界界界界界界界界界界界界界界界界界界界"}
	n, built := 0, 0
	for _, nd := range bases {
		// positions of adjacent caseless pairs in the needle
		for i := 0; i+1 < len(nd); i++ {
			if !caselessRune(nd[i]) || !caselessRune(nd[i+1]) {
				continue
			}
			// forward hash: h = sum r_k p^(n-1-k): (a,b) -> (a+d, b-d*p)
			fa, fb, ok1 := decoyPair(nd[i], nd[i+1], p)
			// reverse hash: h = sum r_k p^k: the later code point carries the higher power
			rb, ra, ok2 := decoyPair(nd[i+1], nd[i], p)
			var decoys [][]rune
			if ok1 {
				d := append([]rune{}, nd...)
				d[i], d[i+1] = fa, fb
				decoys = append(decoys, d)
			}
			if ok2 {
				d := append([]rune{}, nd...)
				d[i], d[i+1] = ra, rb
				decoys = append(decoys, d)
			}
			for _, dc := range decoys {
				built++
				needle := runesToBytes(nd)
				real := x.g.recase(needle, false, 0.7)
				decoy := runesToBytes(dc)
				for _, pre := range pads {
					for _, post := range pads[:3] {
						hay := [][]byte{
							[]byte(pre + string(decoy) + post),
							[]byte(pre + string(decoy) + string(real) + post),
							[]byte(pre + string(real) + string(decoy) + post),
							[]byte(pre + string(decoy) + "-" + string(real) + "-" + string(decoy) + post),
							[]byte(pre + string(real) + "-" + string(decoy) + "-" + string(real) + post),
						}
						for _, s := range hay {
							for _, fn := range fns {
								x.eval(&Case{Fn: fn, S: s, T: needle}, n%7 == 0)
								n++
							}
							x.internalIndex(s, needle)
						}
					}
				}
			}
		}
	}
	x.note("hash-collision decoys: %d decoy windows (prime %d), %d cases", built, p, n)
}
