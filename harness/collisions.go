package main

// collisions.go — haystacks containing a DECOY: a window that is not a match but has the same
// Rabin-Karp hash as the needle (forward hash for Index's Rabin-Karp path, reverse hash for
// LastIndex).  The hash only pre-filters; every hit must be confirmed and the scan must go on
// after a failed confirmation.  Random inputs meet such a window with probability 2^-32, so it
// is constructed: for adjacent code points (a, b) of the needle the decoy has (a+d, b-d*prime)
// with the least d that makes both caseless scalar values, which leaves
// a*prime + b (mod 2^32), and hence the hash of the whole window, unchanged.

import (
	"unicode/utf8"

	"github.com/charlievieth/strcase"
)

func caselessRune(r rune) bool {
	return r >= 0x80 && utf8.ValidRune(r) && r != 0xFFFD && len(orbitOf(r)) == 1 && strcase.VerifCaseFold(r) == r
}

// decoyPair: (a', b') != (a, b) with a'*p + b' == a*p + b (mod 2^32)
func decoyPair(a, b rune, p uint32) (rune, rune, bool) {
	for d := uint32(1); d < 1<<23; d++ {
		a2 := rune(uint32(a) + d)
		b2 := rune(uint32(b) - d*p)
		if caselessRune(a2) && caselessRune(b2) {
			return a2, b2, true
		}
	}
	return 0, 0, false
}

func runesToBytes(rs []rune) []byte {
	var out []byte
	for _, r := range rs {
		out = utf8.AppendRune(out, r)
	}
	return out
}

// specialPairs: the structured (haystack, needle) pairs — hash-collision decoys, adjacent members of one
// orbit, near misses at one byte — for the relational properties, which otherwise draw from the token
// streams only
func (x *Ctx) specialPairs(cb func(s, t []byte)) {
	x.collisionPairs(cb)
	k := 0
	for r := rune(0x80); r <= 0x1FFFF; r++ {
		if orbitMin(r) != r {
			continue
		}
		o := orbitOf(r)
		if len(o) < 2 {
			continue
		}
		k++
		if len(o) < 3 && utf8.RuneLen(o[0]) == utf8.RuneLen(o[1]) && k%9 != 0 {
			continue // every ninth of the plain two-member orbits, all the others
		}
		for _, a := range o {
			for _, b := range o {
				if a != b {
					s := []byte(string(a) + string(b) + "z")
					cb(s, []byte(string(b)))
					cb(s, []byte(string(b)+"z"))
					cb(append([]byte("x"), s...), []byte(string(a)+string(a)))
				}
			}
		}
	}
	base := []byte("config_2 Value-7 [xyz] {QRS}")
	for _, L := range []int{8, 16, 17} {
		for _, pos := range []int{0, 7, L - 1} {
			for _, bit := range []uint{0, 5} {
				needle := append([]byte{}, base[:L]...)
				miss := append([]byte{}, needle...)
				miss[pos] ^= 1 << bit
				cb(append(append([]byte{}, miss...), needle...), needle)
				cb(append(append([]byte("0123456789abcdef01"), miss...), '-'), needle)
			}
		}
	}
}

func (x *Ctx) hashCollisions(fns []string) {
	n := 0
	x.collisionPairs(func(s, needle []byte) {
		for _, fn := range fns {
			x.eval(&Case{Fn: fn, S: s, T: needle}, n%7 == 0)
			n++
		}
		x.internalIndex(s, needle)
	})
	x.note("hash-collision decoys (prime %d): %d cases", rkPrime(), n)
}

func (x *Ctx) collisionPairs(cb func(s, needle []byte)) {
	p := rkPrime()
	bases := [][]rune{
		{0x4E16, 0x754C}, {0x1F600, 0x4E00}, {0x3042, 0x8A9E}, {0x4E16, 0x754C, 'k'}, {'k', 0x4E16, 0x754C},
		{0xFFFD, 0x4E16, 0x754C}, {0x4E16, 0x754C, 0xFFFD}, {0x3042, 0x8A9E, 0x4E16, 0x754C}, {'1', 0x4E16, 0x754C, 's', 's'},
	}
	pads := []string{"", "x", "世x", "xxxxxxxxxxxxxxxxxxxxxxxxxxxxxxxxxxxxxxxx", "界界界界界界界界界界界界界界界界界界界界界界界界界界界界界界界界界界"}
	for _, nd := range bases {
		// positions of adjacent caseless pairs in the needle
		for i := 0; i+1 < len(nd); i++ {
			if !caselessRune(nd[i]) || !caselessRune(nd[i+1]) {
				continue
			}
			// forward hash: h = sum r_k p^(n-1-k): (a,b) -> (a+d, b-d*p)
			fa, fb, ok1 := decoyPair(nd[i], nd[i+1], p)
			// reverse hash: h = sum r_k p^k: the later code point carries the higher power
			rb, ra, ok2 := decoyPair(nd[i+1], nd[i], p)
			var decoys [][]rune
			if ok1 {
				d := append([]rune{}, nd...)
				d[i], d[i+1] = fa, fb
				decoys = append(decoys, d)
			}
			if ok2 {
				d := append([]rune{}, nd...)
				d[i], d[i+1] = ra, rb
				decoys = append(decoys, d)
			}
			for _, dc := range decoys {
				needle := runesToBytes(nd)
				real := x.g.recase(needle, false, 0.7)
				decoy := runesToBytes(dc)
				for _, pre := range pads {
					for _, post := range pads[:3] {
						hay := [][]byte{
							[]byte(pre + string(decoy) + post),
							[]byte(pre + string(decoy) + string(real) + post),
							[]byte(pre + string(real) + string(decoy) + post),
							[]byte(pre + string(decoy) + "-" + string(real) + "-" + string(decoy) + post),
							[]byte(pre + string(real) + "-" + string(decoy) + "-" + string(real) + post),
						}
						for _, s := range hay {
							cb(s, needle)
						}
					}
				}
			}
		}
	}
}
