#!/usr/bin/env python3
"""Writes /verif/MANIFEST.json from the table below (kept in one place so that level notes stay consistent)."""
import json, os
V = os.path.dirname(os.path.dirname(os.path.abspath(__file__)))

COMMON_NOTE = ("Trusted: Coq 8.16.1 kernel + vm_compute (no native_compute, no axioms: Print Assumptions says 'Closed under the global "
               "context' for every property theorem); translator tools/gen (tables, constants, exports, toolchain oracle); extraction "
               "(ExtrOcamlBasic only) + ocaml/driver.ml; Go harness and ./check. Modelled, not verified: unicode/utf8 (Utf8.v, validated "
               "against the real package), Go slice semantics, strings/bytes helpers. Every exported function has a hand-written structure-faithful "
               "model (Impl*.v: same dispatch, loops, bounds checks, both package shapes, every configuration); the tie between model and code is the "
               "correspondence run (extracted Impl and Spec models vs both packages, and vs the unexported strategies through hooks, on generated inputs), "
               "so a change no generated input distinguishes is not noticed. Detection was measured on 40 independently written breaking changes (seeded/).")

def spec_level(what):
    return ("Machine-checked theorems (coq/theories/Properties/%s) about the executable rune-sequence model Spec, for all byte strings; "
            "the model is regenerated where it is data (tables) and tied to the code by running the extracted model and both packages "
            "on the same generated inputs on every run. " + what)

P = {
 "C01": ("proof", "4.C01", "Coq proof over executable model + differential correspondence (extracted OCaml vs Go)",
         "Spec.index is proved to be exactly the leftmost boundary-delimited match w.r.t. EqualFold (= strings.EqualFold by C02) for ALL byte strings; "
         "Index/Contains of both packages are compared with the extracted Spec and, on short inputs, with the property's own predicate evaluated with strings.EqualFold. "
         "The structure-faithful model Impl6.Index (dispatch on the needle, length pre-checks, IndexByte/IndexRune for one code point, native search for caseless ASCII needles, "
         "bruteForceIndexUnicode with its three arms, the main loop with candidate jumps, fail counter and Rabin-Karp hand-over, indexRabinKarpUnicode) is PROVED to compute Spec.index on every pair of byte strings "
         "(C01_index_refines: both package shapes, both NativeIndex values, every cut-over function, every value of maxBruteForce/maxLen/primeRK; never Panic, never OutOfFuel), and it runs against the code and its "
         "unexported strategies under 4 configurations on every check. The candidate tests (ToUpperLower with the U+0130/U+0131 special case, FoldMapExcludingUpperLower) are proved to be exactly the folding orbit on the regenerated tables."),
 "C02": ("proof", "4.C02", "Coq refinement proof (Impl.Compare/EqualFold = StdSpec.equal_fold) + correspondence + direct comparison with strings/bytes.EqualFold",
         "Impl.EqualFold (structure-faithful model of both package shapes) is proved equal to the model of strings.EqualFold (toolchain SimpleFold orbits) on all byte strings; "
         "the model of strings.EqualFold and the code are compared with the real functions on every case."),
 "C03": ("proof", "4.C03", "Coq proof by complete enumeration (vm_compute) of regenerated tables lifted to all int32 by a structural lemma; Gallina SHA-256",
         "All statements are over data re-translated from /repo on every run and the toolchain oracle dumped on the same run; the five lookup bodies are hand-modelled and compared "
         "with the real functions on every key, near key, edge value and random int32; the implementation is swept over every rune in [-70000, 0x110000+70000]."),
 "C04": ("proof", "4.C04", "Coq refinement proof (Impl.Compare = lexicographic order of folded keys) + order-law theorems + correspondence",
         "compare_refines for both package shapes on all byte strings, antisymmetry, transitivity, zero-iff-EqualFold, first-difference and ASCII order proved; order laws also evaluated on the implementation."),
 "C05": ("other", "4.C05", "Coq proof over a regenerated effect summary (call graph + allocation-capable constructs with compiler escape verdicts) + malloc measurement",
         "PARTIAL by nature: zero allocation is a property of what the gc compiler emits. Proved: no trace of the over-approximating effect semantics of the regenerated summary contains an allocating event for any of the 46 exported functions; "
         "views proved for Spec and checked by pointer on every correspondence case. Assumed and measured: that the summary over-approximates the compiled code (translator T3, allow-list of leaf functions, escape verdicts honoured); "
         "mallocs per call over 108 shapes (0 B .. 70 KB quick / 300 KB thorough, long needles, ill-formed, each fallback strategy) x 46 functions x 3 CPU-feature configurations."),
 "C06": ("proof", "4.C06", "Coq proof (Ok-totality of the structure-faithful models of all 23 functions as corollaries of the refinement theorems; range theorems for Spec) + panic/hang/range observation on ill-formed corpus + guard-page sweep of the API",
         "C06_total_two_strings / C06_total_string_rune_byte: for every byte string (well-formed or not), every rune/byte argument, both package shapes and every configuration, the model of each exported function returns Ok: "
         "no bounds check of a slice expression fails (Panic is a visible result of the models) and no loop runs past its fuel. Returned offsets lie in [-1, len s] and sub-slices inside s (range theorems for Spec, which the models equal). "
         "For the code itself: absence of panics/hangs is observed (recover, watchdog) on a dense ill-formed corpus incl. exhaustive small alphabets, and reads outside the arguments by calling every exported function with its arguments flush against PROT_NONE pages on both sides. "
         "Returning normally also means not dying of an illegal instruction: the one call with a CPU-dependent contract (the runtime's native Index, 'requires len(b) <= MaxLen', AVX2 instructions beyond it) is a crash of the model outside the contract, "
         "C06_index_total_at_the_source_constants proves it is never made outside it at the bound read from the source and the least MaxLen read from the toolchain, and the instruction-set probe (gdb breakpoints on every AVX/AVX2 / POPCNT instruction of the kernels, run under cpu.avx2=off / cpu.popcnt=off) shows the real code executes none."),
 "C07": ("proof", "4.C07", "Coq proof (exported sets equal, _lower tables equal, Compare/EqualFold shape parity; supporting: shape parity of every function whose source differs) + direct parity comparison of both packages",
         "Both packages are compared with each other and with the same extracted Spec on every generated case of all 23 functions. C07's own obligations (exports, _lower, Compare/EqualFold) are kept independent of the tables' orbit facts; "
         "the supporting theorem C07x_model_parity (Properties/C07x.v, listed in the evidence) proves that the strcase-shaped and the bytcase-shaped model of every function whose source differs between the packages "
         "(Compare, EqualFold, prefix and suffix families, Index, LastIndex, Count, Cut) return the same value on every pair of byte strings, because both refine the same Spec function."),
 "C08": ("proof", "4.C08", "Coq proof over executable model + differential correspondence", "As C01 for LastIndex (rightmost), plus Index<=LastIndex and same-match-set theorems. The structure-faithful model Impl7.LastIndex (LastIndexByte for one ASCII byte, lastIndexRune for one code point, the length pre-check, indexRabinKarpRevUnicode with hashStrRevUnicode and the DecodeLastRune / ASCII-shortcut steps) is PROVED to compute Spec.last_index on every pair of byte strings (C08_lastindex_refines: both package shapes, every prime; never Panic, never OutOfFuel); utf8.DecodeLastRune is proved to yield the last forward segment for arbitrary bytes (Utf8Last). The model runs against the code and its unexported strategies on every check."),
 "C09": ("proof", "4.C09", "Coq proof over executable model + differential correspondence", "Prefix/suffix tests and the exact cut points of Trim*/Cut* proved for Spec on all byte strings, and all six functions' structure-faithful models (both package shapes) are proved to compute exactly those Spec functions on all byte strings (Refine_Prefix, Refine_Suffix); returned sub-slices are compared by position."),
 "C10": ("proof", "4.C10", "Coq proof over executable model + differential correspondence (every code point as needle)", "First-member-of-orbit characterisation of index_rune and the byte-pattern characterisation of IndexByte proved; IndexRune, ContainsRune, IndexByte, IndexByteASCII and the unexported indexRuneCase/indexRune/indexRune2/indexByte models are proved to refine them for every rune/byte argument, every cut-over function and both NativeIndex values (self-synchronisation of UTF-8 proved for arbitrary bytes; FoldMap/ToUpperLower candidate sets proved equal to the folding orbit on the regenerated tables). LastIndexByte (byte walks for non-letters and plain letters, the code-point walk for K k S s) is proved to return the last raw offset at which one of the byte patterns starts (C10_lastindexbyte_refines, C10_last_index_byte_spec). Every orbit-bearing code point and a stride of the others run as needle and haystack member."),
 "C11": ("proof", "4.C11", "Coq proof over executable model + differential correspondence (threshold grid)", "First/last code point fold-equal to some code point of chars proved for Spec; the structure-faithful models of IndexAny, ContainsAny and LastIndexAny (Impl7: makeASCIISet and the asciiSet byte scan with its bail-out when chars contains K k S s and s is not ASCII, the single-character shortcuts, the per-character IndexRune search with truncation, the walk over s testing IndexRune(chars, c), the right-to-left walks with DecodeLastRune) are PROVED to compute them on every pair of byte strings (C11_indexany_refines, C11_lastindexany_refines: every cut-over, both NativeIndex values; never Panic, never OutOfFuel). The strategies are crossed by a (len s, len chars) grid in the correspondence run."),
 "C12": ("proof", "4.C12", "Coq proof over executable model + differential correspondence", "Greedy unfolding of Count and the exact split of Cut proved for Spec; Count's general loop and Cut (both package shapes) proved to compute them around the proved model of Index itself (resuming after the matched text of the haystack, whose width differs from the needle's); Count's single-ASCII-byte path (the accelerated byte count's scalar definition plus the occurrences of U+212A / U+017F for K k S s) is proved to count the code points in the byte's folding orbit, so C12_count_full_refines holds for EVERY needle."),
 "C13": ("proof", "4.C13", "Coq proof about the amd64 assembly itself (instruction lists regenerated from the .s files by tools/asm2prog.py on every run, executed by the machine model X86.v) and about every pure-Go kernel body, for every length / address / alignment / surrounding memory, with and without AVX2; + guard-page sweep on the real CPU + machine model validated against the real kernels",
         "Proved (Properties/C13.v): IndexNonASCII/IndexByteNonASCII, IndexByte/IndexByteString (wrappers' letter test and both bodies) and Count/CountString (POPCNT hand-over, letter test, both counting bodies) of the go1.22+ file set return index_non_ascii / k_index_byte / k_count, the scalar definitions, started from arbitrary register contents; Done also means every load stayed inside the 4 KiB pages holding a byte of the argument, the only store was the result slot, no address or counter wrapped, no jump read an undefined flag. The portable, no-POPCNT and standard-library based Go bodies are proved equal to the same definitions. "
         "Modelled, not verified: the x86 instruction semantics of X86.v (validated on every run: the extracted interpreter is run on the translated programs at 6 placements x 3 surroundings x 4 AVX2/POPCNT combinations x 2 entry points against what the real kernels returned), the translator tools/asm2prog.py, arm64 assembly. The pre-1.22 file set is covered by a general theorem (erasing PCALIGN no-ops preserves every run's result, X86Erase.v) plus the computed check that the pre-1.22 programs are the go1.22 programs without their no-ops; what GOAMD64=v3 assembles is covered under C14. Search for a failing input when a proof breaks: the guard-page sweep (lengths 0..200 + page-crossing lengths quick / 0..4352 thorough, all alignments, flush against PROT_NONE pages on both sides, needle-filled surroundings). arm64: no processor or emulator here; the four arm64 assembly files are interpreted from their text by tools/arm64sim.py over lengths x all 32 alignments x contents x needles x surrounding bytes, both entry points, against the definitions (a bounded search on a hand-written interpreter, not a proof; found D10)."),
 "C14": ("proof", "4.C14", "Coq proof that every kernel back end computes the same function (the assembly with its AVX2 path, with its SSE path, the GOAMD64=v3 preprocessing of the assembly, the no-POPCNT Go fallback, the portable and the standard-library based Go bodies all return the scalar definitions) and that the search models above the kernels do not depend on the back-end parameters; + the correspondence corpus executed under 6 configurations (8 where a second Go toolchain is installed: the same corpus built with go1.26.8, with and without AVX2) and compared case by case",
         "Proved (Properties/C14.v): C14_kernel_backends_agree — for IndexNonASCII, IndexByteString and CountString the run of the default assembly with AVX2, without AVX2, of the v3 preprocessing (proofs derived by tools/mkv3.py from the default ones and re-checked) and the Go bodies yield one value, at any placement; C14_search_models_configuration_free — the models of Index, IndexRune, IndexByte, IndexAny, LastIndexAny return the same result under every NativeIndex / cut-over / threshold setting (each refines the same Spec); C14_native_needles_within_runtime_contract / C14_index_at_the_source_constants — the largest needle Index hands to the runtime's native Index (read from the source on every run) does not exceed the least internal/bytealg.MaxLen of the toolchain (read from GOROOT on every run: 31, amd64 without AVX2), so the model's contract-checked native call never crashes and Index at the source's constants is the Spec on every supported CPU. "
         "C14_kernels_execute_no_instruction_of_an_absent_feature (X86Isa.v, X86IsaInst.v): on the machine that faults on a 256-bit VEX instruction while HasAVX2 is false and on POPCNT while HasPOPCNT is false, the translated kernels (go1.22+ and pre-1.22 files, every exported entry) run exactly as on the permissive machine, for all inputs, flags and step counts - proved by an abstract interpretation of the instruction lists whose closure sets are checked by evaluation; so the kernel theorems hold on a processor without AVX2 (C14_*_on_a_processor_without_avx2). "
         "C14_length_products_do_not_depend_on_the_width_of_int: the only products of lengths in the code (len*2, len*3 of the length-ratio shortcuts; located and typed by the translator on every run) multiply an int64, where they are exact for every 32-bit length, and the same product in a 32-bit int is refuted with D8's input; dynamic side: the 716 MB probe in the GOARCH=386 configuration. "
         "Instruction-set probe: the harness replays 172 calls under gdb with a breakpoint on each of the 131 VEX-encoded and 21 POPCNT instructions of the kernels (library and runtime), under cpu.avx2=off and cpu.popcnt=off; an instruction reached while its feature flag is false is a violation (SIGILL on a processor without the feature). "
         "PARTIAL: the tie of those models and of the machine model to the code is the correspondence, run under every configuration: runtime AVX2, cpu.avx2=off, cpu.popcnt=off, both off, GOAMD64=v3, GOARCH=386 (portable file set, executed natively), plus the standard-library based kernels compiled on the host. "
         "Real non-x86 hardware (arm64 assembly) is out of reach; a CPU without AVX2 is approximated by cpu.avx2=off plus the instruction-set probe."),
 "C15": ("proof", "4.C15", "Coq proof (all Spec theorems are over utf8.DecodeRune segmentation, no well-formedness hypothesis) + ill-formed corpus", "Every Spec characterisation holds for arbitrary bytes; the decoder model is validated against unicode/utf8; all 23 functions run on a dense ill-formed corpus and exhaustive small alphabets."),
 "C16": ("proof", "4.C16", "Coq proof (key invariance under re-casing) + relation evaluated on the implementation", "All results are functions of the folded key; offsets are the same code-point index. The relation is also evaluated directly on both packages with width-changing orbit members."),
 "C17": ("proof", "4.C17", "Coq proof of each relation for Spec + relations evaluated on the implementation", "Every listed relation is proved for Spec on all byte strings, including IndexRune(s,r) = Index(s,string(r)) = IndexAny(s,string(r)) for valid r and IndexByte(s,c) = Index(s,string(c)) for c < 0x80; through the refinements of Instances.v they hold for the structure-faithful models of both packages; each relation is also evaluated directly on the implementation."),
 "C18": ("other", "4.C18", "Coq proof over the regenerated effect summary (no store to non-local storage) and the assembly store summary + abstract interleaving theorem + -race run and argument snapshots",
         "PARTIAL by nature: schedules are quantified over an abstract shared-memory machine, not the Go memory model. Proved: no trace of an exported function contains a store outside function-local storage or a call outside the read-only allow-list; "
         "the assembly stores only through the result-slot pointer; read-only threads cannot race. Dynamic tie: argument snapshots (incl. spare capacity) on every correspondence call, repeated-call determinism, 64 goroutines x all functions over shared backing arrays under the race detector."),
 "C19": ("proof", "4.C19", "Coq proof (incl. optimality of greedy counting) + relation evaluated on the implementation", "All eight embedding statements proved for Spec with x, s well-formed."),
 "C20": ("proof", "4.C20", "Coq proof for the ASCII class against byte-exact models of the namesakes + direct comparison with strings/bytes",
         "PARTIAL. ASCII class proved for 18 functions (Compare, EqualFold, Index, Contains, LastIndex, HasPrefix, HasSuffix, TrimPrefix, TrimSuffix, CutPrefix, CutSuffix, Count, Cut, IndexRune, ContainsRune, IndexAny, ContainsAny, LastIndexAny) against byte-exact models of the namesakes on the ASCII-lower-cased arguments; EqualFold on ALL byte strings (C02); IndexByte/LastIndexByte are characterised byte-exactly in C10. Caseless class (well-formed UTF-8 none of whose code points is changed by folding) proved for 12 functions (Compare — UTF-8 preserves code-point order —, Index, Contains, LastIndex, HasPrefix, HasSuffix, TrimPrefix, TrimSuffix, CutPrefix, CutSuffix, Count, Cut) from an alignment theorem (a byte-level occurrence of a well-formed needle in well-formed UTF-8 starts and ends on code-point boundaries and is an occurrence of its code points, and conversely); the character searches of that class, and the tie of the byte-exact models to the real strings/bytes functions, are decided by direct comparison of both packages with the real functions on every generated case (see DESIGN 4.C20)."),
}

checks = []
for pid in sorted(P):
    level, ref, tech, text = P[pid]
    checks.append({
        "property_id": pid,
        "quick_cmd": "./check %s --tier quick" % pid,
        "thorough_cmd": "./check %s --tier thorough" % pid,
        "evidence_file": "/verif/evidence/%s.json" % pid,
        "replay_cmd_template": "./check replay {path}",
        "engine": "coq+correspondence",
        "level_claimed": {"category": level, "text": text, "design_ref": ref},
        "level_note": COMMON_NOTE,
        "technique": tech,
    })

NA = json.load(open(os.path.join(V, "tools", "not_applicable.json")))
hooks = ["fc45ed7", "a46a437"]
m = {
 "version": 1,
 "setup_cmd": "./check setup",
 "hooks": {
  "guard": "verif",
  "enable": "go build -tags verif,verif_internals (harness module, replace github.com/charlievieth/strcase => /repo)",
  "baseline_off_cmd": "cd /repo && go test -vet=off -count=1 -timeout 25m ./...",
  "source_commits": json.load(open(os.path.join(V, "tools", "hook_commits.json"))),
  "add_only": True
 },
 "engines": [
  {"name": "coq+correspondence", "path": "/verif/check", "serves_properties": sorted(P),
   "kind_free_text": "Coq 8.16.1 development (coq/), translators (tools/gen), extracted OCaml model (ocaml/), Go differential harness (harness/)"}
 ],
 "checks": checks,
 "not_applicable": [n for n in NA if n["property_id"] not in P],
 "notes": "See DESIGN.md. Fixed defects and known findings: known_findings.json."
}
json.dump(m, open(os.path.join(V, "MANIFEST.json"), "w"), indent=1)
print("wrote MANIFEST.json with %d checks, %d not_applicable" % (len(checks), len(m["not_applicable"])))
