module veriftools

go 1.23
