// gen translates the data of /repo's working tree into Coq source (T1) and
// dumps the toolchain's unicode oracle (T4).
//
//	gen -repo /repo -out /verif/coq/gen
//
// T1 (parser only: go/parser, go/ast, go/constant; no build-tag filtering):
//
//	internal/tables/tables_go121.go, tables_go116.go  -> Tables121.v, Tables116.v
//	strcase.go, bytcase/bytcase.go                    -> Consts.v (_lower, maxBruteForce, maxLen, primeRK)
//	.tables.json                                      -> recorded hashes (in TablesNNN.v)
//
// T4: unicode.SimpleFold orbits, ToUpper/ToLower, unicode.Version -> Oracle.v
//
// Files are rewritten only when their content changes so that make does
// not rebuild proofs over unchanged data.
package main

import (
	"bytes"
	"encoding/json"
	"flag"
	"fmt"
	"go/ast"
	"go/constant"
	"go/parser"
	"go/token"
	"os"
	"path/filepath"
	"runtime"
	"sort"
	"strconv"
	"strings"
	"unicode"
)

func die(format string, a ...interface{}) {
	fmt.Fprintf(os.Stderr, "gen: "+format+"\n", a...)
	os.Exit(2)
}

// evalInt evaluates a constant integer expression (literals, char literals,
// unary/binary ops, parenthesised, references to already known consts).
func evalInt(e ast.Expr, env map[string]constant.Value) (constant.Value, bool) {
	switch x := e.(type) {
	case *ast.BasicLit:
		switch x.Kind {
		case token.INT, token.CHAR, token.STRING:
			return constant.MakeFromLiteral(x.Value, x.Kind, 0), true
		}
	case *ast.ParenExpr:
		return evalInt(x.X, env)
	case *ast.Ident:
		if v, ok := env[x.Name]; ok {
			return v, true
		}
	case *ast.UnaryExpr:
		if v, ok := evalInt(x.X, env); ok {
			return constant.UnaryOp(x.Op, v, 0), true
		}
	case *ast.BinaryExpr:
		a, ok1 := evalInt(x.X, env)
		b, ok2 := evalInt(x.Y, env)
		if ok1 && ok2 {
			if x.Op == token.SHL || x.Op == token.SHR {
				s, _ := constant.Uint64Val(b)
				return constant.Shift(a, x.Op, uint(s)), true
			}
			if x.Op == token.QUO {
				return constant.BinaryOp(a, token.QUO_ASSIGN, b), true
			}
			return constant.BinaryOp(a, x.Op, b), true
		}
	case *ast.CallExpr: // conversions like rune('x'), uint32(..)
		if len(x.Args) == 1 {
			return evalInt(x.Args[0], env)
		}
	}
	return nil, false
}

func mustInt(e ast.Expr, env map[string]constant.Value, what string) int64 {
	v, ok := evalInt(e, env)
	if !ok || v.Kind() != constant.Int {
		die("cannot evaluate %s", what)
	}
	n, exact := constant.Int64Val(v)
	if !exact {
		die("constant out of range in %s", what)
	}
	return n
}

type tableFile struct {
	consts  map[string]constant.Value
	strs    map[string]string
	arrays  map[string]*ast.CompositeLit
	sizes   map[string]int64
	special [][3]int64 // toUpperLowerSpecial: r, upper, lower
}

func parseFile(path string) *ast.File {
	fset := token.NewFileSet()
	f, err := parser.ParseFile(fset, path, nil, parser.SkipObjectResolution)
	if err != nil {
		die("parse %s: %v", path, err)
	}
	fsets[f] = fset
	return f
}

func collect(f *ast.File) *tableFile {
	t := &tableFile{consts: map[string]constant.Value{}, strs: map[string]string{},
		arrays: map[string]*ast.CompositeLit{}, sizes: map[string]int64{}}
	for _, d := range f.Decls {
		switch g := d.(type) {
		case *ast.GenDecl:
			for _, sp := range g.Specs {
				vs, ok := sp.(*ast.ValueSpec)
				if !ok {
					continue
				}
				for i, name := range vs.Names {
					if i >= len(vs.Values) {
						continue
					}
					val := vs.Values[i]
					if g.Tok == token.CONST {
						if v, ok := evalInt(val, t.consts); ok {
							if v.Kind() == constant.String {
								t.strs[name.Name] = constant.StringVal(v)
							} else {
								t.consts[name.Name] = v
							}
						}
					}
					if g.Tok == token.VAR {
						if cl, ok := val.(*ast.CompositeLit); ok {
							t.arrays[name.Name] = cl
							if at, ok := cl.Type.(*ast.ArrayType); ok && at.Len != nil {
								if v, ok := evalInt(at.Len, t.consts); ok {
									n, _ := constant.Int64Val(v)
									t.sizes[name.Name] = n
								}
							}
						}
					}
				}
			}
		case *ast.FuncDecl:
			if g.Name.Name == "toUpperLowerSpecial" && g.Body != nil {
				ast.Inspect(g.Body, func(n ast.Node) bool {
					cc, ok := n.(*ast.CaseClause)
					if !ok || len(cc.List) == 0 {
						return true
					}
					for _, st := range cc.Body {
						rs, ok := st.(*ast.ReturnStmt)
						if !ok || len(rs.Results) != 3 {
							continue
						}
						for _, ce := range cc.List {
							r := mustInt(ce, t.consts, "toUpperLowerSpecial case")
							u := mustInt(rs.Results[0], t.consts, "toUpperLowerSpecial upper")
							l := mustInt(rs.Results[1], t.consts, "toUpperLowerSpecial lower")
							t.special = append(t.special, [3]int64{r, u, l})
						}
					}
					return true
				})
			}
		}
	}
	return t
}

// flatten returns the integer leaves of a (possibly nested) composite
// literal element, in order.
func flatten(e ast.Expr, env map[string]constant.Value, out *[]int64) {
	if cl, ok := e.(*ast.CompositeLit); ok {
		for _, el := range cl.Elts {
			if kv, ok := el.(*ast.KeyValueExpr); ok {
				el = kv.Value
			}
			flatten(el, env, out)
		}
		return
	}
	*out = append(*out, mustInt(e, env, "table element"))
}

type entry struct {
	slot int64
	vals []int64
}

func entries(t *tableFile, name string, width int) []entry {
	cl := t.arrays[name]
	if cl == nil {
		die("table %s not found", name)
	}
	var es []entry
	next := int64(0)
	for _, el := range cl.Elts {
		slot := next
		val := el
		if kv, ok := el.(*ast.KeyValueExpr); ok {
			slot = mustInt(kv.Key, t.consts, name+" key")
			val = kv.Value
		}
		next = slot + 1
		var vals []int64
		flatten(val, t.consts, &vals)
		for len(vals) < width {
			vals = append(vals, 0)
		}
		if len(vals) != width {
			die("table %s slot %d: %d values, want %d", name, slot, len(vals), width)
		}
		es = append(es, entry{slot, vals})
	}
	sort.SliceStable(es, func(i, j int) bool { return es[i].slot < es[j].slot })
	return es
}

func zlist(vals []int64) string {
	var sb strings.Builder
	sb.WriteString("[")
	for i, v := range vals {
		if i > 0 {
			sb.WriteString("; ")
		}
		sb.WriteString(zlit(v))
	}
	sb.WriteString("]")
	return sb.String()
}

func zlit(v int64) string {
	if v < 0 {
		return "(" + strconv.FormatInt(v, 10) + ")"
	}
	return strconv.FormatInt(v, 10)
}

func strCodes(s string) string {
	var vals []int64
	for i := 0; i < len(s); i++ {
		vals = append(vals, int64(s[i]))
	}
	return zlist(vals)
}

func writeIfChanged(path string, data []byte) {
	old, err := os.ReadFile(path)
	if err == nil && bytes.Equal(old, data) {
		return
	}
	if err := os.WriteFile(path, data, 0o644); err != nil {
		die("write %s: %v", path, err)
	}
}

const header = "(* GENERATED by /verif/tools/gen from /repo's working tree. Do not edit. *)\n" +
	"From Coq Require Import ZArith List.\nImport ListNotations.\nOpen Scope Z_scope.\n\n"

func genTables(repo, out, file, mod string, recorded map[string]interface{}) {
	f := parseFile(filepath.Join(repo, "internal", "tables", file))
	t := collect(f)
	var b bytes.Buffer
	b.WriteString(header)
	fmt.Fprintf(&b, "(* source: internal/tables/%s *)\n", file)
	fmt.Fprintf(&b, "Definition unicode_version : list Z := %s. (* %q *)\n", strCodes(t.strs["UnicodeVersion"]), t.strs["UnicodeVersion"])
	ci := func(name string) int64 {
		v, ok := t.consts[name]
		if !ok {
			die("%s: constant %s not found", file, name)
		}
		n, _ := constant.Int64Val(v)
		return n
	}
	type tbl struct {
		name, seed, shift string
		width             int
	}
	for _, tb := range []tbl{
		{"_CaseFolds", "_CaseFoldsSeed", "_CaseFoldsShift", 2},
		{"_UpperLower", "_UpperLowerSeed", "_UpperLowerShift", 2},
		{"_FoldMap", "_FoldMapSeed", "_FoldMapShift", 4},
		{"_FoldMapExcludingUpperLower", "_FoldMapSeed", "_FoldMapShift", 3},
	} {
		n := strings.TrimPrefix(tb.name, "_")
		fmt.Fprintf(&b, "\nDefinition %s_seed : Z := %d.\n", n, ci(tb.seed))
		fmt.Fprintf(&b, "Definition %s_shift : Z := %d.\n", n, ci(tb.shift))
		fmt.Fprintf(&b, "Definition %s_size : Z := %d.\n", n, t.sizes[tb.name])
		es := entries(t, tb.name, tb.width)
		fmt.Fprintf(&b, "(* %d entries: (slot, values) *)\n", len(es))
		fmt.Fprintf(&b, "Definition %s_entries : list (Z * list Z) := [\n", n)
		for i, e := range es {
			sep := ";"
			if i == len(es)-1 {
				sep = ""
			}
			fmt.Fprintf(&b, " (%d, %s)%s\n", e.slot, zlist(e.vals), sep)
		}
		b.WriteString("].\n")
	}
	// the declared seed/shift constants of the fourth table (unused by the lookup code, recorded)
	fmt.Fprintf(&b, "\nDefinition FoldMapExcludingUpperLower_decl_seed : Z := %d.\n", ci("_FoldMapExcludingUpperLowerSeed"))
	fmt.Fprintf(&b, "Definition FoldMapExcludingUpperLower_decl_shift : Z := %d.\n", ci("_FoldMapExcludingUpperLowerShift"))
	b.WriteString("\n(* toUpperLowerSpecial: (r, upper, lower) *)\nDefinition upper_lower_special : list (Z * (Z * Z)) := [")
	for i, s := range t.special {
		if i > 0 {
			b.WriteString("; ")
		}
		fmt.Fprintf(&b, "(%d, (%d, %d))", s[0], s[1], s[2])
	}
	b.WriteString("].\n")
	// recorded metadata from .tables.json
	h, _ := recorded["case_fold_hash"].(string)
	uv, _ := recorded["unicode_version"].(string)
	var hb []int64
	for i := 0; i+1 < len(h); i += 2 {
		v, err := strconv.ParseUint(h[i:i+2], 16, 8)
		if err != nil {
			die(".tables.json: bad case_fold_hash")
		}
		hb = append(hb, int64(v))
	}
	fmt.Fprintf(&b, "\n(* .tables.json *)\nDefinition recorded_case_fold_hash : list Z := %s.\n", zlist(hb))
	fmt.Fprintf(&b, "Definition recorded_unicode_version : list Z := %s.\n", strCodes(uv))
	writeIfChanged(filepath.Join(out, mod+".v"), b.Bytes())
}

func genConsts(repo, out string) {
	var b bytes.Buffer
	b.WriteString(header)
	for _, p := range []struct{ path, pfx string }{{"strcase.go", "str"}, {"bytcase/bytcase.go", "byt"}} {
		f := parseFile(filepath.Join(repo, p.path))
		t := collect(f)
		cl := t.arrays["_lower"]
		if cl == nil {
			die("%s: _lower not found", p.path)
		}
		es := entries(t, "_lower", 1)
		vals := make([]int64, 0, 256)
		want := int64(0)
		for _, e := range es {
			for want < e.slot {
				vals = append(vals, 0)
				want++
			}
			vals = append(vals, e.vals[0])
			want++
		}
		for int64(len(vals)) < t.sizes["_lower"] {
			vals = append(vals, 0)
		}
		fmt.Fprintf(&b, "(* source: %s *)\nDefinition %s_lower : list Z := %s.\n", p.path, p.pfx, zlist(vals))
		for _, c := range []string{"maxBruteForce", "maxLen", "primeRK"} {
			v, ok := t.consts[c]
			if !ok {
				die("%s: const %s not found", p.path, c)
			}
			n, _ := constant.Int64Val(v)
			fmt.Fprintf(&b, "Definition %s_%s : Z := %d.\n", p.pfx, c, n)
		}
		fmt.Fprintf(&b, "(* the largest needle Index hands to the runtime's native Index/IndexString: the K of\n   \"if bytealg.NativeIndex && n <= K && nonLetterASCII(substr)\" *)\nDefinition %s_nativeMax : Z := %d.\n", p.pfx, nativeNeedleBound(f, t.consts, p.path))
		fmt.Fprintf(&b, "(* the products len*2 / len*3 of the length-ratio shortcuts (hasPrefixUnicode, TrimPrefix, hasSuffixUnicode, Index,\n   LastIndex): (source line, is the length converted to int64 before the multiplication) *)\nDefinition %s_shortcut_products : list (Z * bool) := [%s].\n", p.pfx, shortcutProducts(f, fset(f)))
		b.WriteString("\n")
	}
	writeIfChanged(filepath.Join(out, "Consts.v"), b.Bytes())
}

var fsets = map[*ast.File]*token.FileSet{}

func fset(f *ast.File) *token.FileSet { return fsets[f] }

// shortcutProducts lists, for the five functions with a "needle longer than k times the haystack" shortcut, every
// multiplication by the literal 2 or 3 and whether its other operand is an int64(...) conversion.
func shortcutProducts(f *ast.File, fs *token.FileSet) string {
	want := map[string]bool{"hasPrefixUnicode": true, "TrimPrefix": true, "hasSuffixUnicode": true, "Index": true, "LastIndex": true}
	var items []string
	for _, d := range f.Decls {
		fd, ok := d.(*ast.FuncDecl)
		if !ok || fd.Recv != nil || !want[fd.Name.Name] || fd.Body == nil {
			continue
		}
		ast.Inspect(fd.Body, func(n ast.Node) bool {
			be, ok := n.(*ast.BinaryExpr)
			if !ok || be.Op != token.MUL {
				return true
			}
			lit, other := be.Y, be.X
			if l, ok := be.X.(*ast.BasicLit); ok && l.Kind == token.INT {
				lit, other = be.X, be.Y
			}
			l, ok := lit.(*ast.BasicLit)
			if !ok || l.Kind != token.INT || (l.Value != "2" && l.Value != "3") {
				return true
			}
			wide := false
			if ce, ok := other.(*ast.CallExpr); ok {
				if id, ok := ce.Fun.(*ast.Ident); ok && id.Name == "int64" && len(ce.Args) == 1 {
					wide = true
				}
			}
			line := 0
			if fs != nil {
				line = fs.Position(be.Pos()).Line
			}
			items = append(items, fmt.Sprintf("(%d, %v)", line, wide))
			return true
		})
	}
	return strings.Join(items, "; ")
}

// nativeNeedleBound finds, in func Index, the one if statement whose condition is a conjunction containing
// bytealg.NativeIndex, a call of nonLetterASCII and "n <= K" (or "n < K"), and returns K (K-1).
func nativeNeedleBound(f *ast.File, env map[string]constant.Value, path string) int64 {
	var found []int64
	for _, d := range f.Decls {
		fd, ok := d.(*ast.FuncDecl)
		if !ok || fd.Recv != nil || fd.Name.Name != "Index" || fd.Body == nil {
			continue
		}
		ast.Inspect(fd.Body, func(n ast.Node) bool {
			is, ok := n.(*ast.IfStmt)
			if !ok {
				return true
			}
			var conj []ast.Expr
			var split func(e ast.Expr)
			split = func(e ast.Expr) {
				if p, ok := e.(*ast.ParenExpr); ok {
					split(p.X)
					return
				}
				if be, ok := e.(*ast.BinaryExpr); ok && be.Op == token.LAND {
					split(be.X)
					split(be.Y)
					return
				}
				conj = append(conj, e)
			}
			split(is.Cond)
			native, nonLetter, bound, nb := false, false, int64(0), 0
			for _, c := range conj {
				switch e := c.(type) {
				case *ast.SelectorExpr:
					if x, ok := e.X.(*ast.Ident); ok && x.Name == "bytealg" && e.Sel.Name == "NativeIndex" {
						native = true
					}
				case *ast.CallExpr:
					if id, ok := e.Fun.(*ast.Ident); ok && id.Name == "nonLetterASCII" {
						nonLetter = true
					}
				case *ast.BinaryExpr:
					if x, ok := e.X.(*ast.Ident); ok && x.Name == "n" && (e.Op == token.LEQ || e.Op == token.LSS) {
						if v, ok := evalInt(e.Y, env); ok {
							k, _ := constant.Int64Val(v)
							if e.Op == token.LSS {
								k--
							}
							bound = k
							nb++
						}
					}
				}
			}
			if native && nonLetter {
				if nb != 1 {
					die("%s: Index: the native fast path's condition has %d bounds on n", path, nb)
				}
				found = append(found, bound)
			}
			return true
		})
	}
	if len(found) != 1 {
		die("%s: Index: expected exactly one 'bytealg.NativeIndex && n <= K && nonLetterASCII(substr)', found %d", path, len(found))
	}
	return found[0]
}

func genOracle(out string) {
	var b bytes.Buffer
	b.WriteString(header)
	fmt.Fprintf(&b, "(* toolchain oracle: package unicode, Unicode %s *)\n", unicode.Version)
	fmt.Fprintf(&b, "Definition toolchain_version : list Z := %s.\n\n", strCodes(unicode.Version))
	// orbits under unicode.SimpleFold, each listed once starting at its least member
	b.WriteString("(* simple-folding orbits with more than one member, least member first *)\n")
	b.WriteString("Definition orbits : list (list Z) := [\n")
	first := true
	n := 0
	for r := rune(0); r <= unicode.MaxRune; r++ {
		if unicode.SimpleFold(r) == r {
			continue
		}
		// is r the least member?
		orb := []int64{int64(r)}
		least := true
		for x := unicode.SimpleFold(r); x != r; x = unicode.SimpleFold(x) {
			if x < r {
				least = false
				break
			}
			orb = append(orb, int64(x))
		}
		if !least {
			continue
		}
		if !first {
			b.WriteString(";\n")
		}
		first = false
		b.WriteString(" " + zlist(orb))
		n++
	}
	b.WriteString("\n].\n\n")
	// upper/lower
	b.WriteString("(* (r, (unicode.ToUpper r, unicode.ToLower r)) for every r where either differs from r *)\n")
	b.WriteString("Definition upper_lower : list (Z * (Z * Z)) := [\n")
	first = true
	for r := rune(0); r <= unicode.MaxRune; r++ {
		u, l := unicode.ToUpper(r), unicode.ToLower(r)
		if u == r && l == r {
			continue
		}
		if !first {
			b.WriteString(";\n")
		}
		first = false
		fmt.Fprintf(&b, " (%d, (%d, %d))", r, u, l)
	}
	b.WriteString("\n].\n")
	// the runtime's internal/bytealg.MaxLen ("Index requires 2 <= len(b) <= MaxLen"): every value it is assigned
	vals, min := runtimeMaxLen()
	b.WriteString("\n(* internal/bytealg.MaxLen of this toolchain: every value assigned in $GOROOT/src/internal/bytealg/index_*.go\n   (")
	b.WriteString(strings.Join(vals, "; "))
	fmt.Fprintf(&b, "), and the least of them *)\nDefinition rt_maxlen_min : Z := %d.\n", min)
	writeIfChanged(filepath.Join(out, "Oracle.v"), b.Bytes())
}

// exported function signatures of a package file, with string and []byte
// both rendered as B (the two packages must export the same set)
// runtimeMaxLen reads the assignments "MaxLen = <int>" of the runtime's internal/bytealg/index_*.go.
func runtimeMaxLen() ([]string, int64) {
	dir := filepath.Join(runtime.GOROOT(), "src", "internal", "bytealg")
	files, _ := filepath.Glob(filepath.Join(dir, "index_*.go"))
	sort.Strings(files)
	var vals []string
	min := int64(-1)
	for _, path := range files {
		if strings.HasSuffix(path, "_test.go") {
			continue
		}
		f := parseFile(path)
		ast.Inspect(f, func(n ast.Node) bool {
			as, ok := n.(*ast.AssignStmt)
			if !ok || len(as.Lhs) != 1 || len(as.Rhs) != 1 {
				return true
			}
			if id, ok := as.Lhs[0].(*ast.Ident); !ok || id.Name != "MaxLen" {
				return true
			}
			v, ok := evalInt(as.Rhs[0], map[string]constant.Value{})
			if !ok {
				die("%s: MaxLen assigned a non-constant", path)
			}
			k, _ := constant.Int64Val(v)
			vals = append(vals, fmt.Sprintf("%s %d", filepath.Base(path), k))
			if min < 0 || k < min {
				min = k
			}
			return true
		})
	}
	if min < 0 {
		die("no assignment to MaxLen found under %s", dir)
	}
	return vals, min
}

func exportsOf(dir string) []string {
	var out []string
	files, _ := filepath.Glob(filepath.Join(dir, "*.go"))
	for _, path := range files {
		if strings.HasSuffix(path, "_test.go") {
			continue
		}
		src, err := os.ReadFile(path)
		if err != nil {
			die("%v", err)
		}
		head := string(src)
		if i := strings.Index(head, "\npackage "); i >= 0 {
			head = head[:i]
		}
		if strings.Contains(head, "//go:build verif") || strings.Contains(head, "//go:build ignore") {
			continue // verification hooks and generator scripts are not part of the product API
		}
		out = append(out, exportsOfFile(path)...)
	}
	sort.Strings(out)
	return out
}

func exportsOfFile(path string) []string {
	f := parseFile(path)
	var out []string
	typ := func(e ast.Expr) string {
		var b bytes.Buffer
		var rec func(e ast.Expr)
		rec = func(e ast.Expr) {
			switch x := e.(type) {
			case *ast.Ident:
				if x.Name == "string" {
					b.WriteString("B")
				} else {
					b.WriteString(x.Name)
				}
			case *ast.ArrayType:
				if id, ok := x.Elt.(*ast.Ident); ok && id.Name == "byte" && x.Len == nil {
					b.WriteString("B")
				} else {
					b.WriteString("[]")
					rec(x.Elt)
				}
			case *ast.StarExpr:
				b.WriteString("*")
				rec(x.X)
			case *ast.SelectorExpr:
				rec(x.X)
				b.WriteString("." + x.Sel.Name)
			default:
				b.WriteString("?")
			}
		}
		rec(e)
		return b.String()
	}
	fields := func(fl *ast.FieldList) string {
		if fl == nil {
			return ""
		}
		var parts []string
		for _, fd := range fl.List {
			n := len(fd.Names)
			if n == 0 {
				n = 1
			}
			for i := 0; i < n; i++ {
				parts = append(parts, typ(fd.Type))
			}
		}
		return strings.Join(parts, ",")
	}
	for _, d := range f.Decls {
		fd, ok := d.(*ast.FuncDecl)
		if !ok || fd.Recv != nil || !fd.Name.IsExported() {
			continue
		}
		out = append(out, fd.Name.Name+"("+fields(fd.Type.Params)+")"+fields(fd.Type.Results))
	}
	sort.Strings(out)
	return out
}

func genExports(repo, out string) {
	var b bytes.Buffer
	b.WriteString("(* GENERATED by /verif/tools/gen from /repo's working tree. Do not edit. *)\nFrom Coq Require Import String List.\nImport ListNotations.\nOpen Scope string_scope.\n\n")
	for _, p := range []struct{ path, name string }{{".", "strcase_funcs"}, {"bytcase", "bytcase_funcs"}} {
		fmt.Fprintf(&b, "(* exported functions of package directory %s; string and []byte rendered as B *)\nDefinition %s : list string := [\n", p.path, p.name)
		ex := exportsOf(filepath.Join(repo, p.path))
		for i, e := range ex {
			sep := ";"
			if i == len(ex)-1 {
				sep = ""
			}
			fmt.Fprintf(&b, "  %q%s\n", e, sep)
		}
		b.WriteString("].\n\n")
	}
	writeIfChanged(filepath.Join(out, "Exports.v"), b.Bytes())
}

func main() {
	repo := flag.String("repo", "/repo", "repository working tree")
	out := flag.String("out", "/verif/coq/gen", "output directory")
	flag.Parse()
	if err := os.MkdirAll(*out, 0o755); err != nil {
		die("%v", err)
	}
	raw, err := os.ReadFile(filepath.Join(*repo, ".tables.json"))
	if err != nil {
		die("%v", err)
	}
	var meta map[string]map[string]interface{}
	if err := json.Unmarshal(raw, &meta); err != nil {
		die(".tables.json: %v", err)
	}
	genTables(*repo, *out, "tables_go121.go", "Tables121", meta["tables_go121.go"])
	genTables(*repo, *out, "tables_go116.go", "Tables116", meta["tables_go116.go"])
	genConsts(*repo, *out)
	genOracle(*out)
	genExports(*repo, *out)
}
