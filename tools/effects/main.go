// effects (T3) extracts an effect summary of every function of the four
// product packages from /repo's working tree and writes coq/gen/Effects.v.
//
// Per function: static callees inside the product packages; calls that
// leave them (by qualified name); every allocation-capable construct with
// the gc compiler's own escape verdict for that source position (from
// `go build -gcflags=-m`); every store whose destination is not
// function-local storage (rooted in a parameter, a package-level variable
// or reached through a pointer).  Must run with the working directory
// inside the repository (go/build + the "source" importer resolve imports
// from there).
package main

import (
	"bytes"
	"flag"
	"fmt"
	"go/ast"
	"go/build"
	"go/importer"
	"go/parser"
	"go/token"
	"go/types"
	"os"
	"os/exec"
	"path/filepath"
	"regexp"
	"sort"
	"strings"
)

func die(format string, a ...interface{}) {
	fmt.Fprintf(os.Stderr, "effects: "+format+"\n", a...)
	os.Exit(2)
}

type site struct {
	kind    string // alloc | write | ext | dyn
	what    string
	pos     string // file:line:col relative to repo
	verdict string // alloc: stack | heap | unknown ; write: root kind
}

type fsum struct {
	name    string
	calls   []string
	sites   []site
	hasBody bool
}

const modPath = "github.com/charlievieth/strcase"

var pkgs = []struct{ dir, path, short string }{
	{".", modPath, "strcase"},
	{"bytcase", modPath + "/bytcase", "bytcase"},
	{"internal/bytealg", modPath + "/internal/bytealg", "bytealg"},
	{"internal/tables", modPath + "/internal/tables", "tables"},
}

// escape verdicts: "file:line:col" -> list of messages
func escapeVerdicts(repo string) map[string][]string {
	cmd := exec.Command("go", "build", "-gcflags=-m", ".", "./bytcase", "./internal/bytealg", "./internal/tables")
	cmd.Dir = repo
	out, err := cmd.CombinedOutput()
	if err != nil {
		die("go build -gcflags=-m: %v\n%s", err, out)
	}
	re := regexp.MustCompile(`^(\./)?([^:\s]+\.go):(\d+):(\d+): (.*)$`)
	m := map[string][]string{}
	for _, line := range strings.Split(string(out), "\n") {
		g := re.FindStringSubmatch(line)
		if g == nil {
			continue
		}
		key := g[2] + ":" + g[3]
		m[key] = append(m[key], g[5])
	}
	return m
}

// keywords the compiler's message for a construct contains
var constructKey = map[string][]string{
	"string->slice conversion":      {"([]byte)(", "([]rune)("},
	"constant->slice conversion":    {"([]byte)(", "([]rune)("},
	"slice->string conversion":      {"string("},
	"string(rune) conversion":       {"string("},
	"make":                          {"make("},
	"new":                           {"new("},
	"append":                        {"append("},
	"closure":                       {"func literal"},
	"slice literal":                 {"{...}", "literal"},
	"map literal":                   {"{...}", "literal"},
	"&composite literal":            {"&", "literal"},
	"string concatenation":          {" + "},
	"conversion to interface":       {"escapes", "does not escape"},
	"argument boxed into interface": {"escapes", "does not escape"},
}

// verdictAt: the compiler reports a construct at a column inside it (the
// opening parenthesis of a call or conversion), so messages are matched by
// source line and by the construct's text
func verdictAt(v map[string][]string, pos string, what string) string {
	line := pos[:strings.LastIndex(pos, ":")]
	msgs := v[line]
	res := "unknown"
	keys, ok := constructKey[what]
	if !ok {
		return res
	}
	// string <-> slice conversions of a non-constant operand: "does not escape" only means the runtime may
	// use its 32-byte stack buffer; a longer operand is copied to the heap all the same.  They count as
	// allocating unless the compiler says it elided the copy altogether ("zero-copy ... conversion").
	if what == "string concatenation" || what == "map literal" {
		// the same holds for concatenation (32-byte temporary buffer) and for maps (more than one bucket
		// is heap-allocated whatever the escape verdict)
		return "heap"
	}
	if what == "string->slice conversion" || what == "slice->string conversion" {
		for _, m := range msgs {
			if strings.Contains(m, "zero-copy") {
				return "stack"
			}
		}
		return "heap"
	}
	for _, m := range msgs {
		match := false
		for _, k := range keys {
			if strings.Contains(m, k) {
				match = true
			}
		}
		if !match {
			continue
		}
		switch {
		case strings.Contains(m, "escapes to heap"), strings.Contains(m, "moved to heap"):
			return "heap"
		case strings.Contains(m, "does not escape"):
			res = "stack"
		}
	}
	return res
}

func main() {
	repo := flag.String("repo", "/repo", "repository working tree")
	out := flag.String("out", "/verif/coq/gen", "output directory")
	flag.Parse()
	abs, _ := filepath.Abs(*repo)
	if err := os.Chdir(abs); err != nil {
		die("%v", err)
	}
	verdicts := escapeVerdicts(abs)
	fset := token.NewFileSet()
	imp := importer.ForCompiler(fset, "source", nil)
	var all []*fsum
	exported := map[string][]string{}
	for _, p := range pkgs {
		bp, err := build.ImportDir(filepath.Join(abs, p.dir), 0)
		if err != nil {
			die("go/build %s: %v", p.dir, err)
		}
		var files []*ast.File
		for _, name := range bp.GoFiles {
			f, err := parser.ParseFile(fset, filepath.Join(abs, p.dir, name), nil, parser.SkipObjectResolution)
			if err != nil {
				die("parse: %v", err)
			}
			files = append(files, f)
		}
		info := &types.Info{Types: map[ast.Expr]types.TypeAndValue{}, Uses: map[*ast.Ident]types.Object{}, Defs: map[*ast.Ident]types.Object{}, Selections: map[*ast.SelectorExpr]*types.Selection{}}
		conf := types.Config{Importer: imp, Error: func(err error) {}}
		tpkg, err := conf.Check(p.path, fset, files, info)
		if err != nil && tpkg == nil {
			die("type-check %s: %v", p.path, err)
		}
		for _, f := range files {
			for _, d := range f.Decls {
				fd, ok := d.(*ast.FuncDecl)
				if !ok {
					continue
				}
				name := p.short + "." + fd.Name.Name
				if fd.Recv != nil && len(fd.Recv.List) > 0 {
					name = p.short + "." + recvName(fd.Recv.List[0].Type) + "." + fd.Name.Name
				}
				fs := &fsum{name: name, hasBody: fd.Body != nil}
				if fd.Body != nil {
					analyse(fs, fd, info, fset, abs, verdicts, tpkg)
				} else {
					fs.sites = append(fs.sites, site{kind: "asm", what: "assembly body", pos: rel(fset, fd.Pos(), abs)})
				}
				all = append(all, fs)
				if fd.Recv == nil && fd.Name.IsExported() && (p.short == "strcase" || p.short == "bytcase") {
					exported[p.short] = append(exported[p.short], name)
				}
			}
		}
	}
	sort.Slice(all, func(i, j int) bool { return all[i].name < all[j].name })
	var b bytes.Buffer
	b.WriteString("(* GENERATED by /verif/tools/effects (T3) from /repo's working tree. Do not edit. *)\n")
	b.WriteString("From Coq Require Import String List.\nImport ListNotations.\nOpen Scope string_scope.\n\n")
	b.WriteString("(* (function, (static callees inside the product packages,\n    sites: (kind, (what, (position, verdict))))) *)\n")
	b.WriteString("Definition funcs : list (string * (list string * list (string * (string * (string * string))))) := [\n")
	for i, f := range all {
		sort.Strings(f.calls)
		f.calls = uniq(f.calls)
		fmt.Fprintf(&b, " (%q, ([", f.name)
		for j, c := range f.calls {
			if j > 0 {
				b.WriteString("; ")
			}
			fmt.Fprintf(&b, "%q", c)
		}
		b.WriteString("],\n   [")
		for j, s := range f.sites {
			if j > 0 {
				b.WriteString(";\n    ")
			}
			fmt.Fprintf(&b, "(%q, (%q, (%q, %q)))", s.kind, s.what, s.pos, s.verdict)
		}
		b.WriteString("]))")
		if i < len(all)-1 {
			b.WriteString(";")
		}
		b.WriteString("\n")
	}
	b.WriteString("].\n\n")
	for _, p := range []string{"strcase", "bytcase"} {
		sort.Strings(exported[p])
		fmt.Fprintf(&b, "Definition %s_exported : list string := [", p)
		for j, c := range exported[p] {
			if j > 0 {
				b.WriteString("; ")
			}
			fmt.Fprintf(&b, "%q", c)
		}
		b.WriteString("].\n")
	}
	path := filepath.Join(*out, "Effects.v")
	old, err := os.ReadFile(path)
	if err != nil || !bytes.Equal(old, b.Bytes()) {
		if err := os.WriteFile(path, b.Bytes(), 0o644); err != nil {
			die("%v", err)
		}
	}
}

func uniq(l []string) []string {
	var o []string
	for i, x := range l {
		if i == 0 || x != l[i-1] {
			o = append(o, x)
		}
	}
	return o
}

func recvName(e ast.Expr) string {
	switch x := e.(type) {
	case *ast.StarExpr:
		return recvName(x.X)
	case *ast.Ident:
		return x.Name
	}
	return "?"
}

func rel(fset *token.FileSet, p token.Pos, root string) string {
	pos := fset.Position(p)
	r, err := filepath.Rel(root, pos.Filename)
	if err != nil {
		r = pos.Filename
	}
	return fmt.Sprintf("%s:%d:%d", r, pos.Line, pos.Column)
}

func shortPkg(path string) string {
	for _, p := range pkgs {
		if p.path == path {
			return p.short
		}
	}
	return ""
}

// rootOf classifies the storage an lvalue designates
func rootOf(e ast.Expr, info *types.Info, fn *types.Func, params map[types.Object]bool) (kind, name string) {
	switch x := e.(type) {
	case *ast.Ident:
		obj := info.Uses[x]
		if obj == nil {
			obj = info.Defs[x]
		}
		if obj == nil {
			return "local", x.Name
		}
		if v, ok := obj.(*types.Var); ok {
			if v.Parent() == v.Pkg().Scope() {
				return "global", v.Pkg().Name() + "." + v.Name()
			}
			if params[obj] {
				return "param", v.Name()
			}
			return "local", v.Name()
		}
		return "local", x.Name
	case *ast.ParenExpr:
		return rootOf(x.X, info, fn, params)
	case *ast.IndexExpr:
		k, n := rootOf(x.X, info, fn, params)
		// indexing a local ARRAY value stays local; indexing a slice / string / pointer reaches shared memory
		if tv, ok := info.Types[x.X]; ok {
			switch tv.Type.Underlying().(type) {
			case *types.Array:
				return k, n
			case *types.Pointer:
				return "deref-" + k, n
			default:
				if k == "local" {
					return "slice-of-local", n
				}
				return "deref-" + k, n
			}
		}
		return "deref-" + k, n
	case *ast.SelectorExpr:
		if sel, ok := info.Selections[x]; ok && sel.Indirect() {
			k, n := rootOf(x.X, info, fn, params)
			return "deref-" + k, n
		}
		if id, ok := x.X.(*ast.Ident); ok {
			if _, isPkg := info.Uses[id].(*types.PkgName); isPkg {
				return "global", id.Name + "." + x.Sel.Name
			}
		}
		return rootOf(x.X, info, fn, params)
	case *ast.StarExpr:
		k, n := rootOf(x.X, info, fn, params)
		return "deref-" + k, n
	case *ast.SliceExpr:
		return rootOf(x.X, info, fn, params)
	}
	return "unknown", "?"
}

func analyse(fs *fsum, fd *ast.FuncDecl, info *types.Info, fset *token.FileSet, root string, verdicts map[string][]string, tpkg *types.Package) {
	params := map[types.Object]bool{}
	addParams := func(fl *ast.FieldList) {
		if fl == nil {
			return
		}
		for _, f := range fl.List {
			for _, n := range f.Names {
				if o := info.Defs[n]; o != nil {
					// a by-value array / scalar parameter is the callee's own copy; slices, strings,
					// pointers give access to the caller's memory
					params[o] = true
				}
			}
		}
	}
	addParams(fd.Type.Params)
	addParams(fd.Recv)
	alloc := func(what string, n ast.Node) {
		pos := rel(fset, n.Pos(), root)
		fs.sites = append(fs.sites, site{"alloc", what, pos, verdictAt(verdicts, pos, what)})
	}
	write := func(lhs ast.Expr) {
		k, n := rootOf(lhs, info, nil, params)
		if id, ok := lhs.(*ast.Ident); ok {
			_ = id
			if k == "local" || k == "param" {
				return // assigning to a local variable or to the callee's own copy of a parameter
			}
		}
		if k == "local" {
			return
		}
		fs.sites = append(fs.sites, site{"write", n, rel(fset, lhs.Pos(), root), k})
	}
	ast.Inspect(fd.Body, func(n ast.Node) bool {
		switch x := n.(type) {
		case *ast.AssignStmt:
			for _, l := range x.Lhs {
				if id, ok := l.(*ast.Ident); ok && id.Name == "_" {
					continue
				}
				if x.Tok == token.DEFINE {
					continue
				}
				write(l)
			}
		case *ast.IncDecStmt:
			write(x.X)
		case *ast.GoStmt:
			alloc("go statement", x)
		case *ast.DeferStmt:
			alloc("defer statement", x)
		case *ast.FuncLit:
			alloc("closure", x)
		case *ast.CompositeLit:
			if tv, ok := info.Types[x]; ok {
				switch tv.Type.Underlying().(type) {
				case *types.Slice:
					alloc("slice literal", x)
				case *types.Map:
					alloc("map literal", x)
				}
			}
		case *ast.UnaryExpr:
			if x.Op == token.AND {
				if _, ok := x.X.(*ast.CompositeLit); ok {
					alloc("&composite literal", x)
				}
			}
		case *ast.BinaryExpr:
			if x.Op == token.ADD {
				if tv, ok := info.Types[x]; ok && tv.Value == nil {
					if b, ok := tv.Type.Underlying().(*types.Basic); ok && b.Info()&types.IsString != 0 {
						alloc("string concatenation", x)
					}
				}
			}
		case *ast.SendStmt:
			alloc("channel send", x)
		case *ast.CallExpr:
			// conversion?
			if tv, ok := info.Types[x.Fun]; ok && tv.IsType() {
				if len(x.Args) == 1 {
					to := tv.Type.Underlying()
					from := info.Types[x.Args[0]].Type
					if from != nil && info.Types[x.Args[0]].Value == nil {
						fu := from.Underlying()
						_, toSlice := to.(*types.Slice)
						tb, toBasic := to.(*types.Basic)
						_, fromSlice := fu.(*types.Slice)
						fb, fromBasic := fu.(*types.Basic)
						switch {
						case toSlice && fromBasic && fb.Info()&types.IsString != 0:
							alloc("string->slice conversion", x)
						case toBasic && tb.Info()&types.IsString != 0 && fromSlice:
							alloc("slice->string conversion", x)
						case toBasic && tb.Info()&types.IsString != 0 && fromBasic && fb.Info()&types.IsInteger != 0:
							alloc("string(rune) conversion", x)
						}
					} else if from != nil {
						// constant operand converted to a slice: []byte("lit")
						if _, toSlice := to.(*types.Slice); toSlice {
							alloc("constant->slice conversion", x)
						}
					}
					if types.IsInterface(to) {
						alloc("conversion to interface", x)
					}
				}
				return true
			}
			// builtin?
			if id, ok := x.Fun.(*ast.Ident); ok {
				if _, isB := info.Uses[id].(*types.Builtin); isB {
					switch id.Name {
					case "make":
						// a map / channel, or a slice whose size is not a constant, is heap-allocated whatever the
						// escape verdict says
						what := "make"
						if len(x.Args) > 0 {
							if tv, ok := info.Types[x.Args[0]]; ok {
								switch tv.Type.Underlying().(type) {
								case *types.Map, *types.Chan:
									what = "map literal"
								case *types.Slice:
									for _, a := range x.Args[1:] {
										if info.Types[a].Value == nil {
											what = "map literal" // classified with the always-heap constructs
										}
									}
								}
							}
						}
						alloc(what, x)
					case "new", "append":
						alloc(id.Name, x)
					case "copy":
						if len(x.Args) > 0 {
							write(&ast.IndexExpr{X: x.Args[0], Index: x.Args[0]})
						}
					case "panic", "print", "println":
						alloc(id.Name+" (boxes its argument)", x)
					}
					return true
				}
			}
			// static callee
			var obj types.Object
			switch f := x.Fun.(type) {
			case *ast.Ident:
				obj = info.Uses[f]
			case *ast.SelectorExpr:
				if sel, ok := info.Selections[f]; ok {
					obj = sel.Obj()
				} else {
					obj = info.Uses[f.Sel]
				}
			}
			if fn, ok := obj.(*types.Func); ok && fn.Pkg() != nil {
				if sp := shortPkg(fn.Pkg().Path()); sp != "" {
					name := sp + "." + fn.Name()
					if sig, ok := fn.Type().(*types.Signature); ok && sig.Recv() != nil {
						name = sp + "." + recvTypeName(sig.Recv().Type()) + "." + fn.Name()
					}
					fs.calls = append(fs.calls, name)
				} else {
					fs.sites = append(fs.sites, site{"ext", fn.Pkg().Path() + "." + fn.Name(), rel(fset, x.Pos(), root), ""})
				}
				// interface-typed parameters box their arguments
				if sig, ok := fn.Type().(*types.Signature); ok {
					for i := 0; i < sig.Params().Len() && i < len(x.Args); i++ {
						if types.IsInterface(sig.Params().At(i).Type()) {
							if at := info.Types[x.Args[i]].Type; at != nil && !types.IsInterface(at) {
								alloc("argument boxed into interface", x.Args[i])
							}
						}
					}
				}
			} else {
				fs.sites = append(fs.sites, site{"dyn", "call through a function value or interface", rel(fset, x.Pos(), root), ""})
			}
		}
		return true
	})
}

func recvTypeName(t types.Type) string {
	if p, ok := t.(*types.Pointer); ok {
		t = p.Elem()
	}
	if n, ok := t.(*types.Named); ok {
		return n.Obj().Name()
	}
	return "?"
}
