#!/usr/bin/env python3
"""T2 (full): translates the amd64 assembly kernels of internal/bytealg into instruction lists for the
machine model coq/theories/X86.v  ->  coq/gen/AsmProg.v.

For every *_amd64.s file: one program (all TEXT blocks concatenated, labels and intra-file symbols resolved to
instruction indices), in two variants: as assembled by default (the run-time CPU-feature tests inside
`#ifndef hasAVX2` / `#ifndef hasPOPCNT` blocks are present) and as assembled for GOAMD64=v3 (those blocks are
dropped — in the files that include "asm_amd64.h", the header that defines the two macros; a file that does not
include it keeps its run-time tests under GOAMD64=v3 too, and its two variants are the same program).  Anything the translator does not understand is an error (exit 2): nothing is skipped silently.
Plan-9 operand order: sources first, destination last; CMPx a, b sets the flags of a - b."""
import sys, os, re, glob, argparse

ap = argparse.ArgumentParser()
ap.add_argument("--repo", default="/repo")
ap.add_argument("--out", default="/verif/coq/gen")
a = ap.parse_args()

GP = {}
for n, names in {"AX": ["AX", "AL", "EAX"], "BX": ["BX", "BL"], "CX": ["CX", "CL"], "DX": ["DX", "DL"],
                 "SI": ["SI"], "DI": ["DI"], "R8": ["R8"], "R9": ["R9"], "R10": ["R10"], "R11": ["R11"],
                 "R12": ["R12"], "R13": ["R13"], "R14": ["R14"], "R15": ["R15"]}.items():
    for x in names:
        GP[x] = n

COND = {"JEQ": "cE", "JZ": "cE", "JNE": "cNE", "JNZ": "cNE", "JLT": "cLT", "JLE": "cLE", "JGE": "cGE", "JGT": "cGT",
        "JA": "cA", "JHI": "cA", "JAE": "cAE", "JCC": "cAE", "JHS": "cAE", "JB": "cB", "JLO": "cB", "JCS": "cB",
        "JBE": "cBE", "JLS": "cBE"}


class Err(Exception):
    pass


def split_ops(args):
    ops, depth, cur = [], 0, ""
    for ch in args:
        if ch == "(":
            depth += 1
        elif ch == ")":
            depth -= 1
        if ch == "," and depth == 0:
            ops.append(cur.strip())
            cur = ""
        else:
            cur += ch
    if cur.strip():
        ops.append(cur.strip())
    return ops


def zlit(v):
    return "(%d)" % v


def imm(tok):
    t = tok[1:]
    try:
        return int(t, 0)
    except ValueError:
        raise Err("immediate " + tok)


def vreg(tok):
    m = re.fullmatch(r'([XY])(\d+)', tok)
    if not m:
        raise Err("vector register " + tok)
    return int(m.group(2)), (16 if m.group(1) == "X" else 32)


def memop(tok):
    m = re.fullmatch(r'(-?\w*)\((\w+)\)(?:\((\w+)\*(\d+)\))?', tok)
    if not m:
        raise Err("memory operand " + tok)
    disp = int(m.group(1), 0) if m.group(1) not in ("", "-") else 0
    base = m.group(2)
    if base not in GP:
        raise Err("base register " + tok)
    idx = "None"
    if m.group(3):
        if m.group(3) not in GP:
            raise Err("index register " + tok)
        idx = "(Some (%s, %s))" % (GP[m.group(3)], zlit(int(m.group(4))))
    return "{| m_disp := %s; m_base := %s; m_idx := %s |}" % (zlit(disp), GP[base], idx)


def opnd(tok):
    if tok.startswith("$"):
        return "(Imm %s)" % zlit(imm(tok))
    if tok in GP:
        return "(R %s)" % GP[tok]
    m = re.fullmatch(r'(\w+)\+(\d+)\(FP\)', tok)
    if m:
        nm = m.group(1)
        if nm.endswith("_base"):
            return "(Arg ABase)"
        if nm.endswith("_len"):
            return "(Arg ALen)"
        if nm == "c":
            return "(Arg AByte)"
        raise Err("frame argument " + tok)
    return "(M %s)" % memop(tok)


def reg(tok):
    if tok not in GP:
        raise Err("register " + tok)
    return GP[tok]


def translate(lines, v3, fname):
    """lines: (lineno, text) after comment stripping; returns (instrs as Coq strings with unresolved targets, texts, labels)"""
    out = []          # (coq text or ("J", cond|None, target)), source line
    labels = {}       # (text block, label) -> index ; symbols: name -> index
    syms = {}
    block = None
    skipping = False
    feature_macros = False   # hasAVX2 / hasPOPCNT are defined by "asm_amd64.h" (under GOAMD64_v3), and only there
    for ln, line in lines:
        if line.startswith("#"):
            m = re.match(r'^#ifndef\s+(\w+)\s*$', line)
            if m:
                if m.group(1) not in ("hasAVX2", "hasPOPCNT"):
                    raise Err("%s:%d: directive %s" % (fname, ln, line))
                if v3 and feature_macros:
                    skipping = True
                continue
            if line.startswith("#endif"):
                skipping = False
                continue
            if line.startswith("#include"):
                if '"asm_amd64.h"' in line:
                    feature_macros = True
                continue
            raise Err("%s:%d: directive %s" % (fname, ln, line))
        if skipping:
            continue
        m = re.match(r'^TEXT\s+([^\s,(]+)\(SB\)', line)
        if m:
            block = m.group(1)
            syms[block] = len(out)
            continue
        m = re.match(r'^([A-Za-z_][A-Za-z0-9_]*):\s*(.*)$', line)
        if m:
            labels[(block, m.group(1))] = len(out)
            line = m.group(2).strip()
            if not line:
                continue
        parts = line.split(None, 1)
        op = parts[0]
        ops = split_ops(parts[1]) if len(parts) > 1 else []
        try:
            out.append((instr(op, ops, block), "%s:%d: %s" % (fname, ln, line)))
        except Err as e:
            raise Err("%s:%d: %s  (%s)" % (fname, ln, line, e))
    # resolve
    res = []
    for (ins, src) in out:
        if isinstance(ins, tuple):
            _, c, tgt, blk = ins
            mpc = re.fullmatch(r'(\d+)\(PC\)', tgt)
            if mpc:
                idx = len(res) + int(mpc.group(1))
                res.append((("JMP %d" % idx) if c is None else ("JCC %s %d" % (c, idx)), src))
                continue
            if tgt.endswith("(SB)"):
                nm = tgt[:-4]
                if nm in syms:
                    idx = syms[nm]
                else:
                    res.append(("TAILGO", src))
                    continue
            else:
                if (blk, tgt) not in labels:
                    raise Err("unresolved label %s in %s" % (tgt, src))
                idx = labels[(blk, tgt)]
            res.append((("JMP %d" % idx) if c is None else ("JCC %s %d" % (c, idx)), src))
        else:
            res.append((ins, src))
    return res, syms


def instr(op, ops, block):
    n = len(ops)
    if op == "JMP":
        return ("J", None, ops[0], block)
    if op in COND:
        return ("J", COND[op], ops[0], block)
    if op == "RET":
        return "RET"
    if op == "PCALIGN":
        return "NOP"
    if op == "VZEROUPPER":
        return "VZEROUPPER"
    if op == "MOVQ" and n == 2 and re.fullmatch(r'X\d+', ops[1]):
        return "MOVQX %s %d" % (reg(ops[0]), vreg(ops[1])[0])
    if op == "MOVQ" and n == 2:
        if re.fullmatch(r'\(R8\)', ops[1]) or ops[1].startswith("("):
            return "MOVQ %s %s" % (opnd(ops[0]), opnd(ops[1]))
        return "MOVQ %s (R %s)" % (opnd(ops[0]), reg(ops[1]))
    if op == "LEAQ" and n == 2:
        m = re.fullmatch(r'ret\+(\d+)\(FP\)', ops[0])
        if m:
            return "MOVQ (Arg ARet) (R %s)" % reg(ops[1])
        return "LEAQ %s %s" % (memop(ops[0]), reg(ops[1]))
    if op == "LEAL" and n == 2:
        return "LEAL %s %s" % (memop(ops[0]), reg(ops[1]))
    if op in ("MOVL", "MOVB") and n == 2:
        return "%s %s %s" % (op, opnd(ops[0]), reg(ops[1]))
    if op in ("ADDQ", "SUBQ", "ADDL", "ANDQ", "ORQ", "ORL") and n == 2:
        return "%s %s %s" % (op, opnd(ops[0]), reg(ops[1]))
    if op in ("SALQ", "SARQ") and n == 2:
        return "%s %s %s" % (op, opnd(ops[0]), reg(ops[1]))
    if op in ("SHLL", "SHRL") and n == 2:
        return "%s %s %s" % (op, opnd(ops[0]), reg(ops[1]))
    if op in ("CMPQ", "CMPL", "CMPB") and n == 2:
        if "(SB)" in ops[0]:
            if "HasAVX2" in ops[0] and ops[1] == "$1":
                return "CMPHASAVX2"
            if "HasPOPCNT" in ops[0] and ops[1] == "$1":
                return "CMPHASPOPCNT"
            raise Err("global " + ops[0])
        return "%s %s %s" % (op, opnd(ops[0]), opnd(ops[1]))
    if op in ("TESTQ", "TESTW") and n == 2:
        return "%s %s %s" % (op, opnd(ops[0]), opnd(ops[1]))
    if op in ("BSFL", "POPCNTL", "POPCNTQ") and n == 2:
        return "%s %s %s" % (op, reg(ops[0]), reg(ops[1]))
    if op == "MOVD" and n == 2:
        d, w = vreg(ops[1])
        return "MOVD %s %d" % (reg(ops[0]), d)
    if op == "PUNPCKLBW" and n == 2:
        return "PUNPCKLBW %d %d" % (vreg(ops[0])[0], vreg(ops[1])[0])
    if op == "PSHUFL" and n == 3 and ops[0] == "$0":
        return "PSHUFL0 %d %d" % (vreg(ops[1])[0], vreg(ops[2])[0])
    if op in ("MOVOU", "VMOVDQU") and n == 2:
        d, w = vreg(ops[1])
        if (op == "MOVOU") != (w == 16):
            raise Err("width")
        return "VLOAD %d %s %d" % (w, memop(ops[0]), d)
    if op in ("PAND", "POR", "PCMPEQB") and n == 2:
        s, _ = vreg(ops[0])
        d, _ = vreg(ops[1])
        return "%s 16 %d %d %d" % ({"PAND": "VAND", "POR": "VOR", "PCMPEQB": "VCMPEQB"}[op], s, d, d)
    if op in ("VPAND", "VPOR", "VPCMPEQB") and n == 3:
        x, w1 = vreg(ops[0])
        y, w2 = vreg(ops[1])
        d, w3 = vreg(ops[2])
        if not (w1 == w2 == w3 == 32):
            raise Err("width")
        return "%s 32 %d %d %d" % ({"VPAND": "VAND", "VPOR": "VOR", "VPCMPEQB": "VCMPEQB"}[op], x, y, d)
    if op in ("PMOVMSKB", "VPMOVMSKB") and n == 2:
        s, w = vreg(ops[0])
        if (op == "PMOVMSKB") != (w == 16):
            raise Err("width")
        return "VMOVMSKB %d %d %s" % (w, s, reg(ops[1]))
    if op == "VPTEST" and n == 2:
        return "VPTEST %d %d" % (vreg(ops[0])[0], vreg(ops[1])[0])
    if op == "VPBROADCASTB" and n == 2:
        return "VBROADCASTB %d %d" % (vreg(ops[0])[0], vreg(ops[1])[0])
    raise Err("instruction")


def write_if_changed(path, body):
    if not os.path.exists(path) or open(path).read() != body:
        open(path, "w").write(body)


def main():
    files = sorted(glob.glob(os.path.join(a.repo, "internal", "bytealg", "*_amd64.s")))
    if not files:
        sys.stderr.write("asm2prog: no amd64 assembly files\n")
        sys.exit(2)
    o = ["(* GENERATED by /verif/tools/asm2prog.py (T2, instruction lists) from /repo's working tree. Do not edit. *)",
         "From Coq Require Import List ZArith String.", "From Strcase Require Import X86.", "Import ListNotations.", "Open Scope Z_scope.", ""]
    try:
        for path in files:
            rel = os.path.relpath(path, a.repo)
            base = os.path.basename(path)[:-2].replace(".", "_")
            lines = []
            for ln, raw in enumerate(open(path), 1):
                line = raw.split("//")[0].strip()
                if line:
                    lines.append((ln, line))
            default_prog = None
            for v3 in (False, True):
                prog, syms = translate(lines, v3, rel)
                name = "prog_%s%s" % (base, "_v3" if v3 else "")
                if not v3:
                    default_prog = [ins for ins, _ in prog]
                elif [ins for ins, _ in prog] == default_prog:
                    # the file does not see the feature macros: GOAMD64=v3 assembles the same program
                    o.append("(* %s assembled for GOAMD64=v3: the same %d instructions (the file does not include asm_amd64.h) *)" % (rel, len(prog)))
                    o.append("Definition %s : list instr := prog_%s." % (name, base))
                    for s_, idx in sorted(syms.items(), key=lambda kv: kv[1]):
                        nm = re.sub(r'[^A-Za-z0-9_]', '', s_)
                        o.append("Definition entry_%s_%s_v3 : nat := entry_%s_%s." % (base, nm, base, nm))
                    o.append("")
                    continue
                o.append("(* %s%s: %d instructions *)" % (rel, " assembled with hasAVX2/hasPOPCNT defined (GOAMD64=v3)" if v3 else "", len(prog)))
                o.append("Definition %s : list instr := [" % name)
                for k, (ins, src) in enumerate(prog):
                    o.append("  %s%s  (* %d  %s *)" % (ins, ";" if k + 1 < len(prog) else "", k, src.replace("*)", "* )").replace("(*", "( *")))
                o.append("].")
                for s_, idx in sorted(syms.items(), key=lambda kv: kv[1]):
                    nm = re.sub(r'[^A-Za-z0-9_]', '', s_)
                    o.append("Definition entry_%s_%s%s : nat := %d." % (base, nm, "_v3" if v3 else "", idx))
                o.append("")
    except Err as e:
        sys.stderr.write("asm2prog: cannot translate: %s\n" % e)
        # no stale program may survive: the theorems about the kernels must stop checking
        os.makedirs(a.out, exist_ok=True)
        msg = str(e).replace("*)", "* )").replace("(*", "( *")
        write_if_changed(os.path.join(a.out, "AsmProg.v"),
                         "(* asm2prog could not translate the assembly: %s *)\nDefinition asm2prog_failed : True := 0.\n" % msg)
        sys.exit(2)
    os.makedirs(a.out, exist_ok=True)
    write_if_changed(os.path.join(a.out, "AsmProg.v"), "\n".join(o) + "\n")
    print("asm2prog: %d files -> AsmProg.v" % len(files))


main()
