#!/usr/bin/env python3
"""arm64sim — a small interpreter for the subset of Go's arm64 assembly that internal/bytealg/*_arm64.s use (the byte
count, the single-byte search and the first-non-ASCII search; wrappers included).

The sandbox has no arm64 processor and no emulator, so the arm64 kernels cannot be executed; this interpreter runs the
TEXT of the .s file (parsed on every run from /repo's working tree) instruction by instruction and compares what the
Count / CountString entry points return with the kernel's scalar definition, over lengths x alignments x contents.
It is a SEARCH for a failing input (bounded, trusted only as far as its ~30 instruction semantics go), not a proof:
the arm64 assembly is outside the Coq development (DESIGN section 8).

  arm64sim.py <file.s> [--quick]  sweep; prints one line per disagreement (at most 5) and a summary; exit 1 if any
  arm64sim.py <file.s> <hex s> <c> <align>   one run, prints the result of CountString and the definition
"""
import re, sys

M64 = (1 << 64) - 1


class Unsupported(Exception):
    pass


class OutOfBounds(Exception):
    pass


def parse(path):
    """-> {text name: [(label or None, op, [operands])...]} ; labels resolved per TEXT"""
    texts, cur, pending = {}, None, None
    for raw in open(path):
        line = raw.split("//")[0].rstrip()
        if not line.strip() or line.startswith("#"):
            continue
        m = re.match(r"TEXT\s+([^\s(,]+)\(SB\)", line.strip())
        if m:
            cur = m.group(1).replace("·", "").replace("<>", "")
            texts[cur] = {"ins": [], "labels": {}}
            continue
        if cur is None:
            continue
        s = line.strip()
        m = re.match(r"^([A-Za-z_][A-Za-z0-9_]*):$", s)
        if m:
            texts[cur]["labels"][m.group(1)] = len(texts[cur]["ins"])
            continue
        parts = s.split(None, 1)
        op = parts[0]
        ops = []
        if len(parts) > 1:
            depth, tok = 0, ""
            for ch in parts[1]:
                if ch in "([":
                    depth += 1
                if ch in ")]":
                    depth -= 1
                if ch == "," and depth == 0:
                    ops.append(tok.strip())
                    tok = ""
                else:
                    tok += ch
            if tok.strip():
                ops.append(tok.strip())
        texts[cur]["ins"].append((op, ops))
    return texts


class Machine:
    def __init__(self, texts, data, base, c, slot=0x7000, junk=0):
        self.junk = junk
        self.texts = texts
        self.R = {"R%d" % i: 0 for i in range(31)}
        self.V = {"V%d" % i: [0] * 16 for i in range(32)}
        self.data, self.base, self.slot = data, base, slot
        self.args = {"base": base, "len": len(data), "c": c}
        self.result = None
        self.flags = None  # (a, b, kind): kind 'cmp64' / 'cmp32' / 'logic'
        self.steps = 0

    def load(self, addr, n):
        """bytes of the argument; outside it, junk - allowed only inside an aligned 32-byte block that also holds a byte
        of the argument (such a load cannot cross into another page)"""
        out = []
        lo, hi = self.base, self.base + len(self.data)
        for a in range(addr, addr + n):
            if lo <= a < hi:
                out.append(self.data[a - lo])
            else:
                blk = a & ~31
                if not (len(self.data) > 0 and blk < hi and blk + 32 > lo):
                    raise OutOfBounds("read outside the argument: address offset %d of a %d-byte argument" % (a - lo, len(self.data)))
                out.append(self.junk)
        return out

    def val(self, o):
        m = re.match(r"^(R\d+)(<<|>>)(\d+)$", o)
        if m:
            x, k = self.R[m.group(1)], int(m.group(3))
            return ((x << k) & M64) if m.group(2) == "<<" else (x >> k)
        if o.startswith("$"):
            return int(o[1:], 0) & M64
        if o in self.R:
            return self.R[o]
        if o == "ZR":
            return 0
        raise Unsupported("operand " + o)

    def set_sub(self, a, b, bits=64):
        mask = (1 << bits) - 1
        a &= mask
        b &= mask
        r = (a - b) & mask
        sa, sb, sr = a >> (bits - 1), b >> (bits - 1), r >> (bits - 1)
        self.flags = {"n": sr == 1, "z": r == 0, "c": a >= b, "v": (sa != sb) and (sr != sa)}
        return r

    def set_add(self, a, b, bits=64):
        mask = (1 << bits) - 1
        a &= mask
        b &= mask
        full = a + b
        r = full & mask
        sa, sb, sr = a >> (bits - 1), b >> (bits - 1), r >> (bits - 1)
        self.flags = {"n": sr == 1, "z": r == 0, "c": full > mask, "v": (sa == sb) and (sr != sa)}
        return r

    def cond(self, cc):
        f = self.flags
        if f is None:
            raise Unsupported("branch on undefined flags")
        if cc in ("EQ", "NE"):
            return f["z"] == (cc == "EQ")
        if f["c"] is None:
            raise Unsupported("condition %s after a logical instruction" % cc)
        return {"LO": not f["c"], "HS": f["c"], "HI": f["c"] and not f["z"], "LS": (not f["c"]) or f["z"],
                "LT": f["n"] != f["v"], "GE": f["n"] == f["v"]}[cc]

    def run(self, entry):
        name, pc = entry, 0
        while True:
            self.steps += 1
            if self.steps > 200000:
                raise Unsupported("step limit")
            t = self.texts[name]
            if pc >= len(t["ins"]):
                raise Unsupported("fell off the end of " + name)
            op, o = t["ins"][pc]
            pc += 1
            base_op = op.split(".")[0]
            post = op.endswith(".P")

            def jump(target):
                nonlocal name, pc
                m = re.match(r"^([A-Za-z_][A-Za-z0-9_]*)(<>)?\(SB\)$", target)
                if m:
                    name, pc = m.group(1), 0
                else:
                    pc = t["labels"][target]

            if base_op == "PCALIGN":
                continue
            if base_op in ("MOVD", "MOVBU", "MOVWU") and len(o) == 2:
                src, dst = o
                m = re.match(r"^\$?([a-z_]+)\+(\d+)\(FP\)$", src)
                if m:
                    nm = m.group(1)
                    if src.startswith("$"):
                        self.R[dst] = self.slot
                    elif nm.endswith("_base"):
                        self.R[dst] = self.args["base"]
                    elif nm.endswith("_len"):
                        self.R[dst] = self.args["len"]
                    elif nm == "c":
                        self.R[dst] = self.args["c"]
                    else:
                        raise Unsupported("frame operand " + src)
                    continue
                m = re.match(r"^(\d*)\((R\d+)\)$", src)
                if m and base_op == "MOVBU":
                    inc = int(m.group(1) or 0)
                    if post:
                        self.R[dst] = self.load(self.R[m.group(2)], 1)[0]
                        self.R[m.group(2)] = (self.R[m.group(2)] + inc) & M64
                    else:
                        self.R[dst] = self.load(self.R[m.group(2)] + inc, 1)[0]
                    continue
                m = re.match(r"^\((R\d+)\)$", dst)
                if m and base_op == "MOVD":
                    if self.R[m.group(1)] != self.slot:
                        raise Unsupported("store outside the result slot")
                    self.result = self.val(src)
                    continue
                if dst in self.R:
                    self.R[dst] = self.val(src)
                    continue
                raise Unsupported("%s %s" % (op, o))
            if base_op in ("ADDS", "SUBS"):
                a, b, d = o if len(o) == 3 else (o[0], o[1], o[1])
                x, y = self.val(b), self.val(a)
                self.R[d] = self.set_add(x, y) if base_op == "ADDS" else self.set_sub(x, y)
                continue
            if base_op in ("LSL", "LSR"):
                k, s, d = o
                kk = self.val(k) % 64
                self.R[d] = ((self.val(s) << kk) & M64) if base_op == "LSL" else (self.val(s) >> kk)
                continue
            if base_op == "NEG":
                self.R[o[1]] = (-self.val(o[0])) & M64
                continue
            if base_op == "RBIT":
                self.R[o[1]] = int(format(self.val(o[0]), "064b")[::-1], 2)
                continue
            if base_op == "CLZ":
                x = self.val(o[0])
                self.R[o[1]] = 64 - x.bit_length()
                continue
            if base_op in ("ADD", "SUB", "ORR", "AND", "BIC", "ANDS", "EOR"):
                if len(o) == 2:
                    a, d = o
                    x = self.val(d)
                else:
                    a, b, d = o
                    x = self.val(b)
                y = self.val(a)
                r = {"ADD": x + y, "SUB": x - y, "ORR": x | y, "AND": x & y, "ANDS": x & y, "BIC": x & ~y, "EOR": x ^ y}[base_op] & M64
                self.R[d] = r
                if base_op == "ANDS":
                    self.flags = {"n": (r >> 63) == 1, "z": r == 0, "c": None, "v": None}
                continue
            if base_op in ("CMP", "CMPW"):
                self.set_sub(self.val(o[1]), self.val(o[0]), 64 if base_op == "CMP" else 32)
                continue
            if base_op == "CINC":
                cc, s, d = o
                self.R[d] = (self.val(s) + (1 if self.cond(cc) else 0)) & M64
                continue
            if base_op in ("CBZ", "CBNZ"):
                z = self.val(o[0]) == 0
                if z == (base_op == "CBZ"):
                    jump(o[1])
                continue
            if base_op == "B":
                jump(o[0])
                continue
            if base_op in ("BEQ", "BNE", "BLO", "BLS", "BHI", "BHS"):
                if self.cond(base_op[1:]):
                    jump(o[0])
                continue
            if base_op == "RET":
                return self.result
            # ---- vectors (16 byte lanes) ----
            def vreg(x):
                m = re.match(r"^(V\d+)(\.B16|\.B8|\.D\[0\]|\.S4|\.D2)?$", x)
                if not m:
                    raise Unsupported("vector operand " + x)
                return m.group(1), m.group(2)
            if base_op == "VMOVQ":
                lo, hi, d = o
                v = (int(lo[1:], 0) | (int(hi[1:], 0) << 64))
                self.V[vreg(d)[0]] = [(v >> (8 * i)) & 255 for i in range(16)]
                continue
            if base_op == "VMOV":
                s, d = o
                if s in self.R:
                    dn, arr = vreg(d)
                    if arr == ".B16":
                        self.V[dn] = [self.R[s] & 255] * 16
                    elif arr == ".S4":
                        self.V[dn] = [(self.R[s] >> (8 * i)) & 255 for i in range(4)] * 4
                    else:
                        raise Unsupported("VMOV arrangement")
                    continue
                sn, arr = vreg(s)
                if arr == ".D[0]" and d in self.R:
                    self.R[d] = sum(self.V[sn][i] << (8 * i) for i in range(8))
                    continue
                raise Unsupported("VMOV %s" % o)
            if base_op == "VEOR":
                a, b, d = (vreg(x) for x in o)
                n = 8 if d[1] == ".B8" else 16
                r = [self.V[a[0]][i] ^ self.V[b[0]][i] for i in range(n)] + [0] * (16 - n)
                self.V[d[0]] = r
                continue
            if base_op in ("VORR", "VAND", "VCMEQ"):
                a, b, d = (vreg(x)[0] for x in o)
                f = {"VORR": lambda x, y: x | y, "VAND": lambda x, y: x & y, "VCMEQ": lambda x, y: 255 if x == y else 0}[base_op]
                self.V[d] = [f(self.V[a][i], self.V[b][i]) for i in range(16)]
                continue
            if base_op == "VLD1":
                m = re.match(r"^\((R\d+)\)$", o[0])
                regs = re.findall(r"V\d+", o[1])
                if not m or not post or len(regs) != 2:
                    raise Unsupported("VLD1 form")
                b = self.load(self.R[m.group(1)], 32)
                self.V[regs[0]], self.V[regs[1]] = b[:16], b[16:]
                self.R[m.group(1)] = (self.R[m.group(1)] + 32) & M64
                continue
            if base_op == "VADDP":
                arr = vreg(o[2])[1]
                mm, nn, d = (vreg(x)[0] for x in o)
                cat = self.V[nn] + self.V[mm]
                if arr == ".D2":
                    q = [sum(cat[8 * j + i] << (8 * i) for i in range(8)) for j in range(4)]
                    r = [(q[0] + q[1]) & M64, (q[2] + q[3]) & M64]
                    self.V[d] = [(r[j] >> (8 * i)) & 255 for j in range(2) for i in range(8)]
                else:
                    self.V[d] = [(cat[2 * i] + cat[2 * i + 1]) & 255 for i in range(16)]
                continue
            if base_op == "VUADDLV":
                s, d = vreg(o[0])[0], vreg(o[1])[0]
                t16 = sum(self.V[s]) & 0xFFFF
                self.V[d] = [t16 & 255, t16 >> 8] + [0] * 14
                continue
            if base_op == "VADD":
                s, d = vreg(o[0])[0], vreg(o[1])[0]
                x = sum(self.V[s][i] << (8 * i) for i in range(8))
                y = sum(self.V[d][i] << (8 * i) for i in range(8))
                r = (x + y) & M64
                self.V[d] = [(r >> (8 * i)) & 255 for i in range(8)] + [0] * 8
                continue
            raise Unsupported("instruction %s %s" % (op, ", ".join(o)))


def is_letter(c):
    return (65 <= c <= 90) or (97 <= c <= 122)


def definition(kind, data, c):
    if kind == "count":
        return sum(1 for b in data if ((b | 32) == (c | 32) if is_letter(c) else b == c))
    if kind == "index_byte":
        for i, b in enumerate(data):
            if ((b | 32) == (c | 32)) if is_letter(c) else b == c:
                return i
        return M64
    for i, b in enumerate(data):
        if b >= 128:
            return i
    return M64


KINDS = {"count": ("CountString", "Count"), "index_byte": ("IndexByteString", "IndexByte"), "index_non_ascii": ("IndexNonASCII", "IndexByteNonASCII")}


def kind_of(texts):
    for k, (a, b) in KINDS.items():
        if a in texts and b in texts:
            return k
    raise Unsupported("no known entry points in this file")


def call(texts, data, c, align, entry, junk=0):
    return Machine(texts, bytes(data), 0x10000 + align, c, junk=junk).run(entry)


def sweep(path, quick=False):
    texts = parse(path)
    kind = kind_of(texts)
    bad, runs = [], 0
    pats = [lambda i, n: 65, lambda i, n: 97, lambda i, n: (65, 97, 46, 0xe1)[i % 4], lambda i, n: 32 + (i * 7) % 95,
            lambda i, n: 0x41 if i == n - 1 else 0x2e, lambda i, n: 0xc3 if i == n - 1 else 0x2e, lambda i, n: 0x2e]
    needles = (97, 65, 46, 0xe1) if kind != "index_non_ascii" else (0,)
    lengths = list(range(0, 70)) + [95, 96, 97, 127, 128, 129, 200]
    if quick:
        needles = needles[:1] + needles[2:3]
        lengths = list(range(0, 36)) + [47, 48, 63, 64, 65, 66, 96, 97, 129]
    for n in lengths:
        for align in range(32):
            for p in pats:
                data = bytes(p(i, n) for i in range(n))
                for c in needles:
                    for entry in KINDS[kind]:
                        junks = (0,) if kind == "count" else (0, c if kind == "index_byte" else 0xff, (c ^ 32) & 255)
                        for junk in (junks[1:2] or junks) if quick else junks:
                            runs += 1
                            try:
                                got = call(texts, data, c, align, entry, junk)
                            except OutOfBounds as e:
                                got = "fault: %s" % e
                            want = definition(kind, data, c)
                            if got != want:
                                bad.append({"entry": entry, "s": data.hex(), "c": c, "align": align, "junk": junk,
                                            "kernel": got if isinstance(got, str) else (got if got < (1 << 63) else got - (1 << 64)),
                                            "definition": want if want < (1 << 63) else want - (1 << 64)})
                                if len(bad) >= 5:
                                    return runs, bad
    return runs, bad


if __name__ == "__main__":
    if len(sys.argv) == 2 or (len(sys.argv) == 3 and sys.argv[2] == "--quick"):
        try:
            runs, bad = sweep(sys.argv[1], quick=len(sys.argv) == 3)
        except Unsupported as e:
            print("UNSUPPORTED %s" % e)
            sys.exit(3)
        except Exception as e:  # a construct the parser or the interpreter does not know: no verdict
            print("UNSUPPORTED (interpreter error) %r" % e)
            sys.exit(3)
        for b in bad:
            print("MISMATCH %s(s=%s, c=%d) with the data at address = %d mod 32: kernel %s, definition %s (bytes around the argument: %d)"
                  % (b["entry"], b["s"], b["c"], b["align"], b["kernel"], b["definition"], b["junk"]))
        print("runs=%d mismatches=%d" % (runs, len(bad)))
        sys.exit(1 if bad else 0)
    texts = parse(sys.argv[1])
    kind = kind_of(texts)
    data = bytes.fromhex(sys.argv[2])
    c, align = int(sys.argv[3]), int(sys.argv[4])
    entry = sys.argv[5] if len(sys.argv) > 5 else KINDS[kind][0]
    got = call(texts, data, c, align, entry, int(sys.argv[6]) if len(sys.argv) > 6 else 0)
    want = definition(kind, data, c)
    sg = lambda x: x if x < (1 << 63) else x - (1 << 64)
    print("kernel=%s definition=%d" % (sg(got), sg(want)))
