#!/usr/bin/env python3
"""arm64sim — a small interpreter for the subset of Go's arm64 assembly that internal/bytealg/count_*_arm64.s uses.

The sandbox has no arm64 processor and no emulator, so the arm64 kernels cannot be executed; this interpreter runs the
TEXT of the .s file (parsed on every run from /repo's working tree) instruction by instruction and compares what the
Count / CountString entry points return with the kernel's scalar definition, over lengths x alignments x contents.
It is a SEARCH for a failing input (bounded, trusted only as far as its ~30 instruction semantics go), not a proof:
the arm64 assembly is outside the Coq development (DESIGN section 8).

  arm64sim.py <file.s>            sweep; prints one line per disagreement (at most 5) and a summary; exit 1 if any
  arm64sim.py <file.s> <hex s> <c> <align>   one run, prints the result of CountString and the definition
"""
import re, sys

M64 = (1 << 64) - 1


class Unsupported(Exception):
    pass


def parse(path):
    """-> {text name: [(label or None, op, [operands])...]} ; labels resolved per TEXT"""
    texts, cur, pending = {}, None, None
    for raw in open(path):
        line = raw.split("//")[0].rstrip()
        if not line.strip() or line.startswith("#"):
            continue
        m = re.match(r"TEXT\s+([^\s(,]+)\(SB\)", line.strip())
        if m:
            cur = m.group(1).replace("·", "").replace("<>", "")
            texts[cur] = {"ins": [], "labels": {}}
            continue
        if cur is None:
            continue
        s = line.strip()
        m = re.match(r"^([A-Za-z_][A-Za-z0-9_]*):$", s)
        if m:
            texts[cur]["labels"][m.group(1)] = len(texts[cur]["ins"])
            continue
        parts = s.split(None, 1)
        op = parts[0]
        ops = []
        if len(parts) > 1:
            depth, tok = 0, ""
            for ch in parts[1]:
                if ch in "([":
                    depth += 1
                if ch in ")]":
                    depth -= 1
                if ch == "," and depth == 0:
                    ops.append(tok.strip())
                    tok = ""
                else:
                    tok += ch
            if tok.strip():
                ops.append(tok.strip())
        texts[cur]["ins"].append((op, ops))
    return texts


class Machine:
    def __init__(self, texts, data, base, c, slot=0x7000):
        self.texts = texts
        self.R = {"R%d" % i: 0 for i in range(31)}
        self.V = {"V%d" % i: [0] * 16 for i in range(32)}
        self.data, self.base, self.slot = data, base, slot
        self.args = {"base": base, "len": len(data), "c": c}
        self.result = None
        self.flags = None  # (a, b, kind): kind 'cmp64' / 'cmp32' / 'logic'
        self.steps = 0

    def load(self, addr, n):
        off = addr - self.base
        if off < 0 or off + n > len(self.data):
            raise Unsupported("read outside the argument: %d bytes at offset %d of %d" % (n, off, len(self.data)))
        return list(self.data[off:off + n])

    def val(self, o):
        if o.startswith("$"):
            return int(o[1:], 0) & M64
        if o in self.R:
            return self.R[o]
        if o == "ZR":
            return 0
        raise Unsupported("operand " + o)

    def cond(self, cc):
        a, b, kind = self.flags
        if kind == "logic":
            z = a == 0
            return {"EQ": z, "NE": not z}[cc]
        bits = 64 if kind == "cmp64" else 32
        mask = (1 << bits) - 1
        a &= mask
        b &= mask
        return {"EQ": a == b, "NE": a != b, "LO": a < b, "LS": a <= b, "HI": a > b, "HS": a >= b}[cc]

    def run(self, entry):
        name, pc = entry, 0
        while True:
            self.steps += 1
            if self.steps > 200000:
                raise Unsupported("step limit")
            t = self.texts[name]
            if pc >= len(t["ins"]):
                raise Unsupported("fell off the end of " + name)
            op, o = t["ins"][pc]
            pc += 1
            base_op = op.split(".")[0]
            post = op.endswith(".P")

            def jump(target):
                nonlocal name, pc
                m = re.match(r"^([A-Za-z_][A-Za-z0-9_]*)(<>)?\(SB\)$", target)
                if m:
                    name, pc = m.group(1), 0
                else:
                    pc = t["labels"][target]

            if base_op == "PCALIGN":
                continue
            if base_op in ("MOVD", "MOVBU", "MOVWU") and len(o) == 2:
                src, dst = o
                m = re.match(r"^\$?([a-z_]+)\+(\d+)\(FP\)$", src)
                if m:
                    nm = m.group(1)
                    if src.startswith("$"):
                        self.R[dst] = self.slot
                    elif nm.endswith("_base"):
                        self.R[dst] = self.args["base"]
                    elif nm.endswith("_len"):
                        self.R[dst] = self.args["len"]
                    elif nm == "c":
                        self.R[dst] = self.args["c"]
                    else:
                        raise Unsupported("frame operand " + src)
                    continue
                m = re.match(r"^(\d*)\((R\d+)\)$", src)
                if m and base_op == "MOVBU":
                    inc = int(m.group(1) or 0)
                    if post:
                        self.R[dst] = self.load(self.R[m.group(2)], 1)[0]
                        self.R[m.group(2)] = (self.R[m.group(2)] + inc) & M64
                    else:
                        self.R[dst] = self.load(self.R[m.group(2)] + inc, 1)[0]
                    continue
                m = re.match(r"^\((R\d+)\)$", dst)
                if m and base_op == "MOVD":
                    if self.R[m.group(1)] != self.slot:
                        raise Unsupported("store outside the result slot")
                    self.result = self.val(src)
                    continue
                if dst in self.R:
                    self.R[dst] = self.val(src)
                    continue
                raise Unsupported("%s %s" % (op, o))
            if base_op in ("ADD", "SUB", "ORR", "AND", "BIC", "ANDS", "EOR"):
                if len(o) == 2:
                    a, d = o
                    x = self.val(d)
                else:
                    a, b, d = o
                    x = self.val(b)
                y = self.val(a)
                r = {"ADD": x + y, "SUB": x - y, "ORR": x | y, "AND": x & y, "ANDS": x & y, "BIC": x & ~y, "EOR": x ^ y}[base_op] & M64
                self.R[d] = r
                if base_op == "ANDS":
                    self.flags = (r, 0, "logic")
                continue
            if base_op in ("CMP", "CMPW"):
                self.flags = (self.val(o[1]), self.val(o[0]), "cmp64" if base_op == "CMP" else "cmp32")
                continue
            if base_op == "CINC":
                cc, s, d = o
                self.R[d] = (self.val(s) + (1 if self.cond(cc) else 0)) & M64
                continue
            if base_op in ("CBZ", "CBNZ"):
                z = self.val(o[0]) == 0
                if z == (base_op == "CBZ"):
                    jump(o[1])
                continue
            if base_op == "B":
                jump(o[0])
                continue
            if base_op in ("BEQ", "BNE", "BLO", "BLS", "BHI", "BHS"):
                if self.cond(base_op[1:]):
                    jump(o[0])
                continue
            if base_op == "RET":
                return self.result
            # ---- vectors (16 byte lanes) ----
            def vreg(x):
                m = re.match(r"^(V\d+)(\.B16|\.B8|\.D\[0\])?$", x)
                if not m:
                    raise Unsupported("vector operand " + x)
                return m.group(1), m.group(2)
            if base_op == "VMOVQ":
                lo, hi, d = o
                v = (int(lo[1:], 0) | (int(hi[1:], 0) << 64))
                self.V[vreg(d)[0]] = [(v >> (8 * i)) & 255 for i in range(16)]
                continue
            if base_op == "VMOV":
                s, d = o
                if s in self.R:
                    dn, arr = vreg(d)
                    if arr != ".B16":
                        raise Unsupported("VMOV arrangement")
                    self.V[dn] = [self.R[s] & 255] * 16
                    continue
                sn, arr = vreg(s)
                if arr == ".D[0]" and d in self.R:
                    self.R[d] = sum(self.V[sn][i] << (8 * i) for i in range(8))
                    continue
                raise Unsupported("VMOV %s" % o)
            if base_op == "VEOR":
                a, b, d = (vreg(x) for x in o)
                n = 8 if d[1] == ".B8" else 16
                r = [self.V[a[0]][i] ^ self.V[b[0]][i] for i in range(n)] + [0] * (16 - n)
                self.V[d[0]] = r
                continue
            if base_op in ("VORR", "VAND", "VCMEQ"):
                a, b, d = (vreg(x)[0] for x in o)
                f = {"VORR": lambda x, y: x | y, "VAND": lambda x, y: x & y, "VCMEQ": lambda x, y: 255 if x == y else 0}[base_op]
                self.V[d] = [f(self.V[a][i], self.V[b][i]) for i in range(16)]
                continue
            if base_op == "VLD1":
                m = re.match(r"^\((R\d+)\)$", o[0])
                regs = re.findall(r"V\d+", o[1])
                if not m or not post or len(regs) != 2:
                    raise Unsupported("VLD1 form")
                b = self.load(self.R[m.group(1)], 32)
                self.V[regs[0]], self.V[regs[1]] = b[:16], b[16:]
                self.R[m.group(1)] = (self.R[m.group(1)] + 32) & M64
                continue
            if base_op == "VADDP":
                mm, nn, d = (vreg(x)[0] for x in o)
                cat = self.V[nn] + self.V[mm]
                self.V[d] = [(cat[2 * i] + cat[2 * i + 1]) & 255 for i in range(16)]
                continue
            if base_op == "VUADDLV":
                s, d = vreg(o[0])[0], vreg(o[1])[0]
                t16 = sum(self.V[s]) & 0xFFFF
                self.V[d] = [t16 & 255, t16 >> 8] + [0] * 14
                continue
            if base_op == "VADD":
                s, d = vreg(o[0])[0], vreg(o[1])[0]
                x = sum(self.V[s][i] << (8 * i) for i in range(8))
                y = sum(self.V[d][i] << (8 * i) for i in range(8))
                r = (x + y) & M64
                self.V[d] = [(r >> (8 * i)) & 255 for i in range(8)] + [0] * 8
                continue
            raise Unsupported("instruction %s %s" % (op, ", ".join(o)))


def definition(data, c):
    letter = (65 <= c <= 90) or (97 <= c <= 122)
    if letter:
        return sum(1 for b in data if (b | 32) == (c | 32))
    return sum(1 for b in data if b == c)


def count(texts, data, c, align, entry="CountString"):
    base = 0x10000 + align
    return Machine(texts, bytes(data), base, c).run(entry)


def sweep(path):
    texts = parse(path)
    bad, runs = [], 0
    pats = [lambda i: 65, lambda i: 97, lambda i: (65, 97, 46, 0x61 ^ 0x80)[i % 4], lambda i: 32 + (i * 7) % 95]
    for n in list(range(0, 70)) + [95, 96, 97, 127, 128, 129, 200]:
        for align in range(32):
            for pi, p in enumerate(pats):
                data = bytes(p(i) for i in range(n))
                for c in (97, 65, 46, 0x41 ^ 0x20 ^ 0x80):
                    for entry in ("CountString", "Count"):
                        runs += 1
                        got = count(texts, data, c, align, entry)
                        want = definition(data, c)
                        if got != want:
                            bad.append({"entry": entry, "s": data.hex(), "c": c, "align": align, "kernel": got, "definition": want})
                            if len(bad) >= 5:
                                return runs, bad
    return runs, bad


if __name__ == "__main__":
    if len(sys.argv) == 2:
        try:
            runs, bad = sweep(sys.argv[1])
        except Unsupported as e:
            print("UNSUPPORTED %s" % e)
            sys.exit(3)
        for b in bad:
            print("MISMATCH %s(s=%s, c=%d) with the data at address = %d mod 32: kernel %d, definition %d"
                  % (b["entry"], b["s"], b["c"], b["align"], b["kernel"], b["definition"]))
        print("runs=%d mismatches=%d" % (runs, len(bad)))
        sys.exit(1 if bad else 0)
    texts = parse(sys.argv[1])
    data = bytes.fromhex(sys.argv[2])
    c, align = int(sys.argv[3]), int(sys.argv[4])
    print("kernel=%s definition=%d" % (count(texts, data, c, align), definition(data, c)))
