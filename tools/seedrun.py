#!/usr/bin/env python3
"""seedrun — validate a candidate breaking change and run the checks against it in isolation.

  seedrun.py validate <cand_dir> <seed_id> <property>     # confirm (a)(b)(demo), store under /verif/seeded/<seed_id>/
  seedrun.py detect <seed_id> [--props C01,C17|all] [--tier quick]
  seedrun.py matrix                                        # print the detection table from seeded/*/meta.json

Isolation: every run uses a scratch git worktree of /repo (patch applied there) and an rsync'd
copy of /verif whose harness go.mod points at that worktree (VERIF_REPO); /repo itself is never
modified.  Scratch directories live under /tmp/seedrun/<seed_id>/ and are removed afterwards.
"""
import sys, os, json, subprocess, shutil, re, time

VERIF = os.path.dirname(os.path.dirname(os.path.abspath(__file__)))
SEEDED = os.path.join(VERIF, "seeded")
ENV = dict(os.environ, GOFLAGS="-mod=mod", GOPROXY="off", GOSUMDB="off", GOTOOLCHAIN="local")
PKGDIR = {"strcase_test": ".", "strcase": ".", "bytcase_test": "bytcase", "bytcase": "bytcase",
          "bytealg": "internal/bytealg", "bytealg_test": "internal/bytealg",
          "tables": "internal/tables", "tables_test": "internal/tables"}


def sh(cmd, cwd=None, timeout=1800, env=None):
    p = subprocess.run(cmd, cwd=cwd, env=env or ENV, stdout=subprocess.PIPE, stderr=subprocess.STDOUT,
                       timeout=timeout, shell=isinstance(cmd, str))
    return p.returncode, p.stdout.decode("utf-8", "replace")


def worktree(path):
    if os.path.exists(path):
        sh(["git", "-C", "/repo", "worktree", "remove", "--force", path])
        shutil.rmtree(path, ignore_errors=True)
    os.makedirs(os.path.dirname(path), exist_ok=True)
    rc, out = sh(["git", "-C", "/repo", "worktree", "add", "--detach", path, "HEAD"])
    if rc != 0:
        raise SystemExit("worktree add failed: " + out)


def drop_worktree(path):
    sh(["git", "-C", "/repo", "worktree", "remove", "--force", path])
    shutil.rmtree(path, ignore_errors=True)
    sh(["git", "-C", "/repo", "worktree", "prune"])


def demo_target(demo_path):
    src = open(demo_path).read()
    m = re.search(r'^package\s+(\w+)', src, re.M)
    return PKGDIR.get(m.group(1) if m else "", ".")


def run_demo(wt, demo_path):
    d = demo_target(demo_path)
    dst = os.path.join(wt, d, "zz_seed_demo_test.go")
    shutil.copy(demo_path, dst)
    try:
        # SEED_DEMO_ENV="GOARCH=386": the configuration the demo needs (recorded in meta.json as demo_env)
        envs = " ".join(os.environ.get("SEED_DEMO_ENV", "").split())
        # SEED_DEMO_ARGS: extra `go test` arguments the configuration needs (e.g. -exec=<wasm runner>)
        extra = os.environ.get("SEED_DEMO_ARGS", "")
        rc, out = sh("%s go test -vet=off -count=1 %s -run TestDemo ." % (envs, extra), cwd=os.path.join(wt, d), timeout=900)
    finally:
        os.remove(dst)
    return rc, out


def validate(cand, sid, prop):
    wt = "/tmp/seedrun/%s/repo" % sid
    worktree(wt)
    res = {"id": sid, "property": prop, "validated": False}
    try:
        patch = os.path.join(cand, "patch.diff")
        demo = os.path.join(cand, "demo_test.go")
        rc0, out0 = run_demo(wt, demo)
        res["demo_on_clean_tree"] = "pass" if rc0 == 0 else "FAIL"
        rc, out = sh(["git", "-C", wt, "apply", patch])
        if rc != 0:
            res["error"] = "patch does not apply: " + out[-500:]
            return res
        rc, out = sh("go build ./... && go vet ./... >/dev/null 2>&1; go test -vet=off -count=1 -timeout 25m ./...", cwd=wt)
        res["suite_with_change"] = "pass" if rc == 0 else "FAIL"
        res["suite_tail"] = out[-400:]
        rc1, out1 = run_demo(wt, demo)
        res["demo_with_change"] = "fail" if rc1 != 0 else "PASS(unexpected)"
        res["demo_output_tail"] = out1[-800:]
        rc, files = sh(["git", "-C", wt, "diff", "--stat"])
        res["diffstat"] = files.strip().splitlines()[-1] if files.strip() else ""
        res["validated"] = (rc0 == 0 and res["suite_with_change"] == "pass" and rc1 != 0)
    finally:
        drop_worktree(wt)
        shutil.rmtree("/tmp/seedrun/%s" % sid, ignore_errors=True)
    if res["validated"]:
        d = os.path.join(SEEDED, sid)
        os.makedirs(d, exist_ok=True)
        shutil.copy(os.path.join(cand, "patch.diff"), d)
        shutil.copy(os.path.join(cand, "demo_test.go"), d)
        notes = os.path.join(cand, "NOTES.md")
        needs = ""
        if os.path.exists(notes):
            shutil.copy(notes, d)
            needs = open(notes).read()[:1500]
        meta = {"id": sid, "breaks_property": prop, "source": "independent sub-agent given only the property text",
                "needs_to_manifest": needs, "files_changed": res.get("diffstat"),
                "confirmed": {"demo_on_clean_tree": res["demo_on_clean_tree"], "suite_with_change": res["suite_with_change"],
                              "demo_with_change": res["demo_with_change"],
                              "how": "scratch worktree of /repo HEAD: demo passes; git apply patch.diff; go build ./... && "
                                     "go test -vet=off -count=1 ./... passes; demo fails; worktree removed"},
                "demo_dir": demo_target(os.path.join(cand, "demo_test.go")), "detection": {}}
        if os.environ.get("SEED_DEMO_ENV"):
            meta["demo_env"] = os.environ["SEED_DEMO_ENV"]
        if os.environ.get("SEED_DEMO_ARGS"):
            meta["demo_args"] = os.environ["SEED_DEMO_ARGS"]
        mp = os.path.join(d, "meta.json")
        if os.path.exists(mp):
            old = json.load(open(mp))
            meta["detection"] = old.get("detection", {})
        json.dump(meta, open(mp, "w"), indent=1, ensure_ascii=False)
    return res


def detect(sid, props, tier):
    d = os.path.join(SEEDED, sid)
    meta = json.load(open(os.path.join(d, "meta.json")))
    base = "/tmp/seedrun/%s" % sid
    wt = base + "/repo"
    vc = base + "/verif"
    worktree(wt)
    try:
        rc, out = sh(["git", "-C", wt, "apply", os.path.join(d, "patch.diff")])
        if rc != 0:
            raise SystemExit("patch does not apply: " + out)
        os.makedirs(vc, exist_ok=True)
        src = os.environ.get("SEED_VERIF_SRC", VERIF)   # a frozen copy of /verif can be used while /verif is being edited
        sh(["rsync", "-a", "--delete", "--exclude", ".git", "--exclude", "build/run", "--exclude", "seeded",
            src + "/", vc + "/"])
        gm = os.path.join(vc, "harness", "go.mod")
        body = open(gm).read().replace("=> /repo", "=> " + wt)
        open(gm, "w").write(body)
        env = dict(ENV, VERIF_REPO=wt, VERIF_TIER=tier, VERIF_SEED=os.environ.get("VERIF_SEED", "1"))
        if props == ["all"]:
            props = ["C%02d" % i for i in range(1, 21)]
        for p in props:
            t0 = time.time()
            rc, out = sh(["./check", p, "--tier", tier], cwd=vc, env=env, timeout=3600)
            viol = [l for l in out.splitlines() if l.startswith("VIOLATION") or l.startswith("KNOWN-FINDING")]
            detail = ""
            m = re.search(r'replay=(\S+)', viol[0]) if viol else None
            if m and os.path.exists(m.group(1)):
                try:
                    rb = json.load(open(m.group(1)))
                    v = rb.get("violation", {})
                    detail = ("%s | %s | %s" % (v.get("kind"), v.get("case") or v.get("fn"), str(v.get("detail"))[:200]))[:400]
                except Exception:
                    pass
            meta["detection"][p + ":" + tier] = {"exit": rc, "line": (viol[0].replace(vc, "/verif") if viol else ""),
                                                 "what": detail, "seconds": round(time.time() - t0, 1),
                                                 "stderr_tail": "" if rc in (0, 1) else out[-600:]}
            print(sid, p, tier, "exit", rc, (viol[0].replace(vc, "/verif") if viol else ""), "|", detail[:160], flush=True)
        json.dump(meta, open(os.path.join(d, "meta.json"), "w"), indent=1, ensure_ascii=False)
    finally:
        drop_worktree(wt)
        shutil.rmtree(base, ignore_errors=True)


def matrix():
    rows = []
    for sid in sorted(os.listdir(SEEDED)):
        mp = os.path.join(SEEDED, sid, "meta.json")
        if not os.path.exists(mp):
            continue
        m = json.load(open(mp))
        det = m.get("detection", {})
        caught = sorted(k for k, v in det.items() if v.get("exit") == 1)
        missed = sorted(k for k, v in det.items() if v.get("exit") == 0)
        infra = sorted(k for k, v in det.items() if v.get("exit") not in (0, 1))
        rows.append((sid, m.get("breaks_property"), m.get("files_changed", ""), caught, missed, infra))
    for r in rows:
        print("%-10s %-4s caught=%s missed=%s infra=%s" % (r[0], r[1], ",".join(r[3]), ",".join(r[4]), ",".join(r[5])))


def matrix_md():
    """markdown table of seeded/*/meta.json; written between the matrix markers of DESIGN.md"""
    lines = ["| change | own | what it changes | caught by (quick) | not noticed by | how its own check reports it |", "|---|---|---|---|---|---|"]
    for sid in sorted(os.listdir(SEEDED)):
        mp = os.path.join(SEEDED, sid, "meta.json")
        if not os.path.exists(mp):
            continue
        m = json.load(open(mp))
        det = m.get("detection", {})
        own = m.get("breaks_property")
        caught = sorted(k.split(":")[0] for k, v in det.items() if v.get("exit") == 1 and k.endswith(":quick"))
        missed = sorted(k.split(":")[0] for k, v in det.items() if v.get("exit") == 0 and k.endswith(":quick"))
        o = det.get(own + ":quick", {})
        how = (o.get("what") or "").replace("|", "/").replace("\n", " ").replace("\t", " ")[:110]
        if o.get("line", "").endswith("no-failing-input-found"):
            how = "no-failing-input-found: " + how
        files = (m.get("files_changed") or "").strip()
        note = (m.get("needs_to_manifest") or "").strip().splitlines()
        title = next((l.strip("# ").strip() for l in note if l.strip()), "")[:90].replace("|", "/")
        lines.append("| %s | %s | %s | %s | %s | %s |" % (sid, own, title or files, " ".join(caught) or "—",
                                                      (" ".join(missed) if len(missed) < 19 else "all others") or ("—" if len(det) > 1 else "(only own check run)"), how))
    return "\n".join(lines)


def write_design():
    p = os.path.join(VERIF, "DESIGN.md")
    s = open(p).read()
    b, e = "<!-- matrix:begin -->", "<!-- matrix:end -->"
    if b not in s:
        s = s.replace("MATRIX_PLACEHOLDER", b + "\n" + e)
    i, j = s.index(b) + len(b), s.index(e)
    s = s[:i] + "\n" + matrix_md() + "\n" + s[j:]
    open(p, "w").write(s)


if __name__ == "__main__":
    a = sys.argv[1:]
    if not a:
        print(__doc__)
        sys.exit(2)
    if a[0] == "validate":
        r = validate(a[1], a[2], a[3])
        print(json.dumps({k: v for k, v in r.items() if k not in ("suite_tail", "demo_output_tail")}))
        sys.exit(0 if r["validated"] else 1)
    if a[0] == "detect":
        props = ["all"]
        tier = "quick"
        if "--props" in a:
            props = a[a.index("--props") + 1].split(",")
        if "--tier" in a:
            tier = a[a.index("--tier") + 1]
        detect(a[1], props, tier)
    if a[0] == "matrix":
        if "--design" in a:
            write_design()
        elif "--md" in a:
            print(matrix_md())
        else:
            matrix()
