#!/bin/bash
# Statement coverage of /repo's packages by the correspondence corpus (the inputs on which model and code are
# compared): builds the harness with -cover for the library's packages, runs every property's quick corpus,
# and lists the statements no run reached.  A measurement of the tie, not a check; scratch files under /tmp.
set -e
export GOFLAGS=-mod=mod GOPROXY=off GOSUMDB=off GOTOOLCHAIN=local
W=$(mktemp -d /tmp/verifcov.XXXXXX); trap 'rm -rf "$W"' EXIT
cd "$(dirname "$0")/../harness"
cp /repo/go.sum . 2>/dev/null || true
PK=github.com/charlievieth/strcase/...,verifharness
go build -cover -coverpkg=$PK -tags verif,verif_internals -o $W/h .
GOARCH=386 go build -cover -coverpkg=$PK -tags verif,verif_internals -o $W/h386 .
mkdir -p $W/amd64 $W/386 $W/nopopcnt $W/run
for p in C01 C02 C03 C04 C05 C06 C07 C08 C09 C10 C11 C12 C13 C14 C15 C16 C17 C18 C19 C20; do
  mkdir -p $W/run/$p; GOCOVERDIR=$W/amd64 $W/h -prop $p -seed ${VERIF_SEED:-1} -tier quick -out $W/run/$p >/dev/null 2>&1 || true
done
for p in C13 C14 C10 C01; do GOCOVERDIR=$W/386 $W/h386 -prop $p -seed 1 -tier quick -out $W/run/$p >/dev/null 2>&1 || true; done
GODEBUG=cpu.popcnt=off GOCOVERDIR=$W/nopopcnt $W/h -prop C14 -seed 1 -tier quick -out $W/run/C14 >/dev/null 2>&1 || true
for d in amd64 386 nopopcnt; do echo "== $d"; go tool covdata percent -i=$W/$d | grep -v verifharness; done
echo "== statements of strcase.go / bytcase.go / tables reached by no amd64 run"
go tool covdata textfmt -i=$W/amd64 -o $W/cov.txt
grep -E "strcase/(strcase|bytcase/bytcase|internal/tables/[a-z0-9_]+)\.go" $W/cov.txt | awk '$NF==0 {print $1}' | sed 's#github.com/charlievieth/strcase/##'
