# gdb script of the instruction-set probe (lib/isaprobe.py): breakpoints on every VEX-encoded (AVX/AVX2)
# instruction of the byte-search kernels; a hit is reported with the call chain and does not stop the program.
#   ISA_RANGES : file with "<first address> <last address> <symbol>" per line (the assembly bodies to watch);
#                the instructions are found with gdb's own disassembler (mnemonic starting with one
#                of ISA_PREFIXES: "v" = VEX-encoded, AVX/AVX2; "popcnt")
# Output lines:  "ISABP\t<address>\t<symbol>\t<instruction>"  for every breakpoint set
#                "ISAHIT\t<address>\t<instruction>\t<frame0> <- <frame1> <- ..."
import os
import gdb

gdb.execute("set confirm off")
gdb.execute("set pagination off")
gdb.execute("set print thread-events off")
gdb.execute("handle SIGURG nostop noprint pass")


class Probe(gdb.Breakpoint):
    def stop(self):
        frames = []
        f = gdb.newest_frame()
        n = 0
        while f is not None and n < 8:
            try:
                frames.append(f.name() or hex(f.pc()))
                f = f.older()
            except gdb.error:
                break
            n += 1
        try:
            insn = gdb.execute("x/i $pc", to_string=True).strip().replace("\t", " ")
        except gdb.error:
            insn = "?"
        gdb.write("ISAHIT\t%s\t%s\t%s\n" % (self.location, insn, " <- ".join(frames)))
        gdb.flush()
        self.enabled = False  # one report per instruction
        return False


prefixes = tuple(os.environ.get("ISA_PREFIXES", "v").split(","))
arch = gdb.selected_inferior().architecture()
for line in open(os.environ["ISA_RANGES"]).read().split("\n"):
    f = line.split()
    if len(f) < 3:
        continue
    for ins in arch.disassemble(int(f[0], 16), int(f[1], 16)):
        asm = ins["asm"].strip()
        if asm.startswith(prefixes):
            Probe("*0x%x" % ins["addr"], internal=True)
            gdb.write("ISABP\t0x%x\t%s\t%s\n" % (ins["addr"], f[2], asm.replace("\t", " ")))
gdb.flush()
gdb.execute("run")
