(* FoldFacts2.v — lifting lemmas over an abstract table record T and oracle
   map R: everything that follows from the finite boolean checks (evaluated
   by vm_compute in FoldFacts121.v over the regenerated data) is proved here
   once, generically, so that no proof term ever has to be re-checked against
   the concrete 8192-slot tables. *)
From Strcase Require Import Base Utf8 Fold FoldFacts.
From Coq Require Import FMapPositive ZifyBool ZifyNat.

Fixpoint take_nz (l : list Z) : list Z :=
  match l with [] => [] | x :: r => if x =? 0 then [] else x :: take_nz r end.

Lemma take_nz_in x l : In x (take_nz l) -> In x l /\ x <> 0.
Proof.
  induction l as [|y l IH]; cbn [take_nz]; [intros []|].
  destruct (y =? 0) eqn:E; [intros []|]. intros [->|H]; [split; [left; reflexivity|lia]|].
  destruct (IH H). split; [right; assumption|assumption].
Qed.

Lemma int32_of_rune r : 0 <= r <= MaxRune -> int32 r.
Proof. unfold MaxRune, int32. lia. Qed.

Lemma u32_rune r : 0 <= r <= MaxRune -> u32 r = r.
Proof. intros H. apply u32_nonneg. unfold two32, MaxRune in *. lia. Qed.

(* ---- the finite checks (functions of the table record T and the oracle map R) ---- *)

(* code points that must be alone in their orbit: U+FFFD, U+0130, U+0131,
   and no orbit member is a surrogate or out of range *)
Definition chk_singletons (R : rmap) : bool :=
  negb (is_member R 65533) && negb (is_member R 304) && negb (is_member R 305) &&
  forallb (fun px => let m := Zpos (fst px) - 1 in
                     (0 <=? m) && (m <=? 1114111) && negb ((55296 <=? m) && (m <=? 57343))
                     && is_member R (snd px))
          (PositiveMap.elements R).

Definition els (R : rmap) : list (Z * Z) := map (fun px => (Zpos (fst px) - 1, snd px)) (PositiveMap.elements R).

(* F9: fold-equal code points differ in encoded width by at most a factor 3,
   and by more than a factor 2 only for U+212A (vs k/K) *)
Definition chk_width_ratio_on (e : list (Z * Z)) : bool :=
  forallb (fun a => forallb (fun b =>
      if snd a =? snd b then
        (rune_len (fst a) <=? 3 * rune_len (fst b)) &&
        ((rune_len (fst a) <=? 2 * rune_len (fst b)) || (fst a =? 8490))
      else true) e) e.
Definition chk_width_ratio (R : rmap) : bool := chk_width_ratio_on (els R).

(* F7: the candidate set of the single-rune searches *)
Definition cands (T : tables) (r : Z) : list Z :=
  match fold_map T r with
  | Some fs => r :: take_nz fs
  | None => let '(u, l, ok) := to_upper_lower T r in if ok then [l; u] else [r]
  end.

Definition fm_check (T : tables) (P : list Z -> bool) : bool :=
  forallb (fun pe => P (snd pe)) (PositiveMap.elements (fm_map T)).
Definition ul_check (T : tables) (P : Z -> Z -> bool) : bool :=
  forallb (fun pe => match snd pe with [a; b] => P a b | _ => false end) (PositiveMap.elements (ul_map T)).

Definition has_fm (T : tables) (r : Z) : bool := match fold_map T r with Some _ => true | None => false end.

(* every non-zero entry of a stored FoldMap row folds like its key; keys are not 0 *)
Definition chk_fm_sound (T : tables) : bool :=
  fm_check T (fun fs => match fs with
                      | k :: _ => negb (k =? 0) && forallb (fun f => (case_fold T f =? case_fold T k) && (0 <=? f) && (f <? 1114112)) (take_nz fs)
                      | [] => false end).
(* stored (upper, lower) pairs fold alike — unless FoldMap shadows both non-ASCII members
   (U+0130 / U+0131, whose ToUpper/ToLower partners are not fold partners) — and are code points *)
Definition chk_ul_sound (T : tables) : bool :=
  ul_check T (fun a b => ((case_fold T a =? case_fold T b) || (((a <? 128) || has_fm T a) && ((b <? 128) || has_fm T b)))
                       && (0 <? a) && (a <? 1114112) && (0 <? b) && (b <? 1114112)).
(* the special cases of ToUpperLower (titlecase digraphs): either FoldMap covers the rune, or the pair does *)
Definition chk_special_sound (T : tables) : bool :=
  forallb (fun e => let k := fst e in let '(up, lo) := snd e in
             has_fm T k || ((case_fold T up =? case_fold T k) && (case_fold T lo =? case_fold T k) && ((k =? up) || (k =? lo))
                            && (0 <=? up) && (up <? 1114112) && (0 <=? lo) && (lo <? 1114112)))
          (ul_special T).
(* completeness over the oracle: every member of the orbit of m is a candidate *)
Definition chk_cands_complete_on (T : tables) (e : list (Z * Z)) : bool :=
  forallb (fun a => if fst a <? 128 then true else
             let c := cands T (fst a) in
             forallb (fun b => if snd a =? snd b then existsb (Z.eqb (fst b)) c else true) e) e.
Definition chk_cands_complete (T : tables) (R : rmap) : bool := chk_cands_complete_on T (els R).

(* F10: the orbit of an ASCII code point: itself, its other case for letters, and U+212A / U+017F for k / s *)
Definition ascii_cands (r : Z) : list Z :=
  if ((65 <=? r) && (r <=? 90)) || ((97 <=? r) && (r <=? 122)) then
    let l := if (65 <=? r) && (r <=? 90) then r + 32 else r in
    [l; l - 32] ++ (if l =? 107 then [8490] else if l =? 115 then [383] else [])
  else [r].

Fixpoint zrange (n : nat) : list Z :=
  match n with O => [] | S k => zrange k ++ [Z.of_nat k] end.
Lemma zrange_in n b : 0 <= b < Z.of_nat n -> In b (zrange n).
Proof.
  induction n as [|n IH]; intros H; [lia|]. cbn [zrange]. apply in_or_app.
  destruct (Z.eq_dec b (Z.of_nat n)) as [->|E]; [right; left; reflexivity|left; apply IH; lia].
Qed.

Definition chk_ascii_sound (T : tables) : bool :=
  forallb (fun r => forallb (fun x => case_fold T x =? case_fold T r) (ascii_cands r)) (zrange 128).
Definition chk_ascii_complete_on (e : list (Z * Z)) : bool :=
  forallb (fun a => if fst a <? 128 then
             let c := ascii_cands (fst a) in
             forallb (fun b => if snd a =? snd b then existsb (Z.eqb (fst b)) c else true) e
           else true) e.
Definition chk_ascii_complete (R : rmap) : bool := chk_ascii_complete_on (els R).

(* F8: the candidate test Index and bruteForceIndexUnicode apply to the first two code points:
   ToUpperLower(u) (with the U+0130 / U+0131 special case) plus FoldMapExcludingUpperLower(u) *)
Definition ul_hack_of (T : tables) (u : Z) : Z * Z :=
  if (u =? 304) || (u =? 305) then (u, u) else (fst (fst (to_upper_lower T u)), snd (fst (to_upper_lower T u))).
Definition cand2 (T : tables) (u r : Z) : bool :=
  let U := fst (ul_hack_of T u) in let l := snd (ul_hack_of T u) in
  let f := fold_map_excl T u in
  (r =? U) || (r =? l) || (negb (fst f =? 0) && ((r =? fst f) || (r =? snd f))).

Definition fx_check (T : tables) (P : Z -> Z -> Z -> bool) : bool :=
  forallb (fun pe => match snd pe with [k; a; b] => P k a b | _ => false end) (PositiveMap.elements (fx_map T)).

(* stored FoldMapExcludingUpperLower rows: both extra members fold like the key *)
Definition chk_fx_sound (T : tables) : bool :=
  fx_check T (fun k a b => negb (k =? 0) && ((a =? 0) || ((case_fold T a =? case_fold T k) && (case_fold T b =? case_fold T k)))).
(* ToUpperLower for this use: pairs fold alike except where an ASCII letter or U+0130/U+0131 is involved
   (handled by the ASCII branch / the special case), special entries fold like their key *)
Definition chk_ul_sound2 (T : tables) : bool :=
  ul_check T (fun a b => ((case_fold T a =? case_fold T b) ||
                          (((a <? 129) || (a =? 304) || (a =? 305)) && ((b <? 129) || (b =? 304) || (b =? 305))))
                         && (0 <? a) && (a <? 1114112) && (0 <? b) && (b <? 1114112))
  && forallb (fun e => let k := fst e in let '(up, lo) := snd e in
                (case_fold T up =? case_fold T k) && (case_fold T lo =? case_fold T k) && (128 <? k)) (ul_special T)
  && forallb (fun u => (case_fold T (fst (ul_hack_of T u)) =? case_fold T u) && (case_fold T (snd (ul_hack_of T u)) =? case_fold T u)) (zrange 129).
Definition chk_cand2_complete_on (T : tables) (R : rmap) (e : list (Z * Z)) : bool :=
  forallb (fun a =>
             let f := fold_map_excl T (fst a) in
             let c := [fst (ul_hack_of T (fst a)); snd (ul_hack_of T (fst a))] ++ (if fst f =? 0 then [] else [fst f; snd f]) in
             forallb (fun b => if snd a =? snd b then existsb (Z.eqb (fst b)) c else true) e) e
  && forallb (fun e => is_member R (fst e)) (ul_special T).
Definition chk_cand2_complete (T : tables) (R : rmap) : bool := chk_cand2_complete_on T R (els R).
(* the stored ToUpperLower pairs and special entries are scalar values *)
Definition chk_ul_valid (T : tables) : bool :=
  ul_check T (fun a b => valid_rune a && valid_rune b)
  && forallb (fun e => let '(up, lo) := snd e in valid_rune up && valid_rune lo) (ul_special T).

(* the checks are passed around wrapped, so that arithmetic tactics do not try to look inside them *)
Definition holds (b : bool) : Prop := b = true.

Section G2.
Variable T : tables.
Variable R : rmap.
Notation fold := (case_fold T).

(* ---- lifting ---- *)
Hypothesis HR : chk_range T = true.
Hypothesis HP : chk_pairs_in_orbit T R = true.
Hypothesis HM : chk_members_fold T R = true.
Hypothesis HS : holds (chk_singletons R).

Lemma rep_nonmember r : is_member R r = false -> rep R r = r.
Proof.
  unfold is_member, rep. destruct (r <? 0); [reflexivity|].
  destruct (PositiveMap.find _ R); [discriminate|reflexivity].
Qed.

Lemma member_props r :
  is_member R r = true ->
  0 <= r <= 1114111 /\ ~ (55296 <= r <= 57343) /\ is_member R (rep R r) = true.
Proof.
  intros H. pose proof HS as S. unfold holds, chk_singletons in S.
  apply andb_true_iff in S as [_ S]. rewrite forallb_forall in S.
  unfold is_member in H. unfold rep. destruct (r <? 0) eqn:E; [discriminate|].
  destruct (PositiveMap.find (Z.to_pos (r + 1)) R) as [x|] eqn:F; [|discriminate].
  apply PositiveMap.elements_correct in F. specialize (S _ F). cbn [fst snd] in S.
  replace (Z.pos (Z.to_pos (r + 1)) - 1) with r in S by lia. lia.
Qed.

(* a code point outside every listed orbit is equal only to itself *)
Theorem alone_in_orbit r x :
  int32 r -> int32 x -> is_member R r = false -> (fold x = fold r <-> x = r).
Proof.
  intros Hr Hx Hm. rewrite (fold_orbit_exact T R HR HP HM) by assumption. rewrite (rep_nonmember r Hm).
  split; [|intros ->; apply rep_nonmember; exact Hm].
  intros H. destruct (is_member R x) eqn:Mx.
  - apply member_props in Mx as (_ & _ & Mx). rewrite H in Mx. congruence.
  - rewrite rep_nonmember in H by assumption. exact H.
Qed.

Lemma nonmember_outside r : (r < 0 \/ 1114111 < r \/ 55296 <= r <= 57343) -> is_member R r = false.
Proof.
  intros H. destruct (is_member R r) eqn:M; [|reflexivity]. apply member_props in M. lia.
Qed.

Lemma nonmember_special : is_member R 65533 = false /\ is_member R 304 = false /\ is_member R 305 = false.
Proof.
  pose proof HS as S. unfold holds, chk_singletons in S.
  apply andb_true_iff in S as [S _]. apply andb_true_iff in S as [S S3]. apply andb_true_iff in S as [S1 S2].
  repeat split; [destruct (is_member R 65533)|destruct (is_member R 304)|destruct (is_member R 305)]; try reflexivity; discriminate.
Qed.

Theorem rune_error_alone x : int32 x -> (fold x = fold RuneError <-> x = RuneError).
Proof.
  intros Hx. apply alone_in_orbit; [unfold int32, RuneError; lia|exact Hx|apply nonmember_special].
Qed.

Lemma member_in_elements r : is_member R r = true -> In (r, rep R r) (els R).
Proof.
  unfold is_member, rep, els. destruct (r <? 0) eqn:E; [discriminate|].
  destruct (PositiveMap.find (Z.to_pos (r + 1)) R) as [x|] eqn:F; [|discriminate]. intros _.
  apply PositiveMap.elements_correct in F. apply in_map_iff. exists (Z.to_pos (r + 1), x).
  cbn [fst snd]. split; [f_equal; lia|exact F].
Qed.

Hypothesis HW : holds (chk_width_ratio R).

Theorem width_ratio a b :
  0 <= a <= MaxRune -> 0 <= b <= MaxRune -> 1 <= rune_len a -> 1 <= rune_len b ->
  fold a = fold b ->
  rune_len a <= 3 * rune_len b /\ (2 * rune_len b < rune_len a -> a = 8490).
Proof.
  intros Ha Hb La Lb E. apply (fold_orbit_exact T R HR HP HM) in E; [|apply int32_of_rune; assumption|apply int32_of_rune; assumption].
  destruct (is_member R a) eqn:Ma; destruct (is_member R b) eqn:Mb.
  - pose proof HW as C. unfold holds, chk_width_ratio, chk_width_ratio_on in C. rewrite forallb_forall in C.
    specialize (C _ (member_in_elements a Ma)). rewrite forallb_forall in C.
    specialize (C _ (member_in_elements b Mb)). cbn [fst snd] in C. rewrite E, Z.eqb_refl in C. lia.
  - rewrite (rep_nonmember b Mb) in E. apply member_props in Ma as (_ & _ & Ma). rewrite E in Ma. congruence.
  - rewrite (rep_nonmember a Ma) in E. apply member_props in Mb as (_ & _ & Mb). rewrite <- E in Mb. congruence.
  - rewrite (rep_nonmember a Ma), (rep_nonmember b Mb) in E. subst. split; lia.
Qed.

(* ---- candidates ---- *)
Hypothesis HFM : holds (chk_fm_sound T).
Hypothesis HUL : holds (chk_ul_sound T).
Hypothesis HSP : holds (chk_special_sound T).
Hypothesis HC : holds (chk_cands_complete T R).

Lemma fm_check_spec P : holds (fm_check T P) ->
  forall p fs, PositiveMap.find p (fm_map T) = Some fs -> P fs = true.
Proof.
  intros H p fs F. unfold holds, fm_check in H. rewrite forallb_forall in H.
  apply PositiveMap.elements_correct in F. exact (H _ F).
Qed.
Lemma ul_check_spec P : holds (ul_check T P) ->
  forall p a b, PositiveMap.find p (ul_map T) = Some [a; b] -> P a b = true.
Proof.
  intros H p a b F. unfold holds, ul_check in H. rewrite forallb_forall in H.
  apply PositiveMap.elements_correct in F. exact (H _ F).
Qed.

(* structural: a FoldMap hit returns a stored row whose key is r *)
Lemma fold_map_cases r fs :
  0 < r <= MaxRune -> fold_map T r = Some fs ->
  exists p, PositiveMap.find p (fm_map T) = Some fs /\ hd 0 fs = r.
Proof.
  intros Hr. unfold fold_map, slot. rewrite (u32_rune r) by lia.
  destruct (PositiveMap.find _ (fm_map T)) as [v|] eqn:F.
  - destruct v as [|p0 v]; [discriminate|]. destruct (p0 =? r) eqn:E; [|discriminate].
    intros H. inversion H; subst. eexists. split; [exact F|]. cbn. lia.
  - cbn [repeat]. destruct (0 =? r) eqn:E; [lia|discriminate].
Qed.

Lemma assoc_in r (l : list (Z * (Z * Z))) v : assoc r l = Some v -> In (r, v) l.
Proof.
  induction l as [|[k w] l IH]; [discriminate|]. cbn [assoc].
  destruct (k =? r) eqn:E; [intros H; inversion H; subst; left; f_equal; lia|intros H; right; apply IH; exact H].
Qed.

(* what ToUpperLower can return for a non-ASCII code point without a FoldMap row:
   a pair that contains r and folds like r, or (r, r, false) *)
Lemma upper_lower_cases r :
  128 <= r <= MaxRune -> fold_map T r = None ->
  (exists u l, to_upper_lower T r = (u, l, true) /\ (r = u \/ r = l) /\ fold u = fold r /\ fold l = fold r) \/
  to_upper_lower T r = (r, r, false).
Proof.
  intros Hr FM. unfold to_upper_lower. replace (r <=? 128) with (r =? 128) by lia.
  destruct (r =? 128) eqn:E128.
  { replace ((65 <=? r) && (r <=? 90)) with false by lia. replace ((97 <=? r) && (r <=? 122)) with false by lia.
    right. reflexivity. }
  rewrite (u32_rune r) by lia. unfold slot.
  assert (Hsp : forall up lo, assoc r (ul_special T) = Some (up, lo) ->
            (r = up \/ r = lo) /\ fold up = fold r /\ fold lo = fold r).
  { intros up lo A. pose proof HSP as S. unfold holds, chk_special_sound in S. rewrite forallb_forall in S.
    specialize (S _ (assoc_in _ _ _ A)). cbn [fst snd] in S. unfold has_fm in S. rewrite FM in S. lia. }
  assert (Hnohit : match assoc r (ul_special T) with
                   | Some (up, lo) => (up, lo, true)
                   | None => (r, r, false) end = (r, r, false) \/
           exists u l, match assoc r (ul_special T) with
                   | Some (up, lo) => (up, lo, true)
                   | None => (r, r, false) end = (u, l, true) /\ (r = u \/ r = l) /\ fold u = fold r /\ fold l = fold r).
  { destruct (assoc r (ul_special T)) as [[up lo]|] eqn:A; [right|left; reflexivity].
    exists up, lo. split; [reflexivity|]. apply Hsp. reflexivity. }
  destruct (PositiveMap.find _ (ul_map T)) as [v|] eqn:F.
  - destruct v as [|p0 [|p1 [|x3 v]]]; try (right; reflexivity).
    destruct ((p0 =? r) || (p1 =? r)) eqn:Hit; [|destruct Hnohit as [E|E]; [right; exact E|left; exact E]].
    pose proof (ul_check_spec _ HUL _ p0 p1 F) as C. cbv beta in C.
    left. exists (to_rune p0), (to_rune p1). rewrite !to_rune_small by lia. split; [reflexivity|].
    assert (Hf : fold p0 = fold p1).
    { destruct (fold p0 =? fold p1) eqn:Ef; [lia|]. exfalso.
      unfold has_fm in C. destruct (p0 =? r) eqn:E0.
      - assert (p0 = r) by lia. subst p0. rewrite FM in C. lia.
      - assert (p1 = r) by lia. subst p1. rewrite FM in C. lia. }
    destruct (p0 =? r) eqn:E0; [assert (p0 = r) by lia|assert (p1 = r) by lia]; subst; repeat split; auto; lia.
  - cbn [repeat]. replace ((0 =? r) || (0 =? r)) with false by lia.
    destruct Hnohit as [E|E]; [right; exact E|left; exact E].
Qed.

(* every candidate folds like r *)
Lemma cands_sound r x :
  128 <= r <= MaxRune -> In x (cands T r) -> fold x = fold r.
Proof.
  intros Hr. unfold cands. destruct (fold_map T r) as [fs|] eqn:FM.
  - destruct (fold_map_cases r fs ltac:(lia) FM) as (p & F & Hk).
    pose proof (fm_check_spec _ HFM p fs F) as C. cbv beta in C.
    destruct fs as [|k fs']; [discriminate|]. cbn [hd] in Hk. subst k.
    apply andb_true_iff in C as [_ C]. rewrite forallb_forall in C.
    intros [->|H]; [reflexivity|]. specialize (C x H). lia.
  - destruct (upper_lower_cases r Hr FM) as [(u & l & E & _ & Fu & Fl)|E]; rewrite E.
    + intros [->|[->|[]]]; assumption.
    + intros [->|[]]. reflexivity.
Qed.

(* r itself is always searched for *)
Lemma cands_self r : 128 <= r <= MaxRune -> In r (cands T r).
Proof.
  intros Hr. unfold cands. destruct (fold_map T r) as [fs|] eqn:FM; [left; reflexivity|].
  destruct (upper_lower_cases r Hr FM) as [(u & l & E & [Hu|Hl] & _)|E]; rewrite E; cbn; auto.
Qed.

Theorem cands_exact r x :
  128 <= r <= MaxRune -> int32 x -> (fold x = fold r <-> In x (cands T r)).
Proof.
  intros Hr Hx. split; [|apply cands_sound; exact Hr].
  intros E. assert (Hri : int32 r) by (apply int32_of_rune; lia).
  destruct (is_member R r) eqn:Mr.
  - apply (fold_orbit_exact T R HR HP HM) in E; [|assumption|assumption].
    assert (Mx : is_member R x = true).
    { destruct (is_member R x) eqn:Mx; [reflexivity|]. rewrite (rep_nonmember x Mx) in E.
      apply member_props in Mr as (_ & _ & Mr). rewrite <- E in Mr. congruence. }
    pose proof HC as C. unfold holds, chk_cands_complete, chk_cands_complete_on in C. rewrite forallb_forall in C.
    specialize (C _ (member_in_elements r Mr)). cbn [fst snd] in C.
    replace (r <? 128) with false in C by lia. rewrite forallb_forall in C.
    specialize (C _ (member_in_elements x Mx)). cbn [fst snd] in C.
    rewrite E, Z.eqb_refl in C. apply existsb_exists in C as (y & Hy & Ey).
    replace x with y by lia. exact Hy.
  - apply (alone_in_orbit r x Hri Hx Mr) in E. subst. apply cands_self. exact Hr.
Qed.

(* candidates are code points *)
Lemma cands_range r x : 128 <= r <= MaxRune -> In x (cands T r) -> 0 <= x <= MaxRune.
Proof.
  intros Hr. unfold cands. destruct (fold_map T r) as [fs|] eqn:FM.
  - destruct (fold_map_cases r fs ltac:(lia) FM) as (p & F & Hk).
    pose proof (fm_check_spec _ HFM p fs F) as C. cbv beta in C.
    destruct fs as [|k fs']; [discriminate|]. cbn [hd] in Hk. subst k.
    apply andb_true_iff in C as [_ C]. rewrite forallb_forall in C.
    intros [->|H]; [lia|]. specialize (C x H). unfold MaxRune. lia.
  - unfold to_upper_lower. replace (r <=? 128) with (r =? 128) by lia.
    destruct (r =? 128) eqn:E128.
    { replace ((65 <=? r) && (r <=? 90)) with false by lia. replace ((97 <=? r) && (r <=? 122)) with false by lia.
      intros [->|[]]. lia. }
    rewrite (u32_rune r) by lia. unfold slot.
    assert (Hsp : match assoc r (ul_special T) with
                  | Some (up, lo) => In x (if true then [lo; up] else [r])
                  | None => In x [r] end -> 0 <= x <= MaxRune).
    { destruct (assoc r (ul_special T)) as [[up lo]|] eqn:A; [|intros [->|[]]; lia].
      pose proof HSP as S. unfold holds, chk_special_sound in S. rewrite forallb_forall in S.
      specialize (S _ (assoc_in _ _ _ A)). cbn [fst snd] in S. unfold has_fm in S. rewrite FM in S.
      unfold MaxRune. intros [->|[->|[]]]; lia. }
    destruct (PositiveMap.find _ (ul_map T)) as [v|] eqn:F.
    + destruct v as [|p0 [|p1 [|x3 v]]]; try (intros [->|[]]; lia).
      destruct ((p0 =? r) || (p1 =? r)) eqn:Hit.
      * pose proof (ul_check_spec _ HUL _ p0 p1 F) as C. cbv beta in C.
        rewrite !to_rune_small by lia. unfold MaxRune. intros [->|[->|[]]]; lia.
      * destruct (assoc r (ul_special T)) as [[up lo]|] eqn:A; exact Hsp.
    + cbn [repeat]. replace ((0 =? r) || (0 =? r)) with false by lia.
      destruct (assoc r (ul_special T)) as [[up lo]|] eqn:A; exact Hsp.
Qed.

(* ---- ASCII orbits ---- *)
Hypothesis HAS : holds (chk_ascii_sound T).
Hypothesis HAC : holds (chk_ascii_complete R).

Theorem ascii_cands_exact r x :
  0 <= r < 128 -> int32 x -> (fold x = fold r <-> In x (ascii_cands r)).
Proof.
  intros Hr Hx. split.
  - intros E. assert (Hri : int32 r) by (unfold int32; lia).
    destruct (is_member R r) eqn:Mr.
    + apply (fold_orbit_exact T R HR HP HM) in E; [|assumption|assumption].
      assert (Mx : is_member R x = true).
      { destruct (is_member R x) eqn:Mx; [reflexivity|]. rewrite (rep_nonmember x Mx) in E.
        apply member_props in Mr as (_ & _ & Mr). rewrite <- E in Mr. congruence. }
      pose proof HAC as C. unfold holds, chk_ascii_complete, chk_ascii_complete_on in C. rewrite forallb_forall in C.
      specialize (C _ (member_in_elements r Mr)). cbn [fst snd] in C.
      replace (r <? 128) with true in C by lia. rewrite forallb_forall in C.
      specialize (C _ (member_in_elements x Mx)). cbn [fst snd] in C.
      rewrite E, Z.eqb_refl in C. apply existsb_exists in C as (y & Hy & Ey).
      replace x with y by lia. exact Hy.
    + apply (alone_in_orbit r x Hri Hx Mr) in E. subst. unfold ascii_cands.
      destruct (((65 <=? r) && (r <=? 90)) || ((97 <=? r) && (r <=? 122))) eqn:A; [|left; reflexivity].
      destruct ((65 <=? r) && (r <=? 90)) eqn:U; cbn [app]; [right; left; lia|left; reflexivity].
  - intros H. pose proof HAS as S. unfold holds, chk_ascii_sound in S. rewrite forallb_forall in S.
    specialize (S r (zrange_in 128 r ltac:(lia))). rewrite forallb_forall in S. specialize (S x H). lia.
Qed.

(* ---- F8 ---- *)
Hypothesis HFX : holds (chk_fx_sound T).
Hypothesis HUL2 : holds (chk_ul_sound2 T).
Hypothesis HC2 : holds (chk_cand2_complete T R).

Lemma fx_check_spec P : holds (fx_check T P) ->
  forall p k a b, PositiveMap.find p (fx_map T) = Some [k; a; b] -> P k a b = true.
Proof.
  intros H p k a b F. unfold holds, fx_check in H. rewrite forallb_forall in H.
  apply PositiveMap.elements_correct in F. exact (H _ F).
Qed.

(* what FoldMapExcludingUpperLower returns: nothing, or two members of u's orbit *)
Lemma fold_map_excl_cases u :
  0 <= u <= MaxRune ->
  fst (fold_map_excl T u) = 0 \/
  (fold (fst (fold_map_excl T u)) = fold u /\ fold (snd (fold_map_excl T u)) = fold u).
Proof.
  intros Hu. unfold fold_map_excl, slot. rewrite (u32_rune u) by lia.
  destruct (PositiveMap.find _ (fx_map T)) as [v|] eqn:F.
  - destruct v as [|k [|a [|b [|x v]]]]; try (left; reflexivity).
    destruct (k =? u) eqn:E; [|left; reflexivity].
    pose proof (fx_check_spec _ HFX _ k a b F) as C. cbv beta in C. cbn [fst snd].
    destruct (a =? 0) eqn:A; [left; lia|right]. assert (k = u) by lia. subst k. lia.
  - cbn [repeat]. destruct (0 =? u); left; reflexivity.
Qed.

(* what the ToUpperLower step returns: two code points that fold like u, one of them u itself
   unless u is a member of a listed orbit *)
Lemma ul_hack_cases u :
  0 <= u <= MaxRune ->
  fold (fst (ul_hack_of T u)) = fold u /\ fold (snd (ul_hack_of T u)) = fold u /\
  (is_member R u = false -> fst (ul_hack_of T u) = u \/ snd (ul_hack_of T u) = u).
Proof.
  intros Hu. unfold ul_hack_of.
  pose proof HUL2 as C. unfold holds, chk_ul_sound2 in C.
  apply andb_true_iff in C as [C C3]. apply andb_true_iff in C as [C1 C2].
  pose proof (ul_check_spec _ C1) as C1'. clear C1. rewrite forallb_forall in C2, C3.
  destruct ((u =? 304) || (u =? 305)) eqn:H; cbv iota; [cbn [fst snd]; repeat split; auto|].
  destruct (u <=? 128) eqn:A.
  { specialize (C3 u (zrange_in 129 u ltac:(lia))).
    unfold ul_hack_of in C3. rewrite H in C3. cbv iota in C3.
    split; [lia|]. split; [lia|].
    intros _. unfold to_upper_lower. rewrite A.
    destruct ((65 <=? u) && (u <=? 90)); [left; reflexivity|].
    destruct ((97 <=? u) && (u <=? 122)); cbn [fst snd]; auto. }
  unfold to_upper_lower. rewrite A. rewrite (u32_rune u) by lia. unfold slot.
  assert (Hsp : forall up lo, assoc u (ul_special T) = Some (up, lo) ->
                fold up = fold u /\ fold lo = fold u /\ is_member R u = true).
  { intros up lo As. specialize (C2 _ (assoc_in _ _ _ As)). cbn [fst snd] in C2.
    split; [lia|]. split; [lia|].
    pose proof HC2 as D. unfold holds, chk_cand2_complete, chk_cand2_complete_on in D.
    apply andb_true_iff in D as [_ D]. rewrite forallb_forall in D. specialize (D _ (assoc_in _ _ _ As)). exact D. }
  assert (Hmiss : let x := match assoc u (ul_special T) with
                           | Some (up, lo) => (up, lo, true)
                           | None => (u, u, false) end in
                  fold (fst (fst x)) = fold u /\ fold (snd (fst x)) = fold u /\
                  (is_member R u = false -> fst (fst x) = u \/ snd (fst x) = u)).
  { cbv zeta. destruct (assoc u (ul_special T)) as [[up lo]|] eqn:As; cbn [fst snd]; [|repeat split; auto].
    destruct (Hsp up lo eq_refl) as (F1 & F2 & M). repeat split; auto. intros Hm. congruence. }
  cbv zeta in Hmiss.
  destruct (PositiveMap.find _ (ul_map T)) as [v|] eqn:F.
  - destruct v as [|p0 [|p1 [|x3 v]]]; try (cbn [fst snd]; repeat split; auto; fail).
    destruct ((p0 =? u) || (p1 =? u)) eqn:Hit; [|exact Hmiss].
    pose proof (C1' _ p0 p1 F) as D. cbv beta in D. cbn [fst snd].
    rewrite !to_rune_small by lia.
    assert (Hf : fold p0 = fold p1).
    { destruct (fold p0 =? fold p1) eqn:Ef; [lia|]. exfalso. destruct (p0 =? u) eqn:E0; lia. }
    destruct (p0 =? u) eqn:E0; [assert (p0 = u) by lia|assert (p1 = u) by lia]; subst; repeat split; auto; lia.
  - cbn [repeat]. replace ((0 =? u) || (0 =? u)) with false by lia. exact Hmiss.
Qed.

Theorem cand2_exact u r :
  0 <= u <= MaxRune -> int32 r -> (cand2 T u r = true <-> fold r = fold u).
Proof.
  intros Hu Hr. pose proof (ul_hack_cases u Hu) as HU. pose proof (fold_map_excl_cases u Hu) as HF.
  unfold cand2. cbv zeta. set (U := fst (ul_hack_of T u)) in *. set (l := snd (ul_hack_of T u)) in *. destruct HU as (FU & Fl & Hself).
  split.
  - intros C. destruct HF as [Z0|[F0 F1]].
    + rewrite Z0 in C. cbn [Z.eqb negb andb] in C. rewrite orb_false_r in C.
      destruct (r =? U) eqn:E1; [replace r with U by lia; exact FU|]. replace r with l by lia. exact Fl.
    + destruct (r =? U) eqn:E1; [replace r with U by lia; exact FU|].
      destruct (r =? l) eqn:E2; [replace r with l by lia; exact Fl|]. cbn [orb] in C.
      apply andb_true_iff in C as [_ C].
      destruct (r =? fst (fold_map_excl T u)) eqn:E3; [replace r with (fst (fold_map_excl T u)) by lia; exact F0|].
      replace r with (snd (fold_map_excl T u)) by lia. exact F1.
  - intros E. assert (Hui : int32 u) by (apply int32_of_rune; exact Hu).
    destruct (is_member R u) eqn:Mu.
    + apply (fold_orbit_exact T R HR HP HM) in E; [|assumption|assumption].
      assert (Mr : is_member R r = true).
      { destruct (is_member R r) eqn:Mr; [reflexivity|]. rewrite (rep_nonmember r Mr) in E.
        apply member_props in Mu as (_ & _ & Mu). rewrite <- E in Mu. congruence. }
      pose proof HC2 as C. unfold holds, chk_cand2_complete, chk_cand2_complete_on in C.
      apply andb_true_iff in C as [C _]. rewrite forallb_forall in C.
      specialize (C _ (member_in_elements u Mu)). cbn [fst snd] in C. fold U l in C.
      rewrite forallb_forall in C. specialize (C _ (member_in_elements r Mr)). cbn [fst snd] in C.
      rewrite E, Z.eqb_refl in C. apply existsb_exists in C as (y & Hy & Ey). assert (y = r) by lia. subst y.
      cbn [app] in Hy. destruct Hy as [E1|[E2|Hy]].
      { replace (r =? U) with true by lia. reflexivity. }
      { replace (r =? l) with true by lia. rewrite orb_true_r. reflexivity. }
      destruct (fst (fold_map_excl T u) =? 0) eqn:Z0; [destruct Hy|]. cbn [negb andb].
      destruct Hy as [E3|[E4|[]]].
      { replace (r =? fst (fold_map_excl T u)) with true by lia. rewrite ?orb_true_r. reflexivity. }
      { replace (r =? snd (fold_map_excl T u)) with true by lia. rewrite ?orb_true_r. reflexivity. }
    + apply (alone_in_orbit u r Hui Hr Mu) in E. subst r.
      destruct (Hself eq_refl) as [E1 | E2].
      { replace (u =? U) with true by lia. reflexivity. }
      { replace (u =? l) with true by lia. rewrite orb_true_r. reflexivity. }
Qed.


(* ---- the ToUpperLower step returns scalar values ---- *)
Hypothesis HULV : holds (chk_ul_valid T).

Lemma ul_hack_valid u :
  valid_rune u = true ->
  valid_rune (fst (ul_hack_of T u)) = true /\ valid_rune (snd (ul_hack_of T u)) = true.
Proof.
  intros Vu. unfold ul_hack_of.
  pose proof HULV as C. unfold holds, chk_ul_valid in C. apply andb_true_iff in C as [C1 C2].
  pose proof (ul_check_spec _ C1) as C1'. clear C1. rewrite forallb_forall in C2.
  destruct ((u =? 304) || (u =? 305)) eqn:H; cbv iota; [cbn [fst snd]; split; exact Vu|].
  unfold to_upper_lower. destruct (u <=? 128) eqn:A.
  { destruct ((65 <=? u) && (u <=? 90)) eqn:B1; cbn [fst snd]; [unfold valid_rune, MaxRune; lia|].
    destruct ((97 <=? u) && (u <=? 122)) eqn:B2; cbn [fst snd]; [unfold valid_rune, MaxRune; lia|split; exact Vu]. }
  assert (Hmiss : let x := match assoc u (ul_special T) with
                           | Some (up, lo) => (up, lo, true)
                           | None => (u, u, false) end in
                  valid_rune (fst (fst x)) = true /\ valid_rune (snd (fst x)) = true).
  { cbv zeta. destruct (assoc u (ul_special T)) as [[up lo]|] eqn:As; cbn [fst snd]; [|split; exact Vu].
    specialize (C2 _ (assoc_in _ _ _ As)). cbn [fst snd] in C2. apply andb_true_iff in C2. exact C2. }
  cbv zeta in Hmiss. unfold slot.
  destruct (PositiveMap.find _ (ul_map T)) as [v|] eqn:F.
  - destruct v as [|p0 [|p1 [|x3 v]]]; try (cbn [fst snd]; split; exact Vu; fail).
    destruct ((p0 =? u32 u) || (p1 =? u32 u)) eqn:Hit; [|exact Hmiss].
    pose proof (C1' _ p0 p1 F) as D. cbv beta in D. apply andb_true_iff in D as [D0 D1]. cbn [fst snd].
    assert (R0 : 0 <= p0 < 2147483648) by (unfold valid_rune, MaxRune in D0; lia).
    assert (R1 : 0 <= p1 < 2147483648) by (unfold valid_rune, MaxRune in D1; lia).
    rewrite !to_rune_small by assumption. split; assumption.
  - cbn [repeat]. destruct ((0 =? u32 u) || (0 =? u32 u)); [cbn [fst snd to_rune]; split; reflexivity|exact Hmiss].
Qed.

End G2.
