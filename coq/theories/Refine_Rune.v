(* Refine_Rune.v — Impl5.indexRune / IndexRune / ContainsRune refine
   Spec.index_rune: the offset of the first code point of s in r's folding
   orbit, -1 for an invalid r; U+FFFD finds the first ill-formed byte or
   encoded U+FFFD.  The code takes the minimum over the orbit members of
   case-sensitive searches (indexRuneCase), truncating the haystack at each
   improvement; the orbit members come from FoldMap / ToUpperLower, whose
   exactness is the table fact F7 (an hypothesis here, proved for the
   regenerated tables in FoldFacts121.cands_exact). *)
From Strcase Require Import Base Utf8 Utf8Facts Spec SpecFacts SpecIndex SpecChars Impl Impl4 Impl5 Kernels
  Refine_Compare Refine_Prefix Refine_RuneCase Utf8Enc Refine_RuneCase2 Refine_Byte Fold FoldFacts FoldFacts2.
From Coq Require Import ZifyBool ZifyNat.

(* -1 is "not found": minimum of two search results *)
Definition zmin (a b : Z) : Z := if a =? -1 then b else if b =? -1 then a else Z.min a b.

Fixpoint take_nz (l : list Z) : list Z :=
  match l with [] => [] | x :: r => if x =? 0 then [] else x :: take_nz r end.

Definition cands_of (fm : Z -> option (list Z)) (ul : Z -> Z * Z * bool) (r : Z) : list Z :=
  match fm r with
  | Some fs => r :: take_nz fs
  | None => let '(u, l, ok) := ul r in if ok then [l; u] else [r]
  end.

(* first code point satisfying P *)
Definition first_in (P : Z -> bool) (s : bytes) : Z := offz s (index_where P (runes s) 0).

(* ---------- index_where ---------- *)

Definition omin (a b : option nat) : option nat :=
  match a, b with
  | Some x, Some y => Some (Nat.min x y)
  | Some x, None => Some x
  | None, y => y
  end.

Lemma index_where_ge f l k0 :
  index_where f l k0 = None \/ exists j, index_where f l k0 = Some j /\ (k0 <= j < k0 + length l)%nat.
Proof.
  revert k0. induction l as [|x l IH]; intros k0; cbn [index_where]; [left; reflexivity|].
  destruct (f x); [right; exists k0; cbn [length]; split; [reflexivity|lia]|].
  destruct (IH (S k0)) as [E|(j & E & Hj)]; [left; exact E|right; exists j; cbn [length]; split; [exact E|lia]].
Qed.

Lemma index_where_or (P Q : Z -> bool) l k0 :
  index_where (fun x => P x || Q x) l k0 = omin (index_where P l k0) (index_where Q l k0).
Proof.
  revert k0. induction l as [|x l IH]; intros k0; cbn [index_where]; [reflexivity|].
  destruct (P x) eqn:Ep; destruct (Q x) eqn:Eq; cbn [orb omin].
  - f_equal. lia.
  - destruct (index_where_ge Q l (S k0)) as [E|(j & E & Hj)]; rewrite E; cbn [omin]; f_equal; lia.
  - destruct (index_where_ge P l (S k0)) as [E|(j & E & Hj)]; rewrite E; cbn [omin]; f_equal; lia.
  - apply IH.
Qed.

Lemma index_where_ext (f g : Z -> bool) l k0 :
  (forall x, In x l -> f x = g x) -> index_where f l k0 = index_where g l k0.
Proof.
  revert k0. induction l as [|x l IH]; intros k0 H; [reflexivity|]. cbn [index_where].
  rewrite (H x (or_introl eq_refl)). destruct (g x); [reflexivity|]. apply IH. intros y Hy. apply H. right. exact Hy.
Qed.

Lemma index_where_map (f g : Z -> Z) (P : Z -> bool) l k0 :
  index_where P (map g l) k0 = index_where (fun x => P (g x)) l k0.
Proof. revert k0. induction l as [|x l IH]; intros k0; [reflexivity|]. cbn [map index_where]. destruct (P (g x)); [reflexivity|apply IH]. Qed.

Lemma index_where_firstn f l k k0 :
  index_where f (firstn k l) k0 =
  match index_where f l k0 with
  | Some j => if (j <? k0 + k)%nat then Some j else None
  | None => None
  end.
Proof.
  revert k k0. induction l as [|x l IH]; intros k k0.
  - rewrite firstn_nil. reflexivity.
  - destruct k as [|k]; cbn [firstn index_where].
    + destruct (f x); [replace (k0 <? k0 + 0)%nat with false by lia; reflexivity|].
      destruct (index_where_ge f l (S k0)) as [E|(j & E & Hj)]; rewrite E; [reflexivity|].
      replace (j <? k0 + 0)%nat with false by lia. reflexivity.
    + destruct (f x); [replace (k0 <? k0 + S k)%nat with true by lia; reflexivity|].
      rewrite IH. replace (S k0 + k)%nat with (k0 + S k)%nat by lia. reflexivity.
Qed.

Lemma index_where_false l k0 : index_where (fun _ => false) l k0 = None.
Proof. revert k0. induction l as [|x l IH]; intros k0; [reflexivity|apply IH]. Qed.

(* ---------- offsets ---------- *)

(* a search result: not found, or the offset of a code-point boundary *)
Definition bnd (s : bytes) (n : Z) : Prop :=
  n = -1 \/ exists k, (k <= rune_count s)%nat /\ n = Z.of_nat (off s k).

Lemma runes_length s : length (runes s) = rune_count s.
Proof. unfold runes, rune_count. apply map_length. Qed.

Lemma offz_omin s a b :
  (forall j, a = Some j -> (j <= rune_count s)%nat) -> (forall j, b = Some j -> (j <= rune_count s)%nat) ->
  offz s (omin a b) = zmin (offz s a) (offz s b).
Proof.
  intros Ha Hb. unfold zmin. destruct a as [x|]; destruct b as [y|]; cbn [omin offz].
  - replace (Z.of_nat (off s x) =? -1) with false by lia. replace (Z.of_nat (off s y) =? -1) with false by lia.
    destruct (le_lt_dec x y) as [L|L].
    + rewrite Nat.min_l by lia. pose proof (off_mono s x y L). lia.
    + rewrite Nat.min_r by lia. pose proof (off_mono s y x ltac:(lia)). lia.
  - replace (Z.of_nat (off s x) =? -1) with false by lia. reflexivity.
  - reflexivity.
  - reflexivity.
Qed.

Lemma index_where_runes_bound P s j : index_where P (runes s) 0 = Some j -> (j < rune_count s)%nat.
Proof.
  intros H. destruct (index_where_ge P (runes s) 0) as [E|(j' & E & Hj)]; [congruence|].
  rewrite runes_length in Hj. rewrite H in E. inversion E. lia.
Qed.

Lemma first_in_bnd P s : bnd s (first_in P s).
Proof.
  unfold first_in. destruct (index_where P (runes s) 0) as [j|] eqn:E; [right|left; reflexivity].
  exists j. split; [apply index_where_runes_bound in E; lia|reflexivity].
Qed.

Lemma first_in_or P Q s : first_in (fun x => P x || Q x) s = zmin (first_in P s) (first_in Q s).
Proof.
  unfold first_in. rewrite index_where_or. apply offz_omin; intros j H; apply index_where_runes_bound in H; lia.
Qed.

Lemma first_in_ext P Q s : (forall x, In x (runes s) -> P x = Q x) -> first_in P s = first_in Q s.
Proof. intros H. unfold first_in. rewrite (index_where_ext P Q _ 0 H). reflexivity. Qed.

Lemma zmin_bnd s a b : bnd s a -> bnd s b -> bnd s (zmin a b).
Proof.
  intros [->|(k & Hk & ->)] [->|(j & Hj & ->)]; unfold zmin; rewrite ?Z.eqb_refl.
  - left. reflexivity.
  - right. exists j. split; [exact Hj|reflexivity].
  - replace (Z.of_nat (off s k) =? -1) with false by lia. right. exists k. split; [exact Hk|reflexivity].
  - replace (Z.of_nat (off s k) =? -1) with false by lia. replace (Z.of_nat (off s j) =? -1) with false by lia.
    right. destruct (Z.min_spec (Z.of_nat (off s k)) (Z.of_nat (off s j))) as [[_ E]|[_ E]]; rewrite E; eauto.
Qed.

(* truncating the haystack at a boundary *)
Definition trunc (s : bytes) (n : Z) : bytes := if n =? -1 then s else firstn (Z.to_nat n) s.

Lemma runes_firstn_off s k : runes (firstn (off s k) s) = firstn k (runes s).
Proof. unfold runes. rewrite segs_firstn_off. symmetry. apply firstn_map. Qed.

Lemma off_firstn_off s k j : (j <= k)%nat -> (k <= rune_count s)%nat -> off (firstn (off s k) s) j = off s j.
Proof.
  intros Hj Hk.
  assert (E : widths (firstn (off s k) s) = firstn k (widths s)).
  { unfold widths. rewrite segs_firstn_off. symmetry. apply firstn_map. }
  unfold off at 1. rewrite E. unfold off. rewrite firstn_firstn, Nat.min_l by lia. reflexivity.
Qed.

Lemma first_in_trunc P s k :
  (k <= rune_count s)%nat ->
  first_in P (firstn (off s k) s) =
  (let i := first_in P s in if (0 <=? i) && (i <? Z.of_nat (off s k)) then i else -1).
Proof.
  intros Hk. cbv zeta. unfold first_in. rewrite runes_firstn_off, index_where_firstn.
  destruct (index_where P (runes s) 0) as [j|] eqn:E; cbn [offz Nat.add]; [|reflexivity].
  pose proof (index_where_runes_bound P s j E) as Hj.
  destruct (j <? k)%nat eqn:L; cbn [offz].
  - rewrite off_firstn_off by lia. pose proof (off_lt s j k ltac:(lia) Hk).
    replace ((0 <=? Z.of_nat (off s j)) && (Z.of_nat (off s j) <? Z.of_nat (off s k))) with true by lia. reflexivity.
  - pose proof (off_mono s k j ltac:(lia)).
    replace ((0 <=? Z.of_nat (off s j)) && (Z.of_nat (off s j) <? Z.of_nat (off s k))) with false by lia. reflexivity.
Qed.

(* one improvement step of the candidate loops *)
Lemma improve_step P s n :
  bnd s n ->
  let o := first_in P (trunc s n) in
  (if negb (o =? -1) && ((n =? -1) || (o <? n)) then o else n) = zmin n (first_in P s) /\
  (o = -1 \/ (0 <= o <= len (trunc s n) /\ o = first_in P s)).
Proof.
  intros [->|(k & Hk & ->)]; cbv zeta; unfold trunc.
  - unfold zmin. rewrite !Z.eqb_refl. rewrite orb_true_l, andb_true_r.
    split; [destruct (first_in P s =? -1) eqn:E; cbn [negb]; lia|].
    destruct (first_in_bnd P s) as [E|(j & Hj & E)]; [left; exact E|right]. split; [|reflexivity]. rewrite E. unfold len. pose proof (off_le s j). lia.
  - replace (Z.of_nat (off s k) =? -1) with false by lia. rewrite Nat2Z.id, (first_in_trunc P s k Hk). cbv zeta.
    set (i := first_in P s). unfold zmin. replace (Z.of_nat (off s k) =? -1) with false by lia. cbn [orb].
    assert (Hi : i = -1 \/ 0 <= i) by (destruct (first_in_bnd P s) as [E|(j & _ & E)]; unfold i; lia).
    split.
    + destruct ((0 <=? i) && (i <? Z.of_nat (off s k))) eqn:C.
      * replace (negb (i =? -1) && (i <? Z.of_nat (off s k))) with true by lia.
        replace (i =? -1) with false by lia. lia.
      * rewrite Z.eqb_refl. cbn [negb andb]. destruct (i =? -1) eqn:E; [reflexivity|]. lia.
    + destruct ((0 <=? i) && (i <? Z.of_nat (off s k))) eqn:C; [right|left; reflexivity].
      split; [|reflexivity]. unfold len. rewrite firstn_length. pose proof (off_le s k). lia.
Qed.

Lemma trunc_trunc s n o : bnd s n -> 0 <= o -> (n = -1 \/ o <= n) -> firstn (Z.to_nat o) (trunc s n) = trunc s o.
Proof.
  intros Hn Ho Hle. unfold trunc. replace (o =? -1) with false by lia.
  destruct (n =? -1) eqn:E; [reflexivity|]. rewrite firstn_firstn. f_equal. lia.
Qed.

Lemma wf_trunc s n : wf s -> wf (trunc s n).
Proof. intros H. unfold trunc. destruct (n =? -1); [exact H|apply wf_firstn; exact H]. Qed.

(* ---------- minimum over a candidate list ---------- *)

Lemma fold_zmin_first_in s (C : list Z) (Pacc : Z -> bool) :
  fold_left zmin (map (rune_index s) C) (first_in Pacc s) =
  first_in (fun x => Pacc x || existsb (Z.eqb x) C) s.
Proof.
  revert Pacc. induction C as [|c C IH]; intros Pacc; cbn [map fold_left existsb].
  - apply first_in_ext. intros x _. rewrite orb_false_r. reflexivity.
  - change (rune_index s c) with (first_in (fun x => x =? c) s).
    rewrite <- (first_in_or Pacc (fun x => x =? c) s), IH.
    apply first_in_ext. intros x _. rewrite orb_assoc. reflexivity.
Qed.

Lemma fold_zmin_bnd s l a : bnd s a -> Forall (bnd s) l -> bnd s (fold_left zmin l a).
Proof.
  revert a. induction l as [|x l IH]; intros a Ha Hl; [exact Ha|]. cbn [fold_left].
  inversion Hl; subst. apply IH; [apply zmin_bnd; assumption|assumption].
Qed.

(* ---------- IndexByte at the level of code points ---------- *)

Lemma raw_index_nil s i0 : raw_index_pats [] s i0 = -1.
Proof. revert i0. induction s as [|b s IH]; intros i0; [reflexivity|]. cbn [raw_index_pats existsb]. apply IH. Qed.

Lemma raw_pats_cons p ps s i0 :
  0 <= i0 -> raw_index_pats (p :: ps) s i0 = zmin (raw_index_pats [p] s i0) (raw_index_pats ps s i0).
Proof.
  revert i0. induction s as [|b s IH]; intros i0 Hi; [reflexivity|].
  cbn [raw_index_pats existsb]. rewrite orb_false_r.
  destruct (starts_with p (b :: s)) eqn:A; destruct (existsb (fun q => starts_with q (b :: s)) ps) eqn:B; cbn [orb].
  - unfold zmin. replace (i0 =? -1) with false by lia. rewrite Z.min_id. reflexivity.
  - unfold zmin. replace (i0 =? -1) with false by lia.
    destruct (raw_index_ge ps s (i0 + 1) ltac:(lia)) as [E|E]; [rewrite E; reflexivity|].
    replace (raw_index_pats ps s (i0 + 1) =? -1) with false by lia. lia.
  - unfold zmin. replace (i0 =? -1) with false by lia.
    destruct (raw_index_ge [p] s (i0 + 1) ltac:(lia)) as [E|E]; [rewrite E; reflexivity|].
    replace (raw_index_pats [p] s (i0 + 1) =? -1) with false by lia. lia.
  - apply IH. lia.
Qed.

Lemma first_in_false s : first_in (fun _ => false) s = -1.
Proof. unfold first_in. rewrite index_where_false. reflexivity. Qed.

Lemma first_in_list s C :
  first_in (fun x => existsb (Z.eqb x) C) s = fold_right (fun c acc => zmin (rune_index s c) acc) (-1) C.
Proof.
  induction C as [|c C IH]; cbn [existsb fold_right]; [apply first_in_false|].
  rewrite <- IH. change (rune_index s c) with (first_in (fun x => x =? c) s).
  rewrite <- (first_in_or (fun x => x =? c)). reflexivity.
Qed.

Lemma raw_single_ascii s b : wf s -> 0 <= b < 128 -> raw_index_pats [[b]] s 0 = rune_index s b.
Proof.
  intros Hw Hb. rewrite <- (std_index_byte_ascii s b Hw Hb). unfold std_index_byte.
  apply raw_pats_bytes. intros x t. cbn [existsb starts_with]. rewrite andb_true_r, orb_false_r. apply Z.eqb_sym.
Qed.

Lemma raw_special s r : wf s -> (r = 8490 \/ r = 383) -> raw_index_pats [encode r] s 0 = rune_index s r.
Proof.
  intros Hw Hr. rewrite <- (std_index_encode s r Hw); [reflexivity| | |]; destruct Hr as [-> | ->]; try reflexivity; unfold RuneError; lia.
Qed.

Lemma zmin_m1_r a : zmin a (-1) = a.
Proof. unfold zmin. destruct (a =? -1) eqn:E; [lia|reflexivity]. Qed.

Theorem index_byte_first_in s c :
  wf s -> 0 <= c < 128 ->
  index_byte s c = first_in (fun x => existsb (Z.eqb x) (FoldFacts2.ascii_cands c)) s.
Proof.
  intros Hw Hc. rewrite first_in_list. unfold index_byte, byte_pats, FoldFacts2.ascii_cands, is_alpha, lower_ascii.
  destruct (((65 <=? c) && (c <=? 90)) || ((97 <=? c) && (c <=? 122))) eqn:A.
  - set (l := if (65 <=? c) && (c <=? 90) then c + 32 else c).
    assert (Hl : 97 <= l <= 122) by (unfold l; destruct ((65 <=? c) && (c <=? 90)) eqn:U; lia).
    cbn [app]. rewrite (raw_pats_cons [l]), (raw_pats_cons [l - 32]) by lia.
    rewrite !raw_single_ascii by (try assumption; lia). cbn [fold_right].
    destruct (l =? 107) eqn:K; [|destruct (l =? 115) eqn:S]; cbn [fold_right].
    + change kelvin with (encode 8490). rewrite (raw_special s 8490 Hw ltac:(auto)).
      rewrite zmin_m1_r. reflexivity.
    + change long_s with (encode 383). rewrite (raw_special s 383 Hw ltac:(auto)).
      rewrite zmin_m1_r. reflexivity.
    + rewrite raw_index_nil. reflexivity.
  - cbn [fold_right]. rewrite raw_single_ascii by assumption. rewrite zmin_m1_r. reflexivity.
Qed.

(* ---------- the loops of indexRune ---------- *)

Lemma zmin_idem a : zmin a a = a.
Proof. unfold zmin. destruct (a =? -1) eqn:E; [lia|]. apply Z.min_id. Qed.

Lemma zmin_zero x : (x = -1 \/ 0 <= x) -> zmin 0 x = 0.
Proof. intros H. unfold zmin. cbn [Z.eqb]. destruct (x =? -1) eqn:E; [reflexivity|]. lia. Qed.

Lemma fold_zmin_zero l : Forall (fun x => x = -1 \/ 0 <= x) l -> fold_left zmin l 0 = 0.
Proof. induction l as [|x l IH]; intros H; [reflexivity|]. inversion H; subst. cbn [fold_left]. rewrite zmin_zero by assumption. apply IH. assumption. Qed.

Lemma bnd_range s n : bnd s n -> n = -1 \/ 0 <= n <= len s.
Proof. intros [->|(k & Hk & ->)]; [left; reflexivity|right]. unfold len. pose proof (off_le s k). lia. Qed.

Lemma rune_index_bnd s m : bnd s (rune_index s m).
Proof. apply first_in_bnd. Qed.

Lemma rune_index_lt s m : rune_index s m = -1 \/ 0 <= rune_index s m < len s.
Proof.
  unfold rune_index. destruct (index_where (fun x => x =? m) (runes s) 0) as [j|] eqn:E; [right|left; reflexivity].
  apply index_where_runes_bound in E. cbn [offz]. unfold len.
  pose proof (off_lt s j (rune_count s) E ltac:(lia)). rewrite (off_all s (rune_count s)) in H by lia. lia.
Qed.

Lemma runes_range' s : wf s -> Forall (fun r => 0 <= r <= MaxRune) (runes s).
Proof.
  intros Hw. induction s as [|b l IH] using segs_ind; [constructor|].
  unfold runes. rewrite segs_cons. cbn [map]. constructor; [apply decode_rune_range; exact Hw|].
  apply IH. apply wf_skipn. exact Hw.
Qed.

Section R.
Variable native : bool.
Variable cutover : Z -> Z.
Variable fold : Z -> Z.
Variable fold_map : Z -> option (list Z).
Variable upper_lower : Z -> Z * Z * bool.

Notation irc := (indexRuneCase native cutover).
Notation cands := (cands_of fold_map upper_lower).

(* F7, F10, F5 for the fold function and the two lookups *)
Hypothesis Hcands : forall r x, 128 <= r <= MaxRune -> int32 x -> (fold x = fold r <-> In x (cands r)).
Hypothesis Hcrange : forall r x, 128 <= r <= MaxRune -> In x (cands r) -> 0 <= x <= MaxRune.
Hypothesis Hascii : forall r x, 0 <= r < 128 -> int32 x -> (fold x = fold r <-> In x (FoldFacts2.ascii_cands r)).
Hypothesis Herr : forall x, int32 x -> (fold x = fold RuneError <-> x = RuneError).

Lemma irc_first_in s m : wf s -> irc s m = Ok (first_in (fun x => x =? m) s).
Proof. intros Hw. apply indexRuneCase_ok. exact Hw. Qed.

Lemma ir_folds_ok folds r s n size :
  wf s -> bnd s n -> 128 <= r ->
  (forall x, In x (take_nz folds) -> x <> RuneError) -> (0 <= n -> size = seg_width s n) ->
  exists size', ir_folds native cutover folds r (trunc s n) n size =
    Ok (fold_left zmin (map (rune_index s) (filter (fun x => negb (x =? r)) (take_nz folds))) n, size') /\
    (0 <= fold_left zmin (map (rune_index s) (filter (fun x => negb (x =? r)) (take_nz folds))) n ->
     size' = seg_width s (fold_left zmin (map (rune_index s) (filter (fun x => negb (x =? r)) (take_nz folds))) n)).
Proof.
  intros Hw. revert n size. induction folds as [|rr rest IH]; intros n size Hn Hr Hne Hsz; cbn [ir_folds take_nz].
  { exists size. split; [reflexivity|exact Hsz]. }
  destruct (rr =? r) eqn:E1.
  { replace (rr =? 0) with false by lia. cbn [filter]. rewrite E1. cbn [negb]. apply IH; try assumption.
    intros x Hx. apply Hne. cbn [take_nz]. replace (rr =? 0) with false by lia. right. exact Hx. }
  destruct (rr =? 0) eqn:E0; [exists size; split; [reflexivity|exact Hsz]|].
  cbn [filter]. rewrite E1. cbn [negb map fold_left].
  assert (Hrr : rr <> RuneError) by (apply Hne; cbn [take_nz]; rewrite E0; left; reflexivity).
  assert (Hne' : forall x, In x (take_nz rest) -> x <> RuneError).
  { intros x Hx. apply Hne. cbn [take_nz]. rewrite E0. right. exact Hx. }
  rewrite (irc_first_in (trunc s n) rr (wf_trunc s n Hw)). cbn [bind].
  destruct (improve_step (fun x => x =? rr) s n Hn) as [Hstep Hor]. cbv zeta in Hstep, Hor.
  change (first_in (fun x => x =? rr) s) with (rune_index s rr) in Hstep, Hor.
  set (o := first_in (fun x => x =? rr) (trunc s n)) in *.
  destruct (negb (o =? -1) && ((n =? -1) || (o <? n))) eqn:C.
  - rewrite <- Hstep.
    assert (Ho : 0 <= o <= len (trunc s n) /\ o = rune_index s rr) by (destruct Hor; [lia|assumption]).
    unfold slice_to. replace ((0 <=? o) && (o <=? len (trunc s n))) with true by lia. cbn [bind].
    rewrite (trunc_trunc s n o Hn) by lia.
    apply IH; try assumption.
    + rewrite Hstep. apply zmin_bnd; [exact Hn|apply rune_index_bnd].
    + intros _. destruct Ho as [_ Eo]. rewrite Eo. symmetry. apply seg_width_rune_index; [exact Hw|exact Hrr|lia].
  - rewrite <- Hstep. apply IH; assumption.
Qed.

Lemma lor_ge a b : 0 <= a -> 0 <= b -> 128 <= a -> 128 <= Z.lor a b.
Proof.
  intros Ha Hb H. destruct (Z_lt_le_dec (Z.lor a b) 128) as [Hlt|]; [|assumption]. exfalso.
  assert (L : Z.log2 a <= Z.log2 (Z.lor a b)) by (rewrite Z.log2_lor by assumption; lia).
  assert (7 <= Z.log2 a) by (apply Z.log2_le_pow2; lia).
  assert (0 <= Z.lor a b) by (apply Z.lor_nonneg; split; assumption).
  destruct (Z.eq_dec (Z.lor a b) 0) as [E0|N0]; [rewrite E0 in L; cbn in L; lia|].
  assert (Z.log2 (Z.lor a b) < 7) by (apply Z.log2_lt_pow2; lia). lia.
Qed.

Lemma indexRune2_ok s l u :
  wf s -> 0 <= l -> 0 <= u -> (128 <= l \/ 128 <= u) -> l <> RuneError -> u <> RuneError ->
  exists sz, indexRune2 native cutover s l u = Ok (zmin (rune_index s l) (rune_index s u), sz) /\
    (0 <= zmin (rune_index s l) (rune_index s u) -> sz = seg_width s (zmin (rune_index s l) (rune_index s u))).
Proof.
  intros Hw Hl Hu Hhi Hle Hue. unfold indexRune2.
  assert (128 <= Z.lor l u) by (destruct Hhi; [apply lor_ge; assumption|rewrite Z.lor_comm; apply lor_ge; assumption]).
  replace (Z.lor l u <? 128) with false by lia.
  rewrite (irc_first_in s l Hw). cbn [bind]. change (first_in (fun x => x =? l) s) with (rune_index s l).
  set (n := rune_index s l).
  assert (Hszl : 0 <= n -> rune_len l = seg_width s n) by (intros H0; symmetry; apply seg_width_rune_index; assumption).
  destruct (negb (n =? 0) && negb (l =? u)) eqn:C.
  2:{ apply finish_pair; [|exact Hszl]. apply andb_false_iff in C as [C|C].
      - assert (n = 0) by lia. rewrite H0. apply zmin_zero. destruct (rune_index_lt s u); lia.
      - assert (l = u) by lia. subst u. fold n. apply zmin_idem. }
  assert (Hn : bnd s n) by apply rune_index_bnd.
  assert (Hnl : n = -1 \/ 0 <= n < len s) by apply rune_index_lt.
  assert (Et : (if (0 <=? n) && (n <? len s) then firstn (Z.to_nat n) s else s) = trunc s n).
  { unfold trunc. destruct Hnl as [->|Hnl]; [reflexivity|].
    replace ((0 <=? n) && (n <? len s)) with true by lia. replace (n =? -1) with false by lia. reflexivity. }
  rewrite Et, (irc_first_in (trunc s n) u (wf_trunc s n Hw)). cbn [bind].
  destruct (improve_step (fun x => x =? u) s n Hn) as [Hstep Hor]. cbv zeta in Hstep, Hor.
  change (first_in (fun x => x =? u) s) with (rune_index s u) in Hstep, Hor.
  set (o := first_in (fun x => x =? u) (trunc s n)) in *.
  assert (Hszu : 0 <= o -> rune_len u = seg_width s o).
  { intros H0. destruct Hor as [|[_ Eo]]; [lia|]. rewrite Eo in *. symmetry. apply seg_width_rune_index; assumption. }
  rewrite <- Hstep.
  destruct Hnl as [En|Hnl].
  - rewrite En in *. rewrite Z.eqb_refl. cbn [orb]. rewrite andb_true_r.
    apply finish_pair; [|exact Hszu]. destruct (o =? -1) eqn:E; cbn [negb]; lia.
  - replace (n =? -1) with false by lia. cbn [orb].
    assert (negb (o =? -1) && (o <? n) = (0 <=? o) && (o <? n)) as -> by (destruct Hor as [|[? ?]]; lia).
    destruct ((0 <=? o) && (o <? n)); apply finish_pair; try reflexivity; assumption.
Qed.

Lemma runes_int32 s x : wf s -> In x (runes s) -> int32 x.
Proof.
  intros Hw Hx. pose proof (runes_range' s Hw) as R. rewrite Forall_forall in R.
  specialize (R x Hx). unfold int32, MaxRune in *. lia.
Qed.


(* indexByte returns the IndexByte specification for every ASCII byte, and the width of what it found *)
Lemma indexByte_pair_ok s c :
  wf s -> 0 <= c < 128 ->
  exists sz, indexByte native cutover s c = Ok (index_byte s c, sz) /\
             (0 <= index_byte s c -> sz = seg_width s (index_byte s c)).
Proof.
  intros Hw Hc. destruct (is_ks c) eqn:K.
  - assert (Hcase : (c = 107 \/ c = 75) \/ (c = 115 \/ c = 83)) by (unfold is_ks in K; lia).
    destruct Hcase as [Hk|Hs].
    + destruct (indexByte_ks native cutover s c 107 8490 kelvin Hw ltac:(lia) ltac:(left; auto)) as (sz & E & Hsz).
      assert (Ep : index_byte s c = raw_index_pats [[107]; [107 - 32]; kelvin] s 0).
      { unfold index_byte, byte_pats, is_alpha, lower_ascii. destruct Hk as [-> | ->]; reflexivity. }
      exists sz. rewrite Ep. split; assumption.
    + destruct (indexByte_ks native cutover s c 115 383 long_s Hw ltac:(lia) ltac:(right; auto)) as (sz & E & Hsz).
      assert (Ep : index_byte s c = raw_index_pats [[115]; [115 - 32]; long_s] s 0).
      { unfold index_byte, byte_pats, is_alpha, lower_ascii. destruct Hs as [-> | ->]; reflexivity. }
      exists sz. rewrite Ep. split; assumption.
  - exists 1.
    assert (Ep : index_byte s c = k_index_byte s c).
    { unfold index_byte. apply byte_pats_plain; try assumption; lia. }
    rewrite Ep. split.
    + unfold indexByte. destruct s as [|b0 s0] eqn:Es; [reflexivity|]. rewrite <- Es in *.
      replace (is_nil s) with false by (rewrite Es; reflexivity).
      unfold is_ks in K. replace ((c =? 75) || (c =? 107)) with false by lia. replace ((c =? 83) || (c =? 115)) with false by lia.
      reflexivity.
    + intros H0. destruct (k_index_byte_least s c (k_index_byte s c) eq_refl H0) as (M & L & _).
      replace (seg_width s (k_index_byte s c)) with (seg_width s (Z.of_nat (Z.to_nat (k_index_byte s c)))) by (f_equal; lia).
      symmetry. apply seg_width_ascii; [unfold len in L; lia|].
      unfold byte_match in M. destruct (nth (Z.to_nat (k_index_byte s c)) s 0 =? c) eqn:E; lia.
Qed.

Lemma index_rune_first_in s r :
  valid_rune r = true -> index_rune fold s r = first_in (fun x => fold x =? fold r) s.
Proof.
  intros V. unfold index_rune, first_in. rewrite V. f_equal.
  rewrite key_runes_map. apply (index_where_map fold fold).
Qed.

Lemma existsb_filter_ne x r l :
  x <> r -> existsb (Z.eqb x) (filter (fun y => negb (y =? r)) l) = existsb (Z.eqb x) l.
Proof.
  intros Hne. induction l as [|y l IH]; [reflexivity|]. cbn [filter existsb].
  destruct (y =? r) eqn:E; cbn [negb existsb]; rewrite IH; [|reflexivity].
  replace (x =? y) with false by lia. reflexivity.
Qed.

Lemma existsb_In x l : existsb (Z.eqb x) l = true <-> In x l.
Proof. rewrite existsb_exists. split; [intros (y & Hy & E); replace x with y by lia; exact Hy|intros H; exists x; split; [exact H|lia]]. Qed.

Lemma bool_eq_iff (a b : bool) : (a = true <-> b = true) -> a = b.
Proof. destruct a, b; intros [H1 H2]; try reflexivity; [symmetry; apply H1; reflexivity|apply H2; reflexivity]. Qed.

Theorem indexRune_ok s r :
  wf s -> exists sz, indexRune native cutover fold_map upper_lower s r = Ok (index_rune fold s r, sz) /\
                     (r <> RuneError -> 0 <= index_rune fold s r -> sz = seg_width s (index_rune fold s r)).
Proof.
  intros Hw. unfold indexRune.
  destruct ((0 <=? r) && (r <? 128)) eqn:A.
  { (* ASCII *)
    assert (Hr : 0 <= r < 128) by lia.
    destruct (indexByte_pair_ok s r Hw Hr) as (sz & E & Hsz). exists sz. rewrite E.
    assert (Ei : index_byte s r = index_rune fold s r).
    { rewrite (index_byte_first_in s r Hw Hr), index_rune_first_in by (unfold valid_rune; lia).
      apply first_in_ext. intros x Hx. apply bool_eq_iff. rewrite existsb_In, Z.eqb_eq.
      symmetry. apply Hascii; [exact Hr|apply (runes_int32 s x Hw Hx)]. }
    rewrite <- Ei. split; [reflexivity|intros _; exact Hsz]. }
  destruct (r =? RuneError) eqn:B.
  { assert (r = RuneError) by lia. subst r.
    rewrite first_error_rune_index, index_rune_first_in by reflexivity.
    assert (E : first_in (fun x => fold x =? fold RuneError) s = rune_index s RuneError).
    { apply first_in_ext. intros x Hx. apply bool_eq_iff. rewrite !Z.eqb_eq. apply Herr. apply (runes_int32 s x Hw Hx). }
    rewrite E. destruct (rune_index s RuneError =? -1) eqn:M; eexists; (split; [f_equal; f_equal; lia|congruence]). }
  destruct (valid_rune r) eqn:V; cbn [negb].
  2:{ exists 1. unfold index_rune. rewrite V. split; [reflexivity|lia]. }
  assert (Hr : 128 <= r <= MaxRune) by (unfold valid_rune in V; unfold MaxRune in *; lia).
  assert (Hre : r <> RuneError) by lia.
  rewrite index_rune_first_in by exact V.
  assert (Hspec : first_in (fun x => fold x =? fold r) s = first_in (fun x => existsb (Z.eqb x) (cands r)) s).
  { apply first_in_ext. intros x Hx. apply bool_eq_iff. rewrite existsb_In, Z.eqb_eq.
    apply Hcands; [exact Hr|apply (runes_int32 s x Hw Hx)]. }
  rewrite Hspec.
  (* no candidate is U+FFFD *)
  assert (Hcne : forall x, In x (cands r) -> x <> RuneError).
  { intros x Hx Ex. subst x. apply Hre. apply Herr; [unfold int32, MaxRune in *; lia|].
    symmetry. apply Hcands; [exact Hr|unfold int32, RuneError; lia|exact Hx]. }
  assert (Hszr : 0 <= rune_index s r -> rune_len r = seg_width s (rune_index s r)).
  { intros H0. symmetry. apply seg_width_rune_index; assumption. }
  unfold cands_of in *.
  destruct (fold_map r) as [folds|] eqn:FM.
  - (* FoldMap row *)
    rewrite (irc_first_in s r Hw). cbn [bind]. change (first_in (fun x => x =? r) s) with (rune_index s r).
    assert (Hsplit : first_in (fun x => existsb (Z.eqb x) (r :: take_nz folds)) s =
                     first_in (fun x => (x =? r) || existsb (Z.eqb x) (filter (fun y => negb (y =? r)) (take_nz folds))) s).
    { apply first_in_ext. intros x _. cbn [existsb]. destruct (x =? r) eqn:E; [reflexivity|].
      cbn [orb]. rewrite existsb_filter_ne by lia. reflexivity. }
    rewrite Hsplit, <- (fold_zmin_first_in s _ (fun x => x =? r)).
    change (first_in (fun x => x =? r) s) with (rune_index s r).
    destruct (rune_index s r =? 0) eqn:Z0.
    { assert (E0 : rune_index s r = 0) by lia.
      assert (Ef : fold_left zmin (map (rune_index s) (filter (fun y => negb (y =? r)) (take_nz folds))) (rune_index s r) = 0).
      { rewrite E0. apply fold_zmin_zero. apply Forall_forall. intros y Hy. apply in_map_iff in Hy as (m & <- & _).
        destruct (rune_index_lt s m); lia. }
      rewrite Ef. exists (rune_len r). split; [reflexivity|]. intros _ _. rewrite <- E0. apply Hszr. lia. }
    assert (Hn : bnd s (rune_index s r)) by apply rune_index_bnd.
    assert (Hnl : rune_index s r = -1 \/ 0 <= rune_index s r < len s) by apply rune_index_lt.
    assert (Et : (if 0 <? rune_index s r then slice_to s (rune_index s r) else Ok s) = Ok (trunc s (rune_index s r))).
    { unfold trunc, slice_to. destruct Hnl as [E|Hnl].
      - rewrite E. reflexivity.
      - replace (0 <? rune_index s r) with true by lia.
        replace ((0 <=? rune_index s r) && (rune_index s r <=? len s)) with true by lia.
        replace (rune_index s r =? -1) with false by lia. reflexivity. }
    rewrite Et. cbn [bind].
    destruct (ir_folds_ok folds r s (rune_index s r) (rune_len r) Hw Hn ltac:(lia)) as (sz & E & Hsz).
    + intros x Hx. apply Hcne. right. exact Hx.
    + exact Hszr.
    + exists sz. split; [exact E|intros _; exact Hsz].
  - destruct (upper_lower r) as [[u l] ok] eqn:UL. destruct ok.
    + assert (Hin : In r [l; u]).
      { pose proof (Hcands r r Hr ltac:(unfold int32, MaxRune in *; lia)) as H. unfold cands_of in H. rewrite FM, UL in H. apply H. reflexivity. }
      assert (Hl : 0 <= l <= MaxRune) by (apply (Hcrange r l Hr); unfold cands_of; rewrite FM, UL; left; reflexivity).
      assert (Hu : 0 <= u <= MaxRune) by (apply (Hcrange r u Hr); unfold cands_of; rewrite FM, UL; right; left; reflexivity).
      destruct (indexRune2_ok s l u Hw ltac:(lia) ltac:(lia)) as (sz & E & Hsz).
      { destruct Hin as [<-|[<-|[]]]; [left|right]; lia. }
      { apply Hcne. left. reflexivity. }
      { apply Hcne. right. left. reflexivity. }
      assert (Ez : zmin (rune_index s l) (rune_index s u) = first_in (fun x => existsb (Z.eqb x) [l; u]) s).
      { change (rune_index s l) with (first_in (fun x => x =? l) s). change (rune_index s u) with (first_in (fun x => x =? u) s).
        rewrite <- first_in_or. apply first_in_ext. intros x _. cbn [existsb]. rewrite orb_false_r. reflexivity. }
      rewrite <- Ez. exists sz. split; [exact E|intros _; exact Hsz].
    + rewrite (irc_first_in s r Hw). cbn [bind].
      assert (Ez : first_in (fun x => x =? r) s = first_in (fun x => existsb (Z.eqb x) [r]) s).
      { apply first_in_ext. intros x _. cbn [existsb]. rewrite orb_false_r. reflexivity. }
      rewrite <- Ez. exists (rune_len r). split; [reflexivity|intros _; exact Hszr].
Qed.

Theorem indexrune_refines s r :
  wf s -> IndexRune native cutover fold_map upper_lower s r = Ok (index_rune fold s r).
Proof. intros Hw. unfold IndexRune. destruct (indexRune_ok s r Hw) as (sz & E & _). rewrite E. reflexivity. Qed.

Theorem containsrune_refines s r :
  wf s -> ContainsRune native cutover fold_map upper_lower s r = Ok (contains_rune fold s r).
Proof. intros Hw. unfold ContainsRune. rewrite indexrune_refines by exact Hw. reflexivity. Qed.

End R.
