(* Refine_Index2.v — the main loop of Index and the dispatch in front of it:
   Impl6.Index refines Spec.index on all byte strings, for every
   configuration and every value of the thresholds. *)
From Strcase Require Import Base Utf8 Utf8Facts Utf8Last Spec SpecFacts SpecIndex SpecChars Impl Impl4 Impl5 Impl6 Kernels
  Refine_Compare Refine_Prefix Refine_RuneCase Utf8Enc Refine_RuneCase2 Refine_Byte Refine_Rune Refine_RK Refine_Index
  Fold FoldFacts.
From Coq Require Import ZifyBool ZifyNat.

Section Main.
Variables fold lower : Z -> Z.
Hypothesis FF : fold_facts fold lower.
Hypothesis WF : width_facts fold.
Variable native : bool.
Variable cutover : Z -> Z.
Variable fold_map : Z -> option (list Z).
Variable fold_map_excl : Z -> Z * Z.
Variable upper_lower : Z -> Z * Z * bool.
Variable primeRK : Z.
Variable p : pkg.

Notation key := (key fold).
Notation match_at := (match_at fold).
Notation K s := (key s).
Notation indexRune := (Impl5.indexRune native cutover fold_map upper_lower).
Notation indexRune2 := (Impl5.indexRune2 native cutover).

Section Loop.
Variables s sub : bytes.
Variables u0 u1 sz0 sz1 : Z.
Variable needle : bytes.
Hypothesis Hws : wf s.
Hypothesis Hwsub : wf sub.
Hypothesis H2 : (2 <= rune_count sub)%nat.
Hypothesis SP : split2 fold sub u0 u1 sz0 sz1 needle.
Variables U0 l0 U1 l1 : Z.
Variables folds0 folds1 : Z * Z.
Variable t : Z.

Hypothesis Hc0 : forall r, int32 r -> (cand U0 l0 folds0 r = true <-> fold r = fold u0).
Hypothesis Hc1 : forall r, int32 r -> (cand U1 l1 folds1 r = true <-> fold r = fold u1).
(* the jump to the next candidate for the first code point *)
Hypothesis Hjump : forall rest, wf rest ->
  exists sz, (if fst folds0 =? 0 then indexRune2 rest l0 U0 else indexRune rest l0) =
             Ok (first_in (fun x => fold x =? fold u0) rest, sz) /\
             (0 <= first_in (fun x => fold x =? fold u0) rest -> sz = seg_width rest (first_in (fun x => fold x =? fold u0) rest)).
Hypothesis Ht : t <= len s.
Hypothesis Ht1 : forall a, match_at s sub a = true -> Z.of_nat (off s a) < t.

Notation P := (fun x => fold x =? fold u0).

Lemma rune_int a : (a < rune_count s)%nat -> int32 (nth a (runes s) 0).
Proof. intros H. apply (runes_int32' s _ Hws). apply nth_In. rewrite runes_length. exact H. Qed.

Lemma no_match_first a : (a < rune_count s)%nat -> P (nth a (runes s) 0) = false -> match_at s sub a = false.
Proof.
  intros Ha Hp. destruct (match_at s sub a) eqn:M; [|reflexivity].
  apply (match_split fold s sub u0 u1 sz0 sz1 needle SP) in M as (_ & E0 & _). cbv beta in Hp. lia.
Qed.

Lemma no_match_end a : (rune_count s < a + 2)%nat -> match_at s sub a = false.
Proof.
  intros H. destruct (match_at s sub a) eqn:M; [|reflexivity].
  apply (match_split fold s sub u0 u1 sz0 sz1 needle SP) in M as (Hle & _). lia.
Qed.

Lemma later_match' a a' :
  (a < a')%nat -> match_at s sub a' = true -> match_at (skipn (off s (a + 2)) s) needle (a' - a) = true.
Proof.
  intros Hlt M. apply (match_split fold s sub u0 u1 sz0 sz1 needle SP) in M as (Hle & _ & _ & Pm).
  unfold SpecIndex.match_at. unfold has_prefix in Pm. rewrite (key_skipn_off fold) in *.
  rewrite skipn_skipn_add. replace (a + 2 + (a' - a))%nat with (a' + 2)%nat by lia. exact Pm.
Qed.

Lemma idx_loop_ok fuel a fails :
  (a <= rune_count s)%nat -> (forall a', (a' < a)%nat -> match_at s sub a' = false) -> (rune_count s - a < fuel)%nat ->
  idx_loop native cutover fold lower fold_map upper_lower primeRK p fuel s sub needle t U0 l0 U1 l1 folds0 folds1
           (Z.of_nat (off s a)) fails = Ok (index fold s sub).
Proof.
  revert a fails. induction fuel as [|f IH]; intros a fails Ha Hno Hf; [lia|].
  cbn [idx_loop]. unfold len in Ht.
  destruct (Z.of_nat (off s a) <? t) eqn:Lt.
  2:{ f_equal. symmetry. apply (index_none fold). intros a'. destruct (match_at s sub a') eqn:M; [|reflexivity]. exfalso.
      destruct (le_lt_dec a a') as [Hge|Hlt]; [|rewrite (Hno a' Hlt) in M; discriminate].
      pose proof (Ht1 a' M). pose proof (off_mono s a a' Hge). lia. }
  assert (Ha' : (a < rune_count s)%nat) by (apply boundary_lt; [exact Ha|lia]).
  destruct (rune_at s a Ha') as (O0 & S0 & F0). rewrite S0. cbn [bind]. rewrite F0. cbn [bind].
  set (r0 := nth a (runes s) 0) in *.
  replace (Z.of_nat (off s a) + (Z.of_nat (off s (S a)) - Z.of_nat (off s a))) with (Z.of_nat (off s (S a))) by lia.
  (* where the first-code-point candidate is: a1, with the width m0 of that code point *)
  assert (Hj : exists oj,
     (do jump <- (if negb (cand U0 l0 folds0 r0) then
                    do rest <- slice_from s (Z.of_nat (off s (S a)));
                    do osz <- (if fst folds0 =? 0 then indexRune2 rest l0 U0 else indexRune rest l0);
                    if fst osz <? 0 then Ok None else Ok (Some (Z.of_nat (off s a) + fst osz + (Z.of_nat (off s (S a)) - Z.of_nat (off s a)), snd osz))
                  else Ok (Some (Z.of_nat (off s a), Z.of_nat (off s (S a)) - Z.of_nat (off s a)))); Ok jump) = Ok oj /\
     match oj with
     | None => forall a', match_at s sub a' = false
     | Some (i1, m0) => exists a1, (a <= a1 < rune_count s)%nat /\ i1 = Z.of_nat (off s a1) /\
                                   m0 = Z.of_nat (off s (S a1)) - Z.of_nat (off s a1) /\
                                   P (nth a1 (runes s) 0) = true /\
                                   (forall a', (a' < a1)%nat -> match_at s sub a' = false)
     end).
  { destruct (cand U0 l0 folds0 r0) eqn:C0; cbn [negb].
    - eexists. split; [reflexivity|]. exists a. repeat split; try lia; try assumption.
      apply (Hc0 r0 (rune_int a Ha')) in C0. unfold r0 in C0. cbv beta. lia.
    - pose proof (off_le s (S a)) as Ole.
      unfold slice_from, len. replace ((0 <=? Z.of_nat (off s (S a))) && (Z.of_nat (off s (S a)) <=? Z.of_nat (length s))) with true by lia.
      cbn [bind]. rewrite Nat2Z.id. set (rest := skipn (off s (S a)) s).
      destruct (Hjump rest (wf_skipn _ _ Hws)) as (sz & Ej & Hsz). rewrite Ej. cbn [bind fst snd].
      assert (Np0 : P r0 = false).
      { destruct (P r0) eqn:E; [|reflexivity]. cbv beta in E. assert (E' : fold r0 = fold u0) by lia.
        apply (Hc0 r0 (rune_int a Ha')) in E'. congruence. }
      assert (Er : runes rest = skipn (S a) (runes s)) by apply runes_skipn_off.
      unfold first_in in *. rewrite Er in *.
      destruct (index_where P (skipn (S a) (runes s)) 0) as [k|] eqn:IW; cbn [offz] in *.
      + apply index_where_some in IW as (d & -> & Hd & Hpd & Hnd). cbn [Nat.add] in *.
        rewrite skipn_length, runes_length in Hd. rewrite nth_skipn_add in Hpd.
        replace (Z.of_nat (off rest d) <? 0) with false by lia.
        eexists. split; [reflexivity|]. exists (S a + d)%nat.
        assert (Eoff : off s (S a + d) = (off s (S a) + off rest d)%nat) by (unfold rest; apply off_add).
        split; [lia|]. split; [lia|]. split.
        { rewrite (Hsz ltac:(lia)). unfold seg_width. rewrite Nat2Z.id. unfold rest. rewrite skipn_skipn_add, <- off_add.
          pose proof (seg_width_off s (S a + d) ltac:(lia)) as Wo. unfold seg_width in Wo. rewrite Nat2Z.id in Wo. exact Wo. }
        split; [exact Hpd|].
        intros a' Hlt. destruct (lt_eq_lt_dec a' a) as [[L|E]|G]; [apply Hno; exact L|subst; apply no_match_first; assumption|].
        apply no_match_first; [lia|]. specialize (Hnd (a' - S a)%nat ltac:(lia)). rewrite nth_skipn_add in Hnd.
        replace (S a + (a' - S a))%nat with a' in Hnd by lia. exact Hnd.
      + replace (-1 <? 0) with true by reflexivity. eexists. split; [reflexivity|].
        intros a'. destruct (lt_eq_lt_dec a' a) as [[L|E]|G]; [apply Hno; exact L|subst; apply no_match_first; assumption|].
        destruct (le_lt_dec (rune_count s) a') as [Hge|Hlt]; [apply no_match_end; lia|].
        apply no_match_first; [exact Hlt|].
        pose proof (index_where_none _ _ _ IW (nth a' (runes s) 0)) as N. apply N.
        replace a' with (S a + (a' - S a))%nat by lia. rewrite <- nth_skipn_add. apply nth_In.
        rewrite skipn_length, runes_length. lia. }
  destruct Hj as (oj & Ej & Hoj).
  match type of Ej with (do jump <- ?X; Ok jump) = _ => destruct X as [jump| |] eqn:EX; cbn [bind] in Ej; try discriminate end.
  inversion Ej; subst oj. cbn [bind].
  destruct jump as [[i1 m0]|]; [|f_equal; symmetry; apply (index_none fold); exact Hoj].
  destruct Hoj as (a1 & Ha1 & -> & -> & Hp1 & Hno1).
  replace (Z.of_nat (off s a1) + (Z.of_nat (off s (S a1)) - Z.of_nat (off s a1))) with (Z.of_nat (off s (S a1))) by lia.
  unfold len.
  destruct (Z.of_nat (length s) <=? Z.of_nat (off s (S a1))) eqn:Last.
  { (* the candidate is the last code point *)
    f_equal. symmetry. apply (index_none fold). intros a'.
    destruct (le_lt_dec a1 a') as [Hge|Hlt]; [|apply Hno1; exact Hlt].
    apply no_match_end. destruct (le_lt_dec (rune_count s) (S a1)) as [|Hlt2]; [lia|].
    pose proof (off_lt_len s (S a1) Hlt2). lia. }
  assert (Ha2 : (S a1 < rune_count s)%nat) by (apply boundary_lt; [lia|lia]).
  destruct (rune_at s (S a1) Ha2) as (O1 & S1 & F1). rewrite S1. cbn [bind]. rewrite F1. cbn [bind].
  set (r1 := nth (S a1) (runes s) 0) in *.
  replace (Z.of_nat (off s (S a1)) + (Z.of_nat (off s (S (S a1))) - Z.of_nat (off s (S a1)))) with (Z.of_nat (off s (a1 + 2)))
    by (replace (a1 + 2)%nat with (S (S a1)) by lia; lia).
  pose proof (match_split fold s sub u0 u1 sz0 sz1 needle SP) as MS.
  (* the comparison of the rest, when the second code point is a candidate too *)
  assert (Hstop : exists st,
     (do stop <- (if cand U1 l1 folds1 r1 then
                    do rest <- slice_from s (Z.of_nat (off s (a1 + 2)));
                    do me <- hasPrefixUnicode fold lower p rest needle;
                    if fst me then Ok (Some (Z.of_nat (off s a1))) else if snd me then Ok (Some (-1)) else Ok None
                  else Ok None); Ok stop) = Ok st /\
     match st with
     | Some v => v = index fold s sub
     | None => match_at s sub a1 = false
     end).
  { destruct (cand U1 l1 folds1 r1) eqn:C1.
    2:{ eexists. split; [reflexivity|]. destruct (match_at s sub a1) eqn:M; [|reflexivity].
        apply MS in M as (_ & _ & E1 & _). apply (Hc1 r1 (rune_int (S a1) Ha2)) in E1. congruence. }
    pose proof (off_le s (a1 + 2)) as Ole.
    unfold slice_from, len. replace ((0 <=? Z.of_nat (off s (a1 + 2))) && (Z.of_nat (off s (a1 + 2)) <=? Z.of_nat (length s))) with true by lia.
    cbn [bind]. rewrite Nat2Z.id.
    destruct (hasPrefixUnicode_ok fold lower FF WF p (skipn (off s (a1 + 2)) s) needle (wf_skipn _ _ Hws) (sp_wf _ _ _ _ _ _ _ SP)) as (ex & Ehp & Hex).
    rewrite Ehp. cbn [bind fst snd].
    destruct (has_prefix fold (skipn (off s (a1 + 2)) s) needle) eqn:HP.
    - eexists. split; [reflexivity|]. symmetry. apply (index_at fold); [|exact Hno1|lia].
      apply MS. cbv beta in Hp1. repeat split; try lia; try exact HP.
      apply (Hc1 r1 (rune_int (S a1) Ha2)). exact C1.
    - assert (Na : match_at s sub a1 = false).
      { destruct (match_at s sub a1) eqn:M; [|reflexivity]. apply MS in M as (_ & _ & _ & Pm). congruence. }
      destruct ex.
      + eexists. split; [reflexivity|]. symmetry. apply (index_none fold). intros a'.
        destruct (match_at s sub a') eqn:M; [|reflexivity]. exfalso.
        destruct (lt_eq_lt_dec a' a1) as [[L|E]|G]; [rewrite (Hno1 a' L) in M; discriminate|subst; congruence|].
        pose proof (later_match' a1 a' G M) as L. rewrite (Hex eq_refl eq_refl (a' - a1)%nat) in L. discriminate.
      + eexists. split; [reflexivity|exact Na]. }
  destruct Hstop as (st & Est & Hst).
  match type of Est with (do stop <- ?X; Ok stop) = _ => destruct X as [stop| |] eqn:EY; cbn [bind] in Est; try discriminate end.
  inversion Est; subst st. cbn [bind].
  destruct stop as [v|]; [f_equal; exact Hst|].
  (* no match at a1: continue after its first code point, or hand over to Rabin-Karp *)
  assert (Hno2 : forall a', (a' < S a1)%nat -> match_at s sub a' = false).
  { intros a' Hlt. destruct (Nat.eq_dec a' a1) as [->|]; [exact Hst|apply Hno1; lia]. }
  match goal with |- (if ?c then _ else _) = _ => destruct c eqn:CO end.
  - pose proof (off_le s (S a1)) as Ole.
    unfold slice_from, len. replace ((0 <=? Z.of_nat (off s (S a1))) && (Z.of_nat (off s (S a1)) <=? Z.of_nat (length s))) with true by lia.
    cbn [bind]. rewrite ?Nat2Z.id.
    assert (Hsubne : sub <> []) by (intros E; rewrite E in H2; cbn in H2; lia).
    rewrite (rabinkarp_refines fold lower FF WF primeRK p (skipn (off s (S a1)) s) sub (wf_skipn _ _ Hws) Hwsub Hsubne). cbn [bind].
    rewrite (index_suffix fold s sub (S a1) ltac:(lia) Hno2). cbv zeta.
    destruct (index fold (skipn (off s (S a1)) s) sub <? 0); reflexivity.
  - apply IH; [lia|exact Hno2|lia].
Qed.

End Loop.

End Main.
