(* Impl3.v — structure-faithful model, continued: Count and Cut.  Both are
   loops around Index; the model takes Index as a parameter [idx] (modular
   reasoning: the refinement theorems assume idx computes Spec.index, which
   is what C01's correspondence/refinement establishes), so that Count's and
   Cut's own logic — resuming after the matched text, whose byte width is
   that of the haystack's code points, not the needle's — is what is proved.
   Both package shapes are present. *)
From Strcase Require Import Base Utf8 Spec Impl.

Section Impl3.
Variable idx : bytes -> bytes -> res Z.       (* Index *)

(* skip o code points: bytcase.Count "for j < len(s) && o > 0 { j += width; o-- }; s = s[j:]"
   and bytcase.Cut "for n := RuneCount(sep); n > 0 && len(after) > 0; n--" *)
Fixpoint skip_runes (o : nat) (s : bytes) : bytes :=
  match o with
  | O => s
  | S o' => match s with
            | [] => []
            | _ :: _ => skip_runes o' (skipn (snd (decode s)) s)
            end
  end.

(* strcase.Count: "for j := range s { o--; if o == 0 { _, w := DecodeRune(s[j:]); s = s[j+w:]; break } }":
   s is left unchanged when it has fewer than o code points *)
Definition skip_runes_range (o : nat) (s : bytes) : bytes :=
  if (1 <=? o)%nat && (o <=? rune_count s)%nat then skip_runes o s else s.

Definition count_skip (p : pkg) (o : nat) (s : bytes) : bytes :=
  match p with Str => skip_runes_range o s | Byt => skip_runes o s end.

(* the general loop of Count; [n] matches so far *)
Fixpoint count_loop (p : pkg) (fuel : nat) (s substr : bytes) (n : Z) : res Z :=
  match fuel with
  | O => OutOfFuel
  | S f =>
    do i <- idx s substr;
    if i =? -1 then Ok n
    else if (0 <=? i) && (i <=? len s) then       (* s = s[i:] *)
      count_loop p f (count_skip p (rune_count substr) (skipn (Z.to_nat i) s)) substr (n + 1)
    else Panic
  end.

(* countRune(s, r) for r = U+212A / U+017F: number of occurrences of the encoding
   (found by repeated indexRuneCase, resuming after each) *)
Fixpoint raw_count (pat : bytes) (s : bytes) : Z :=
  match s with
  | [] => 0
  | _ :: r => (if starts_with pat s then 1 else 0) + raw_count pat r
  end.

Definition Count (p : pkg) (s substr : bytes) : res Z :=
  match substr with
  | [] => Ok (Z.of_nat (rune_count s) + 1)
  | [c] =>
    if c <? 128 then
      let n := k_count s c in
      Ok (if (c =? 75) || (c =? 107) then n + raw_count kelvin s
          else if (c =? 83) || (c =? 115) then n + raw_count long_s s
          else n)
    else count_loop p (S (length s)) s substr 0
  | _ => count_loop p (S (length s)) s substr 0
  end.

(* strcase.Cut: "for range sep { if after[0] < RuneSelf { after = after[1:] } else { _, n := DecodeRune(after); after = after[n:] } }":
   after[0] on an empty string panics *)
Fixpoint cut_skip_str (o : nat) (after : bytes) : res bytes :=
  match o with
  | O => Ok after
  | S o' => match after with
            | [] => Panic
            | b :: r => cut_skip_str o' (if b <? 128 then r else skipn (snd (decode after)) after)
            end
  end.

Definition cut_skip (p : pkg) (o : nat) (after : bytes) : res bytes :=
  match p with Str => cut_skip_str o after | Byt => Ok (skip_runes o after) end.

(* (before, after, found) as (lo, hi) positions in s *)
Definition Cut (p : pkg) (s sep : bytes) : res ((Z * Z) * (Z * Z) * bool) :=
  do i <- idx s sep;
  if 0 <=? i then
    if i <=? len s then
      do after <- cut_skip p (rune_count sep) (skipn (Z.to_nat i) s);
      Ok ((0, i), (len s - len after, len s), true)
    else Panic
  else Ok ((0, len s), (0, 0), false).

End Impl3.
