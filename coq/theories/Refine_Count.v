(* Refine_Count.v — Impl3.Count (general loop) and Impl3.Cut refine Spec on
   all byte strings, for both package shapes, given that their callee Index
   computes Spec.index. *)
From Strcase Require Import Base Utf8 Utf8Facts Spec SpecFacts SpecIndex SpecAffix Impl Impl3 Refine_Compare Refine_Prefix.
From Coq Require Import ZifyBool ZifyNat.

Lemma skip_runes_off o s : skip_runes o s = skipn (off s o) s.
Proof.
  revert s. induction o as [|o IH]; intros s; [reflexivity|].
  destruct s as [|b r]; cbn [skip_runes]; [rewrite off_nil; reflexivity|].
  rewrite IH, off_cons, skipn_skipn_add. reflexivity.
Qed.

Section Refine.
Variable fold : Z -> Z.
Variable idx : bytes -> bytes -> res Z.
Hypothesis Hidx : forall s t, wf s -> wf t -> idx s t = Ok (index fold s t).

Notation key := (key fold).

Lemma key_skipn_off s k : key (skipn (off s k) s) = skipn k (key s).
Proof. unfold Spec.key. rewrite segs_skipn_off. symmetry. apply skipn_map. Qed.

Lemma rune_count_skipn_off s k : rune_count (skipn (off s k) s) = (rune_count s - k)%nat.
Proof. unfold rune_count. rewrite segs_skipn_off. apply skipn_length. Qed.

(* after a match at code point k the text to resume in is what follows the
   |key sub| code points of the haystack that matched *)
Lemma count_skip_ok p s k o :
  (1 <= o)%nat -> (k + o <= rune_count s)%nat ->
  count_skip p o (skipn (off s k) s) = skipn (off s (k + o)) s.
Proof.
  intros Ho Hk. unfold count_skip, skip_runes_range.
  assert (E : skip_runes o (skipn (off s k) s) = skipn (off s (k + o)) s).
  { rewrite skip_runes_off, skipn_skipn_add, <- off_add. reflexivity. }
  destruct p; [|exact E].
  rewrite rune_count_skipn_off.
  replace ((1 <=? o)%nat && (o <=? rune_count s - k)%nat) with true by lia. exact E.
Qed.

Lemma count_loop_ok p fuel s sub n :
  wf s -> wf sub -> sub <> [] -> (length s < fuel)%nat ->
  count_loop idx p fuel s sub n = Ok (n + Z.of_nat (count_aux (key sub) (key s) 0)).
Proof.
  intros Hs Hsub Hne. revert s n Hs. induction fuel as [|f IH]; intros s n Hs Hf; [lia|].
  cbn [count_loop]. rewrite Hidx by assumption. cbn [bind].
  assert (Hk : key sub <> []) by (destruct sub; [congruence|apply key_nonempty]).
  rewrite (count_aux_unfold _ _ Hk). unfold index.
  destruct (find_first (key sub) (key s) 0) as [k|] eqn:F; cbn [offz].
  - apply find_first_some in F as (d & -> & Hd & Hm & _). cbn [Nat.add].
    pose proof (off_le s d).
    replace (Z.of_nat (off s d) =? -1) with false by lia.
    replace ((0 <=? Z.of_nat (off s d)) && (Z.of_nat (off s d) <=? len s)) with true by (unfold len; lia).
    rewrite Nat2Z.id.
    assert (Hl : (length (key sub) <= rune_count s - d)%nat).
    { apply prefixb_length in Hm. rewrite skipn_length, (key_length fold s) in Hm. exact Hm. }
    assert (Ho : (1 <= length (key sub))%nat) by (destruct (key sub); [congruence|cbn; lia]).
    rewrite <- (key_length fold sub).
    rewrite (key_length fold s) in Hd.
    rewrite count_skip_ok by lia.
    rewrite IH.
    + rewrite key_skipn_off. f_equal. lia.
    + apply wf_skipn. exact Hs.
    + rewrite skipn_length.
      pose proof (off_lt s 0 (d + length (key sub)) ltac:(lia) ltac:(lia)) as O. rewrite off_0 in O.
      pose proof (off_le s (d + length (key sub))). lia.
  - cbn. f_equal. lia.
Qed.

(* Count, for every needle that does not take the single-ASCII-byte kernel path *)
Theorem count_refines_general p s sub :
  wf s -> wf sub -> (forall c, sub = [c] -> 128 <= c) ->
  Count idx p s sub = Ok (count fold s sub).
Proof.
  intros Hs Hsub Hc. unfold Count, count.
  destruct sub as [|c [|c2 sub]]; [reflexivity| |].
  - specialize (Hc c eq_refl). replace (c <? 128) with false by lia.
    rewrite count_loop_ok by (try assumption; try discriminate; lia). f_equal.
  - rewrite count_loop_ok by (try assumption; try discriminate; lia). f_equal.
Qed.

(* ---------------- Cut ---------------- *)

Lemma cut_skip_str_ok o after :
  (o <= rune_count after)%nat -> cut_skip_str o after = Ok (skip_runes o after).
Proof.
  revert after. induction o as [|o IH]; intros after H; [reflexivity|].
  destruct after as [|b r]; [cbn in H; lia|]. cbn [cut_skip_str skip_runes].
  rewrite rune_count_cons in H.
  destruct (b <? 128) eqn:A.
  - rewrite decode_ascii in * by lia. cbn [snd skipn] in *. apply IH. lia.
  - apply IH. lia.
Qed.

Theorem cut_refines p s sep :
  wf s -> wf sep -> Cut idx p s sep = Ok (cut fold s sep).
Proof.
  intros Hs Hp. unfold Cut, cut. rewrite Hidx by assumption. cbn [bind]. unfold index.
  destruct (find_first (key sep) (key s) 0) as [k|] eqn:F; cbn [offz]; [|reflexivity].
  apply find_first_some in F as (d & -> & Hd & Hm & _). cbn [Nat.add].
  pose proof (off_le s d).
  replace (0 <=? Z.of_nat (off s d)) with true by lia.
  replace (Z.of_nat (off s d) <=? len s) with true by (unfold len; lia).
  rewrite Nat2Z.id.
  assert (Hl : (length (key sep) <= rune_count s - d)%nat).
  { apply prefixb_length in Hm. rewrite skipn_length, (key_length fold s) in Hm. exact Hm. }
  rewrite (key_length fold s) in Hd.
  assert (E : cut_skip p (rune_count sep) (skipn (off s d) s) = Ok (skipn (off s (d + length (key sep))) s)).
  { rewrite <- (key_length fold sep).
    assert (E2 : skip_runes (length (key sep)) (skipn (off s d) s) = skipn (off s (d + length (key sep))) s).
    { rewrite skip_runes_off, skipn_skipn_add, <- off_add. reflexivity. }
    destruct p; cbn [cut_skip]; [|rewrite E2; reflexivity].
    rewrite cut_skip_str_ok by (rewrite rune_count_skipn_off; lia). rewrite E2. reflexivity. }
  rewrite E. cbn [bind]. unfold len. rewrite skipn_length.
  pose proof (off_le s (d + length (key sep))). repeat f_equal. lia.
Qed.

End Refine.
