(* Refine_Byte.v — Impl5.IndexByte / IndexByteASCII refine Spec.index_byte /
   index_byte_ascii: the first offset at which byte c occurs or, for an ASCII
   letter, its other case or, for K k S s, the encoding of U+212A / U+017F.
   For every byte c, every byte string, every configuration. *)
From Strcase Require Import Base Utf8 Utf8Facts Spec SpecChars Impl Impl4 Impl5 Refine_Compare Refine_Prefix
  Refine_RuneCase Utf8Enc Refine_RuneCase2.
From Coq Require Import ZifyBool ZifyNat.

(* ---------- several patterns ---------- *)

Lemma pat_at_cons pats b s p : pat_at pats (b :: s) (S p) = pat_at pats s p.
Proof. reflexivity. Qed.

Lemma raw_pats_least pats s i0 p :
  pat_at pats s p = true -> (p < length s)%nat -> (forall q, (q < p)%nat -> pat_at pats s q = false) ->
  raw_index_pats pats s i0 = i0 + Z.of_nat p.
Proof.
  revert i0 p. induction s as [|b s IH]; intros i0 p Hp Hlen Hl; [cbn in Hlen; lia|].
  cbn [raw_index_pats]. destruct p as [|p].
  - unfold pat_at in Hp. cbn [skipn] in Hp. rewrite Hp. lia.
  - pose proof (Hl 0%nat ltac:(lia)) as H0. unfold pat_at in H0. cbn [skipn] in H0. rewrite H0.
    rewrite (IH (i0 + 1) p); [lia|exact Hp|cbn [length] in Hlen; lia|].
    intros q Hq. apply (Hl (S q)). lia.
Qed.

Lemma raw_pats_absent pats s i0 :
  (forall p, (p < length s)%nat -> pat_at pats s p = false) -> raw_index_pats pats s i0 = -1.
Proof.
  revert i0. induction s as [|b s IH]; intros i0 H; [reflexivity|].
  cbn [raw_index_pats]. pose proof (H 0%nat ltac:(cbn; lia)) as H0. unfold pat_at in H0. cbn [skipn] in H0.
  rewrite H0. apply IH. intros p Hp. apply (H (S p)). cbn [length]. lia.
Qed.

(* single-byte patterns: a byte predicate *)
Lemma raw_pats_bytes pats f s i0 :
  (forall x t, existsb (fun e => starts_with e (x :: t)) pats = f x) ->
  raw_index_pats pats s i0 = index_byte_from f s i0.
Proof.
  intros H. revert i0. induction s as [|b s IH]; intros i0; [reflexivity|].
  cbn [raw_index_pats index_byte_from]. rewrite H. destruct (f b); [reflexivity|apply IH].
Qed.

(* ---------- non-special bytes ---------- *)

Lemma byte_pats_plain c s :
  0 <= c < 256 -> wf s -> is_ks c = false ->
  raw_index_pats (byte_pats c) s 0 = k_index_byte s c.
Proof.
  intros Hc Hw Hk. unfold k_index_byte.
  assert (G : forall i0, raw_index_pats (byte_pats c) s i0 = index_byte_from (byte_match c) s i0); [|apply G].
  induction s as [|b s IH]; intros i0; [reflexivity|].
  destruct (wf_cons_inv b s Hw) as [Hb Hw']. cbn [raw_index_pats index_byte_from]. rewrite (IH Hw').
  assert (E : existsb (fun p => starts_with p (b :: s)) (byte_pats c) = byte_match c b); [|rewrite E; reflexivity].
  unfold byte_pats, byte_match, is_ks, is_alpha, lower_ascii in *.
  destruct ((65 <=? c) && (c <=? 90)) eqn:U; destruct ((97 <=? c) && (c <=? 122)) eqn:L; cbn [orb andb];
    try (replace (c + 32 =? 107) with false by lia; replace (c + 32 =? 115) with false by lia);
    try (replace (c =? 107) with false by lia; replace (c =? 115) with false by lia);
    cbn [app existsb starts_with]; rewrite ?andb_true_r, ?orb_false_r;
    destruct ((65 <=? b) && (b <=? 90)) eqn:Ub; lia.
Qed.

(* ---------- K k S s ---------- *)

Lemma encode_kelvin : encode 8490 = kelvin.
Proof. reflexivity. Qed.
Lemma encode_long_s : encode 383 = long_s.
Proof. reflexivity. Qed.

Lemma nth_firstn_lt {A} (l : list A) n k d : (k < n)%nat -> nth k (firstn n l) d = nth k l d.
Proof.
  revert l k. induction n as [|n IH]; intros l k H; [lia|].
  destruct l as [|x l]; [destruct k; reflexivity|]. destruct k as [|k]; [reflexivity|]. cbn [firstn nth]. apply IH. lia.
Qed.

Lemma occ_firstn enc s n p :
  enc <> [] -> (n <= length s)%nat ->
  occ enc (firstn n s) p = occ enc s p && (p + length enc <=? n)%nat.
Proof.
  intros Hne Hn. destruct (occ enc (firstn n s) p) eqn:O.
  - apply (occ_nth _ _ _ Hne) in O as [L N]. rewrite firstn_length, Nat.min_l in L by exact Hn.
    symmetry. apply andb_true_iff. split; [|apply Nat.leb_le; exact L].
    apply (occ_nth _ _ _ Hne). split; [lia|]. intros k Hk. rewrite <- (N k Hk).
    rewrite nth_firstn_lt by lia. reflexivity.
  - destruct (occ enc s p) eqn:O2; [|reflexivity]. destruct (p + length enc <=? n)%nat eqn:Lb; [|reflexivity]. exfalso.
    apply (occ_nth _ _ _ Hne) in O2 as [L N]. apply Nat.leb_le in Lb.
    assert (X : occ enc (firstn n s) p = true); [|congruence].
    apply (occ_nth _ _ _ Hne). rewrite firstn_length, Nat.min_l by exact Hn. split; [exact Lb|].
    intros k Hk. rewrite <- (N k Hk). rewrite nth_firstn_lt by lia. reflexivity.
Qed.

(* width of the code point that starts at byte offset o *)
Definition seg_width (s : bytes) (o : Z) : Z := Z.of_nat (snd (decode (skipn (Z.to_nat o) s))).

Lemma skipn_nth_cons (s : bytes) p : (p < length s)%nat -> skipn p s = nth p s 0 :: skipn (S p) s.
Proof.
  revert p. induction s as [|b s IH]; intros p H; [cbn in H; lia|].
  destruct p as [|p]; [reflexivity|]. cbn [skipn nth]. apply IH. cbn [length] in H. lia.
Qed.

Lemma seg_width_ascii s p : (p < length s)%nat -> nth p s 0 < 128 -> seg_width s (Z.of_nat p) = 1.
Proof.
  intros Hp Hb. unfold seg_width. rewrite Nat2Z.id, (skipn_nth_cons s p Hp), decode_ascii by exact Hb. reflexivity.
Qed.

Lemma seg_width_occ s r p :
  valid_rune r = true -> occ (encode r) s p = true -> seg_width s (Z.of_nat p) = len (encode r).
Proof.
  intros V O. unfold seg_width, occ in *. rewrite Nat2Z.id.
  apply starts_with_app_eq in O as [rest E]. rewrite E, decode_encode by exact V. reflexivity.
Qed.

(* the code point found by a search for the rune m (m <> U+FFFD) has the width of m *)
Lemma seg_width_rune_index s m :
  wf s -> m <> RuneError -> 0 <= rune_index s m -> seg_width s (rune_index s m) = rune_len m.
Proof.
  intros Hw Hm H. unfold rune_index in *.
  destruct (index_where (fun x => x =? m) (runes s) 0) as [k|] eqn:E; cbn [offz] in *; [|lia].
  apply index_where_some in E as (d & -> & Hd & Hf & _). cbn [Nat.add]. unfold seg_width. rewrite Nat2Z.id.
  unfold runes in Hd, Hf. rewrite map_length in Hd.
  assert (Hseg : segs (skipn (off s d) s) = skipn d (segs s)) by apply segs_skipn_off.
  destruct (skipn (off s d) s) as [|b t] eqn:Sk.
  { rewrite segs_nil in Hseg. apply (f_equal (@length _)) in Hseg. rewrite skipn_length in Hseg. cbn in Hseg. lia. }
  assert (Hwt : wf (b :: t)) by (rewrite <- Sk; apply wf_skipn; exact Hw).
  rewrite segs_cons in Hseg.
  assert (Hd2 : decode (b :: t) = nth d (segs s) (0, 0%nat)).
  { rewrite <- (Nat.add_0_r d), <- nth_skipn_add, <- Hseg. reflexivity. }
  assert (Hr : fst (decode (b :: t)) = m).
  { rewrite Hd2. change 0 with (fst (0, 0%nat)) in Hf. rewrite map_nth in Hf. lia. }
  destruct (decode_class b t Hwt) as [D|(L & _)].
  - rewrite D in Hr. cbn in Hr. congruence.
  - rewrite L, Hr. reflexivity.
Qed.

Lemma finish_pair (R v sz0 : Z) (W : Z -> Z) :
  R = v -> (0 <= v -> sz0 = W v) -> exists sz, @Ok (Z * Z) (v, sz0) = Ok (R, sz) /\ (0 <= R -> sz = W R).
Proof. intros -> H. exists sz0. split; [reflexivity|exact H]. Qed.

Section B.
Variable native : bool.
Variable cutover : Z -> Z.

(* what indexByte does for one of the four letters: [l] the lower-case letter,
   [special] the encoding of the non-ASCII fold partner r *)
Lemma indexByte_ks s c l r special :
  wf s -> (c = l \/ c = l - 32) -> (l = 107 /\ r = 8490 /\ special = kelvin \/ l = 115 /\ r = 383 /\ special = long_s) ->
  exists sz, indexByte native cutover s c = Ok (raw_index_pats [[l]; [l - 32]; special] s 0, sz) /\
             (0 <= raw_index_pats [[l]; [l - 32]; special] s 0 -> sz = seg_width s (raw_index_pats [[l]; [l - 32]; special] s 0)).
Proof.
  intros Hw Hc Hl.
  assert (Henc : encode r = special /\ valid_rune r = true /\ 128 <= r /\ r <> RuneError /\ special <> [] /\
                 (forall x, In x special -> 128 <= x)).
  { destruct Hl as [(-> & -> & ->)|(-> & -> & ->)]; (repeat split; try reflexivity; try discriminate; try (unfold RuneError; lia));
      intros x Hx; cbn in Hx; lia. }
  destruct Henc as (Eenc & Vr & Hr & Hre & Hsp & Hhi).
  set (sz := len special).
  assert (Hsz : 2 <= sz <= 3) by (unfold sz; destruct Hl as [(_ & _ & ->)|(_ & _ & ->)]; cbn; lia).
  set (pats := [[l]; [l - 32]; special]).
  (* pat_at splits into the ASCII byte test A and the occurrence test B *)
  assert (HA : forall x, byte_match c x = (l =? x) || (l - 32 =? x)).
  { intros x. unfold byte_match, is_alpha, lower_ascii.
    destruct Hl as [(-> & _)|(-> & _)]; destruct Hc as [-> | ->];
      repeat match goal with |- context [if ?b then _ else _] => destruct b eqn:? end; lia. }
  assert (Hpat : forall p, (p < length s)%nat -> pat_at pats s p = byte_match c (nth p s 0) || occ special s p).
  { intros p Hp. unfold pat_at, pats. cbn [existsb]. rewrite orb_false_r.
    fold (occ special s p). rewrite HA.
    destruct (skipn p s) as [|x t] eqn:Sk.
    - apply (f_equal (@length Z)) in Sk. rewrite skipn_length in Sk. cbn in Sk. lia.
    - assert (Ex : nth p s 0 = x).
      { rewrite <- (Nat.add_0_r p), <- nth_skipn_add, Sk. reflexivity. }
      rewrite Ex. cbn [starts_with]. rewrite !andb_true_r, orb_assoc. reflexivity. }
  (* an occurrence of [special] before an ASCII position ends before it *)
  assert (Hroom : forall p q, occ special s p = true -> (p < q)%nat -> (q < length s)%nat -> nth q s 0 < 128 ->
                              (p + Z.to_nat sz <= q)%nat).
  { intros p q O Hpq Hq Hlt. destruct (le_lt_dec (p + Z.to_nat sz) q) as [|Hin]; [assumption|]. exfalso.
    apply (occ_nth _ _ _ Hsp) in O as [L N]. unfold sz, len in Hin.
    specialize (N (q - p)%nat ltac:(lia)). replace (p + (q - p))%nat with q in N by lia.
    assert (128 <= nth (q - p) special 0) by (apply Hhi, nth_In; lia). lia. }
  assert (Hszocc : forall p, occ special s p = true -> sz = seg_width s (Z.of_nat p)).
  { intros p O. rewrite <- Eenc in O. rewrite (seg_width_occ s r p Vr O), Eenc. reflexivity. }
  unfold indexByte. destruct s as [|b0 s0] eqn:Es; [exists 1; split; [reflexivity|cbn; lia]|]. rewrite <- Es in *.
  replace (is_nil s) with false by (rewrite Es; reflexivity).
  replace (if (c =? 75) || (c =? 107) then Some (8490, 3) else if (c =? 83) || (c =? 115) then Some (383, 2) else None)
    with (Some (r, sz)).
  2:{ destruct Hl as [(-> & -> & ->)|(-> & -> & ->)]; destruct Hc as [-> | ->]; reflexivity. }
  set (n := k_index_byte s c).
  (* the first ASCII match *)
  assert (Hn : (n = -1 /\ forall k, (k < length s)%nat -> byte_match c (nth k s 0) = false) \/
               (exists d, n = Z.of_nat d /\ (d < length s)%nat /\ byte_match c (nth d s 0) = true /\
                          forall k, (k < d)%nat -> byte_match c (nth k s 0) = false)).
  { unfold n, k_index_byte. destruct (index_byte_from_spec (byte_match c) s 0) as [[E N]|[(d & E & Hd & Hf & N)|Hneg]]; [left|right|lia].
    - split; assumption.
    - exists d. repeat split; try assumption; try lia. }
  assert (Hmatch_ascii : forall k, byte_match c (nth k s 0) = true -> nth k s 0 < 128).
  { intros k Hk. rewrite HA in Hk. destruct Hl as [(-> & _)|(-> & _)]; lia. }
  destruct Hn as [[En Nn]|(d & En & Hd & Hfd & Nd)].
  - (* no ASCII match: the whole string is searched for the encoding *)
    rewrite En. cbn [Z.ltb andb]. replace (0 <? -1) with false by reflexivity. cbn [andb].
    rewrite (indexRuneCase_ok native cutover s r Hw). cbn [bind].
    rewrite <- (std_index_encode s r Hw Vr Hr Hre), Eenc. rewrite Z.eqb_refl. cbn [orb].
    destruct (occ_least_or_none special s) as [No|(p & Hp & Hlp)].
    + rewrite (std_index_absent _ _ No). apply finish_pair; [|lia]. apply raw_pats_absent.
      intros p Hp. rewrite Hpat by exact Hp. rewrite Nn, No by exact Hp. reflexivity.
    + rewrite (std_index_least _ _ p Hsp Hp Hlp). apply finish_pair; [|intros _; apply Hszocc; exact Hp].
      assert (Hpl : (p < length s)%nat).
      { apply (occ_nth _ _ _ Hsp) in Hp as [L _]. destruct special; [congruence|cbn in L; lia]. }
      rewrite (raw_pats_least pats s 0 p); [lia| |exact Hpl|].
      * rewrite Hpat by exact Hpl. rewrite Hp. apply orb_true_r.
      * intros q Hq. rewrite Hpat by lia. rewrite Nn, Hlp by lia. reflexivity.
  - (* first ASCII match at d *)
    assert (Hleast_d : (forall p, (p < d)%nat -> occ special s p = false) ->
                       raw_index_pats pats s 0 = Z.of_nat d).
    { intros Nb. rewrite (raw_pats_least pats s 0 d); [lia| |exact Hd|].
      - rewrite Hpat by exact Hd. rewrite Hfd. reflexivity.
      - intros q Hq. rewrite Hpat by lia. rewrite Nd, Nb by lia. reflexivity. }
    rewrite En.
    destruct ((0 <? Z.of_nat d) && (Z.of_nat d <? sz)) eqn:Small.
    { apply finish_pair; [|intros _; symmetry; apply seg_width_ascii; [exact Hd|apply Hmatch_ascii; exact Hfd]].
      apply Hleast_d. intros p Hp.
      destruct (occ special s p) eqn:O; [|reflexivity]. exfalso.
      pose proof (Hroom p d O Hp Hd (Hmatch_ascii d Hfd)). lia. }
    set (s' := if 0 <? Z.of_nat d then firstn (Z.to_nat (Z.of_nat d)) s else s).
    assert (Hw' : wf s') by (unfold s'; destruct (0 <? Z.of_nat d); [apply wf_firstn|]; exact Hw).
    rewrite (indexRuneCase_ok native cutover s' r Hw'). cbn [bind].
    rewrite <- (std_index_encode s' r Hw' Vr Hr Hre), Eenc.
    replace (Z.of_nat d =? -1) with false by lia. cbn [orb].
    destruct (0 <? Z.of_nat d) eqn:Pos.
    + (* d >= sz: the search space is s[:d] *)
      unfold s'. rewrite Nat2Z.id.
      destruct (occ_least_or_none special (firstn d s)) as [No|(p & Hp & Hlp)].
      * rewrite (std_index_absent _ _ No). rewrite Z.eqb_refl. cbn [negb andb].
        apply finish_pair; [|intros _; symmetry; apply seg_width_ascii; [exact Hd|apply Hmatch_ascii; exact Hfd]].
        apply Hleast_d. intros p Hp. destruct (occ special s p) eqn:O; [|reflexivity]. exfalso.
        pose proof (Hroom p d O Hp Hd (Hmatch_ascii d Hfd)) as R.
        specialize (No p). rewrite (occ_firstn special s d p Hsp ltac:(lia)), O in No.
        unfold sz, len in R. replace (p + length special <=? d)%nat with true in No by lia. discriminate.
      * rewrite (std_index_least _ _ p Hsp Hp Hlp).
        rewrite (occ_firstn special s d p Hsp ltac:(lia)) in Hp. apply andb_true_iff in Hp as [Op Lp].
        apply Nat.leb_le in Lp.
        assert (0 < length special)%nat by (destruct special; [congruence|cbn; lia]).
        replace (negb (Z.of_nat p =? -1) && (Z.of_nat p <? Z.of_nat d)) with true by lia.
        apply finish_pair; [|intros _; apply Hszocc; exact Op].
        rewrite (raw_pats_least pats s 0 p); [lia| |lia|].
        -- rewrite Hpat by lia. rewrite Op. apply orb_true_r.
        -- intros q Hq. rewrite Hpat by lia. rewrite Nd by lia. cbn [orb].
           specialize (Hlp q Hq). rewrite (occ_firstn special s d q Hsp ltac:(lia)) in Hlp.
           destruct (occ special s q) eqn:Oq; [|reflexivity]. exfalso.
           pose proof (Hroom q d Oq ltac:(lia) Hd (Hmatch_ascii d Hfd)) as R. unfold sz, len in R.
           replace (q + length special <=? d)%nat with true in Hlp by lia. discriminate.
    + (* d = 0 *)
      assert (d = 0%nat) by lia. subst d.
      replace (negb (std_index s' special =? -1) && (std_index s' special <? Z.of_nat 0)) with false.
      * apply finish_pair; [|intros _; symmetry; apply seg_width_ascii; [exact Hd|apply Hmatch_ascii; exact Hfd]].
        apply Hleast_d. intros p Hp. lia.
      * unfold std_index. destruct (raw_index_ge [special] s' 0 ltac:(lia)) as [E|E]; lia.
Qed.

Theorem indexbyte_refines s c :
  wf s -> 0 <= c < 256 -> IndexByte native cutover s c = Ok (index_byte s c).
Proof.
  intros Hw Hc. unfold IndexByte, index_byte. destruct (is_ks c) eqn:K.
  - assert (Hcase : (c = 107 \/ c = 75) \/ (c = 115 \/ c = 83)) by (unfold is_ks in K; lia).
    destruct Hcase as [Hk|Hs].
    + destruct (indexByte_ks s c 107 8490 kelvin Hw ltac:(lia) ltac:(left; auto)) as (sz & E & _).
      rewrite E. cbn [bind fst]. f_equal. unfold byte_pats, is_alpha, lower_ascii.
      destruct Hk as [-> | ->]; reflexivity.
    + destruct (indexByte_ks s c 115 383 long_s Hw ltac:(lia) ltac:(right; auto)) as (sz & E & _).
      rewrite E. cbn [bind fst]. f_equal. unfold byte_pats, is_alpha, lower_ascii.
      destruct Hs as [-> | ->]; reflexivity.
  - rewrite byte_pats_plain by assumption. reflexivity.
Qed.

Theorem indexbyteascii_refines s c : IndexByteASCII s c = Ok (index_byte_ascii s c).
Proof. reflexivity. Qed.

End B.
