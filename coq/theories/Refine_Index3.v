(* Refine_Index3.v — Impl6.Index refines Spec.index: the dispatch (empty,
   single byte, single code point, needle at least as long as the haystack,
   the native search for caseless ASCII needles, brute force for short
   haystacks, Rabin-Karp when one of the first two code points is ill-formed)
   in front of the main loop. *)
From Strcase Require Import Base Utf8 Utf8Facts Utf8Last Spec SpecFacts SpecIndex SpecChars Impl Impl4 Impl5 Impl6 Kernels
  Refine_Compare Refine_Prefix Refine_RuneCase Utf8Enc Refine_RuneCase2 Refine_Byte Refine_Rune Refine_RK Refine_Index
  Refine_Index2 Fold FoldFacts FoldFacts2.
From Coq Require Import ZifyBool ZifyNat.

(* ---------- a needle of one code point ---------- *)

Lemma find_first_single x l k0 :
  find_first [x] l k0 = index_where (fun y => y =? x) l k0.
Proof.
  revert k0. induction l as [|y l IH]; intros k0; [reflexivity|].
  cbn [find_first index_where prefixb]. rewrite andb_true_r, (Z.eqb_sym x y).
  destruct (y =? x); [reflexivity|apply IH].
Qed.

Lemma index_single fold s sub r :
  key fold sub = [fold r] -> valid_rune r = true -> index fold s sub = index_rune fold s r.
Proof. intros K V. unfold index, index_rune. rewrite K, V, find_first_single. reflexivity. Qed.

Lemma lor_lt a b : 0 <= a < 128 -> 0 <= b < 128 -> Z.lor a b < 128.
Proof.
  intros Ha Hb. assert (H0 : 0 <= Z.lor a b) by (apply Z.lor_nonneg; lia).
  destruct (Z.eq_dec (Z.lor a b) 0) as [E|N]; [lia|].
  change 128 with (2 ^ 7). apply Z.log2_lt_pow2; [lia|]. rewrite Z.log2_lor by lia.
  assert (Z.log2 a < 7) by (destruct (Z.eq_dec a 0) as [->|]; [cbn; lia|apply Z.log2_lt_pow2; lia]).
  assert (Z.log2 b < 7) by (destruct (Z.eq_dec b 0) as [->|]; [cbn; lia|apply Z.log2_lt_pow2; lia]).
  lia.
Qed.

(* ---------- caseless ASCII needles: the native byte search ---------- *)

Lemma segs_ascii_app q rest :
  Forall (fun b => b < 128) q -> segs (q ++ rest) = map (fun b => (b, 1%nat)) q ++ segs rest.
Proof.
  induction q as [|b q IH]; intros H; [reflexivity|]. inversion H; subst.
  cbn [app map]. rewrite segs_ascii by assumption. f_equal. apply IH. assumption.
Qed.

Section Caseless.
Variable fold : Z -> Z.
Hypothesis Hascii : forall r x, 0 <= r < 128 -> int32 x -> (fold x = fold r <-> In x (FoldFacts2.ascii_cands r)).

Notation K s := (key fold s).

Definition nl (b : Z) : Prop := 0 <= b < 128 /\ is_alpha b = false.

Lemma nl_orbit b x : nl b -> int32 x -> fold x = fold b -> x = b.
Proof.
  intros [Hb Ha] Hx E. apply (Hascii b x Hb Hx) in E. unfold FoldFacts2.ascii_cands in E.
  unfold is_alpha in Ha. rewrite Ha in E. destruct E as [<-|[]]. reflexivity.
Qed.

Lemma nonLetterASCII_nl sub : wf sub -> nonLetterASCII sub = true -> Forall nl sub.
Proof.
  intros Hw H. unfold nonLetterASCII in H. rewrite forallb_forall in H. apply Forall_forall. intros b Hb.
  unfold wf in Hw. rewrite Forall_forall in Hw. specialize (Hw b Hb). specialize (H b Hb).
  pose proof (chk_pairs_spec _ or20_match_chk) as C.
  split; [|].
  - lia.
  - destruct (is_alpha b) eqn:A; [|reflexivity]. exfalso. unfold is_alpha in A.
    assert (Hb7 : b < 128) by lia.
    (* a letter or-ed with 0x20 is a lower-case letter *)
    assert (E : or20 b = if (65 <=? b) && (b <=? 90) then b + 32 else b).
    { specialize (C b b Hw Hw). cbv beta in C. unfold is_alpha in C. rewrite A in C.
      clear C. unfold or20. destruct ((65 <=? b) && (b <=? 90)) eqn:U.
      - assert (Hr : 65 <= b <= 90) by lia. clear -Hr.
        assert (G : forallb (fun x => Z.lor x 32 =? x + 32) (map (fun k => 65 + Z.of_nat k) (seq 0 26)) = true) by (vm_compute; reflexivity).
        rewrite forallb_forall in G. specialize (G b). rewrite Z.eqb_eq in G. apply G.
        apply in_map_iff. exists (Z.to_nat (b - 65)). split; [lia|]. apply in_seq. lia.
      - assert (Hr : 97 <= b <= 122) by lia. clear -Hr.
        assert (G : forallb (fun x => Z.lor x 32 =? x) (map (fun k => 97 + Z.of_nat k) (seq 0 26)) = true) by (vm_compute; reflexivity).
        rewrite forallb_forall in G. specialize (G b). rewrite Z.eqb_eq in G. apply G.
        apply in_map_iff. exists (Z.to_nat (b - 97)). split; [lia|]. apply in_seq. lia. }
    rewrite E in H. destruct ((65 <=? b) && (b <=? 90)) eqn:U; lia.
Qed.

Lemma key_nl sub : Forall nl sub -> K sub = map fold sub.
Proof. intros H. apply key_all_ascii. eapply Forall_impl; [|exact H]. intros b [Hb _]. lia. Qed.

(* a raw occurrence of a caseless ASCII needle is a match at a boundary, and conversely *)
Lemma occ_match s sub p :
  wf s -> sub <> [] -> Forall nl sub -> occ sub s p = true ->
  exists a, (a <= rune_count s)%nat /\ off s a = p /\ match_at fold s sub a = true.
Proof.
  intros Hw Hne Hnl O. unfold occ in O. apply starts_with_app_eq in O as [rest E].
  destruct sub as [|b q]; [congruence|].
  assert (Hs : s = firstn p s ++ b :: (q ++ rest)).
  { rewrite <- (firstn_skipn p s) at 1. rewrite E. reflexivity. }
  assert (Hb : is_start b = true) by (inversion Hnl as [|? ? [Hb _] _]; subst; unfold is_start, is_cont; lia).
  pose proof (segs_app_start (firstn p s) b (q ++ rest) Hb) as Sg. rewrite <- Hs in Sg.
  assert (Hlt : Forall (fun x => x < 128) (b :: q)) by (eapply Forall_impl; [|exact Hnl]; intros x [Hx _]; lia).
  change (b :: q ++ rest) with ((b :: q) ++ rest) in Sg. rewrite (segs_ascii_app (b :: q) rest Hlt) in Sg.
  assert (Hpl : (p <= length s)%nat).
  { apply (f_equal (@length Z)) in E. rewrite skipn_length, app_length in E. cbn [length] in E. lia. }
  exists (rune_count (firstn p s)). split; [|split].
  - unfold rune_count at 2. rewrite Sg, app_length. unfold rune_count. lia.
  - unfold off, widths. rewrite Sg, map_app, firstn_app.
    unfold rune_count. rewrite <- (map_length snd (segs (firstn p s))), Nat.sub_diag, firstn_all. cbn [firstn]. rewrite app_nil_r.
    fold (widths (firstn p s)). rewrite widths_sum, firstn_length. lia.
  - unfold SpecIndex.match_at. rewrite (key_nl (b :: q) Hnl). unfold Spec.key at 1. rewrite Sg, map_app, skipn_app.
    unfold rune_count. rewrite <- (map_length (fun d => fold (fst d)) (segs (firstn p s))), skipn_all, Nat.sub_diag. cbn [skipn app].
    rewrite map_app, map_map. cbn [fst]. apply prefixb_app.
Qed.

Lemma match_occ s sub a :
  wf s -> Forall nl sub -> match_at fold s sub a = true -> occ sub s (off s a) = true.
Proof.
  intros Hw Hnl. revert a. induction sub as [|b q IH]; intros a M; [reflexivity|].
  inversion Hnl as [|? ? Hb Hq]; subst.
  unfold SpecIndex.match_at in M. rewrite (key_nl (b :: q) Hnl) in M. cbn [map] in M.
  destruct (skipn a (K s)) as [|y l] eqn:Sk; [discriminate|]. cbn [prefixb] in M. apply andb_true_iff in M as [Ey Mq].
  assert (Ha : (a < rune_count s)%nat).
  { destruct (le_lt_dec (rune_count s) a) as [Hge|]; [|assumption]. rewrite skipn_all2 in Sk by (rewrite (key_length fold); lia). discriminate. }
  assert (Ey' : y = fold (nth a (runes s) 0)).
  { rewrite <- (nth_key fold s a Ha). rewrite <- (Nat.add_0_r a), <- nth_skipn_add, Sk. reflexivity. }
  assert (Hr : nth a (runes s) 0 = b).
  { apply nl_orbit; [exact Hb|apply (runes_int32' s _ Hw), nth_In; rewrite runes_length; exact Ha|].
    apply Z.eqb_eq in Ey. rewrite <- Ey'. symmetry. exact Ey. }
  (* the code point b < 0x80 is the single byte b *)
  destruct (rune_at s a Ha) as (Ho & _ & F).
  destruct (skipn (off s a) s) as [|c t] eqn:Sks.
  { exfalso. apply (f_equal (@length Z)) in Sks. rewrite skipn_length in Sks. cbn in Sks. lia. }
  rewrite first_rune_cons in F.
  assert (Ef : fst (decode (c :: t)) = nth a (runes s) 0) by congruence.
  assert (Ew : Z.of_nat (snd (decode (c :: t))) = Z.of_nat (off s (S a)) - Z.of_nat (off s a)) by congruence.
  assert (Hwc : wf (c :: t)) by (rewrite <- Sks; apply wf_skipn; exact Hw).
  assert (Hc : c < 128).
  { destruct (Z_lt_le_dec c 128); [assumption|]. pose proof (decode_hi_not_ascii c t Hwc ltac:(lia)). destruct Hb. lia. }
  rewrite decode_ascii in Ef, Ew by exact Hc. cbn [fst snd] in Ef, Ew.
  assert (Hq' : match_at fold s q (S a) = true).
  { unfold SpecIndex.match_at. rewrite (key_nl q Hq). replace (skipn (S a) (K s)) with l; [exact Mq|].
    replace (S a) with (a + 1)%nat by lia. rewrite <- skipn_skipn_add, Sk. reflexivity. }
  specialize (IH Hq (S a) Hq'). unfold occ in *. rewrite Sks. cbn [starts_with].
  replace (b =? c) with true by lia. cbn [andb].
  replace t with (skipn (off s (S a)) s); [exact IH|].
  replace (off s (S a)) with (off s a + 1)%nat by lia. rewrite <- skipn_skipn_add, Sks. reflexivity.
Qed.

Theorem index_caseless_ascii s sub :
  wf s -> wf sub -> sub <> [] -> nonLetterASCII sub = true -> index fold s sub = std_index s sub.
Proof.
  intros Hw Hwsub Hne NL. pose proof (nonLetterASCII_nl sub Hwsub NL) as Hnl.
  destruct (occ_least_or_none sub s) as [No|(q & Hq & Hlq)].
  - rewrite (std_index_absent _ _ No). apply (index_none fold). intros a.
    destruct (match_at fold s sub a) eqn:M; [|reflexivity]. apply (match_occ s sub a Hw Hnl) in M. rewrite No in M. discriminate.
  - rewrite (std_index_least _ _ q Hne Hq Hlq).
    destruct (occ_match s sub q Hw Hne Hnl Hq) as (a & Ha & Eo & M). rewrite <- Eo.
    apply (index_at fold); [exact M| |exact Ha].
    intros a' Hlt. destruct (match_at fold s sub a') eqn:M'; [|reflexivity].
    apply (match_occ s sub a' Hw Hnl) in M'. rewrite (Hlq (off s a')) in M'; [discriminate|].
    rewrite <- Eo. apply off_lt; lia.
Qed.

End Caseless.

(* ---------- the whole of Index ---------- *)

Lemma existsb_In' x l : existsb (Z.eqb x) l = true <-> In x l.
Proof. rewrite existsb_exists. split; [intros (y & Hy & E); apply Z.eqb_eq in E; subst y; exact Hy|intros H; exists x; split; [exact H|apply Z.eqb_refl]]. Qed.

Lemma bool_eq_iff' (a b : bool) : (a = true <-> b = true) -> a = b.
Proof. destruct a, b; intros [H1 H2]; try reflexivity; [symmetry; apply H1; reflexivity|apply H2; reflexivity]. Qed.


Section Top.
Variables fold lower : Z -> Z.
Hypothesis FF : fold_facts fold lower.
Hypothesis WF : width_facts fold.
Variable native : bool.
Variable cutover : Z -> Z.
Variable fold_map : Z -> option (list Z).
Variable fold_map_excl : Z -> Z * Z.
Variable upper_lower : Z -> Z * Z * bool.
Variables maxBruteForce maxLen primeRK nativeMax rtMaxLen : Z.
Variable p : pkg.
(* every needle the fast path hands to the runtime's native Index is within that function's contract *)
Hypothesis Hcontract : nativeMax <= rtMaxLen.

Notation ul_hack := (Impl6.ul_hack upper_lower).
Notation K s := (key fold s).

Hypothesis Hcands : forall r x, 128 <= r <= MaxRune -> int32 x -> (fold x = fold r <-> In x (cands_of fold_map upper_lower r)).
Hypothesis Hcrange : forall r x, 128 <= r <= MaxRune -> In x (cands_of fold_map upper_lower r) -> 0 <= x <= MaxRune.
Hypothesis Hascii : forall r x, 0 <= r < 128 -> int32 x -> (fold x = fold r <-> In x (FoldFacts2.ascii_cands r)).
Hypothesis Herr : forall x, int32 x -> (fold x = fold RuneError <-> x = RuneError).
Hypothesis Hcand2 : forall u r, 0 <= u <= MaxRune -> int32 r ->
  (cand (fst (ul_hack u)) (snd (ul_hack u)) (fold_map_excl u) r = true <-> fold r = fold u).
Hypothesis Hulv : forall u, valid_rune u = true -> u <> RuneError ->
  fold (fst (ul_hack u)) = fold u /\ fold (snd (ul_hack u)) = fold u /\
  valid_rune (fst (ul_hack u)) = true /\ valid_rune (snd (ul_hack u)) = true.

Notation indexRune := (Impl5.indexRune native cutover fold_map upper_lower).
Notation indexRune2 := (Impl5.indexRune2 native cutover).
Notation IndexRune := (Impl5.IndexRune native cutover fold_map upper_lower).
Notation IndexByte := (Impl5.IndexByte native cutover).

Lemma valid_range r : valid_rune r = true -> 0 <= r <= MaxRune.
Proof. unfold valid_rune, MaxRune. lia. Qed.

Lemma first_in_P_fold rest u v :
  fold v = fold u -> first_in (fun x => fold x =? fold v) rest = first_in (fun x => fold x =? fold u) rest.
Proof. intros E. rewrite E. reflexivity. Qed.

(* the jump of the main loop finds the next code point in u0's orbit, with its width *)
Lemma jump_ok u0 rest :
  valid_rune u0 = true -> u0 <> RuneError -> wf rest ->
  exists sz, (if fst (fold_map_excl u0) =? 0 then indexRune2 rest (snd (ul_hack u0)) (fst (ul_hack u0))
              else indexRune rest (snd (ul_hack u0))) =
             Ok (first_in (fun x => fold x =? fold u0) rest, sz) /\
             (0 <= first_in (fun x => fold x =? fold u0) rest -> sz = seg_width rest (first_in (fun x => fold x =? fold u0) rest)).
Proof.
  intros V Hne Hw. destruct (Hulv u0 V Hne) as (FU & Fl & VU & Vl).
  set (U0 := fst (ul_hack u0)) in *. set (l0 := snd (ul_hack u0)) in *.
  pose proof (valid_range u0 V) as Ru. pose proof (valid_range U0 VU) as RU. pose proof (valid_range l0 Vl) as Rl.
  assert (NeU : U0 <> RuneError).
  { intros E. apply Hne. apply Herr; [unfold int32, MaxRune in *; lia|]. rewrite <- FU, E. reflexivity. }
  assert (Nel : l0 <> RuneError).
  { intros E. apply Hne. apply Herr; [unfold int32, MaxRune in *; lia|]. rewrite <- Fl, E. reflexivity. }
  assert (Hint : forall x, In x (runes rest) -> int32 x) by (intros x Hx; apply (runes_int32' rest x Hw Hx)).
  destruct (fst (fold_map_excl u0) =? 0) eqn:Z0.
  - (* no extra folds: upper / lower only *)
    assert (EP : first_in (fun x => fold x =? fold u0) rest = first_in (fun x => (x =? l0) || (x =? U0)) rest).
    { apply first_in_ext. intros x Hx. apply bool_eq_iff'. rewrite Z.eqb_eq.
      rewrite <- (Hcand2 u0 x Ru (Hint x Hx)). fold U0 l0. unfold cand. rewrite Z0. cbn [negb andb]. rewrite orb_false_r.
      rewrite (orb_comm (x =? l0)). reflexivity. }
    rewrite EP.
    destruct (Z_lt_le_dec l0 128) as [Al|Al]; destruct (Z_lt_le_dec U0 128) as [AU|AU].
    + (* both ASCII: indexByte *)
      unfold Impl5.indexRune2. pose proof (lor_lt l0 U0 ltac:(lia) ltac:(lia)) as L. replace (Z.lor l0 U0 <? 128) with true by lia.
      assert (El : Z.land l0 127 = l0).
      { change 127 with (Z.ones 7). rewrite Z.land_ones by lia. apply Z.mod_small. change (2 ^ 7) with 128. lia. }
      rewrite El. destruct (indexByte_pair_ok native cutover fold fold_map upper_lower Hcands Hcrange Hascii Herr rest l0 Hw ltac:(lia)) as (sz & E & Hsz).
      assert (Ei : index_byte rest l0 = first_in (fun x => (x =? l0) || (x =? U0)) rest).
      { rewrite (index_byte_first_in rest l0 Hw ltac:(lia)). rewrite <- EP. apply first_in_ext. intros x Hx.
        apply bool_eq_iff'. rewrite existsb_In', Z.eqb_eq. rewrite <- Fl. symmetry. apply Hascii; [lia|apply Hint; exact Hx]. }
      rewrite <- Ei. exists sz. split; assumption.
    + destruct (indexRune2_ok native cutover fold fold_map upper_lower Hcands Hcrange Hascii Herr rest l0 U0 Hw ltac:(lia) ltac:(lia) ltac:(right; lia) Nel NeU) as (sz & E & Hsz).
      assert (Ez : zmin (rune_index rest l0) (rune_index rest U0) = first_in (fun x => (x =? l0) || (x =? U0)) rest).
      { change (rune_index rest l0) with (first_in (fun x => x =? l0) rest). change (rune_index rest U0) with (first_in (fun x => x =? U0) rest).
        rewrite <- first_in_or. reflexivity. }
      rewrite <- Ez. exists sz. split; assumption.
    + destruct (indexRune2_ok native cutover fold fold_map upper_lower Hcands Hcrange Hascii Herr rest l0 U0 Hw ltac:(lia) ltac:(lia) ltac:(left; lia) Nel NeU) as (sz & E & Hsz).
      assert (Ez : zmin (rune_index rest l0) (rune_index rest U0) = first_in (fun x => (x =? l0) || (x =? U0)) rest).
      { change (rune_index rest l0) with (first_in (fun x => x =? l0) rest). change (rune_index rest U0) with (first_in (fun x => x =? U0) rest).
        rewrite <- first_in_or. reflexivity. }
      rewrite <- Ez. exists sz. split; assumption.
    + destruct (indexRune2_ok native cutover fold fold_map upper_lower Hcands Hcrange Hascii Herr rest l0 U0 Hw ltac:(lia) ltac:(lia) ltac:(left; lia) Nel NeU) as (sz & E & Hsz).
      assert (Ez : zmin (rune_index rest l0) (rune_index rest U0) = first_in (fun x => (x =? l0) || (x =? U0)) rest).
      { change (rune_index rest l0) with (first_in (fun x => x =? l0) rest). change (rune_index rest U0) with (first_in (fun x => x =? U0) rest).
        rewrite <- first_in_or. reflexivity. }
      rewrite <- Ez. exists sz. split; assumption.
  - (* extra folds: the general rune search for l0 *)
    destruct (indexRune_ok native cutover fold fold_map upper_lower Hcands Hcrange Hascii Herr rest l0 Hw) as (sz & E & Hsz).
    rewrite (index_rune_first_in fold rest l0 Vl), (first_in_P_fold rest u0 l0 Fl) in E, Hsz.
    exists sz. split; [exact E|]. intros H0. apply Hsz; assumption.
Qed.


Lemma index_sign s sub : index fold s sub = -1 \/ 0 <= index fold s sub.
Proof. unfold index. destruct (find_first _ _ _); cbn [offz]; lia. Qed.

Lemma first_in_cases P s :
  (first_in P s = -1 /\ forall x, In x (runes s) -> P x = false) \/
  (exists b, (b < rune_count s)%nat /\ first_in P s = Z.of_nat (off s b) /\ P (nth b (runes s) 0) = true /\
             forall j, (j < b)%nat -> P (nth j (runes s) 0) = false).
Proof.
  unfold first_in. destruct (index_where P (runes s) 0) as [k|] eqn:E; cbn [offz].
  - right. apply index_where_some in E as (d & -> & Hd & Hp & Hn). exists d. cbn [Nat.add]. rewrite runes_length in Hd.
    repeat split; assumption.
  - left. split; [reflexivity|]. apply (index_where_none _ _ _ E).
Qed.

Lemma single_rune c t : snd (decode (c :: t)) = length (c :: t) -> runes (c :: t) = [fst (decode (c :: t))].
Proof. intros E. unfold runes. rewrite segs_cons, E, skipn_all. reflexivity. Qed.

Lemma decode_valid c t : wf (c :: t) -> valid_rune (fst (decode (c :: t))) = true.
Proof.
  intros Hw. destruct (decode (c :: t)) as [r w] eqn:D. cbn [fst].
  destruct (Z.eq_dec r RuneError) as [->|N]; [reflexivity|].
  assert (Hne : decode (c :: t) <> RE1) by (rewrite D; unfold RE1; intros E; inversion E; contradiction).
  destruct (encode_decode c t Hw Hne) as [_ V]. rewrite D in V. exact V.
Qed.

Lemma two_runes c t : snd (decode (c :: t)) <> length (c :: t) -> (2 <= rune_count (c :: t))%nat.
Proof.
  intros N. pose proof (decode_width_le (c :: t)) as L. rewrite rune_count_cons.
  destruct (skipn (snd (decode (c :: t))) (c :: t)) as [|d u] eqn:Sk.
  - apply (f_equal (@length Z)) in Sk. rewrite skipn_length in Sk. cbn [length] in *. lia.
  - rewrite rune_count_cons. lia.
Qed.

Theorem index_refines s sub :
  wf s -> wf sub ->
  Impl6.Index native cutover fold lower fold_map fold_map_excl upper_lower maxBruteForce maxLen primeRK nativeMax rtMaxLen p s sub = Ok (index fold s sub).
Proof.
  intros Hws Hwsub. unfold Impl6.Index.
  destruct sub as [|c t]; [rewrite index_empty; reflexivity|].
  cbv iota. rewrite first_rune_cons. cbn [bind].
  pose proof (decode_valid c t Hwsub) as Vr. pose proof (decode_width_pos c t) as Wp. pose proof (decode_width_le (c :: t)) as Wl.
  pose proof (single_rune c t) as Hsingle. pose proof (two_runes c t) as Htwo.
  assert (F0' : first_rune (c :: t) = Ok (fst (decode (c :: t)), Z.of_nat (snd (decode (c :: t))))) by apply first_rune_cons.
  assert (Hc : 0 <= c < 256) by (inversion Hwsub; assumption).
  assert (Hlen1 : len (c :: t) = 1 -> t = []) by (destruct t; [reflexivity|unfold len; cbn [length]; lia]).
  pose proof (decode_single_hi c) as Dhi. pose proof (decode_ascii c t) as Dlo.
  set (sub := c :: t) in *. set (r := fst (decode sub)) in *. set (w := snd (decode sub)) in *.
  assert (Hne : sub <> []) by (unfold sub; discriminate).
  assert (Hkey1 : w = length sub -> key fold sub = [fold r]).
  { intros E. rewrite key_runes_map, (Hsingle E). reflexivity. }
  destruct ((len sub =? 1) && negb (r =? RuneError)) eqn:C1.
  { (* a single ASCII byte *)
    assert (Et : t = []) by (apply Hlen1; lia).
    assert (Ac : c < 128).
    { destruct (Z_lt_le_dec c 128) as [A|A]; [exact A|]. exfalso. unfold r, sub in C1. rewrite Et, (Dhi A) in C1. cbn in C1. lia. }
    assert (Er : r = c) by (unfold r; rewrite (Dlo Ac); reflexivity).
    assert (Ew : w = 1%nat) by (unfold w; rewrite (Dlo Ac); reflexivity).
    rewrite Er in *. rewrite (indexbyte_refines native cutover s c Hws Hc). f_equal. symmetry.
    rewrite (index_single fold s sub c); [|apply Hkey1; rewrite Ew; unfold sub; rewrite Et; reflexivity|exact Vr].
    rewrite (index_rune_first_in fold s c Vr), (index_byte_first_in s c Hws ltac:(lia)). apply first_in_ext. intros x Hx.
    apply bool_eq_iff'. rewrite existsb_In', Z.eqb_eq. apply Hascii; [lia|apply (runes_int32' s x Hws Hx)]. }
  destruct (len sub =? Z.of_nat w) eqn:C2.
  { (* a single code point *)
    rewrite (indexrune_refines native cutover fold fold_map upper_lower Hcands Hcrange Hascii Herr s r Hws). f_equal. symmetry.
    apply index_single; [apply Hkey1; unfold len in C2; lia|exact Vr]. }
  assert (H2 : (2 <= rune_count sub)%nat) by (apply Htwo; unfold len in C2; lia).
  destruct (split2_ok fold sub Hwsub H2) as (u0 & sz0 & u1 & sz1 & needle & F0 & S0 & F1 & S1 & S2 & Eo1 & Eo2 & Eu0 & Eu1 & SP).
  rewrite F0' in F0. injection F0 as Eu Ez. subst u0 sz0. rewrite Nat2Z.id in *.
  (* the main part *)
  match goal with |- context [match _ with Some v => Ok v | None => ?M end] => assert (Main : M = Ok (index fold s sub)) end.
  { rewrite S0. cbn [bind]. rewrite F1. cbn [bind]. cbv iota beta.
    destruct ((r =? RuneError) || (u1 =? RuneError)) eqn:C8.
    { apply (rabinkarp_refines fold lower FF WF primeRK p s sub Hws Hwsub Hne). }
    rewrite S1. cbn [bind].
    assert (Nr : r <> RuneError) by lia.
    pose proof (jump_ok r) as Hjump. pose proof (Hcand2 r) as HC0. pose proof (Hcand2 u1) as HC1.
    destruct (ul_hack r) as [U0 l0] eqn:UL0. destruct (ul_hack u1) as [U1 l1] eqn:UL1. cbn [fst snd] in *.
    set (t0 := len s - len sub / 3 + 1). set (tt := if len s <? t0 then len s else t0).
    assert (Ht : tt <= len s) by (unfold tt; destruct (len s <? t0) eqn:E; lia).
    assert (Ht1 : forall a, match_at fold s sub a = true -> Z.of_nat (off s a) < tt).
    { intros a M. destruct (match_bounds fold WF s sub r u1 (Z.of_nat w) sz1 needle Hws Hwsub SP a M) as [B1 _].
      unfold tt, t0, len in *. destruct (Z.of_nat (length s) <? _) eqn:E; lia. }
    pose proof (idx_loop_ok fold lower FF WF native cutover fold_map fold_map_excl upper_lower primeRK p s sub r u1 (Z.of_nat w) sz1 needle
                  Hws Hwsub H2 SP U0 l0 U1 l1 (fold_map_excl r) (fold_map_excl u1) tt) as L.
    specialize (L (fun x Hx => HC0 x (sp_u0 _ _ _ _ _ _ _ SP) Hx) (fun x Hx => HC1 x (sp_u1 _ _ _ _ _ _ _ SP) Hx)
                  (fun rest Hr => Hjump rest Vr Nr Hr) Ht Ht1 (S (length s)) 0%nat 0).
    rewrite off_0 in L. apply L; [lia|intros a' Ha'; lia|pose proof (rune_count_le s); lia]. }
  destruct (len s <=? len sub) eqn:C3.
  - (* the needle is at least as long as the haystack *)
    destruct (len s * 3 <? len sub) eqn:C4.
    { cbn [bind]. f_equal. symmetry. apply index_none. apply (precheck_sound fold WF s sub Hws Hwsub). rewrite C4. reflexivity. }
    rewrite (indexrune_refines native cutover fold fold_map upper_lower Hcands Hcrange Hascii Herr s r Hws). cbn [bind].
    rewrite (index_rune_first_in fold s r Vr).
    assert (Hfirst : forall a, match_at fold s sub a = true -> (a < rune_count s)%nat /\ (fold (nth a (runes s) 0) =? fold r) = true).
    { intros a M. apply (match_split fold s sub r u1 (Z.of_nat w) sz1 needle SP) in M as (Hle & E0 & _). split; [lia|]. rewrite E0. apply Z.eqb_refl. }
    destruct (first_in_cases (fun x => fold x =? fold r) s) as [[E Hn]|(b & Hb & E & Hp & Hn)]; rewrite E.
    + change (-1 <? 0) with true. cbv iota. cbn [bind]. f_equal. symmetry. apply index_none. intros a.
      destruct (match_at fold s sub a) eqn:M; [|reflexivity]. exfalso. destruct (Hfirst a M) as [Ha Ef].
      rewrite (Hn (nth a (runes s) 0)) in Ef; [discriminate|]. apply nth_In. rewrite runes_length. exact Ha.
    + replace (Z.of_nat (off s b) <? 0) with false by lia. unfold slice_from at 1. pose proof (off_le s b) as Ob.
      replace ((0 <=? Z.of_nat (off s b)) && (Z.of_nat (off s b) <=? len s)) with true by (unfold len; lia).
      cbn [bind]. rewrite Nat2Z.id.
      assert (Hno : forall a', (a' < b)%nat -> match_at fold s sub a' = false).
      { intros a' Ha'. destruct (match_at fold s sub a') eqn:M; [|reflexivity]. exfalso. destruct (Hfirst a' M) as [_ Ef].
        rewrite (Hn a' Ha') in Ef. discriminate. }
      rewrite (index_suffix fold s sub b ltac:(lia) Hno). cbv zeta.
      set (s' := skipn (off s b) s). assert (Hws' : wf s') by (apply wf_skipn; exact Hws).
      destruct ((len s' * 2 <? len sub) && negb (contains_kelvin sub)) eqn:C5.
      * assert (En : index fold s' sub = -1).
        { apply index_none. apply (precheck_sound fold WF s' sub Hws' Hwsub). rewrite C5. apply orb_true_r. }
        rewrite En. reflexivity.
      * rewrite (bruteforce_refines fold lower FF WF fold_map_excl upper_lower p Hcand2 s' sub Hws' Hwsub H2). cbn [bind].
        destruct (index_sign s' sub) as [E1|E1].
        { rewrite E1. reflexivity. }
        replace (negb (index fold s' sub =? -1)) with true by lia. replace (index fold s' sub <? 0) with false by lia.
        cbv iota. cbn [bind]. f_equal. lia.
  - destruct (len sub <=? maxLen) eqn:C6; [|cbn [bind]; exact Main].
    destruct (native && (len sub <=? nativeMax) && nonLetterASCII sub) eqn:C7.
    { unfold native_index.
      replace ((2 <=? len sub) && (len sub <=? rtMaxLen)) with true by (unfold len in *; lia).
      cbn [bind]. f_equal. symmetry. apply (index_caseless_ascii fold Hascii s sub Hws Hwsub Hne). lia. }
    destruct (len s <=? maxBruteForce) eqn:C9; [|cbn [bind]; exact Main].
    rewrite (bruteforce_refines fold lower FF WF fold_map_excl upper_lower p Hcand2 s sub Hws Hwsub H2). reflexivity.
Qed.

Theorem contains_refines s sub :
  wf s -> wf sub ->
  Impl6.Contains native cutover fold lower fold_map fold_map_excl upper_lower maxBruteForce maxLen primeRK nativeMax rtMaxLen p s sub = Ok (contains fold s sub).
Proof. intros Hws Hwsub. unfold Impl6.Contains. rewrite (index_refines s sub Hws Hwsub). cbn [bind]. rewrite contains_index. reflexivity. Qed.

End Top.
