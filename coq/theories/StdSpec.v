(* StdSpec.v — byte-exact models of the strings / bytes namesakes used as
   oracles (C02, C20).  They are validated against the real standard
   library by the harness; they are oracles, not code under test. *)
From Strcase Require Import Base Utf8 Spec SpecFacts Impl Refine_Compare Fold FoldFacts FoldTables FoldFacts121.
From Coq Require Import ZifyBool ZifyNat.

(* strings.EqualFold: rune-wise, two runes equal iff one is reached from the
   other by unicode.SimpleFold (same orbit); ill-formed bytes decode to U+FFFD *)
Definition std_equal_fold (R : rmap) (s t : bytes) : bool :=
  list_eqb (map (rep R) (runes s)) (map (rep R) (runes t)).

Lemma runes_range s : wf s -> Forall (fun r => 0 <= r <= MaxRune) (runes s).
Proof.
  induction s as [|b r IH] using segs_ind; intros H; [constructor|].
  unfold runes in *. rewrite segs_cons. cbn [map]. constructor.
  - apply decode_rune_range. exact H.
  - apply IH. apply wf_skipn. exact H.
Qed.

Lemma map_eq_iff {A} (f g : A -> Z) (l1 l2 : list A) :
  (forall a b, In a l1 -> In b l2 -> (f a = f b <-> g a = g b)) ->
  (map f l1 = map f l2 <-> map g l1 = map g l2).
Proof.
  revert l2. induction l1 as [|a l1 IH]; intros [|b l2] H; cbn [map]; split; intros E;
    try reflexivity; try discriminate.
  - inversion E as [[E1 E2]]. f_equal.
    + apply (H a b); [left; reflexivity|left; reflexivity|exact E1].
    + apply (IH l2); [|exact E2]. intros x y Hx Hy. apply H; right; assumption.
  - inversion E as [[E1 E2]]. f_equal.
    + apply (H a b); [left; reflexivity|left; reflexivity|exact E1].
    + apply (IH l2); [|exact E2]. intros x y Hx Hy. apply H; right; assumption.
Qed.

Lemma key_runes fold s : key fold s = map fold (runes s).
Proof. unfold key, runes. rewrite map_map. reflexivity. Qed.

Theorem spec_equal_fold_eq_std s t :
  wf s -> wf t -> Spec.equal_fold fold121 s t = std_equal_fold R121 s t.
Proof.
  intros Hs Ht. unfold Spec.equal_fold, std_equal_fold. rewrite !key_runes.
  pose proof (runes_range s Hs) as Rs. pose proof (runes_range t Ht) as Rt.
  rewrite Forall_forall in Rs, Rt.
  assert (E : map fold121 (runes s) = map fold121 (runes t) <->
              map (rep R121) (runes s) = map (rep R121) (runes t)).
  { apply map_eq_iff. intros a b Ha Hb. apply fold121_orbit_exact; apply int32_of_rune; auto. }
  destruct (list_eqb (map fold121 (runes s)) (map fold121 (runes t))) eqn:E1;
    destruct (list_eqb (map (rep R121) (runes s)) (map (rep R121) (runes t))) eqn:E2; try reflexivity.
  - apply list_eqb_eq in E1. apply E in E1. apply list_eqb_eq in E1. congruence.
  - apply list_eqb_eq in E2. apply E in E2. apply list_eqb_eq in E2. congruence.
Qed.

Theorem equalfold_eq_std p s t :
  wf s -> wf t -> EqualFold fold121 (lower_pkg p) p s t = Ok (std_equal_fold R121 s t).
Proof.
  intros Hs Ht. rewrite (equalfold_refines fold121 (lower_pkg p) (fold_facts_pkg p)) by assumption.
  f_equal. apply spec_equal_fold_eq_std; assumption.
Qed.

Lemma runes_single a : runes [a] = [fst (decode [a])].
Proof.
  unfold runes. rewrite segs_cons. cbn [map]. f_equal.
  pose proof (decode_width_pos a []) as H. pose proof (decode_width_le [a]) as H2. cbn [length] in H2.
  assert (E : snd (decode [a]) = 1%nat) by lia. rewrite E. reflexivity.
Qed.

Theorem illformed_bytes_equal a b :
  0 <= a < 256 -> 0 <= b < 256 ->
  fst (decode [a]) = RuneError -> fst (decode [b]) = RuneError ->
  std_equal_fold R121 [a] [b] = true /\ std_equal_fold R121 [a] [239; 191; 189] = true.
Proof.
  intros _ _ Ha Hb. unfold std_equal_fold. rewrite !runes_single, Ha, Hb. split.
  - apply list_eqb_eq. reflexivity.
  - vm_compute. reflexivity.
Qed.

Lemma list_eqb_length a b : list_eqb a b = true -> length a = length b.
Proof. intros H. apply list_eqb_eq in H. congruence. Qed.

Theorem std_equal_fold_count s t :
  rune_count s <> rune_count t -> std_equal_fold R121 s t = false.
Proof.
  intros H. destruct (std_equal_fold R121 s t) eqn:E; [|reflexivity].
  apply list_eqb_length in E. rewrite !map_length in E. unfold runes in E. rewrite !map_length in E.
  unfold rune_count in H. congruence.
Qed.
