(* Impl.v — structure-faithful Gallina model of strcase.go / bytcase.go
   (the repaired tree): one function per Go function, same dispatch order and
   arithmetic; ints are Z, strings are byte lists, loops with a
   non-structural step take fuel.  Where the two packages differ in shape
   both shapes are present under [pkg].  Tied to the code by the
   correspondence check (extracted and run against the real functions);
   proved equal to Spec in Refine_*.v. *)
From Strcase Require Import Base Utf8 Spec.

Inductive pkg := Str | Byt.

Section Impl.
Variable fold : Z -> Z.      (* tables.CaseFold *)
Variable lower : Z -> Z.     (* _lower[b] *)

(* (sr|tr)&utf8.RuneSelf != 0 on bytes *)
Definition non_ascii2 (a b : Z) : bool := (128 <=? a) || (128 <=? b).

(* "if s[0] < RuneSelf { r, s = rune(_lower[s[0]]), s[1:] } else { r, size := DecodeRune(s); r, s = CaseFold(r), s[size:] }" *)
Definition next_folded (s : bytes) : Z * bytes :=
  match s with
  | [] => (RuneError, [])
  | b :: s' => if b <? 128 then (lower b, s')
               else let d := decode s in (fold (fst d), skipn (snd d) s)
  end.

(* ---- Compare ---- *)

(* hasUnicode loop, bytcase shape: for len(s) != 0 { ... } *)
Fixpoint compare_runes_byt (fuel : nat) (s t : bytes) : res Z :=
  match fuel with
  | O => OutOfFuel
  | S f =>
    match s with
    | [] => Ok (match t with [] => 0 | _ => -1 end)
    | _ :: _ =>
      match t with
      | [] => Ok 1
      | _ :: _ =>
        let '(sr, s') := next_folded s in
        let '(tr, t') := next_folded t in
        if (sr =? tr) || (fold sr =? tr) then compare_runes_byt f s' t'
        else Ok (clamp (fold sr - tr))
      end
    end
  end.

(* hasUnicode loop, strcase shape: for _, sr := range s { ... } *)
Fixpoint compare_runes_str (fuel : nat) (s t : bytes) : res Z :=
  match fuel with
  | O => OutOfFuel
  | S f =>
    match s with
    | [] => Ok (match t with [] => 0 | _ => -1 end)
    | _ :: _ =>
      match t with
      | [] => Ok 1
      | _ :: _ =>
        let d := decode s in
        let sr := fst d in
        let '(tr, t') := next_folded t in
        if (sr =? tr) || (fold sr =? tr) then compare_runes_str f (skipn (snd d) s) t'
        else Ok (clamp (fold sr - tr))
      end
    end
  end.

Definition compare_runes (p : pkg) :=
  match p with Str => compare_runes_str | Byt => compare_runes_byt end.

(* ASCII lock-step loop with hand-over *)
Fixpoint compare_ascii (p : pkg) (s t : bytes) : res Z :=
  match s, t with
  | sr :: s', tr :: t' =>
    if non_ascii2 sr tr then compare_runes p (S (length s)) s t
    else if (sr =? tr) || (lower sr =? lower tr) then compare_ascii p s' t'
    else if lower sr <? lower tr then Ok (-1) else Ok 1
  | _, _ => Ok (clamp (len s - len t))
  end.

Definition Compare (p : pkg) (s t : bytes) : res Z := compare_ascii p s t.
Definition EqualFold (p : pkg) (s t : bytes) : res bool :=
  do c <- Compare p s t; Ok (c =? 0).

(* ---- containsKelvin (after the D6 repair): modelled by the contract of
   its callees indexRuneCase(s, U+212A) (a raw byte search for E2 84 AA)
   and strings/bytes.Contains(s, "\uFFFD") ---- *)
Definition fffd : bytes := [239; 191; 189].
Definition raw_contains (pat s : bytes) : bool := 0 <=? raw_index_pats [pat] s 0.
Definition contains_kelvin (s : bytes) : bool :=
  negb (len s =? 0) && (raw_contains kelvin s || raw_contains fffd s).

Definition is_nil (s : bytes) : bool := match s with [] => true | _ => false end.

(* "if s[0] < RuneSelf { sr, s = rune(_lower[s[0]]), s[1:] } else { r, size := DecodeRune(s); sr, s = r, s[size:] }" *)
Definition next_raw (s : bytes) : Z * bytes :=
  match s with
  | [] => (RuneError, [])
  | b :: s' => if b <? 128 then (lower b, s')
               else let d := decode s in (fst d, skipn (snd d) s)
  end.

(* ---- hasPrefixUnicode: (match, exhausted) ---- *)

(* hasUnicode loop, strcase shape: for _, tr := range prefix *)
Fixpoint hp_runes_str (fuel : nat) (s prefix : bytes) : res (bool * bool) :=
  match fuel with
  | O => OutOfFuel
  | S f =>
    match prefix with
    | [] => Ok (true, is_nil s)
    | _ :: _ =>
      match s with
      | [] => Ok (false, true)
      | _ :: _ =>
        let dt := decode prefix in
        let tr := fst dt in
        let '(sr, s') := next_raw s in
        if (tr =? sr) || (fold tr =? fold sr) then hp_runes_str f s' (skipn (snd dt) prefix)
        else Ok (false, is_nil s')
      end
    end
  end.

(* hasUnicode loop, bytcase shape: for len(t) > 0 { ... tr from _lower or DecodeRune } *)
Fixpoint hp_runes_byt (fuel : nat) (s prefix : bytes) : res (bool * bool) :=
  match fuel with
  | O => OutOfFuel
  | S f =>
    match prefix with
    | [] => Ok (true, is_nil s)
    | _ :: _ =>
      match s with
      | [] => Ok (false, true)
      | _ :: _ =>
        let '(tr, t') := next_raw prefix in
        let '(sr, s') := next_raw s in
        if (tr =? sr) || (fold tr =? fold sr) then hp_runes_byt f s' t'
        else Ok (false, is_nil s')
      end
    end
  end.

Definition hp_runes (p : pkg) := match p with Str => hp_runes_str | Byt => hp_runes_byt end.

Fixpoint hp_ascii (p : pkg) (s prefix : bytes) : res (bool * bool) :=
  match s, prefix with
  | sr :: s', tr :: p' =>
    if non_ascii2 sr tr then hp_runes p (S (length prefix)) s prefix
    else if (tr =? sr) || (lower sr =? lower tr) then hp_ascii p s' p'
    else Ok (false, is_nil s')                       (* i == len(s)-1 *)
  | _, _ => Ok (is_nil prefix, is_nil s)             (* i == len(prefix), i == len(s) *)
  end.

Definition hasPrefixUnicode (p : pkg) (s prefix : bytes) : res (bool * bool) :=
  if (len s * 3 <? len prefix) || ((len s * 2 <? len prefix) && negb (contains_kelvin prefix))
  then Ok (false, true)
  else hp_ascii p s prefix.

Definition HasPrefix (p : pkg) (s prefix : bytes) : res bool :=
  do r <- hasPrefixUnicode p s prefix; Ok (fst r).

(* ---- TrimPrefix: a separate re-implementation in the source; returns the
   (lo, hi) of the result in s ---- *)

(* hasUnicode loop of TrimPrefix; [lo] = offset of the current s in the original *)
Fixpoint tp_runes_str (fuel : nat) (slen : Z) (lo : Z) (s prefix : bytes) : res (Z * Z) :=
  match fuel with
  | O => OutOfFuel
  | S f =>
    match prefix with
    | [] => Ok (lo, slen)
    | _ :: _ =>
      match s with
      | [] => Ok (0, slen)
      | _ :: _ =>
        let dt := decode prefix in
        let tr := fst dt in
        let '(sr, s') := next_folded s in
        if (tr =? sr) || (fold tr =? sr) then tp_runes_str f slen (lo + (len s - len s')) s' (skipn (snd dt) prefix)
        else Ok (0, slen)
      end
    end
  end.

Fixpoint tp_runes_byt (fuel : nat) (slen : Z) (lo : Z) (s prefix : bytes) : res (Z * Z) :=
  match fuel with
  | O => OutOfFuel
  | S f =>
    match prefix with
    | [] => Ok (lo, slen)
    | _ :: _ =>
      match s with
      | [] => Ok (0, slen)
      | _ :: _ =>
        let '(tr, t') := next_folded prefix in
        let '(sr, s') := next_folded s in
        if (tr =? sr) || (fold tr =? sr) then tp_runes_byt f slen (lo + (len s - len s')) s' t'
        else Ok (0, slen)
      end
    end
  end.

Definition tp_runes (p : pkg) := match p with Str => tp_runes_str | Byt => tp_runes_byt end.

Fixpoint tp_ascii (p : pkg) (slen : Z) (i : Z) (s prefix : bytes) : res (Z * Z) :=
  match s, prefix with
  | sr :: s', tr :: p' =>
    if non_ascii2 sr tr then tp_runes p (S (length prefix)) slen i s prefix
    else if (tr =? sr) || (lower sr =? lower tr) then tp_ascii p slen (i + 1) s' p'
    else Ok (0, slen)
  | _, _ => if is_nil prefix then Ok (i, slen) else Ok (0, slen)   (* the D2 repair: i < len(prefix) -> s *)
  end.

Definition TrimPrefix (p : pkg) (s prefix : bytes) : res (Z * Z) :=
  if (len s * 3 <? len prefix) || ((len s * 2 <? len prefix) && negb (contains_kelvin prefix))
  then Ok (0, len s)
  else tp_ascii p (len s) 0 s prefix.

(* CutPrefix: "if len(prefix) == 0 return s, true; if ss := TrimPrefix(s, prefix); len(ss) != len(s) return ss, true; return s, false" *)
Definition CutPrefix (p : pkg) (s prefix : bytes) : res (Z * Z * bool) :=
  if is_nil prefix then Ok ((0, len s), true)
  else do r <- TrimPrefix p s prefix;
       if negb (snd r - fst r =? len s) then Ok (r, true) else Ok ((0, len s), false).

End Impl.
