(* Impl.v — structure-faithful Gallina model of strcase.go / bytcase.go
   (the repaired tree): one function per Go function, same dispatch order and
   arithmetic; ints are Z, strings are byte lists, loops with a
   non-structural step take fuel.  Where the two packages differ in shape
   both shapes are present under [pkg].  Tied to the code by the
   correspondence check (extracted and run against the real functions);
   proved equal to Spec in Refine_*.v. *)
From Strcase Require Import Base Utf8.

Inductive pkg := Str | Byt.

Section Impl.
Variable fold : Z -> Z.      (* tables.CaseFold *)
Variable lower : Z -> Z.     (* _lower[b] *)

(* (sr|tr)&utf8.RuneSelf != 0 on bytes *)
Definition non_ascii2 (a b : Z) : bool := (128 <=? a) || (128 <=? b).

(* "if s[0] < RuneSelf { r, s = rune(_lower[s[0]]), s[1:] } else { r, size := DecodeRune(s); r, s = CaseFold(r), s[size:] }" *)
Definition next_folded (s : bytes) : Z * bytes :=
  match s with
  | [] => (RuneError, [])
  | b :: s' => if b <? 128 then (lower b, s')
               else let d := decode s in (fold (fst d), skipn (snd d) s)
  end.

(* ---- Compare ---- *)

(* hasUnicode loop, bytcase shape: for len(s) != 0 { ... } *)
Fixpoint compare_runes_byt (fuel : nat) (s t : bytes) : res Z :=
  match fuel with
  | O => OutOfFuel
  | S f =>
    match s with
    | [] => Ok (match t with [] => 0 | _ => -1 end)
    | _ :: _ =>
      match t with
      | [] => Ok 1
      | _ :: _ =>
        let '(sr, s') := next_folded s in
        let '(tr, t') := next_folded t in
        if (sr =? tr) || (fold sr =? tr) then compare_runes_byt f s' t'
        else Ok (clamp (fold sr - tr))
      end
    end
  end.

(* hasUnicode loop, strcase shape: for _, sr := range s { ... } *)
Fixpoint compare_runes_str (fuel : nat) (s t : bytes) : res Z :=
  match fuel with
  | O => OutOfFuel
  | S f =>
    match s with
    | [] => Ok (match t with [] => 0 | _ => -1 end)
    | _ :: _ =>
      match t with
      | [] => Ok 1
      | _ :: _ =>
        let d := decode s in
        let sr := fst d in
        let '(tr, t') := next_folded t in
        if (sr =? tr) || (fold sr =? tr) then compare_runes_str f (skipn (snd d) s) t'
        else Ok (clamp (fold sr - tr))
      end
    end
  end.

Definition compare_runes (p : pkg) :=
  match p with Str => compare_runes_str | Byt => compare_runes_byt end.

(* ASCII lock-step loop with hand-over *)
Fixpoint compare_ascii (p : pkg) (s t : bytes) : res Z :=
  match s, t with
  | sr :: s', tr :: t' =>
    if non_ascii2 sr tr then compare_runes p (S (length s)) s t
    else if (sr =? tr) || (lower sr =? lower tr) then compare_ascii p s' t'
    else if lower sr <? lower tr then Ok (-1) else Ok 1
  | _, _ => Ok (clamp (len s - len t))
  end.

Definition Compare (p : pkg) (s t : bytes) : res Z := compare_ascii p s t.
Definition EqualFold (p : pkg) (s t : bytes) : res bool :=
  do c <- Compare p s t; Ok (c =? 0).

End Impl.
