(* SrcConsts.v — the thresholds of the two packages as the source has them now (gen/Consts.v, written by tools/gen
   from /repo's working tree on every run) and the one fact about them that a theorem needs: the largest needle the
   fast path of Index hands to the runtime's native Index stays within that function's contract
   ("requires 2 <= len(b) <= MaxLen") on every platform the toolchain has a native Index for (gen/Oracle.v: the least
   value $GOROOT/src/internal/bytealg ever assigns to MaxLen; 31 on amd64 without AVX2, where a longer needle runs
   AVX2 instructions). *)
From Coq Require Import ZArith Lia List Bool.
From Strcase Require Import Base Impl.
From StrcaseGen Require Consts Oracle.
Open Scope Z_scope.

Definition src_maxBruteForce (p : pkg) : Z := match p with Str => Consts.str_maxBruteForce | Byt => Consts.byt_maxBruteForce end.
Definition src_maxLen (p : pkg) : Z := match p with Str => Consts.str_maxLen | Byt => Consts.byt_maxLen end.
Definition src_primeRK (p : pkg) : Z := match p with Str => Consts.str_primeRK | Byt => Consts.byt_primeRK end.
Definition src_nativeMax (p : pkg) : Z := match p with Str => Consts.str_nativeMax | Byt => Consts.byt_nativeMax end.

Lemma native_contract_src (p : pkg) : src_nativeMax p <= Oracle.rt_maxlen_min.
Proof. destruct p; vm_compute; discriminate. Qed.

Lemma native_contract_src_le (p : pkg) (rtMaxLen : Z) : Oracle.rt_maxlen_min <= rtMaxLen -> src_nativeMax p <= rtMaxLen.
Proof. pose proof (native_contract_src p). lia. Qed.

(* every product len*2 / len*3 of the length-ratio shortcuts, in both packages, multiplies an int64 (the D8 repair) —
   so what the code computes there is the exact product on 32-bit targets too (IntWidth.product_in_int64_exact),
   which is what the models' unbounded Z computes *)
Lemma shortcut_products_in_int64 :
  forallb snd (Consts.str_shortcut_products ++ Consts.byt_shortcut_products) = true /\
  (length Consts.str_shortcut_products = 10 /\ length Consts.byt_shortcut_products = 10)%nat.
Proof. vm_compute. repeat split. Qed.
