(* X86.v — a small machine model for the amd64 kernels of internal/bytealg:
   the subset of instructions the three kernels use (general-purpose moves,
   LEA, add/sub/and/or/shifts, compares and tests, BSF/POPCNT, conditional
   jumps; 128- and 256-bit byte-vector loads, compares, logic, broadcast,
   shuffles and mask extraction).  Plan-9 operand order (sources first,
   destination last).  The program is a list of instructions with resolved
   jump targets, regenerated from the .s files by tools/asm2prog.py.

   What the model fixes (see DESIGN, trusted base):
   - registers hold naturals below 2^64; an addition / subtraction / LEA whose
     exact result leaves that range is a FAULT (Wrap) of the model, so a
     theorem "the run returns" also says no wrap-around was relied upon;
     32-bit operations (the L-suffixed ones) are modulo 2^32 as on the machine;
   - memory is the argument s at address A; a load may touch any byte of a
     4 KiB page that contains a byte of the argument (what the hardware allows
     without a fault); bytes outside the argument have arbitrary values
     ([junk]), so results cannot depend on them; any other load is a FAULT;
   - the only store is to the result slot whose address the wrapper put in R8;
     a store anywhere else is a FAULT;
   - flags: ZF, CF and the signed "less", each known or undefined: compares,
     TEST and AND define all three, BSF and VPTEST only ZF, the arithmetic,
     OR, shift and POPCNT instructions leave them undefined (the real CPU
     defines some of them; the kernels never branch on those), and a
     conditional jump that reads an undefined flag is a FAULT; BSF leaves its
     destination unchanged on a zero source (as Intel documents for current
     CPUs; the kernels never use it then).  *)
From Coq Require Import List ZArith Lia Bool.
Import ListNotations.
Open Scope Z_scope.

Inductive reg := AX | BX | CX | DX | SI | DI | R8 | R9 | R10 | R11 | R12 | R13 | R14 | R15.

Definition reg_eqb (a b : reg) : bool :=
  match a, b with
  | AX, AX | BX, BX | CX, CX | DX, DX | SI, SI | DI, DI | R8, R8 | R9, R9
  | R10, R10 | R11, R11 | R12, R12 | R13, R13 | R14, R14 | R15, R15 => true
  | _, _ => false
  end.

(* memory operand disp(base)(index*scale) *)
Record mem := { m_disp : Z; m_base : reg; m_idx : option (reg * Z) }.

(* arguments of the Go function, read off the frame pointer by the wrappers *)
Inductive argk := ABase | ALen | AByte | ARet.

Inductive opnd := Imm (z : Z) | R (r : reg) | M (m : mem) | Arg (k : argk).

(* condition codes after CMP a, b (flags of a - b) / TEST / BSF *)
Inductive cond := cE | cNE | cLT | cLE | cGE | cGT | cA | cAE | cB | cBE.

Inductive instr :=
  | MOVQ (src dst : opnd)             (* 64-bit move; dst = M _ is the result store *)
  | MOVL (src : opnd) (dst : reg)     (* 32-bit move, zero-extending *)
  | MOVB (src : opnd) (dst : reg)     (* byte move into the low byte of dst, the other bytes are kept *)
  | LEAQ (m : mem) (dst : reg)
  | LEAL (m : mem) (dst : reg)
  | ADDQ (src : opnd) (dst : reg) | SUBQ (src : opnd) (dst : reg)
  | ADDL (src : opnd) (dst : reg)
  | ANDQ (src : opnd) (dst : reg) | ORQ (src : opnd) (dst : reg) | ORL (src : opnd) (dst : reg)
  | SALQ (cnt : opnd) (dst : reg) | SARQ (cnt : opnd) (dst : reg)   (* count taken modulo 64; SALQ is modulo 2^64 *)
  | SHLL (cnt : opnd) (dst : reg) | SHRL (cnt : opnd) (dst : reg)
  | CMPQ (a b : opnd) | CMPL (a b : opnd) | CMPB (a b : opnd)
  | TESTQ (a b : opnd) | TESTW (a b : opnd)
  | BSFL (src dst : reg)
  | POPCNTL (src dst : reg) | POPCNTQ (src dst : reg)
  | CMPHASAVX2                         (* CMPB x/sys/cpu.X86.HasAVX2(SB), $1 *)
  | CMPHASPOPCNT
  | JMP (t : nat) | JCC (c : cond) (t : nat)
  | TAILGO                             (* JMP to a Go function (the no-POPCNT fallback): leaves the model *)
  | RET
  | NOP                                (* PCALIGN *)
  (* vectors: V n is X_n / Y_n; w = 16 or 32 bytes *)
  | MOVD (src : reg) (dst : nat)       (* low 32 bits of the register into the low dword, rest of the low 128 zeroed *)
  | MOVQX (src : reg) (dst : nat)      (* MOVQ reg, Xn: the 64 bits into the low qword, next qword zeroed *)
  | PUNPCKLBW (src dst : nat)
  | PSHUFL0 (src dst : nat)            (* PSHUFL $0 *)
  | VLOAD (w : nat) (m : mem) (dst : nat)      (* MOVOU / VMOVDQU from memory *)
  | VAND (w : nat) (a b dst : nat)             (* PAND / VPAND *)
  | VOR (w : nat) (a b dst : nat)              (* POR / VPOR *)
  | VCMPEQB (w : nat) (a b dst : nat)          (* PCMPEQB / VPCMPEQB *)
  | VMOVMSKB (w : nat) (src : nat) (dst : reg) (* PMOVMSKB / VPMOVMSKB *)
  | VPTEST (a b : nat)
  | VBROADCASTB (src dst : nat)
  | VZEROUPPER.

(* each flag is known (Some) or left undefined by the last instruction that touched it (None); lt: signed less *)
Record flags := { zf : option bool; cf : option bool; lt : option bool }.

Record st := {
  gAX : Z;
  gBX : Z;
  gCX : Z;
  gDX : Z;
  gSI : Z;
  gDI : Z;
  gR8 : Z;
  gR9 : Z;
  gR10 : Z;
  gR11 : Z;
  gR12 : Z;
  gR13 : Z;
  gR14 : Z;
  gR15 : Z;
  v0 : list Z;
  v1 : list Z;
  v2 : list Z;
  v3 : list Z;
  v4 : list Z;
  v5 : list Z;
  v6 : list Z;
  v7 : list Z;
  fl : flags;
  res : option Z           (* what was stored in the result slot *)
}.

Definition rg (s : st) (r : reg) : Z :=
  match r with
  | AX => gAX s
  | BX => gBX s
  | CX => gCX s
  | DX => gDX s
  | SI => gSI s
  | DI => gDI s
  | R8 => gR8 s
  | R9 => gR9 s
  | R10 => gR10 s
  | R11 => gR11 s
  | R12 => gR12 s
  | R13 => gR13 s
  | R14 => gR14 s
  | R15 => gR15 s
  end.

Definition vr (s : st) (n : nat) : list Z :=
  match n with
  | 0%nat => v0 s
  | 1%nat => v1 s
  | 2%nat => v2 s
  | 3%nat => v3 s
  | 4%nat => v4 s
  | 5%nat => v5 s
  | 6%nat => v6 s
  | 7%nat => v7 s
  | _ => []
  end.

Inductive outcome := Running (pc : nat) (s : st) | Done (r : option Z) | Delegated | Fault.

Definition two64 := 18446744073709551616.
Definition two32 := 4294967296.
Definition two63 := 9223372036854775808.

Definition set_reg (s : st) (r : reg) (v : Z) : st :=
  match r with
  | AX => {| gAX := v; gBX := gBX s; gCX := gCX s; gDX := gDX s; gSI := gSI s; gDI := gDI s; gR8 := gR8 s; gR9 := gR9 s; gR10 := gR10 s; gR11 := gR11 s; gR12 := gR12 s; gR13 := gR13 s; gR14 := gR14 s; gR15 := gR15 s; v0 := v0 s; v1 := v1 s; v2 := v2 s; v3 := v3 s; v4 := v4 s; v5 := v5 s; v6 := v6 s; v7 := v7 s; fl := fl s; res := res s |}
  | BX => {| gAX := gAX s; gBX := v; gCX := gCX s; gDX := gDX s; gSI := gSI s; gDI := gDI s; gR8 := gR8 s; gR9 := gR9 s; gR10 := gR10 s; gR11 := gR11 s; gR12 := gR12 s; gR13 := gR13 s; gR14 := gR14 s; gR15 := gR15 s; v0 := v0 s; v1 := v1 s; v2 := v2 s; v3 := v3 s; v4 := v4 s; v5 := v5 s; v6 := v6 s; v7 := v7 s; fl := fl s; res := res s |}
  | CX => {| gAX := gAX s; gBX := gBX s; gCX := v; gDX := gDX s; gSI := gSI s; gDI := gDI s; gR8 := gR8 s; gR9 := gR9 s; gR10 := gR10 s; gR11 := gR11 s; gR12 := gR12 s; gR13 := gR13 s; gR14 := gR14 s; gR15 := gR15 s; v0 := v0 s; v1 := v1 s; v2 := v2 s; v3 := v3 s; v4 := v4 s; v5 := v5 s; v6 := v6 s; v7 := v7 s; fl := fl s; res := res s |}
  | DX => {| gAX := gAX s; gBX := gBX s; gCX := gCX s; gDX := v; gSI := gSI s; gDI := gDI s; gR8 := gR8 s; gR9 := gR9 s; gR10 := gR10 s; gR11 := gR11 s; gR12 := gR12 s; gR13 := gR13 s; gR14 := gR14 s; gR15 := gR15 s; v0 := v0 s; v1 := v1 s; v2 := v2 s; v3 := v3 s; v4 := v4 s; v5 := v5 s; v6 := v6 s; v7 := v7 s; fl := fl s; res := res s |}
  | SI => {| gAX := gAX s; gBX := gBX s; gCX := gCX s; gDX := gDX s; gSI := v; gDI := gDI s; gR8 := gR8 s; gR9 := gR9 s; gR10 := gR10 s; gR11 := gR11 s; gR12 := gR12 s; gR13 := gR13 s; gR14 := gR14 s; gR15 := gR15 s; v0 := v0 s; v1 := v1 s; v2 := v2 s; v3 := v3 s; v4 := v4 s; v5 := v5 s; v6 := v6 s; v7 := v7 s; fl := fl s; res := res s |}
  | DI => {| gAX := gAX s; gBX := gBX s; gCX := gCX s; gDX := gDX s; gSI := gSI s; gDI := v; gR8 := gR8 s; gR9 := gR9 s; gR10 := gR10 s; gR11 := gR11 s; gR12 := gR12 s; gR13 := gR13 s; gR14 := gR14 s; gR15 := gR15 s; v0 := v0 s; v1 := v1 s; v2 := v2 s; v3 := v3 s; v4 := v4 s; v5 := v5 s; v6 := v6 s; v7 := v7 s; fl := fl s; res := res s |}
  | R8 => {| gAX := gAX s; gBX := gBX s; gCX := gCX s; gDX := gDX s; gSI := gSI s; gDI := gDI s; gR8 := v; gR9 := gR9 s; gR10 := gR10 s; gR11 := gR11 s; gR12 := gR12 s; gR13 := gR13 s; gR14 := gR14 s; gR15 := gR15 s; v0 := v0 s; v1 := v1 s; v2 := v2 s; v3 := v3 s; v4 := v4 s; v5 := v5 s; v6 := v6 s; v7 := v7 s; fl := fl s; res := res s |}
  | R9 => {| gAX := gAX s; gBX := gBX s; gCX := gCX s; gDX := gDX s; gSI := gSI s; gDI := gDI s; gR8 := gR8 s; gR9 := v; gR10 := gR10 s; gR11 := gR11 s; gR12 := gR12 s; gR13 := gR13 s; gR14 := gR14 s; gR15 := gR15 s; v0 := v0 s; v1 := v1 s; v2 := v2 s; v3 := v3 s; v4 := v4 s; v5 := v5 s; v6 := v6 s; v7 := v7 s; fl := fl s; res := res s |}
  | R10 => {| gAX := gAX s; gBX := gBX s; gCX := gCX s; gDX := gDX s; gSI := gSI s; gDI := gDI s; gR8 := gR8 s; gR9 := gR9 s; gR10 := v; gR11 := gR11 s; gR12 := gR12 s; gR13 := gR13 s; gR14 := gR14 s; gR15 := gR15 s; v0 := v0 s; v1 := v1 s; v2 := v2 s; v3 := v3 s; v4 := v4 s; v5 := v5 s; v6 := v6 s; v7 := v7 s; fl := fl s; res := res s |}
  | R11 => {| gAX := gAX s; gBX := gBX s; gCX := gCX s; gDX := gDX s; gSI := gSI s; gDI := gDI s; gR8 := gR8 s; gR9 := gR9 s; gR10 := gR10 s; gR11 := v; gR12 := gR12 s; gR13 := gR13 s; gR14 := gR14 s; gR15 := gR15 s; v0 := v0 s; v1 := v1 s; v2 := v2 s; v3 := v3 s; v4 := v4 s; v5 := v5 s; v6 := v6 s; v7 := v7 s; fl := fl s; res := res s |}
  | R12 => {| gAX := gAX s; gBX := gBX s; gCX := gCX s; gDX := gDX s; gSI := gSI s; gDI := gDI s; gR8 := gR8 s; gR9 := gR9 s; gR10 := gR10 s; gR11 := gR11 s; gR12 := v; gR13 := gR13 s; gR14 := gR14 s; gR15 := gR15 s; v0 := v0 s; v1 := v1 s; v2 := v2 s; v3 := v3 s; v4 := v4 s; v5 := v5 s; v6 := v6 s; v7 := v7 s; fl := fl s; res := res s |}
  | R13 => {| gAX := gAX s; gBX := gBX s; gCX := gCX s; gDX := gDX s; gSI := gSI s; gDI := gDI s; gR8 := gR8 s; gR9 := gR9 s; gR10 := gR10 s; gR11 := gR11 s; gR12 := gR12 s; gR13 := v; gR14 := gR14 s; gR15 := gR15 s; v0 := v0 s; v1 := v1 s; v2 := v2 s; v3 := v3 s; v4 := v4 s; v5 := v5 s; v6 := v6 s; v7 := v7 s; fl := fl s; res := res s |}
  | R14 => {| gAX := gAX s; gBX := gBX s; gCX := gCX s; gDX := gDX s; gSI := gSI s; gDI := gDI s; gR8 := gR8 s; gR9 := gR9 s; gR10 := gR10 s; gR11 := gR11 s; gR12 := gR12 s; gR13 := gR13 s; gR14 := v; gR15 := gR15 s; v0 := v0 s; v1 := v1 s; v2 := v2 s; v3 := v3 s; v4 := v4 s; v5 := v5 s; v6 := v6 s; v7 := v7 s; fl := fl s; res := res s |}
  | R15 => {| gAX := gAX s; gBX := gBX s; gCX := gCX s; gDX := gDX s; gSI := gSI s; gDI := gDI s; gR8 := gR8 s; gR9 := gR9 s; gR10 := gR10 s; gR11 := gR11 s; gR12 := gR12 s; gR13 := gR13 s; gR14 := gR14 s; gR15 := v; v0 := v0 s; v1 := v1 s; v2 := v2 s; v3 := v3 s; v4 := v4 s; v5 := v5 s; v6 := v6 s; v7 := v7 s; fl := fl s; res := res s |}
  end.

Definition set_vr (s : st) (n : nat) (v : list Z) : st :=
  match n with
  | 0%nat => {| gAX := gAX s; gBX := gBX s; gCX := gCX s; gDX := gDX s; gSI := gSI s; gDI := gDI s; gR8 := gR8 s; gR9 := gR9 s; gR10 := gR10 s; gR11 := gR11 s; gR12 := gR12 s; gR13 := gR13 s; gR14 := gR14 s; gR15 := gR15 s; v0 := v; v1 := v1 s; v2 := v2 s; v3 := v3 s; v4 := v4 s; v5 := v5 s; v6 := v6 s; v7 := v7 s; fl := fl s; res := res s |}
  | 1%nat => {| gAX := gAX s; gBX := gBX s; gCX := gCX s; gDX := gDX s; gSI := gSI s; gDI := gDI s; gR8 := gR8 s; gR9 := gR9 s; gR10 := gR10 s; gR11 := gR11 s; gR12 := gR12 s; gR13 := gR13 s; gR14 := gR14 s; gR15 := gR15 s; v0 := v0 s; v1 := v; v2 := v2 s; v3 := v3 s; v4 := v4 s; v5 := v5 s; v6 := v6 s; v7 := v7 s; fl := fl s; res := res s |}
  | 2%nat => {| gAX := gAX s; gBX := gBX s; gCX := gCX s; gDX := gDX s; gSI := gSI s; gDI := gDI s; gR8 := gR8 s; gR9 := gR9 s; gR10 := gR10 s; gR11 := gR11 s; gR12 := gR12 s; gR13 := gR13 s; gR14 := gR14 s; gR15 := gR15 s; v0 := v0 s; v1 := v1 s; v2 := v; v3 := v3 s; v4 := v4 s; v5 := v5 s; v6 := v6 s; v7 := v7 s; fl := fl s; res := res s |}
  | 3%nat => {| gAX := gAX s; gBX := gBX s; gCX := gCX s; gDX := gDX s; gSI := gSI s; gDI := gDI s; gR8 := gR8 s; gR9 := gR9 s; gR10 := gR10 s; gR11 := gR11 s; gR12 := gR12 s; gR13 := gR13 s; gR14 := gR14 s; gR15 := gR15 s; v0 := v0 s; v1 := v1 s; v2 := v2 s; v3 := v; v4 := v4 s; v5 := v5 s; v6 := v6 s; v7 := v7 s; fl := fl s; res := res s |}
  | 4%nat => {| gAX := gAX s; gBX := gBX s; gCX := gCX s; gDX := gDX s; gSI := gSI s; gDI := gDI s; gR8 := gR8 s; gR9 := gR9 s; gR10 := gR10 s; gR11 := gR11 s; gR12 := gR12 s; gR13 := gR13 s; gR14 := gR14 s; gR15 := gR15 s; v0 := v0 s; v1 := v1 s; v2 := v2 s; v3 := v3 s; v4 := v; v5 := v5 s; v6 := v6 s; v7 := v7 s; fl := fl s; res := res s |}
  | 5%nat => {| gAX := gAX s; gBX := gBX s; gCX := gCX s; gDX := gDX s; gSI := gSI s; gDI := gDI s; gR8 := gR8 s; gR9 := gR9 s; gR10 := gR10 s; gR11 := gR11 s; gR12 := gR12 s; gR13 := gR13 s; gR14 := gR14 s; gR15 := gR15 s; v0 := v0 s; v1 := v1 s; v2 := v2 s; v3 := v3 s; v4 := v4 s; v5 := v; v6 := v6 s; v7 := v7 s; fl := fl s; res := res s |}
  | 6%nat => {| gAX := gAX s; gBX := gBX s; gCX := gCX s; gDX := gDX s; gSI := gSI s; gDI := gDI s; gR8 := gR8 s; gR9 := gR9 s; gR10 := gR10 s; gR11 := gR11 s; gR12 := gR12 s; gR13 := gR13 s; gR14 := gR14 s; gR15 := gR15 s; v0 := v0 s; v1 := v1 s; v2 := v2 s; v3 := v3 s; v4 := v4 s; v5 := v5 s; v6 := v; v7 := v7 s; fl := fl s; res := res s |}
  | 7%nat => {| gAX := gAX s; gBX := gBX s; gCX := gCX s; gDX := gDX s; gSI := gSI s; gDI := gDI s; gR8 := gR8 s; gR9 := gR9 s; gR10 := gR10 s; gR11 := gR11 s; gR12 := gR12 s; gR13 := gR13 s; gR14 := gR14 s; gR15 := gR15 s; v0 := v0 s; v1 := v1 s; v2 := v2 s; v3 := v3 s; v4 := v4 s; v5 := v5 s; v6 := v6 s; v7 := v; fl := fl s; res := res s |}
  | _ => s
  end.

Definition set_fl (s : st) (f : flags) : st := {| gAX := gAX s; gBX := gBX s; gCX := gCX s; gDX := gDX s; gSI := gSI s; gDI := gDI s; gR8 := gR8 s; gR9 := gR9 s; gR10 := gR10 s; gR11 := gR11 s; gR12 := gR12 s; gR13 := gR13 s; gR14 := gR14 s; gR15 := gR15 s; v0 := v0 s; v1 := v1 s; v2 := v2 s; v3 := v3 s; v4 := v4 s; v5 := v5 s; v6 := v6 s; v7 := v7 s; fl := f; res := res s |}.

Definition set_res (s : st) (v : option Z) : st := {| gAX := gAX s; gBX := gBX s; gCX := gCX s; gDX := gDX s; gSI := gSI s; gDI := gDI s; gR8 := gR8 s; gR9 := gR9 s; gR10 := gR10 s; gR11 := gR11 s; gR12 := gR12 s; gR13 := gR13 s; gR14 := gR14 s; gR15 := gR15 s; v0 := v0 s; v1 := v1 s; v2 := v2 s; v3 := v3 s; v4 := v4 s; v5 := v5 s; v6 := v6 s; v7 := v7 s; fl := fl s; res := v |}.

Definition signed64 (x : Z) : Z := if x <? two63 then x else x - two64.
Definition signed32 (x : Z) : Z := if x <? 2147483648 then x else x - two32.

Definition cmp_flags (a b : Z) (sg : Z -> Z) : flags :=
  {| zf := Some (a =? b); cf := Some (a <? b); lt := Some (sg a <? sg b) |}.
(* after BSF / VPTEST only ZF is relied upon; after the arithmetic and shift instructions nothing is *)
Definition zflag (z : bool) : flags := {| zf := Some z; cf := None; lt := None |}.
Definition noflags : flags := {| zf := None; cf := None; lt := None |}.
(* AND / TEST: ZF and SF of the result, CF = OF = 0 *)
Definition logic_flags (r sign : Z) : flags := {| zf := Some (r =? 0); cf := Some false; lt := Some (sign <=? r) |}.
Definition o2 (op : bool -> bool -> bool) (a b : option bool) : option bool :=
  match a, b with Some x, Some y => Some (op x y) | _, _ => None end.

Definition holds (f : flags) (c : cond) : option bool :=
  match c with
  | cE => zf f | cNE => option_map negb (zf f)
  | cLT => lt f | cLE => o2 orb (lt f) (zf f) | cGE => option_map negb (lt f) | cGT => option_map negb (o2 orb (lt f) (zf f))
  | cA => option_map negb (o2 orb (cf f) (zf f)) | cAE => option_map negb (cf f) | cB => cf f | cBE => o2 orb (cf f) (zf f)
  end.

(* ---- byte vectors ---- *)
Definition vlow (w : nat) (v : list Z) : list Z := firstn w v.
Definition vput (w : nat) (lo : list Z) (old : list Z) : list Z :=
  (* a VEX-encoded 128-bit result zeroes the upper half, a legacy SSE one keeps it; the kernels never read
     the upper half of a register they wrote with a 128-bit instruction, the model keeps it *)
  firstn w lo ++ skipn w old.
Fixpoint map2 (f : Z -> Z -> Z) (a b : list Z) : list Z :=
  match a, b with x :: a', y :: b' => f x y :: map2 f a' b' | _, _ => [] end.
Fixpoint movmsk (v : list Z) : Z :=
  match v with [] => 0 | b :: r => (if 128 <=? b then 1 else 0) + 2 * movmsk r end.
Fixpoint bsf_aux (n : nat) (x : Z) (i : Z) : Z :=
  match n with O => i | S k => if Z.odd x then i else bsf_aux k (x / 2) (i + 1) end.
Definition bsf (x : Z) : Z := bsf_aux 64 x 0.
Fixpoint popcnt_aux (n : nat) (x : Z) : Z :=
  match n with O => 0 | S k => (if Z.odd x then 1 else 0) + popcnt_aux k (x / 2) end.
Definition popcnt (x : Z) : Z := popcnt_aux 64 x.
Fixpoint interleave (a b : list Z) : list Z :=
  match a, b with x :: a', y :: b' => x :: y :: interleave a' b' | _, _ => [] end.
Definition le_bytes4 (x : Z) : list Z := [x mod 256; (x / 256) mod 256; (x / 65536) mod 256; (x / 16777216) mod 256].

(* ---- memory ---- *)
Section Machine.
Variable A : Z.                (* address of the argument *)
Variable s : list Z.           (* its bytes *)
Variable junk : Z -> Z.        (* what lies around it *)
Variable slot : Z.             (* address of the result slot *)
Variable has_avx2 has_popcnt : bool.
Variable cbyte : Z.            (* the byte argument *)

Definition len : Z := Z.of_nat (length s).
Definition page (a : Z) : Z := a / 4096.
Definition readable (a : Z) : bool :=
  (0 <? len) && (page A <=? page a) && (page a <=? page (A + len - 1)).
Definition byte_at (a : Z) : Z :=
  if (A <=? a) && (a <? A + len) then nth (Z.to_nat (a - A)) s 0 else junk a mod 256.
Fixpoint load (n : nat) (a : Z) : option (list Z) :=
  match n with
  | O => Some []
  | S k => if readable a then option_map (cons (byte_at a)) (load k (a + 1)) else None
  end.

Definition ea (st0 : st) (m : mem) : Z :=
  m_disp m + rg st0 (m_base m) + match m_idx m with Some (r, k) => rg st0 r * k | None => 0 end.

Definition in64 (x : Z) : bool := (0 <=? x) && (x <? two64).

Definition val (st0 : st) (o : opnd) : option Z :=
  match o with
  | Imm z => Some (z mod two64)
  | R r => Some (rg st0 r)
  | M _ => None                      (* the kernels never load a general register from memory *)
  | Arg ABase => Some A | Arg ALen => Some len | Arg AByte => Some (cbyte mod 256) | Arg ARet => Some slot
  end.

Definition wr64 (st0 : st) (r : reg) (v : Z) (pc : nat) : outcome :=
  if in64 v then Running (S pc) (set_reg st0 r v) else Fault.
(* the same for an instruction that also leaves the flags in a state the model does not track *)
Definition wr64f (st0 : st) (r : reg) (v : Z) (pc : nat) : outcome :=
  if in64 v then Running (S pc) (set_fl (set_reg st0 r v) noflags) else Fault.

Definition step (pc : nat) (i : instr) (st0 : st) : outcome :=
  let next s' := Running (S pc) s' in
  match i with
  | MOVQ src (R d) => match val st0 src with Some v => next (set_reg st0 d v) | None => Fault end
  | MOVQ src (M m) =>
      if ea st0 m =? slot then
        match val st0 src with
        | Some v => next (set_res st0 (Some (signed64 v)))
        | None => Fault end
      else Fault
  | MOVQ _ (Imm _) | MOVQ _ (Arg _) => Fault
  | MOVL src d => match val st0 src with Some v => next (set_reg st0 d (v mod two32)) | None => Fault end
  | MOVB src d => match val st0 src with Some v => next (set_reg st0 d (rg st0 d - rg st0 d mod 256 + v mod 256)) | None => Fault end
  | LEAQ m d => wr64 st0 d (ea st0 m) pc
  | LEAL m d => next (set_reg st0 d (ea st0 m mod two32))
  | ADDQ src d => match val st0 src with Some v => wr64f st0 d (rg st0 d + v) pc | None => Fault end
  | SUBQ src d => match val st0 src with Some v => wr64f st0 d (rg st0 d - v) pc | None => Fault end
  | ADDL src d => match val st0 src with Some v => next (set_fl (set_reg st0 d ((rg st0 d + v) mod two32)) noflags) | None => Fault end
  | ANDQ src d => match val st0 src with Some v => next (set_fl (set_reg st0 d (Z.land (rg st0 d) v)) (logic_flags (Z.land (rg st0 d) v) two63)) | None => Fault end
  | ORQ src d => match val st0 src with Some v => next (set_fl (set_reg st0 d (Z.lor (rg st0 d) v)) noflags) | None => Fault end
  | ORL src d => match val st0 src with Some v => next (set_fl (set_reg st0 d (Z.lor (rg st0 d) v mod two32)) noflags) | None => Fault end
  | SALQ c d => match val st0 c with
                | Some n => next (set_fl (set_reg st0 d (rg st0 d * 2 ^ (n mod 64) mod two64)) noflags)
                | None => Fault end
  | SARQ c d => match val st0 c with
                | Some n => next (set_fl (set_reg st0 d ((signed64 (rg st0 d) / 2 ^ (n mod 64)) mod two64)) noflags)
                | None => Fault end
  | SHLL c d => match val st0 c with
                | Some n => next (set_fl (set_reg st0 d ((rg st0 d mod two32) * 2 ^ (n mod 32) mod two32)) noflags)
                | None => Fault end
  | SHRL c d => match val st0 c with
                | Some n => next (set_fl (set_reg st0 d ((rg st0 d mod two32) / 2 ^ (n mod 32))) noflags)
                | None => Fault end
  | CMPQ a b => match val st0 a, val st0 b with
                | Some x, Some y => next (set_fl st0 (cmp_flags x y signed64)) | _, _ => Fault end
  | CMPL a b => match val st0 a, val st0 b with
                | Some x, Some y => next (set_fl st0 (cmp_flags (x mod two32) (y mod two32) signed32)) | _, _ => Fault end
  | CMPB a b => match val st0 a, val st0 b with
                | Some x, Some y => next (set_fl st0 (cmp_flags (x mod 256) (y mod 256) (fun v => if v <? 128 then v else v - 256)))
                | _, _ => Fault end
  | TESTQ a b => match val st0 a, val st0 b with
                 | Some x, Some y => next (set_fl st0 (logic_flags (Z.land x y) two63))
                 | _, _ => Fault end
  | TESTW a b => match val st0 a, val st0 b with
                 | Some x, Some y => next (set_fl st0 (logic_flags (Z.land x y mod 65536) 32768))
                 | _, _ => Fault end
  | BSFL src d =>
      let x := rg st0 src mod two32 in
      if x =? 0 then next (set_fl st0 (zflag true))
      else next (set_fl (set_reg st0 d (bsf x)) (zflag false))
  | POPCNTL src d => next (set_fl (set_reg st0 d (popcnt (rg st0 src mod two32))) noflags)
  | POPCNTQ src d => next (set_fl (set_reg st0 d (popcnt (rg st0 src))) noflags)
  | CMPHASAVX2 => next (set_fl st0 (cmp_flags (if has_avx2 then 1 else 0) 1 (fun v => v)))
  | CMPHASPOPCNT => next (set_fl st0 (cmp_flags (if has_popcnt then 1 else 0) 1 (fun v => v)))
  | JMP t => Running t st0
  | TAILGO => Delegated
  | JCC c t => match holds (fl st0) c with Some true => Running t st0 | Some false => Running (S pc) st0 | None => Fault end
  | RET => Done (res st0)
  | NOP => next st0
  | MOVD src d => next (set_vr st0 d (vput 16 (le_bytes4 (rg st0 src mod two32) ++ repeat 0 12) (vr st0 d)))
  | MOVQX src d => next (set_vr st0 d (vput 16 (le_bytes4 (rg st0 src mod two32) ++ le_bytes4 (rg st0 src / two32) ++ repeat 0 8) (vr st0 d)))
  | PUNPCKLBW src d => next (set_vr st0 d (vput 16 (interleave (firstn 8 (vr st0 d)) (firstn 8 (vr st0 src))) (vr st0 d)))
  | PSHUFL0 src d =>
      let dw := firstn 4 (vr st0 src) in next (set_vr st0 d (vput 16 (dw ++ dw ++ dw ++ dw) (vr st0 d)))
  | VLOAD w m d => match load w (ea st0 m) with
                   | Some v => next (set_vr st0 d (vput w v (vr st0 d))) | None => Fault end
  | VAND w a b d => next (set_vr st0 d (vput w (map2 Z.land (vr st0 a) (vr st0 b)) (vr st0 d)))
  | VOR w a b d => next (set_vr st0 d (vput w (map2 Z.lor (vr st0 a) (vr st0 b)) (vr st0 d)))
  | VCMPEQB w a b d => next (set_vr st0 d (vput w (map2 (fun x y => if x =? y then 255 else 0) (vr st0 a) (vr st0 b)) (vr st0 d)))
  | VMOVMSKB w src d => next (set_reg st0 d (movmsk (vlow w (vr st0 src))))
  | VPTEST a b => next (set_fl st0 (zflag (forallb (fun x => x =? 0) (map2 Z.land (vr st0 a) (vr st0 b)))))
  | VBROADCASTB src d => next (set_vr st0 d (repeat (hd 0 (vr st0 src)) 32))
  | VZEROUPPER => next st0          (* upper halves are dead afterwards: the kernels return *)
  end.

Fixpoint run (prog : list instr) (fuel : nat) (pc : nat) (st0 : st) : outcome :=
  match fuel with
  | O => Running pc st0
  | S f =>
    match nth_error prog pc with
    | None => Fault
    | Some i =>
      match step pc i st0 with
      | Running pc' st1 => run prog f pc' st1
      | o => o
      end
    end
  end.

(* the state at the entry of a wrapper: registers hold arbitrary values *)
Definition init (r0 : reg -> Z) : st :=
  {| gAX := r0 AX; gBX := r0 BX; gCX := r0 CX; gDX := r0 DX; gSI := r0 SI; gDI := r0 DI; gR8 := r0 R8; gR9 := r0 R9; gR10 := r0 R10; gR11 := r0 R11; gR12 := r0 R12; gR13 := r0 R13; gR14 := r0 R14; gR15 := r0 R15; v0 := repeat 0 32%nat; v1 := repeat 0 32%nat; v2 := repeat 0 32%nat; v3 := repeat 0 32%nat; v4 := repeat 0 32%nat; v5 := repeat 0 32%nat; v6 := repeat 0 32%nat; v7 := repeat 0 32%nat; fl := noflags; res := None |}.

End Machine.
