(* X86CountFacts.v — arithmetic of the counting kernels: POPCNT of a byte
   mask is the number of matching lanes; the masks that select the lanes of
   the argument in a partly foreign 16- or 64-byte block. *)
From Coq Require Import List ZArith Lia Bool.
From Strcase Require Import Base Spec X86 X86Facts.
From Coq Require Import ZifyBool ZifyNat.
Import ListNotations.
Open Scope Z_scope.

(* number of lanes with the top bit set *)
Definition cnt (v : list Z) : Z := Z.of_nat (length (filter (fun b => 128 <=? b) v)).

Lemma cnt_app a b : cnt (a ++ b) = cnt a + cnt b.
Proof. unfold cnt. rewrite filter_app, app_length. lia. Qed.

Lemma cnt_range v : 0 <= cnt v <= Z.of_nat (length v).
Proof.
  unfold cnt. induction v as [|b v IH]; cbn [filter length]; [lia|]. destruct (128 <=? b); cbn [length]; lia.
Qed.

Lemma cnt_repeat0 k : cnt (repeat 0 k) = 0.
Proof. unfold cnt. induction k as [|k IH]; [reflexivity|]. cbn [repeat filter]. change (128 <=? 0) with false. exact IH. Qed.

Lemma cnt_map_ind f v : cnt (map (ind f) v) = Z.of_nat (length (filter f v)).
Proof.
  unfold cnt. induction v as [|b v IH]; [reflexivity|]. cbn [map filter]. unfold ind at 1. destruct (f b).
  - change (128 <=? 255) with true. cbn [length]. lia.
  - change (128 <=? 0) with false. exact IH.
Qed.

Lemma popcnt_aux_0 n : popcnt_aux n 0 = 0.
Proof. induction n as [|n IH]; [reflexivity|]. cbn [popcnt_aux]. change (Z.odd 0) with false. change (0 / 2) with 0. rewrite IH. reflexivity. Qed.

Lemma popcnt_aux_movmsk n : forall v, (length v <= n)%nat -> popcnt_aux n (movmsk v) = cnt v.
Proof.
  induction n as [|n IH]; intros v H.
  - destruct v; [reflexivity|cbn [length] in H; lia].
  - destruct v as [|b v]; [apply popcnt_aux_0|]. cbn [length] in H. cbn [popcnt_aux movmsk].
    change (b :: v) with ([b] ++ v). rewrite cnt_app. rewrite <- (IH v) by lia.
    unfold cnt. cbn [filter]. destruct (128 <=? b).
    + cbn [length]. replace (Z.odd (1 + 2 * movmsk v)) with true by (rewrite Z.odd_add_mul_2; reflexivity).
      replace ((1 + 2 * movmsk v) / 2) with (movmsk v) by lia. lia.
    + cbn [length]. replace (Z.odd (0 + 2 * movmsk v)) with false by (rewrite Z.odd_add_mul_2; reflexivity).
      replace ((0 + 2 * movmsk v) / 2) with (movmsk v) by lia. lia.
Qed.

Lemma popcnt_movmsk v : (length v <= 64)%nat -> popcnt (movmsk v) = cnt v.
Proof. apply popcnt_aux_movmsk. Qed.

Lemma movmsk_repeat0 k : movmsk (repeat 0 k) = 0.
Proof. induction k as [|k IH]; [reflexivity|]. cbn [repeat movmsk]. change (128 <=? 0) with false. lia. Qed.

(* 2^k * mask: the same lanes, k lanes higher *)
Lemma movmsk_shift k t : 2 ^ Z.of_nat k * movmsk t = movmsk (repeat 0 k ++ t).
Proof. rewrite movmsk_app, movmsk_repeat0, repeat_length. lia. Qed.

(* the low n lanes *)
Lemma land_low_mask t u : Z.land (movmsk (t ++ u)) (2 ^ Z.of_nat (length t) - 1) = movmsk t.
Proof.
  rewrite movmsk_app. set (n := Z.of_nat (length t)). pose proof (movmsk_range t) as R. fold n in R.
  replace (2 ^ n - 1) with (Z.ones n) by (rewrite Z.ones_equiv; lia). rewrite Z.land_ones by lia.
  symmetry. apply (Z.mod_unique_pos _ _ (movmsk u)); [lia|ring].
Qed.

(* the lanes k .. k+n-1 *)
Lemma land_high_mask J t : Z.land (movmsk (J ++ t)) ((2 ^ Z.of_nat (length t) - 1) * 2 ^ Z.of_nat (length J)) = movmsk (repeat 0 (length J) ++ t).
Proof.
  rewrite <- movmsk_shift, movmsk_app. set (k := Z.of_nat (length J)). set (n := Z.of_nat (length t)).
  pose proof (movmsk_range t) as Rt. fold n in Rt. pose proof (movmsk_range J) as RJ. fold k in RJ.
  assert (Hk : 0 <= k) by lia. assert (Hn : 0 <= n) by lia.
  replace (2 ^ n - 1) with (Z.ones n) by (rewrite Z.ones_equiv; lia).
  set (mj := movmsk J) in *. set (mt := movmsk t) in *.
  assert (P2 : 0 < 2 ^ k) by (apply Z.pow_pos_nonneg; lia).
  apply Z.bits_inj'. intros i Hi. rewrite Z.land_spec.
  rewrite (Z.mul_comm (2 ^ k) mt). rewrite !Z.mul_pow2_bits by exact Hk.
  destruct (Z_lt_le_dec i k) as [Lo|Hi2].
  - rewrite (Z.testbit_neg_r (Z.ones n)) by lia. rewrite (Z.testbit_neg_r mt) by lia. apply andb_false_r.
  - rewrite Z.testbit_ones_nonneg by lia.
    replace i with ((i - k) + k) at 1 by lia. rewrite <- Z.div_pow2_bits by lia.
    replace ((mj + mt * 2 ^ k) / 2 ^ k) with mt by (rewrite Z.div_add by lia; rewrite Z.div_small by lia; lia).
    destruct (Z_lt_le_dec (i - k) n) as [Lo2|Hi3].
    + replace (i - k <? n) with true by lia. apply andb_true_r.
    + replace (i - k <? n) with false by lia. rewrite andb_false_r. symmetry.
      replace mt with (mt mod 2 ^ n) by (apply Z.mod_small; lia). apply Z.mod_pow2_bits_high. lia.
Qed.

(* two 32-lane masks side by side *)
Lemma lor_masks a b : length a = 32%nat -> length b = 32%nat ->
  Z.lor (movmsk a) (movmsk b * 2 ^ (32 mod two64 mod 64) mod two64) = movmsk (a ++ b).
Proof.
  intros La Lb. rewrite movmsk_app, La. change (32 mod two64 mod 64) with 32. change (Z.of_nat 32) with 32.
  pose proof (movmsk_range a) as Ra. rewrite La in Ra. change (2 ^ Z.of_nat 32) with 4294967296 in Ra.
  pose proof (movmsk_range b) as Rb. rewrite Lb in Rb. change (2 ^ Z.of_nat 32) with 4294967296 in Rb.
  change (2 ^ 32) with 4294967296. unfold two64. rewrite (Z.mod_small (movmsk b * 4294967296)) by lia.
  set (ma := movmsk a) in *. set (mb := movmsk b) in *.
  assert (E : Z.land ma (mb * 4294967296) = 0).
  { apply Z.bits_inj'. intros i Hi. rewrite Z.land_spec, Z.bits_0. change 4294967296 with (2 ^ 32). rewrite Z.mul_pow2_bits by lia.
    destruct (Z_lt_le_dec i 32) as [Lo|Hi2].
    - rewrite (Z.testbit_neg_r mb) by lia. apply andb_false_r.
    - replace ma with (ma mod 2 ^ 32) by (apply Z.mod_small; change (2 ^ 32) with 4294967296; lia).
      rewrite Z.mod_pow2_bits_high by lia. reflexivity. }
  rewrite <- (Z.lxor_lor _ _ E), <- (Z.add_nocarry_lxor _ _ E). ring.
Qed.

(* the constants the kernels build their masks from: all tail lengths *)
Definition zr (n : nat) : list Z := map Z.of_nat (seq 0 n).
Lemma zr_in n x : 0 <= x < Z.of_nat n -> In x (zr n).
Proof. intros H. unfold zr. apply in_map_iff. exists (Z.to_nat x). split; [lia|]. apply in_seq. lia. Qed.

(* MOVQ $0xFFFF, R10; SARQ CL, R10; SALQ CL, R10 with CL = 16 - r *)
Lemma mask16_chk : forallb (fun r =>
    ((signed64 (65535 mod two64) / 2 ^ ((16 - r) mod 64)) mod two64 * 2 ^ ((16 - r) mod 64) mod two64 =? (2 ^ r - 1) * 2 ^ (16 - r))) (zr 17) = true.
Proof. vm_compute. reflexivity. Qed.
Lemma mask16 r : 0 <= r <= 16 ->
  (signed64 (65535 mod two64) / 2 ^ ((16 - r) mod 64)) mod two64 * 2 ^ ((16 - r) mod 64) mod two64 = (2 ^ r - 1) * 2 ^ (16 - r).
Proof.
  intros H. pose proof mask16_chk as C. rewrite forallb_forall in C. apply Z.eqb_eq. apply (C r). apply zr_in. cbn. lia.
Qed.

(* MOVQ $1, R10; SALQ CL, R10; SUBQ $1, R10 with CL = r *)
Lemma mask_low_chk : forallb (fun r => ((1 mod two64) * 2 ^ (r mod 64) mod two64 - 1 mod two64 =? 2 ^ r - 1)) (zr 17) = true.
Proof. vm_compute. reflexivity. Qed.
Lemma mask_low r : 0 <= r <= 16 -> (1 mod two64) * 2 ^ (r mod 64) mod two64 - 1 mod two64 = 2 ^ r - 1.
Proof.
  intros H. pose proof mask_low_chk as C. rewrite forallb_forall in C. apply Z.eqb_eq. apply (C r). apply zr_in. cbn. lia.
Qed.

(* MOVQ $-1, R10; SALQ CL, R10 with CL = 64 - r, 0 < r < 64 *)
Lemma mask64_chk : forallb (fun r =>
    ((18446744073709551615 mod two64) * 2 ^ ((64 - r) mod 64) mod two64 =? (2 ^ r - 1) * 2 ^ (64 - r))) (tl (zr 64)) = true.
Proof. vm_compute. reflexivity. Qed.
Lemma mask64 r : 1 <= r <= 63 ->
  (18446744073709551615 mod two64) * 2 ^ ((64 - r) mod 64) mod two64 = (2 ^ r - 1) * 2 ^ (64 - r).
Proof.
  intros H. pose proof mask64_chk as C. rewrite forallb_forall in C. apply Z.eqb_eq. apply (C r).
  assert (I : In r (zr 64)) by (apply zr_in; cbn; lia). unfold zr in *. cbn [seq map] in I. cbn [seq map tl]. destruct I as [E|I]; [lia|exact I].
Qed.

Lemma skipn_skipn' {T} (a b : nat) (l : list T) : skipn a (skipn b l) = skipn (a + b) l.
Proof.
  revert l. induction b as [|b IH]; intros l; [rewrite Nat.add_0_r; reflexivity|].
  destruct l as [|x l]; [rewrite !skipn_nil; reflexivity|]. rewrite Nat.add_succ_r. cbn [skipn]. apply IH.
Qed.

Lemma land15 x : 0 <= x -> Z.land x (15 mod two64) = x mod 16.
Proof. intros H. change (15 mod two64) with (Z.ones 4). rewrite Z.land_ones by lia. reflexivity. Qed.

Lemma land63 x : 0 <= x -> Z.land x (63 mod two64) = x mod 64.
Proof. intros H. change (63 mod two64) with (Z.ones 6). rewrite Z.land_ones by lia. reflexivity. Qed.

Lemma cnt_split K (t : list Z) : cnt t = cnt (firstn K t) + cnt (skipn K t).
Proof. rewrite <- cnt_app, firstn_skipn. reflexivity. Qed.
