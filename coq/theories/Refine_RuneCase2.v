(* Refine_RuneCase2.v — indexRuneCase(s, r) is the byte offset of the first
   code point of s equal to r (rune_index), for EVERY rune argument: ASCII,
   U+FFFD (first ill-formed byte or encoded U+FFFD), invalid (never found)
   and multi-byte scalar values (last-byte search + self-synchronisation),
   for every cut-over function and both values of NativeIndex. *)
From Strcase Require Import Base Utf8 Utf8Facts Utf8Last Spec Impl Impl4 Refine_Compare Refine_Prefix
  Refine_RuneCase Utf8Enc.
From Coq Require Import ZifyBool ZifyNat.

(* ---------- skipping bytes that cannot match ---------- *)

Lemma ibf_range f l : index_byte_from f l 0 = -1 \/ 0 <= index_byte_from f l 0.
Proof. destruct (index_byte_from_spec f l 0) as [[E _]|[(d & E & _)|Hn]]; lia. Qed.

Lemma ibf_shift f l i :
  0 <= i -> index_byte_from f l i = (if index_byte_from f l 0 =? -1 then -1 else i + index_byte_from f l 0).
Proof.
  revert i. induction l as [|b l IH]; intros i Hi; cbn [index_byte_from]; [reflexivity|].
  destruct (f b); [cbn; lia|]. rewrite (IH (i + 1)), (IH (0 + 1)) by lia.
  destruct (ibf_range f l) as [E|E].
  - rewrite E. reflexivity.
  - replace (index_byte_from f l 0 =? -1) with false by lia.
    replace (0 + 1 + index_byte_from f l 0 =? -1) with false by lia. lia.
Qed.

Lemma std_index_byte_skip s c w :
  (w <= length s)%nat -> (forall k, (k < w)%nat -> nth k s 0 <> c) ->
  std_index_byte s c =
  (if std_index_byte (skipn w s) c =? -1 then -1 else Z.of_nat w + std_index_byte (skipn w s) c).
Proof.
  unfold std_index_byte. revert s. induction w as [|w IH]; intros s L N.
  - cbn [skipn]. destruct (index_byte_from (fun b => b =? c) s 0 =? -1) eqn:E; lia.
  - destruct s as [|b s]; [cbn in L; lia|]. cbn [skipn index_byte_from].
    pose proof (N 0%nat ltac:(lia)) as N0. cbn [nth] in N0. replace (b =? c) with false by lia.
    rewrite ibf_shift by lia. rewrite (IH s) by (try (cbn [length] in L; lia); intros k Hk; apply (N (S k)); lia).
    destruct (ibf_range (fun b0 => b0 =? c) (skipn w s)) as [E|E].
    + rewrite E. reflexivity.
    + replace (index_byte_from (fun b0 => b0 =? c) (skipn w s) 0 =? -1) with false by lia.
      replace (Z.of_nat w + index_byte_from (fun b0 => b0 =? c) (skipn w s) 0 =? -1) with false by lia. lia.
Qed.

Lemma index_where_cons_false f x l :
  f x = false -> index_where f (x :: l) 0 = option_map S (index_where f l 0).
Proof.
  intros H. cbn [index_where]. rewrite H, (index_where_shift f l 1).
  destruct (index_where f l 0); reflexivity.
Qed.

(* rune_index unfolds along the segmentation *)
Lemma rune_index_cons b l r :
  rune_index (b :: l) r =
  let d := decode (b :: l) in
  if fst d =? r then 0
  else if rune_index (skipn (snd d) (b :: l)) r =? -1 then -1
       else Z.of_nat (snd d) + rune_index (skipn (snd d) (b :: l)) r.
Proof.
  cbv zeta. unfold rune_index, runes. rewrite segs_cons. cbn [map].
  destruct (fst (decode (b :: l)) =? r) eqn:E.
  - cbn [index_where]. rewrite E. reflexivity.
  - rewrite index_where_cons_false by exact E.
    destruct (index_where (fun x => x =? r) (map fst (segs (skipn (snd (decode (b :: l))) (b :: l)))) 0) as [k|];
      cbn [option_map offz]; [|reflexivity].
    replace (Z.of_nat (off (skipn (snd (decode (b :: l))) (b :: l)) k) =? -1) with false by lia.
    rewrite off_cons. lia.
Qed.

(* the rune of a segment that starts with a non-ASCII byte is not ASCII *)
Lemma decode_hi_not_ascii b l : wf (b :: l) -> 128 <= b -> 128 <= fst (decode (b :: l)).
Proof.
  intros Hw Hb. destruct (Z_lt_le_dec (fst (decode (b :: l))) 128) as [Hlt|]; [|assumption]. exfalso.
  assert (Hd : decode (b :: l) <> RE1).
  { intros E. rewrite E in Hlt. unfold RE1, RuneError in Hlt. cbn in Hlt. lia. }
  destruct (encode_decode b l Hw Hd) as [Ef _].
  pose proof (decode_rune_range (b :: l) Hw) as R.
  rewrite encode_ascii in Ef by lia.
  pose proof (decode_width_pos b l) as W.
  destruct (snd (decode (b :: l))) as [|w]; [lia|]. cbn [firstn] in Ef.
  apply (f_equal (hd 0)) in Ef. cbn [hd] in Ef. lia.
Qed.

(* ASCII: a raw byte search is a code point search *)
Lemma std_index_byte_ascii s r :
  wf s -> 0 <= r < 128 -> std_index_byte s r = rune_index s r.
Proof.
  intros Hw Hr. induction s as [|b l IH] using segs_ind; [reflexivity|].
  rewrite rune_index_cons. cbv zeta.
  pose proof (decode_width_pos b l) as Wp. pose proof (decode_width_le (b :: l)) as Wl.
  assert (Hb : 0 <= b < 256) by (inversion Hw; assumption).
  destruct (fst (decode (b :: l)) =? r) eqn:E.
  - (* the segment is the ASCII byte r itself *)
    assert (b < 128).
    { destruct (Z_lt_le_dec b 128); [assumption|]. pose proof (decode_hi_not_ascii b l Hw ltac:(lia)). lia. }
    rewrite decode_ascii in E by lia. cbn [fst] in E.
    unfold std_index_byte. cbn [index_byte_from]. replace (b =? r) with true by lia. reflexivity.
  - rewrite (std_index_byte_skip (b :: l) r (snd (decode (b :: l))) Wl).
    + rewrite IH by (apply wf_skipn; exact Hw). reflexivity.
    + intros k Hk. destruct k as [|k].
      * cbn [nth]. destruct (Z_lt_le_dec b 128) as [Hlt|Hge]; [rewrite decode_ascii in E by lia; cbn [fst] in E; lia|lia].
      * pose proof (decode_interior (b :: l) (S k) ltac:(lia)) as C. unfold is_cont in C. lia.
Qed.

(* the range loop for U+FFFD *)
Lemma first_error_skip s k i : first_error s k i = first_error (skipn k s) 0 (i + Z.of_nat k).
Proof.
  revert s i. induction k as [|k IH]; intros s i.
  - cbn [skipn]. f_equal. lia.
  - destruct s as [|b s]; [reflexivity|]. cbn [first_error skipn]. rewrite IH. f_equal. lia.
Qed.

Lemma first_error_range s k i : 0 <= i -> first_error s k i = -1 \/ 0 <= first_error s k i.
Proof.
  revert k i. induction s as [|b s IHs]; intros k i Hi; cbn [first_error]; [left; reflexivity|].
  destruct k; [|apply IHs; lia]. destruct (fst (decode (b :: s)) =? RuneError); [right; lia|apply IHs; lia].
Qed.

Lemma first_error_shift s i :
  0 <= i -> first_error s 0 i = (if first_error s 0 0 =? -1 then -1 else i + first_error s 0 0).
Proof.
  revert i. induction s as [|b l IH] using segs_ind; intros i Hi; [reflexivity|].
  cbn [first_error]. destruct (fst (decode (b :: l)) =? RuneError); [cbn; lia|].
  pose proof (decode_width_pos b l) as Wp.
  rewrite !(first_error_skip l).
  assert (E : skipn (snd (decode (b :: l)) - 1) l = skipn (snd (decode (b :: l))) (b :: l)).
  { destruct (snd (decode (b :: l))) as [|w]; [lia|]. cbn [skipn]. replace (S w - 1)%nat with w by lia. reflexivity. }
  rewrite E. rewrite (IH (i + 1 + Z.of_nat (snd (decode (b :: l)) - 1))), (IH (0 + 1 + Z.of_nat (snd (decode (b :: l)) - 1))) by lia.
  set (X := first_error (skipn (snd (decode (b :: l))) (b :: l)) 0 0).
  destruct (first_error_range (skipn (snd (decode (b :: l))) (b :: l)) 0 0 ltac:(lia)) as [Hm|Hp].
  - fold X in Hm. rewrite Hm. reflexivity.
  - fold X in Hp. replace (X =? -1) with false by lia.
    replace (0 + 1 + Z.of_nat (snd (decode (b :: l)) - 1) + X =? -1) with false by lia. lia.
Qed.

Lemma first_error_rune_index s : first_error s 0 0 = rune_index s RuneError.
Proof.
  induction s as [|b l IH] using segs_ind; [reflexivity|].
  rewrite rune_index_cons. cbv zeta. cbn [first_error].
  destruct (fst (decode (b :: l)) =? RuneError); [reflexivity|].
  pose proof (decode_width_pos b l) as Wp.
  rewrite (first_error_skip l).
  assert (E : skipn (snd (decode (b :: l)) - 1) l = skipn (snd (decode (b :: l))) (b :: l)).
  { destruct (snd (decode (b :: l))) as [|w]; [lia|]. cbn [skipn]. replace (S w - 1)%nat with w by lia. reflexivity. }
  rewrite E, first_error_shift by lia. rewrite IH.
  destruct (rune_index (skipn (snd (decode (b :: l))) (b :: l)) RuneError =? -1); lia.
Qed.

(* no segment carries an invalid rune *)
Lemma rune_index_invalid s r : wf s -> valid_rune r = false -> rune_index s r = -1.
Proof.
  intros Hw Hv. induction s as [|b l IH] using segs_ind; [reflexivity|].
  rewrite rune_index_cons. cbv zeta. rewrite IH by (apply wf_skipn; exact Hw).
  destruct (fst (decode (b :: l)) =? r) eqn:E; [|reflexivity]. exfalso.
  destruct (decode_class b l Hw) as [D|(L & R)].
  - rewrite D in E. cbn [fst] in E. assert (r = RuneError) by lia. subst. discriminate.
  - assert (Hd : decode (b :: l) <> RE1 \/ decode (b :: l) = RE1) by (destruct (decode (b :: l)) as [x [|[|w]]]; unfold RE1;
      try (left; congruence); destruct (Z.eq_dec x RuneError); [right; congruence|left; congruence]).
    destruct Hd as [Hd|Hd].
    + destruct (encode_decode b l Hw Hd) as [_ V]. replace (fst (decode (b :: l))) with r in V by lia. congruence.
    + unfold RE1 in Hd. rewrite Hd in E. cbn [fst] in E. assert (r = RuneError) by lia. subst. discriminate.
Qed.

Section RC.
Variable native : bool.
Variable cutover : Z -> Z.

Theorem indexRuneCase_ok s r :
  wf s -> indexRuneCase native cutover s r = Ok (rune_index s r).
Proof.
  intros Hw. unfold indexRuneCase.
  destruct ((0 <=? r) && (r <? 128)) eqn:A.
  { rewrite std_index_byte_ascii by (try assumption; lia). reflexivity. }
  destruct (r =? RuneError) eqn:B.
  { rewrite first_error_rune_index. replace r with RuneError by lia. reflexivity. }
  destruct (valid_rune r) eqn:V; cbn [negb].
  2:{ rewrite rune_index_invalid by assumption. reflexivity. }
  assert (Hr : 128 <= r) by (unfold valid_rune in V; lia).
  destruct (encode_shape r V Hr) as (e0 & etl & Eenc & He0 & Htl & Hconts & Hlen).
  assert (Hn2 : (2 <= length (encode r))%nat).
  { rewrite Eenc. destruct etl; [congruence|cbn; lia]. }
  rewrite <- (std_index_encode s r Hw V Hr ltac:(lia)).
  apply irc_loop_ok.
  - exact Hn2.
  - exact Hlen.
  - intros L2. rewrite Eenc in *. destruct etl as [|e1 etl]; [congruence|]. cbn [nth].
    cbn [forallb] in Hconts. apply andb_true_iff in Hconts as [C1 _].
    unfold is_start in He0. intros E. rewrite E, C1 in He0. discriminate.
  - unfold inv. split; [unfold len; lia|]. intros p Hp. unfold len in Hp. lia.
  - unfold len. lia.
Qed.

End RC.
