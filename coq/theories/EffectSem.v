(* EffectSem.v — an over-approximating effect semantics for the summaries
   the effects translator (T3) produces, and the soundness of the two
   summary checks (C05: no heap allocation event; C18: no write to
   non-local storage).
   A function may emit each of its own sites' events any number of times
   in any order and call any of its static callees any number of times
   (loops, branches and recursion are all over-approximated).  The check is
   closure + cleanliness of a set S of functions containing the roots. *)
From Coq Require Import String List Bool ZArith.
Import ListNotations.
Open Scope string_scope.

Definition site := (string * (string * (string * string)))%type.  (* kind, what, position, verdict *)
Definition fsum := (list string * list site)%type.
Definition program := list (string * fsum).

Definition s_kind (s : site) := fst s.
Definition s_what (s : site) := fst (snd s).
Definition s_pos (s : site) := fst (snd (snd s)).
Definition s_verdict (s : site) := snd (snd (snd s)).

Fixpoint lookup (P : program) (f : string) : option fsum :=
  match P with
  | [] => None
  | (g, s) :: P' => if String.eqb g f then Some s else lookup P' f
  end.

Fixpoint mem (x : string) (l : list string) : bool :=
  match l with [] => false | y :: l' => String.eqb x y || mem x l' end.

Lemma mem_In x l : mem x l = true <-> In x l.
Proof.
  induction l as [|y l IH]; simpl; [split; [discriminate|intros []]|].
  rewrite orb_true_iff, IH, String.eqb_eq. split; intros [H|H]; auto.
Qed.

(* traces *)
Inductive exec (P : program) : string -> list site -> Prop :=
| ex_done f : exec P f []
| ex_own f s e tr : lookup P f = Some s -> In e (snd s) -> exec P f tr -> exec P f (e :: tr)
| ex_call f s g tr1 tr2 :
    lookup P f = Some s -> In g (fst s) -> exec P g tr1 -> exec P f tr2 -> exec P f (tr1 ++ tr2).

(* S is closed under calls, every member is defined, and no member has a bad site *)
Definition closed (P : program) (S : list string) : bool :=
  forallb (fun f => match lookup P f with
                    | Some s => forallb (fun g => mem g S) (fst s)
                    | None => false
                    end) S.
Definition clean (P : program) (bad : site -> bool) (S : list string) : bool :=
  forallb (fun f => match lookup P f with
                    | Some s => forallb (fun e => negb (bad e)) (snd s)
                    | None => false
                    end) S.
Definition summary_check (P : program) (bad : site -> bool) (S roots : list string) : bool :=
  closed P S && clean P bad S && forallb (fun r => mem r S) roots.

Theorem summary_check_sound P bad S roots :
  summary_check P bad S roots = true ->
  forall f tr, In f roots -> exec P f tr -> forall e, In e tr -> bad e = false.
Proof.
  unfold summary_check. intros H. apply andb_true_iff in H as [H Hr]. apply andb_true_iff in H as [Hc Hk].
  assert (G : forall f tr, exec P f tr -> In f S -> forall e, In e tr -> bad e = false).
  { intros f tr E. induction E as [f|f s e tr L He E IH|f s g tr1 tr2 L Hg E1 IH1 E2 IH2]; intros Hf x Hx.
    - destruct Hx.
    - destruct Hx as [<-|Hx]; [|apply IH; assumption].
      unfold clean in Hk. rewrite forallb_forall in Hk. specialize (Hk f Hf). rewrite L in Hk.
      rewrite forallb_forall in Hk. specialize (Hk e He). destruct (bad e); [discriminate|reflexivity].
    - apply in_app_or in Hx as [Hx|Hx]; [|apply IH2; assumption].
      apply IH1; [|exact Hx]. unfold closed in Hc. rewrite forallb_forall in Hc. specialize (Hc f Hf).
      rewrite L in Hc. rewrite forallb_forall in Hc. apply mem_In. apply Hc. exact Hg. }
  intros f tr Hf E. apply (G f tr E). rewrite forallb_forall in Hr. apply mem_In. apply Hr. exact Hf.
Qed.

(* reachable set by iteration (only used to PROPOSE S; the check above is what is proved sound) *)
Fixpoint add_all (l S : list string) : list string :=
  match l with [] => S | x :: l' => if mem x S then add_all l' S else add_all l' (S ++ [x]) end.
Fixpoint reach (P : program) (fuel : nat) (S : list string) : list string :=
  match fuel with
  | O => S
  | Datatypes.S k =>
    let S' := fold_left (fun acc f => match lookup P f with Some s => add_all (fst s) acc | None => acc end) S S in
    reach P k S'
  end.

(* ---- what counts as bad (the allow-lists are part of the trusted base) ---- *)

(* leaf functions outside the repository that neither allocate nor write to
   memory reachable from their arguments (utf8.EncodeRune writes its
   destination: T3 records that as a write site of the caller) *)
Definition allow_ext : list string := [
  "strings.Index"; "strings.IndexByte"; "strings.LastIndexByte"; "strings.Contains"; "strings.Count";
  "bytes.Index"; "bytes.IndexByte"; "bytes.LastIndexByte"; "bytes.Contains"; "bytes.Count";
  "unicode/utf8.DecodeRune"; "unicode/utf8.DecodeRuneInString"; "unicode/utf8.DecodeLastRune";
  "unicode/utf8.DecodeLastRuneInString"; "unicode/utf8.RuneLen"; "unicode/utf8.RuneCount";
  "unicode/utf8.RuneCountInString"; "unicode/utf8.ValidRune"; "unicode/utf8.EncodeRune";
  "unicode/utf8.RuneStart"; "unicode/utf8.FullRune"; "unicode/utf8.FullRuneInString";
  "unicode/utf8.Valid"; "unicode/utf8.ValidString";
  "golang.org/x/sys/cpu.Initialized"
].

(* C05: a site that may allocate on the heap *)
Definition bad_alloc (e : site) : bool :=
  if String.eqb (s_kind e) "alloc" then negb (String.eqb (s_verdict e) "stack")
  else if String.eqb (s_kind e) "ext" then negb (mem (s_what e) allow_ext)
  else if String.eqb (s_kind e) "dyn" then true
  else false.

(* C18: a site that may write to storage that is not function-local.
   "slice-of-local": a store through a slice made from a local array. *)
Definition bad_write (e : site) : bool :=
  if String.eqb (s_kind e) "write" then negb (String.eqb (s_verdict e) "slice-of-local")
  else if String.eqb (s_kind e) "ext" then negb (mem (s_what e) allow_ext)
  else if String.eqb (s_kind e) "dyn" then true
  else false.

(* ---- interleavings: read-only threads cannot race ---- *)

Inductive access := Rd (loc : Z) | Wr (loc : Z).
Definition is_write (a : access) : bool := match a with Wr _ => true | Rd _ => false end.
Definition loc_of (a : access) : Z := match a with Rd l | Wr l => l end.

(* an interleaving of per-thread access sequences: list of (thread id, access) *)
Definition conflict (x y : nat * access) : Prop :=
  fst x <> fst y /\ loc_of (snd x) = loc_of (snd y) /\ (is_write (snd x) = true \/ is_write (snd y) = true).

Theorem read_only_race_free (sched : list (nat * access)) :
  (forall x, In x sched -> is_write (snd x) = false) ->
  forall x y, In x sched -> In y sched -> ~ conflict x y.
Proof.
  intros RO x y Hx Hy (_ & _ & [W|W]); [rewrite (RO x Hx) in W|rewrite (RO y Hy) in W]; discriminate.
Qed.

(* and a read-only step function is deterministic under any interleaving:
   the memory it reads is never changed by the other threads *)
Definition mem_state := Z -> Z.
Definition apply_access (m : mem_state) (a : access) (v : Z) : mem_state :=
  match a with Wr l => fun k => if Z.eqb k l then v else m k | Rd _ => m end.

Theorem read_only_memory_unchanged (sched : list (nat * access)) (vals : list Z) (m : mem_state) :
  (forall x, In x sched -> is_write (snd x) = false) ->
  forall k, fold_left (fun mm xa => apply_access mm (snd (fst xa)) (snd xa)) (combine sched vals) m k = m k.
Proof.
  revert vals m. induction sched as [|x sched IH]; intros vals m RO k; [reflexivity|].
  destruct vals as [|v vals]; [reflexivity|]. cbn [combine fold_left fst snd].
  rewrite IH by (intros y Hy; apply RO; right; exact Hy).
  pose proof (RO x (or_introl eq_refl)) as Hx. destruct x as [t [l|l]]; cbn in *; [reflexivity|discriminate].
Qed.
