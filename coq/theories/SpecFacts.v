(* SpecFacts.v — algebra of the rune-sequence semantics (Spec.v), for every
   fold function and every pair of byte strings (well-formed UTF-8 or not). *)
From Strcase Require Import Base Utf8 Spec.
From Coq Require Import ZifyBool ZifyNat.

(* ---------------------------------------------------------------- *)
(* list level *)

Lemma list_eqb_eq a b : list_eqb a b = true <-> a = b.
Proof.
  revert b. induction a as [|x a IH]; intros [|y b]; simpl; split; intros H;
    try reflexivity; try discriminate.
  - apply andb_true_iff in H as [H1 H2]. apply Z.eqb_eq in H1. apply IH in H2. congruence.
  - inversion H; subst. rewrite Z.eqb_refl. simpl. apply IH. reflexivity.
Qed.

Lemma prefixb_spec p l : prefixb p l = true <-> exists r, l = p ++ r.
Proof.
  revert l. induction p as [|x p IH]; intros l; simpl.
  - split; [intros _; exists l; reflexivity|reflexivity].
  - destruct l as [|y l].
    + split; [discriminate|intros [r Hr]; discriminate].
    + rewrite andb_true_iff, IH. split.
      * intros [H1 [r Hr]]. apply Z.eqb_eq in H1. subst. exists r. reflexivity.
      * intros [r Hr]. inversion Hr; subst. split; [apply Z.eqb_refl|exists r; reflexivity].
Qed.

Lemma prefixb_nil l : prefixb [] l = true.
Proof. reflexivity. Qed.

Lemma prefixb_refl l : prefixb l l = true.
Proof. apply prefixb_spec. exists []. rewrite app_nil_r. reflexivity. Qed.

Lemma prefixb_app p r : prefixb p (p ++ r) = true.
Proof. apply prefixb_spec. exists r. reflexivity. Qed.

Lemma prefixb_length p l : prefixb p l = true -> (length p <= length l)%nat.
Proof. intros H. apply prefixb_spec in H as [r ->]. rewrite app_length. lia. Qed.

Lemma prefixb_firstn p l : prefixb p l = true <-> firstn (length p) l = p /\ (length p <= length l)%nat.
Proof.
  split.
  - intros H. apply prefixb_spec in H as [r ->]. split.
    + rewrite firstn_app, Nat.sub_diag, firstn_all. simpl. apply app_nil_r.
    + rewrite app_length. lia.
  - intros [H _]. apply prefixb_spec. exists (skipn (length p) l).
    rewrite <- H at 1. symmetry. apply firstn_skipn.
Qed.

Lemma prefixb_app_r p l r : prefixb p l = true -> prefixb p (l ++ r) = true.
Proof.
  intros H. apply prefixb_spec in H as [q ->]. apply prefixb_spec. exists (q ++ r).
  rewrite app_assoc. reflexivity.
Qed.

Lemma prefixb_same_length p l : prefixb p l = true -> length p = length l -> p = l.
Proof.
  intros H Hl. apply prefixb_spec in H as [r ->]. rewrite app_length in Hl.
  destruct r; [symmetry; apply app_nil_r|simpl in Hl; lia].
Qed.

(* lex: three-valued lexicographic comparison *)

Lemma lex_range a b : lex a b = -1 \/ lex a b = 0 \/ lex a b = 1.
Proof.
  revert b. induction a as [|x a IH]; intros [|y b]; simpl; try lia.
  destruct (x =? y) eqn:E; [apply IH|]. unfold clamp.
  destruct (x - y <? 0); destruct (0 <? x - y); lia.
Qed.

Lemma lex_refl a : lex a a = 0.
Proof. induction a as [|x a IH]; simpl; [reflexivity|]. rewrite Z.eqb_refl. exact IH. Qed.

Lemma lex_eq0 a b : lex a b = 0 <-> a = b.
Proof.
  split; [|intros ->; apply lex_refl].
  revert b. induction a as [|x a IH]; intros [|y b]; simpl; try reflexivity; try discriminate.
  destruct (x =? y) eqn:E.
  - intros H. apply IH in H. apply Z.eqb_eq in E. congruence.
  - intros H. apply (proj1 (clamp_eq0 _)) in H. lia.
Qed.

Lemma lex_antisym a b : lex a b = - lex b a.
Proof.
  revert b. induction a as [|x a IH]; intros [|y b]; simpl; try reflexivity.
  rewrite (Z.eqb_sym y x). destruct (x =? y) eqn:E; [apply IH|].
  replace (y - x) with (- (x - y)) by lia. rewrite clamp_opp. lia.
Qed.

Lemma lex_cons_le x a y b :
  lex (x :: a) (y :: b) <= 0 <-> x < y \/ (x = y /\ lex a b <= 0).
Proof.
  simpl. destruct (x =? y) eqn:E.
  - apply Z.eqb_eq in E. split; [intros H; right; split; assumption|intros [H|[_ H]]; [lia|exact H]].
  - unfold clamp. destruct (x - y <? 0) eqn:E1; destruct (0 <? x - y) eqn:E2; lia.
Qed.

Lemma lex_trans a b c : lex a b <= 0 -> lex b c <= 0 -> lex a c <= 0.
Proof.
  revert b c. induction a as [|x a IH]; intros b c Hab Hbc.
  - destruct c; simpl; lia.
  - destruct b as [|y b]; [simpl in Hab; lia|].
    destruct c as [|z c]; [simpl in Hbc; lia|].
    apply lex_cons_le in Hab. apply lex_cons_le in Hbc. apply lex_cons_le.
    destruct Hab as [Hab|[-> Hab]]; destruct Hbc as [Hbc|[-> Hbc]]; try (left; lia).
    right. split; [reflexivity|]. eapply IH; eassumption.
Qed.

Lemma lex_trans_lt a b c : lex a b < 0 -> lex b c <= 0 -> lex a c < 0.
Proof.
  intros H1 H2.
  assert (H3 : lex a c <= 0) by (eapply lex_trans; [|exact H2]; lia).
  destruct (Z.eq_dec (lex a c) 0) as [E|E]; [|lia].
  apply lex_eq0 in E. subst c.
  assert (lex b a <= 0) by exact H2. rewrite (lex_antisym b a) in H. lia.
Qed.

(* the sign is decided at the first position where the keys differ;
   a proper prefix orders first *)
Lemma lex_first_diff p x a y b : x <> y -> lex (p ++ x :: a) (p ++ y :: b) = clamp (x - y).
Proof.
  intros H. induction p as [|z p IH]; simpl.
  - destruct (x =? y) eqn:E; [lia|reflexivity].
  - rewrite Z.eqb_refl. exact IH.
Qed.

Lemma lex_proper_prefix p y b : lex p (p ++ y :: b) = -1.
Proof. induction p as [|z p IH]; simpl; [reflexivity|]. rewrite Z.eqb_refl. exact IH. Qed.

Lemma lex_proper_prefix_r p y b : lex (p ++ y :: b) p = 1.
Proof. rewrite lex_antisym, lex_proper_prefix. reflexivity. Qed.

(* byte order of ASCII text: lex on the raw bytes is the order of strings.Compare *)
Fixpoint bytes_compare (a b : list Z) : Z :=
  match a, b with
  | [], [] => 0
  | [], _ :: _ => -1
  | _ :: _, [] => 1
  | x :: a', y :: b' => if x <? y then -1 else if y <? x then 1 else bytes_compare a' b'
  end.

Lemma lex_bytes_compare a b : lex a b = bytes_compare a b.
Proof.
  revert b. induction a as [|x a IH]; intros [|y b]; simpl; try reflexivity.
  destruct (x =? y) eqn:E.
  - apply Z.eqb_eq in E. subst. rewrite Z.ltb_irrefl. apply IH.
  - unfold clamp. destruct (x <? y) eqn:E1; destruct (y <? x) eqn:E2;
      destruct (x - y <? 0) eqn:E3; destruct (0 <? x - y) eqn:E4; lia.
Qed.

(* ---------------------------------------------------------------- *)
(* string level: Compare / EqualFold (C04) *)

Section Facts.
Variable fold : Z -> Z.
Notation key := (key fold).
Notation compare := (compare fold).
Notation equal_fold := (equal_fold fold).

Lemma equal_fold_key s t : equal_fold s t = true <-> key s = key t.
Proof. apply list_eqb_eq. Qed.

Theorem compare_zero_iff_equal_fold s t : compare s t = 0 <-> equal_fold s t = true.
Proof. unfold Spec.compare. rewrite lex_eq0, equal_fold_key. reflexivity. Qed.

Theorem compare_antisym s t : compare s t = - compare t s.
Proof. apply lex_antisym. Qed.

Theorem compare_range s t : compare s t = -1 \/ compare s t = 0 \/ compare s t = 1.
Proof. apply lex_range. Qed.

Theorem compare_trans s t u : compare s t <= 0 -> compare t u <= 0 -> compare s u <= 0.
Proof. apply lex_trans. Qed.

Theorem compare_trans_lt s t u : compare s t < 0 -> compare t u <= 0 -> compare s u < 0.
Proof. apply lex_trans_lt. Qed.

(* replacing either argument by a fold-equal string changes nothing *)
Theorem compare_respects_fold s s' t t' :
  equal_fold s s' = true -> equal_fold t t' = true -> compare s t = compare s' t'.
Proof.
  intros H1 H2. apply equal_fold_key in H1. apply equal_fold_key in H2.
  unfold Spec.compare. rewrite H1, H2. reflexivity.
Qed.

(* first difference decides; proper fold-prefix first *)
Theorem compare_first_diff s t p x a y b :
  key s = p ++ x :: a -> key t = p ++ y :: b -> x <> y -> compare s t = clamp (x - y).
Proof. intros Hs Ht H. unfold Spec.compare. rewrite Hs, Ht. apply lex_first_diff. exact H. Qed.

Theorem compare_proper_prefix s t y b : key t = key s ++ y :: b -> compare s t = -1.
Proof. intros Ht. unfold Spec.compare. rewrite Ht. apply lex_proper_prefix. Qed.

End Facts.

(* ASCII text: the key is the byte-wise image under fold *)
Lemma key_all_ascii fold s : Forall (fun b => b < 128) s -> key fold s = map fold s.
Proof.
  induction s as [|b s IH]; intros H; [reflexivity|]. inversion H; subst.
  unfold key in *. rewrite segs_ascii by assumption. cbn [map fst]. f_equal. apply IH. assumption.
Qed.

(* ---------------------------------------------------------------- *)
(* find_first / find_last: least / greatest matching position *)

Lemma prefixb_skipn_all p l j : (length l <= j)%nat -> prefixb p (skipn j l) = prefixb p [].
Proof. intros H. rewrite skipn_all2 by exact H. reflexivity. Qed.

Lemma find_first_some p l k0 k :
  find_first p l k0 = Some k ->
  exists d, k = (k0 + d)%nat /\ (d <= length l)%nat /\ prefixb p (skipn d l) = true /\
            forall j, (j < d)%nat -> prefixb p (skipn j l) = false.
Proof.
  revert k0. induction l as [|x l IH]; intros k0; cbn [find_first].
  - destruct (prefixb p []) eqn:E; [|discriminate]. intros H. inversion H; subst.
    exists 0%nat. split; [lia|]. split; [lia|]. split; [exact E|]. intros j Hj. lia.
  - destruct (prefixb p (x :: l)) eqn:E.
    + intros H. inversion H; subst. exists 0%nat. split; [lia|]. split; [simpl; lia|].
      split; [exact E|]. intros j Hj. lia.
    + intros H. apply IH in H as (d & -> & Hd & Hm & Hl). exists (S d).
      split; [lia|]. split; [simpl; lia|]. split; [exact Hm|].
      intros j Hj. destruct j as [|j]; [exact E|]. cbn [skipn]. apply Hl. lia.
Qed.

Lemma find_first_none p l k0 :
  find_first p l k0 = None -> forall j, prefixb p (skipn j l) = false.
Proof.
  revert k0. induction l as [|x l IH]; intros k0; cbn [find_first].
  - destruct (prefixb p []) eqn:E; [discriminate|]. intros _ j. rewrite skipn_nil. exact E.
  - destruct (prefixb p (x :: l)) eqn:E; [discriminate|]. intros H j.
    destruct j as [|j]; [exact E|]. cbn [skipn]. eapply IH. exact H.
Qed.

Lemma find_first_shift p l k0 : find_first p l k0 = option_map (fun d => (k0 + d)%nat) (find_first p l 0).
Proof.
  revert k0. induction l as [|x l IH]; intros k0; cbn [find_first].
  - destruct (prefixb p []); simpl; [f_equal; lia|reflexivity].
  - destruct (prefixb p (x :: l)); simpl; [f_equal; lia|].
    rewrite (IH (S k0)), (IH 1%nat). destruct (find_first p l 0); simpl; [f_equal; lia|reflexivity].
Qed.

Lemma find_last_none_aux p l k0 :
  find_last p l k0 = None -> forall j, prefixb p (skipn j l) = false.
Proof.
  revert k0. induction l as [|y l IH]; intros k0 F j; cbn [find_last] in F.
  - rewrite skipn_nil. destruct (prefixb p []); [discriminate|reflexivity].
  - destruct (find_last p l (S k0)) eqn:F2; [discriminate|].
    destruct (prefixb p (y :: l)) eqn:E; [discriminate|].
    destruct j as [|j]; [exact E|]. cbn [skipn]. eapply IH. exact F2.
Qed.

Lemma find_last_some p l k0 k :
  find_last p l k0 = Some k ->
  exists d, k = (k0 + d)%nat /\ (d <= length l)%nat /\ prefixb p (skipn d l) = true /\
            forall j, (d < j)%nat -> (j <= length l)%nat -> prefixb p (skipn j l) = false.
Proof.
  revert k0. induction l as [|x l IH]; intros k0; cbn [find_last].
  - destruct (prefixb p []) eqn:E; [|discriminate]. intros H. inversion H; subst.
    exists 0%nat. split; [lia|]. split; [lia|]. split; [exact E|].
    intros j Hj Hj2. simpl in Hj2. lia.
  - destruct (find_last p l (S k0)) as [r|] eqn:F.
    + intros H. inversion H; subst. apply IH in F as (d & -> & Hd & Hm & Hl).
      exists (S d). split; [lia|]. split; [simpl; lia|]. split; [exact Hm|].
      intros j H1 H2. destruct j as [|j]; [lia|]. cbn [skipn]. apply Hl; simpl in H2; lia.
    + destruct (prefixb p (x :: l)) eqn:E; [|discriminate]. intros H. inversion H; subst.
      exists 0%nat. split; [lia|]. split; [simpl; lia|]. split; [exact E|].
      intros j H1 H2. destruct j as [|j]; [lia|]. cbn [skipn]. eapply find_last_none_aux. exact F.
Qed.

Lemma find_last_none p l k0 :
  find_last p l k0 = None -> forall j, prefixb p (skipn j l) = false.
Proof. apply find_last_none_aux. Qed.

(* both searches see the same set of matches *)
Lemma find_first_last_some p l :
  (exists k, find_first p l 0 = Some k) <-> (exists k, find_last p l 0 = Some k).
Proof.
  split; intros [k H].
  - destruct (find_last p l 0) eqn:F; [eexists; reflexivity|].
    apply find_first_some in H as (d & _ & _ & Hm & _).
    rewrite (find_last_none _ _ _ F d) in Hm. discriminate.
  - destruct (find_first p l 0) eqn:F; [eexists; reflexivity|].
    apply find_last_some in H as (d & _ & _ & Hm & _).
    rewrite (find_first_none _ _ _ F d) in Hm. discriminate.
Qed.

Lemma find_first_le_last p l a b :
  find_first p l 0 = Some a -> find_last p l 0 = Some b -> (a <= b)%nat.
Proof.
  intros Ha Hb. apply find_first_some in Ha as (d & -> & Hd & Hm & Hl).
  apply find_last_some in Hb as (e & -> & He & Hn & Hg).
  destruct (le_lt_dec d e); [lia|]. rewrite (Hl e) in Hn by lia. discriminate.
Qed.

Lemma key_runes_map fold s : key fold s = map fold (runes s).
Proof. unfold key, runes. rewrite map_map. reflexivity. Qed.
