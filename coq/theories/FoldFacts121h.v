(* FoldFacts121h.v — UnicodeVersion and the recorded UCD hash of the table file
   the toolchain compiles (C03 only). *)
From Strcase Require Import Base Utf8 Fold FoldFacts FoldTables FoldFacts121a.
From StrcaseGen Require Tables121 Oracle Consts.

(* UnicodeVersion == unicode.Version *)
Theorem version_matches : Tables121.unicode_version = Oracle.toolchain_version.
Proof. vm_compute. reflexivity. Qed.
Theorem version_recorded : Tables121.unicode_version = Tables121.recorded_unicode_version.
Proof. vm_compute. reflexivity. Qed.

(* the stored pairs are exactly the recorded UCD C+S set (by its SHA-256) *)
Theorem ucd_hash_matches : case_fold_hash T121 = Tables121.recorded_case_fold_hash.
Proof. vm_compute. reflexivity. Qed.

