(* SpecIndex.v — what Spec.index / last_index / prefix / suffix / count / cut
   mean in terms of byte sub-strings s[i:j] between decode boundaries and
   equal_fold, for every fold function and all byte strings. *)
From Strcase Require Import Base Utf8 Utf8Facts Spec SpecFacts.
From Coq Require Import ZifyBool ZifyNat.

Section S.
Variable fold : Z -> Z.
Notation key := (key fold).
Notation equal_fold := (equal_fold fold).

Definition match_at (s sub : bytes) (k : nat) : bool := prefixb (key sub) (skipn k (key s)).

Lemma key_length s : length (key s) = rune_count s.
Proof. unfold Spec.key, rune_count. apply map_length. Qed.

Lemma key_slice s k j :
  (k <= j)%nat -> key (slice s (off s k) (off s j)) = firstn (j - k) (skipn k (key s)).
Proof.
  intros H. unfold Spec.key. rewrite segs_slice by exact H.
  rewrite skipn_map, firstn_map. reflexivity.
Qed.

(* s[i:j] on boundaries is fold-equal to sub  <->  sub matches at i and spans to j *)
Lemma equal_fold_slice s sub k j :
  (k <= j)%nat -> (j <= rune_count s)%nat ->
  (equal_fold (slice s (off s k) (off s j)) sub = true <->
   match_at s sub k = true /\ j = (k + length (key sub))%nat).
Proof.
  intros Hkj Hj. rewrite equal_fold_key, key_slice by exact Hkj. unfold match_at.
  assert (Hlen : length (skipn k (key s)) = (rune_count s - k)%nat) by (rewrite skipn_length, key_length; reflexivity).
  split.
  - intros E. split.
    + apply prefixb_spec. exists (skipn (j - k) (skipn k (key s))). rewrite <- E. symmetry. apply firstn_skipn.
    + rewrite <- E, firstn_length, Hlen. lia.
  - intros [M ->]. apply prefixb_firstn in M as [M _].
    replace (k + length (key sub) - k)%nat with (length (key sub)) by lia. exact M.
Qed.

Lemma match_at_exists_slice s sub k :
  (k <= rune_count s)%nat ->
  (match_at s sub k = true <->
   exists j, (k <= j <= rune_count s)%nat /\ equal_fold (slice s (off s k) (off s j)) sub = true).
Proof.
  intros Hk. split.
  - intros M. exists (k + length (key sub))%nat.
    assert (Hl : (length (key sub) <= rune_count s - k)%nat).
    { unfold match_at in M. apply prefixb_length in M. rewrite skipn_length in M. rewrite <- (key_length s). exact M. }
    split; [lia|]. apply equal_fold_slice; [lia|lia|]. split; [exact M|reflexivity].
  - intros (j & Hj & E). apply equal_fold_slice in E; [|lia|lia]. apply E.
Qed.

(* ---- Index: exactly the leftmost match (C01) ---- *)

Theorem index_found s sub i :
  index fold s sub = i -> 0 <= i ->
  exists k j, i = Z.of_nat (off s k) /\ (k <= j <= rune_count s)%nat /\
    equal_fold (slice s (off s k) (off s j)) sub = true /\
    forall k' j', (k' <= j' <= rune_count s)%nat ->
      equal_fold (slice s (off s k') (off s j')) sub = true -> (off s k <= off s k')%nat.
Proof.
  unfold index. destruct (find_first (key sub) (key s) 0) as [k|] eqn:F; cbn [offz]; [|lia].
  intros <- _. apply find_first_some in F as (d & -> & Hd & Hm & Hl). cbn [Nat.add] in *.
  rewrite key_length in Hd.
  destruct (proj1 (match_at_exists_slice s sub d Hd) Hm) as (j & Hj & E).
  exists d, j. split; [reflexivity|]. split; [exact Hj|]. split; [exact E|].
  intros k' j' Hk' E'. apply equal_fold_slice in E' as [M _]; [|lia|lia].
  destruct (le_lt_dec d k') as [L|L]; [apply off_mono; exact L|].
  unfold match_at in M. rewrite (Hl k' L) in M. discriminate.
Qed.

Theorem index_not_found s sub :
  index fold s sub = -1 ->
  forall k j, (k <= j <= rune_count s)%nat -> equal_fold (slice s (off s k) (off s j)) sub = false.
Proof.
  unfold index. destruct (find_first (key sub) (key s) 0) as [k|] eqn:F; cbn [offz]; [lia|].
  intros _ k j Hkj. destruct (equal_fold (slice s (off s k) (off s j)) sub) eqn:E; [|reflexivity].
  apply equal_fold_slice in E as [M _]; [|lia|lia]. unfold match_at in M.
  rewrite (find_first_none _ _ _ F k) in M. discriminate.
Qed.

Theorem index_range s sub : -1 <= index fold s sub <= len s.
Proof.
  unfold index. destruct (find_first (key sub) (key s) 0) as [k|]; cbn [offz]; unfold len.
  - pose proof (off_le s k). lia.
  - lia.
Qed.

Theorem index_empty s : index fold s [] = 0.
Proof. unfold index. change (Spec.key fold []) with (@nil Z). destruct (key s); reflexivity. Qed.

Theorem contains_index s sub : contains fold s sub = (0 <=? index fold s sub).
Proof. reflexivity. Qed.

(* ---- LastIndex: exactly the rightmost match (C08) ---- *)

Theorem last_index_found s sub i :
  last_index fold s sub = i -> 0 <= i ->
  exists k j, i = Z.of_nat (off s k) /\ (k <= j <= rune_count s)%nat /\
    equal_fold (slice s (off s k) (off s j)) sub = true /\
    forall k' j', (k' <= j' <= rune_count s)%nat ->
      equal_fold (slice s (off s k') (off s j')) sub = true -> (off s k' <= off s k)%nat.
Proof.
  unfold last_index. destruct (find_last (key sub) (key s) 0) as [k|] eqn:F; cbn [offz]; [|lia].
  intros <- _. apply find_last_some in F as (d & -> & Hd & Hm & Hl). cbn [Nat.add] in *.
  rewrite key_length in Hd, Hl.
  destruct (proj1 (match_at_exists_slice s sub d Hd) Hm) as (j & Hj & E).
  exists d, j. split; [reflexivity|]. split; [exact Hj|]. split; [exact E|].
  intros k' j' Hk' E'. apply equal_fold_slice in E' as [M _]; [|lia|lia].
  destruct (le_lt_dec k' d) as [L|L]; [apply off_mono; exact L|].
  unfold match_at in M. rewrite (Hl k' L) in M by lia. discriminate.
Qed.

Theorem last_index_not_found s sub :
  last_index fold s sub = -1 ->
  forall k j, (k <= j <= rune_count s)%nat -> equal_fold (slice s (off s k) (off s j)) sub = false.
Proof.
  unfold last_index. destruct (find_last (key sub) (key s) 0) as [k|] eqn:F; cbn [offz]; [lia|].
  intros _ k j Hkj. destruct (equal_fold (slice s (off s k) (off s j)) sub) eqn:E; [|reflexivity].
  apply equal_fold_slice in E as [M _]; [|lia|lia]. unfold match_at in M.
  rewrite (find_last_none _ _ _ F k) in M. discriminate.
Qed.

Theorem last_index_empty s : last_index fold s [] = len s.
Proof.
  unfold last_index. cbn [Spec.key segs segs_aux map].
  assert (H : forall l k, find_last [] l k = Some (k + length l)%nat).
  { induction l as [|x l IH]; intros k; cbn [find_last prefixb]; [f_equal; simpl; lia|].
    rewrite IH. f_equal. simpl. lia. }
  change (Spec.key fold []) with (@nil Z). rewrite H. cbn [offz Nat.add]. rewrite key_length.
  rewrite off_all by lia. reflexivity.
Qed.

Theorem last_index_range s sub : -1 <= last_index fold s sub <= len s.
Proof.
  unfold last_index. destruct (find_last (key sub) (key s) 0) as [k|]; cbn [offz]; unfold len.
  - pose proof (off_le s k). lia.
  - lia.
Qed.

(* Index and LastIndex see the same matches, Index first *)
Theorem index_iff_last_index s sub : 0 <= index fold s sub <-> 0 <= last_index fold s sub.
Proof.
  unfold index, last_index.
  pose proof (find_first_last_some (key sub) (key s)) as H.
  destruct (find_first (key sub) (key s) 0) as [a|] eqn:Fa;
    destruct (find_last (key sub) (key s) 0) as [b|] eqn:Fb; cbn [offz]; try lia.
  - destruct (proj1 H (ex_intro _ a eq_refl)) as [x Hx]. discriminate.
  - destruct (proj2 H (ex_intro _ b eq_refl)) as [x Hx]. discriminate.
Qed.

Theorem index_le_last_index s sub :
  0 <= index fold s sub -> index fold s sub <= last_index fold s sub.
Proof.
  unfold index, last_index.
  pose proof (find_first_last_some (key sub) (key s)) as H.
  destruct (find_first (key sub) (key s) 0) as [a|] eqn:Fa; cbn [offz]; [|lia].
  destruct (find_last (key sub) (key s) 0) as [b|] eqn:Fb; cbn [offz].
  - intros _. pose proof (find_first_le_last _ _ _ _ Fa Fb). pose proof (off_mono s a b H0). lia.
  - destruct (proj1 H (ex_intro _ a eq_refl)) as [x Hx]. discriminate.
Qed.

End S.
