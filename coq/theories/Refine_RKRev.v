(* Refine_RKRev.v — indexRabinKarpRevUnicode refines Spec.last_index on all
   byte strings (non-empty needle), every prime.  The state of the
   right-to-left loops is a pair of reversed prefixes rev (s[:off i]); one step
   (DecodeLastRune or the ASCII shortcut) reads the folded code point before a
   boundary.  Sound because every hash hit is confirmed by HasSuffix on the
   window; complete because the rolling hash is a function of the window's
   key. *)
From Strcase Require Import Base Utf8 Utf8Facts Utf8Last Spec SpecFacts SpecIndex SpecAffix SpecChars Impl Impl2 Impl4 Impl5 Impl6 Impl7
  Refine_Compare Refine_Prefix Refine_Suffix Refine_RuneCase Refine_RK.
From Coq Require Import ZifyBool ZifyNat Zpow_facts.

Lemma rev_firstn_rev {A} n (l : list A) : rev (firstn n (rev l)) = skipn (length l - n) l.
Proof. rewrite firstn_rev, rev_involutive. reflexivity. Qed.

Lemma skipn_rev_firstn {A} n m (l : list A) :
  (n <= m)%nat -> (m <= length l)%nat -> skipn n (rev (firstn m l)) = rev (firstn (m - n) l).
Proof.
  intros Hn Hm. rewrite skipn_rev. rewrite firstn_length, Nat.min_l by exact Hm.
  rewrite firstn_firstn, Nat.min_l by lia. reflexivity.
Qed.

Lemma firstn_S_snoc {A} (l : list A) i d : (i < length l)%nat -> firstn (S i) l = firstn i l ++ [nth i l d].
Proof.
  revert i. induction l as [|x l IH]; intros i H; [cbn in H; lia|].
  destruct i as [|i]; [reflexivity|]. cbn [firstn nth app]. f_equal. apply IH. cbn in H. lia.
Qed.

Section RKR.
Variables fold lower : Z -> Z.
Hypothesis FF : fold_facts fold lower.
Hypothesis WF : width_facts fold.
Variable pr : Z.

Notation key := (key fold).
Notation K s := (key s).
Notation match_at := (match_at fold).
Notation prev_folded := (Impl7.prev_folded fold lower).
Notation Hw := (Hw pr).
Notation Hz := (Hz pr).

(* the reversed prefix ending at the i-th boundary *)
Definition rp (s : bytes) (i : nat) : bytes := rev (firstn (off s i) s).

Lemma rp_length s i : length (rp s i) = off s i.
Proof. unfold rp. rewrite rev_length, firstn_length. pose proof (off_le s i). lia. Qed.

Lemma rp_0 s : rp s 0 = [].
Proof. reflexivity. Qed.

Lemma rp_all s : rp s (rune_count s) = rev s.
Proof. unfold rp. rewrite off_all, firstn_all by lia. reflexivity. Qed.

(* reading the folded code point before the (i+1)-th boundary *)
Lemma prev_at s i :
  wf s -> (i < rune_count s)%nat ->
  prev_folded (rp s (S i)) = (nth i (K s) 0, rp s i).
Proof.
  intros Hw Hi. pose proof (off_strict s i Hi) as Hs. pose proof (off_le s (S i)) as Hle.
  set (pre := firstn (off s (S i)) s).
  assert (Lpre : length pre = off s (S i)) by (unfold pre; rewrite firstn_length; lia).
  assert (Hne : rp s (S i) <> []).
  { intros E. apply (f_equal (@length Z)) in E. rewrite rp_length in E. cbn [length] in E. lia. }
  destruct (decode_last_rev_spec (rp s (S i)) Hne) as (W & L & Sg). cbv zeta in *.
  set (d := decode_last_rev (rp s (S i))) in *.
  assert (Erev : rev (rp s (S i)) = pre) by (unfold rp; apply rev_involutive).
  rewrite Erev in Sg.
  assert (Spre : segs pre = firstn i (segs s) ++ [nth i (segs s) (0, 0%nat)]).
  { unfold pre. rewrite segs_firstn_off. apply firstn_S_snoc. exact Hi. }
  rewrite Spre in Sg. apply app_inj_tail in Sg as [Sg1 Sg2].
  assert (Ne : nth_error (segs s) i = Some d).
  { rewrite <- Sg2. apply nth_error_nth'. exact Hi. }
  assert (Wd : off s (S i) = (off s i + snd d)%nat) by (apply off_S; exact Ne).
  assert (Erest : skipn (snd d) (rp s (S i)) = rp s i).
  { unfold rp. rewrite skipn_rev_firstn by lia. f_equal. f_equal. lia. }
  assert (En : nth i (K s) 0 = fold (fst d)).
  { rewrite (nth_key fold) by exact Hi. f_equal. unfold runes.
    rewrite (nth_indep _ 0 (fst (0, 0%nat))) by (rewrite map_length; exact Hi). rewrite map_nth, Sg2. reflexivity. }
  unfold Impl7.prev_folded. destruct (rp s (S i)) as [|b rs'] eqn:Er; [congruence|].
  assert (Hb : 0 <= b < 256).
  { assert (Hwr : wf (b :: rs')) by (rewrite <- Er; unfold rp; apply wf_rev, wf_firstn; exact Hw). inversion Hwr; assumption. }
  destruct (b <? 128) eqn:A.
  - assert (Ed : d = (b, 1%nat)) by (unfold d; apply decode_last_rev_ascii; lia).
    rewrite Ed in *. cbn [fst snd skipn] in *. rewrite En, (ff_lower _ _ FF) by lia. rewrite Erest. reflexivity.
  - fold d. rewrite Erest, En. reflexivity.
Qed.


Lemma Hw_cons' x l h : Hw (x :: l) h = Hw l (w32 (w32 (h * pr) + w32 x)).
Proof. reflexivity. Qed.

Lemma rp_cons s i : wf s -> (i < rune_count s)%nat -> exists b rs', rp s (S i) = b :: rs'.
Proof.
  intros Hw Hi. destruct (rp s (S i)) as [|b rs'] eqn:E; [|exists b, rs'; reflexivity].
  apply (f_equal (@length Z)) in E. rewrite rp_length in E. pose proof (off_strict s i Hi). cbn [length] in E. lia.
Qed.

(* hashStrRevUnicode: the hash of the reversed key *)
Lemma hash_rev_ok s i : wf s -> (i <= rune_count s)%nat ->
  forall fuel h n, (i < fuel)%nat ->
  hash_runes_rev fold lower pr fuel (rp s i) h n = Ok (Hw (rev (firstn i (K s))) h, n + Z.of_nat i).
Proof.
  intros Hw. induction i as [|i IH]; intros Hi fuel h n Hf; (destruct fuel as [|f]; [lia|]).
  - rewrite rp_0. cbn. f_equal. f_equal. lia.
  - cbn [hash_runes_rev]. destruct (rp_cons s i Hw ltac:(lia)) as (b & rs' & Er). rewrite Er. rewrite <- Er.
    rewrite (prev_at s i Hw ltac:(lia)). rewrite (IH ltac:(lia)) by lia.
    rewrite (firstn_S_snoc (K s) i 0) by (rewrite (key_length fold); lia). rewrite rev_unit, Hw_cons'.
    f_equal. f_equal. lia.
Qed.

Lemma hashStrRev_ok sep :
  wf sep ->
  exists pw, hashStrRevUnicode fold lower pr sep = Ok (Hw (rev (K sep)) 0, pw, Z.of_nat (length (K sep))) /\
             w32 pw = w32 (pr ^ Z.of_nat (length (K sep))).
Proof.
  intros Hw. unfold hashStrRevUnicode. rewrite rev_append_rev, app_nil_r, <- rp_all.
  pose proof (rune_count_le sep) as Rl.
  rewrite (hash_rev_ok sep (rune_count sep) Hw ltac:(lia)) by lia. cbn [bind fst snd]. rewrite Z.add_0_l.
  rewrite firstn_all2 by (rewrite (key_length fold); lia). rewrite (key_length fold).
  destruct (pow_loop_ok (S (length sep)) (Z.of_nat (rune_count sep)) 1 (w32 pr) ltac:(lia) ltac:(lia)) as (r & E & R).
  rewrite E. cbn [bind]. exists r. split; [reflexivity|]. rewrite R, Z.mul_1_l. unfold w32. symmetry. apply Zpower_mod. lia.
Qed.

(* the first loop: hash of the last min(n, i) code points before boundary i, last first *)
Lemma rkr_init_ok fuel s i h n :
  wf s -> (i <= rune_count s)%nat -> 1 <= n -> (i < fuel)%nat ->
  let m := Nat.min (Z.to_nat n) i in
  rkr_init fold lower pr fuel (rp s i) h n =
    Ok (Hw (rev (firstn m (skipn (i - m) (K s)))) h, rp s (i - m), n - Z.of_nat m).
Proof.
  intros Hw. revert i h n. induction fuel as [|f IH]; intros i h n Hi Hn Hf; [lia|]. cbv zeta.
  cbn [rkr_init]. destruct i as [|i].
  - rewrite rp_0. replace (Nat.min (Z.to_nat n) 0) with 0%nat by lia. cbn. f_equal. f_equal. lia.
  - destruct (rp_cons s i Hw ltac:(lia)) as (b & rs' & Er). rewrite Er. rewrite <- Er.
    rewrite (prev_at s i Hw ltac:(lia)).
    destruct (n - 1 =? 0) eqn:N1.
    + assert (n = 1) by lia. subst n. replace (Nat.min (Z.to_nat 1) (S i)) with 1%nat by lia.
      replace (S i - 1)%nat with i by lia.
      rewrite (firstn_S_skipn (K s) i 0 0) by (rewrite (key_length fold); lia). cbn [firstn rev app]. rewrite Hw_cons'. reflexivity.
    + rewrite (IH i _ (n - 1)) by lia. cbv zeta.
      set (m' := Nat.min (Z.to_nat (n - 1)) i).
      replace (Nat.min (Z.to_nat n) (S i)) with (S m') by (unfold m'; lia).
      replace (S i - S m')%nat with (i - m')%nat by lia.
      rewrite (firstn_snoc_skipn (K s) (i - m') m' 0) by (rewrite (key_length fold); unfold m'; lia).
      replace (i - m' + m')%nat with i by (unfold m'; lia).
      rewrite rev_unit, Hw_cons'. f_equal. f_equal. lia.
Qed.


(* ---------- list facts ---------- *)

Lemma find_last_greatest (q l : list Z) k :
  prefixb q (skipn k l) = true -> (forall j, (k < j)%nat -> (j <= length l)%nat -> prefixb q (skipn j l) = false) -> (k <= length l)%nat ->
  find_last q l 0 = Some k.
Proof.
  intros Hk Hl Hlen. destruct (find_last q l 0) as [k'|] eqn:F.
  - apply find_last_some in F as (d & -> & Hd & Hm & Hn). cbn [Nat.add]. f_equal.
    destruct (lt_eq_lt_dec d k) as [[L|E]|L]; [rewrite (Hn k L Hlen) in Hk; discriminate|exact E|rewrite (Hl d L Hd) in Hm; discriminate].
  - rewrite (find_last_none _ _ _ F k) in Hk. discriminate.
Qed.

Lemma find_last_absent (q l : list Z) :
  (forall j, prefixb q (skipn j l) = false) -> find_last q l 0 = None.
Proof.
  intros H. destruct (find_last q l 0) as [k|] eqn:F; [|reflexivity].
  apply find_last_some in F as (d & _ & _ & Hm & _). rewrite H in Hm. discriminate.
Qed.

(* on a tail of the right length the suffix test is the prefix test *)
Lemma suffixb_prefixb_same (q l : list Z) k :
  (k + length q = length l)%nat -> suffixb q l = prefixb q (skipn k l).
Proof.
  intros Hl. assert (Ek : (length l - length q = k)%nat) by lia.
  destruct (prefixb q (skipn k l)) eqn:P.
  - apply suffixb_skipn. split; [lia|]. rewrite Ek. symmetry. apply prefixb_same_length; [exact P|]. rewrite skipn_length. lia.
  - destruct (suffixb q l) eqn:S; [|reflexivity]. apply suffixb_skipn in S as [_ S]. rewrite Ek in S. rewrite S, prefixb_refl in P. discriminate.
Qed.

Section Roll.
Variables s sub : bytes.
Hypothesis Hws : wf s.
Hypothesis Hwsub : wf sub.
Hypothesis Hne : sub <> [].
Variables hashss pow : Z.
Let N := length (K sub).
Hypothesis Hhash : hashss = Hw (rev (K sub)) 0.
Hypothesis Hpow : w32 pow = w32 (pr ^ Z.of_nat N).

Lemma N_pos' : (1 <= N)%nat.
Proof. unfold N. destruct sub as [|b t]; [congruence|]. pose proof (key_nonempty fold b t). destruct (K (b :: t)); [congruence|cbn; lia]. Qed.

Lemma hashss_reduced' : w32 hashss = hashss.
Proof.
  rewrite Hhash. apply Hw_reduced. pose proof N_pos' as Np. unfold N in Np. intros E. apply (f_equal (@length Z)) in E.
  rewrite rev_length in E. cbn [length] in E. lia.
Qed.

Definition Wr (a : nat) : list Z := firstn N (skipn a (K s)).

Lemma Wr_length a : (a + N <= rune_count s)%nat -> length (Wr a) = N.
Proof. intros H. unfold Wr. rewrite firstn_length, skipn_length, (key_length fold). lia. Qed.

Lemma window_slice k : (k + N <= rune_count s)%nat -> window (rp s k) (rp s (k + N)) = slice s (off s k) (off s (k + N)).
Proof.
  intros Hk. unfold window. rewrite rev_append_rev, app_nil_r, !rp_length. unfold rp.
  pose proof (off_le s (k + N)) as Ole. pose proof (off_mono s k (k + N) ltac:(lia)) as Om.
  rewrite rev_firstn_rev. rewrite firstn_length, Nat.min_l by exact Ole.
  replace (off s (k + N) - (off s (k + N) - off s k))%nat with (off s k) by lia.
  unfold slice. apply skipn_firstn_comm.
Qed.

(* the window test is exactly "sub matches at boundary k" *)
Lemma window_test_rev k h :
  (k + N <= rune_count s)%nat -> w32 h = h -> w32 h = w32 (Hz (rev (Wr k)) 0) ->
  (if h =? hashss then HasSuffix fold lower (window (rp s k) (rp s (k + N))) sub else Ok false) = Ok (match_at s sub k).
Proof.
  intros Hk Hr Hh. rewrite (window_slice k Hk).
  assert (Hwin : wf (slice s (off s k) (off s (k + N)))) by (unfold slice; apply wf_firstn, wf_skipn; exact Hws).
  assert (Hkey : K (slice s (off s k) (off s (k + N))) = Wr k).
  { rewrite key_slice by lia. unfold Wr. f_equal. lia. }
  assert (Hm : has_suffix fold (slice s (off s k) (off s (k + N))) sub = match_at s sub k).
  { unfold has_suffix, SpecIndex.match_at. rewrite Hkey. rewrite (suffixb_prefixb_same (K sub) (Wr k) 0) by (rewrite (Wr_length k Hk); reflexivity).
    cbn [skipn]. unfold Wr, N. apply prefixb_firstn_len. }
  rewrite (hassuffix_refines fold lower FF WF _ sub Hwin Hwsub), Hm.
  destruct (match_at s sub k) eqn:M; [|destruct (h =? hashss); reflexivity].
  assert (Ek : Wr k = K sub).
  { unfold SpecIndex.match_at in M. rewrite <- (prefixb_firstn_len (K sub)) in M. fold N in M. fold (Wr k) in M.
    symmetry. apply prefixb_same_length; [exact M|]. rewrite (Wr_length k Hk). reflexivity. }
  assert (Eh : h = hashss).
  { rewrite <- Hr, Hh, Ek, <- Hw_Hz, <- Hhash. apply hashss_reduced'. }
  rewrite Eh, Z.eqb_refl. reflexivity.
Qed.

Lemma no_match_beyond' a : (rune_count s < a + N)%nat -> match_at s sub a = false.
Proof.
  intros H. unfold SpecIndex.match_at. destruct (prefixb (K sub) (skipn a (K s))) eqn:E; [|reflexivity].
  apply prefixb_length in E. rewrite skipn_length, (key_length fold s) in E. fold N in E. pose proof N_pos'. lia.
Qed.

Lemma last_index_at k :
  match_at s sub k = true -> (forall k', (k < k')%nat -> match_at s sub k' = false) -> (k <= rune_count s)%nat ->
  last_index fold s sub = Z.of_nat (off s k).
Proof.
  intros M L Hk. unfold last_index. rewrite (find_last_greatest (K sub) (K s) k M); [reflexivity| |rewrite (key_length fold); exact Hk].
  intros j Hj _. apply L. exact Hj.
Qed.

Lemma last_index_none : (forall a, match_at s sub a = false) -> last_index fold s sub = -1.
Proof. intros H. unfold last_index. rewrite (find_last_absent (K sub) (K s) H). reflexivity. Qed.

(* the rolling loop from a window at boundary k whose hash is h *)
Lemma rkr_roll_ok fuel k h :
  (k + N <= rune_count s)%nat -> w32 h = h -> w32 h = w32 (Hz (rev (Wr k)) 0) ->
  (forall k', (k <= k')%nat -> match_at s sub k' = false) ->
  (k < fuel)%nat ->
  rkr_roll fold lower pr fuel sub hashss pow (rp s k) (rp s (k + N)) h = Ok (last_index fold s sub).
Proof.
  revert k h. induction fuel as [|f IH]; intros k h Hk Hr Hh Hno Hf; [lia|].
  cbn [rkr_roll]. pose proof N_pos' as Np. destruct k as [|k1].
  - rewrite rp_0. f_equal. symmetry. apply last_index_none. intros a. apply Hno. lia.
  - destruct (rp_cons s k1 Hws ltac:(lia)) as (b & rs' & Er). rewrite Er. rewrite <- Er.
    rewrite (prev_at s k1 Hws ltac:(lia)).
    replace (S k1 + N)%nat with (S (k1 + N)) by lia. rewrite (prev_at s (k1 + N) Hws ltac:(lia)).
    set (r0 := nth k1 (K s) 0). set (r1 := nth (k1 + N) (K s) 0).
    set (h' := w32 (w32 (w32 (h * pr) + w32 r0) - w32 (pow * w32 r1))).
    assert (Hh' : w32 h' = w32 (Hz (rev (Wr k1)) 0)).
    { unfold h'. rewrite w32_idem.
      set (F := firstn (N - 1) (skipn (S k1) (K s))).
      assert (EW : Wr k1 = r0 :: F).
      { unfold Wr. replace N with (S (N - 1)) at 1 by lia. apply firstn_S_skipn. rewrite (key_length fold). lia. }
      assert (EW' : Wr (S k1) = F ++ [r1]).
      { unfold Wr. replace N with (S (N - 1)) at 1 by lia. rewrite (firstn_snoc_skipn (K s) (S k1) (N - 1) 0) by (rewrite (key_length fold); lia).
        unfold r1. replace (S k1 + (N - 1))%nat with (k1 + N)%nat by lia. reflexivity. }
      assert (Ln : S (length (rev F)) = N).
      { unfold F. rewrite rev_length, firstn_length, skipn_length, (key_length fold). lia. }
      rewrite EW. cbn [rev]. rewrite (Hz_roll pr r1 (rev F) r0). rewrite Ln.
      assert (E1 : r1 :: rev F = rev (Wr (S k1))) by (rewrite EW', rev_unit; reflexivity).
      rewrite E1.
      assert (EA : w32 (w32 (h * pr) + w32 r0) = w32 (Hz (rev (Wr (S k1))) 0 * pr + r0)).
      { rewrite w32_add. rewrite <- (w32_add_l (h * pr)), <- (w32_mul_l h), Hh, w32_mul_l, w32_add_l. reflexivity. }
      assert (EB : w32 (pow * w32 r1) = w32 (r1 * pr ^ Z.of_nat N)).
      { rewrite w32_mul_r, <- w32_mul_l, Hpow, w32_mul_l. f_equal. ring. }
      rewrite EA, EB. apply w32_sub. }
    assert (Hr' : w32 h' = h') by (unfold h'; apply w32_idem).
    rewrite (window_test_rev k1 h' ltac:(lia) Hr' Hh'). cbn [bind].
    destruct (match_at s sub k1) eqn:M.
    + unfold len. rewrite rp_length. f_equal. symmetry. apply last_index_at; [exact M| |lia]. intros k' Hk'. apply Hno. lia.
    + apply IH; try assumption; try lia. intros k' Hk'. destruct (Nat.eq_dec k' k1) as [->|]; [exact M|apply Hno; lia].
Qed.

(* everything after hashStrRevUnicode *)
Lemma rkr_body_ok :
  (do hin <- rkr_init fold lower pr (S (length s)) (rev_append s []) 0 (Z.of_nat N);
   let '(h, rsi, nleft) := hin in
   if 0 <? nleft then Ok (-1)
   else
     do m0 <- (if h =? hashss then HasSuffix fold lower s sub else Ok false);
     if m0 then Ok (len rsi)
     else rkr_roll fold lower pr (S (length s)) sub hashss pow rsi (rev_append s []) h) = Ok (last_index fold s sub).
Proof.
  pose proof N_pos' as Np. pose proof (rune_count_le s) as Rl.
  rewrite rev_append_rev, app_nil_r, <- rp_all.
  pose proof (rkr_init_ok (S (length s)) s (rune_count s) 0 (Z.of_nat N) Hws ltac:(lia) ltac:(lia) ltac:(lia)) as Ei.
  cbv zeta in Ei. rewrite Ei. cbn [bind]. rewrite Nat2Z.id.
  destruct (le_lt_dec N (rune_count s)) as [Hge|Hlt].
  - replace (Nat.min N (rune_count s)) with N by lia.
    replace (0 <? Z.of_nat N - Z.of_nat N) with false by lia.
    set (k := (rune_count s - N)%nat). fold (Wr k).
    assert (Hk : (k + N = rune_count s)%nat) by (unfold k; lia).
    assert (Hr : w32 (Hw (rev (Wr k)) 0) = Hw (rev (Wr k)) 0).
    { apply Hw_reduced. intros E. apply (f_equal (@length Z)) in E. rewrite rev_length, (Wr_length k) in E by lia. cbn in E. lia. }
    assert (Hm : has_suffix fold s sub = match_at s sub k).
    { unfold has_suffix, SpecIndex.match_at. apply suffixb_prefixb_same. rewrite (key_length fold s). exact Hk. }
    assert (Ht : (if Hw (rev (Wr k)) 0 =? hashss then HasSuffix fold lower s sub else Ok false) = Ok (match_at s sub k)).
    { pose proof (window_test_rev k (Hw (rev (Wr k)) 0) ltac:(lia) Hr (Hw_Hz pr _ 0)) as Wt.
      destruct (Hw (rev (Wr k)) 0 =? hashss); [|exact Wt].
      rewrite (hassuffix_refines fold lower FF WF s sub Hws Hwsub), Hm. reflexivity. }
    rewrite Ht. cbn [bind].
    destruct (match_at s sub k) eqn:M.
    + unfold len. rewrite rp_length. f_equal. symmetry. apply last_index_at; [exact M| |lia].
      intros k' Hk'. apply no_match_beyond'. lia.
    + replace (rp s (rune_count s)) with (rp s (k + N)) by (rewrite Hk; reflexivity).
      apply rkr_roll_ok; try assumption; try lia.
      * apply Hw_Hz.
      * intros k' Hk'. destruct (Nat.eq_dec k' k) as [->|]; [exact M|apply no_match_beyond'; lia].
  - replace (Nat.min N (rune_count s)) with (rune_count s) by lia.
    replace (0 <? Z.of_nat N - Z.of_nat (rune_count s)) with true by lia.
    f_equal. symmetry. apply last_index_none. intros a. apply no_match_beyond'. lia.
Qed.

End Roll.

Theorem rabinkarp_rev_refines s sub :
  wf s -> wf sub -> sub <> [] ->
  indexRabinKarpRevUnicode fold lower pr s sub = Ok (last_index fold s sub).
Proof.
  intros Hws Hwsub Hne. unfold indexRabinKarpRevUnicode.
  destruct (hashStrRev_ok sub Hwsub) as (pw & Eh & Hpw). rewrite Eh. cbn [bind].
  eapply rkr_body_ok; try eassumption; reflexivity.
Qed.

End RKR.
