(* X86Erase.v — removing the alignment no-ops (PCALIGN) from a program, with
   the jump targets renumbered, does not change what a run returns.  The
   pre-go1.22 assembly files are the go1.22 files without their PCALIGN
   lines (checked by computation on the translated programs), so every kernel
   theorem carries over to them. *)
From Coq Require Import List ZArith Lia Bool Arith.
From Strcase Require Import Base X86 X86Facts.
Import ListNotations.
Open Scope Z_scope.

Definition is_nop (i : instr) : bool := match i with NOP => true | _ => false end.
Definition keep (i : instr) : bool := negb (is_nop i).

Section E.
Variable P : list instr.

(* the index an instruction of P has once the no-ops in front of it are gone *)
Definition remap (pc : nat) : nat := length (filter keep (firstn pc P)).

Definition retarget (i : instr) : instr :=
  match i with JMP t => JMP (remap t) | JCC c t => JCC c (remap t) | _ => i end.

Definition erase : list instr := map retarget (filter keep P).

Lemma firstn_S_nth {T} (l : list T) n x : nth_error l n = Some x -> firstn (S n) l = firstn n l ++ [x].
Proof.
  revert n. induction l as [|y l IH]; intros [|n] H; cbn in H; try discriminate.
  - injection H as ->. reflexivity.
  - specialize (IH n H). change (y :: firstn (S n) l = (y :: firstn n l) ++ [x]). rewrite IH. reflexivity.
Qed.

Lemma remap_S pc i : nth_error P pc = Some i -> remap (S pc) = if keep i then S (remap pc) else remap pc.
Proof.
  intros H. unfold remap. rewrite (firstn_S_nth P pc i H), filter_app, app_length. cbn [filter].
  destruct (keep i); cbn [length]; lia.
Qed.

Lemma nth_filter {T} (f : T -> bool) (l : list T) : forall n x, nth_error l n = Some x -> f x = true ->
  nth_error (filter f l) (length (filter f (firstn n l))) = Some x.
Proof.
  induction l as [|y l IH]; intros [|n] x H Hf; cbn in H; try discriminate.
  - injection H as ->. cbn [firstn filter length]. rewrite Hf. reflexivity.
  - cbn [firstn filter]. destruct (f y); cbn [length nth_error]; apply IH; assumption.
Qed.

Lemma nth_erase pc i : nth_error P pc = Some i -> keep i = true -> nth_error erase (remap pc) = Some (retarget i).
Proof.
  intros H K. unfold erase, remap. rewrite nth_error_map, (nth_filter keep P pc i H K). reflexivity.
Qed.

Section Sem.
Variables (A : Z) (s : list Z) (junk : Z -> Z) (slot : Z) (avx2 popcnt : bool) (c : Z).
Notation stepf := (X86.step A s junk slot avx2 popcnt c).
Notation runP := (X86.run A s junk slot avx2 popcnt c P).
Notation runQ := (X86.run A s junk slot avx2 popcnt c erase).

(* an instruction that is not a jump goes to the next instruction, whatever its own index is *)
Lemma step_next pc pc0 i st0 : (forall t, i <> JMP t) -> (forall cnd t, i <> JCC cnd t) ->
  stepf pc i st0 = match stepf pc0 i st0 with Running _ st1 => Running (S pc) st1 | o => o end.
Proof.
  intros H1 H2. destruct i; try (exfalso; eapply H1; reflexivity); try (exfalso; eapply H2; reflexivity);
    unfold X86.step, wr64, wr64f;
    repeat match goal with |- context [match ?x with _ => _ end] => destruct x end; reflexivity.
Qed.

Lemma step_sim pc i st0 : nth_error P pc = Some i -> keep i = true ->
  match stepf pc i st0 with
  | Running pc' st1 => stepf (remap pc) (retarget i) st0 = Running (remap pc') st1
  | Done r => stepf (remap pc) (retarget i) st0 = Done r
  | _ => True
  end.
Proof.
  intros Hn K. pose proof (remap_S pc i Hn) as RS. rewrite K in RS.
  destruct i; try discriminate K;
    try (cbn [retarget]; rewrite (step_next pc 0) by (intros; discriminate); rewrite (step_next (remap pc) 0) by (intros; discriminate);
         destruct (X86.step A s junk slot avx2 popcnt c 0 _ st0); try exact I; try reflexivity; rewrite RS; reflexivity).
  - (* JMP *) cbn [retarget X86.step]. reflexivity.
  - (* JCC *) cbn [retarget X86.step]. destruct (holds (fl st0) c0) as [[|]|]; try exact I; [reflexivity|rewrite RS; reflexivity].
Qed.

Theorem erase_preserves_done fuel : forall pc st0 r, runP fuel pc st0 = Done r -> runQ fuel (remap pc) st0 = Done r.
Proof.
  induction fuel as [|f IH]; intros pc st0 r H; [discriminate|].
  cbn [X86.run] in H. destruct (nth_error P pc) as [i|] eqn:Hn; [|discriminate].
  destruct (keep i) eqn:K.
  - pose proof (step_sim pc i st0 Hn K) as S. cbn [X86.run]. rewrite (nth_erase pc i Hn K).
    destruct (X86.step A s junk slot avx2 popcnt c pc i st0) as [pc' st1|r'| |]; try discriminate.
    + rewrite S. apply IH. exact H.
    + rewrite S. exact H.
  - (* a no-op of P: the erased program is already there *)
    assert (i = NOP) by (destruct i; try discriminate K; reflexivity). subst i.
    cbn [X86.step] in H. pose proof (remap_S pc NOP Hn) as RS. cbn [keep is_nop negb] in RS.
    specialize (IH _ _ _ H). rewrite RS in IH.
    replace (S f) with (f + 1)%nat by lia. apply run_more. exact IH.
Qed.

End Sem.
End E.
