(* FoldFacts.v — what is proved about a table record, generically: finite
   boolean checks over the stored entries (evaluated by vm_compute in
   FoldFacts121.v / FoldFacts116.v over the data regenerated from /repo) are
   lifted to all int32 runes by the structural fact that a hash lookup can
   only return an entry that is literally stored. *)
From Strcase Require Import Base Fold Sha256.
From Coq Require Import FMapPositive ZifyBool ZifyNat.

Definition int32 (r : Z) : Prop := -2147483648 <= r < 2147483648.

Lemma u32_nonneg r : 0 <= r < two32 -> u32 r = r.
Proof. intros H. unfold u32. apply Z.mod_small. exact H. Qed.

Lemma u32_neg r : -2147483648 <= r < 0 -> u32 r = r + two32.
Proof.
  intros H. unfold u32, two32 in *.
  replace r with ((r + 4294967296) + (-1) * 4294967296) at 1 by lia.
  rewrite Z.mod_add by lia. apply Z.mod_small. lia.
Qed.

Lemma to_rune_small u : 0 <= u < 2147483648 -> to_rune u = u.
Proof. intros H. unfold to_rune. destruct (u <? 2147483648) eqn:E; lia. Qed.

(* ------------------------------------------------------------------ *)
(* the toolchain oracle: orbit representative (least member) *)

Definition rmap := PositiveMap.t Z.

Definition build_rmap (orbits : list (list Z)) : rmap :=
  fold_left (fun m o => fold_left (fun m x => PositiveMap.add (Z.to_pos (x + 1)) (hd 0 o) m) o m)
            orbits (PositiveMap.empty Z).

Definition rep (m : rmap) (r : Z) : Z :=
  if r <? 0 then r
  else match PositiveMap.find (Z.to_pos (r + 1)) m with Some x => x | None => r end.

Definition is_member (m : rmap) (r : Z) : bool :=
  if r <? 0 then false
  else match PositiveMap.find (Z.to_pos (r + 1)) m with Some _ => true | None => false end.

Lemma rep_cases m r :
  rep m r = r \/ (0 <= r /\ exists x, In (Z.to_pos (r + 1), x) (PositiveMap.elements m) /\ rep m r = x).
Proof.
  unfold rep. destruct (r <? 0) eqn:E; [left; reflexivity|].
  destruct (PositiveMap.find (Z.to_pos (r + 1)) m) as [x|] eqn:F; [|left; reflexivity].
  right. split; [lia|]. exists x. split; [|reflexivity].
  apply PositiveMap.elements_correct. exact F.
Qed.

(* ------------------------------------------------------------------ *)
Section Generic.
Variable T : tables.

Notation fold := (case_fold T).

Definition cf_entries : list (positive * list Z) := PositiveMap.elements (cf_map T).

Definition cf_check (P : positive -> Z -> Z -> bool) : bool :=
  forallb (fun pe => match snd pe with [f; t] => P (fst pe) f t | _ => false end) cf_entries.

Lemma cf_check_spec P :
  cf_check P = true ->
  forall p f t, PositiveMap.find p (cf_map T) = Some [f; t] -> P p f t = true.
Proof.
  intros H p f t F. unfold cf_check in H. rewrite forallb_forall in H.
  apply PositiveMap.elements_correct in F. specialize (H _ F). exact H.
Qed.

(* structural lemma: whatever the hash does, a lookup that changes r
   returned a stored entry whose key is uint32(r) *)
Lemma case_fold_cases r :
  int32 r ->
  fold r = r \/
  exists p f t, PositiveMap.find p (cf_map T) = Some [f; t] /\ f = u32 r /\ fold r = to_rune t.
Proof.
  intros Hr. unfold case_fold, slot.
  destruct (PositiveMap.find _ (cf_map T)) as [v|] eqn:F.
  - destruct v as [|f [|t [|x v]]]; try (left; reflexivity).
    destruct (f =? u32 r) eqn:E; [|left; reflexivity].
    right. eexists _, f, t. split; [exact F|]. split; [lia|reflexivity].
  - cbn [repeat]. destruct (0 =? u32 r) eqn:E; left; [|reflexivity].
    unfold int32 in Hr. destruct (Z_lt_le_dec r 0) as [Hn|Hp].
    + rewrite u32_neg in E by lia. unfold two32 in E. lia.
    + rewrite u32_nonneg in E by (unfold two32; lia). unfold to_rune. simpl. lia.
Qed.

(* F-range: keys and values are code points *)
Definition chk_range : bool :=
  cf_check (fun _ f t => (0 <=? f) && (f <? 1114112) && (0 <=? t) && (t <? 1114112)).

(* F1: every entry sits at the slot its hash selects, and the table is large enough *)
Definition chk_slots : bool :=
  cf_check (fun p f _ => Pos.eqb p (Z.to_pos (hash (cf_seed T) (cf_shift T) f + 1)))
  && (2 ^ (32 - cf_shift T) <=? cf_size T) && (0 <=? cf_shift T) && (cf_shift T <=? 32).

(* F3: values are fixed points *)
Definition chk_idem : bool := cf_check (fun _ _ t => fold t =? t).

Lemma fold_of_key r :
  chk_range = true -> int32 r -> fold r <> r ->
  0 <= r < 1114112 /\ 0 <= fold r < 1114112 /\
  exists p, PositiveMap.find p (cf_map T) = Some [r; fold r].
Proof.
  intros HR Hr Hne. destruct (case_fold_cases r Hr) as [E|(p & f & t & F & Ef & Et)]; [congruence|].
  pose proof (cf_check_spec _ HR _ _ _ F) as Hrg. cbv beta in Hrg.
  assert (Hf : 0 <= f < 1114112) by lia. assert (Ht : 0 <= t < 1114112) by lia.
  assert (Hrf : f = r).
  { unfold int32 in Hr. destruct (Z_lt_le_dec r 0) as [Hn|Hp].
    - rewrite u32_neg in Ef by lia. unfold two32 in Ef. lia.
    - rewrite u32_nonneg in Ef by (unfold two32; lia). lia. }
  clear Ef. subst f. rewrite to_rune_small in Et by lia. rewrite Et.
  repeat split; try lia. exists p. exact F.
Qed.

Theorem fold_idempotent :
  chk_range = true -> chk_idem = true -> forall r, int32 r -> fold (fold r) = fold r.
Proof.
  intros HR HI r Hr. destruct (Z.eq_dec (fold r) r) as [E|E]; [rewrite E; exact E|].
  destruct (fold_of_key r HR Hr E) as (_ & _ & p & F).
  pose proof (cf_check_spec _ HI _ _ _ F) as H. cbv beta in H. lia.
Qed.

Theorem fold_outside_unicode :
  chk_range = true -> forall r, int32 r -> (r < 0 \/ 1114111 < r) -> fold r = r.
Proof.
  intros HR r Hr Ho. destruct (Z.eq_dec (fold r) r) as [E|E]; [exact E|].
  destruct (fold_of_key r HR Hr E) as (H & _). lia.
Qed.

(* ---------------- against the toolchain oracle ---------------- *)
Variable R : rmap.
Notation rep := (rep R).

(* K1: a stored pair stays within one orbit *)
Definition chk_pairs_in_orbit : bool := cf_check (fun _ f t => rep f =? rep t).
(* K2: every orbit member folds like its representative *)
Definition chk_members_fold : bool :=
  forallb (fun px => fold (Zpos (fst px) - 1) =? fold (snd px)) (PositiveMap.elements R).

Lemma rep_fold :
  chk_range = true -> chk_pairs_in_orbit = true -> forall a, int32 a -> rep (fold a) = rep a.
Proof.
  intros HR HK a Ha. destruct (Z.eq_dec (fold a) a) as [E|E]; [rewrite E; reflexivity|].
  destruct (fold_of_key a HR Ha E) as (_ & _ & p & F).
  pose proof (cf_check_spec _ HK _ _ _ F) as H. cbv beta in H. lia.
Qed.

Lemma fold_rep :
  chk_members_fold = true -> forall a, fold a = fold (rep a).
Proof.
  intros HK a. destruct (rep_cases R a) as [E|(Ha & x & Hin & E)]; [rewrite E; reflexivity|].
  unfold chk_members_fold in HK. rewrite forallb_forall in HK. specialize (HK _ Hin).
  cbn [fst snd] in HK. rewrite E.
  replace (Z.pos (Z.to_pos (a + 1)) - 1) with a in HK by lia. lia.
Qed.

(* F2: the package's code-point equality is exactly the toolchain's
   simple-folding orbit relation, for all int32 runes *)
Theorem fold_orbit_exact :
  chk_range = true -> chk_pairs_in_orbit = true -> chk_members_fold = true ->
  forall a b, int32 a -> int32 b -> (fold a = fold b <-> rep a = rep b).
Proof.
  intros HR H1 H2 a b Ha Hb. split; intros H.
  - rewrite <- (rep_fold HR H1 a Ha), <- (rep_fold HR H1 b Hb), H. reflexivity.
  - rewrite (fold_rep H2 a), (fold_rep H2 b), H. reflexivity.
Qed.

End Generic.

(* ------------------------------------------------------------------ *)
(* serialisation hashed by internal/gen/gentables: From-sorted (From, To)
   pairs as little-endian uint32 *)

Fixpoint insert_by_fst (x : Z * Z) (l : list (Z * Z)) : list (Z * Z) :=
  match l with
  | [] => [x]
  | y :: l' => if fst x <=? fst y then x :: l else y :: insert_by_fst x l'
  end.
Definition sort_by_fst (l : list (Z * Z)) : list (Z * Z) := fold_right insert_by_fst [] l.

Definition le32 (u : Z) : list Z :=
  [u mod 256; (u / 256) mod 256; (u / 65536) mod 256; (u / 16777216) mod 256].

Definition cf_pairs (T : tables) : list (Z * Z) :=
  flat_map (fun pe => match snd pe with [f; t] => [(f, t)] | _ => [] end) (cf_entries T).

Definition case_fold_hash (T : tables) : list Z :=
  sha256 (flat_map (fun ft => le32 (fst ft) ++ le32 (snd ft)) (sort_by_fst (cf_pairs T))).

(* every pair of T1 is a pair of T2 *)
Definition pairs_subset (T1 T2 : tables) : bool :=
  forallb (fun ft => existsb (fun gt => (fst ft =? fst gt) && (snd ft =? snd gt)) (cf_pairs T2)) (cf_pairs T1).
