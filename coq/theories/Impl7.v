(* Impl7.v — structure-faithful model, continued: LastIndex (with the reverse
   Rabin-Karp search and hashStrRevUnicode), makeASCIISet, IndexAny,
   LastIndexAny, ContainsAny, IndexNonASCII, ContainsNonASCII.
   Right-to-left loops walk the reversed byte list (see Impl2.v). *)
From Strcase Require Import Base Utf8 Spec Impl Impl2 Impl4 Impl5 Impl6 Kernels.

Section Impl7.
Variable native : bool.
Variable cutover : Z -> Z.
Variable fold : Z -> Z.
Variable lower : Z -> Z.
Variable fold_map : Z -> option (list Z).
Variable upper_lower : Z -> Z * Z * bool.
Variable primeRK : Z.
Variable p : pkg.

Notation IndexRune := (Impl5.IndexRune native cutover fold_map upper_lower).
Notation HasSuffix := (Impl2.HasSuffix fold lower).

(* "if s[i-1] < RuneSelf { r, size = rune(_lower[s[i-1]]), 1 } else { r, size = DecodeLastRune(s[:i]); r = CaseFold(r) }"
   on the reversed prefix: (folded rune, what remains) *)
Definition prev_folded (rs : bytes) : Z * bytes :=
  match rs with
  | [] => (RuneError, [])
  | b :: rs' => if b <? 128 then (lower b, rs')
                else let d := decode_last_rev rs in (fold (fst d), skipn (snd d) rs)
  end.

(* hashStrRevUnicode *)
Fixpoint hash_runes_rev (fuel : nat) (rs : bytes) (h n : Z) : res (Z * Z) :=
  match fuel with
  | O => OutOfFuel
  | S f =>
    match rs with
    | [] => Ok (h, n)
    | _ :: _ => let '(r, rest) := prev_folded rs in
                hash_runes_rev f rest (w32 (w32 (h * primeRK) + w32 r)) (n + 1)
    end
  end.

Definition hashStrRevUnicode (sep : bytes) : res (Z * Z * Z) :=
  do hn <- hash_runes_rev (S (length sep)) (rev_append sep []) 0 0;
  do pw <- pow_loop (S (length sep)) (snd hn) 1 (w32 primeRK);
  Ok (fst hn, pw, snd hn).

(* first loop of indexRabinKarpRevUnicode: (h, remaining reversed prefix s[:i], n left) *)
Fixpoint rkr_init (fuel : nat) (rs : bytes) (h n : Z) : res (Z * bytes * Z) :=
  match fuel with
  | O => OutOfFuel
  | S f =>
    match rs with
    | [] => Ok (h, rs, n)
    | _ :: _ =>
      let '(r, rest) := prev_folded rs in
      let h' := w32 (w32 (h * primeRK) + w32 r) in
      if n - 1 =? 0 then Ok (h', rest, 0) else rkr_init f rest h' (n - 1)
    end
  end.

(* the window s[i:j], from the two reversed prefixes *)
Definition window (rsi rsj : bytes) : bytes := rev_append (firstn (length rsj - length rsi) rsj) [].

Fixpoint rkr_roll (fuel : nat) (substr : bytes) (hashss pow : Z) (rsi rsj : bytes) (h : Z) : res Z :=
  match fuel with
  | O => OutOfFuel
  | S f =>
    match rsi with
    | [] => Ok (-1)
    | _ :: _ =>
      let '(r0, rsi') := prev_folded rsi in
      let '(r1, rsj') := prev_folded rsj in
      let h' := w32 (w32 (w32 (h * primeRK) + w32 r0) - w32 (pow * w32 r1)) in
      do m <- (if h' =? hashss then HasSuffix (window rsi' rsj') substr else Ok false);
      if m then Ok (len rsi') else rkr_roll f substr hashss pow rsi' rsj' h'
    end
  end.

Definition indexRabinKarpRevUnicode (s substr : bytes) : res Z :=
  do hpn <- hashStrRevUnicode substr;
  let '(hashss, pow, n) := hpn in
  let rs := rev_append s [] in
  do hin <- rkr_init (S (length s)) rs 0 n;
  let '(h, rsi, nleft) := hin in
  if 0 <? nleft then Ok (-1)
  else
    do m0 <- (if h =? hashss then HasSuffix s substr else Ok false);
    if m0 then Ok (len rsi)
    else rkr_roll (S (length s)) substr hashss pow rsi rs h.

Definition LastIndex (s substr : bytes) : res Z :=
  let n := len substr in
  match rev_append substr [] with
  | [] => Ok (len s)
  | last :: _ =>
    (* "if substr[n-1] < RuneSelf { r, size = rune(substr[n-1]), 1 } else { r, size = DecodeRune(substr) }" *)
    let '(r, size) := if last <? 128 then (last, 1) else let d := decode substr in (fst d, Z.of_nat (snd d)) in
    if (n =? 1) && negb (r =? RuneError) then Impl5.LastIndexByte s (hd 0 substr)
    else if n =? size then Impl5.lastIndexRune fold_map upper_lower p s r
    else if (len s <=? n) && ((len s * 3 <? n) || ((len s * 2 <? n) && negb (contains_kelvin substr))) then Ok (-1)
    else indexRabinKarpRevUnicode s substr
  end.

(* ---- the Any family ---- *)

(* asciiSet as the list of its members; chars are all < 0x80 when ok *)
Fixpoint mas_ascii (chars : bytes) (acc : list Z) : list Z * bool :=
  match chars with
  | [] => (acc, true)
  | c :: r =>
    if 128 <=? c then (acc, false)
    else let acc1 := c :: acc in
         mas_ascii r (if is_alpha c then xor20 c :: acc1 else acc1)
  end.

Fixpoint mas_main (s chars : bytes) (acc : list Z) : list Z * bool :=
  match chars with
  | [] => (acc, true)
  | c :: r =>
    if 128 <=? c then (acc, false)
    else
      let acc1 := c :: acc in
      if is_alpha c then
        let c' := xor20 c in
        let acc2 := c' :: acc1 in
        if is_ks c' then (if contains_non_ascii s then (acc2, false) else mas_ascii r acc2)
        else mas_main s r acc2
      else mas_main s r acc1
  end.

Definition makeASCIISet (s chars : bytes) : list Z * bool := mas_main s chars [].
Definition as_contains (set : list Z) (b : Z) : bool := (b <? 128) && memb b set.

(* "for _, r := range chars { i := IndexRune(s, r); if i != -1 && (n == -1 || i < n) { n = i; if n == 0 { break }; s = s[:n] } }" *)
Fixpoint any_by_chars (fuel : nat) (s chars : bytes) (n : Z) : res Z :=
  match fuel with
  | O => OutOfFuel
  | S f =>
    match chars with
    | [] => Ok n
    | _ :: _ =>
      let d := decode chars in
      do i <- IndexRune s (fst d);
      let rest := skipn (snd d) chars in
      if negb (i =? -1) && ((n =? -1) || (i <? n)) then
        if i =? 0 then Ok 0
        else do s' <- slice_to s i; any_by_chars f s' rest i
      else any_by_chars f s rest n
    end
  end.

(* "for i, c := range s { if IndexRune(chars, c) >= 0 { return i } }" *)
Fixpoint any_by_s (fuel : nat) (s chars : bytes) (i : Z) : res Z :=
  match fuel with
  | O => OutOfFuel
  | S f =>
    match s with
    | [] => Ok (-1)
    | _ :: _ =>
      let d := decode s in
      do j <- IndexRune chars (fst d);
      if 0 <=? j then Ok i else any_by_s f (skipn (snd d) s) chars (i + Z.of_nat (snd d))
    end
  end.

Definition IndexAny (s chars : bytes) : res Z :=
  match chars with
  | [] => Ok (-1)
  | [c] => IndexRune s (if 128 <=? c then RuneError else c)
  | _ =>
    let '(set, ok) := if 8 <? len s then makeASCIISet s chars else ([], false) in
    if (8 <? len s) && ok then Ok (index_byte_from (as_contains set) s 0)
    else if len chars * 2 <? len s then any_by_chars (S (length chars)) s chars (-1)
    else any_by_s (S (length s)) s chars 0
  end.

Definition ContainsAny (s chars : bytes) : res bool := do i <- IndexAny s chars; Ok (0 <=? i).

(* last byte satisfying f, on the reversed list *)
Fixpoint last_byte_rev (f : Z -> bool) (rs : bytes) : Z :=
  match rs with
  | [] => -1
  | b :: rs' => if f b then len rs' else last_byte_rev f rs'
  end.

(* "for i := len(s); i > 0; { r, size := DecodeLastRune(s[:i]); i -= size; if IndexRune(chars, r) >= 0 { return i } }" *)
Fixpoint last_any_loop (fuel : nat) (rs chars : bytes) : res Z :=
  match fuel with
  | O => OutOfFuel
  | S f =>
    match rs with
    | [] => Ok (-1)
    | _ :: _ =>
      let d := decode_last_rev rs in
      let rs' := skipn (snd d) rs in
      do j <- IndexRune chars (fst d);
      if 0 <=? j then Ok (len rs') else last_any_loop f rs' chars
    end
  end.

Definition LastIndexAny (s chars : bytes) : res Z :=
  match chars with
  | [] => Ok (-1)
  | c0 :: crest =>
    match s with
    | [b] => do j <- IndexRune chars (if 128 <=? b then RuneError else b);
             if 0 <=? j then Ok 0 else Ok (-1)
    | _ =>
      let rs := rev_append s [] in
      let '(set, ok) := if 8 <? len s then makeASCIISet s chars else ([], false) in
      if (8 <? len s) && ok then Ok (last_byte_rev (as_contains set) rs)
      else match crest with
           | [] => if c0 <? 128 then Impl5.LastIndexByte s c0
                   else Impl5.last_rune_where (S (length s)) false (fun x => x =? RuneError) rs
           | _ => last_any_loop (S (length s)) rs chars
           end
    end
  end.

Definition IndexNonASCII (s : bytes) : res Z := Ok (index_non_ascii s).
Definition ContainsNonASCII (s : bytes) : res bool := Ok (contains_non_ascii s).

End Impl7.
