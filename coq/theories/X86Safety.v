(* X86Safety.v — what "the run is Done" says about memory: an instrumented
   run that records every load and every store of the machine model; a run
   that ends in Done loaded only bytes of pages that hold a byte of the
   argument and stored only to the result slot.  (The model has no other way
   to touch memory: VLOAD is its only load, MOVQ to a memory operand its only
   store.) *)
From Coq Require Import List ZArith Lia Bool.
From Strcase Require Import Base X86 X86Facts.
Import ListNotations.
Open Scope Z_scope.

Section S.
Variables (A : Z) (s : list Z) (junk : Z -> Z) (slot : Z) (avx2 popcnt : bool) (c : Z) (prog : list instr).
Notation run := (X86.run A s junk slot avx2 popcnt c prog).
Notation step := (X86.step A s junk slot avx2 popcnt c).

(* the memory accesses of one instruction: loads as (address, width), stores as addresses *)
Definition loads_of (i : instr) (st0 : st) : list (Z * nat) :=
  match i with VLOAD w m _ => [(ea st0 m, w)] | _ => [] end.
Definition stores_of (i : instr) (st0 : st) : list Z :=
  match i with MOVQ _ (M m) => [ea st0 m] | _ => [] end.

Fixpoint accesses (fuel : nat) (pc : nat) (st0 : st) : list (Z * nat) * list Z :=
  match fuel with
  | O => ([], [])
  | S f =>
    match nth_error prog pc with
    | None => ([], [])
    | Some i =>
      let '(l, w) := match step pc i st0 with Running pc' st1 => accesses f pc' st1 | _ => ([], []) end in
      (loads_of i st0 ++ l, stores_of i st0 ++ w)
    end
  end.

Definition in_pages (a : Z) : Prop := 0 < X86.len s /\ page A <= page a <= page (A + X86.len s - 1).

Lemma load_some_readable w : forall a v, load A s junk w a = Some v -> forall k, (k < w)%nat -> in_pages (a + Z.of_nat k).
Proof.
  induction w as [|w IH]; intros a v H k Hk; [lia|]. cbn [load] in H.
  destruct (readable A s a) eqn:R; [|discriminate].
  destruct (load A s junk w (a + 1)) as [v'|] eqn:L; [|discriminate].
  destruct k as [|k].
  - replace (a + Z.of_nat 0) with a by lia. unfold readable in R. unfold in_pages. lia.
  - replace (a + Z.of_nat (S k)) with (a + 1 + Z.of_nat k) by lia. apply (IH _ _ L). lia.
Qed.

Definition good (acc : list (Z * nat) * list Z) : Prop :=
  Forall (fun aw => forall k, (k < snd aw)%nat -> in_pages (fst aw + Z.of_nat k)) (fst acc) /\ Forall (fun a => a = slot) (snd acc).

(* THE META-THEOREM: a run that does not fault never loaded outside the pages of the argument and never stored
   anywhere but to the result slot *)
Theorem done_is_memory_safe fuel : forall pc st0 r, run fuel pc st0 = Done r -> good (accesses fuel pc st0).
Proof.
  induction fuel as [|f IH]; intros pc st0 r H; [discriminate|].
  cbn [X86.run accesses] in *. destruct (nth_error prog pc) as [i|]; [|discriminate].
  assert (Hi : match step pc i st0 with Fault => False | _ => True end) by (destruct (step pc i st0); try exact I; discriminate).
  assert (Lo : Forall (fun aw => forall k, (k < snd aw)%nat -> in_pages (fst aw + Z.of_nat k)) (loads_of i st0)).
  { destruct i; cbn [loads_of]; try constructor; [|constructor]. cbn [fst snd]. unfold X86.step in Hi.
    destruct (load A s junk w (ea st0 m)) as [v|] eqn:L; [|contradiction]. exact (load_some_readable _ _ _ L). }
  assert (St : Forall (fun a => a = slot) (stores_of i st0)).
  { destruct i; cbn [stores_of]; try constructor.
    match goal with |- Forall _ (match ?o with _ => _ end) => destruct o end; try constructor; [|constructor].
    unfold X86.step in Hi. destruct (ea st0 m =? slot) eqn:E; [|contradiction]. apply Z.eqb_eq. exact E. }
  destruct (step pc i st0) as [pc' st1| | |] eqn:Es.
  - specialize (IH _ _ _ H). destruct (accesses f pc' st1) as [l w]. destruct IH as [I1 I2]. split; cbn [fst snd] in *; apply Forall_app; split; assumption.
  - split; cbn [fst snd]; rewrite app_nil_r; assumption.
  - discriminate.
  - discriminate.
Qed.

End S.
