(* Refine_Last.v — the right-to-left single-character searches
   (LastIndexByte, lastIndexRune) and LastIndex refine Spec.  The loops walk
   reversed prefixes (rp s i = rev (s[:off i])); one DecodeLastRune step reads
   the i-th forward segment (decode_last_rev_spec), so a right-to-left walk
   testing P visits the code points of s last to first. *)
From Strcase Require Import Base Utf8 Utf8Facts Utf8Last Spec SpecFacts SpecIndex SpecAffix SpecChars Impl Impl2 Impl4 Impl5 Impl6 Impl7
  Kernels Refine_Compare Refine_Prefix Refine_Suffix Refine_RuneCase Utf8Enc Refine_RuneCase2 Refine_Byte Refine_Rune Refine_RK Refine_Index Refine_RKRev Fold FoldFacts FoldFacts2 Refine_Index3.
From Coq Require Import ZifyBool ZifyNat.

(* ---------- one step backwards ---------- *)

Lemma last_seg_at s i :
  wf s -> (i < rune_count s)%nat ->
  let d := decode_last_rev (rp s (S i)) in
  fst d = nth i (runes s) 0 /\ skipn (snd d) (rp s (S i)) = rp s i /\
  exists b rs', rp s (S i) = b :: rs' /\ 0 <= b < 256 /\ (b < 128 -> d = (b, 1%nat) /\ rs' = rp s i).
Proof.
  intros Hw Hi. cbv zeta. pose proof (off_strict s i Hi) as Hs. pose proof (off_le s (S i)) as Hle.
  set (pre := firstn (off s (S i)) s).
  assert (Hne : rp s (S i) <> []).
  { intros E. apply (f_equal (@length Z)) in E. rewrite rp_length in E. cbn [length] in E. lia. }
  destruct (decode_last_rev_spec (rp s (S i)) Hne) as (W & L & Sg). cbv zeta in *.
  set (d := decode_last_rev (rp s (S i))) in *.
  assert (Erev : rev (rp s (S i)) = pre) by (unfold rp; apply rev_involutive).
  rewrite Erev in Sg.
  assert (Spre : segs pre = firstn i (segs s) ++ [nth i (segs s) (0, 0%nat)]).
  { unfold pre. rewrite segs_firstn_off. apply firstn_S_snoc. exact Hi. }
  rewrite Spre in Sg. apply app_inj_tail in Sg as [Sg1 Sg2].
  assert (Ne : nth_error (segs s) i = Some d) by (rewrite <- Sg2; apply nth_error_nth'; exact Hi).
  assert (Wd : off s (S i) = (off s i + snd d)%nat) by (apply off_S; exact Ne).
  assert (Erest : skipn (snd d) (rp s (S i)) = rp s i).
  { unfold rp. rewrite skipn_rev_firstn by lia. f_equal. f_equal. lia. }
  split; [|split; [exact Erest|]].
  { unfold runes. rewrite (nth_indep _ 0 (fst (0, 0%nat))) by (rewrite map_length; exact Hi). rewrite map_nth, Sg2. reflexivity. }
  destruct (rp s (S i)) as [|b rs'] eqn:Er; [congruence|]. exists b, rs'. split; [reflexivity|].
  assert (Hb : 0 <= b < 256).
  { assert (Hwr : wf (b :: rs')) by (rewrite <- Er; unfold rp; apply wf_rev, wf_firstn; exact Hw). inversion Hwr; assumption. }
  split; [exact Hb|]. intros A.
  assert (Ed : d = (b, 1%nat)) by (unfold d; apply decode_last_rev_ascii; lia).
  split; [exact Ed|]. rewrite Ed in Erest. cbn [snd skipn] in Erest. exact Erest.
Qed.

Lemma chk_last_hi l : wf l -> (2 <= length l)%nat -> 128 <= fst (chk_last l).
Proof.
  intros Hw Hl. destruct l as [|b l']; [cbn in Hl; lia|].
  destruct (chk_last_cases (b :: l') ltac:(discriminate)) as [[E W]|[E _]]; rewrite E; [|unfold RE1, RuneError; cbn; lia].
  destruct (Z_lt_le_dec b 128) as [A|A].
  - rewrite decode_ascii in W by exact A. cbn [snd] in W. lia.
  - apply decode_hi_not_ascii; assumption.
Qed.

(* a last byte >= 0x80 ends a code point >= 0x80 *)
Lemma decode_last_rev_hi b0 r : wf (b0 :: r) -> 128 <= b0 -> 128 <= fst (decode_last_rev (b0 :: r)).
Proof.
  intros Hw Hb. unfold decode_last_rev. replace (b0 <? 128) with false by lia.
  assert (RE : 128 <= fst (RuneError, 1%nat)) by (unfold RuneError; cbn; lia).
  assert (W4 : forall a b c d, In a (b0 :: r) -> In b (b0 :: r) -> In c (b0 :: r) -> In d (b0 :: r) -> wf [a; b; c; d]).
  { intros a b c d Ha Hb' Hc Hd. unfold wf in *. rewrite Forall_forall in Hw. repeat constructor; apply Hw; assumption. }
  destruct r as [|b1 r1]; [exact RE|].
  destruct (is_start b1).
  { apply chk_last_hi; [|cbn; lia]. unfold wf in *. rewrite Forall_forall in Hw. repeat constructor; apply Hw; cbn; auto. }
  destruct r1 as [|b2 r2]; [exact RE|].
  destruct (is_start b2).
  { apply chk_last_hi; [|cbn; lia]. unfold wf in *. rewrite Forall_forall in Hw. repeat constructor; apply Hw; cbn; auto. }
  destruct r2 as [|b3 r3]; [exact RE|].
  destruct (is_start b3); [|exact RE].
  apply chk_last_hi; [|cbn; lia]. unfold wf in *. rewrite Forall_forall in Hw. repeat constructor; apply Hw; cbn; auto.
Qed.

(* ---------- the last code point satisfying P ---------- *)

Definition last_in (P : Z -> bool) (s : bytes) : Z := offz s (last_where P (runes s) 0).

Lemma last_where_shift f l k0 :
  last_where f l k0 = option_map (fun d => (k0 + d)%nat) (last_where f l 0).
Proof.
  revert k0. induction l as [|x l IH]; intros k0; cbn [last_where]; [reflexivity|].
  rewrite (IH (S k0)), (IH 1%nat). destruct (last_where f l 0); cbn [option_map]; [f_equal; lia|].
  destruct (f x); cbn; [f_equal; lia|reflexivity].
Qed.

Lemma last_where_app f l x :
  last_where f (l ++ [x]) 0 = if f x then Some (length l) else last_where f l 0.
Proof.
  induction l as [|y l IH]; [cbn; destruct (f x); reflexivity|].
  cbn [app last_where length]. rewrite (last_where_shift f (l ++ [x]) 1), (last_where_shift f l 1), IH.
  destruct (f x); cbn [option_map]; [f_equal|reflexivity].
Qed.

Lemma last_where_firstn_S f l i :
  (i < length l)%nat ->
  last_where f (firstn (S i) l) 0 = if f (nth i l 0) then Some i else last_where f (firstn i l) 0.
Proof.
  intros Hi. rewrite (firstn_S_snoc l i 0 Hi), last_where_app, firstn_length, Nat.min_l by lia. reflexivity.
Qed.

(* the walk of lastIndexRune / LastIndexAny *)
Lemma last_rune_where_ok af P s i :
  wf s -> (i <= rune_count s)%nat ->
  forall fuel, (i < fuel)%nat ->
  last_rune_where fuel af P (rp s i) = Ok (offz s (last_where P (firstn i (runes s)) 0)).
Proof.
  intros Hw. induction i as [|i IH]; intros Hi fuel Hf; (destruct fuel as [|f]; [lia|]).
  - reflexivity.
  - cbn [last_rune_where]. destruct (last_seg_at s i Hw ltac:(lia)) as (Ed & Er & b & rs' & Erp & Hb & Ha). cbv zeta in *.
    rewrite (last_where_firstn_S P (runes s) i) by (rewrite runes_length; lia).
    rewrite Erp. cbv iota. rewrite <- Erp.
    assert (Hlen : len (rp s i) = Z.of_nat (off s i)) by (unfold len; rewrite rp_length; reflexivity).
    destruct (af && (b <? 128)) eqn:Fast.
    + destruct (Ha ltac:(lia)) as [Edd Ers]. rewrite Edd in Ed. cbn [fst] in Ed. rewrite <- Ed.
      rewrite Ers, Hlen. destruct (P b); [reflexivity|]. apply IH; lia.
    + cbv zeta. rewrite Er, Ed, Hlen. destruct (P (nth i (runes s) 0)); [reflexivity|]. apply IH; lia.
Qed.

Lemma last_rune_where_all af P s :
  wf s -> last_rune_where (S (length s)) af P (rev_append s []) = Ok (last_in P s).
Proof.
  intros Hw. rewrite rev_append_rev, app_nil_r, <- rp_all. pose proof (rune_count_le s).
  rewrite (last_rune_where_ok af P s (rune_count s) Hw ltac:(lia)) by lia.
  rewrite firstn_all2 by (rewrite runes_length; lia). reflexivity.
Qed.

(* ---------- raw occurrences of an encoding are code points ---------- *)

Lemma encode_start r : valid_rune r = true -> exists e0 tl, encode r = e0 :: tl /\ is_start e0 = true.
Proof.
  intros V. destruct (Z_lt_le_dec r 128) as [A|A].
  - assert (0 <= r) by (unfold valid_rune in V; lia). rewrite encode_ascii by lia. exists r, []. split; [reflexivity|].
    unfold is_start, is_cont. lia.
  - destruct (encode_shape r V A) as (e0 & tl & E & S & _). exists e0, tl. split; assumption.
Qed.

Lemma occ_encode_iff s r p :
  wf s -> valid_rune r = true -> r <> RuneError -> (p < length s)%nat ->
  (occ (encode r) s p = true <-> exists a, (a < rune_count s)%nat /\ off s a = p /\ nth a (runes s) 0 = r).
Proof.
  intros Hw V Hne Hp. destruct (encode_start r V) as (e0 & tl & Ee & Se).
  assert (Henc : encode r <> []) by (rewrite Ee; discriminate).
  split.
  - intros O. pose proof O as O2. apply (occ_nth (encode r) s p Henc) in O as [_ N].
    specialize (N 0%nat ltac:(rewrite Ee; cbn; lia)). rewrite Nat.add_0_r, Ee in N. cbn [nth] in N.
    destruct (start_is_boundary s p Hp ltac:(rewrite N; exact Se)) as (a & Ha & Oa).
    assert (Ha' : (a < rune_count s)%nat).
    { destruct (le_lt_dec (rune_count s) a) as [Hge|]; [|assumption]. rewrite (off_all s a Hge) in Oa. lia. }
    exists a. split; [exact Ha'|]. split; [exact Oa|].
    destruct (rune_at s a Ha') as (_ & _ & F). rewrite Oa in F.
    unfold occ in O2. apply starts_with_app_eq in O2 as [rest E]. rewrite E in F.
    destruct (encode r ++ rest) as [|b t] eqn:Eb; [destruct (encode r); [congruence|discriminate]|].
    rewrite first_rune_cons in F. rewrite <- Eb in F. rewrite (decode_encode r rest V) in F. cbn [fst] in F. congruence.
  - intros (a & Ha & Oa & En).
    destruct (rune_at s a Ha) as (Ho & _ & F). rewrite Oa in *.
    destruct (skipn p s) as [|b t] eqn:Sk.
    { apply (f_equal (@length Z)) in Sk. rewrite skipn_length in Sk. cbn [length] in Sk. lia. }
    rewrite first_rune_cons in F.
    assert (Ef : fst (decode (b :: t)) = r) by congruence.
    assert (Hwt : wf (b :: t)) by (rewrite <- Sk; apply wf_skipn; exact Hw).
    assert (Hd : decode (b :: t) <> RE1).
    { intros E. rewrite E in Ef. unfold RE1 in Ef. cbn [fst] in Ef. congruence. }
    destruct (encode_decode b t Hwt Hd) as [Efn _]. rewrite Ef in Efn.
    unfold occ. rewrite Sk. apply firstn_starts_with.
    + rewrite <- Efn, firstn_length. lia.
    + rewrite <- Efn at 2. rewrite <- Efn at 1. rewrite firstn_length. f_equal.
      pose proof (decode_width_le (b :: t)). rewrite Nat.min_l by lia. reflexivity.
Qed.

(* ---------- the last raw position at which a pattern starts ---------- *)

Lemma raw_last_absent pats s i0 :
  (forall p, (p < length s)%nat -> pat_at pats s p = false) -> raw_last_index_pats pats s i0 = -1.
Proof.
  revert i0. induction s as [|b s IH]; intros i0 H; [reflexivity|].
  cbn [raw_last_index_pats]. rewrite IH by (intros p Hp; apply (H (S p)); cbn [length]; lia).
  change (0 <=? -1) with false. cbv iota.
  pose proof (H 0%nat ltac:(cbn; lia)) as H0. unfold pat_at in H0. cbn [skipn] in H0. rewrite H0. reflexivity.
Qed.

Lemma raw_last_greatest pats s i0 p :
  0 <= i0 -> pat_at pats s p = true -> (p < length s)%nat ->
  (forall q, (p < q)%nat -> (q < length s)%nat -> pat_at pats s q = false) ->
  raw_last_index_pats pats s i0 = i0 + Z.of_nat p.
Proof.
  revert i0 p. induction s as [|b s IH]; intros i0 p H0 Hp Hlen Hl; [cbn in Hlen; lia|].
  cbn [raw_last_index_pats]. destruct p as [|p].
  - rewrite raw_last_absent by (intros q Hq; apply (Hl (S q)); cbn [length]; lia).
    change (0 <=? -1) with false. cbv iota. unfold pat_at in Hp. cbn [skipn] in Hp. rewrite Hp. lia.
  - rewrite (IH (i0 + 1) p); [|lia|exact Hp|cbn [length] in Hlen; lia|intros q Hq Hq2; apply (Hl (S q)); cbn [length]; lia].
    replace (0 <=? i0 + 1 + Z.of_nat p) with true by lia. lia.
Qed.

(* a raw pattern search that can only hit code-point starts is a search over code points *)
Lemma last_raw_rune pats P s :
  wf s ->
  (forall p, (p < length s)%nat ->
     (pat_at pats s p = true <-> exists a, (a < rune_count s)%nat /\ off s a = p /\ P (nth a (runes s) 0) = true)) ->
  raw_last_index_pats pats s 0 = last_in P s.
Proof.
  intros Hw H. unfold last_in. destruct (last_where P (runes s) 0) as [k|] eqn:L; cbn [offz].
  - apply last_where_some in L as (d & -> & Hd & Hf & Hl). cbn [Nat.add]. rewrite runes_length in Hd.
    pose proof (off_lt_len s d Hd) as Hod.
    rewrite (raw_last_greatest pats s 0 (off s d)); [lia|lia| |exact Hod|].
    + apply (H _ Hod). exists d. repeat split; assumption.
    + intros q Hq Hq2. destruct (pat_at pats s q) eqn:E; [|reflexivity]. exfalso.
      apply (H _ Hq2) in E as (a & Ha & Oa & Pa).
      destruct (le_lt_dec a d) as [Hle|Hgt]; [pose proof (off_mono s a d Hle); lia|].
      rewrite (Hl a Hgt) in Pa by (rewrite runes_length; exact Ha). discriminate.
  - apply raw_last_absent. intros p Hp. destruct (pat_at pats s p) eqn:E; [|reflexivity]. exfalso.
    apply (H _ Hp) in E as (a & Ha & _ & Pa).
    rewrite (last_where_none _ _ _ L (nth a (runes s) 0)) in Pa; [discriminate|]. apply nth_In. rewrite runes_length. exact Ha.
Qed.

Lemma last_where_ext f g l k0 : (forall x, In x l -> f x = g x) -> last_where f l k0 = last_where g l k0.
Proof.
  revert k0. induction l as [|y l IH]; intros k0 H; [reflexivity|]. cbn [last_where].
  rewrite (IH (S k0)) by (intros x Hx; apply H; right; exact Hx). rewrite (H y) by (left; reflexivity). reflexivity.
Qed.

Lemma last_in_ext P Q s : (forall x, In x (runes s) -> P x = Q x) -> last_in P s = last_in Q s.
Proof. intros H. unfold last_in. rewrite (last_where_ext P Q _ 0 H). reflexivity. Qed.

(* searching backwards for the encodings of a list of scalar values = the last code point in the list *)
Lemma last_raw_runes s (rs : list Z) :
  wf s -> (forall r, In r rs -> valid_rune r = true /\ r <> RuneError) ->
  raw_last_index_pats (map encode rs) s 0 = last_in (fun x => memb x rs) s.
Proof.
  intros Hw Hrs. apply last_raw_rune; [exact Hw|]. intros p Hp. unfold pat_at. rewrite existsb_exists. split.
  - intros (e & He & O). apply in_map_iff in He as (r & <- & Hr). destruct (Hrs r Hr) as [V N].
    apply (occ_encode_iff s r p Hw V N Hp) in O as (a & Ha & Oa & En). exists a. repeat split; try assumption.
    apply memb_In. rewrite En. exact Hr.
  - intros (a & Ha & Oa & M). apply memb_In in M. destruct (Hrs _ M) as [V N].
    exists (encode (nth a (runes s) 0)). split; [apply in_map; exact M|].
    apply (occ_encode_iff s _ p Hw V N Hp). exists a. repeat split; assumption.
Qed.

(* ---------- byte walks ---------- *)

Lemma last_byte_rev_spec f s :
  (last_byte_rev f (rev s) = -1 /\ forall p, (p < length s)%nat -> f (nth p s 0) = false) \/
  (exists p, (p < length s)%nat /\ last_byte_rev f (rev s) = Z.of_nat p /\ f (nth p s 0) = true /\
             forall q, (p < q)%nat -> (q < length s)%nat -> f (nth q s 0) = false).
Proof.
  induction s as [|x s IH] using rev_ind; [left; split; [reflexivity|intros p Hp; cbn in Hp; lia]|].
  rewrite rev_unit. cbn [last_byte_rev]. rewrite app_length. cbn [length].
  destruct (f x) eqn:Fx.
  - right. exists (length s). split; [lia|]. split; [unfold len; rewrite rev_length; reflexivity|].
    split; [rewrite app_nth2, Nat.sub_diag by lia; exact Fx|]. intros q H1 H2. lia.
  - destruct IH as [[E H]|(p & Hp & E & Fp & H)].
    + left. split; [exact E|]. intros p Hp. destruct (Nat.eq_dec p (length s)) as [->|Hne].
      * rewrite app_nth2, Nat.sub_diag by lia. exact Fx.
      * rewrite app_nth1 by lia. apply H. lia.
    + right. exists p. split; [lia|]. split; [exact E|]. split; [rewrite app_nth1 by lia; exact Fp|].
      intros q H1 H2. destruct (Nat.eq_dec q (length s)) as [->|Hne].
      * rewrite app_nth2, Nat.sub_diag by lia. exact Fx.
      * rewrite app_nth1 by lia. apply H; lia.
Qed.

Lemma last_byte_rev_raw pats f s :
  wf s ->
  (forall x t, 0 <= x < 256 -> existsb (fun e => starts_with e (x :: t)) pats = f x) ->
  raw_last_index_pats pats s 0 = last_byte_rev f (rev s).
Proof.
  intros Hw H.
  assert (Hp : forall p, (p < length s)%nat -> pat_at pats s p = f (nth p s 0)).
  { intros p Hp. unfold pat_at. rewrite (skipn_nth_cons s p Hp). apply H.
    unfold wf in Hw. rewrite Forall_forall in Hw. apply Hw. apply nth_In. exact Hp. }
  destruct (last_byte_rev_spec f s) as [[E Hn]|(p & Hlt & E & Fp & Hn)]; rewrite E.
  - apply raw_last_absent. intros p Hlt. rewrite Hp by exact Hlt. apply Hn. exact Hlt.
  - rewrite (raw_last_greatest pats s 0 p); [lia|lia|rewrite Hp by exact Hlt; exact Fp|exact Hlt|].
    intros q H1 H2. rewrite Hp by exact H2. apply Hn; assumption.
Qed.

Lemma std_last_index_byte_rev_eq rs c : std_last_index_byte_rev rs c = last_byte_rev (fun b => b =? c) rs.
Proof. induction rs as [|b rs IH]; [reflexivity|]. cbn [std_last_index_byte_rev last_byte_rev]. rewrite IH. reflexivity. Qed.

Lemma lib_alpha_eq rs c : lib_alpha rs c = last_byte_rev (fun b => Impl5.or20 b =? c) rs.
Proof. induction rs as [|b rs IH]; [reflexivity|]. cbn [lib_alpha last_byte_rev]. rewrite IH. reflexivity. Qed.

(* the K/k/S/s walk is a code-point walk *)
Lemma lib_special_eq fuel rs c r :
  wf rs ->
  lib_special fuel rs c r = last_rune_where fuel true (fun x => if x <? 128 then Impl5.or20 x =? c else x =? r) rs.
Proof.
  revert rs. induction fuel as [|f IH]; intros rs Hw; [reflexivity|].
  cbn [lib_special last_rune_where]. destruct rs as [|b rs']; [reflexivity|].
  assert (Hw' : wf rs') by (inversion Hw; assumption).
  destruct (b <? 128) eqn:A; cbn [andb].
  - rewrite (IH rs' Hw'). reflexivity.
  - pose proof (decode_last_rev_hi b rs' Hw ltac:(lia)) as Hi. cbv zeta.
    replace (fst (decode_last_rev (b :: rs')) <? 128) with false by lia.
    rewrite (IH _ (wf_skipn _ _ Hw)). reflexivity.
Qed.

(* ---------- LastIndexByte ---------- *)

Lemma or20_letters_chk :
  chk_pairs (fun c b => if is_alpha c
                        then Bool.eqb (Impl5.or20 b =? Impl5.or20 c) ((b =? lower_ascii c) || (b =? lower_ascii c - 32))
                        else true) = true.
Proof. vm_compute. reflexivity. Qed.

Lemma last_in_rev_all af P s : wf s -> last_rune_where (S (length s)) af P (rev_append s []) = Ok (last_in P s).
Proof. apply last_rune_where_all. Qed.

Lemma special_walk s c' r l :
  wf s -> valid_rune r = true -> r <> RuneError -> 128 <= r -> 0 <= l < 128 -> 32 <= l ->
  (forall b, 0 <= b < 256 -> (Impl5.or20 b =? c') = ((b =? l) || (b =? l - 32))) ->
  lib_special (S (length s)) (rev_append s []) c' r = Ok (raw_last_index_pats [[l]; [l - 32]; encode r] s 0).
Proof.
  intros Hw V Nr Hr Hl Hl2 Hor.
  rewrite lib_special_eq by (rewrite rev_append_rev, app_nil_r; apply wf_rev; exact Hw).
  rewrite last_rune_where_all by exact Hw. f_equal.
  replace [[l]; [l - 32]; encode r] with (map encode [l; l - 32; r])
    by (cbn [map]; rewrite !encode_ascii by lia; reflexivity).
  rewrite last_raw_runes; [|exact Hw|].
  - apply last_in_ext. intros x Hx. pose proof (runes_range' s Hw) as R. rewrite Forall_forall in R. specialize (R x Hx).
    unfold memb. cbn [existsb]. rewrite orb_false_r. destruct (x <? 128) eqn:A.
    + rewrite Hor by (unfold MaxRune in R; lia). replace (x =? r) with false by lia. rewrite orb_false_r. reflexivity.
    + replace (x =? l) with false by lia. replace (x =? l - 32) with false by lia. reflexivity.
  - intros y [<-|[<-|[<-|[]]]]; try (split; [exact V|exact Nr]); (split; [unfold valid_rune, MaxRune; lia|unfold RuneError; lia]).
Qed.

Theorem lastindexbyte_refines s c :
  wf s -> 0 <= c < 256 -> LastIndexByte s c = Ok (last_index_byte s c).
Proof.
  intros Hw Hc. unfold LastIndexByte, last_index_byte.
  destruct s as [|b0 s0] eqn:Es; [reflexivity|]. rewrite <- Es in *. assert (Hnil : is_nil s = false) by (rewrite Es; reflexivity).
  rewrite Hnil. clear Hnil.
  assert (Hrev : rev_append s [] = rev s) by (rewrite rev_append_rev; apply app_nil_r).
  destruct (is_alpha c) eqn:Al; cbn [negb].
  2:{ (* not a letter: the byte itself *)
      f_equal. rewrite Hrev, std_last_index_byte_rev_eq. symmetry. apply last_byte_rev_raw; [exact Hw|].
      intros x t _. unfold byte_pats. rewrite Al. cbn [existsb starts_with]. rewrite orb_false_r, andb_true_r. first [reflexivity|apply Z.eqb_sym]. }
  pose proof (chk_pairs_spec _ or20_letters_chk c) as Chk.
  assert (Hor : forall b, 0 <= b < 256 -> (Impl5.or20 b =? Impl5.or20 c) = ((b =? lower_ascii c) || (b =? lower_ascii c - 32))).
  { intros b Hb. specialize (Chk b Hc Hb). cbv beta in Chk. rewrite Al in Chk. apply Bool.eqb_prop in Chk. exact Chk. }
  assert (Hl : 97 <= lower_ascii c <= 122) by (unfold is_alpha, lower_ascii in *; destruct ((65 <=? c) && (c <=? 90)) eqn:U; lia).
  destruct ((c =? 75) || (c =? 107)) eqn:Kk.
  { assert (El : lower_ascii c = 107) by (unfold lower_ascii; destruct ((65 <=? c) && (c <=? 90)) eqn:U; lia).
    rewrite (special_walk s (Impl5.or20 c) 8490 107 Hw); try reflexivity; try lia.
    - f_equal. unfold byte_pats. rewrite Al, El. reflexivity.
    - unfold RuneError. lia. }
  destruct ((c =? 83) || (c =? 115)) eqn:Ss.
  { assert (El : lower_ascii c = 115) by (unfold lower_ascii; destruct ((65 <=? c) && (c <=? 90)) eqn:U; lia).
    rewrite (special_walk s (Impl5.or20 c) 383 115 Hw); try reflexivity; try lia.
    - f_equal. unfold byte_pats. rewrite Al, El. reflexivity.
    - unfold RuneError. lia. }
  (* another letter: either case *)
  f_equal. rewrite Hrev, lib_alpha_eq. symmetry. apply last_byte_rev_raw; [exact Hw|].
  intros x t Hx. unfold byte_pats. rewrite Al. cbv zeta.
  replace (lower_ascii c =? 107) with false by (unfold lower_ascii in *; destruct ((65 <=? c) && (c <=? 90)) eqn:U; lia).
  replace (lower_ascii c =? 115) with false by (unfold lower_ascii in *; destruct ((65 <=? c) && (c <=? 90)) eqn:U; lia).
  cbn [app existsb starts_with]. rewrite orb_false_r, !andb_true_r.
  rewrite (Z.eqb_sym (lower_ascii c) x), (Z.eqb_sym (lower_ascii c - 32) x). symmetry. apply Hor. exact Hx.
Qed.

(* ---------- lastIndexRune (a code point that is not ASCII) ---------- *)

Lemma in_folds_take_nz fs x : in_folds fs x = true <-> In x (FoldFacts2.take_nz fs).
Proof.
  induction fs as [|f fs IH]; cbn [in_folds FoldFacts2.take_nz]; [split; [discriminate|intros []]|].
  destruct (f =? 0) eqn:Z0; [split; [discriminate|intros []]|].
  rewrite orb_true_iff, IH, Z.eqb_eq. cbn [In]. split; intros [H|H]; auto.
Qed.

Section LR.
Variable fold : Z -> Z.
Variable fold_map : Z -> option (list Z).
Variable upper_lower : Z -> Z * Z * bool.
Notation cands := (cands_of fold_map upper_lower).
Hypothesis Hcands : forall r x, 128 <= r <= MaxRune -> int32 x -> (fold x = fold r <-> In x (cands r)).
Hypothesis Herr : forall x, int32 x -> (fold x = fold RuneError <-> x = RuneError).
Hypothesis Hfm_self : forall r fs, 128 <= r <= MaxRune -> fold_map r = Some fs -> In r (FoldFacts2.take_nz fs).
Hypothesis Hul_false : forall r u l, upper_lower r = (u, l, false) -> u = r /\ l = r.

(* the last code point of s in r's orbit (valid r) *)
Definition last_index_rune (s : bytes) (r : Z) : Z :=
  if valid_rune r then last_in (fun x => fold x =? fold r) s else -1.

Theorem lastIndexRune_ok p s r :
  wf s -> ~ (0 <= r < 128) -> lastIndexRune fold_map upper_lower p s r = Ok (last_index_rune s r).
Proof.
  intros Hw Hna. unfold lastIndexRune, last_index_rune.
  assert (Hint : forall x, In x (runes s) -> int32 x) by (intros x Hx; apply (runes_int32' s x Hw Hx)).
  destruct (r =? RuneError) eqn:Re.
  { assert (r = RuneError) by lia. subst r. rewrite last_rune_where_all by exact Hw. cbn [valid_rune]. 
    replace (valid_rune RuneError) with true by reflexivity. f_equal. apply last_in_ext. intros x Hx.
    apply bool_eq_iff'. rewrite !Z.eqb_eq. symmetry. apply Herr. apply Hint. exact Hx. }
  destruct (valid_rune r) eqn:V; cbn [negb]; [|reflexivity].
  assert (Hr : 128 <= r <= MaxRune) by (unfold valid_rune, MaxRune in *; lia).
  destruct (fold_map r) as [folds|] eqn:Fm.
  { rewrite last_rune_where_all by exact Hw. f_equal. apply last_in_ext. intros x Hx. apply bool_eq_iff'.
    rewrite in_folds_take_nz, Z.eqb_eq, (Hcands r x Hr (Hint x Hx)). unfold cands_of. rewrite Fm. cbn [In].
    split; [intros H; right; exact H|intros [<-|H]; [apply (Hfm_self r folds Hr Fm)|exact H]]. }
  destruct (upper_lower r) as [[u l] ok] eqn:Ul.
  assert (Hc : forall x, In x (runes s) -> ((x =? u) || (x =? l) = true <-> fold x = fold r)).
  { intros x Hx. rewrite (Hcands r x Hr (Hint x Hx)). unfold cands_of. rewrite Fm, Ul. destruct ok.
    - cbn [In]. rewrite orb_true_iff, !Z.eqb_eq. split; [intros [->| ->]; auto|intros [<-|[<-|[]]]; auto].
    - destruct (Hul_false r u l Ul) as [-> ->]. cbn [In]. rewrite orb_true_iff, !Z.eqb_eq. split; [intros [->| ->]; auto|intros [<-|[]]; auto]. }
  assert (Hwalk : last_rune_where (S (length s)) true (fun x => (x =? u) || (x =? l)) (rev_append s []) =
                  Ok (last_in (fun x => fold x =? fold r) s)).
  { rewrite last_rune_where_all by exact Hw. f_equal. apply last_in_ext. intros x Hx. apply bool_eq_iff'.
    rewrite Z.eqb_eq. apply Hc. exact Hx. }
  destruct p; [|exact Hwalk].
  destruct (u =? l) eqn:Eul; [|exact Hwalk].
  (* strcase, caseless code point: byte-wise backward comparison with string(r) *)
  assert (Eu : u = r).
  { assert (Hrr : In r (cands r)) by (apply (Hcands r r Hr); [unfold int32, MaxRune in *; lia|reflexivity]).
    unfold cands_of in Hrr. rewrite Fm, Ul in Hrr. destruct ok.
    - destruct Hrr as [E|[E|[]]]; lia.
    - destruct (Hul_false r u l Ul) as [E _]. exact E. }
  f_equal. change [encode r] with (map encode [r]).
  rewrite last_raw_runes; [|exact Hw|intros y [<-|[]]; split; [exact V|lia]].
  apply last_in_ext. intros x Hx. unfold memb. cbn [existsb]. rewrite orb_false_r. apply bool_eq_iff'.
  rewrite !Z.eqb_eq, <- (Hc x Hx). rewrite orb_true_iff, !Z.eqb_eq. split; [intros ->; left; lia|intros [E|E]; lia].
Qed.

End LR.

(* ---------- needles of one code point ---------- *)

Lemma find_last_single x l k0 : find_last [x] l k0 = last_where (fun y => y =? x) l k0.
Proof.
  revert k0. induction l as [|y l IH]; intros k0; [reflexivity|].
  cbn [find_last last_where prefixb]. rewrite IH, andb_true_r, (Z.eqb_sym x y). reflexivity.
Qed.

Lemma last_where_map (f g : Z -> Z) (P : Z -> bool) l k0 :
  last_where P (map g l) k0 = last_where (fun x => P (g x)) l k0.
Proof. revert k0. induction l as [|y l IH]; intros k0; [reflexivity|]. cbn [map last_where]. rewrite IH. reflexivity. Qed.

Lemma last_index_single fold s sub r :
  key fold sub = [fold r] -> last_index fold s sub = last_in (fun x => fold x =? fold r) s.
Proof.
  intros K. unfold last_index, last_in. rewrite K, find_last_single, key_runes_map.
  rewrite (last_where_map fold fold). reflexivity.
Qed.

Lemma byte_pats_encode c : 0 <= c < 128 -> byte_pats c = map encode (FoldFacts2.ascii_cands c).
Proof.
  intros Hc. unfold byte_pats, FoldFacts2.ascii_cands, is_alpha, lower_ascii.
  destruct (((65 <=? c) && (c <=? 90)) || ((97 <=? c) && (c <=? 122))) eqn:Al; [|cbn [map]; rewrite encode_ascii by lia; reflexivity].
  cbv zeta. set (l := if (65 <=? c) && (c <=? 90) then c + 32 else c).
  assert (Hl : 97 <= l <= 122) by (unfold l; destruct ((65 <=? c) && (c <=? 90)) eqn:U; lia).
  rewrite map_app. cbn [map]. rewrite !encode_ascii by lia. f_equal.
  destruct (l =? 107); [cbn [map]; rewrite encode_kelvin; reflexivity|].
  destruct (l =? 115); [cbn [map]; rewrite encode_long_s; reflexivity|reflexivity].
Qed.

Lemma ascii_cands_valid c y : 0 <= c < 128 -> In y (FoldFacts2.ascii_cands c) -> valid_rune y = true /\ y <> RuneError.
Proof.
  intros Hc. unfold FoldFacts2.ascii_cands.
  destruct (((65 <=? c) && (c <=? 90)) || ((97 <=? c) && (c <=? 122))) eqn:Al.
  - cbv zeta. set (l := if (65 <=? c) && (c <=? 90) then c + 32 else c).
    assert (Hl : 97 <= l <= 122) by (unfold l; destruct ((65 <=? c) && (c <=? 90)) eqn:U; lia).
    intros H. apply in_app_or in H as [[<-|[<-|[]]]|H]; try (unfold valid_rune, MaxRune, RuneError; lia).
    destruct (l =? 107); [destruct H as [<-|[]]; unfold valid_rune, MaxRune, RuneError; lia|].
    destruct (l =? 115); [destruct H as [<-|[]]; unfold valid_rune, MaxRune, RuneError; lia|destruct H].
  - intros [<-|[]]. unfold valid_rune, MaxRune, RuneError. lia.
Qed.

Lemma last_index_byte_last_in s c :
  wf s -> 0 <= c < 128 -> last_index_byte s c = last_in (fun x => memb x (FoldFacts2.ascii_cands c)) s.
Proof.
  intros Hw Hc. unfold last_index_byte. rewrite byte_pats_encode by exact Hc.
  apply last_raw_runes; [exact Hw|]. intros y Hy. apply (ascii_cands_valid c y Hc Hy).
Qed.

(* ---------- LastIndex ---------- *)

Lemma single_rune' c t : snd (decode (c :: t)) = length (c :: t) -> runes (c :: t) = [fst (decode (c :: t))].
Proof. intros E. unfold runes. rewrite segs_cons, E, skipn_all. reflexivity. Qed.

Lemma decode_valid' c t : wf (c :: t) -> valid_rune (fst (decode (c :: t))) = true.
Proof.
  intros Hw. destruct (decode (c :: t)) as [r w] eqn:D. cbn [fst].
  destruct (Z.eq_dec r RuneError) as [->|N]; [reflexivity|].
  assert (Hne : decode (c :: t) <> RE1) by (rewrite D; unfold RE1; intros E; inversion E; contradiction).
  destruct (encode_decode c t Hw Hne) as [_ V]. rewrite D in V. exact V.
Qed.

Section LI.
Variables fold lower : Z -> Z.
Hypothesis FF : fold_facts fold lower.
Hypothesis WF : width_facts fold.
Variable fold_map : Z -> option (list Z).
Variable upper_lower : Z -> Z * Z * bool.
Variable primeRK : Z.
Variable p : pkg.
Hypothesis Hcands : forall r x, 128 <= r <= MaxRune -> int32 x -> (fold x = fold r <-> In x (cands_of fold_map upper_lower r)).
Hypothesis Hascii : forall r x, 0 <= r < 128 -> int32 x -> (fold x = fold r <-> In x (FoldFacts2.ascii_cands r)).
Hypothesis Herr : forall x, int32 x -> (fold x = fold RuneError <-> x = RuneError).
Hypothesis Hfm_self : forall r fs, 128 <= r <= MaxRune -> fold_map r = Some fs -> In r (FoldFacts2.take_nz fs).
Hypothesis Hul_false : forall r u l, upper_lower r = (u, l, false) -> u = r /\ l = r.

Theorem lastindex_refines s sub :
  wf s -> wf sub -> Impl7.LastIndex fold lower fold_map upper_lower primeRK p s sub = Ok (last_index fold s sub).
Proof.
  intros Hws Hwsub. unfold Impl7.LastIndex.
  assert (Hrev : rev_append sub [] = rev sub) by (rewrite rev_append_rev; apply app_nil_r). rewrite Hrev.
  destruct (rev sub) as [|last rest] eqn:Er.
  { assert (sub = []) by (apply (f_equal (@rev Z)) in Er; rewrite rev_involutive in Er; exact Er). subst sub.
    rewrite last_index_empty. reflexivity. }
  assert (Esub : sub = rev rest ++ [last]) by (apply (f_equal (@rev Z)) in Er; rewrite rev_involutive in Er; exact Er).
  assert (Hne : sub <> []) by (rewrite Esub; destruct (rev rest); discriminate).
  destruct sub as [|c t]; [congruence|].
  assert (Hc : 0 <= c < 256) by (inversion Hwsub; assumption).
  pose proof (decode_valid' c t Hwsub) as Vr. pose proof (decode_width_pos c t) as Wp. pose proof (decode_width_le (c :: t)) as Wl.
  pose proof (single_rune' c t) as Hsingle.
  pose proof (decode_single_hi c) as Dhi. pose proof (decode_ascii c t) as Dlo.
  assert (Hlen1 : len (c :: t) = 1 -> t = [] /\ last = c).
  { intros L. destruct t; [|unfold len in L; cbn [length] in L; lia]. split; [reflexivity|].
    destruct (rev rest) as [|x [|y l]]; cbn in Esub; [inversion Esub; reflexivity|inversion Esub|inversion Esub]. }
  set (sb := c :: t) in *.
  assert (Hkey1 : snd (decode sb) = length sb -> key fold sb = [fold (fst (decode sb))]).
  { intros E. rewrite key_runes_map, (Hsingle E). reflexivity. }
  assert (Hint : forall x, In x (runes s) -> int32 x) by (intros x Hx; apply (runes_int32' s x Hws Hx)).
  set (rsz := if last <? 128 then (last, 1) else (fst (decode sb), Z.of_nat (snd (decode sb)))).
  destruct rsz as [r size] eqn:Ersz. unfold rsz in Ersz. clear rsz.
  destruct ((len sb =? 1) && negb (r =? RuneError)) eqn:C1.
  { (* one ASCII byte *)
    destruct (Hlen1 ltac:(lia)) as [Et El]. subst last.
    assert (Ac : c < 128).
    { destruct (Z_lt_le_dec c 128) as [A|A]; [exact A|]. exfalso. replace (c <? 128) with false in Ersz by lia.
      unfold sb in Ersz. rewrite Et, (Dhi A) in Ersz. unfold RE1 in Ersz. cbn [fst] in Ersz. inversion Ersz. lia. }
    unfold sb at 1. cbn [hd]. rewrite (lastindexbyte_refines s c Hws Hc). f_equal.
    rewrite (last_index_byte_last_in s c Hws ltac:(lia)).
    rewrite (last_index_single fold s sb c).
    - apply last_in_ext. intros x Hx. apply bool_eq_iff'. rewrite memb_In, Z.eqb_eq. symmetry. apply Hascii; [lia|apply Hint; exact Hx].
    - rewrite Hkey1; unfold sb; rewrite Et, (decode_ascii c [] Ac); reflexivity. }
  destruct (len sb =? size) eqn:C2.
  { (* one code point that is not an ASCII byte *)
    assert (Hhi : 128 <= last).
    { destruct (Z_lt_le_dec last 128) as [A|A]; [|exact A]. exfalso. replace (last <? 128) with true in Ersz by lia.
      inversion Ersz; subst r size. destruct (Hlen1 ltac:(lia)) as [_ El]. unfold RuneError in C1. lia. }
    replace (last <? 128) with false in Ersz by lia.
    assert (Er' : r = fst (decode sb)) by congruence. assert (Es' : size = Z.of_nat (snd (decode sb))) by congruence. subst r size. clear Ersz.
    assert (Ew : snd (decode sb) = length sb) by (unfold len in C2; lia).
    assert (Hna : ~ (0 <= fst (decode sb) < 128)).
    { intros A. destruct (Z_lt_le_dec c 128) as [Ac|Ac].
      - rewrite (Dlo Ac) in Ew. cbn [snd] in Ew. destruct (Hlen1 ltac:(unfold len; lia)) as [_ El]. lia.
      - pose proof (decode_hi_not_ascii c t Hwsub Ac). fold sb in H. lia. }
    rewrite (lastIndexRune_ok fold fold_map upper_lower Hcands Herr Hfm_self Hul_false p s _ Hws Hna).
    unfold last_index_rune. fold sb in Vr. rewrite Vr. f_equal. symmetry. apply last_index_single. apply Hkey1. exact Ew. }
  destruct ((len s <=? len sb) && ((len s * 3 <? len sb) || ((len s * 2 <? len sb) && negb (contains_kelvin sb)))) eqn:C3.
  { f_equal. symmetry. apply last_index_none. apply (precheck_sound fold WF s sb Hws Hwsub). lia. }
  apply (rabinkarp_rev_refines fold lower FF WF primeRK s sb Hws Hwsub Hne).
Qed.

End LI.

(* ---------- what last_index_byte is ---------- *)

Lemma greatest_or_none (Q : nat -> bool) n :
  (forall p, (p < n)%nat -> Q p = false) \/
  exists p, (p < n)%nat /\ Q p = true /\ forall q, (p < q)%nat -> (q < n)%nat -> Q q = false.
Proof.
  induction n as [|n [IH|(p & Hp & Qp & Hq)]]; [left; intros p Hp; lia| |].
  - destruct (Q n) eqn:E.
    + right. exists n. split; [lia|]. split; [exact E|]. intros q H1 H2. lia.
    + left. intros p Hp. destruct (Nat.eq_dec p n) as [->|]; [exact E|apply IH; lia].
  - destruct (Q n) eqn:E.
    + right. exists n. split; [lia|]. split; [exact E|]. intros q H1 H2. lia.
    + right. exists p. split; [lia|]. split; [exact Qp|]. intros q H1 H2.
      destruct (Nat.eq_dec q n) as [->|]; [exact E|apply Hq; lia].
Qed.

Theorem last_index_byte_spec s c :
  (last_index_byte s c = -1 /\ forall p, (p < length s)%nat -> pat_at (byte_pats c) s p = false) \/
  (exists p, (p < length s)%nat /\ last_index_byte s c = Z.of_nat p /\ pat_at (byte_pats c) s p = true /\
             forall q, (p < q)%nat -> (q < length s)%nat -> pat_at (byte_pats c) s q = false).
Proof.
  unfold last_index_byte.
  destruct (greatest_or_none (pat_at (byte_pats c) s) (length s)) as [H|(p & Hp & Qp & Hq)].
  - left. split; [apply raw_last_absent; exact H|exact H].
  - right. exists p. split; [exact Hp|]. split; [rewrite (raw_last_greatest _ s 0 p); [lia|lia|exact Qp|exact Hp|exact Hq]|].
    split; [exact Qp|exact Hq].
Qed.
