(* EffectFacts.v — the summary checks evaluated on the summary regenerated
   from /repo (coq/gen/Effects.v, coq/gen/AsmStores.v). *)
From Strcase Require Import EffectSem.
From StrcaseGen Require Effects AsmStores.
From Coq Require Import String List Bool ZArith.
Import ListNotations.
Open Scope string_scope.

Definition P : program := Effects.funcs.
Definition roots : list string := Effects.strcase_exported ++ Effects.bytcase_exported.
Definition S : list string := Eval vm_compute in reach P 40 roots.

Lemma alloc_check_ok : summary_check P bad_alloc S roots = true.
Proof. vm_compute. reflexivity. Qed.
Lemma write_check_ok : summary_check P bad_write S roots = true.
Proof. vm_compute. reflexivity. Qed.

Theorem no_alloc_event f tr :
  In f roots -> exec P f tr -> forall e, In e tr -> bad_alloc e = false.
Proof. apply (summary_check_sound P bad_alloc S roots alloc_check_ok). Qed.

Theorem no_nonlocal_write_event f tr :
  In f roots -> exec P f tr -> forall e, In e tr -> bad_write e = false.
Proof. apply (summary_check_sound P bad_write S roots write_check_ok). Qed.

Lemma roots_count : length Effects.strcase_exported = 23%nat /\ length Effects.bytcase_exported = 23%nat.
Proof. vm_compute. auto. Qed.

(* the assembly bodies: every store goes through R8, R8 is only ever loaded
   with the address of the result slot, no CALL, nothing unparsed, and tail
   jumps only to the bodies / Go fallbacks of this package *)
Definition row_class (r : string * (Z * (string * string))) := fst (snd (snd r)).
Definition row_text (r : string * (Z * (string * string))) := snd (snd (snd r)).

Fixpoint ends_with (suffix s : string) : bool :=
  if String.eqb suffix s then true
  else match s with EmptyString => false | String _ s' => ends_with suffix s' end.
Fixpoint starts_with (prefix s : string) : bool :=
  match prefix, s with
  | EmptyString, _ => true
  | String a p', String b s' => Ascii.eqb a b && starts_with p' s'
  | _, _ => false
  end.

Definition asm_row_ok (r : string * (Z * (string * string))) : bool :=
  let c := row_class r in let t := row_text r in
  if String.eqb c "store-mem" then ends_with ", (R8)" t
  else if String.eqb c "set-R8" then starts_with "LEAQ ret+" t && ends_with "(FP), R8" t
  else if String.eqb c "tailcall" then
    mem t ["JMP countbody<>(SB)"; "JMP countbodyCase<>(SB)"; "JMP indexbytebody<>(SB)"; "JMP indexbytebodyCase<>(SB)";
           "JMP indexByteBodyNonASCII<>(SB)"; "JMP ·countGeneric(SB)"; "JMP ·countGenericString(SB)"]
  else false.   (* call, data, unparsed, store-ret outside the frame convention: not accepted *)

Theorem asm_stores_only_result : forallb asm_row_ok AsmStores.asm_rows = true.
Proof. vm_compute. reflexivity. Qed.
