(* Spec.v — the rune-sequence semantics every property text talks about.
   A string is the sequence of code points utf8.DecodeRune yields (each
   ill-formed byte is one U+FFFD of width 1); two code points are equal iff
   [fold] maps them to the same representative; matches begin and end on
   decode boundaries.  Everything is an executable function (extracted and
   run against the implementation by the correspondence check).
   The fold function is a section variable: the definitions and the algebra
   in SpecFacts.v hold for every fold function; the instance used by the
   checks is the CaseFold lookup over the tables regenerated from /repo. *)
From Strcase Require Import Base Utf8.

Section Spec.
Variable fold : Z -> Z.

Definition key (s : bytes) : list Z := map (fun d => fold (fst d)) (segs s).

(* ---------- list-of-keys level ---------- *)

Fixpoint prefixb (p l : list Z) : bool :=
  match p, l with
  | [], _ => true
  | _ :: _, [] => false
  | x :: p', y :: l' => (x =? y) && prefixb p' l'
  end.

Fixpoint list_eqb (a b : list Z) : bool :=
  match a, b with
  | [], [] => true
  | x :: a', y :: b' => (x =? y) && list_eqb a' b'
  | _, _ => false
  end.

(* p is a suffix of l (no list reversal: List.rev is quadratic when extracted) *)
Definition suffixb (p l : list Z) : bool :=
  (length p <=? length l)%nat && list_eqb (skipn (length l - length p) l) p.

(* least k' >= 0 such that p is a prefix of (skipn k' l); result offset by k *)
Fixpoint find_first (p l : list Z) (k : nat) : option nat :=
  if prefixb p l then Some k
  else match l with
       | [] => None
       | _ :: l' => find_first p l' (S k)
       end.

(* greatest such k' *)
Fixpoint find_last (p l : list Z) (k : nat) : option nat :=
  match l with
  | [] => if prefixb p [] then Some k else None
  | _ :: l' =>
    match find_last p l' (S k) with
    | Some r => Some r
    | None => if prefixb p l then Some k else None
    end
  end.

(* greedy non-overlapping count, p non-empty; [skip] = code points still
   covered by the previous match *)
Fixpoint count_aux (p l : list Z) (skip : nat) : nat :=
  match l with
  | [] => 0%nat
  | _ :: l' =>
    match skip with
    | S k => count_aux p l' k
    | O => if prefixb p l then S (count_aux p l' (length p - 1)) else count_aux p l' 0
    end
  end.

Fixpoint lex (a b : list Z) : Z :=
  match a, b with
  | [], [] => 0
  | [], _ :: _ => -1
  | _ :: _, [] => 1
  | x :: a', y :: b' => if x =? y then lex a' b' else clamp (x - y)
  end.

Fixpoint index_where (f : Z -> bool) (l : list Z) (k : nat) : option nat :=
  match l with
  | [] => None
  | x :: l' => if f x then Some k else index_where f l' (S k)
  end.

Fixpoint last_where (f : Z -> bool) (l : list Z) (k : nat) : option nat :=
  match l with
  | [] => None
  | x :: l' =>
    match last_where f l' (S k) with
    | Some r => Some r
    | None => if f x then Some k else None
    end
  end.

Definition memb (x : Z) (l : list Z) : bool := existsb (Z.eqb x) l.

(* ---------- API level ---------- *)

Definition offz (s : bytes) (o : option nat) : Z :=
  match o with Some k => Z.of_nat (off s k) | None => -1 end.

Definition compare (s t : bytes) : Z := lex (key s) (key t).
Definition equal_fold (s t : bytes) : bool := list_eqb (key s) (key t).

Definition index (s sub : bytes) : Z := offz s (find_first (key sub) (key s) 0).
Definition contains (s sub : bytes) : bool := 0 <=? index s sub.
Definition last_index (s sub : bytes) : Z := offz s (find_last (key sub) (key s) 0).

Definition has_prefix (s p : bytes) : bool := prefixb (key p) (key s).
Definition has_suffix (s p : bytes) : bool := suffixb (key p) (key s).

(* sub-slices are (lo, hi) positions in s *)
Definition trim_prefix (s p : bytes) : Z * Z :=
  if has_prefix s p then (Z.of_nat (off s (length (key p))), len s) else (0, len s).
Definition cut_prefix (s p : bytes) : Z * Z * bool :=
  (trim_prefix s p, has_prefix s p).
Definition suffix_cut (s p : bytes) : Z :=
  Z.of_nat (off s (length (key s) - length (key p))).
Definition trim_suffix (s p : bytes) : Z * Z :=
  if has_suffix s p then (0, suffix_cut s p) else (0, len s).
Definition cut_suffix (s p : bytes) : Z * Z * bool :=
  (trim_suffix s p, has_suffix s p).

Definition count (s sub : bytes) : Z :=
  match sub with
  | [] => Z.of_nat (rune_count s) + 1
  | _ => Z.of_nat (count_aux (key sub) (key s) 0)
  end.

(* Cut: (before, after, found); when not found: (s, "", false), the empty
   "after" is reported as (0,0). *)
Definition cut (s sep : bytes) : (Z * Z) * (Z * Z) * bool :=
  match find_first (key sep) (key s) 0 with
  | Some k => ((0, Z.of_nat (off s k)),
               (Z.of_nat (off s (k + length (key sep))), len s), true)
  | None => ((0, len s), (0, 0), false)
  end.

(* r counts as searchable iff it is a valid code point (U+FFFD included) *)
Definition index_rune (s : bytes) (r : Z) : Z :=
  if valid_rune r then offz s (index_where (fun x => x =? fold r) (key s) 0) else -1.
Definition contains_rune (s : bytes) (r : Z) : bool := 0 <=? index_rune s r.

Definition index_any (s chars : bytes) : Z :=
  offz s (index_where (fun x => memb x (key chars)) (key s) 0).
Definition last_index_any (s chars : bytes) : Z :=
  offz s (last_where (fun x => memb x (key chars)) (key s) 0).
Definition contains_any (s chars : bytes) : bool := 0 <=? index_any s chars.

End Spec.

(* ---------- byte-level functions (no folding table involved) ---------- *)

Definition is_alpha (c : Z) : bool :=
  ((65 <=? c) && (c <=? 90)) || ((97 <=? c) && (c <=? 122)).
Definition lower_ascii (c : Z) : Z := if (65 <=? c) && (c <=? 90) then c + 32 else c.

(* the scalar definition of the accelerated byte search: c or, for an ASCII
   letter c, its other case *)
Definition byte_match (c b : Z) : bool :=
  (b =? c) || (is_alpha c && (lower_ascii b =? lower_ascii c) && (b <? 128)).

Fixpoint index_byte_from (f : Z -> bool) (s : bytes) (i : Z) : Z :=
  match s with
  | [] => -1
  | b :: r => if f b then i else index_byte_from f r (i + 1)
  end.

Definition k_index_byte (s : bytes) (c : Z) : Z := index_byte_from (byte_match c) s 0.
Definition k_count (s : bytes) (c : Z) : Z :=
  Z.of_nat (length (filter (byte_match c) s)).
Definition index_non_ascii (s : bytes) : Z := index_byte_from (fun b => 128 <=? b) s 0.
Definition contains_non_ascii (s : bytes) : bool := 0 <=? index_non_ascii s.

Fixpoint starts_with (p s : bytes) : bool :=
  match p, s with
  | [], _ => true
  | _ :: _, [] => false
  | x :: p', y :: s' => (x =? y) && starts_with p' s'
  end.

(* first raw offset at which one of the byte patterns starts *)
Fixpoint raw_index_pats (pats : list bytes) (s : bytes) (i : Z) : Z :=
  match s with
  | [] => -1
  | _ :: r => if existsb (fun p => starts_with p s) pats then i
              else raw_index_pats pats r (i + 1)
  end.
Fixpoint raw_last_index_pats (pats : list bytes) (s : bytes) (i : Z) : Z :=
  match s with
  | [] => -1
  | _ :: r =>
    let l := raw_last_index_pats pats r (i + 1) in
    if 0 <=? l then l
    else if existsb (fun p => starts_with p s) pats then i else -1
  end.

Definition kelvin : bytes := [226; 132; 170].   (* U+212A *)
Definition long_s : bytes := [197; 191].        (* U+017F *)

(* the byte patterns IndexByte / LastIndexByte look for *)
Definition byte_pats (c : Z) : list bytes :=
  if is_alpha c then
    let l := lower_ascii c in
    [[l]; [l - 32]] ++
    (if l =? 107 then [kelvin] else if l =? 115 then [long_s] else [])
  else [[c]].

Definition index_byte (s : bytes) (c : Z) : Z := raw_index_pats (byte_pats c) s 0.
Definition last_index_byte (s : bytes) (c : Z) : Z := raw_last_index_pats (byte_pats c) s 0.
Definition index_byte_ascii (s : bytes) (c : Z) : Z := k_index_byte s c.
