(* IntWidth.v — what "int = Z" in the models rests on, for the one kind of expression where it matters: the
   products len*2 and len*3 of the length-ratio shortcuts.  Lengths are below 2^31 where int has 32 bits and below
   2^63 / 3 anywhere memory can hold the argument.  Computed in int64 the product is exact for every 32-bit
   length; computed in a 32-bit int it is not (the D8 defect): the refutation below is its witness. *)
From Coq Require Import ZArith Lia Bool List.
Import ListNotations.
Open Scope Z_scope.

(* two's-complement wrap-around of a signed integer type of [bits] bits *)
Definition wrap (bits x : Z) : Z :=
  let m := 2 ^ bits in let r := x mod m in if r <? 2 ^ (bits - 1) then r else r - m.

Lemma wrap_exact bits x : 0 < bits -> - 2 ^ (bits - 1) <= x < 2 ^ (bits - 1) -> wrap bits x = x.
Proof.
  intros Hb Hx. unfold wrap. cbv zeta.
  assert (E : 2 ^ bits = 2 * 2 ^ (bits - 1)).
  { replace bits with (1 + (bits - 1)) at 1 by lia. rewrite Z.pow_add_r by lia. reflexivity. }
  assert (P : 0 < 2 ^ (bits - 1)) by (apply Z.pow_pos_nonneg; lia).
  destruct (Z_lt_le_dec x 0) as [N|N].
  - assert (M : x mod 2 ^ bits = x + 2 ^ bits).
    { symmetry. apply (Z.mod_unique _ _ (-1)); lia. }
    rewrite M. destruct (x + 2 ^ bits <? 2 ^ (bits - 1)) eqn:C; lia.
  - rewrite Z.mod_small by lia. destruct (x <? 2 ^ (bits - 1)) eqn:C; lia.
Qed.

(* a length of a 32-bit platform times 2 or 3, computed in int64: exact *)
Theorem product_in_int64_exact n k : 0 <= n < 2 ^ 31 -> (k = 2 \/ k = 3) -> wrap 64 (n * k) = n * k.
Proof.
  intros Hn Hk. apply wrap_exact; [lia|].
  change (2 ^ (64 - 1)) with 9223372036854775808. change (2 ^ 31) with 2147483648 in Hn. destruct Hk; subst k; lia.
Qed.

(* a length of a 64-bit platform (anything below 2^61) times 2 or 3, computed in int: exact *)
Theorem product_in_int_exact_64 n k : 0 <= n < 2 ^ 61 -> (k = 2 \/ k = 3) -> wrap 64 (n * k) = n * k.
Proof.
  intros Hn Hk. apply wrap_exact; [lia|].
  change (2 ^ (64 - 1)) with 9223372036854775808. change (2 ^ 61) with 2305843009213693952 in Hn. destruct Hk; subst k; lia.
Qed.

(* computed in a 32-bit int it is not: "needle longer than three times the haystack" is answered yes for a
   one-byte needle and a haystack of 715 827 883 bytes *)
Theorem product_in_int32_refuted :
  exists n m, 0 <= n < 2 ^ 31 /\ 0 < m < 2 ^ 31 /\ (wrap 32 (n * 3) <? m) = true /\ (n * 3 <? m) = false.
Proof. exists 715827883, 1. vm_compute. repeat split; discriminate. Qed.
