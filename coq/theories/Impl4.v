(* Impl4.v — structure-faithful model, continued: indexRuneCase, the
   case-sensitive rune search every single-character function is built on.
   The Go code searches for the LAST byte of the rune's encoding with
   strings.IndexByte, checks the preceding bytes, counts false positives and
   hands over to bytealg.IndexString (NativeIndex) or a plain loop once
   [fails] exceeds the cut-over.  The model is parameterised by the
   configuration: [native] (bytealg.NativeIndex) and [cutover]
   (bytealg.Cutover, any function: results must not depend on it).
   Callees outside the repository are modelled by their contracts:
   strings.IndexByte = first raw offset of a byte; bytealg.IndexString(s, sub)
   = first raw offset of sub (2 <= len(sub) <= 4 here). *)
From Strcase Require Import Base Utf8 Spec Impl.

Definition get (s : bytes) (i : Z) : res Z :=
  if (0 <=? i) && (i <? len s) then Ok (nth (Z.to_nat i) s 0) else Panic.

(* s[i:] with Go's bounds check *)
Definition slice_from (s : bytes) (i : Z) : res bytes :=
  if (0 <=? i) && (i <=? len s) then Ok (skipn (Z.to_nat i) s) else Panic.

(* strings.IndexByte / bytes.IndexByte *)
Definition std_index_byte (s : bytes) (c : Z) : Z := index_byte_from (fun b => b =? c) s 0.
(* bytealg.IndexString / bytealg.Index / strings.Index on short needles *)
Definition std_index (s sub : bytes) : Z := raw_index_pats [sub] s 0.

(* the runtime's internal/bytealg.Index / IndexString entered through go:linkname from Index's fast path for
   non-letter needles: "Requires 2 <= len(b) <= MaxLen".  [rtmax] is the runtime's MaxLen; outside the contract
   the call is a crash in the model (on amd64 without AVX2, MaxLen = 31, a longer needle runs AVX2 instructions:
   SIGILL), inside it the first occurrence. *)
Definition native_index (rtmax : Z) (s sub : bytes) : res Z :=
  if (2 <=? len sub) && (len sub <=? rtmax) then Ok (std_index s sub) else Panic.

Section Impl4.
Variable native : bool.          (* bytealg.NativeIndex *)
Variable cutover : Z -> Z.       (* bytealg.Cutover *)

(* "for ; i < len(s); i++ { if s[i] == c_last && ... && s[i-(n-1)] == c0 { return i - (n-1) } }" *)
Fixpoint irc_fallback (fuel : nat) (s enc : bytes) (i : Z) : res Z :=
  match fuel with
  | O => OutOfFuel
  | S f =>
    if i <? len s then
      do t <- slice_from s (i - (len enc - 1));
      if starts_with enc t then Ok (i - (len enc - 1)) else irc_fallback f s enc (i + 1)
    else Ok (-1)
  end.

(* the main loop for an n-byte encoding [enc] (n = 2, 3, 4), i starts at n-1 *)
Fixpoint irc_loop (fuel : nat) (s enc : bytes) (i fails : Z) : res Z :=
  match fuel with
  | O => OutOfFuel
  | S f =>
    if i <? len s then
      let n := len enc in
      let cl := last enc 0 in
      do b <- get s i;
      do rest <- slice_from s (i + 1);
      let o := std_index_byte rest cl in
      if negb (b =? cl) && (o <? 0) then Ok (-1)
      else
        let i1 := if b =? cl then i else i + o + 1 in
        do t <- slice_from s (i1 - (n - 1));
        if starts_with (removelast enc) t then Ok (i1 - (n - 1))
        else
          let fails' := fails + 1 in
          let i2 := i1 + 1 in
          if ((native && (cutover i2 <? fails')) || (negb native && (4 + Z.shiftr i2 4 <=? fails'))) && (i2 <? len s)
          then
            if native then
              (* n = 2: s[i:], otherwise s[i-(n-1):] ("we might be in the middle of a rune") *)
              let from := if n =? 2 then i2 else i2 - (n - 1) in
              do t2 <- slice_from s from;
              (* bytealg.IndexString(s[from:], string(r)): the runtime's native Index again; a code point's
                 encoding has 2..4 bytes and the runtime guarantees MaxLen >= 4 wherever it is not 0 *)
              do j <- native_index 4 t2 enc;
              if j =? -1 then Ok (-1) else Ok (from + j)
            else irc_fallback (S (length s)) s enc i2
          else irc_loop f s enc i2 fails'
    else Ok (-1)
  end.

(* range-over-string search for the first ill-formed byte or encoded U+FFFD *)
Fixpoint first_error (s : bytes) (skip : nat) (i : Z) : Z :=
  match s with
  | [] => -1
  | b :: r =>
    match skip with
    | S k => first_error r k (i + 1)
    | O => let d := decode s in
           if fst d =? RuneError then i else first_error r (snd d - 1) (i + 1)
    end
  end.

Definition indexRuneCase (s : bytes) (r : Z) : res Z :=
  if (0 <=? r) && (r <? 128) then Ok (std_index_byte s r)
  else if r =? RuneError then Ok (first_error s 0 0)
  else if negb (valid_rune r) then Ok (-1)
  else let enc := encode r in irc_loop (S (length s)) s enc (len enc - 1) 0.

End Impl4.
