(* FoldFacts121a.v — table facts that do not involve the toolchain oracle:
   the stored CaseFold entries are code points, sit at the slots their hash
   selects, fold to fixed points; _lower of both packages agrees with CaseFold
   on ASCII.  (What Compare / EqualFold need: C04, C07.)  Regenerated data,
   complete enumeration by vm_compute, lifted to all int32. *)
From Strcase Require Import Base Utf8 Fold FoldFacts FoldFacts2 FoldTables Refine_Compare.
From StrcaseGen Require Tables121 Consts.
From Coq Require Import FMapPositive ZifyBool ZifyNat.

Definition fold121 : Z -> Z := case_fold T121.

Lemma range121 : chk_range T121 = true.
Proof. vm_compute. reflexivity. Qed.
Lemma slots121 : chk_slots T121 = true.
Proof. vm_compute. reflexivity. Qed.
Lemma idem121 : chk_idem T121 = true.
Proof. vm_compute. reflexivity. Qed.

Theorem fold121_idempotent r : int32 r -> fold121 (fold121 r) = fold121 r.
Proof. apply (fold_idempotent T121 range121 idem121). Qed.

Theorem fold121_outside r : int32 r -> (r < 0 \/ 1114111 < r) -> fold121 r = r.
Proof. apply (fold_outside_unicode T121 range121). Qed.

Fixpoint zrange (n : nat) : list Z :=
  match n with O => [] | S k => zrange k ++ [Z.of_nat k] end.
Lemma zrange_in n b : 0 <= b < Z.of_nat n -> In b (zrange n).
Proof.
  induction n as [|n IH]; intros H; [lia|]. cbn [zrange]. apply in_or_app.
  destruct (Z.eq_dec b (Z.of_nat n)) as [->|E]; [right; left; reflexivity|left; apply IH; lia].
Qed.

Definition chk_lower (lower : Z -> Z) : bool :=
  forallb (fun b => if b <? 128 then (lower b =? fold121 b) && (lower b <? 128) else lower b =? b) (zrange 256).
Lemma lower_str_ok : chk_lower lower_str = true.
Proof. vm_compute. reflexivity. Qed.
Lemma lower_byt_ok : chk_lower lower_byt = true.
Proof. vm_compute. reflexivity. Qed.

Lemma lower_spec lower b :
  chk_lower lower = true -> 0 <= b < 256 ->
  (b < 128 -> lower b = fold121 b /\ lower b < 128) /\ (128 <= b -> lower b = b).
Proof.
  intros H Hb. unfold chk_lower in H. rewrite forallb_forall in H.
  specialize (H b (zrange_in 256 b ltac:(lia))). destruct (b <? 128) eqn:E; lia.
Qed.

Lemma int32_of_rune r : 0 <= r <= MaxRune -> int32 r.
Proof. exact (FoldFacts2.int32_of_rune r). Qed.

Theorem fold_facts_str : fold_facts fold121 lower_str.
Proof.
  split.
  - intros r Hr. apply fold121_idempotent. apply int32_of_rune. exact Hr.
  - intros b Hb. apply (lower_spec lower_str b lower_str_ok); lia.
Qed.

Theorem fold_facts_byt : fold_facts fold121 lower_byt.
Proof.
  split.
  - intros r Hr. apply fold121_idempotent. apply int32_of_rune. exact Hr.
  - intros b Hb. apply (lower_spec lower_byt b lower_byt_ok); lia.
Qed.

(* on ASCII, CaseFold is ASCII lower-casing *)
Lemma fold_ascii_chk : forallb (fun b => fold121 b =? Spec.lower_ascii b) (zrange 128) = true.
Proof. vm_compute. reflexivity. Qed.
Lemma fold_ascii b : 0 <= b < 128 -> fold121 b = Spec.lower_ascii b.
Proof.
  intros H. pose proof fold_ascii_chk as C. rewrite forallb_forall in C.
  specialize (C b (zrange_in 128 b ltac:(lia))). lia.
Qed.

Definition lower_pkg (p : Impl.pkg) : Z -> Z :=
  match p with Impl.Str => lower_str | Impl.Byt => lower_byt end.
Lemma fold_facts_pkg p : fold_facts fold121 (lower_pkg p).
Proof. destruct p; [apply fold_facts_str|apply fold_facts_byt]. Qed.

