(* Sha256.v — SHA-256 (FIPS 180-4) over byte lists, in Gallina, used by C03
   to re-compute the recorded case_fold_hash of each shipped table file.
   Validated by the FIPS test vectors below (Examples, vm_compute). *)
From Coq Require Import ZArith List.
Import ListNotations.
Open Scope Z_scope.

Definition m32 : Z := 4294967296.
Definition w32 (x : Z) : Z := x mod m32.
Definition rotr (n x : Z) : Z := Z.lor (Z.shiftr x n) (w32 (Z.shiftl x (32 - n))).
Definition shr (n x : Z) : Z := Z.shiftr x n.
Definition not32 (x : Z) : Z := m32 - 1 - x.

Definition ch (x y z : Z) : Z := Z.lxor (Z.land x y) (Z.land (not32 x) z).
Definition maj (x y z : Z) : Z := Z.lxor (Z.lxor (Z.land x y) (Z.land x z)) (Z.land y z).
Definition bsig0 (x : Z) : Z := Z.lxor (Z.lxor (rotr 2 x) (rotr 13 x)) (rotr 22 x).
Definition bsig1 (x : Z) : Z := Z.lxor (Z.lxor (rotr 6 x) (rotr 11 x)) (rotr 25 x).
Definition ssig0 (x : Z) : Z := Z.lxor (Z.lxor (rotr 7 x) (rotr 18 x)) (shr 3 x).
Definition ssig1 (x : Z) : Z := Z.lxor (Z.lxor (rotr 17 x) (rotr 19 x)) (shr 10 x).

Definition K256 : list Z := [
  0x428a2f98; 0x71374491; 0xb5c0fbcf; 0xe9b5dba5; 0x3956c25b; 0x59f111f1; 0x923f82a4; 0xab1c5ed5;
  0xd807aa98; 0x12835b01; 0x243185be; 0x550c7dc3; 0x72be5d74; 0x80deb1fe; 0x9bdc06a7; 0xc19bf174;
  0xe49b69c1; 0xefbe4786; 0x0fc19dc6; 0x240ca1cc; 0x2de92c6f; 0x4a7484aa; 0x5cb0a9dc; 0x76f988da;
  0x983e5152; 0xa831c66d; 0xb00327c8; 0xbf597fc7; 0xc6e00bf3; 0xd5a79147; 0x06ca6351; 0x14292967;
  0x27b70a85; 0x2e1b2138; 0x4d2c6dfc; 0x53380d13; 0x650a7354; 0x766a0abb; 0x81c2c92e; 0x92722c85;
  0xa2bfe8a1; 0xa81a664b; 0xc24b8b70; 0xc76c51a3; 0xd192e819; 0xd6990624; 0xf40e3585; 0x106aa070;
  0x19a4c116; 0x1e376c08; 0x2748774c; 0x34b0bcb5; 0x391c0cb3; 0x4ed8aa4a; 0x5b9cca4f; 0x682e6ff3;
  0x748f82ee; 0x78a5636f; 0x84c87814; 0x8cc70208; 0x90befffa; 0xa4506ceb; 0xbef9a3f7; 0xc67178f2].

Definition H0 : list Z := [
  0x6a09e667; 0xbb67ae85; 0x3c6ef372; 0xa54ff53a; 0x510e527f; 0x9b05688c; 0x1f83d9ab; 0x5be0cd19].

(* message schedule: window of the last 16 words, oldest first *)
Fixpoint sched (n : nat) (win : list Z) : list Z :=
  match n with
  | O => []
  | S n' =>
    let w := w32 (ssig1 (nth 14 win 0) + nth 9 win 0 + ssig0 (nth 1 win 0) + nth 0 win 0) in
    w :: sched n' (tl win ++ [w])
  end.

Definition round (st : list Z) (kw : Z * Z) : list Z :=
  match st with
  | [a; b; c; d; e; f; g; h] =>
    let t1 := h + bsig1 e + ch e f g + fst kw + snd kw in
    let t2 := bsig0 a + maj a b c in
    [w32 (t1 + t2); a; b; c; w32 (d + t1); e; f; g]
  | _ => st
  end.

Fixpoint words_be (bs : list Z) : list Z :=
  match bs with
  | b0 :: b1 :: b2 :: b3 :: r => (((b0 * 256 + b1) * 256 + b2) * 256 + b3) :: words_be r
  | _ => []
  end.

Definition block (h : list Z) (blk : list Z) : list Z :=
  let w16 := words_be blk in
  let w := w16 ++ sched 48 w16 in
  let st := fold_left round (combine K256 w) h in
  map (fun p => w32 (fst p + snd p)) (combine h st).

Fixpoint blocks (fuel : nat) (h : list Z) (bs : list Z) : list Z :=
  match fuel with
  | O => h
  | S f =>
    match bs with
    | [] => h
    | _ => blocks f (block h (firstn 64 bs)) (skipn 64 bs)
    end
  end.

Definition be64 (n : Z) : list Z :=
  map (fun k => (n / 2 ^ (8 * k)) mod 256) [7; 6; 5; 4; 3; 2; 1; 0].

Definition pad (msg : list Z) : list Z :=
  let l := Z.of_nat (length msg) in
  let k := (55 - l) mod 64 in
  msg ++ [128] ++ repeat 0 (Z.to_nat k) ++ be64 (8 * l).

Definition word_bytes (w : Z) : list Z :=
  [(w / 16777216) mod 256; (w / 65536) mod 256; (w / 256) mod 256; w mod 256].

Definition sha256 (msg : list Z) : list Z :=
  let p := pad msg in
  flat_map word_bytes (blocks (S (length p / 64)) H0 p).

(* FIPS 180-4 / NIST examples *)
Example sha256_empty : sha256 [] =
  [0xe3;0xb0;0xc4;0x42;0x98;0xfc;0x1c;0x14;0x9a;0xfb;0xf4;0xc8;0x99;0x6f;0xb9;0x24;
   0x27;0xae;0x41;0xe4;0x64;0x9b;0x93;0x4c;0xa4;0x95;0x99;0x1b;0x78;0x52;0xb8;0x55].
Proof. vm_compute. reflexivity. Qed.

Example sha256_abc : sha256 [97; 98; 99] =
  [0xba;0x78;0x16;0xbf;0x8f;0x01;0xcf;0xea;0x41;0x41;0x40;0xde;0x5d;0xae;0x22;0x23;
   0xb0;0x03;0x61;0xa3;0x96;0x17;0x7a;0x9c;0xb4;0x10;0xff;0x61;0xf2;0x00;0x15;0xad].
Proof. vm_compute. reflexivity. Qed.

(* "abcdbcdecdefdefgefghfghighijhijkijkljklmklmnlmnomnopnopq" (two blocks) *)
Example sha256_two_blocks :
  sha256 [97;98;99;100;98;99;100;101;99;100;101;102;100;101;102;103;101;102;103;104;102;103;104;105;
          103;104;105;106;104;105;106;107;105;106;107;108;106;107;108;109;107;108;109;110;108;109;110;111;
          109;110;111;112;110;111;112;113] =
  [0x24;0x8d;0x6a;0x61;0xd2;0x06;0x38;0xb8;0xe5;0xc0;0x26;0x93;0x0c;0x3e;0x60;0x39;
   0xa3;0x3c;0xe4;0x59;0x64;0xff;0x21;0x67;0xf6;0xec;0xed;0xd4;0x19;0xdb;0x06;0xc1].
Proof. vm_compute. reflexivity. Qed.
