(* Refine_Suffix.v — Impl2.hasSuffixUnicode / HasSuffix / TrimSuffix /
   CutSuffix refine Spec on all well-formed byte lists.  Rests on
   Utf8Last.decode_last_rev_spec (DecodeLastRune yields the last segment of
   the forward segmentation). *)
From Strcase Require Import Base Utf8 Utf8Facts Utf8Last Spec SpecFacts SpecIndex SpecAffix Impl Impl2
  Refine_Compare Refine_Prefix.
From Coq Require Import ZifyBool ZifyNat.

Lemma wf_rev s : wf s -> wf (rev s).
Proof. unfold wf. apply Forall_rev. Qed.

Lemma prefixb_rev_suffixb p l : suffixb p l = prefixb (rev p) (rev l).
Proof.
  destruct (suffixb p l) eqn:S; destruct (prefixb (rev p) (rev l)) eqn:P; try reflexivity.
  - apply suffixb_spec in S as [q ->]. rewrite rev_app_distr, prefixb_app in P. discriminate.
  - apply prefixb_spec in P as [r E]. apply (f_equal (@rev Z)) in E.
    rewrite rev_involutive, rev_app_distr, rev_involutive in E.
    assert (suffixb p l = true) by (apply suffixb_spec; eexists; exact E). congruence.
Qed.

Section Refine.
Variables fold lower : Z -> Z.
Hypothesis FF : fold_facts fold lower.
Hypothesis WF : width_facts fold.

Notation key := (key fold).

(* key of the string whose reversal is rs, last code point first *)
Definition rkey (rs : bytes) : list Z := rev (key (rev rs)).
(* len(s) after dropping the last k code points *)
Definition roff (rs : bytes) (k : nat) : nat := off (rev rs) (rune_count (rev rs) - k).

Lemma rkey_nil : rkey [] = [].
Proof. reflexivity. Qed.

Lemma rkey_length rs : length (rkey rs) = rune_count (rev rs).
Proof. unfold rkey. rewrite rev_length. apply key_length. Qed.

Lemma roff_0 rs : roff rs 0 = length rs.
Proof. unfold roff. rewrite Nat.sub_0_r, off_all by lia. apply rev_length. Qed.

Lemma rstep rs :
  rs <> [] ->
  let d := decode_last_rev rs in
  rkey rs = fold (fst d) :: rkey (skipn (snd d) rs) /\
  (forall k, roff rs (S k) = roff (skipn (snd d) rs) k) /\
  (length (skipn (snd d) rs) < length rs)%nat.
Proof.
  intros Hne. cbv zeta. destruct (decode_last_rev_spec rs Hne) as (W & L & Sg). cbv zeta in *.
  set (d := decode_last_rev rs) in *. set (s0 := rev (skipn (snd d) rs)) in *.
  split; [|split].
  - unfold rkey. fold s0. unfold Spec.key. rewrite Sg, map_app, rev_app_distr. reflexivity.
  - intros k. unfold roff. fold s0.
    assert (RC : rune_count (rev rs) = S (rune_count s0)).
    { unfold rune_count. rewrite Sg, app_length. cbn [length]. lia. }
    rewrite RC. replace (S (rune_count s0) - S k)%nat with (rune_count s0 - k)%nat by lia.
    unfold off, widths. rewrite Sg, map_app. rewrite firstn_app.
    replace (rune_count s0 - k - length (map snd (segs s0)))%nat with 0%nat
      by (rewrite map_length; unfold rune_count; lia).
    cbn [firstn]. rewrite app_nil_r. reflexivity.
  - rewrite skipn_length. lia.
Qed.

Lemma decode_last_rev_ascii b r : b < 128 -> decode_last_rev (b :: r) = (b, 1%nat).
Proof. intros H. unfold decode_last_rev. destruct (b <? 128) eqn:E; [reflexivity|lia]. Qed.

Lemma prev_raw_key b r :
  wf (b :: r) ->
  exists k rest, prev_raw lower (b :: r) = (k, rest) /\
    rkey (b :: r) = fold k :: rkey rest /\
    (forall j, roff (b :: r) (S j) = roff rest j) /\
    (length rest < length (b :: r))%nat /\ wf rest.
Proof.
  intros Hwf. assert (Hb : 0 <= b < 256) by (inversion Hwf; assumption).
  assert (Hne : b :: r <> []) by discriminate.
  destruct (rstep (b :: r) Hne) as (K & R & L). cbv zeta in *.
  unfold prev_raw. destruct (b <? 128) eqn:E.
  - rewrite decode_last_rev_ascii in * by lia. cbn [fst snd skipn] in *.
    exists (lower b), r. rewrite (ff_lower _ _ FF) by lia.
    rewrite (ff_idem _ _ FF) by (unfold MaxRune; lia).
    repeat split; try assumption. apply (wf_skipn 1 (b :: r)). exact Hwf.
  - eexists _, _. split; [reflexivity|]. repeat split; try assumption. apply wf_skipn. exact Hwf.
Qed.

(* result shape shared by the loops of hasSuffixUnicode *)
Definition hs_post (rs rt : bytes) (r : res (bool * Z)) : Prop :=
  exists n, r = Ok (prefixb (rkey rt) (rkey rs), n) /\
    (prefixb (rkey rt) (rkey rs) = true -> n = Z.of_nat (roff rs (length (rkey rt)))).

Lemma rkey_nonempty b r : rkey (b :: r) <> [].
Proof.
  intros E. apply (f_equal (@length Z)) in E. rewrite rkey_length in E. cbn [rev length] in E.
  unfold rune_count in E. destruct (rev r ++ [b]) eqn:X; [destruct (rev r); discriminate|].
  rewrite segs_cons in E. discriminate.
Qed.

Lemma hs_runes_ok fuel rs rt :
  wf rs -> wf rt -> (length rs < fuel)%nat -> hs_post rs rt (hs_runes fold lower fuel rs rt).
Proof.
  revert rs rt. induction fuel as [|f IH]; intros rs rt Hs Ht Hf; [lia|].
  unfold hs_post. cbn [hs_runes]. destruct rs as [|b r].
  { exists (len []). rewrite rkey_nil. destruct rt as [|c t].
    - split; [reflexivity|]. intros _. rewrite rkey_nil. cbn [length]. rewrite roff_0. reflexivity.
    - pose proof (rkey_nonempty c t). destruct (rkey (c :: t)); [congruence|]. split; [reflexivity|discriminate]. }
  destruct rt as [|c t].
  { exists (len (b :: r)). rewrite rkey_nil. cbn [prefixb is_nil]. split; [reflexivity|].
    intros _. cbn [length]. rewrite roff_0. reflexivity. }
  destruct (prev_raw_key b r Hs) as (k & rest & E & K & R & L & W1). rewrite E.
  destruct (prev_raw_key c t Ht) as (k2 & rest2 & E2 & K2 & R2 & L2 & W2). rewrite E2.
  rewrite K, K2. cbn [prefixb length]. rewrite (eqb_or_fold fold).
  rewrite (Z.eqb_sym (fold k) (fold k2)). destruct (fold k2 =? fold k) eqn:Q; cbn [andb].
  - destruct (IH rest rest2 W1 W2 ltac:(cbn [length] in *; lia)) as (n & E3 & P3).
    exists n. split; [exact E3|]. intros Hm. rewrite (P3 Hm), R. reflexivity.
  - exists 0. split; [reflexivity|discriminate].
Qed.

Lemma hs_ascii_ok rs rt :
  wf rs -> wf rt -> hs_post rs rt (hs_ascii fold lower rs rt).
Proof.
  revert rt. induction rs as [|b r IH]; intros rt Hs Ht; unfold hs_post.
  - cbn [hs_ascii]. exists (len []). rewrite rkey_nil. destruct rt as [|c t].
    + split; [reflexivity|]. intros _. rewrite rkey_nil. cbn [length]. rewrite roff_0. reflexivity.
    + pose proof (rkey_nonempty c t). destruct (rkey (c :: t)); [congruence|]. split; [reflexivity|discriminate].
  - destruct rt as [|c t].
    + cbn [hs_ascii]. exists (len (b :: r)). rewrite rkey_nil. cbn [prefixb is_nil]. split; [reflexivity|].
      intros _. cbn [length]. rewrite roff_0. reflexivity.
    + cbn [hs_ascii].
      apply wf_cons_inv in Hs as Hs'. destruct Hs' as [Hb Hs'].
      apply wf_cons_inv in Ht as Ht'. destruct Ht' as [Hc Ht'].
      unfold non_ascii2. destruct ((128 <=? b) || (128 <=? c)) eqn:E.
      * apply hs_runes_ok; try assumption. lia.
      * destruct (rstep (b :: r) ltac:(discriminate)) as (K & R & _).
        destruct (rstep (c :: t) ltac:(discriminate)) as (K2 & _ & _). cbv zeta in *.
        rewrite decode_last_rev_ascii in * by lia. cbn [fst snd skipn] in *.
        rewrite K, K2. cbn [prefixb length].
        rewrite !(ff_lower _ _ FF) by lia. rewrite (Z.eqb_sym (fold b) (fold c)).
        rewrite (eqb_or_fold fold). destruct (fold c =? fold b) eqn:Q; cbn [andb].
        -- destruct (IH t Hs' Ht') as (n & E2 & P2). exists n. split; [exact E2|].
           intros Hm. rewrite (P2 Hm), R. reflexivity.
        -- exists 0. split; [reflexivity|discriminate].
Qed.

Lemma suffix_len_bound p s :
  wf p -> wf s -> suffixb (key p) (key s) = true ->
  len p <= 3 * len s /\ (has_wide p = false -> len p <= 2 * len s).
Proof.
  intros Hp Hs H. apply suffixb_spec in H as [q E].
  set (s' := skipn (off s (length q)) s).
  assert (K : key s' = key p).
  { unfold s', Spec.key. rewrite segs_skipn_off, <- skipn_map. fold (key s). rewrite E.
    rewrite skipn_app, skipn_all, Nat.sub_diag. reflexivity. }
  assert (M : prefixb (key p) (key s') = true) by (rewrite K; apply prefixb_refl).
  destruct (prefix_len_bound fold WF p s' Hp (wf_skipn _ _ Hs) M) as [B3 B2].
  assert (L : len s' <= len s) by (unfold s', len; rewrite skipn_length; lia).
  split; [lia|]. intros NW. specialize (B2 NW). lia.
Qed.

Lemma rkey_rev s : rkey (rev s) = rev (key s).
Proof. unfold rkey. rewrite rev_involutive. reflexivity. Qed.

Lemma roff_rev s k : roff (rev s) k = off s (rune_count s - k).
Proof. unfold roff. rewrite rev_involutive. reflexivity. Qed.

(* hasSuffixUnicode: the match flag is Spec.has_suffix and, on a match, the
   index is the cut point *)
Theorem hasSuffixUnicode_ok s suffix :
  wf s -> wf suffix ->
  exists n, hasSuffixUnicode fold lower s suffix = Ok (has_suffix fold s suffix, n) /\
    (has_suffix fold s suffix = true -> n = suffix_cut fold s suffix).
Proof.
  intros Hs Hp. unfold hasSuffixUnicode, has_suffix, suffix_cut.
  destruct suffix as [|c t].
  { cbn [is_nil]. exists (len s). rewrite key_nil, suffixb_nil. split; [reflexivity|].
    intros _. cbn [length]. rewrite Nat.sub_0_r, off_all by (rewrite (key_length fold); lia). reflexivity. }
  cbn [is_nil].
  destruct ((len s * 3 <? len (c :: t)) || ((len s * 2 <? len (c :: t)) && negb (contains_kelvin (c :: t)))) eqn:C.
  - exists 0. destruct (suffixb (key (c :: t)) (key s)) eqn:M; [exfalso|split; [reflexivity|discriminate]].
    destruct (suffix_len_bound _ _ Hp Hs M) as [B3 B2].
    apply orb_true_iff in C as [C|C]; [lia|]. apply andb_true_iff in C as [C1 C2].
    destruct (has_wide (c :: t)) eqn:W.
    + rewrite (has_wide_contains_kelvin _ Hp W) in C2. discriminate.
    + specialize (B2 eq_refl). lia.
  - rewrite <- !rev_alt.
    destruct (hs_ascii_ok (rev s) (rev (c :: t)) (wf_rev _ Hs) (wf_rev _ Hp)) as (n & E & P).
    rewrite !rkey_rev, <- prefixb_rev_suffixb in E, P. exists n. split; [exact E|].
    intros Hm. rewrite (P Hm), rev_length, roff_rev, !(key_length fold). reflexivity.
Qed.

Theorem hassuffix_refines s suffix :
  wf s -> wf suffix -> HasSuffix fold lower s suffix = Ok (has_suffix fold s suffix).
Proof.
  intros Hs Hp. unfold HasSuffix. destruct (hasSuffixUnicode_ok s suffix Hs Hp) as (n & E & _).
  rewrite E. reflexivity.
Qed.

Lemma suffix_cut_range s p : 0 <= suffix_cut fold s p <= len s.
Proof. unfold suffix_cut, len. pose proof (off_le s (length (key s) - length (key p))). lia. Qed.

Theorem trimsuffix_refines s suffix :
  wf s -> wf suffix -> TrimSuffix fold lower s suffix = Ok (trim_suffix fold s suffix).
Proof.
  intros Hs Hp. unfold TrimSuffix, trim_suffix. destruct (hasSuffixUnicode_ok s suffix Hs Hp) as (n & E & P).
  rewrite E. cbn [bind fst snd]. destruct (has_suffix fold s suffix); [|reflexivity].
  rewrite (P eq_refl). pose proof (suffix_cut_range s suffix).
  replace ((0 <=? suffix_cut fold s suffix) && (suffix_cut fold s suffix <=? len s)) with true by lia. reflexivity.
Qed.

Theorem cutsuffix_refines s suffix :
  wf s -> wf suffix -> CutSuffix fold lower s suffix = Ok (cut_suffix fold s suffix).
Proof.
  intros Hs Hp. unfold CutSuffix, cut_suffix, trim_suffix. destruct suffix as [|c t].
  - cbn [is_nil]. unfold has_suffix, suffix_cut. rewrite key_nil, suffixb_nil. cbn [length].
    rewrite Nat.sub_0_r, off_all by (rewrite (key_length fold); lia). reflexivity.
  - cbn [is_nil]. destruct (hasSuffixUnicode_ok s (c :: t) Hs Hp) as (n & E & P).
    rewrite E. cbn [bind fst snd]. destruct (has_suffix fold s (c :: t)); [|reflexivity].
    rewrite (P eq_refl). pose proof (suffix_cut_range s (c :: t)).
    replace ((0 <=? suffix_cut fold s (c :: t)) && (suffix_cut fold s (c :: t) <=? len s)) with true by lia. reflexivity.
Qed.

End Refine.
