(* Safety.v — totality / range facts (C06) and package parity (C07). *)
From Strcase Require Import Base Utf8 Utf8Facts Spec SpecFacts SpecIndex SpecAffix SpecChars Impl Refine_Compare Fold FoldFacts FoldTables FoldFacts121a.
From StrcaseGen Require Exports.
From Coq Require Import ZifyBool ZifyNat.

Theorem compare_total p s t : wf s -> wf t ->
  exists v, Compare fold121 (lower_pkg p) p s t = Ok v /\ (v = -1 \/ v = 0 \/ v = 1).
Proof.
  intros Hs Ht. exists (compare fold121 s t). split.
  - apply (compare_refines fold121 (lower_pkg p) (fold_facts_pkg p)); assumption.
  - apply compare_range.
Qed.

Theorem equalfold_total p s t : wf s -> wf t ->
  exists v, EqualFold fold121 (lower_pkg p) p s t = Ok v.
Proof.
  intros Hs Ht. eexists. apply (equalfold_refines fold121 (lower_pkg p) (fold_facts_pkg p)); assumption.
Qed.

Theorem compare_parity s t : wf s -> wf t ->
  Compare fold121 lower_str Str s t = Compare fold121 lower_byt Byt s t.
Proof.
  intros Hs Ht. rewrite (compare_refines fold121 lower_str fold_facts_str) by assumption.
  rewrite (compare_refines fold121 lower_byt fold_facts_byt) by assumption. reflexivity.
Qed.

Theorem equalfold_parity s t : wf s -> wf t ->
  EqualFold fold121 lower_str Str s t = EqualFold fold121 lower_byt Byt s t.
Proof.
  intros Hs Ht. rewrite (equalfold_refines fold121 lower_str fold_facts_str) by assumption.
  rewrite (equalfold_refines fold121 lower_byt fold_facts_byt) by assumption. reflexivity.
Qed.

Lemma lower_tables_chk : forallb (fun b => lower_str b =? lower_byt b) (zrange 256) = true.
Proof. vm_compute. reflexivity. Qed.
Theorem lower_tables_equal b : 0 <= b < 256 -> lower_str b = lower_byt b.
Proof.
  intros H. pose proof lower_tables_chk as C. rewrite forallb_forall in C.
  specialize (C b (zrange_in 256 b ltac:(lia))). lia.
Qed.

Theorem exports_equal : Exports.strcase_funcs = Exports.bytcase_funcs.
Proof. vm_compute. reflexivity. Qed.
Theorem exports_count : length Exports.strcase_funcs = 23%nat.
Proof. vm_compute. reflexivity. Qed.

(* ---- ranges ---- *)

Lemma offz_range s o : -1 <= offz s o <= len s.
Proof. destruct o as [k|]; cbn [offz]; unfold len; [pose proof (off_le s k)|]; lia. Qed.

Theorem any_ranges s c :
  -1 <= index_any fold121 s c <= len s /\ -1 <= last_index_any fold121 s c <= len s.
Proof. split; apply offz_range. Qed.

Lemma index_byte_from_range f s i0 :
  0 <= i0 -> index_byte_from f s i0 = -1 \/ i0 <= index_byte_from f s i0 < i0 + len s.
Proof.
  revert i0. induction s as [|b s IH]; intros i0 H; cbn [index_byte_from]; [left; reflexivity|].
  unfold len in *. cbn [length]. destruct (f b); [right; lia|].
  destruct (IH (i0 + 1) ltac:(lia)) as [E|E]; [left; exact E|right; lia].
Qed.

Lemma raw_index_range pats s i0 :
  0 <= i0 -> raw_index_pats pats s i0 = -1 \/ i0 <= raw_index_pats pats s i0 < i0 + len s.
Proof.
  revert i0. induction s as [|b s IH]; intros i0 H; cbn [raw_index_pats]; [left; reflexivity|].
  unfold len in *. cbn [length]. destruct (existsb _ pats); [right; lia|].
  destruct (IH (i0 + 1) ltac:(lia)) as [E|E]; [left; exact E|right; lia].
Qed.

Lemma raw_last_index_range pats s i0 :
  0 <= i0 -> raw_last_index_pats pats s i0 = -1 \/ i0 <= raw_last_index_pats pats s i0 < i0 + len s.
Proof.
  revert i0. induction s as [|b s IH]; intros i0 H; cbn [raw_last_index_pats]; [left; reflexivity|].
  unfold len in *. cbn [length].
  destruct (IH (i0 + 1) ltac:(lia)) as [E|E].
  - rewrite E. cbn. destruct (existsb _ pats); [right; lia|left; reflexivity].
  - destruct (0 <=? raw_last_index_pats pats s (i0 + 1)) eqn:Z0; [right; lia|lia].
Qed.

Theorem byte_ranges s c :
  -1 <= index_byte s c <= len s /\ -1 <= last_index_byte s c <= len s /\
  -1 <= index_byte_ascii s c <= len s /\ -1 <= index_non_ascii s <= len s.
Proof.
  unfold index_byte, last_index_byte, index_byte_ascii, k_index_byte, index_non_ascii.
  pose proof (raw_index_range (byte_pats c) s 0 ltac:(lia)).
  pose proof (raw_last_index_range (byte_pats c) s 0 ltac:(lia)).
  pose proof (index_byte_from_range (byte_match c) s 0 ltac:(lia)).
  pose proof (index_byte_from_range (fun b => 128 <=? b) s 0 ltac:(lia)).
  pose proof (len_nonneg s). lia.
Qed.

Definition slice_ok (s : bytes) (r : Z * Z) : Prop := 0 <= fst r <= snd r /\ snd r <= len s.

Theorem slices_in_range s t :
  slice_ok s (trim_prefix fold121 s t) /\ slice_ok s (trim_suffix fold121 s t) /\
  slice_ok s (fst (fst (cut fold121 s t))) /\ slice_ok s (snd (fst (cut fold121 s t))).
Proof.
  unfold slice_ok, trim_prefix, trim_suffix, suffix_cut, cut, len.
  pose proof (len_nonneg s) as L. unfold len in L.
  destruct (has_prefix fold121 s t); destruct (has_suffix fold121 s t);
    destruct (find_first (key fold121 t) (key fold121 s) 0) as [k|] eqn:F; cbn [fst snd];
    repeat match goal with |- context [off s ?k] => pose proof (off_le s k); generalize dependent (off s k); intros end;
    try (apply find_first_some in F as (d & -> & _)); try lia.
  all: repeat split; try lia.
  all: try (pose proof (off_mono s (0 + d) (0 + d + length (key fold121 t)) ltac:(lia)); lia).
Qed.
