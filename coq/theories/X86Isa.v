(* X86Isa.v — the kernels never execute an instruction of a CPU feature whose flag is false.

   The machine model of X86.v executes VPCMPEQB or POPCNT whatever the feature flags say (as a processor that has
   the features does); a processor without AVX2 / POPCNT raises #UD instead.  [run_strict] is the machine that
   faults there.  The theorem: from the entry points of the translated kernels, whatever the arguments, registers,
   memory and fuel, the strict machine and the permissive one do the same thing — so every kernel theorem
   (X86NonASCII, X86IndexByte, X86Count) is also a theorem about a processor lacking the features.

   Proof: a small abstract interpretation of the instruction list.  The abstract state is a program counter and
   what is known about the flags: nothing, "set by CMPB HasAVX2, $1", "set by CMPB HasPOPCNT, $1".  A conditional
   jump taken on known flags has one successor, any other instruction forgets.  A set of abstract states that is
   closed under the abstract successor and contains no forbidden instruction is an invariant of the concrete run
   (one-step simulation, generic in the program); the set is computed and checked by evaluation per program. *)
From Coq Require Import List ZArith Lia Bool Arith.
From Strcase Require Import Base X86 X86Facts X86Erase.
Import ListNotations.
Open Scope Z_scope.

Definition needs_avx (i : instr) : bool :=
  match i with
  | VLOAD w _ _ | VAND w _ _ _ | VOR w _ _ _ | VCMPEQB w _ _ _ | VMOVMSKB w _ _ => Nat.eqb w 32
  | VPTEST _ _ | VBROADCASTB _ _ | VZEROUPPER => true
  | _ => false
  end.
Definition needs_popcnt (i : instr) : bool := match i with POPCNTL _ _ | POPCNTQ _ _ => true | _ => false end.

Inductive know := KU | KA | KP.
Definition know_eqb (a b : know) : bool := match a, b with KU, KU | KA, KA | KP, KP => true | _, _ => false end.
Definition astate := (nat * know)%type.
Definition aeqb (a b : astate) : bool := Nat.eqb (fst a) (fst b) && know_eqb (snd a) (snd b).

Lemma aeqb_eq a b : aeqb a b = true -> a = b.
Proof.
  destruct a as [p k], b as [q l]. unfold aeqb. cbn [fst snd]. intros H. apply andb_true_iff in H as [H1 H2].
  apply Nat.eqb_eq in H1. subst q. destruct k, l; try discriminate; reflexivity.
Qed.

Lemma existsb_aeqb_In a l : existsb (aeqb a) l = true -> In a l.
Proof. intros H. apply existsb_exists in H as (b & Hb & E). apply aeqb_eq in E. subst b. exact Hb. Qed.

Section Isa.
Variables (A : Z) (s : list Z) (junk : Z -> Z) (slot : Z) (avx2 popcnt : bool) (c : Z) (prog : list instr).
Notation step := (X86.step A s junk slot avx2 popcnt c).
Notation run := (X86.run A s junk slot avx2 popcnt c prog).

Definition forbidden (i : instr) : bool := (negb avx2 && needs_avx i) || (negb popcnt && needs_popcnt i).

(* the processor that lacks the features whose flags are false *)
Fixpoint run_strict (fuel : nat) (pc : nat) (st0 : st) : outcome :=
  match fuel with
  | O => Running pc st0
  | S f =>
    match nth_error prog pc with
    | None => Fault
    | Some i =>
      if forbidden i then Fault
      else match step pc i st0 with Running pc' st1 => run_strict f pc' st1 | o => o end
    end
  end.

Definition kflags (k : know) : option flags :=
  match k with
  | KU => None
  | KA => Some (cmp_flags (if avx2 then 1 else 0) 1 (fun v => v))
  | KP => Some (cmp_flags (if popcnt then 1 else 0) 1 (fun v => v))
  end.
Definition conc (k : know) (st0 : st) : Prop := match kflags k with Some f => fl st0 = f | None => True end.

Definition asucc (pc : nat) (k : know) (i : instr) : list astate :=
  match i with
  | CMPHASAVX2 => [(S pc, KA)]
  | CMPHASPOPCNT => [(S pc, KP)]
  | JMP t => [(t, k)]
  | JCC cnd t =>
    match kflags k with
    | Some f => match holds f cnd with Some true => [(t, k)] | Some false => [(S pc, k)] | None => [] end
    | None => [(t, k); (S pc, k)]
    end
  | RET | TAILGO => []
  | _ => [(S pc, KU)]
  end.

Lemma other_next pc i st0 pc' st1 : (forall t, i <> JMP t) -> (forall cnd t, i <> JCC cnd t) ->
  step pc i st0 = Running pc' st1 -> pc' = S pc.
Proof.
  intros H1 H2 H. rewrite (X86Erase.step_next A s junk slot avx2 popcnt c pc 0 i st0 H1 H2) in H.
  destruct (X86.step A s junk slot avx2 popcnt c 0 i st0); try discriminate. injection H as E _. symmetry. exact E.
Qed.

(* one concrete step is covered by the abstract successors *)
Lemma sim pc k i st0 pc' st1 : conc k st0 -> step pc i st0 = Running pc' st1 ->
  exists k', In (pc', k') (asucc pc k i) /\ conc k' st1.
Proof.
  intros Hc H.
  destruct i;
    try (match type of H with step _ ?i0 _ = _ =>
           assert (N1 : forall t, i0 <> JMP t) by (intros; discriminate);
           assert (N2 : forall cnd t, i0 <> JCC cnd t) by (intros; discriminate);
           pose proof (other_next pc i0 st0 pc' st1 N1 N2 H) as E
         end; subst pc'; first [ exists KU; split; [left; reflexivity|exact I] | idtac ]).
  - (* CMPHASAVX2 *) exists KA. split; [left; reflexivity|]. cbn [X86.step] in H. injection H as E. subst st1. reflexivity.
  - (* CMPHASPOPCNT *) exists KP. split; [left; reflexivity|]. cbn [X86.step] in H. injection H as E. subst st1. reflexivity.
  - (* JMP *) cbn [X86.step] in H. injection H as E1 E2. subst pc' st1. exists k. split; [left; reflexivity|exact Hc].
  - (* JCC *) cbn [X86.step] in H. cbn [asucc]. unfold conc in Hc. destruct (kflags k) as [f|] eqn:K.
    + rewrite Hc in H. destruct (holds f c0) as [[|]|]; try discriminate; injection H as E1 E2; subst pc' st1;
        (exists k; split; [left; reflexivity|unfold conc; rewrite K; exact Hc]).
    + destruct (holds (fl st0) c0) as [[|]|]; try discriminate; injection H as E1 E2; subst pc' st1;
        (exists k; split; [first [left; reflexivity|right; left; reflexivity]|unfold conc; rewrite K; exact I]).
  - (* TAILGO *) cbn [X86.step] in H. discriminate.
  - (* RET *) cbn [X86.step] in H. discriminate.
Qed.

Variable R : list astate.
Hypothesis closed : forall pc k i, In (pc, k) R -> nth_error prog pc = Some i ->
  forbidden i = false /\ forall a, In a (asucc pc k i) -> In a R.

Theorem strict_eq fuel : forall pc k st0, In (pc, k) R -> conc k st0 -> run_strict fuel pc st0 = run fuel pc st0.
Proof.
  induction fuel as [|f IH]; intros pc k st0 HR Hc; [reflexivity|].
  cbn [run_strict X86.run]. destruct (nth_error prog pc) as [i|] eqn:Hn; [|reflexivity].
  destruct (closed pc k i HR Hn) as [Hf Hs]. rewrite Hf.
  destruct (step pc i st0) as [pc' st1| | |] eqn:Es; try reflexivity.
  destruct (sim pc k i st0 pc' st1 Hc Es) as (k' & Hin & Hc'). apply (IH pc' k' st1 (Hs _ Hin) Hc').
Qed.

(* the closure condition as a computation *)
Definition check (R0 : list astate) : bool :=
  forallb (fun a => match nth_error prog (fst a) with
                    | None => true
                    | Some i => negb (forbidden i) && forallb (fun b => existsb (aeqb b) R0) (asucc (fst a) (snd a) i)
                    end) R0.

(* exploring the abstract states from a work list (no proof needed about it: its result is checked) *)
Fixpoint reach (fuel : nat) (work seen : list astate) : list astate :=
  match fuel with
  | O => seen
  | S f =>
    match work with
    | [] => seen
    | a :: w =>
      if existsb (aeqb a) seen then reach f w seen
      else match nth_error prog (fst a) with
           | None => reach f w (a :: seen)
           | Some i => reach f (asucc (fst a) (snd a) i ++ w) (a :: seen)
           end
    end
  end.

End Isa.

Lemma check_sound avx2 popcnt prog R0 : check avx2 popcnt prog R0 = true ->
  forall pc k i, In (pc, k) R0 -> nth_error prog pc = Some i ->
  forbidden avx2 popcnt i = false /\ forall a, In a (asucc avx2 popcnt pc k i) -> In a R0.
Proof.
  intros H pc k i Hin Hn. unfold check in H. rewrite forallb_forall in H. specialize (H (pc, k) Hin). cbn [fst snd] in H.
  rewrite Hn in H. apply andb_true_iff in H as [H1 H2]. split.
  - destruct (forbidden avx2 popcnt i); [discriminate|reflexivity].
  - intros a Ha. rewrite forallb_forall in H2. apply existsb_aeqb_In. apply H2. exact Ha.
Qed.

(* from an entry point with nothing known about the flags *)
Theorem strict_from_entry A s junk slot avx2 popcnt c prog entry :
  let R0 := reach avx2 popcnt prog 4000 [(entry, KU)] [] in
  check avx2 popcnt prog R0 = true -> existsb (aeqb (entry, KU)) R0 = true ->
  forall fuel st0, run_strict A s junk slot avx2 popcnt c prog fuel entry st0 = X86.run A s junk slot avx2 popcnt c prog fuel entry st0.
Proof.
  intros R0 Hc Hin fuel st0.
  apply (strict_eq A s junk slot avx2 popcnt c prog R0 (check_sound avx2 popcnt prog R0 Hc) fuel entry KU st0).
  - apply existsb_aeqb_In. exact Hin.
  - exact I.
Qed.
