(* Instances.v — the refinement theorems instantiated at the regenerated
   tables (fold121 = CaseFold over coq/gen/Tables121.v, lower_pkg = the
   _lower table of each package): what the Properties files quote. *)
From Strcase Require Import Base Utf8 Utf8Facts Spec SpecIndex Impl Impl2 Impl3 Impl4 Impl5 Refine_Compare Refine_Prefix Refine_Suffix Refine_Count
  Refine_RuneCase Utf8Enc Refine_RuneCase2 Refine_Byte Refine_Rune FoldFacts2
  Impl6 Impl7 Refine_RK Refine_Index Refine_Index2 Refine_Index3 Refine_RKRev Refine_Last Refine_Any Refine_CountByte
  Fold FoldFacts FoldTables FoldFacts121.

Theorem width_facts121 : width_facts fold121.
Proof.
  split.
  - intros a b Ha Hb La Lb E. apply width_ratio; assumption.
  - intros x Hx E. apply rune_error_alone; [apply int32_of_rune; exact Hx|exact E].
Qed.

(* the candidate sets of the model are those of the table facts *)
Lemma cands_of_eq r : cands_of fold_map121 upper_lower121 r = cands121 r.
Proof.
  unfold cands_of, cands121, FoldFacts2.cands, fold_map121, upper_lower121.
  destruct (fold_map T121 r) as [fs|]; reflexivity.
Qed.

Section Single.
Variable native : bool.
Variable cutover : Z -> Z.

Theorem indexRuneCase121 s r : wf s -> indexRuneCase native cutover s r = Ok (rune_index s r).
Proof. apply indexRuneCase_ok. Qed.

Theorem indexbyte_refines121 s c :
  wf s -> 0 <= c < 256 -> Impl5.IndexByte native cutover s c = Ok (index_byte s c).
Proof. apply indexbyte_refines. Qed.

Theorem indexrune_refines121 s r :
  wf s -> Impl5.IndexRune native cutover fold_map121 upper_lower121 s r = Ok (index_rune fold121 s r).
Proof.
  apply (indexrune_refines native cutover fold121 fold_map121 upper_lower121).
  - intros r0 x Hr Hx. rewrite cands_of_eq. apply cands_exact; assumption.
  - intros r0 x Hr Hx. rewrite cands_of_eq in Hx. apply (cands_range r0 x Hr Hx).
  - intros r0 x Hr Hx. apply ascii_cands_exact; assumption.
  - intros x Hx. apply rune_error_alone. exact Hx.
Qed.

Theorem containsrune_refines121 s r :
  wf s -> Impl5.ContainsRune native cutover fold_map121 upper_lower121 s r = Ok (contains_rune fold121 s r).
Proof.
  intros Hw. unfold Impl5.ContainsRune. rewrite indexrune_refines121 by exact Hw. reflexivity.
Qed.


(* the Any family *)
Theorem indexany_refines121 s chars :
  wf s -> wf chars -> Impl7.IndexAny native cutover fold_map121 upper_lower121 s chars = Ok (index_any fold121 s chars).
Proof.
  apply (indexany_refines native cutover fold121 fold_map121 upper_lower121).
  - intros r0 x Hr Hx. rewrite cands_of_eq. apply cands_exact; assumption.
  - intros r0 x Hr Hx. rewrite cands_of_eq in Hx. apply (cands_range r0 x Hr Hx).
  - intros r0 x Hr Hx. apply ascii_cands_exact; assumption.
  - intros x Hx. apply rune_error_alone. exact Hx.
Qed.

Theorem containsany_refines121 s chars :
  wf s -> wf chars -> Impl7.ContainsAny native cutover fold_map121 upper_lower121 s chars = Ok (contains_any fold121 s chars).
Proof. intros Hs Hc. unfold Impl7.ContainsAny. rewrite (indexany_refines121 s chars Hs Hc). reflexivity. Qed.

Theorem lastindexany_refines121 s chars :
  wf s -> wf chars -> Impl7.LastIndexAny native cutover fold_map121 upper_lower121 s chars = Ok (last_index_any fold121 s chars).
Proof.
  apply (lastindexany_refines native cutover fold121 fold_map121 upper_lower121).
  - intros r0 x Hr Hx. rewrite cands_of_eq. apply cands_exact; assumption.
  - intros r0 x Hr Hx. rewrite cands_of_eq in Hx. apply (cands_range r0 x Hr Hx).
  - intros r0 x Hr Hx. apply ascii_cands_exact; assumption.
  - intros x Hx. apply rune_error_alone. exact Hx.
Qed.

End Single.

Section Inst.
Variable p : pkg.
Notation lower := (lower_pkg p).

Theorem hasPrefixUnicode121 s prefix :
  wf s -> wf prefix ->
  exists ex, hasPrefixUnicode fold121 lower p s prefix = Ok (has_prefix fold121 s prefix, ex) /\
    (ex = true -> has_prefix fold121 s prefix = false -> forall k, match_at fold121 s prefix k = false).
Proof. apply (hasPrefixUnicode_ok fold121 lower (fold_facts_pkg p) width_facts121). Qed.

Theorem hasprefix_refines121 s prefix :
  wf s -> wf prefix -> HasPrefix fold121 lower p s prefix = Ok (has_prefix fold121 s prefix).
Proof. apply (hasprefix_refines fold121 lower (fold_facts_pkg p) width_facts121). Qed.

Theorem trimprefix_refines121 s prefix :
  wf s -> wf prefix -> TrimPrefix fold121 lower p s prefix = Ok (trim_prefix fold121 s prefix).
Proof. apply (trimprefix_refines fold121 lower (fold_facts_pkg p) width_facts121). Qed.

Theorem cutprefix_refines121 s prefix :
  wf s -> wf prefix -> CutPrefix fold121 lower p s prefix = Ok (cut_prefix fold121 s prefix).
Proof. apply (cutprefix_refines fold121 lower (fold_facts_pkg p) width_facts121). Qed.

Theorem hasSuffixUnicode121 s suffix :
  wf s -> wf suffix ->
  exists n, hasSuffixUnicode fold121 lower s suffix = Ok (has_suffix fold121 s suffix, n) /\
    (has_suffix fold121 s suffix = true -> n = suffix_cut fold121 s suffix).
Proof. apply (hasSuffixUnicode_ok fold121 lower (fold_facts_pkg p) width_facts121). Qed.

Theorem hassuffix_refines121 s suffix :
  wf s -> wf suffix -> HasSuffix fold121 lower s suffix = Ok (has_suffix fold121 s suffix).
Proof. apply (hassuffix_refines fold121 lower (fold_facts_pkg p) width_facts121). Qed.

Theorem trimsuffix_refines121 s suffix :
  wf s -> wf suffix -> TrimSuffix fold121 lower s suffix = Ok (trim_suffix fold121 s suffix).
Proof. apply (trimsuffix_refines fold121 lower (fold_facts_pkg p) width_facts121). Qed.

Theorem cutsuffix_refines121 s suffix :
  wf s -> wf suffix -> CutSuffix fold121 lower s suffix = Ok (cut_suffix fold121 s suffix).
Proof. apply (cutsuffix_refines fold121 lower (fold_facts_pkg p) width_facts121). Qed.

(* ---- Index: the candidate test and the ToUpperLower step of the model are those of the table facts ---- *)

Lemma ul_hack_eq u : Impl6.ul_hack upper_lower121 u = ul_hack_of T121 u.
Proof.
  unfold Impl6.ul_hack, ul_hack_of, upper_lower121. destruct ((u =? 304) || (u =? 305)); [reflexivity|].
  destruct (to_upper_lower T121 u) as [[up lo] b]. reflexivity.
Qed.

Lemma cand_eq u r :
  Impl6.cand (fst (Impl6.ul_hack upper_lower121 u)) (snd (Impl6.ul_hack upper_lower121 u)) (fold_map_excl121 u) r = cand2 T121 u r.
Proof. rewrite ul_hack_eq. reflexivity. Qed.

Section IndexInst.
Variable native : bool.
Variable cutover : Z -> Z.
Variables maxBruteForce maxLen primeRK nativeMax rtMaxLen : Z.
Hypothesis Hcontract : nativeMax <= rtMaxLen.   (* native calls within the runtime's contract; discharged at the generated constants in Properties/C14.v *)

Theorem bruteforce_refines121 s sub :
  wf s -> wf sub -> (2 <= rune_count sub)%nat ->
  Impl6.bruteForceIndexUnicode fold121 lower fold_map_excl121 upper_lower121 p s sub = Ok (index fold121 s sub).
Proof.
  apply (bruteforce_refines fold121 lower (fold_facts_pkg p) width_facts121 fold_map_excl121 upper_lower121 p).
  intros u r Hu Hr. rewrite cand_eq. apply cand2_exact; assumption.
Qed.

Theorem rabinkarp_refines121 s sub :
  wf s -> wf sub -> sub <> [] ->
  Impl6.indexRabinKarpUnicode fold121 lower primeRK p s sub = Ok (index fold121 s sub).
Proof. apply (rabinkarp_refines fold121 lower (fold_facts_pkg p) width_facts121). Qed.

(* the whole of Index, on every pair of byte strings, for every threshold configuration *)
Theorem index_refines121 s sub :
  wf s -> wf sub ->
  Impl6.Index native cutover fold121 lower fold_map121 fold_map_excl121 upper_lower121 maxBruteForce maxLen primeRK nativeMax rtMaxLen p s sub =
  Ok (index fold121 s sub).
Proof.
  apply (index_refines fold121 lower (fold_facts_pkg p) width_facts121 native cutover fold_map121 fold_map_excl121 upper_lower121
           maxBruteForce maxLen primeRK nativeMax rtMaxLen p).
  - exact Hcontract.
  - intros r0 x Hr Hx. rewrite cands_of_eq. apply cands_exact; assumption.
  - intros r0 x Hr Hx. rewrite cands_of_eq in Hx. apply (cands_range r0 x Hr Hx).
  - intros r0 x Hr Hx. apply ascii_cands_exact; assumption.
  - intros x Hx. apply rune_error_alone. exact Hx.
  - intros u r Hu Hr. rewrite cand_eq. apply cand2_exact; assumption.
  - intros u V _. rewrite ul_hack_eq. apply ul_hack_facts. exact V.
Qed.

Theorem contains_refines121 s sub :
  wf s -> wf sub ->
  Impl6.Contains native cutover fold121 lower fold_map121 fold_map_excl121 upper_lower121 maxBruteForce maxLen primeRK nativeMax rtMaxLen p s sub =
  Ok (contains fold121 s sub).
Proof.
  intros Hs Hsub. unfold Impl6.Contains. rewrite (index_refines121 s sub Hs Hsub). cbn [bind]. rewrite contains_index. reflexivity.
Qed.

(* Count and Cut around the real Index *)
Notation Index121 := (Impl6.Index native cutover fold121 lower fold_map121 fold_map_excl121 upper_lower121 maxBruteForce maxLen primeRK nativeMax rtMaxLen p).

Theorem count_index_refines121 s sub :
  wf s -> wf sub -> (forall c, sub = [c] -> 128 <= c) ->
  Count Index121 p s sub = Ok (count fold121 s sub).
Proof. apply (count_refines_general fold121 Index121). intros; apply index_refines121; assumption. Qed.

(* Count on every needle, the single-ASCII-byte kernel path included *)
Theorem count_full_refines121 s sub :
  wf s -> wf sub -> Count Index121 p s sub = Ok (count fold121 s sub).
Proof.
  apply (count_refines fold121).
  - intros r0 x Hr Hx. apply ascii_cands_exact; assumption.
  - intros s0 t Hs0 Ht. apply index_refines121; assumption.
Qed.

Theorem cut_index_refines121 s sep :
  wf s -> wf sep -> Cut Index121 p s sep = Ok (cut fold121 s sep).
Proof. apply (cut_refines fold121 Index121). intros; apply index_refines121; assumption. Qed.

End IndexInst.

(* ---- the right-to-left searches ---- *)

Lemma fm_self121 r fs : 128 <= r <= MaxRune -> fold_map121 r = Some fs -> In r (take_nz fs).
Proof.
  intros Hr F. destruct (FoldFacts2.fold_map_cases T121 R121 range121 pairs121 members121 r fs ltac:(lia) F) as (q & _ & Hd).
  destruct fs as [|x fs]; cbn [hd] in Hd; [lia|]. subst x. cbn [take_nz]. replace (r =? 0) with false by lia. left. reflexivity.
Qed.

Lemma ul_false121 r u l : upper_lower121 r = (u, l, false) -> u = r /\ l = r.
Proof.
  unfold upper_lower121, to_upper_lower. intros H.
  repeat match type of H with
         | (if ?c then _ else _) = _ => destruct c
         | (match ?x with _ => _ end) = _ => destruct x
         end; inversion H; subst; split; reflexivity.
Qed.

Theorem lastindexbyte_refines121 s c : wf s -> 0 <= c < 256 -> Impl5.LastIndexByte s c = Ok (last_index_byte s c).
Proof. apply lastindexbyte_refines. Qed.

Theorem rabinkarp_rev_refines121 primeRK s sub :
  wf s -> wf sub -> sub <> [] -> Impl7.indexRabinKarpRevUnicode fold121 lower primeRK s sub = Ok (last_index fold121 s sub).
Proof. apply (rabinkarp_rev_refines fold121 lower (fold_facts_pkg p) width_facts121). Qed.

Theorem lastIndexRune121 s r :
  wf s -> ~ (0 <= r < 128) ->
  Impl5.lastIndexRune fold_map121 upper_lower121 p s r = Ok (last_index_rune fold121 s r).
Proof.
  apply (lastIndexRune_ok fold121 fold_map121 upper_lower121).
  - intros r0 x Hr Hx. rewrite cands_of_eq. apply cands_exact; assumption.
  - intros x Hx. apply rune_error_alone. exact Hx.
  - exact fm_self121.
  - exact ul_false121.
Qed.

(* the whole of LastIndex, on every pair of byte strings, for every prime *)
Theorem lastindex_refines121 primeRK s sub :
  wf s -> wf sub ->
  Impl7.LastIndex fold121 lower fold_map121 upper_lower121 primeRK p s sub = Ok (last_index fold121 s sub).
Proof.
  apply (lastindex_refines fold121 lower (fold_facts_pkg p) width_facts121 fold_map121 upper_lower121 primeRK p).
  - intros r0 x Hr Hx. rewrite cands_of_eq. apply cands_exact; assumption.
  - intros r0 x Hr Hx. apply ascii_cands_exact; assumption.
  - intros x Hx. apply rune_error_alone. exact Hx.
  - exact fm_self121.
  - exact ul_false121.
Qed.

(* Count and Cut are loops around Index: instantiated with Index's specification *)
Definition idx_spec (s t : bytes) : res Z := Ok (index fold121 s t).

Theorem count_refines_general121 s sub :
  wf s -> wf sub -> (forall c, sub = [c] -> 128 <= c) ->
  Count idx_spec p s sub = Ok (count fold121 s sub).
Proof. apply (count_refines_general fold121 idx_spec). intros; reflexivity. Qed.

Theorem cut_refines121 s sep :
  wf s -> wf sep -> Cut idx_spec p s sep = Ok (cut fold121 s sep).
Proof. apply (cut_refines fold121 idx_spec). intros; reflexivity. Qed.

End Inst.
