(* Totality.v — corollaries of the refinement theorems (Instances.v) about the
   structure-faithful models of ALL exported functions:
   - totality (C06): on every byte string the model returns Ok — no bounds
     check of a slice expression fails (Panic) and no loop runs past its fuel
     (OutOfFuel);
   - parity (C07): the strcase-shaped and the bytcase-shaped model return the
     same value, because both compute the same Spec function. *)
From Strcase Require Import Base Utf8 Spec SpecIndex Impl Impl2 Impl3 Impl4 Impl5 Impl6 Impl7 Refine_Compare
  Fold FoldFacts FoldTables FoldFacts121 Instances.

Definition total {A} (r : res A) : Prop := exists v, r = Ok v.

Ltac conjs := match goal with |- _ /\ _ => split; [|conjs] | _ => idtac end.

Section T.
Variable p : pkg.
Variable native : bool.
Variable cutover : Z -> Z.
Variables maxBruteForce maxLen primeRK nativeMax rtMaxLen : Z.
Hypothesis Hcontract : nativeMax <= rtMaxLen.
Notation lower := (lower_pkg p).
Notation Index' := (Impl6.Index native cutover fold121 lower fold_map121 fold_map_excl121 upper_lower121 maxBruteForce maxLen primeRK nativeMax rtMaxLen p).

Ltac by_refine H := eexists; apply H; assumption.

(* every function of two byte strings *)
Theorem total_ss s t : wf s -> wf t ->
  total (Compare fold121 lower p s t) /\ total (EqualFold fold121 lower p s t) /\
  total (HasPrefix fold121 lower p s t) /\ total (TrimPrefix fold121 lower p s t) /\ total (CutPrefix fold121 lower p s t) /\
  total (HasSuffix fold121 lower s t) /\ total (TrimSuffix fold121 lower s t) /\ total (CutSuffix fold121 lower s t) /\
  total (Index' s t) /\
  total (Impl6.Contains native cutover fold121 lower fold_map121 fold_map_excl121 upper_lower121 maxBruteForce maxLen primeRK nativeMax rtMaxLen p s t) /\
  total (Impl7.LastIndex fold121 lower fold_map121 upper_lower121 primeRK p s t) /\
  total (Count Index' p s t) /\ total (Cut Index' p s t) /\
  total (Impl7.IndexAny native cutover fold_map121 upper_lower121 s t) /\
  total (Impl7.ContainsAny native cutover fold_map121 upper_lower121 s t) /\
  total (Impl7.LastIndexAny native cutover fold_map121 upper_lower121 s t).
Proof.
  intros Hs Ht. pose proof (fold_facts_pkg p) as FF.
  conjs.
  - eexists. apply (compare_refines fold121 lower FF); assumption.
  - eexists. apply (equalfold_refines fold121 lower FF); assumption.
  - by_refine hasprefix_refines121.
  - by_refine trimprefix_refines121.
  - by_refine cutprefix_refines121.
  - by_refine hassuffix_refines121.
  - by_refine trimsuffix_refines121.
  - by_refine cutsuffix_refines121.
  - by_refine index_refines121.
  - by_refine contains_refines121.
  - by_refine lastindex_refines121.
  - by_refine count_full_refines121.
  - by_refine cut_index_refines121.
  - by_refine indexany_refines121.
  - by_refine containsany_refines121.
  - by_refine lastindexany_refines121.
Qed.

(* every function of a byte string and a rune (any int32, any Z) or a byte *)
Theorem total_sr s r c : wf s -> 0 <= c < 256 ->
  total (Impl5.IndexRune native cutover fold_map121 upper_lower121 s r) /\
  total (Impl5.ContainsRune native cutover fold_map121 upper_lower121 s r) /\
  total (Impl5.IndexByte native cutover s c) /\ total (Impl5.IndexByteASCII s c) /\ total (Impl5.LastIndexByte s c) /\
  total (Impl7.IndexNonASCII s) /\ total (Impl7.ContainsNonASCII s).
Proof.
  intros Hs Hc. conjs.
  - by_refine indexrune_refines121.
  - by_refine containsrune_refines121.
  - eexists. apply indexbyte_refines121; assumption.
  - eexists. reflexivity.
  - eexists. apply lastindexbyte_refines121; assumption.
  - eexists. reflexivity.
  - eexists. reflexivity.
Qed.

End T.

(* the two package shapes compute the same thing *)
Section P.
Variable native : bool.
Variable cutover : Z -> Z.
Variables maxBruteForce maxLen primeRK nativeMax rtMaxLen : Z.
Hypothesis Hcontract : nativeMax <= rtMaxLen.
Notation IndexP q := (Impl6.Index native cutover fold121 (lower_pkg q) fold_map121 fold_map_excl121 upper_lower121 maxBruteForce maxLen primeRK nativeMax rtMaxLen q).

Ltac both H := rewrite (H Str), (H Byt) by assumption; reflexivity.

Theorem parity_ss s t : wf s -> wf t ->
  Compare fold121 (lower_pkg Str) Str s t = Compare fold121 (lower_pkg Byt) Byt s t /\
  EqualFold fold121 (lower_pkg Str) Str s t = EqualFold fold121 (lower_pkg Byt) Byt s t /\
  HasPrefix fold121 (lower_pkg Str) Str s t = HasPrefix fold121 (lower_pkg Byt) Byt s t /\
  TrimPrefix fold121 (lower_pkg Str) Str s t = TrimPrefix fold121 (lower_pkg Byt) Byt s t /\
  CutPrefix fold121 (lower_pkg Str) Str s t = CutPrefix fold121 (lower_pkg Byt) Byt s t /\
  HasSuffix fold121 (lower_pkg Str) s t = HasSuffix fold121 (lower_pkg Byt) s t /\
  TrimSuffix fold121 (lower_pkg Str) s t = TrimSuffix fold121 (lower_pkg Byt) s t /\
  CutSuffix fold121 (lower_pkg Str) s t = CutSuffix fold121 (lower_pkg Byt) s t /\
  IndexP Str s t = IndexP Byt s t /\
  Impl7.LastIndex fold121 (lower_pkg Str) fold_map121 upper_lower121 primeRK Str s t =
    Impl7.LastIndex fold121 (lower_pkg Byt) fold_map121 upper_lower121 primeRK Byt s t /\
  Count (IndexP Str) Str s t = Count (IndexP Byt) Byt s t /\
  Cut (IndexP Str) Str s t = Cut (IndexP Byt) Byt s t.
Proof.
  intros Hs Ht. conjs.
  - rewrite (compare_refines fold121 _ (fold_facts_pkg Str)), (compare_refines fold121 _ (fold_facts_pkg Byt)) by assumption. reflexivity.
  - rewrite (equalfold_refines fold121 _ (fold_facts_pkg Str)), (equalfold_refines fold121 _ (fold_facts_pkg Byt)) by assumption. reflexivity.
  - both hasprefix_refines121.
  - both trimprefix_refines121.
  - both cutprefix_refines121.
  - both hassuffix_refines121.
  - both trimsuffix_refines121.
  - both cutsuffix_refines121.
  - rewrite (index_refines121 Str), (index_refines121 Byt) by assumption. reflexivity.
  - rewrite (lastindex_refines121 Str), (lastindex_refines121 Byt) by assumption. reflexivity.
  - rewrite (count_full_refines121 Str), (count_full_refines121 Byt) by assumption. reflexivity.
  - rewrite (cut_index_refines121 Str), (cut_index_refines121 Byt) by assumption. reflexivity.
Qed.

End P.
