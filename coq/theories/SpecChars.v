(* SpecChars.v — single-character and character-set searches (C10, C11) at
   Spec level. *)
From Strcase Require Import Base Utf8 Utf8Facts Spec SpecFacts SpecIndex.
From Coq Require Import ZifyBool ZifyNat.

Lemma index_where_some f l k0 k :
  index_where f l k0 = Some k ->
  exists d, k = (k0 + d)%nat /\ (d < length l)%nat /\ f (nth d l 0) = true /\
            forall j, (j < d)%nat -> f (nth j l 0) = false.
Proof.
  revert k0. induction l as [|x l IH]; intros k0; cbn [index_where]; [discriminate|].
  destruct (f x) eqn:E.
  - intros H. inversion H; subst. exists 0%nat. split; [lia|]. split; [simpl; lia|]. split; [exact E|].
    intros j Hj. lia.
  - intros H. apply IH in H as (d & -> & Hd & Hf & Hl). exists (S d). split; [lia|].
    split; [simpl; lia|]. split; [exact Hf|]. intros j Hj. destruct j as [|j]; [exact E|]. apply Hl. lia.
Qed.

Lemma index_where_none f l k0 : index_where f l k0 = None -> forall x, In x l -> f x = false.
Proof.
  revert k0. induction l as [|y l IH]; intros k0; cbn [index_where]; [intros _ x []|].
  destruct (f y) eqn:E; [discriminate|]. intros H x [->|Hx]; [exact E|]. eapply IH; eassumption.
Qed.

Lemma last_where_none f l k0 : last_where f l k0 = None -> forall x, In x l -> f x = false.
Proof.
  revert k0. induction l as [|y l IH]; intros k0; cbn [last_where]; [intros _ x []|].
  destruct (last_where f l (S k0)) eqn:L; [discriminate|]. destruct (f y) eqn:E; [discriminate|].
  intros _ x [->|Hx]; [exact E|]. eapply IH; eassumption.
Qed.

Lemma last_where_some f l k0 k :
  last_where f l k0 = Some k ->
  exists d, k = (k0 + d)%nat /\ (d < length l)%nat /\ f (nth d l 0) = true /\
            forall j, (d < j)%nat -> (j < length l)%nat -> f (nth j l 0) = false.
Proof.
  revert k0. induction l as [|x l IH]; intros k0; cbn [last_where]; [discriminate|].
  destruct (last_where f l (S k0)) as [r|] eqn:L.
  - intros H. inversion H; subst. apply IH in L as (d & -> & Hd & Hf & Hl). exists (S d).
    split; [lia|]. split; [simpl; lia|]. split; [exact Hf|].
    intros j H1 H2. destruct j as [|j]; [lia|]. apply Hl; simpl in H2; lia.
  - destruct (f x) eqn:E; [|discriminate]. intros H. inversion H; subst. exists 0%nat.
    split; [lia|]. split; [simpl; lia|]. split; [exact E|].
    intros j H1 H2. destruct j as [|j]; [lia|]. cbn [nth].
    apply (last_where_none _ _ _ L). apply nth_In. simpl in H2. lia.
Qed.

Lemma memb_In x l : memb x l = true <-> In x l.
Proof.
  unfold memb. rewrite existsb_exists. split.
  - intros (y & Hy & E). apply Z.eqb_eq in E. subst. exact Hy.
  - intros H. exists x. split; [exact H|apply Z.eqb_refl].
Qed.

Section S.
Variable fold : Z -> Z.
Notation key := (key fold).

Lemma nth_key s k : (k < rune_count s)%nat -> nth k (key s) 0 = fold (nth k (runes s) 0).
Proof.
  intros H. rewrite key_runes_map. rewrite (nth_indep _ 0 (fold 0)) by (rewrite map_length; unfold runes; rewrite map_length; exact H).
  apply map_nth.
Qed.

(* IndexRune: the first code point of s fold-equal to r, for valid r *)
Theorem index_rune_found s r i :
  index_rune fold s r = i -> 0 <= i ->
  valid_rune r = true /\
  exists k, i = Z.of_nat (off s k) /\ (k < rune_count s)%nat /\
    fold (nth k (runes s) 0) = fold r /\
    forall j, (j < k)%nat -> fold (nth j (runes s) 0) <> fold r.
Proof.
  unfold index_rune. destruct (valid_rune r); [|lia]. split; [reflexivity|].
  destruct (index_where _ (key s) 0) as [k|] eqn:W; cbn [offz] in *; [|lia].
  apply index_where_some in W as (d & -> & Hd & Hf & Hl). cbn [Nat.add] in *.
  rewrite key_length in Hd. exists d. split; [lia|]. split; [exact Hd|].
  rewrite nth_key in Hf by exact Hd. split; [lia|].
  intros j Hj. specialize (Hl j Hj). rewrite nth_key in Hl by lia. lia.
Qed.

Theorem index_rune_none s r :
  index_rune fold s r = -1 ->
  valid_rune r = false \/ forall x, In x (runes s) -> fold x <> fold r.
Proof.
  unfold index_rune. destruct (valid_rune r); [|left; reflexivity]. right.
  destruct (index_where _ (key s) 0) as [k|] eqn:W; cbn [offz] in *.
  - pose proof (off_le s k). lia.
  - intros x Hx. pose proof (index_where_none _ _ _ W (fold x)) as N.
    rewrite key_runes_map in N. specialize (N (in_map fold _ _ Hx)). cbv beta in N. lia.
Qed.

Theorem index_rune_invalid s r : valid_rune r = false -> index_rune fold s r = -1.
Proof. intros H. unfold index_rune. rewrite H. reflexivity. Qed.

Theorem index_rune_range s r : -1 <= index_rune fold s r <= len s.
Proof.
  unfold index_rune. destruct (valid_rune r); [|unfold len; lia].
  destruct (index_where _ (key s) 0) as [k|]; cbn [offz]; unfold len; [pose proof (off_le s k)|]; lia.
Qed.

(* IndexAny / LastIndexAny: first / last code point of s fold-equal to some code point of chars *)
Theorem index_any_found s chars i :
  index_any fold s chars = i -> 0 <= i ->
  exists k, i = Z.of_nat (off s k) /\ (k < rune_count s)%nat /\
    (exists y, In y (runes chars) /\ fold (nth k (runes s) 0) = fold y) /\
    forall j, (j < k)%nat -> forall y, In y (runes chars) -> fold (nth j (runes s) 0) <> fold y.
Proof.
  unfold index_any. destruct (index_where _ (key s) 0) as [k|] eqn:W; cbn [offz]; [|lia]. intros <- _.
  apply index_where_some in W as (d & -> & Hd & Hf & Hl). cbn [Nat.add] in *.
  rewrite key_length in Hd. exists d. split; [reflexivity|]. split; [exact Hd|].
  rewrite nth_key in Hf by exact Hd. apply memb_In in Hf. rewrite key_runes_map in Hf.
  apply in_map_iff in Hf as (y & Ey & Hy). split; [exists y; split; [exact Hy|congruence]|].
  intros j Hj y' Hy' E. specialize (Hl j Hj). rewrite nth_key in Hl by lia.
  assert (M : memb (fold (nth j (runes s) 0)) (key chars) = true).
  { apply memb_In. rewrite key_runes_map, E. apply in_map. exact Hy'. }
  congruence.
Qed.

Theorem index_any_none s chars :
  index_any fold s chars = -1 ->
  forall x y, In x (runes s) -> In y (runes chars) -> fold x <> fold y.
Proof.
  unfold index_any. destruct (index_where _ (key s) 0) as [k|] eqn:W; cbn [offz].
  - pose proof (off_le s k). lia.
  - intros _ x y Hx Hy E. pose proof (index_where_none _ _ _ W (fold x)) as N.
    rewrite key_runes_map in N. specialize (N (in_map fold _ _ Hx)). cbv beta in N.
    assert (M : memb (fold x) (key chars) = true).
    { apply memb_In. rewrite key_runes_map, E. apply in_map. exact Hy. }
    congruence.
Qed.

Theorem last_index_any_found s chars i :
  last_index_any fold s chars = i -> 0 <= i ->
  exists k, i = Z.of_nat (off s k) /\ (k < rune_count s)%nat /\
    (exists y, In y (runes chars) /\ fold (nth k (runes s) 0) = fold y) /\
    forall j, (k < j)%nat -> (j < rune_count s)%nat ->
      forall y, In y (runes chars) -> fold (nth j (runes s) 0) <> fold y.
Proof.
  unfold last_index_any. destruct (last_where _ (key s) 0) as [k|] eqn:W; cbn [offz]; [|lia]. intros <- _.
  apply last_where_some in W as (d & -> & Hd & Hf & Hl). cbn [Nat.add] in *.
  rewrite key_length in Hd, Hl. exists d. split; [reflexivity|]. split; [exact Hd|].
  rewrite nth_key in Hf by exact Hd. apply memb_In in Hf. rewrite key_runes_map in Hf.
  apply in_map_iff in Hf as (y & Ey & Hy). split; [exists y; split; [exact Hy|congruence]|].
  intros j Hj Hj2 y' Hy' E. specialize (Hl j Hj Hj2). rewrite nth_key in Hl by lia.
  assert (M : memb (fold (nth j (runes s) 0)) (key chars) = true).
  { apply memb_In. rewrite key_runes_map, E. apply in_map. exact Hy'. }
  congruence.
Qed.

Theorem index_any_empty_chars s : index_any fold s [] = -1 /\ last_index_any fold s [] = -1.
Proof.
  unfold index_any, last_index_any. change (Spec.key fold []) with (@nil Z).
  assert (A : forall l k, index_where (fun x => memb x []) l k = None)
    by (induction l; intros; cbn; auto).
  assert (B : forall l k, last_where (fun x => memb x []) l k = None)
    by (induction l as [|x l IH]; intros; cbn; [auto|rewrite IH; reflexivity]).
  rewrite A, B. split; reflexivity.
Qed.

Theorem index_any_iff_last s chars : 0 <= index_any fold s chars <-> 0 <= last_index_any fold s chars.
Proof.
  unfold index_any, last_index_any.
  destruct (index_where _ (key s) 0) as [a|] eqn:A; destruct (last_where _ (key s) 0) as [b|] eqn:B; cbn [offz]; try lia.
  - apply index_where_some in A as (d & _ & Hd & Hf & _).
    rewrite (last_where_none _ _ _ B _ (nth_In _ 0 Hd)) in Hf. discriminate.
  - apply last_where_some in B as (d & _ & Hd & Hf & _).
    rewrite (index_where_none _ _ _ A _ (nth_In _ 0 Hd)) in Hf. discriminate.
Qed.

End S.

(* ---- byte-level searches: IndexByte / LastIndexByte / IndexByteASCII ---- *)

Definition pat_at (pats : list bytes) (s : bytes) (i : nat) : bool :=
  existsb (fun p => starts_with p (skipn i s)) pats.

Lemma raw_index_found pats s i0 r :
  0 <= i0 -> raw_index_pats pats s i0 = r -> 0 <= r ->
  exists d, r = i0 + Z.of_nat d /\ (d < length s)%nat /\ pat_at pats s d = true /\
            forall j, (j < d)%nat -> pat_at pats s j = false.
Proof.
  revert i0. induction s as [|b s IH]; intros i0 H0; cbn [raw_index_pats]; [lia|].
  destruct (existsb (fun p => starts_with p (b :: s)) pats) eqn:E.
  - intros <- _. exists 0%nat. split; [lia|]. split; [simpl; lia|]. split; [exact E|]. intros j Hj. lia.
  - intros H Hr. apply IH in H as (d & -> & Hd & Hp & Hl); [|lia|exact Hr]. exists (S d). split; [lia|].
    split; [simpl; lia|]. split; [exact Hp|]. intros j Hj. destruct j as [|j]; [exact E|]. apply Hl. lia.
Qed.

Lemma raw_index_none pats s i0 :
  0 <= i0 -> raw_index_pats pats s i0 = -1 -> forall j, (j < length s)%nat -> pat_at pats s j = false.
Proof.
  revert i0. induction s as [|b s IH]; intros i0 H0; cbn [raw_index_pats]; [intros _ j Hj; simpl in Hj; lia|].
  destruct (existsb (fun p => starts_with p (b :: s)) pats) eqn:E; [lia|].
  intros H j Hj. destruct j as [|j]; [exact E|]. unfold pat_at. cbn [skipn].
  apply (IH (i0 + 1)); [lia|exact H|simpl in Hj; lia].
Qed.

Theorem index_byte_found s c i :
  index_byte s c = i -> 0 <= i ->
  exists d, i = Z.of_nat d /\ (d < length s)%nat /\ pat_at (byte_pats c) s d = true /\
            forall j, (j < d)%nat -> pat_at (byte_pats c) s j = false.
Proof.
  intros H Hi. apply raw_index_found in H as (d & -> & H); [|lia|exact Hi]. exists d. split; [lia|exact H].
Qed.

Theorem index_byte_none s c :
  index_byte s c = -1 -> forall j, (j < length s)%nat -> pat_at (byte_pats c) s j = false.
Proof. apply raw_index_none. lia. Qed.
