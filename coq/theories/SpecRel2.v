(* SpecRel2.v — the remaining relations of C17: searching for a code point
   is searching for its encoding, and searching for an ASCII byte is searching
   for the one-byte string. *)
From Strcase Require Import Base Utf8 Utf8Facts Utf8Last Spec SpecFacts SpecIndex SpecChars Utf8Enc Refine_RuneCase
  Refine_Rune Refine_Index Refine_Index3 Refine_Last Refine_Any Fold FoldFacts FoldFacts2.
From Coq Require Import ZifyBool ZifyNat.

Section R2.
Variable fold : Z -> Z.
Hypothesis Hascii : forall r x, 0 <= r < 128 -> int32 x -> (fold x = fold r <-> In x (FoldFacts2.ascii_cands r)).

Lemma encode_nonempty r : encode r <> [].
Proof. unfold encode. repeat match goal with |- context [if ?c then _ else _] => destruct c end; discriminate. Qed.

Lemma key_encode r : valid_rune r = true -> key fold (encode r) = [fold r].
Proof.
  intros V. pose proof (decode_encode r [] V) as D. rewrite app_nil_r in D.
  unfold Spec.key. rewrite (segs_full (encode r) (encode_nonempty r)) by (rewrite D; reflexivity). rewrite D. reflexivity.
Qed.

(* IndexRune(s, r) == Index(s, string(r)) for valid r *)
Theorem index_rune_is_index s r : valid_rune r = true -> index_rune fold s r = index fold s (encode r).
Proof. intros V. symmetry. apply index_single; [apply key_encode; exact V|exact V]. Qed.

(* IndexRune(s, r) == IndexAny(s, string(r)) for valid r *)
Theorem index_rune_is_index_any s r : valid_rune r = true -> index_rune fold s r = index_any fold s (encode r).
Proof.
  intros V. rewrite (index_rune_first_in fold s r V), (index_any_first_in fold s (encode r)).
  apply first_in_ext. intros x _. unfold anyp. rewrite (key_encode r V). unfold memb. cbn [existsb]. rewrite orb_false_r. reflexivity.
Qed.

(* IndexByte(s, c) == Index(s, string(c)) for c < 0x80 *)
Theorem index_byte_is_index s c : wf s -> 0 <= c < 128 -> index_byte s c = index fold s [c].
Proof.
  intros Hw Hc. assert (V : valid_rune c = true) by (unfold valid_rune, MaxRune; lia).
  rewrite <- (encode_ascii c Hc), <- (index_rune_is_index s c V).
  rewrite (index_rune_first_in fold s c V), (index_byte_first_in s c Hw Hc). apply first_in_ext. intros x Hx.
  apply bool_eq_iff'. rewrite existsb_In', Z.eqb_eq. symmetry. apply Hascii; [exact Hc|apply (runes_int32' s x Hw Hx)].
Qed.

End R2.
