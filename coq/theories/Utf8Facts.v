(* Utf8Facts.v — segmentation lemmas, for arbitrary byte strings unless a
   hypothesis says otherwise. *)
From Strcase Require Import Base Utf8.
From Coq Require Import ZifyBool ZifyNat.

(* decoding looks only at the bytes it consumes *)
Lemma decode_firstn s n : (snd (decode s) <= n)%nat -> decode (firstn n s) = decode s.
Proof.
  intros H.
  destruct s as [|b0 [|b1 [|b2 [|b3 s]]]]; destruct n as [|[|[|[|n]]]]; cbn [firstn]; try reflexivity;
    unfold decode in *; decode_cases; cbn [snd] in *; try reflexivity; try lia.
Qed.

Lemma decode_app s1 s2 :
  s1 <> [] -> valid_seg (decode s1) = true -> decode (s1 ++ s2) = decode s1.
Proof.
  intros Hne Hv.
  destruct s1 as [|b0 [|b1 [|b2 [|b3 s1]]]]; [congruence| | | |]; cbn [app];
    unfold valid_seg, decode, RuneError in *; destruct s2 as [|c0 [|c1 [|c2 s2]]]; cbn [app];
    decode_cases; cbn [fst snd] in *; try reflexivity; try lia.
Qed.

Lemma off_cons b r k :
  off (b :: r) (S k) =
  (snd (decode (b :: r)) + off (skipn (snd (decode (b :: r))) (b :: r)) k)%nat.
Proof. unfold off, widths. rewrite segs_cons. reflexivity. Qed.

Lemma off_nil k : off [] k = 0%nat.
Proof. unfold off, widths. simpl. rewrite firstn_nil. reflexivity. Qed.

Lemma skipn_firstn_add {A} (w m : nat) (l : list A) :
  skipn w (firstn (w + m) l) = firstn m (skipn w l).
Proof. rewrite skipn_firstn_comm. f_equal. lia. Qed.

Lemma segs_firstn_off s k : segs (firstn (off s k) s) = firstn k (segs s).
Proof.
  revert k. induction s as [|b r IH] using segs_ind; intros k.
  - rewrite off_nil. simpl. rewrite firstn_nil. reflexivity.
  - destruct k as [|k]; [reflexivity|].
    rewrite off_cons. set (w := snd (decode (b :: r))). set (m := off (skipn w (b :: r)) k).
    pose proof (decode_width_pos b r) as Hw. fold w in Hw.
    assert (Hd : decode (firstn (w + m) (b :: r)) = decode (b :: r)) by (apply decode_firstn; fold w; lia).
    assert (Hne : firstn (w + m) (b :: r) <> []).
    { destruct (w + m)%nat eqn:E; [lia|]. discriminate. }
    rewrite (segs_unfold _ Hne), Hd. fold w. rewrite skipn_firstn_add.
    rewrite segs_cons. fold w. cbn [firstn]. f_equal. apply IH.
Qed.

Lemma off_add s k m : off s (k + m) = (off s k + off (skipn (off s k) s) m)%nat.
Proof.
  assert (E : widths (skipn (off s k) s) = skipn k (widths s)).
  { unfold widths. rewrite segs_skipn_off. symmetry. apply skipn_map. }
  unfold off at 3. rewrite E. unfold off. rewrite firstn_add, sum_nat_app. reflexivity.
Qed.

Lemma nth_error_segs_width s k d : nth_error (segs s) k = Some d -> (1 <= snd d <= 4)%nat.
Proof.
  revert k. induction s as [|b r IH] using segs_ind; intros k H.
  - destruct k; discriminate.
  - rewrite segs_cons in H. destruct k as [|k].
    + inversion H; subst. apply decode_width_pos.
    + apply (IH k). exact H.
Qed.

Lemma off_strict s k : (k < rune_count s)%nat -> (off s k < off s (S k))%nat.
Proof.
  intros H. unfold rune_count in H.
  destruct (nth_error (segs s) k) as [d|] eqn:E; [|apply nth_error_None in E; lia].
  rewrite (off_S s k d E). pose proof (nth_error_segs_width s k d E). lia.
Qed.

Lemma off_lt s j k : (j < k)%nat -> (k <= rune_count s)%nat -> (off s j < off s k)%nat.
Proof.
  intros H Hk. induction k as [|k IH]; [lia|].
  destruct (Nat.eq_dec j k) as [->|Hne].
  - apply off_strict. lia.
  - assert (off s j < off s k)%nat by (apply IH; lia).
    assert (off s k < off s (S k))%nat by (apply off_strict; lia). lia.
Qed.

Lemma off_inj s j k :
  (j <= rune_count s)%nat -> (k <= rune_count s)%nat -> off s j = off s k -> j = k.
Proof.
  intros Hj Hk E. destruct (lt_eq_lt_dec j k) as [[H|H]|H]; [|exact H|].
  - pose proof (off_lt s j k H Hk). lia.
  - pose proof (off_lt s k j H Hj). lia.
Qed.

(* s[i:j] *)
Definition slice (s : bytes) (i j : nat) : bytes := firstn (j - i) (skipn i s).

Lemma segs_slice s k j :
  (k <= j)%nat -> segs (slice s (off s k) (off s j)) = firstn (j - k) (skipn k (segs s)).
Proof.
  intros H. unfold slice. replace j with (k + (j - k))%nat at 1 by lia.
  rewrite off_add. replace (off s k + off (skipn (off s k) s) (j - k) - off s k)%nat
    with (off (skipn (off s k) s) (j - k)) by lia.
  rewrite segs_firstn_off, segs_skipn_off. reflexivity.
Qed.

(* concatenation: a well-formed prefix keeps its boundaries *)
Lemma valid_utf8_cons b r :
  valid_utf8 (b :: r) = valid_seg (decode (b :: r)) && valid_utf8 (skipn (snd (decode (b :: r))) (b :: r)).
Proof. unfold valid_utf8. rewrite segs_cons. reflexivity. Qed.

Lemma skipn_app_le {A} n (l1 l2 : list A) : (n <= length l1)%nat -> skipn n (l1 ++ l2) = skipn n l1 ++ l2.
Proof. intros H. rewrite skipn_app. replace (n - length l1)%nat with 0%nat by lia. reflexivity. Qed.

Lemma segs_app_valid s1 s2 : valid_utf8 s1 = true -> segs (s1 ++ s2) = segs s1 ++ segs s2.
Proof.
  induction s1 as [|b r IH] using segs_ind; intros Hv; [reflexivity|].
  rewrite valid_utf8_cons in Hv. apply andb_true_iff in Hv as [Hv1 Hv2].
  assert (Hd : decode ((b :: r) ++ s2) = decode (b :: r)) by (apply decode_app; [discriminate|exact Hv1]).
  assert (Hne : (b :: r) ++ s2 <> []) by discriminate.
  rewrite (segs_unfold _ Hne), Hd, segs_cons. cbn [app]. f_equal.
  rewrite <- IH by exact Hv2. f_equal.
  change (b :: r ++ s2) with ((b :: r) ++ s2). apply skipn_app_le. apply decode_width_le.
Qed.

Lemma rune_count_app_valid s1 s2 :
  valid_utf8 s1 = true -> rune_count (s1 ++ s2) = (rune_count s1 + rune_count s2)%nat.
Proof. intros H. unfold rune_count. rewrite segs_app_valid by exact H. apply app_length. Qed.

Lemma off_app_valid_l s1 s2 k :
  valid_utf8 s1 = true -> (k <= rune_count s1)%nat -> off (s1 ++ s2) k = off s1 k.
Proof.
  intros Hv Hk. unfold off, widths. rewrite segs_app_valid by exact Hv.
  rewrite map_app, firstn_app. unfold rune_count in Hk. rewrite map_length.
  replace (k - length (segs s1))%nat with 0%nat by lia. simpl. rewrite app_nil_r. reflexivity.
Qed.

Lemma off_app_valid_r s1 s2 k :
  valid_utf8 s1 = true -> off (s1 ++ s2) (rune_count s1 + k) = (length s1 + off s2 k)%nat.
Proof.
  intros Hv. unfold off, widths. rewrite segs_app_valid by exact Hv.
  rewrite map_app, firstn_app, map_length. unfold rune_count.
  replace (length (segs s1) + k - length (segs s1))%nat with k by lia.
  rewrite firstn_all2 by (rewrite map_length; lia).
  rewrite sum_nat_app. f_equal. apply widths_sum.
Qed.

(* U+FFFD comes either from one ill-formed byte (width 1) or from its own encoding *)
Lemma decode_rune_error s :
  s <> [] -> fst (decode s) = RuneError -> snd (decode s) = 1%nat \/ firstn 3 s = [239; 191; 189].
Proof.
  intros Hne. unfold decode, RuneError, is_cont.
  destruct s as [|b0 [|b1 [|b2 [|b3 s]]]]; [congruence| | | |]; cbn [firstn];
    decode_cases; cbn [fst snd]; intros H; try (left; reflexivity); try lia;
    try (right; repeat f_equal; lia).
  all: repeat match goal with Hc : context [if ?c then _ else _] |- _ => destruct c eqn:? end;
    try lia; try (right; repeat f_equal; lia).
Qed.
