(* Refine_Index.v — bruteForceIndexUnicode and Index refine Spec.index. *)
From Strcase Require Import Base Utf8 Utf8Facts Utf8Last Spec SpecFacts SpecIndex SpecChars Impl Impl4 Impl5 Impl6 Kernels
  Refine_Compare Refine_Prefix Refine_RuneCase Utf8Enc Refine_RuneCase2 Refine_Byte Refine_Rune Refine_RK Fold FoldFacts.
From Coq Require Import ZifyBool ZifyNat.

(* ---------- reading code points at boundaries ---------- *)

Lemma runes_skipn_off s a : runes (skipn (off s a) s) = skipn a (runes s).
Proof. unfold runes. rewrite segs_skipn_off. symmetry. apply skipn_map. Qed.

Lemma first_rune_cons b t :
  first_rune (b :: t) = Ok (fst (decode (b :: t)), Z.of_nat (snd (decode (b :: t)))).
Proof. unfold first_rune. destruct (b <? 128) eqn:E; [rewrite decode_ascii by lia|]; reflexivity. Qed.

Lemma rune_at s a :
  (a < rune_count s)%nat ->
  (off s a < off s (S a) <= length s)%nat /\
  slice_from s (Z.of_nat (off s a)) = Ok (skipn (off s a) s) /\
  first_rune (skipn (off s a) s) = Ok (nth a (runes s) 0, Z.of_nat (off s (S a)) - Z.of_nat (off s a)).
Proof.
  intros Ha. pose proof (off_strict s a Ha) as Hs. pose proof (off_le s (S a)) as Hle.
  split; [lia|]. split.
  { unfold slice_from, len. replace ((0 <=? Z.of_nat (off s a)) && (Z.of_nat (off s a) <=? Z.of_nat (length s))) with true by lia.
    rewrite Nat2Z.id. reflexivity. }
  destruct (skipn (off s a) s) as [|b t] eqn:Sk.
  { apply (f_equal (@length Z)) in Sk. rewrite skipn_length in Sk. cbn in Sk. lia. }
  rewrite first_rune_cons. f_equal.
  assert (Hr : runes (b :: t) = skipn a (runes s)) by (rewrite <- Sk; apply runes_skipn_off).
  assert (Hn : fst (decode (b :: t)) = nth a (runes s) 0).
  { replace (nth a (runes s) 0) with (nth 0 (skipn a (runes s)) 0) by (rewrite nth_skipn_add, Nat.add_0_r; reflexivity).
    rewrite <- Hr. unfold runes. rewrite segs_cons. reflexivity. }
  assert (Hwd : off s (S a) = (off s a + snd (decode (b :: t)))%nat).
  { replace (S a) with (a + 1)%nat by lia. rewrite off_add, Sk, off_cons. rewrite off_0. lia. }
  rewrite Hn, Hwd. f_equal. lia.
Qed.

Lemma off_lt_len s a : (a < rune_count s)%nat -> (off s a < length s)%nat.
Proof. intros H. pose proof (off_lt s a (rune_count s) H ltac:(lia)). rewrite (off_all s (rune_count s)) in H0 by lia. exact H0. Qed.

(* an offset below len(s) that is a boundary is the start of a code point *)
Lemma boundary_lt s a : (a <= rune_count s)%nat -> (off s a < length s)%nat -> (a < rune_count s)%nat.
Proof.
  intros Ha H. destruct (le_lt_dec (rune_count s) a) as [Hge|]; [|assumption].
  rewrite (off_all s a Hge) in H. lia.
Qed.

Lemma firstn_length_firstn {A} m (X : list A) : firstn (length (firstn m X)) X = firstn m X.
Proof.
  rewrite firstn_length. destruct (le_lt_dec m (length X)) as [H|H].
  - rewrite Nat.min_l by exact H. reflexivity.
  - rewrite Nat.min_r by lia. rewrite firstn_all, firstn_all2 by lia. reflexivity.
Qed.

Lemma runes_int32' s x : wf s -> In x (runes s) -> int32 x.
Proof.
  intros Hw Hx. pose proof (runes_range' s Hw) as R. rewrite Forall_forall in R.
  specialize (R x Hx). unfold int32, MaxRune in *. lia.
Qed.

(* a start byte is the beginning of a code point of the forward segmentation *)
Lemma start_is_boundary s p :
  (p < length s)%nat -> is_start (nth p s 0) = true -> exists a, (a <= rune_count s)%nat /\ off s a = p.
Proof.
  intros Hp Hs.
  assert (E : s = firstn p s ++ nth p s 0 :: skipn (S p) s).
  { rewrite <- (firstn_skipn p s) at 1. f_equal. apply skipn_nth_cons. exact Hp. }
  pose proof (segs_app_start (firstn p s) (nth p s 0) (skipn (S p) s) Hs) as Sg. rewrite <- E in Sg.
  exists (rune_count (firstn p s)). split.
  - unfold rune_count at 2. rewrite Sg, app_length. unfold rune_count. lia.
  - unfold off, widths. rewrite Sg, map_app, firstn_app.
    unfold rune_count. rewrite <- (map_length snd (segs (firstn p s))), Nat.sub_diag, firstn_all. cbn [firstn]. rewrite app_nil_r.
    fold (widths (firstn p s)). rewrite widths_sum, firstn_length. lia.
Qed.

Section Idx.
Variables fold lower : Z -> Z.
Hypothesis FF : fold_facts fold lower.
Hypothesis WF : width_facts fold.

Notation key := (key fold).
Notation match_at := (match_at fold).
Notation K s := (key s).

Lemma key_runes s : K s = map fold (runes s).
Proof. apply key_runes_map. Qed.

(* the needle, split after its first two code points *)
Record split2 (sub : bytes) (u0 u1 : Z) (sz0 sz1 : Z) (needle : bytes) : Prop := {
  sp_key : K sub = fold u0 :: fold u1 :: K needle;
  sp_len : len sub = sz0 + sz1 + len needle;
  sp_sz0 : 1 <= sz0 <= 4;
  sp_sz1 : 1 <= sz1 <= 4;
  sp_wf : wf needle;
  sp_u0 : 0 <= u0 <= MaxRune;
  sp_u1 : 0 <= u1 <= MaxRune;
  sp_off : sz0 = Z.of_nat (off sub 1)
}.

(* what the prologue of bruteForceIndexUnicode / Index's main part computes *)
Lemma split2_ok sub :
  wf sub -> (2 <= rune_count sub)%nat ->
  exists u0 sz0 u1 sz1 needle,
    first_rune sub = Ok (u0, sz0) /\ slice_from sub sz0 = Ok (skipn (Z.to_nat sz0) sub) /\
    first_rune (skipn (Z.to_nat sz0) sub) = Ok (u1, sz1) /\
    slice_from sub (sz0 + sz1) = Ok needle /\
    slice_to sub (sz0 + sz1) = Ok (firstn (Z.to_nat (sz0 + sz1)) sub) /\
    sz0 = Z.of_nat (off sub 1) /\ sz0 + sz1 = Z.of_nat (off sub 2) /\
    u0 = nth 0 (runes sub) 0 /\ u1 = nth 1 (runes sub) 0 /\
    split2 sub u0 u1 sz0 sz1 needle.
Proof.
  intros Hw H2.
  destruct (rune_at sub 0 ltac:(lia)) as (O0 & S0 & F0). rewrite off_0 in *. cbn [skipn] in F0.
  destruct (rune_at sub 1 ltac:(lia)) as (O1 & S1 & F1).
  exists (nth 0 (runes sub) 0), (Z.of_nat (off sub 1)), (nth 1 (runes sub) 0), (Z.of_nat (off sub 2) - Z.of_nat (off sub 1)), (skipn (off sub 2) sub).
  replace (Z.of_nat (off sub 1) - Z.of_nat 0) with (Z.of_nat (off sub 1)) in F0 by lia.
  rewrite Nat2Z.id.
  assert (Es : Z.of_nat (off sub 1) + (Z.of_nat (off sub 2) - Z.of_nat (off sub 1)) = Z.of_nat (off sub 2)) by lia.
  rewrite Es. rewrite Nat2Z.id.
  assert (Hk : K sub = fold (nth 0 (runes sub) 0) :: fold (nth 1 (runes sub) 0) :: K (skipn (off sub 2) sub)).
  { rewrite (key_skipn_off fold sub 2). rewrite <- (firstn_skipn 2 (K sub)) at 1.
    rewrite <- !(nth_key fold) by lia.
    assert (L : (2 <= length (K sub))%nat) by (rewrite (key_length fold); exact H2).
    destruct (K sub) as [|x [|y l]]; cbn in L; try lia. reflexivity. }
  assert (Hr : forall a, (a < rune_count sub)%nat -> 0 <= nth a (runes sub) 0 <= MaxRune).
  { intros a Ha. pose proof (runes_range' sub Hw) as R. rewrite Forall_forall in R. apply R. apply nth_In. rewrite runes_length. exact Ha. }
  pose proof (nth_error_segs_width sub) as Wd.
  assert (W0 : (1 <= off sub 1 <= 4)%nat).
  { destruct (nth_error (segs sub) 0) as [d|] eqn:E; [|apply nth_error_None in E; unfold rune_count in H2; lia].
    rewrite (off_S sub 0 d E), off_0. specialize (Wd 0%nat d E). lia. }
  assert (W1 : (1 <= off sub 2 - off sub 1 <= 4)%nat).
  { destruct (nth_error (segs sub) 1) as [d|] eqn:E; [|apply nth_error_None in E; unfold rune_count in H2; lia].
    rewrite (off_S sub 1 d E). specialize (Wd 1%nat d E). lia. }
  repeat split; try assumption; try reflexivity; try lia.
  - unfold slice_from, len. pose proof (off_le sub 2). replace ((0 <=? Z.of_nat (off sub 2)) && (Z.of_nat (off sub 2) <=? Z.of_nat (length sub))) with true by lia.
    rewrite Nat2Z.id. reflexivity.
  - unfold slice_to, len. pose proof (off_le sub 2). replace ((0 <=? Z.of_nat (off sub 2)) && (Z.of_nat (off sub 2) <=? Z.of_nat (length sub))) with true by lia.
    rewrite Nat2Z.id. reflexivity.
  - unfold len. rewrite skipn_length. pose proof (off_le sub 2). lia.
  - apply wf_skipn. exact Hw.
  - apply Hr. lia.
  - apply Hr. lia.
  - apply Hr. lia.
  - apply Hr. lia.
Qed.


Lemma skipn_two {A} (l : list A) a d : (a + 2 <= length l)%nat -> skipn a l = nth a l d :: nth (S a) l d :: skipn (a + 2) l.
Proof.
  intros H. rewrite <- (firstn_skipn 2 (skipn a l)) at 1.
  rewrite (firstn_S_skipn l a 1 d) by lia. rewrite (firstn_S_skipn l (S a) 0 d) by lia. cbn [firstn app].
  rewrite skipn_skipn_add. reflexivity.
Qed.

Section Match.
Variables s sub : bytes.
Variables u0 u1 sz0 sz1 : Z.
Variable needle : bytes.
Hypothesis Hws : wf s.
Hypothesis Hwsub : wf sub.
Hypothesis SP : split2 sub u0 u1 sz0 sz1 needle.

Lemma match_split a :
  match_at s sub a = true <->
  (a + 2 <= rune_count s)%nat /\ fold (nth a (runes s) 0) = fold u0 /\ fold (nth (S a) (runes s) 0) = fold u1 /\
  has_prefix fold (skipn (off s (a + 2)) s) needle = true.
Proof.
  unfold SpecIndex.match_at. rewrite (sp_key _ _ _ _ _ _ SP).
  destruct (le_lt_dec (a + 2) (rune_count s)) as [Hle|Hgt].
  - rewrite (skipn_two (K s) a 0) by (rewrite (key_length fold); exact Hle).
    rewrite !(nth_key fold) by lia. cbn [prefixb]. rewrite !andb_true_iff, !Z.eqb_eq.
    unfold has_prefix. rewrite (key_skipn_off fold). split.
    + intros (E0 & E1 & P). repeat split; try assumption; try lia.
    + intros (_ & E0 & E1 & P). repeat split; try assumption; lia.
  - split; [|intros (H & _); lia]. intros P. apply prefixb_length in P.
    rewrite skipn_length, (key_length fold) in P. cbn [length] in P. lia.
Qed.

(* a match cannot start, nor continue after its first code point, too close to the end of s *)
Lemma match_bounds a :
  match_at s sub a = true ->
  len sub <= 3 * (len s - Z.of_nat (off s a)) /\ len sub - sz0 <= 3 * (len s - Z.of_nat (off s (S a))).
Proof.
  intros M. pose proof M as M2. unfold SpecIndex.match_at in M.
  rewrite <- (key_skipn_off fold s a) in M.
  destruct (prefix_len_bound fold WF sub (skipn (off s a) s) Hwsub (wf_skipn _ _ Hws) M) as [B _].
  split.
  { unfold len in *. rewrite skipn_length in B. pose proof (off_le s a). lia. }
  apply match_split in M2 as (Hle & _ & _ & _).
  unfold SpecIndex.match_at in M. rewrite (key_skipn_off fold s a) in M.
  set (sub1 := skipn (off sub 1) sub).
  assert (K1 : K sub1 = skipn 1 (K sub)) by apply (key_skipn_off fold).
  assert (M1 : prefixb (K sub1) (K (skipn (off s (S a)) s)) = true).
  { rewrite K1, (key_skipn_off fold s (S a)). rewrite (sp_key _ _ _ _ _ _ SP) in *.
    change (skipn 1 (fold u0 :: fold u1 :: K needle)) with (fold u1 :: K needle).
    assert (E : skipn (S a) (K s) = nth (S a) (K s) 0 :: skipn (a + 2) (K s)).
    { replace (S a) with (a + 1)%nat at 1 by lia. rewrite <- skipn_skipn_add.
      rewrite (skipn_two (K s) a 0) by (rewrite (key_length fold); exact Hle). reflexivity. }
    rewrite E. rewrite (skipn_two (K s) a 0) in M by (rewrite (key_length fold); exact Hle).
    cbn [prefixb] in M. apply andb_true_iff in M as [_ M]. exact M. }
  destruct (prefix_len_bound fold WF sub1 (skipn (off s (S a)) s) (wf_skipn _ _ Hwsub) (wf_skipn _ _ Hws) M1) as [B1 _].
  unfold len in *. rewrite !skipn_length in B1. rewrite (sp_off _ _ _ _ _ _ SP).
  assert (L1 : length sub1 = (length sub - off sub 1)%nat) by (unfold sub1; apply skipn_length).
  pose proof (off_le s (S a)). pose proof (off_le sub 1). lia.
Qed.

End Match.


Section BF.
Variable p : pkg.
Variables s sub : bytes.
Variables u0 u1 sz0 sz1 : Z.
Variable needle : bytes.
Hypothesis Hws : wf s.
Hypothesis Hwsub : wf sub.
Hypothesis SP : split2 sub u0 u1 sz0 sz1 needle.
Variables c0 c1 skip : Z -> bool.
Variable t : Z.
Hypothesis Hc0 : forall r, In r (runes s) -> (c0 r = true <-> fold r = fold u0).
Hypothesis Hc1 : forall r, In r (runes s) -> (c1 r = true <-> fold r = fold u1).
Hypothesis Hskip : forall r, In r (runes s) -> skip r = true -> c0 r = false.
Hypothesis Ht : t <= len s.
Hypothesis Ht1 : forall a, match_at s sub a = true -> Z.of_nat (off s a) < t /\ Z.of_nat (off s (S a)) < t.

Lemma rune_in a : (a < rune_count s)%nat -> In (nth a (runes s) 0) (runes s).
Proof. intros H. apply nth_In. rewrite runes_length. exact H. Qed.

(* needle matching at a later boundary of s is needle matching at a boundary of the rest *)
Lemma later_match a a' :
  (a < a')%nat -> match_at s sub a' = true ->
  match_at (skipn (off s (a + 2)) s) needle (a' - a) = true.
Proof.
  intros Hlt M. apply (match_split s sub u0 u1 sz0 sz1 needle SP) in M as (Hle & _ & _ & P).
  unfold SpecIndex.match_at. unfold has_prefix in P. rewrite (key_skipn_off fold) in *.
  rewrite skipn_skipn_add. replace (a + 2 + (a' - a))%nat with (a' + 2)%nat by lia. exact P.
Qed.

Lemma bf_loop_ok fuel a :
  (a <= rune_count s)%nat -> (forall a', (a' < a)%nat -> match_at s sub a' = false) -> (rune_count s - a < fuel)%nat ->
  bf_loop fold lower p fuel s needle t c0 c1 skip (Z.of_nat (off s a)) = Ok (index fold s sub).
Proof.
  revert a. induction fuel as [|f IH]; intros a Ha Hno Hf; [lia|].
  cbn [bf_loop]. unfold len in Ht.
  destruct (Z.of_nat (off s a) <? t) eqn:Lt.
  2:{ f_equal. symmetry. apply index_none. intros a'. destruct (match_at s sub a') eqn:M; [|reflexivity]. exfalso.
      destruct (le_lt_dec a a') as [Hge|Hlt]; [|rewrite (Hno a' Hlt) in M; discriminate].
      destruct (Ht1 a' M) as [B _]. pose proof (off_mono s a a' Hge). lia. }
  assert (Ha' : (a < rune_count s)%nat) by (apply boundary_lt; [exact Ha|lia]).
  destruct (rune_at s a Ha') as (O0 & S0 & F0). rewrite S0. cbn [bind]. rewrite F0. cbn [bind].
  set (r0 := nth a (runes s) 0) in *.
  replace (Z.of_nat (off s a) + (Z.of_nat (off s (S a)) - Z.of_nat (off s a))) with (Z.of_nat (off s (S a))) by lia.
  pose proof (match_split s sub u0 u1 sz0 sz1 needle SP) as MS.
  destruct (c0 r0) eqn:C0; cbn [negb].
  2:{ (* not a candidate: no match here *)
      apply IH; [lia| |lia]. intros a' Hlt. destruct (Nat.eq_dec a' a) as [->|]; [|apply Hno; lia].
      destruct (match_at s sub a) eqn:M; [|reflexivity]. apply MS in M as (_ & E0 & _).
      apply (Hc0 r0 (rune_in a Ha')) in E0. congruence. }
  destruct (t <=? Z.of_nat (off s (S a))) eqn:Brk.
  { (* too close to the end *)
    f_equal. symmetry. apply index_none. intros a'. destruct (match_at s sub a') eqn:M; [|reflexivity]. exfalso.
    destruct (Ht1 a' M) as [B1 B2].
    destruct (lt_eq_lt_dec a' a) as [[Hlt|Heq]|Hgt]; [rewrite (Hno a' Hlt) in M; discriminate|subst; lia|].
    pose proof (off_mono s (S a) a' Hgt). lia. }
  assert (Ha1 : (S a < rune_count s)%nat) by (apply boundary_lt; [lia|lia]).
  destruct (rune_at s (S a) Ha1) as (O1 & S1 & F1). rewrite S1. cbn [bind]. rewrite F1. cbn [bind].
  set (r1 := nth (S a) (runes s) 0) in *.
  set (n1 := Z.of_nat (off s (S (S a))) - Z.of_nat (off s (S a))).
  (* where the search resumes: after the first code point, or after the second when it cannot start a match *)
  assert (Hadv : exists a2, Z.of_nat (off s (S a)) + (if skip r1 then n1 else 0) = Z.of_nat (off s a2) /\ (S a <= a2 <= S (S a))%nat /\
                 (match_at s sub a = false -> forall a', (a' < a2)%nat -> match_at s sub a' = false)).
  { destruct (skip r1) eqn:Sk.
    - exists (S (S a)). split; [unfold n1; lia|]. split; [lia|]. intros Na a' Hlt.
      destruct (Nat.eq_dec a' (S a)) as [->|]; [|destruct (Nat.eq_dec a' a) as [->|]; [exact Na|apply Hno; lia]].
      destruct (match_at s sub (S a)) eqn:M; [|reflexivity]. apply MS in M as (_ & E0 & _).
      apply (Hc0 r1 (rune_in (S a) Ha1)) in E0. rewrite (Hskip r1 (rune_in (S a) Ha1) Sk) in E0. discriminate.
    - exists (S a). split; [lia|]. split; [lia|]. intros Na a' Hlt.
      destruct (Nat.eq_dec a' a) as [->|]; [exact Na|apply Hno; lia]. }
  destruct Hadv as (a2 & Eadv & Ha2 & Hno2). rewrite Eadv.
  destruct (c1 r1) eqn:C1; cbn [negb].
  2:{ apply IH; [lia| |lia]. apply Hno2.
      destruct (match_at s sub a) eqn:M; [|reflexivity]. apply MS in M as (_ & _ & E1 & _).
      apply (Hc1 r1 (rune_in (S a) Ha1)) in E1. congruence. }
  (* both candidates: compare the rest *)
  replace (Z.of_nat (off s (S a)) + n1) with (Z.of_nat (off s (a + 2))) by (unfold n1; replace (a + 2)%nat with (S (S a)) by lia; lia).
  pose proof (off_le s (a + 2)) as Ole.
  unfold slice_from at 1. unfold len. replace ((0 <=? Z.of_nat (off s (a + 2))) && (Z.of_nat (off s (a + 2)) <=? Z.of_nat (length s))) with true by lia.
  cbn [bind]. rewrite Nat2Z.id.
  destruct (hasPrefixUnicode_ok fold lower FF WF p (skipn (off s (a + 2)) s) needle (wf_skipn _ _ Hws) (sp_wf _ _ _ _ _ _ SP)) as (ex & Ehp & Hex).
  rewrite Ehp. cbn [bind fst snd].
  destruct (has_prefix fold (skipn (off s (a + 2)) s) needle) eqn:HP.
  - (* match *)
    f_equal. symmetry. apply index_at; [|exact Hno|lia].
    apply MS. repeat split; try lia; try exact HP.
    + apply (Hc0 r0 (rune_in a Ha')). exact C0.
    + apply (Hc1 r1 (rune_in (S a) Ha1)). exact C1.
  - assert (Na : match_at s sub a = false).
    { destruct (match_at s sub a) eqn:M; [|reflexivity]. apply MS in M as (_ & _ & _ & P). congruence. }
    destruct ex.
    + (* exhausted: nothing later either *)
      f_equal. symmetry. apply index_none. intros a'. destruct (match_at s sub a') eqn:M; [|reflexivity]. exfalso.
      destruct (lt_eq_lt_dec a' a) as [[Hlt|Heq]|Hgt]; [rewrite (Hno a' Hlt) in M; discriminate|subst; congruence|].
      pose proof (later_match a a' Hgt M) as L. rewrite (Hex eq_refl eq_refl (a' - a)%nat) in L. discriminate.
    + apply IH; [lia|apply Hno2; exact Na|lia].
Qed.

End BF.


Section BFTop.
Variable fold_map_excl : Z -> Z * Z.
Variable upper_lower : Z -> Z * Z * bool.
Variable p : pkg.
Notation ul_hack := (Impl6.ul_hack upper_lower).

(* F8 for the abstract lookups *)
Hypothesis Hcand2 : forall u r, 0 <= u <= MaxRune -> int32 r ->
  (cand (fst (ul_hack u)) (snd (ul_hack u)) (fold_map_excl u) r = true <-> fold r = fold u).

Lemma cand_self u : 0 <= u <= MaxRune -> cand (fst (ul_hack u)) (snd (ul_hack u)) (fold_map_excl u) u = true.
Proof. intros Hu. apply Hcand2; [exact Hu|unfold int32, MaxRune in *; lia|reflexivity]. Qed.

(* bytes of the first two code points when both are scalar values *)
Lemma first_two_bytes sub :
  wf sub -> (2 <= rune_count sub)%nat ->
  nth 0 (runes sub) 0 <> RuneError -> nth 1 (runes sub) 0 <> RuneError ->
  firstn (off sub 2) sub = encode (nth 0 (runes sub) 0) ++ encode (nth 1 (runes sub) 0) /\
  valid_rune (nth 0 (runes sub) 0) = true /\ valid_rune (nth 1 (runes sub) 0) = true.
Proof.
  intros Hw H2 N0 N1.
  destruct sub as [|b t]; [cbn in H2; lia|].
  assert (R0 : nth 0 (runes (b :: t)) 0 = fst (decode (b :: t))) by (unfold runes; rewrite segs_cons; reflexivity).
  assert (D0 : decode (b :: t) <> RE1) by (intros E; rewrite R0, E in N0; apply N0; reflexivity).
  destruct (encode_decode b t Hw D0) as [E0 V0].
  set (w0 := snd (decode (b :: t))) in *.
  assert (O1 : off (b :: t) 1 = w0) by (rewrite off_cons, off_0; unfold w0; lia).
  destruct (skipn w0 (b :: t)) as [|c t'] eqn:Sk.
  { exfalso. rewrite rune_count_cons in H2. fold w0 in H2. rewrite Sk in H2. cbn in H2. lia. }
  assert (Hw' : wf (c :: t')) by (rewrite <- Sk; apply wf_skipn; exact Hw).
  assert (R1 : nth 1 (runes (b :: t)) 0 = fst (decode (c :: t'))).
  { unfold runes. rewrite segs_cons. fold w0. rewrite Sk, segs_cons. reflexivity. }
  assert (D1 : decode (c :: t') <> RE1) by (intros E; rewrite R1, E in N1; apply N1; reflexivity).
  destruct (encode_decode c t' Hw' D1) as [E1 V1].
  set (w1 := snd (decode (c :: t'))) in *.
  assert (O2 : off (b :: t) 2 = (w0 + w1)%nat).
  { rewrite off_cons. fold w0. rewrite Sk, off_cons, off_0. unfold w1. lia. }
  rewrite R0, R1, O2. split; [|split; assumption].
  rewrite firstn_add. rewrite E0. f_equal. rewrite Sk. exact E1.
Qed.

Lemma no_match_beyond_rc s sub a : (2 <= rune_count sub)%nat -> (rune_count s < a)%nat -> match_at s sub a = false.
Proof.
  intros H2 H. unfold SpecIndex.match_at. rewrite skipn_all2 by (rewrite (key_length fold); lia).
  destruct (K sub) eqn:E; [|reflexivity]. apply (f_equal (@length Z)) in E. rewrite (key_length fold) in E. cbn in E. lia.
Qed.

Theorem bruteforce_refines s sub :
  wf s -> wf sub -> (2 <= rune_count sub)%nat ->
  bruteForceIndexUnicode fold lower fold_map_excl upper_lower p s sub = Ok (index fold s sub).
Proof.
  intros Hws Hwsub H2. unfold bruteForceIndexUnicode.
  destruct (split2_ok sub Hwsub H2) as (u0 & sz0 & u1 & sz1 & needle & F0 & S0 & F1 & S1 & S2 & Eo1 & Eo2 & Eu0 & Eu1 & SP).
  rewrite F0. cbn [bind]. rewrite S0. cbn [bind]. rewrite F1. cbn [bind]. rewrite S1. cbn [bind].
  pose proof (Hcand2 u0) as HC0. pose proof (Hcand2 u1) as HC1.
  pose proof (cand_self u0 (sp_u0 _ _ _ _ _ _ SP)) as Self0. pose proof (cand_self u1 (sp_u1 _ _ _ _ _ _ SP)) as Self1.
  destruct (ul_hack u0) as [U0 l0] eqn:UL0. destruct (ul_hack u1) as [U1 l1] eqn:UL1. cbn [fst snd] in *.
  set (f0 := fold_map_excl u0) in *. set (f1 := fold_map_excl u1) in *.
  set (t0 := len s - len sub / 3 + 2). set (t := if len s <? t0 then len s else t0).
  assert (Ht : t <= len s) by (unfold t; destruct (len s <? t0) eqn:E; lia).
  assert (Ht1 : forall a, match_at s sub a = true -> Z.of_nat (off s a) < t /\ Z.of_nat (off s (S a)) < t).
  { intros a M. destruct (match_bounds s sub u0 u1 sz0 sz1 needle Hws Hwsub SP a M) as [B1 B2].
    apply (match_split s sub u0 u1 sz0 sz1 needle SP) in M as (Hle & _).
    pose proof (off_lt_len s (S a) ltac:(lia)) as L1. pose proof (off_strict s a ltac:(lia)) as L0.
    pose proof (sp_sz0 _ _ _ _ _ _ SP). unfold t, t0, len in *. destruct (Z.of_nat (length s) <? _) eqn:E; lia. }
  assert (Hint : forall r, In r (runes s) -> int32 r) by (intros r Hr; apply (runes_int32' s r Hws Hr)).
  assert (Hc0 : forall r, In r (runes s) -> (cand U0 l0 f0 r = true <-> fold r = fold u0)).
  { intros r Hr. apply HC0; [exact (sp_u0 _ _ _ _ _ _ SP)|apply Hint; exact Hr]. }
  assert (Hc1 : forall r, In r (runes s) -> (cand U1 l1 f1 r = true <-> fold r = fold u1)).
  { intros r Hr. apply HC1; [exact (sp_u1 _ _ _ _ _ _ SP)|apply Hint; exact Hr]. }
  destruct (negb (negb (fst f0 =? 0)) && (U0 =? l0) && negb (negb (fst f1 =? 0)) && (U1 =? l1)) eqn:Arm1.
  - (* caseless first two code points *)
    assert (Z0 : fst f0 = 0) by lia. assert (Z1 : fst f1 = 0) by lia. assert (EU0 : U0 = l0) by lia. assert (EU1 : U1 = l1) by lia.
    assert (Ec0 : forall r, cand U0 l0 f0 r = (r =? U0)).
    { intros r. unfold cand. rewrite Z0, <- EU0. cbn. rewrite orb_false_r, orb_diag. reflexivity. }
    assert (Ec1 : forall r, cand U1 l1 f1 r = (r =? U1)).
    { intros r. unfold cand. rewrite Z1, <- EU1. cbn. rewrite orb_false_r, orb_diag. reflexivity. }
    assert (Eu0' : u0 = U0) by (rewrite Ec0 in Self0; lia). assert (Eu1' : u1 = U1) by (rewrite Ec1 in Self1; lia).
    (* where the loop starts *)
    assert (Hstart : exists a0, (a0 <= S (rune_count s))%nat /\ (forall a', (a' < a0)%nat -> match_at s sub a' = false) /\
              ((do i0 <- (if negb (U0 =? RuneError) && negb (U1 =? RuneError)
                          then do pre <- slice_to sub (sz0 + sz1); Ok (std_index s pre) else Ok 0);
                if i0 <? 0 then Ok (-1)
                else bf_loop fold lower p (S (length s)) s needle t (fun r => r =? U0) (fun r => r =? U1) (fun r1 => negb (r1 =? U0)) i0) =
               (if (a0 =? S (rune_count s))%nat then Ok (-1)
                else bf_loop fold lower p (S (length s)) s needle t (fun r => r =? U0) (fun r => r =? U1) (fun r1 => negb (r1 =? U0)) (Z.of_nat (off s a0))))).
    { destruct (negb (U0 =? RuneError) && negb (U1 =? RuneError)) eqn:NE.
      2:{ exists 0%nat. split; [lia|]. split; [intros a' Ha'; lia|]. cbn [bind]. rewrite off_0.
          replace (0 =? S (rune_count s))%nat with false by lia. reflexivity. }
      rewrite S2. cbn [bind]. rewrite Eo2, Nat2Z.id.
      assert (N0 : nth 0 (runes sub) 0 <> RuneError) by (rewrite <- Eu0; lia).
      assert (N1 : nth 1 (runes sub) 0 <> RuneError) by (rewrite <- Eu1; lia).
      destruct (first_two_bytes sub Hwsub H2 N0 N1) as (Epre & V0 & V1). rewrite <- Eu0, <- Eu1 in *.
      set (pre := firstn (off sub 2) sub) in *. clearbody pre.
      assert (Hpre : pre <> []).
      { rewrite Epre. destruct (encode u0) eqn:E; [|discriminate]. apply (f_equal (@length Z)) in E.
        pose proof (encode_length u0 V0) as L. unfold len in L. rewrite E in L. cbn in L.
        unfold rune_len in L. repeat match type of L with context [if ?c then _ else _] => destruct c end; lia. }
      (* a match is a raw occurrence of the two encodings *)
      assert (Hocc : forall a, match_at s sub a = true -> occ pre s (off s a) = true).
      { intros a M. apply (match_split s sub u0 u1 sz0 sz1 needle SP) in M as (Hle & E0 & E1 & _).
        assert (In0 : In (nth a (runes s) 0) (runes s)) by (apply nth_In; rewrite runes_length; lia).
        assert (In1 : In (nth (S a) (runes s) 0) (runes s)) by (apply nth_In; rewrite runes_length; lia).
        assert (R0 : nth a (runes s) 0 = u0).
        { apply (Hc0 _ In0) in E0. rewrite Ec0 in E0. lia. }
        assert (R1 : nth (S a) (runes s) 0 = u1).
        { apply (Hc1 _ In1) in E1. rewrite Ec1 in E1. lia. }
        assert (N0' : nth 0 (runes (skipn (off s a) s)) 0 <> RuneError).
        { rewrite runes_skipn_off, nth_skipn_add, Nat.add_0_r, R0. lia. }
        assert (N1' : nth 1 (runes (skipn (off s a) s)) 0 <> RuneError).
        { rewrite runes_skipn_off, nth_skipn_add. replace (a + 1)%nat with (S a) by lia. rewrite R1. lia. }
        assert (RC : (2 <= rune_count (skipn (off s a) s))%nat).
        { unfold rune_count. rewrite segs_skipn_off, skipn_length. unfold rune_count in Hle. lia. }
        destruct (first_two_bytes (skipn (off s a) s) (wf_skipn _ _ Hws) RC N0' N1') as (Eb & _ & _).
        rewrite runes_skipn_off, !nth_skipn_add, Nat.add_0_r in Eb. replace (a + 1)%nat with (S a) in Eb by lia.
        rewrite R0, R1, <- Epre in Eb.
        unfold occ. apply firstn_starts_with.
        - rewrite <- Eb, firstn_length. lia.
        - rewrite <- Eb. apply firstn_length_firstn. }
      destruct (occ_least_or_none pre s) as [No|(q & Hq & Hlq)].
      - (* no occurrence: no match *)
        rewrite (std_index_absent _ _ No). cbn.
        exists (S (rune_count s)). split; [lia|]. split.
        + intros a' _. destruct (match_at s sub a') eqn:M; [|reflexivity].
          apply Hocc in M. rewrite No in M. discriminate.
        + rewrite Nat.eqb_refl. reflexivity.
      - rewrite (std_index_least _ _ q Hpre Hq Hlq).
        replace (Z.of_nat q <? 0) with false by lia.
        (* the first occurrence starts with a start byte, hence on a boundary *)
        assert (Hql : (q < length s)%nat).
        { apply (occ_nth _ _ _ Hpre) in Hq as [L _]. destruct pre; [congruence|cbn in L; lia]. }
        assert (Hst : is_start (nth q s 0) = true).
        { apply (occ_nth _ _ _ Hpre) in Hq as [_ N]. specialize (N 0%nat ltac:(destruct pre; [congruence|cbn; lia])).
          rewrite Nat.add_0_r in N. rewrite N, Epre.
          destruct (Z_lt_le_dec u0 128) as [A|A].
          - rewrite encode_ascii by (pose proof (sp_u0 _ _ _ _ _ _ SP); lia). cbn. unfold is_start, is_cont. lia.
          - destruct (encode_shape u0 V0 A) as (e0 & etl & Ee & He0 & _). rewrite Ee. cbn. exact He0. }
        destruct (start_is_boundary s q Hql Hst) as (a0 & Ha0 & Eo).
        exists a0. split; [lia|]. split.
        + intros a' Hlt. destruct (match_at s sub a') eqn:M; [|reflexivity]. apply Hocc in M.
          pose proof (match_at s sub a'). assert (off s a' < q)%nat.
          { rewrite <- Eo. apply off_lt; lia. }
          rewrite (Hlq _ H0) in M. discriminate.
        + replace (a0 =? S (rune_count s))%nat with false by lia. rewrite Eo. reflexivity. }
    destruct Hstart as (a0 & Ha0 & Hno0 & Est). rewrite Est.
    destruct (a0 =? S (rune_count s))%nat eqn:Ea.
    + f_equal. symmetry. apply index_none. intros a'. destruct (le_lt_dec a0 a') as [Hge|Hlt]; [|apply Hno0; exact Hlt].
      apply no_match_beyond_rc; [exact H2|]. apply Nat.eqb_eq in Ea. lia.
    + apply Nat.eqb_neq in Ea.
      apply (bf_loop_ok p s sub u0 u1 sz0 sz1 needle Hws SP _ _ _ t); try assumption; try (pose proof (rune_count_le s); lia).
      all: try (intros r Hr; rewrite <- Ec0; apply Hc0; exact Hr).
      all: try (intros r Hr; rewrite <- Ec1; apply Hc1; exact Hr).
      all: try (intros r Hr Hs; lia).
  - destruct (negb (negb (fst f0 =? 0)) && negb (negb (fst f1 =? 0))) eqn:Arm2.
    + (* upper / lower variants only *)
      assert (Z0 : fst f0 = 0) by lia. assert (Z1 : fst f1 = 0) by lia.
      assert (Ec0 : forall r, cand U0 l0 f0 r = (r =? U0) || (r =? l0)).
      { intros r. unfold cand. rewrite Z0. cbn. rewrite orb_false_r. reflexivity. }
      assert (Ec1 : forall r, cand U1 l1 f1 r = (r =? U1) || (r =? l1)).
      { intros r. unfold cand. rewrite Z1. cbn. rewrite orb_false_r. reflexivity. }
      pose proof (fun H1 H2 H3 => bf_loop_ok p s sub u0 u1 sz0 sz1 needle Hws SP
                    (fun r => (r =? U0) || (r =? l0)) (fun r => (r =? U1) || (r =? l1))
                    (fun r1 => negb (r1 =? U0) && negb (r1 =? l0)) t H1 H2 H3 Ht Ht1 (S (length s)) 0%nat) as B.
      rewrite off_0 in B. apply B; try (pose proof (rune_count_le s); lia).
      all: try (intros r Hr; rewrite <- Ec0; apply Hc0; exact Hr).
      all: try (intros r Hr; rewrite <- Ec1; apply Hc1; exact Hr).
      all: try (intros r Hr Hs; lia).
      all: try (intros a' Ha'; lia).
    + pose proof (fun H3 => bf_loop_ok p s sub u0 u1 sz0 sz1 needle Hws SP
                    (cand U0 l0 f0) (cand U1 l1 f1)
                    (fun r1 => negb (negb (fst f0 =? 0)) && negb (r1 =? U0) && negb (r1 =? l0)) t Hc0 Hc1 H3 Ht Ht1 (S (length s)) 0%nat) as B.
      rewrite off_0 in B. apply B; try (pose proof (rune_count_le s); lia).
      all: try (intros r Hr Hs; unfold cand; destruct (fst f0 =? 0) eqn:Z; cbn [negb andb] in *; [rewrite orb_false_r; lia|discriminate]).
      all: try (intros a' Ha'; lia).
Qed.

End BFTop.


(* ---------- searching a boundary suffix ---------- *)

Lemma match_at_suffix s sub b k : match_at (skipn (off s b) s) sub k = match_at s sub (b + k).
Proof. unfold SpecIndex.match_at. rewrite (key_skipn_off fold), skipn_skipn_add. reflexivity. Qed.

Lemma index_suffix s sub b :
  (b <= rune_count s)%nat -> (forall a', (a' < b)%nat -> match_at s sub a' = false) ->
  index fold s sub =
  (let j := index fold (skipn (off s b) s) sub in if j <? 0 then -1 else Z.of_nat (off s b) + j).
Proof.
  intros Hb Hno. cbv zeta. set (rest := skipn (off s b) s).
  unfold index at 2 3. destruct (find_first (K sub) (K rest) 0) as [k|] eqn:F; cbn [offz].
  - apply find_first_some in F as (d & -> & Hd & Hm & Hn). cbn [Nat.add] in *.
    replace (Z.of_nat (off rest d) <? 0) with false by lia.
    assert (Hdr : (d <= rune_count rest)%nat) by (rewrite <- (key_length fold); exact Hd).
    assert (Erc : rune_count rest = (rune_count s - b)%nat) by (unfold rest, rune_count; rewrite segs_skipn_off; apply skipn_length).
    rewrite (index_at fold s sub (b + d)).
    + rewrite off_add. unfold rest. lia.
    + rewrite <- match_at_suffix. exact Hm.
    + intros a' Ha'. destruct (le_lt_dec b a') as [Hge|Hlt]; [|apply Hno; exact Hlt].
      replace a' with (b + (a' - b))%nat by lia. rewrite <- match_at_suffix. apply Hn. lia.
    + lia.
  - cbn. apply (index_none fold). intros a'. destruct (le_lt_dec b a') as [Hge|Hlt]; [|apply Hno; exact Hlt].
    replace a' with (b + (a' - b))%nat by lia. rewrite <- match_at_suffix. apply (find_first_none _ _ _ F).
Qed.

Lemma seg_width_off s a : (a < rune_count s)%nat -> seg_width s (Z.of_nat (off s a)) = Z.of_nat (off s (S a)) - Z.of_nat (off s a).
Proof.
  intros Ha. destruct (rune_at s a Ha) as (_ & _ & F). unfold seg_width. rewrite Nat2Z.id.
  destruct (skipn (off s a) s) as [|b t] eqn:Sk.
  { exfalso. apply (f_equal (@length Z)) in Sk. rewrite skipn_length in Sk. pose proof (off_lt_len s a Ha). cbn in Sk. lia. }
  rewrite first_rune_cons in F. inversion F. reflexivity.
Qed.

End Idx.
