(* Impl5.v — structure-faithful model, continued: the single-character
   searches (indexByte, IndexByte, IndexByteASCII, LastIndexByte, indexRune2,
   indexRune, IndexRune, ContainsRune, lastIndexRune).  Parameters: the
   configuration (native, cutover), the table lookups FoldMap and ToUpperLower
   (Fold.v over the regenerated tables), and which package shape.  Kernel
   calls are calls to the scalar definitions (bytealg.IndexByteString =
   Spec.k_index_byte; C13/C14 tie the kernels to them); strings.LastIndexByte
   is modelled by its contract.  Right-to-left loops walk the reversed list. *)
From Strcase Require Import Base Utf8 Spec Impl Impl4.

Definition or20 (b : Z) : Z := Z.lor b 32.           (* b | ' ' *)

Section Impl5.
Variable native : bool.
Variable cutover : Z -> Z.
Variable fold_map : Z -> option (list Z).            (* tables.FoldMap: nil or [4]uint16 *)
Variable upper_lower : Z -> Z * Z * bool.            (* tables.ToUpperLower *)

Notation irc := (indexRuneCase native cutover).

Definition is_ks (c : Z) : bool := (c =? 75) || (c =? 107) || (c =? 83) || (c =? 115).

(* indexByte: (index, size of what matched) *)
Definition indexByte (s : bytes) (c : Z) : res (Z * Z) :=
  if is_nil s then Ok (-1, 1)
  else
    let n := k_index_byte s c in
    let special := if (c =? 75) || (c =? 107) then Some (8490, 3)
                   else if (c =? 83) || (c =? 115) then Some (383, 2) else None in
    match special with
    | None => Ok (n, 1)
    | Some (r, sz) =>
      if (0 <? n) && (n <? sz) then Ok (n, 1)
      else
        let s' := if 0 <? n then firstn (Z.to_nat n) s else s in
        do o <- irc s' r;
        if (n =? -1) || (negb (o =? -1) && (o <? n)) then Ok (o, sz) else Ok (n, 1)
    end.

Definition IndexByte (s : bytes) (c : Z) : res Z :=
  if is_ks c then do r <- indexByte s c; Ok (fst r) else Ok (k_index_byte s c).

Definition IndexByteASCII (s : bytes) (c : Z) : res Z := Ok (k_index_byte s c).

(* strings.LastIndexByte on the reversed list *)
Fixpoint std_last_index_byte_rev (rs : bytes) (c : Z) : Z :=
  match rs with
  | [] => -1
  | b :: rs' => if b =? c then len rs' else std_last_index_byte_rev rs' c
  end.

(* "for i := len(s) - 1; i >= 0; i-- { if s[i]|' ' == c { return i } }" *)
Fixpoint lib_alpha (rs : bytes) (c : Z) : Z :=
  match rs with
  | [] => -1
  | b :: rs' => if or20 b =? c then len rs' else lib_alpha rs' c
  end.

(* "for i := len(s); i > 0; { if s[i-1] < RuneSelf { i--; if s[i]|' ' == c { return i } }
      else { sr, size := DecodeLastRune(s[:i]); i -= size; if sr == r { return i } } }" *)
Fixpoint lib_special (fuel : nat) (rs : bytes) (c r : Z) : res Z :=
  match fuel with
  | O => OutOfFuel
  | S f =>
    match rs with
    | [] => Ok (-1)
    | b :: rs' =>
      if b <? 128 then (if or20 b =? c then Ok (len rs') else lib_special f rs' c r)
      else let d := decode_last_rev rs in
           let rs1 := skipn (snd d) rs in
           if fst d =? r then Ok (len rs1) else lib_special f rs1 c r
    end
  end.

Definition LastIndexByte (s : bytes) (c : Z) : res Z :=
  if is_nil s then Ok (-1)
  else if negb (is_alpha c) then Ok (std_last_index_byte_rev (rev_append s []) c)
  else if (c =? 75) || (c =? 107) then lib_special (S (length s)) (rev_append s []) (or20 c) 8490
  else if (c =? 83) || (c =? 115) then lib_special (S (length s)) (rev_append s []) (or20 c) 383
  else Ok (lib_alpha (rev_append s []) (or20 c)).

(* s[:n] with Go's bounds check *)
Definition slice_to (s : bytes) (n : Z) : res bytes :=
  if (0 <=? n) && (n <=? len s) then Ok (firstn (Z.to_nat n) s) else Panic.

Definition indexRune2 (s : bytes) (lower upper : Z) : res (Z * Z) :=
  if Z.lor lower upper <? 128 then indexByte s (Z.land lower 127)
  else
    do n <- irc s lower;
    let sz := rune_len lower in
    if negb (n =? 0) && negb (lower =? upper) then
      let s' := if (0 <=? n) && (n <? len s) then firstn (Z.to_nat n) s else s in
      do o <- irc s' upper;
      if (n =? -1) || ((0 <=? o) && (o <? n)) then Ok (o, rune_len upper) else Ok (n, sz)
    else Ok (n, sz).

(* the loop over folds[0..3] of indexRune *)
Fixpoint ir_folds (folds : list Z) (r : Z) (s : bytes) (n size : Z) : res (Z * Z) :=
  match folds with
  | [] => Ok (n, size)
  | rr :: rest =>
    if rr =? r then ir_folds rest r s n size
    else if rr =? 0 then Ok (n, size)
    else
      do o <- irc s rr;
      if negb (o =? -1) && ((n =? -1) || (o <? n)) then
        do s' <- slice_to s o;
        ir_folds rest r s' o (rune_len rr)
      else ir_folds rest r s n size
  end.

(* first ill-formed byte or encoded U+FFFD, by ranging over the string *)
Definition indexRune (s : bytes) (r : Z) : res (Z * Z) :=
  if (0 <=? r) && (r <? 128) then indexByte s r
  else if r =? RuneError then
    (let i := first_error s 0 0 in if i =? -1 then Ok (-1, 1) else Ok (i, 3))
  else if negb (valid_rune r) then Ok (-1, 1)
  else
    match fold_map r with
    | Some folds =>
      let size := rune_len r in
      do n <- irc s r;
      if n =? 0 then Ok (0, size)
      else
        do s' <- (if 0 <? n then slice_to s n else Ok s);
        ir_folds folds r s' n size
    | None =>
      let '(u, l, ok) := upper_lower r in
      if ok then indexRune2 s l u
      else do n <- irc s r; Ok (n, rune_len r)
    end.

Definition IndexRune (s : bytes) (r : Z) : res Z := do x <- indexRune s r; Ok (fst x).
Definition ContainsRune (s : bytes) (r : Z) : res bool := do i <- IndexRune s r; Ok (0 <=? i).

(* backward rune loop: "for i := len(s); i > 0; { sr, i = previous rune; if P(sr) { return i } }";
   [ascii_fast]: "if sr = rune(s[i-1]); sr < RuneSelf { i-- }" before falling back to DecodeLastRune *)
Fixpoint last_rune_where (fuel : nat) (ascii_fast : bool) (P : Z -> bool) (rs : bytes) : res Z :=
  match fuel with
  | O => OutOfFuel
  | S f =>
    match rs with
    | [] => Ok (-1)
    | b :: rs' =>
      if ascii_fast && (b <? 128) then (if P b then Ok (len rs') else last_rune_where f ascii_fast P rs')
      else let d := decode_last_rev rs in
           let rs1 := skipn (snd d) rs in
           if P (fst d) then Ok (len rs1) else last_rune_where f ascii_fast P rs1
    end
  end.

(* "for j := 0; j < len(folds) && folds[j] != 0; j++ { if sr == rune(folds[j]) { return i } }" *)
Fixpoint in_folds (folds : list Z) (sr : Z) : bool :=
  match folds with
  | [] => false
  | f :: rest => if f =? 0 then false else (sr =? f) || in_folds rest sr
  end.

Definition lastIndexRune (p : pkg) (s : bytes) (r : Z) : res Z :=
  let rs := rev_append s [] in
  if r =? RuneError then last_rune_where (S (length s)) false (fun x => x =? RuneError) rs
  else if negb (valid_rune r) then Ok (-1)
  else
    match fold_map r with
    | Some folds => last_rune_where (S (length s)) true (in_folds folds) rs
    | None =>
      let '(u, l, _) := upper_lower r in
      match p with
      | Str => if u =? l then Ok (raw_last_index_pats [encode r] s 0)     (* byte-wise backward comparison with string(r) *)
               else last_rune_where (S (length s)) true (fun x => (x =? u) || (x =? l)) rs
      | Byt => last_rune_where (S (length s)) true (fun x => (x =? u) || (x =? l)) rs
      end
    end.

End Impl5.
