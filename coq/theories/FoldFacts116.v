(* FoldFacts116.v — the Unicode-13 table file (tables_go116.go; no
   toolchain in this sandbox compiles it, so there is no executable oracle):
   slot correctness, ranges, idempotence, the recorded UCD hash, and
   Unicode's stability policy (every Unicode-13 pair is a Unicode-15 pair). *)
From Strcase Require Import Base Fold FoldFacts FoldTables.
From StrcaseGen Require Tables116.

Lemma range116 : chk_range T116 = true.
Proof. vm_compute. reflexivity. Qed.
Lemma slots116 : chk_slots T116 = true.
Proof. vm_compute. reflexivity. Qed.
Lemma idem116 : chk_idem T116 = true.
Proof. vm_compute. reflexivity. Qed.

Theorem fold116_idempotent r : int32 r -> case_fold T116 (case_fold T116 r) = case_fold T116 r.
Proof. apply (fold_idempotent T116 range116 idem116). Qed.

Theorem fold116_outside r : int32 r -> (r < 0 \/ 1114111 < r) -> case_fold T116 r = r.
Proof. apply (fold_outside_unicode T116 range116). Qed.

Theorem version_recorded116 : Tables116.unicode_version = Tables116.recorded_unicode_version.
Proof. vm_compute. reflexivity. Qed.

Theorem ucd_hash_matches116 : case_fold_hash T116 = Tables116.recorded_case_fold_hash.
Proof. vm_compute. reflexivity. Qed.

Theorem u13_subset_u15 : pairs_subset T116 T121 = true.
Proof. vm_compute. reflexivity. Qed.
