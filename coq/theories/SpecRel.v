(* SpecRel.v — invariance under re-casing (C16) and embedding (C19) at Spec
   level. *)
From Strcase Require Import Base Utf8 Utf8Facts Spec SpecFacts SpecIndex SpecAffix.
From Coq Require Import ZifyBool ZifyNat.

(* ---------------- greedy counting is optimal ---------------- *)

(* any way of packing n disjoint matches of p into l *)
Inductive packing (p : list Z) : list Z -> nat -> Prop :=
| pack_none l : packing p l 0
| pack_skip x l n : packing p l n -> packing p (x :: l) n
| pack_match l n : prefixb p l = true -> packing p (skipn (length p) l) n -> packing p l (S n).

Lemma packing_skipn p j l n : packing p (skipn j l) n -> packing p l n.
Proof.
  revert l. induction j as [|j IH]; intros l H; [exact H|].
  destruct l as [|x l]; [exact H|]. apply pack_skip. apply IH. exact H.
Qed.

Lemma packing_first p l n :
  packing p l (S n) ->
  exists a, prefixb p (skipn a l) = true /\ packing p (skipn (a + length p) l) n.
Proof.
  intros H. remember (S n) as m eqn:Em. revert n Em.
  induction H as [l|x l m H IH|l m Hm H IH]; intros n Em; [discriminate| |].
  - destruct (IH n Em) as (a & Ha & Hp). exists (S a). split; [exact Ha|exact Hp].
  - inversion Em; subst. exists 0%nat. split; [exact Hm|exact H].
Qed.

Lemma greedy_optimal p : p <> [] -> forall m l, (length l <= m)%nat ->
  forall n, packing p l n -> (n <= count_aux p l 0)%nat.
Proof.
  intros Hp. assert (Hlp : (1 <= length p)%nat) by (destruct p; [congruence|simpl; lia]).
  induction m as [|m IH]; intros l Hl n H.
  - destruct l; [|simpl in Hl; lia]. destruct n as [|n]; [lia|].
    apply packing_first in H as (a & Ha & _). rewrite skipn_nil in Ha.
    destruct p; [congruence|discriminate].
  - destruct n as [|n]; [lia|]. rewrite (count_aux_unfold p l Hp).
    apply packing_first in H as (a & Ha & Hpk).
    destruct (find_first p l 0) as [g|] eqn:F.
    + apply find_first_some in F as (d & -> & Hd & Hm & Hlt). cbn [Nat.add].
      assert (Hga : (d <= a)%nat).
      { destruct (le_lt_dec d a); [assumption|]. rewrite (Hlt a) in Ha by lia. discriminate. }
      assert (Hpk' : packing p (skipn (d + length p) l) n).
      { apply (packing_skipn p (a - d)). rewrite skipn_skipn_add.
        replace (d + length p + (a - d))%nat with (a + length p)%nat by lia. exact Hpk. }
      apply le_n_S. apply (IH (skipn (d + length p) l)); [rewrite skipn_length; lia|exact Hpk'].
    + rewrite (find_first_none _ _ _ F a) in Ha. discriminate.
Qed.

Lemma greedy_is_packing p : p <> [] -> forall m l, (length l <= m)%nat -> packing p l (count_aux p l 0).
Proof.
  intros Hp. assert (Hlp : (1 <= length p)%nat) by (destruct p; [congruence|simpl; lia]).
  induction m as [|m IH]; intros l Hl.
  - destruct l; [|simpl in Hl; lia]. destruct p; [congruence|]. cbn. constructor.
  - rewrite (count_aux_unfold p l Hp). destruct (find_first p l 0) as [g|] eqn:F; [|constructor].
    apply find_first_some in F as (d & -> & Hd & Hm & _). cbn [Nat.add].
    apply (packing_skipn p d). apply pack_match; [exact Hm|]. rewrite skipn_skipn_add.
    apply IH. rewrite skipn_length. lia.
Qed.

Lemma packing_app_r p l r n : packing p l n -> packing p (l ++ r) n.
Proof.
  intros H. induction H as [l|x l m H IH|l m Hm H IH].
  - constructor.
  - cbn [app]. apply pack_skip. exact IH.
  - apply pack_match; [apply prefixb_app_r; exact Hm|].
    rewrite skipn_app_le by (apply prefixb_length; exact Hm). exact IH.
Qed.

Lemma packing_app_l p q l n : packing p l n -> packing p (q ++ l) n.
Proof. intros H. induction q as [|x q IH]; [exact H|]. cbn [app]. apply pack_skip. exact IH. Qed.

Theorem count_aux_monotone p q l r :
  p <> [] -> (count_aux p l 0 <= count_aux p (q ++ l ++ r) 0)%nat.
Proof.
  intros Hp. apply (greedy_optimal p Hp (length (q ++ l ++ r)) _ (le_n _)).
  apply packing_app_l, packing_app_r. apply (greedy_is_packing p Hp (length l) l (le_n _)).
Qed.

(* ---------------- embedding on key lists ---------------- *)

Lemma find_first_app_r p l r k : find_first p l 0 = Some k -> find_first p (l ++ r) 0 = Some k.
Proof.
  intros F. apply find_first_some in F as (d & -> & Hd & Hm & Hl). cbn [Nat.add].
  destruct (find_first p (l ++ r) 0) as [g|] eqn:G.
  - apply find_first_some in G as (e & -> & He & Hn & Hg). cbn [Nat.add]. f_equal.
    assert (Hmr : prefixb p (skipn d (l ++ r)) = true).
    { rewrite skipn_app_le by exact Hd. apply prefixb_app_r. exact Hm. }
    destruct (lt_eq_lt_dec e d) as [[L|E]|L]; [|exact E|].
    + (* a match at e < d in l ++ r lies inside l: d + |p| <= |l| *)
      exfalso. pose proof (prefixb_length _ _ Hm) as Lp. rewrite skipn_length in Lp.
      rewrite skipn_app_le in Hn by lia.
      apply prefixb_firstn in Hn as [Hn _].
      assert (Hq : prefixb p (skipn e l) = true).
      { apply prefixb_firstn. split.
        - rewrite <- Hn at 2. rewrite firstn_app.
          replace (length p - length (skipn e l))%nat with 0%nat by (rewrite skipn_length; lia).
          simpl. rewrite app_nil_r. reflexivity.
        - rewrite skipn_length. lia. }
      rewrite (Hl e L) in Hq. discriminate.
    + rewrite (Hg d L) in Hmr. discriminate.
  - exfalso. assert (Hmr : prefixb p (skipn d (l ++ r)) = true).
    { rewrite skipn_app_le by exact Hd. apply prefixb_app_r. exact Hm. }
    rewrite (find_first_none _ _ _ G d) in Hmr. discriminate.
Qed.

Lemma find_first_app_l p q l k :
  find_first p l 0 = Some k -> exists g, find_first p (q ++ l) 0 = Some g /\ (g <= length q + k)%nat.
Proof.
  intros F. apply find_first_some in F as (d & -> & Hd & Hm & _). cbn [Nat.add].
  assert (Hq : prefixb p (skipn (length q + d) (q ++ l)) = true).
  { rewrite skipn_app. rewrite skipn_all2 by lia. replace (length q + d - length q)%nat with d by lia. exact Hm. }
  destruct (find_first p (q ++ l) 0) as [g|] eqn:G.
  - exists g. split; [reflexivity|]. apply find_first_some in G as (e & -> & _ & _ & Hg). cbn [Nat.add].
    destruct (le_lt_dec e (length q + d)); [assumption|]. rewrite (Hg _ l0) in Hq. discriminate.
  - rewrite (find_first_none _ _ _ G _) in Hq. discriminate.
Qed.

Lemma find_last_app_l p q l k :
  find_last p l 0 = Some k -> find_last p (q ++ l) 0 = Some (length q + k)%nat.
Proof.
  intros F. apply find_last_some in F as (d & -> & Hd & Hm & Hl). cbn [Nat.add].
  assert (Hq : prefixb p (skipn (length q + d) (q ++ l)) = true).
  { rewrite skipn_app. rewrite skipn_all2 by lia. replace (length q + d - length q)%nat with d by lia. exact Hm. }
  destruct (find_last p (q ++ l) 0) as [g|] eqn:G.
  - apply find_last_some in G as (e & -> & He & Hn & Hg). cbn [Nat.add]. f_equal.
    rewrite app_length in He, Hg.
    destruct (lt_eq_lt_dec e (length q + d)) as [[L|E]|L]; [|exact E|].
    + rewrite (Hg _ L) in Hq by lia. discriminate.
    + exfalso. rewrite skipn_app in Hn. rewrite skipn_all2 in Hn by lia. cbn [app] in Hn.
      rewrite (Hl (e - length q)%nat) in Hn by lia. discriminate.
  - rewrite (find_last_none _ _ _ G _) in Hq. discriminate.
Qed.

Lemma find_last_app_r p l r k :
  find_last p l 0 = Some k -> exists g, find_last p (l ++ r) 0 = Some g /\ (k <= g)%nat.
Proof.
  intros F. apply find_last_some in F as (d & -> & Hd & Hm & _). cbn [Nat.add].
  assert (Hmr : prefixb p (skipn d (l ++ r)) = true).
  { rewrite skipn_app_le by exact Hd. apply prefixb_app_r. exact Hm. }
  destruct (find_last p (l ++ r) 0) as [g|] eqn:G.
  - exists g. split; [reflexivity|]. apply find_last_some in G as (e & -> & He & _ & Hg). cbn [Nat.add].
    destruct (le_lt_dec d e); [assumption|]. rewrite (Hg d l0) in Hmr; [discriminate|].
    rewrite app_length. lia.
  - rewrite (find_last_none _ _ _ G d) in Hmr. discriminate.
Qed.

(* ---------------- string level ---------------- *)

Section S.
Variable fold : Z -> Z.
Notation key := (key fold).

(* ---- C16: re-casing ---- *)

(* s' is s with code points replaced by fold-equal ones *)
Definition recase (s s' : bytes) : Prop := Forall2 (fun a b => fold a = fold b) (runes s) (runes s').

Theorem key_recase s s' : recase s s' -> key s = key s'.
Proof.
  unfold recase. rewrite !key_runes_map. intros H. induction H as [|a b l l' E _ IH]; [reflexivity|].
  cbn [map]. rewrite E, IH. reflexivity.
Qed.

Theorem recase_rune_count s s' : recase s s' -> rune_count s = rune_count s'.
Proof. intros H. apply key_recase in H. rewrite <- !(key_length fold), H. reflexivity. Qed.

Section Recased.
Variables s s' t t' : bytes.
Hypothesis Hs : recase s s'.
Hypothesis Ht : recase t t'.

Theorem recase_compare : compare fold s t = compare fold s' t'.
Proof. unfold compare. rewrite (key_recase _ _ Hs), (key_recase _ _ Ht). reflexivity. Qed.
Theorem recase_equal_fold : equal_fold fold s t = equal_fold fold s' t'.
Proof. unfold equal_fold. rewrite (key_recase _ _ Hs), (key_recase _ _ Ht). reflexivity. Qed.
Theorem recase_contains : contains fold s t = contains fold s' t'.
Proof.
  unfold contains, index. rewrite (key_recase _ _ Hs), (key_recase _ _ Ht).
  destruct (find_first (key t') (key s') 0); cbn [offz]; lia.
Qed.
Theorem recase_has_prefix : has_prefix fold s t = has_prefix fold s' t'.
Proof. unfold has_prefix. rewrite (key_recase _ _ Hs), (key_recase _ _ Ht). reflexivity. Qed.
Theorem recase_has_suffix : has_suffix fold s t = has_suffix fold s' t'.
Proof. unfold has_suffix. rewrite (key_recase _ _ Hs), (key_recase _ _ Ht). reflexivity. Qed.
Theorem recase_count : count fold s t = count fold s' t'.
Proof.
  unfold count. pose proof (recase_rune_count _ _ Hs) as Cs. pose proof (recase_rune_count _ _ Ht) as Ct.
  destruct t as [|b r]; destruct t' as [|b' r'].
  - rewrite Cs. reflexivity.
  - unfold rune_count in Ct. rewrite segs_cons in Ct. discriminate.
  - unfold rune_count in Ct. rewrite segs_cons in Ct. discriminate.
  - rewrite (key_recase _ _ Hs), (key_recase _ _ Ht). reflexivity.
Qed.
Theorem recase_contains_any : contains_any fold s t = contains_any fold s' t'.
Proof.
  unfold contains_any, index_any. rewrite (key_recase _ _ Hs), (key_recase _ _ Ht).
  destruct (index_where _ (key s') 0); cbn [offz]; lia.
Qed.

(* offsets: the same code-point index in both; byte offsets differ exactly by
   the widths of the preceding text (off s k vs off s' k) *)
Theorem recase_index : exists o, index fold s t = offz s o /\ index fold s' t' = offz s' o.
Proof. unfold index. rewrite (key_recase _ _ Hs), (key_recase _ _ Ht). eexists; split; reflexivity. Qed.
Theorem recase_last_index : exists o, last_index fold s t = offz s o /\ last_index fold s' t' = offz s' o.
Proof. unfold last_index. rewrite (key_recase _ _ Hs), (key_recase _ _ Ht). eexists; split; reflexivity. Qed.
Theorem recase_index_any : exists o, index_any fold s t = offz s o /\ index_any fold s' t' = offz s' o.
Proof. unfold index_any. rewrite (key_recase _ _ Hs), (key_recase _ _ Ht). eexists; split; reflexivity. Qed.
Theorem recase_last_index_any : exists o, last_index_any fold s t = offz s o /\ last_index_any fold s' t' = offz s' o.
Proof. unfold last_index_any. rewrite (key_recase _ _ Hs), (key_recase _ _ Ht). eexists; split; reflexivity. Qed.

(* trims and cuts: cut points at the same code-point index, found flags equal *)
Theorem recase_trim_prefix :
  exists k, (trim_prefix fold s t = (Z.of_nat (off s k), len s) /\ trim_prefix fold s' t' = (Z.of_nat (off s' k), len s')).
Proof.
  unfold trim_prefix. rewrite recase_has_prefix. destruct (has_prefix fold s' t').
  - exists (length (key t)). rewrite (key_recase _ _ Ht). split; reflexivity.
  - exists 0%nat. rewrite !off_0. split; reflexivity.
Qed.
Theorem recase_trim_suffix :
  exists k, (trim_suffix fold s t = (0, Z.of_nat (off s k)) /\ trim_suffix fold s' t' = (0, Z.of_nat (off s' k))).
Proof.
  unfold trim_suffix, suffix_cut. rewrite recase_has_suffix. destruct (has_suffix fold s' t').
  - exists (length (key s) - length (key t))%nat. rewrite (key_recase _ _ Hs), (key_recase _ _ Ht). split; reflexivity.
  - exists (rune_count s). rewrite (off_all s) by lia. rewrite (recase_rune_count _ _ Hs), (off_all s') by lia. split; reflexivity.
Qed.
Theorem recase_cut :
  (exists k j, cut fold s t = ((0, Z.of_nat (off s k)), (Z.of_nat (off s j), len s), true) /\
               cut fold s' t' = ((0, Z.of_nat (off s' k)), (Z.of_nat (off s' j), len s'), true)) \/
  (cut fold s t = ((0, len s), (0, 0), false) /\ cut fold s' t' = ((0, len s'), (0, 0), false)).
Proof.
  unfold cut. rewrite (key_recase _ _ Hs), (key_recase _ _ Ht).
  destruct (find_first (key t') (key s') 0) as [k|]; [left|right; split; reflexivity].
  exists k, (k + length (key t'))%nat. split; reflexivity.
Qed.
End Recased.

Theorem recase_index_rune s s' r r' :
  recase s s' -> fold r = fold r' -> valid_rune r = valid_rune r' ->
  exists o, index_rune fold s r = offz s o /\ index_rune fold s' r' = offz s' o.
Proof.
  intros Hs Hr Hv. unfold index_rune. rewrite <- Hv, (key_recase _ _ Hs), Hr. destruct (valid_rune r).
  - eexists; split; reflexivity.
  - exists None. split; reflexivity.
Qed.

(* ---- C19: embedding (x, s well-formed so that boundaries are kept) ---- *)

Lemma key_app_valid a b : valid_utf8 a = true -> key (a ++ b) = key a ++ key b.
Proof. intros H. unfold Spec.key. rewrite segs_app_valid by exact H. apply map_app. Qed.

Theorem index_extend_right s y t i :
  valid_utf8 s = true -> index fold s t = i -> 0 <= i -> index fold (s ++ y) t = i.
Proof.
  intros Hv. unfold index. destruct (find_first (key t) (key s) 0) as [k|] eqn:F; cbn [offz]; [|lia].
  intros <- _. rewrite key_app_valid by exact Hv. rewrite (find_first_app_r _ _ _ _ F). cbn [offz].
  apply find_first_some in F as (d & -> & Hd & _). cbn [Nat.add]. rewrite key_length in Hd.
  rewrite off_app_valid_l by assumption. reflexivity.
Qed.

Theorem index_extend_left x s t i :
  valid_utf8 x = true -> index fold s t = i -> 0 <= i ->
  0 <= index fold (x ++ s) t <= len x + i.
Proof.
  intros Hv. unfold index. destruct (find_first (key t) (key s) 0) as [k|] eqn:F; cbn [offz]; [|lia].
  intros <- _. rewrite key_app_valid by exact Hv.
  destruct (find_first_app_l _ (key x) _ _ F) as (g & G & Hg). rewrite G. cbn [offz].
  rewrite key_length in Hg. split; [lia|].
  pose proof (off_mono (x ++ s) g (rune_count x + k) Hg) as M.
  rewrite off_app_valid_r in M by exact Hv. unfold len. lia.
Qed.

Theorem last_index_extend_left x s t i :
  valid_utf8 x = true -> last_index fold s t = i -> 0 <= i -> last_index fold (x ++ s) t = len x + i.
Proof.
  intros Hv. unfold last_index. destruct (find_last (key t) (key s) 0) as [k|] eqn:F; cbn [offz]; [|lia].
  intros <- _. rewrite key_app_valid by exact Hv. rewrite (find_last_app_l _ (key x) _ _ F). cbn [offz].
  rewrite key_length, off_app_valid_r by exact Hv. unfold len. lia.
Qed.

Theorem last_index_extend_right s y t i :
  valid_utf8 s = true -> last_index fold s t = i -> 0 <= i -> i <= last_index fold (s ++ y) t.
Proof.
  intros Hv. unfold last_index. destruct (find_last (key t) (key s) 0) as [k|] eqn:F; cbn [offz]; [|lia].
  intros <- _. rewrite key_app_valid by exact Hv.
  destruct (find_last_app_r _ _ (key y) _ F) as (g & G & Hg). rewrite G. cbn [offz].
  apply find_last_some in F as (d & -> & Hd & _). cbn [Nat.add] in *. rewrite key_length in Hd.
  pose proof (off_mono (s ++ y) d g Hg) as M. rewrite off_app_valid_l in M by assumption. lia.
Qed.

Theorem has_prefix_extend s y t :
  valid_utf8 s = true -> has_prefix fold s t = true -> has_prefix fold (s ++ y) t = true.
Proof. intros Hv H. unfold has_prefix in *. rewrite key_app_valid by exact Hv. apply prefixb_app_r. exact H. Qed.

Theorem has_suffix_extend x s t :
  valid_utf8 x = true -> has_suffix fold s t = true -> has_suffix fold (x ++ s) t = true.
Proof.
  intros Hv H. unfold has_suffix in *. rewrite key_app_valid by exact Hv.
  apply suffixb_spec in H as [q E]. apply suffixb_spec. exists (key x ++ q). rewrite E, app_assoc. reflexivity.
Qed.

Theorem count_extend x s y t :
  valid_utf8 x = true -> valid_utf8 s = true -> t <> [] ->
  count fold s t <= count fold (x ++ s ++ y) t.
Proof.
  intros Hx Hs Ht. unfold count. destruct t as [|b t]; [congruence|].
  assert (Hk : key (b :: t) <> []) by (unfold Spec.key; rewrite segs_cons; discriminate).
  rewrite (key_app_valid x) by exact Hx. rewrite (key_app_valid s) by exact Hs.
  pose proof (count_aux_monotone (key (b :: t)) (key x) (key s) (key y) Hk). lia.
Qed.

(* conversely: a match of x+s+y lying wholly inside s is a match of s *)
Theorem inner_match_reported x s y t k :
  valid_utf8 x = true -> valid_utf8 s = true ->
  match_at fold (x ++ s ++ y) t (rune_count x + k) = true ->
  (k + rune_count t <= rune_count s)%nat ->
  match_at fold s t k = true /\ 0 <= index fold s t <= Z.of_nat (off s k).
Proof.
  intros Hx Hs M Hk. unfold match_at in *.
  rewrite (key_app_valid x) in M by exact Hx. rewrite (key_app_valid s) in M by exact Hs.
  rewrite skipn_app in M. rewrite skipn_all2 in M by (rewrite key_length; lia). cbn [app] in M.
  rewrite key_length in M. replace (rune_count x + k - rune_count x)%nat with k in M by lia.
  rewrite skipn_app_le in M by (rewrite key_length; lia).
  assert (Mk : prefixb (key t) (skipn k (key s)) = true).
  { apply prefixb_firstn in M as [M _]. apply prefixb_firstn. split.
    - rewrite <- M at 2. rewrite firstn_app.
      replace (length (key t) - length (skipn k (key s)))%nat with 0%nat
        by (rewrite skipn_length, !key_length; lia).
      simpl. rewrite app_nil_r. reflexivity.
    - rewrite skipn_length, !key_length. lia. }
  split; [exact Mk|]. unfold index.
  destruct (find_first (key t) (key s) 0) as [g|] eqn:F; cbn [offz].
  - apply find_first_some in F as (d & -> & _ & _ & Hl). cbn [Nat.add]. split; [lia|].
    destruct (le_lt_dec d k) as [L|L]; [pose proof (off_mono s d k L); lia|].
    rewrite (Hl k L) in Mk. discriminate.
  - rewrite (find_first_none _ _ _ F k) in Mk. discriminate.
Qed.

End S.
