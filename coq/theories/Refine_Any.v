(* Refine_Any.v — IndexAny / ContainsAny / LastIndexAny refine Spec: the
   asciiSet byte scan (makeASCIISet, with its bail-out when chars contains
   K k S s and s is not ASCII), the per-character search with truncation, the
   walk over s with IndexRune(chars, c), and their right-to-left
   counterparts. *)
From Strcase Require Import Base Utf8 Utf8Facts Utf8Last Spec SpecFacts SpecIndex SpecAffix SpecChars Impl Impl2 Impl4 Impl5 Impl6 Impl7
  Kernels Refine_Compare Refine_Prefix Refine_Suffix Refine_RuneCase Utf8Enc Refine_RuneCase2 Refine_Byte Refine_Rune Refine_RK Refine_Index
  Refine_RKRev Fold FoldFacts FoldFacts2 Refine_Index3 Refine_Last.
From Coq Require Import ZifyBool ZifyNat Btauto.

(* ---------- scanning code points / scanning bytes ---------- *)

Lemma first_in_cons P b l :
  first_in P (b :: l) =
  let d := decode (b :: l) in
  if P (fst d) then 0
  else let r := first_in P (skipn (snd d) (b :: l)) in if r <? 0 then -1 else Z.of_nat (snd d) + r.
Proof.
  cbv zeta. unfold first_in, runes. rewrite segs_cons. cbn [map index_where].
  destruct (P (fst (decode (b :: l)))); [reflexivity|].
  rewrite (index_where_shift _ _ 1).
  destruct (index_where P (map fst (segs (skipn (snd (decode (b :: l))) (b :: l)))) 0) as [k|]; cbn [option_map offz]; [|reflexivity].
  replace (Z.of_nat (off (skipn (snd (decode (b :: l))) (b :: l)) k) <? 0) with false by lia.
  cbn [Nat.add]. rewrite off_cons. lia.
Qed.

Lemma ibf_shift f s i0 :
  index_byte_from f s i0 = (if index_byte_from f s 0 <? 0 then -1 else i0 + index_byte_from f s 0).
Proof.
  revert i0. induction s as [|b r IH]; intros i0; cbn [index_byte_from]; [reflexivity|].
  destruct (f b); [cbn; lia|]. rewrite (IH (i0 + 1)), (IH (0 + 1)).
  destruct (index_byte_from_bounds f r 0) as [E|E]; [rewrite E; reflexivity|].
  replace (index_byte_from f r 0 <? 0) with false by lia. replace (0 + 1 + index_byte_from f r 0 <? 0) with false by lia. lia.
Qed.

Lemma ibf_skip f s w i0 :
  (w <= length s)%nat -> (forall k, (k < w)%nat -> f (nth k s 0) = false) ->
  index_byte_from f s i0 = index_byte_from f (skipn w s) (i0 + Z.of_nat w).
Proof.
  revert s i0. induction w as [|w IH]; intros s i0 L N; [cbn [skipn]; f_equal; lia|].
  destruct s as [|b r]; [cbn in L; lia|]. cbn [index_byte_from skipn].
  pose proof (N 0%nat ltac:(lia)) as N0. cbn [nth] in N0. rewrite N0. rewrite (IH r (i0 + 1)); [f_equal; lia|cbn in L; lia|].
  intros k Hk. apply (N (S k)). lia.
Qed.

(* a predicate that holds of ASCII values only: the byte scan is the code-point scan *)
Lemma ascii_pred_scan (g : Z -> bool) s :
  wf s ->
  let f := fun b => (b <? 128) && g b in
  index_byte_from f s 0 = first_in f s.
Proof.
  intros Hw. cbv zeta. set (f := fun b => (b <? 128) && g b).
  induction s as [|b l IH] using segs_ind; [reflexivity|].
  rewrite first_in_cons. cbv zeta.
  pose proof (decode_width_pos b l) as Wp. pose proof (decode_width_le (b :: l)) as Wl.
  specialize (IH (wf_skipn _ _ Hw)).
  destruct (Z_lt_le_dec b 128) as [A|A].
  - rewrite (decode_ascii b l A) in *. cbn [fst snd skipn] in *. cbn [index_byte_from].
    destruct (f b); [reflexivity|]. rewrite ibf_shift, IH. reflexivity.
  - pose proof (decode_hi_not_ascii b l Hw A) as Hi.
    assert (Ff : f (fst (decode (b :: l))) = false) by (unfold f; lia). rewrite Ff.
    rewrite (ibf_skip f (b :: l) (snd (decode (b :: l))) 0 Wl).
    + rewrite ibf_shift, IH. reflexivity.
    + intros k Hk. unfold f. destruct k as [|k]; [cbn [nth]; lia|].
      pose proof (decode_interior (b :: l) (S k) ltac:(lia)) as Ci. unfold is_cont in Ci. lia.
Qed.

(* where an ASCII-only predicate holds of a byte, it holds of a code point, and conversely *)
Lemma ascii_pred_pos (g : Z -> bool) s p :
  wf s -> (p < length s)%nat ->
  let f := fun b => (b <? 128) && g b in
  (f (nth p s 0) = true <-> exists a, (a < rune_count s)%nat /\ off s a = p /\ f (nth a (runes s) 0) = true).
Proof.
  intros Hw Hp. cbv zeta. set (f := fun b => (b <? 128) && g b). split.
  - intros F. assert (A : nth p s 0 < 128) by (unfold f in F; lia).
    destruct (start_is_boundary s p Hp ltac:(unfold is_start, is_cont; lia)) as (a & Ha & Oa).
    assert (Ha' : (a < rune_count s)%nat).
    { destruct (le_lt_dec (rune_count s) a) as [Hge|]; [|assumption]. rewrite (off_all s a Hge) in Oa. lia. }
    exists a. split; [exact Ha'|]. split; [exact Oa|].
    destruct (rune_at s a Ha') as (_ & _ & Fr). rewrite Oa, (skipn_nth_cons s p Hp), first_rune_cons in Fr.
    rewrite decode_ascii in Fr by exact A. cbn [fst] in Fr. assert (E : nth p s 0 = nth a (runes s) 0) by congruence.
    rewrite <- E. exact F.
  - intros (a & Ha & Oa & F). assert (A : nth a (runes s) 0 < 128) by (unfold f in F; lia).
    destruct (rune_at s a Ha) as (_ & _ & Fr). rewrite Oa, (skipn_nth_cons s p Hp), first_rune_cons in Fr.
    assert (E : fst (decode (nth p s 0 :: skipn (S p) s)) = nth a (runes s) 0) by congruence.
    destruct (Z_lt_le_dec (nth p s 0) 128) as [B|B].
    + rewrite decode_ascii in E by exact B. cbn [fst] in E. rewrite E. exact F.
    + exfalso. assert (Hwt : wf (nth p s 0 :: skipn (S p) s)) by (rewrite <- (skipn_nth_cons s p Hp); apply wf_skipn; exact Hw).
      pose proof (decode_hi_not_ascii _ _ Hwt B). lia.
Qed.

(* the same, right to left *)
Lemma last_byte_rev_last_in (g : Z -> bool) s :
  wf s ->
  let f := fun b => (b <? 128) && g b in
  last_byte_rev f (rev s) = last_in f s.
Proof.
  intros Hw. cbv zeta. set (f := fun b => (b <? 128) && g b).
  pose proof (fun p Hp => ascii_pred_pos g s p Hw Hp) as E. cbv zeta in E. fold f in E.
  unfold last_in.
  destruct (last_byte_rev_spec f s) as [[Eq Hn]|(p & Hp & Eq & Fp & Hn)]; rewrite Eq.
  - destruct (last_where f (runes s) 0) as [k|] eqn:L; cbn [offz]; [|reflexivity]. exfalso.
    apply last_where_some in L as (d & -> & Hd & Hf & _). rewrite runes_length in Hd.
    pose proof (off_lt_len s d Hd) as Hod.
    assert (X : f (nth (off s d) s 0) = true) by (apply (E _ Hod); exists d; repeat split; assumption).
    rewrite (Hn _ Hod) in X. discriminate.
  - apply (E p Hp) in Fp as (a & Ha & Oa & Fa).
    destruct (last_where f (runes s) 0) as [k|] eqn:L; cbn [offz].
    + apply last_where_some in L as (d & -> & Hd & Hf & Hl). cbn [Nat.add]. rewrite runes_length in Hd.
      destruct (lt_eq_lt_dec a d) as [[Lt|Eqd]|Gt].
      * exfalso. pose proof (off_lt s a d Lt ltac:(lia)) as O. pose proof (off_lt_len s d Hd) as Hod.
        assert (X : f (nth (off s d) s 0) = true) by (apply (E _ Hod); exists d; repeat split; assumption).
        rewrite (Hn (off s d)) in X by lia. discriminate.
      * subst d. lia.
      * exfalso. rewrite (Hl a Gt) in Fa by (rewrite runes_length; exact Ha). discriminate.
    + exfalso. rewrite (last_where_none _ _ _ L (nth a (runes s) 0)) in Fa; [discriminate|]. apply nth_In. rewrite runes_length. exact Ha.
Qed.

(* ---------- makeASCIISet ---------- *)

(* byte b is c or, for a letter c, its other case *)
Definition cm (c b : Z) : bool := (b =? c) || (is_alpha c && (b =? xor20 c)).

Lemma memb_cons x y l : memb x (y :: l) = (x =? y) || memb x l.
Proof. reflexivity. Qed.

Lemma mas_ascii_spec chars : forall acc set,
  mas_ascii chars acc = (set, true) ->
  Forall (fun c => c < 128) chars /\ forall b, memb b set = memb b acc || existsb (fun c => cm c b) chars.
Proof.
  induction chars as [|c r IH]; intros acc set H; cbn [mas_ascii] in H.
  - inversion H; subst. split; [constructor|]. intros b. cbn [existsb]. rewrite orb_false_r. reflexivity.
  - destruct (128 <=? c) eqn:A; [discriminate|].
    apply IH in H as [Hf Hm]. split; [constructor; [lia|exact Hf]|]. intros b. rewrite Hm. cbn [existsb]. unfold cm at 2.
    destruct (is_alpha c); rewrite ?memb_cons; cbn [andb]; btauto.
Qed.

Lemma mas_main_spec s chars : forall acc set,
  mas_main s chars acc = (set, true) ->
  Forall (fun c => c < 128) chars /\ (forall b, memb b set = memb b acc || existsb (fun c => cm c b) chars) /\
  (existsb (fun c => is_alpha c && is_ks (xor20 c)) chars = true -> contains_non_ascii s = false).
Proof.
  induction chars as [|c r IH]; intros acc set H; cbn [mas_main] in H.
  - inversion H; subst. split; [constructor|]. split; [|discriminate]. intros b. cbn [existsb]. rewrite orb_false_r. reflexivity.
  - destruct (128 <=? c) eqn:A; [discriminate|].
    destruct (is_alpha c) eqn:Al.
    + destruct (is_ks (xor20 c)) eqn:Ks.
      * destruct (contains_non_ascii s) eqn:Na; [discriminate|].
        apply mas_ascii_spec in H as [Hf Hm]. split; [constructor; [lia|exact Hf]|]. split; [|intros _; reflexivity].
        intros b. rewrite Hm. cbn [existsb]. unfold cm at 2. rewrite Al, !memb_cons. cbn [andb]. btauto.
      * apply IH in H as (Hf & Hm & Hk). split; [constructor; [lia|exact Hf]|]. split.
        -- intros b. rewrite Hm. cbn [existsb]. unfold cm at 2. rewrite Al, !memb_cons. cbn [andb]. btauto.
        -- cbn [existsb]. rewrite Al, Ks. cbn [andb orb]. exact Hk.
    + apply IH in H as (Hf & Hm & Hk). split; [constructor; [lia|exact Hf]|]. split.
      * intros b. rewrite Hm. cbn [existsb]. unfold cm at 2. rewrite Al, memb_cons. cbn [andb]. btauto.
      * cbn [existsb]. rewrite Al. cbn [andb orb]. exact Hk.
Qed.

(* ---------- the predicate of the Any family ---------- *)

Lemma runes_all_ascii (l : bytes) : Forall (fun b => b < 128) l -> runes l = l.
Proof.
  intros H. unfold runes. rewrite <- (app_nil_r l) at 1. rewrite (segs_ascii_app l [] H).
  change (segs []) with (@nil (Z * nat)). rewrite app_nil_r, map_map. cbn [fst]. apply map_id.
Qed.

Lemma no_non_ascii s : wf s -> contains_non_ascii s = false -> Forall (fun b => b < 128) s.
Proof.
  intros Hw H. unfold contains_non_ascii, index_non_ascii in H.
  induction s as [|b r IH]; [constructor|]. cbn [index_byte_from] in H.
  destruct (128 <=? b) eqn:A; [cbn in H; discriminate|].
  constructor; [lia|]. apply IH; [inversion Hw; assumption|].
  rewrite ibf_shift in H. destruct (index_byte_from (fun b0 => 128 <=? b0) r 0 <? 0) eqn:E; [lia|].
  destruct (index_byte_from_bounds (fun b0 => 128 <=? b0) r 0); lia.
Qed.

Lemma ascii_cands_cm_chk :
  forallb (fun c => forallb (fun x => Bool.eqb (memb x (FoldFacts2.ascii_cands c)) (cm c x)) (Kernels.zrange 128)) (Kernels.zrange 128) = true.
Proof. vm_compute. reflexivity. Qed.

Lemma ascii_cands_hi_chk :
  forallb (fun c => Bool.eqb (existsb (fun y => 128 <=? y) (FoldFacts2.ascii_cands c)) (is_alpha c && is_ks (xor20 c))) (Kernels.zrange 128) = true.
Proof. vm_compute. reflexivity. Qed.

Lemma ascii_cands_cm c x : 0 <= c < 128 -> 0 <= x < 128 -> memb x (FoldFacts2.ascii_cands c) = cm c x.
Proof.
  intros Hc Hx. pose proof ascii_cands_cm_chk as C. rewrite forallb_forall in C.
  specialize (C c (Kernels.zrange_in 128 c ltac:(lia))). rewrite forallb_forall in C.
  specialize (C x (Kernels.zrange_in 128 x ltac:(lia))). apply Bool.eqb_prop in C. exact C.
Qed.

Lemma ascii_cands_hi c x : 0 <= c < 128 -> 128 <= x -> In x (FoldFacts2.ascii_cands c) -> is_alpha c && is_ks (xor20 c) = true.
Proof.
  intros Hc Hx Hin. pose proof ascii_cands_hi_chk as C. rewrite forallb_forall in C.
  specialize (C c (Kernels.zrange_in 128 c ltac:(lia))). apply Bool.eqb_prop in C. rewrite <- C.
  apply existsb_exists. exists x. split; [exact Hin|lia].
Qed.

Lemma cm_ascii c x : 0 <= c < 128 -> cm c x = true -> 0 <= x < 128.
Proof.
  intros Hc H. unfold cm in H. destruct (x =? c) eqn:E; [lia|]. cbn [orb] in H. apply andb_true_iff in H as [Al E2].
  assert (x = xor20 c) by lia. subst x. unfold xor20.
  assert (0 <= Z.lxor c 32) by (apply Z.lxor_nonneg; lia).
  destruct (Z.eq_dec (Z.lxor c 32) 0) as [E0|N0]; [lia|].
  assert (Z.log2 (Z.lxor c 32) < 7); [|assert (Z.lxor c 32 < 2 ^ 7) by (apply Z.log2_lt_pow2; lia); lia].
  pose proof (Z.log2_lxor c 32 ltac:(lia) ltac:(lia)) as L. change (Z.log2 32) with 5 in L.
  assert (Z.log2 c < 7) by (destruct (Z.eq_dec c 0) as [->|]; [cbn; lia|apply Z.log2_lt_pow2; lia]). lia.
Qed.

Section Any.
Variable native : bool.
Variable cutover : Z -> Z.
Variable fold : Z -> Z.
Variable fold_map : Z -> option (list Z).
Variable upper_lower : Z -> Z * Z * bool.
Hypothesis Hcands : forall r x, 128 <= r <= MaxRune -> int32 x -> (fold x = fold r <-> In x (cands_of fold_map upper_lower r)).
Hypothesis Hcrange : forall r x, 128 <= r <= MaxRune -> In x (cands_of fold_map upper_lower r) -> 0 <= x <= MaxRune.
Hypothesis Hascii : forall r x, 0 <= r < 128 -> int32 x -> (fold x = fold r <-> In x (FoldFacts2.ascii_cands r)).
Hypothesis Herr : forall x, int32 x -> (fold x = fold RuneError <-> x = RuneError).

Notation IndexRune := (Impl5.IndexRune native cutover fold_map upper_lower).
Notation key := (key fold).

(* x is fold-equal to some code point of chars *)
Definition anyp (chars : bytes) (x : Z) : bool := memb (fold x) (key chars).

Lemma index_any_first_in s chars : index_any fold s chars = first_in (anyp chars) s.
Proof. unfold index_any, first_in, anyp. rewrite (key_runes_map fold s). rewrite (index_where_map fold fold). reflexivity. Qed.

Lemma last_index_any_last_in s chars : last_index_any fold s chars = last_in (anyp chars) s.
Proof. unfold last_index_any, last_in, anyp. rewrite (key_runes_map fold s). rewrite (last_where_map fold fold). reflexivity. Qed.

(* with the asciiSet built, the predicate is membership in the set, on ASCII values only *)
Lemma asciiset_pred s chars set :
  wf s -> wf chars -> makeASCIISet s chars = (set, true) ->
  forall x, In x (runes s) -> anyp chars x = as_contains set x.
Proof.
  intros Hws Hwc H x Hx. unfold makeASCIISet in H. apply mas_main_spec in H as (Hf & Hm & Hk).
  assert (Hxi : int32 x) by (apply (runes_int32' s x Hws Hx)).
  pose proof (runes_range' s Hws) as R. rewrite Forall_forall in R. specialize (R x Hx).
  assert (Hcs : forall c, In c chars -> 0 <= c < 128).
  { intros c Hc. rewrite Forall_forall in Hf. specialize (Hf c Hc). unfold wf in Hwc. rewrite Forall_forall in Hwc. specialize (Hwc c Hc). lia. }
  unfold anyp, as_contains. rewrite (key_runes_map fold chars), (runes_all_ascii chars Hf). rewrite Hm. cbn [memb existsb orb].
  apply bool_eq_iff'. unfold memb. rewrite existsb_exists, andb_true_iff, existsb_exists. split.
  - intros (y & Hy & E). apply in_map_iff in Hy as (c & <- & Hc). apply Z.eqb_eq in E.
    pose proof (Hcs c Hc) as Hc0. apply (Hascii c x Hc0 Hxi) in E.
    destruct (Z_lt_le_dec x 128) as [A|A].
    + split; [lia|]. exists c. split; [exact Hc|]. rewrite <- (ascii_cands_cm c x Hc0 ltac:(lia)). apply memb_In. exact E.
    + exfalso. pose proof (ascii_cands_hi c x Hc0 A E) as Ks.
      assert (Na : contains_non_ascii s = false).
      { apply Hk. apply existsb_exists. exists c. split; [exact Hc|exact Ks]. }
      pose proof (no_non_ascii s Hws Na) as Fs. rewrite (runes_all_ascii s Fs) in Hx. rewrite Forall_forall in Fs. specialize (Fs x Hx). lia.
  - intros (A & c & Hc & Cm). pose proof (Hcs c Hc) as Hc0.
    exists (fold c). split; [apply in_map; exact Hc|]. apply Z.eqb_eq. apply (Hascii c x Hc0 Hxi).
    apply memb_In. rewrite (ascii_cands_cm c x Hc0 ltac:(lia)). exact Cm.
Qed.


(* ---------- IndexRune as a test and as a search ---------- *)

Lemma runes_valid s : wf s -> forall x, In x (runes s) -> valid_rune x = true.
Proof.
  intros Hw. induction s as [|b l IH] using segs_ind; [intros x []|].
  unfold runes. rewrite segs_cons. cbn [map]. intros x [<-|Hx]; [apply decode_valid'; exact Hw|].
  apply IH; [apply wf_skipn; exact Hw|exact Hx].
Qed.

Lemma index_where_existsb (f : Z -> bool) l k0 :
  (match index_where f l k0 with Some _ => true | None => false end) = existsb f l.
Proof. revert k0. induction l as [|y l IH]; intros k0; [reflexivity|]. cbn [index_where existsb]. destruct (f y); [reflexivity|apply IH]. Qed.

Lemma indexrune_search s x :
  wf s -> valid_rune x = true -> IndexRune s x = Ok (first_in (fun y => fold y =? fold x) s).
Proof.
  intros Hw V. rewrite (indexrune_refines native cutover fold fold_map upper_lower Hcands Hcrange Hascii Herr s x Hw).
  rewrite (index_rune_first_in fold s x V). reflexivity.
Qed.

Lemma indexrune_test chars x :
  wf chars -> valid_rune x = true -> exists j, IndexRune chars x = Ok j /\ (0 <=? j) = anyp chars x.
Proof.
  intros Hw V. rewrite (indexrune_refines native cutover fold fold_map upper_lower Hcands Hcrange Hascii Herr chars x Hw).
  eexists. split; [reflexivity|]. unfold index_rune, anyp, memb. rewrite V.
  rewrite <- (index_where_existsb (Z.eqb (fold x)) (key chars) 0).
  rewrite (index_where_ext (fun y => y =? fold x) (Z.eqb (fold x)) (key chars) 0) by (intros y _; apply Z.eqb_sym).
  destruct (index_where (Z.eqb (fold x)) (key chars) 0); cbn [offz]; lia.
Qed.

(* "for i, c := range s { if IndexRune(chars, c) >= 0 { return i } }" *)
Lemma any_by_s_ok chars : wf chars ->
  forall fuel s i, wf s -> (length s < fuel)%nat ->
  any_by_s native cutover fold_map upper_lower fuel s chars i =
    Ok (let r := first_in (anyp chars) s in if r <? 0 then -1 else i + r).
Proof.
  intros Hwc. induction fuel as [|f IH]; intros s i Hw Hf; [lia|]. cbn [any_by_s].
  destruct s as [|b l]; [reflexivity|]. rewrite first_in_cons. cbv zeta.
  pose proof (decode_width_pos b l) as Wp. pose proof (decode_width_le (b :: l)) as Wl.
  destruct (indexrune_test chars (fst (decode (b :: l))) Hwc (decode_valid' b l Hw)) as (j & Ej & Tj).
  rewrite Ej. cbn [bind]. rewrite Tj. destruct (anyp chars (fst (decode (b :: l)))).
  - cbn. f_equal. lia.
  - rewrite IH by (try (apply wf_skipn; exact Hw); rewrite skipn_length; cbn [length] in *; lia). cbv zeta.
    destruct (first_in (anyp chars) (skipn (snd (decode (b :: l))) (b :: l)) <? 0) eqn:E; [reflexivity|].
    pose proof (first_in_bnd (anyp chars) (skipn (snd (decode (b :: l))) (b :: l))) as B. apply bnd_range in B.
    replace (Z.of_nat (snd (decode (b :: l))) + first_in (anyp chars) (skipn (snd (decode (b :: l))) (b :: l)) <? 0) with false by lia.
    f_equal. lia.
Qed.

Lemma zmin_assoc a b c : zmin a (zmin b c) = zmin (zmin a b) c.
Proof. unfold zmin. destruct (a =? -1) eqn:A; destruct (b =? -1) eqn:B; destruct (c =? -1) eqn:C; rewrite ?A, ?B, ?C; try reflexivity;
  repeat match goal with |- context [if ?x =? -1 then _ else _] => destruct (x =? -1) eqn:? end; lia. Qed.

Lemma anyp_cons b t x :
  anyp (b :: t) x = (fold x =? fold (fst (decode (b :: t)))) || anyp (skipn (snd (decode (b :: t))) (b :: t)) x.
Proof. unfold anyp. rewrite (key_cons fold b t). reflexivity. Qed.

(* "for _, r := range chars { i := IndexRune(s, r); if i != -1 && (n == -1 || i < n) { n = i; if n == 0 { break }; s = s[:n] } }" *)
Lemma any_by_chars_ok s0 : wf s0 ->
  forall fuel chars n, wf chars -> bnd s0 n -> (length chars < fuel)%nat ->
  any_by_chars native cutover fold_map upper_lower fuel (trunc s0 n) chars n = Ok (zmin n (first_in (anyp chars) s0)).
Proof.
  intros Hw0. induction fuel as [|f IH]; intros chars n Hwc Hn Hf; [lia|]. cbn [any_by_chars].
  destruct chars as [|b t].
  { f_equal. unfold anyp, memb. change (key []) with (@nil Z). cbn [existsb]. rewrite first_in_false, zmin_m1_r. reflexivity. }
  pose proof (decode_width_pos b t) as Wp. pose proof (decode_width_le (b :: t)) as Wl.
  set (y := fst (decode (b :: t))). set (rest := skipn (snd (decode (b :: t))) (b :: t)).
  assert (Vy : valid_rune y = true) by (apply decode_valid'; exact Hwc).
  assert (Hwr : wf rest) by (apply wf_skipn; exact Hwc).
  assert (Lr : (length rest < f)%nat) by (unfold rest; rewrite skipn_length; cbn [length] in *; lia).
  rewrite (indexrune_search (trunc s0 n) y (wf_trunc s0 n Hw0) Vy). cbn [bind].
  set (Py := fun x => fold x =? fold y).
  destruct (improve_step Py s0 n Hn) as [Ei Ho]. cbv zeta in Ei, Ho.
  set (o := first_in Py (trunc s0 n)) in *.
  assert (Esplit : first_in (anyp (b :: t)) s0 = zmin (first_in Py s0) (first_in (anyp rest) s0)).
  { rewrite <- first_in_or. apply first_in_ext. intros x _. apply anyp_cons. }
  rewrite Esplit, zmin_assoc, <- Ei.
  destruct (negb (o =? -1) && ((n =? -1) || (o <? n))) eqn:C.
  - destruct Ho as [Ho|[Ho1 Ho2]]; [lia|].
    destruct (o =? 0) eqn:Z0.
    + f_equal. replace o with 0 by lia. symmetry. apply zmin_zero.
      pose proof (first_in_bnd (anyp rest) s0) as B. apply bnd_range in B. lia.
    + unfold slice_to. replace ((0 <=? o) && (o <=? len (trunc s0 n))) with true by lia. cbn [bind].
      rewrite (trunc_trunc s0 n o Hn ltac:(lia) ltac:(lia)).
      apply IH; [exact Hwr| |exact Lr]. rewrite Ho2. apply first_in_bnd.
  - apply IH; assumption.
Qed.


(* ---------- IndexAny ---------- *)

Lemma anyp_nil x : anyp [] x = false.
Proof. reflexivity. Qed.

Lemma anyp_single c x : 0 <= c < 256 ->
  anyp [c] x = (fold x =? fold (if 128 <=? c then RuneError else c)).
Proof.
  intros Hc. unfold anyp, memb. destruct (128 <=? c) eqn:A.
  - unfold Spec.key, segs. cbn [length segs_aux]. rewrite decode_single_hi by lia. cbn. rewrite orb_false_r. reflexivity.
  - rewrite (key_ascii fold c []) by lia. cbn. rewrite orb_false_r. reflexivity.
Qed.

Lemma zmin_m1_l b : zmin (-1) b = b.
Proof. reflexivity. Qed.

Theorem indexany_refines s chars :
  wf s -> wf chars ->
  Impl7.IndexAny native cutover fold_map upper_lower s chars = Ok (index_any fold s chars).
Proof.
  intros Hws Hwc. rewrite index_any_first_in. unfold Impl7.IndexAny.
  destruct chars as [|c0 crest].
  { f_equal. symmetry. rewrite (first_in_ext (anyp []) (fun _ => false)) by (intros x _; apply anyp_nil). apply first_in_false. }
  destruct crest as [|c1 crest].
  { assert (Hc : 0 <= c0 < 256) by (inversion Hwc; assumption).
    rewrite indexrune_search; [|exact Hws|destruct (128 <=? c0); [reflexivity|unfold valid_rune, MaxRune; lia]].
    f_equal. apply first_in_ext. intros x _. symmetry. apply anyp_single. exact Hc. }
  set (chars := c0 :: c1 :: crest) in *.
  destruct (8 <? len s) eqn:L8.
  - destruct (makeASCIISet s chars) as [set ok] eqn:Ms. cbn [andb]. destruct ok.
    + f_equal. assert (Sc : index_byte_from (as_contains set) s 0 = first_in (as_contains set) s) by (apply (ascii_pred_scan (fun b => memb b set) s Hws)).
      rewrite Sc.
      apply first_in_ext. intros x Hx. symmetry. apply (asciiset_pred s chars set Hws Hwc Ms x Hx).
    + destruct (len chars * 2 <? len s).
      * change s with (trunc s (-1)) at 1. rewrite (any_by_chars_ok s Hws) by (try assumption; try lia; left; reflexivity). reflexivity.
      * rewrite (any_by_s_ok chars Hwc) by (try assumption; lia). cbv zeta.
        pose proof (first_in_bnd (anyp chars) s) as B. apply bnd_range in B.
        destruct (first_in (anyp chars) s <? 0) eqn:E; f_equal; lia.
  - cbn [andb]. destruct (len chars * 2 <? len s).
    + change s with (trunc s (-1)) at 1. rewrite (any_by_chars_ok s Hws) by (try assumption; try lia; left; reflexivity). reflexivity.
    + rewrite (any_by_s_ok chars Hwc) by (try assumption; lia). cbv zeta.
      pose proof (first_in_bnd (anyp chars) s) as B. apply bnd_range in B.
      destruct (first_in (anyp chars) s <? 0) eqn:E; f_equal; lia.
Qed.

Theorem containsany_refines s chars :
  wf s -> wf chars ->
  Impl7.ContainsAny native cutover fold_map upper_lower s chars = Ok (contains_any fold s chars).
Proof. intros Hws Hwc. unfold Impl7.ContainsAny. rewrite (indexany_refines s chars Hws Hwc). reflexivity. Qed.

(* ---------- LastIndexAny ---------- *)

Lemma last_any_loop_ok chars s i :
  wf chars -> wf s -> (i <= rune_count s)%nat ->
  forall fuel, (i < fuel)%nat ->
  last_any_loop native cutover fold_map upper_lower fuel (rp s i) chars =
    Ok (offz s (last_where (anyp chars) (firstn i (runes s)) 0)).
Proof.
  intros Hwc Hw. induction i as [|i IH]; intros Hi fuel Hf; (destruct fuel as [|f]; [lia|]).
  - reflexivity.
  - cbn [last_any_loop]. destruct (last_seg_at s i Hw ltac:(lia)) as (Ed & Er & b & rs' & Erp & Hb & Ha). cbv zeta in *.
    rewrite (last_where_firstn_S (anyp chars) (runes s) i) by (rewrite runes_length; lia).
    rewrite Erp. cbv iota. rewrite <- Erp. cbv zeta. rewrite Er, Ed.
    assert (V : valid_rune (nth i (runes s) 0) = true) by (apply (runes_valid s Hw); apply nth_In; rewrite runes_length; lia).
    destruct (indexrune_test chars _ Hwc V) as (j & Ej & Tj). rewrite Ej. cbn [bind]. rewrite Tj.
    destruct (anyp chars (nth i (runes s) 0)).
    + unfold len. rewrite rp_length. reflexivity.
    + apply IH; lia.
Qed.

Lemma last_in_false s : last_in (fun _ => false) s = -1.
Proof.
  unfold last_in. assert (E : forall l k, last_where (fun _ : Z => false) l k = None).
  { induction l as [|y l IHl]; intros k; [reflexivity|]. cbn [last_where]. rewrite IHl. reflexivity. }
  rewrite E. reflexivity.
Qed.

Theorem lastindexany_refines s chars :
  wf s -> wf chars ->
  Impl7.LastIndexAny native cutover fold_map upper_lower s chars = Ok (last_index_any fold s chars).
Proof.
  intros Hws Hwc. rewrite last_index_any_last_in. unfold Impl7.LastIndexAny.
  destruct chars as [|c0 crest].
  { f_equal. symmetry. rewrite (last_in_ext (anyp []) (fun _ => false)) by (intros x _; apply anyp_nil). apply last_in_false. }
  set (chars := c0 :: crest) in *.
  assert (Hc0 : 0 <= c0 < 256) by (inversion Hwc; assumption).
  assert (Hrev : rev_append s [] = rev s) by (rewrite rev_append_rev; apply app_nil_r).
  assert (General :
    (let '(set, ok) := if 8 <? len s then makeASCIISet s chars else ([], false) in
     if (8 <? len s) && ok then Ok (last_byte_rev (as_contains set) (rev_append s []))
     else match crest with
          | [] => if c0 <? 128 then Impl5.LastIndexByte s c0
                  else Impl5.last_rune_where (S (length s)) false (fun x => x =? RuneError) (rev_append s [])
          | _ :: _ => last_any_loop native cutover fold_map upper_lower (S (length s)) (rev_append s []) chars
          end) = Ok (last_in (anyp chars) s)).
  { assert (Slow : match crest with
          | [] => if c0 <? 128 then Impl5.LastIndexByte s c0
                  else Impl5.last_rune_where (S (length s)) false (fun x => x =? RuneError) (rev_append s [])
          | _ :: _ => last_any_loop native cutover fold_map upper_lower (S (length s)) (rev_append s []) chars
          end = Ok (last_in (anyp chars) s)).
    { destruct crest as [|c1 crest'].
      - destruct (c0 <? 128) eqn:A.
        + rewrite (lastindexbyte_refines s c0 Hws Hc0). f_equal. rewrite (last_index_byte_last_in s c0 Hws ltac:(lia)).
          apply last_in_ext. intros x Hx. unfold chars. rewrite (anyp_single c0 x Hc0). replace (128 <=? c0) with false by lia.
          apply bool_eq_iff'. rewrite memb_In, Z.eqb_eq. symmetry. apply Hascii; [lia|apply (runes_int32' s x Hws Hx)].
        + rewrite last_rune_where_all by exact Hws. f_equal. apply last_in_ext. intros x Hx. unfold chars.
          rewrite (anyp_single c0 x Hc0). replace (128 <=? c0) with true by lia.
          apply bool_eq_iff'. rewrite !Z.eqb_eq. symmetry. apply Herr. apply (runes_int32' s x Hws Hx).
      - rewrite Hrev, <- rp_all. pose proof (rune_count_le s).
        rewrite (last_any_loop_ok chars s (rune_count s) Hwc Hws ltac:(lia)) by lia.
        rewrite firstn_all2 by (rewrite runes_length; lia). reflexivity. }
    destruct (8 <? len s) eqn:L8; [|cbn [andb]; exact Slow].
    destruct (makeASCIISet s chars) as [set ok] eqn:Ms. cbn [andb]. destruct ok; [|exact Slow].
    f_equal. rewrite Hrev. assert (Sc : last_byte_rev (as_contains set) (rev s) = last_in (as_contains set) s) by (apply (last_byte_rev_last_in (fun b => memb b set) s Hws)).
    rewrite Sc.
    apply last_in_ext. intros x Hx. symmetry. apply (asciiset_pred s chars set Hws Hwc Ms x Hx). }
  destruct s as [|b [|b' s']]; [exact General| |exact General].
  (* a single byte *)
  assert (Hb : 0 <= b < 256) by (inversion Hws; assumption).
  set (x := if 128 <=? b then RuneError else b).
  assert (V : valid_rune x = true) by (unfold x; destruct (128 <=? b); [reflexivity|unfold valid_rune, MaxRune; lia]).
  destruct (indexrune_test chars x Hwc V) as (j & Ej & Tj). rewrite Ej. cbn [bind]. rewrite Tj.
  assert (Er : runes [b] = [x]).
  { unfold x, runes, segs. cbn [length segs_aux]. destruct (128 <=? b) eqn:A; [rewrite decode_single_hi by lia|rewrite decode_ascii by lia]; reflexivity. }
  unfold last_in. rewrite Er. cbn [last_where]. destruct (anyp chars x); reflexivity.
Qed.

End Any.
