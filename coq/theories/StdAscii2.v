(* StdAscii2.v — C20, ASCII class, the remaining functions: for ASCII-only
   arguments the single-character and set searches equal the byte-exact
   models of strings.IndexByte / IndexRune / IndexAny / LastIndexAny /
   LastIndexByte applied to the ASCII-lower-cased arguments (for ASCII input
   strings.IndexRune(s, r) with r < 0x80 is strings.IndexByte(s, byte(r)), and
   strings.IndexAny scans bytes), CutPrefix / CutSuffix follow the trims. *)
From Strcase Require Import Base Utf8 Utf8Facts Spec SpecFacts SpecIndex SpecAffix SpecChars Impl7 Fold FoldFacts FoldTables FoldFacts121 StdAscii
  Refine_RuneCase Utf8Enc Refine_Rune Refine_Last Refine_Any.
From Coq Require Import ZifyBool ZifyNat.

(* byte-exact models *)
Definition std_index_byte (s : bytes) (c : Z) : Z := index_byte_from (fun b => b =? c) s 0.
Definition std_last_index_byte (s : bytes) (c : Z) : Z := last_byte_rev (fun b => b =? c) (rev s).
Definition std_index_any (s chars : bytes) : Z := index_byte_from (fun b => memb b chars) s 0.
Definition std_last_index_any (s chars : bytes) : Z := last_byte_rev (fun b => memb b chars) (rev s).

Lemma ibf_index_where f l :
  index_byte_from f l 0 = match index_where f l 0 with Some k => Z.of_nat k | None => -1 end.
Proof.
  induction l as [|b l IH]; [reflexivity|]. cbn [index_byte_from index_where]. destruct (f b); [reflexivity|].
  rewrite ibf_shift, IH, (index_where_shift f l 1). destruct (index_where f l 0) as [k|]; cbn [option_map]; [|reflexivity].
  replace (Z.of_nat k <? 0) with false by lia. lia.
Qed.

Lemma lbr_last_where f l :
  last_byte_rev f (rev l) = match last_where f l 0 with Some k => Z.of_nat k | None => -1 end.
Proof.
  induction l as [|b l IH] using rev_ind; [reflexivity|].
  rewrite rev_unit. cbn [last_byte_rev]. rewrite last_where_app. destruct (f b).
  - unfold len. rewrite rev_length. reflexivity.
  - exact IH.
Qed.

Lemma offz_ascii s o : ascii s -> (forall k, o = Some k -> (k <= length s)%nat) ->
  offz s o = match o with Some k => Z.of_nat k | None => -1 end.
Proof. intros H Hk. destruct o as [k|]; cbn [offz]; [|reflexivity]. rewrite off_ascii by (try exact H; apply Hk; reflexivity). reflexivity. Qed.

Lemma index_where_le f l k : index_where f l 0 = Some k -> (k <= length l)%nat.
Proof. intros H. apply index_where_some in H as (d & -> & Hd & _). lia. Qed.

Lemma last_where_le f l k : last_where f l 0 = Some k -> (k <= length l)%nat.
Proof. intros H. apply last_where_some in H as (d & -> & Hd & _). lia. Qed.

Section A2.
Variables s chars : bytes.
Hypothesis Hs : ascii s.
Hypothesis Hc : ascii chars.

Lemma key_len : length (key fold121 s) = length s.
Proof. rewrite key_ascii_lower by exact Hs. apply lower_length. Qed.

(* IndexRune / ContainsRune with an ASCII rune *)
Theorem ascii_index_rune r : 0 <= r < 128 ->
  index_rune fold121 s r = std_index_byte (lower s) (lower_ascii r).
Proof.
  intros Hr. unfold index_rune, std_index_byte. replace (valid_rune r) with true by (unfold valid_rune, MaxRune; lia).
  rewrite fold_ascii by exact Hr. rewrite ibf_index_where, (key_ascii_lower s Hs).
  apply offz_ascii; [exact Hs|]. intros k E. apply index_where_le in E. rewrite lower_length in E. exact E.
Qed.

Theorem ascii_contains_rune r : 0 <= r < 128 ->
  contains_rune fold121 s r = (0 <=? std_index_byte (lower s) (lower_ascii r)).
Proof. intros Hr. unfold contains_rune. rewrite ascii_index_rune by exact Hr. reflexivity. Qed.

(* IndexAny / ContainsAny / LastIndexAny *)
Theorem ascii_index_any : index_any fold121 s chars = std_index_any (lower s) (lower chars).
Proof.
  unfold index_any, std_index_any. rewrite ibf_index_where, (key_ascii_lower s Hs), (key_ascii_lower chars Hc).
  apply offz_ascii; [exact Hs|]. intros k E. apply index_where_le in E. rewrite lower_length in E. exact E.
Qed.

Theorem ascii_contains_any : contains_any fold121 s chars = (0 <=? std_index_any (lower s) (lower chars)).
Proof. unfold contains_any. rewrite ascii_index_any. reflexivity. Qed.

Theorem ascii_last_index_any : last_index_any fold121 s chars = std_last_index_any (lower s) (lower chars).
Proof.
  unfold last_index_any, std_last_index_any. rewrite lbr_last_where, (key_ascii_lower s Hs), (key_ascii_lower chars Hc).
  apply offz_ascii; [exact Hs|]. intros k E. apply last_where_le in E. rewrite lower_length in E. exact E.
Qed.

(* CutPrefix / CutSuffix *)
Theorem ascii_cut_prefix : cut_prefix fold121 s chars = (std_trim_prefix (lower s) (lower chars), std_has_prefix (lower s) (lower chars)).
Proof. unfold cut_prefix. rewrite (ascii_trim_prefix s chars Hs Hc), (ascii_has_prefix s chars Hs Hc). reflexivity. Qed.

Theorem ascii_cut_suffix : cut_suffix fold121 s chars = (std_trim_suffix (lower s) (lower chars), std_has_suffix (lower s) (lower chars)).
Proof. unfold cut_suffix. rewrite (ascii_trim_suffix s chars Hs Hc), (ascii_has_suffix s chars Hs Hc). reflexivity. Qed.

End A2.
