(* Refine_CountByte.v — Count with a needle of one ASCII byte: the accelerated
   byte count (bytealg.CountString's scalar definition k_count) plus, for
   K k S s, the number of occurrences of the encoding of U+212A / U+017F, is
   the number of code points of s in the byte's folding orbit. *)
From Strcase Require Import Base Utf8 Utf8Facts Utf8Last Spec SpecFacts SpecIndex SpecAffix SpecChars Impl Impl3 Impl4
  Kernels Refine_Compare Refine_Prefix Refine_RuneCase Utf8Enc Refine_RuneCase2 Refine_Byte Refine_Rune Refine_Index
  Fold FoldFacts FoldFacts2 Refine_Index3 Refine_Last Refine_Any Refine_Count.
From Coq Require Import ZifyBool ZifyNat.

Definition cnt (P : Z -> bool) (l : list Z) : nat := length (filter P l).

Lemma cnt_app P l1 l2 : cnt P (l1 ++ l2) = (cnt P l1 + cnt P l2)%nat.
Proof. unfold cnt. rewrite filter_app, app_length. reflexivity. Qed.

Lemma cnt_none P l : (forall x, In x l -> P x = false) -> cnt P l = 0%nat.
Proof.
  unfold cnt. induction l as [|x l IH]; intros H; [reflexivity|]. cbn [filter]. rewrite (H x (or_introl eq_refl)).
  apply IH. intros y Hy. apply H. right. exact Hy.
Qed.

Lemma cnt_ext P Q l : (forall x, In x l -> P x = Q x) -> cnt P l = cnt Q l.
Proof. intros H. unfold cnt. rewrite (filter_ext_in P Q l H). reflexivity. Qed.

Lemma cnt_map (g : Z -> Z) P l : cnt P (map g l) = cnt (fun x => P (g x)) l.
Proof. unfold cnt. induction l as [|x l IH]; [reflexivity|]. cbn [map filter]. destruct (P (g x)); cbn [length]; rewrite IH; reflexivity. Qed.

Lemma count_aux_single y l : count_aux [y] l 0 = cnt (fun x => x =? y) l.
Proof.
  unfold cnt. induction l as [|x l IH]; [reflexivity|]. cbn [count_aux prefixb filter length Nat.sub].
  rewrite andb_true_r, (Z.eqb_sym y x). destruct (x =? y); cbn [length]; rewrite IH; reflexivity.
Qed.

(* bytes and code points agree on ASCII-only predicates *)
Lemma ascii_pred_count (g : Z -> bool) s :
  wf s ->
  let f := fun b => (b <? 128) && g b in
  cnt f s = cnt f (runes s).
Proof.
  intros Hw. cbv zeta. set (f := fun b => (b <? 128) && g b).
  induction s as [|b l IH] using segs_ind; [reflexivity|].
  pose proof (decode_width_pos b l) as Wp. pose proof (decode_width_le (b :: l)) as Wl.
  specialize (IH (wf_skipn _ _ Hw)).
  unfold runes. rewrite segs_cons. cbn [map]. fold (runes (skipn (snd (decode (b :: l))) (b :: l))).
  rewrite <- (firstn_skipn (snd (decode (b :: l))) (b :: l)) at 1. rewrite cnt_app, IH.
  change (fst (decode (b :: l)) :: runes (skipn (snd (decode (b :: l))) (b :: l)))
    with ([fst (decode (b :: l))] ++ runes (skipn (snd (decode (b :: l))) (b :: l))).
  rewrite cnt_app. f_equal.
  destruct (Z_lt_le_dec b 128) as [A|A].
  - rewrite (decode_ascii b l A). reflexivity.
  - pose proof (decode_hi_not_ascii b l Hw A) as Hi.
    rewrite (cnt_none f [fst (decode (b :: l))]) by (intros x [<-|[]]; unfold f; lia).
    apply cnt_none. intros x Hx. apply In_nth with (d := 0) in Hx as (k & Hk & <-).
    rewrite firstn_length in Hk. rewrite nth_firstn_lt by lia. unfold f.
    destruct k as [|k]; [cbn [nth]; lia|].
    pose proof (decode_interior (b :: l) (S k) ltac:(lia)) as Ci. unfold is_cont in Ci. lia.
Qed.

(* occurrences of an encoding are the code points equal to it *)
Lemma raw_count_skip0 pat s m :
  (forall k, (k < m)%nat -> starts_with pat (skipn k s) = false) -> raw_count pat s = raw_count pat (skipn m s).
Proof.
  revert s. induction m as [|m IH]; intros s H; [reflexivity|].
  destruct s as [|b r]; [reflexivity|]. cbn [raw_count skipn].
  pose proof (H 0%nat ltac:(lia)) as H0. cbn [skipn] in H0. rewrite H0.
  rewrite (IH r); [lia|]. intros k Hk. apply (H (S k)). lia.
Qed.

Lemma raw_count_runes s r :
  wf s -> valid_rune r = true -> r <> RuneError -> 128 <= r ->
  raw_count (encode r) s = Z.of_nat (cnt (fun x => x =? r) (runes s)).
Proof.
  intros Hw V Nr Hr.
  induction s as [|b l IH] using segs_ind; [reflexivity|].
  pose proof (decode_width_pos b l) as Wp. pose proof (decode_width_le (b :: l)) as Wl.
  specialize (IH (wf_skipn _ _ Hw)).
  set (w := snd (decode (b :: l))) in *.
  assert (Hocc : forall p, (p < w)%nat -> occ (encode r) (b :: l) p = ((p =? 0)%nat && (fst (decode (b :: l)) =? r))).
  { intros p Hp. apply bool_eq_iff'. rewrite (occ_encode_iff (b :: l) r p Hw V Nr ltac:(lia)). rewrite andb_true_iff, Nat.eqb_eq, Z.eqb_eq. split.
    - intros (a & Ha & Oa & En). destruct a as [|a].
      + rewrite off_0 in Oa. split; [lia|]. unfold runes in En. rewrite segs_cons in En. exact En.
      + exfalso. pose proof (off_mono (b :: l) 1 (S a) ltac:(lia)) as M. rewrite off_cons, off_0 in M. fold w in M. lia.
    - intros [-> E]. exists 0%nat. split; [rewrite rune_count_cons; lia|]. split; [apply off_0|]. unfold runes. rewrite segs_cons. exact E. }
  cbn [raw_count]. rewrite (raw_count_skip0 (encode r) l (w - 1)).
  2:{ intros k Hk. specialize (Hocc (S k) ltac:(lia)). unfold occ in Hocc. cbn [skipn] in Hocc. rewrite Hocc. reflexivity. }
  replace (skipn (w - 1) l) with (skipn w (b :: l)) by (replace w with (S (w - 1)) at 1 by lia; reflexivity).
  rewrite IH. unfold runes at 2. rewrite segs_cons. cbn [map]. fold w. fold (runes (skipn w (b :: l))).
  specialize (Hocc 0%nat ltac:(lia)). unfold occ in Hocc. cbn [skipn] in Hocc. rewrite Hocc. cbn [Nat.eqb andb].
  unfold cnt. cbn [filter]. destruct (fst (decode (b :: l)) =? r); cbn [length]; lia.
Qed.

Lemma ascii_cands_split c x :
  0 <= c < 128 -> 0 <= x ->
  memb x (FoldFacts2.ascii_cands c) =
  ((x <? 128) && byte_match c x) || ((((c =? 75) || (c =? 107)) && (x =? 8490)) || (((c =? 83) || (c =? 115)) && (x =? 383))).
Proof.
  intros Hc Hx. unfold FoldFacts2.ascii_cands, byte_match, is_alpha, lower_ascii, memb.
  destruct (((65 <=? c) && (c <=? 90)) || ((97 <=? c) && (c <=? 122))) eqn:Al.
  - cbv zeta. set (l := if (65 <=? c) && (c <=? 90) then c + 32 else c).
    assert (Hl : 97 <= l <= 122 /\ (l = c \/ l = c + 32)) by (unfold l; destruct ((65 <=? c) && (c <=? 90)) eqn:U; lia).
    destruct (l =? 107) eqn:K; [|destruct (l =? 115) eqn:S]; cbn [app existsb];
      destruct ((65 <=? x) && (x <=? 90)) eqn:Ux; lia.
  - cbn [existsb]. lia.
Qed.

Section CB.
Variable fold : Z -> Z.
Hypothesis Hascii : forall r x, 0 <= r < 128 -> int32 x -> (fold x = fold r <-> In x (FoldFacts2.ascii_cands r)).
Variable idx : bytes -> bytes -> res Z.

Lemma count_single_ascii s c :
  wf s -> 0 <= c < 128 ->
  count fold s [c] = Z.of_nat (cnt (fun x => memb x (FoldFacts2.ascii_cands c)) (runes s)).
Proof.
  intros Hw Hc. unfold count. rewrite (key_ascii fold c []) by lia. change (Spec.key fold []) with (@nil Z).
  rewrite count_aux_single, (key_runes_map fold s), cnt_map. f_equal. apply cnt_ext. intros x Hx.
  apply bool_eq_iff'. rewrite Z.eqb_eq, memb_In. apply Hascii; [exact Hc|apply (runes_int32' s x Hw Hx)].
Qed.

Theorem count_byte_refines p s c :
  wf s -> 0 <= c < 128 -> Count idx p s [c] = Ok (count fold s [c]).
Proof.
  intros Hw Hc. unfold Count. replace (c <? 128) with true by lia. f_equal.
  rewrite (count_single_ascii s c Hw Hc).
  pose proof (runes_range' s Hw) as R. rewrite Forall_forall in R.
  rewrite (cnt_ext _ (fun x => ((x <? 128) && byte_match c x) ||
             ((((c =? 75) || (c =? 107)) && (x =? 8490)) || (((c =? 83) || (c =? 115)) && (x =? 383)))) (runes s))
    by (intros x Hx; apply ascii_cands_split; [exact Hc|apply R; exact Hx]).
  unfold cnt at 1. rewrite filter_or_disjoint by (intros b _; lia). fold (cnt (fun b => (b <? 128) && byte_match c b) (runes s)).
  pose proof (ascii_pred_count (byte_match c) s Hw) as Ea. cbv zeta in Ea. rewrite <- Ea.
  assert (Ek : Z.of_nat (cnt (fun b => (b <? 128) && byte_match c b) s) = k_count s c).
  { unfold k_count. f_equal. apply cnt_ext. intros b Hb. unfold byte_match, is_alpha, lower_ascii.
    unfold wf in Hw. rewrite Forall_forall in Hw. specialize (Hw b Hb). lia. }
  rewrite Nat2Z.inj_add, Ek.
  destruct ((c =? 75) || (c =? 107)) eqn:K.
  - f_equal. replace ((c =? 83) || (c =? 115)) with false by lia. rewrite <- encode_kelvin.
    rewrite (raw_count_runes s 8490 Hw) by (try reflexivity; unfold RuneError; lia).
    apply (f_equal Z.of_nat). apply (cnt_ext (fun x => x =? 8490) (fun b => true && (b =? 8490) || false && (b =? 383)) (runes s)). intros x _. lia.
  - destruct ((c =? 83) || (c =? 115)) eqn:S.
    + f_equal. rewrite <- encode_long_s.
      rewrite (raw_count_runes s 383 Hw) by (try reflexivity; unfold RuneError; lia).
      apply (f_equal Z.of_nat). apply (cnt_ext (fun x => x =? 383) (fun b => false && (b =? 8490) || true && (b =? 383)) (runes s)). intros x _. lia.
    + fold (cnt (fun b => false && (b =? 8490) || false && (b =? 383)) (runes s)). rewrite (cnt_none _ (runes s)) by (intros x _; lia). lia.
Qed.

(* Count on every needle *)
Hypothesis Hidx : forall s t, wf s -> wf t -> idx s t = Ok (index fold s t).

Theorem count_refines p s sub : wf s -> wf sub -> Count idx p s sub = Ok (count fold s sub).
Proof.
  intros Hs Hsub. destruct sub as [|c [|c2 t]].
  - reflexivity.
  - assert (Hc : 0 <= c < 256) by (inversion Hsub; assumption). destruct (Z_lt_le_dec c 128) as [A|A].
    + apply count_byte_refines; [exact Hs|lia].
    + apply (count_refines_general fold idx Hidx p s [c] Hs Hsub). intros c' E. inversion E; subst. exact A.
  - apply (count_refines_general fold idx Hidx p s _ Hs Hsub). intros c' E. discriminate.
Qed.

End CB.
