(* Utf8Enc.v — encoding facts: EncodeRune and DecodeRune are inverse on
   scalar values, an encoding starts with a start byte followed by
   continuation bytes, and UTF-8 is self-synchronising: in ANY byte string
   (well-formed or not) the raw occurrences of the encoding of a scalar value
   r >= 0x80, r <> U+FFFD... (U+FFFD included when encoded) are exactly the
   segments of the DecodeRune segmentation that decode to r.  This is what
   justifies searching for a rune by searching for its bytes. *)
From Strcase Require Import Base Utf8 Utf8Facts Utf8Last Spec Impl4 Refine_RuneCase.
From Coq Require Import ZifyBool ZifyNat.

Ltac Zify.zify_post_hook ::= Z.div_mod_to_equations.

Lemma encode_ascii r : 0 <= r < 128 -> encode r = [r].
Proof. intros H. unfold encode. replace ((0 <=? r) && (r <? 128)) with true by lia. reflexivity. Qed.

Lemma encode_length r : valid_rune r = true -> len (encode r) = rune_len r.
Proof.
  unfold valid_rune, encode, rune_len, MaxRune, len. intros H.
  destruct ((0 <=? r) && (r <? 128)) eqn:A; [cbn; destruct (r <? 0) eqn:?; destruct (r <? 128) eqn:?; lia|].
  destruct ((0 <=? r) && (r <? 2048)) eqn:B.
  { cbn. destruct (r <? 0) eqn:?; destruct (r <? 128) eqn:?; destruct (r <? 2048) eqn:?; lia. }
  unfold valid_rune, MaxRune. rewrite H. cbn [negb].
  destruct (r <? 65536) eqn:C; cbn [length];
    destruct (r <? 0) eqn:?; destruct (r <? 128) eqn:?; destruct (r <? 2048) eqn:?;
    destruct ((55296 <=? r) && (r <=? 57343)) eqn:?; destruct (r <=? 1114111) eqn:?; try lia.
Qed.

(* decoding an encoding gives the rune back, whatever follows *)
Lemma decode_encode r l :
  valid_rune r = true -> decode (encode r ++ l) = (r, length (encode r)).
Proof.
  unfold valid_rune, MaxRune. intros H. unfold encode.
  destruct ((0 <=? r) && (r <? 128)) eqn:A.
  { cbn [app length]. apply decode_ascii. lia. }
  destruct ((0 <=? r) && (r <? 2048)) eqn:B.
  { cbn [app length]. unfold decode, is_cont.
    replace (192 + r / 64 <? 128) with false by lia.
    replace ((194 <=? 192 + r / 64) && (192 + r / 64 <=? 223)) with true by lia.
    replace ((128 <=? 128 + r mod 64) && (128 + r mod 64 <=? 191)) with true by lia.
    f_equal. lia. }
  unfold valid_rune, MaxRune. rewrite H. cbn [negb].
  destruct (r <? 65536) eqn:C.
  - cbn [app length]. unfold decode, is_cont.
    set (b0 := 224 + r / 4096). set (b1 := 128 + (r / 64) mod 64). set (b2 := 128 + r mod 64).
    assert (224 <= b0 <= 239) by (unfold b0; lia).
    assert (128 <= b1 <= 191) by (unfold b1; lia).
    assert (128 <= b2 <= 191) by (unfold b2; lia).
    replace (b0 <? 128) with false by lia.
    replace ((194 <=? b0) && (b0 <=? 223)) with false by lia.
    replace ((224 <=? b0) && (b0 <=? 239)) with true by lia.
    assert (Hlo : (if b0 =? 224 then 160 else 128) <= b1).
    { destruct (b0 =? 224) eqn:E; [|lia]. unfold b0, b1 in *. lia. }
    assert (Hhi : b1 <= (if b0 =? 237 then 159 else 191)).
    { destruct (b0 =? 237) eqn:E; [|lia]. unfold b0, b1 in *. lia. }
    replace (((if b0 =? 224 then 160 else 128) <=? b1) && (b1 <=? (if b0 =? 237 then 159 else 191)) &&
             ((128 <=? b2) && (b2 <=? 191))) with true by lia.
    f_equal. unfold b0, b1, b2. lia.
  - cbn [app length]. unfold decode, is_cont.
    set (b0 := 240 + r / 262144). set (b1 := 128 + (r / 4096) mod 64).
    set (b2 := 128 + (r / 64) mod 64). set (b3 := 128 + r mod 64).
    assert (240 <= b0 <= 244) by (unfold b0; lia).
    assert (128 <= b1 <= 191) by (unfold b1; lia).
    assert (128 <= b2 <= 191) by (unfold b2; lia).
    assert (128 <= b3 <= 191) by (unfold b3; lia).
    replace (b0 <? 128) with false by lia.
    replace ((194 <=? b0) && (b0 <=? 223)) with false by lia.
    replace ((224 <=? b0) && (b0 <=? 239)) with false by lia.
    replace ((240 <=? b0) && (b0 <=? 244)) with true by lia.
    assert (Hlo : (if b0 =? 240 then 144 else 128) <= b1).
    { destruct (b0 =? 240) eqn:E; [|lia]. unfold b0, b1 in *. lia. }
    assert (Hhi : b1 <= (if b0 =? 244 then 143 else 191)).
    { destruct (b0 =? 244) eqn:E; [|lia]. unfold b0, b1 in *. lia. }
    replace (((if b0 =? 240 then 144 else 128) <=? b1) && (b1 <=? (if b0 =? 244 then 143 else 191)) &&
             ((128 <=? b2) && (b2 <=? 191)) && ((128 <=? b3) && (b3 <=? 191))) with true by lia.
    f_equal. unfold b0, b1, b2, b3. lia.
Qed.

(* the bytes of a segment that is not an ill-formed byte are the encoding of its rune *)
Lemma encode_decode b l :
  wf (b :: l) -> decode (b :: l) <> RE1 ->
  firstn (snd (decode (b :: l))) (b :: l) = encode (fst (decode (b :: l))) /\
  valid_rune (fst (decode (b :: l))) = true.
Proof.
  intros Hw Hne. unfold RE1 in Hne. unfold decode, is_cont in *.
  inversion Hw as [|? ? H0 H']; subst.
  destruct (b <? 128) eqn:A.
  { cbn [fst snd firstn]. rewrite encode_ascii by lia. split; [reflexivity|]. unfold valid_rune, MaxRune. lia. }
  destruct ((194 <=? b) && (b <=? 223)) eqn:B.
  { destruct l as [|b1 l]; [congruence|]. inversion H'; subst.
    destruct ((128 <=? b1) && (b1 <=? 191)) eqn:C; [|congruence].
    cbn [fst snd firstn]. set (r := (b - 192) * 64 + (b1 - 128)).
    assert (128 <= r < 2048) by (unfold r; lia).
    split; [|unfold valid_rune, MaxRune; lia].
    unfold encode. replace ((0 <=? r) && (r <? 128)) with false by lia.
    replace ((0 <=? r) && (r <? 2048)) with true by lia.
    f_equal; [unfold r; lia|]. f_equal. unfold r. lia. }
  destruct ((224 <=? b) && (b <=? 239)) eqn:C.
  { destruct l as [|b1 [|b2 l]]; try congruence.
    inversion H' as [|? ? ? H'']; subst. inversion H''; subst.
    match type of Hne with (if ?c then _ else _) <> _ => destruct c eqn:D end; [|congruence].
    cbn [fst snd firstn]. set (r := (b - 224) * 4096 + (b1 - 128) * 64 + (b2 - 128)).
    assert (R : 2048 <= r < 65536 /\ ~ (55296 <= r <= 57343)).
    { unfold r. destruct (b =? 224) eqn:?; destruct (b =? 237) eqn:?; lia. }
    assert (V : valid_rune r = true) by (unfold valid_rune, MaxRune; lia).
    split; [|exact V].
    unfold encode. replace ((0 <=? r) && (r <? 128)) with false by lia.
    replace ((0 <=? r) && (r <? 2048)) with false by lia. rewrite V. cbn [negb].
    replace (r <? 65536) with true by lia.
    assert (128 <= b1 <= 191 /\ 128 <= b2 <= 191) by (destruct (b =? 224) eqn:?; destruct (b =? 237) eqn:?; lia).
    f_equal; [unfold r; lia|]. f_equal; [unfold r; lia|]. f_equal. unfold r. lia. }
  destruct ((240 <=? b) && (b <=? 244)) eqn:D; [|congruence].
  destruct l as [|b1 [|b2 [|b3 l]]]; try congruence.
  inversion H' as [|? ? ? H'']; subst. inversion H'' as [|? ? ? H3]; subst. inversion H3; subst.
  match type of Hne with (if ?c then _ else _) <> _ => destruct c eqn:E end; [|congruence].
  cbn [fst snd firstn]. set (r := (b - 240) * 262144 + (b1 - 128) * 4096 + (b2 - 128) * 64 + (b3 - 128)).
  assert (Hb : 128 <= b1 <= 191 /\ 128 <= b2 <= 191 /\ 128 <= b3 <= 191)
    by (destruct (b =? 240) eqn:?; destruct (b =? 244) eqn:?; lia).
  assert (R : 65536 <= r <= 1114111).
  { unfold r. destruct (b =? 240) eqn:?; destruct (b =? 244) eqn:?; lia. }
  assert (V : valid_rune r = true) by (unfold valid_rune, MaxRune; lia).
  split; [|exact V].
  unfold encode. replace ((0 <=? r) && (r <? 128)) with false by lia.
  replace ((0 <=? r) && (r <? 2048)) with false by lia. rewrite V. cbn [negb].
  replace (r <? 65536) with false by lia.
  f_equal; [unfold r; lia|]. f_equal; [unfold r; lia|]. f_equal; [unfold r; lia|]. f_equal. unfold r. lia.
Qed.

(* shape of a multi-byte encoding: a start byte >= 0xC2, then continuation bytes *)
Lemma encode_shape r :
  valid_rune r = true -> 128 <= r ->
  exists b0 tl, encode r = b0 :: tl /\ is_start b0 = true /\ tl <> [] /\ forallb is_cont tl = true /\
    (length (encode r) <= 4)%nat.
Proof.
  unfold valid_rune, MaxRune. intros H Hr. unfold encode.
  replace ((0 <=? r) && (r <? 128)) with false by lia.
  destruct ((0 <=? r) && (r <? 2048)) eqn:B.
  { eexists _, _. split; [reflexivity|]. unfold is_start, is_cont. cbn [forallb length].
    repeat split; try discriminate; try lia. }
  unfold valid_rune, MaxRune. rewrite H. cbn [negb].
  destruct (r <? 65536) eqn:C; eexists _, _; (split; [reflexivity|]); unfold is_start, is_cont; cbn [forallb length];
    repeat split; try discriminate; try lia.
Qed.

Lemma firstn_starts_with (enc t : bytes) :
  (length enc <= length t)%nat -> firstn (length enc) t = enc -> starts_with enc t = true.
Proof.
  revert t. induction enc as [|x enc IH]; intros t L E; [reflexivity|].
  destruct t as [|y t]; [cbn in L; lia|]. cbn [length firstn] in *. inversion E; subst.
  cbn [starts_with]. rewrite Z.eqb_refl. cbn [andb]. rewrite H1. apply IH; [lia|exact H1].
Qed.

Lemma starts_with_app_eq (enc t : bytes) : starts_with enc t = true -> exists rest, t = enc ++ rest.
Proof.
  revert t. induction enc as [|x enc IH]; intros t H; [exists t; reflexivity|].
  destruct t as [|y t]; [discriminate|]. cbn [starts_with] in H. apply andb_true_iff in H as [E H].
  apply Z.eqb_eq in E. subst. destruct (IH t H) as [rest ->]. exists rest. reflexivity.
Qed.

(* rune_index s r: byte offset of the first segment whose rune is r *)
Definition rune_index (s : bytes) (r : Z) : Z := offz s (index_where (fun x => x =? r) (runes s) 0).

Lemma index_where_shift f l k0 :
  index_where f l k0 = option_map (fun d => (k0 + d)%nat) (index_where f l 0).
Proof.
  revert k0. induction l as [|x l IH]; intros k0; cbn [index_where]; [reflexivity|].
  destruct (f x); [cbn; f_equal; lia|]. rewrite (IH (S k0)), (IH 1%nat).
  destruct (index_where f l 0); cbn; [f_equal; lia|reflexivity].
Qed.

(* self-synchronisation *)
Theorem std_index_encode s r :
  wf s -> valid_rune r = true -> 128 <= r -> r <> RuneError ->
  std_index s (encode r) = rune_index s r.
Proof.
  intros Hw Hv Hr Hne.
  destruct (encode_shape r Hv Hr) as (e0 & etl & Eenc & He0 & Htl & Hconts & Hlen).
  assert (Henc : encode r <> []) by (rewrite Eenc; discriminate).
  induction s as [|b l IH] using segs_ind.
  { unfold std_index, rune_index. rewrite Eenc. reflexivity. }
  set (d := decode (b :: l)). set (w := snd d).
  pose proof (decode_width_pos b l) as Wp. fold d w in Wp.
  pose proof (decode_width_le (b :: l)) as Wl. fold d w in Wl.
  unfold rune_index, runes. rewrite segs_cons. fold d w. cbn [map index_where].
  destruct (fst d =? r) eqn:Ex.
  - (* this segment is r *)
    assert (Hd : d <> RE1).
    { intros E. rewrite E in Ex. unfold RE1 in Ex. cbn [fst] in Ex. lia. }
    destruct (encode_decode b l Hw Hd) as [Ef _]. fold d w in Ef.
    replace (fst d) with r in Ef by lia.
    cbn [offz]. rewrite off_0.
    apply (std_index_least (b :: l) (encode r) 0 Henc); [|intros q Hq; lia].
    unfold occ. cbn [skipn]. apply firstn_starts_with.
    + rewrite <- Ef, firstn_length. lia.
    + rewrite <- Ef at 2. rewrite <- Ef at 1. rewrite firstn_length. f_equal.
      rewrite Nat.min_l by lia. reflexivity.
  - (* no occurrence starts inside this segment *)
    assert (Hb : forall p, (p < w)%nat -> occ (encode r) (b :: l) p = false).
    { intros p Hp. destruct (occ (encode r) (b :: l) p) eqn:O; [|reflexivity]. exfalso.
      destruct p as [|p].
      - unfold occ in O. cbn [skipn] in O. apply starts_with_app_eq in O as [rest E].
        assert (Dd : d = (r, length (encode r))) by (unfold d; rewrite E; apply decode_encode; exact Hv).
        rewrite Dd in Ex. cbn [fst] in Ex. lia.
      - (* a continuation byte cannot start an encoding *)
        pose proof (decode_interior (b :: l) (S p) ltac:(fold d w; lia)) as Ci.
        apply (occ_nth (encode r) (b :: l) (S p) Henc) in O as [_ N].
        specialize (N 0%nat ltac:(rewrite Eenc; cbn; lia)). rewrite Nat.add_0_r, Eenc in N. cbn [nth] in N.
        cbn [nth] in Ci. rewrite N in Ci. unfold is_start in He0. rewrite Ci in He0. discriminate. }
    rewrite (std_index_suffix (b :: l) (encode r) w Henc Hb).
    fold d in IH. fold w in IH. rewrite IH by (apply wf_skipn; exact Hw). unfold rune_index, runes.
    rewrite (index_where_shift _ _ 1).
    destruct (index_where (fun x => x =? r) (map fst (segs (skipn w (b :: l)))) 0) as [k|]; cbn [option_map offz].
    + replace (Z.of_nat (off (skipn w (b :: l)) k) =? -1) with false by lia.
      cbn [Nat.add]. rewrite off_cons. fold d w. lia.
    + reflexivity.
Qed.
