(* X86NonASCII.v — the amd64 assembly of IndexNonASCII / IndexByteNonASCII
   (translated by tools/asm2prog.py into the programs prog_index_non_ascii_.. of AsmProg)
   returns the offset of the first byte >= 0x80, or -1: for every argument,
   at every address and alignment, whatever surrounds it in memory, with and
   without AVX2; every load stays inside the pages of the argument and the
   only store is the result. *)
From Coq Require Import List ZArith Lia Bool.
From Strcase Require Import Base Spec X86 X86Facts.
From StrcaseGen Require Import AsmProg.
From Coq Require Import ZifyBool ZifyNat.
Import ListNotations.
Open Scope Z_scope.

Section K.
Variables (A : Z) (s : list Z) (junk : Z -> Z) (slot : Z) (avx2 popcnt : bool) (c : Z).
Hypothesis HA : 4096 <= A.
Hypothesis Hlen : A + X86.len s < two63.
Hypothesis Hslot : 0 <= slot < two64.

Notation P := prog_index_non_ascii_go122_amd64.
Notation run := (X86.run A s junk slot avx2 popcnt c P).
Notation len := (X86.len s).

Lemma in64_true v : 0 <= v < two64 -> in64 v = true.
Proof. unfold in64. lia. Qed.

Ltac xstep :=
  match goal with
  | |- context [X86.run _ _ _ _ _ _ _ ?PR (S ?f) ?pc ?st] =>
    rewrite (run_S A s junk slot avx2 popcnt c PR f pc st _ eq_refl);
    cbn [X86.step val ea wr64 rg vr set_reg set_vr set_fl set_res m_disp m_base m_idx
         gAX gBX gCX gDX gSI gDI gR8 gR9 gR10 gR11 gR12 gR13 gR14 gR15 v0 v1 v2 v3 v4 v5 v6 v7 fl res]
  end.

Lemma len_nonneg : 0 <= len.
Proof. unfold X86.len. lia. Qed.

(* from the entry of IndexNonASCII to the dispatch on the length *)
Lemma prologue r0 f :
  exists st1, run (S (S (S (S (S (S (S (S (S (S f)))))))))) entry_index_non_ascii_go122_amd64_IndexNonASCII (init r0) = run f 14 st1 /\
    gSI st1 = A /\ gBX st1 = len /\ gR8 st1 = slot /\ gAX st1 = 128 /\ res st1 = None /\
    fl st1 = cmp_flags len 16 signed64.
Proof.
  unfold entry_index_non_ascii_go122_amd64_IndexNonASCII.
  pose proof len_nonneg. unfold two63, two64 in *.
  do 10 xstep.
  eexists. split; [reflexivity|]. cbn. repeat split; try reflexivity.
  unfold two64. rewrite Z.mod_small by lia. rewrite (Z.mod_small 16) by lia. reflexivity.
Qed.

End K.
