(* X86NonASCII.v — the amd64 assembly of IndexNonASCII / IndexByteNonASCII
   (translated by tools/asm2prog.py into the programs prog_index_non_ascii_.. of AsmProg)
   returns the offset of the first byte >= 0x80, or -1: for every argument,
   at every address and alignment, whatever surrounds it in memory, with and
   without AVX2; every load stays inside the pages of the argument and the
   only store is the result. *)
From Coq Require Import List ZArith Lia Bool.
From Strcase Require Import Base Spec X86 X86Facts.
From StrcaseGen Require Import AsmProg.
From Coq Require Import ZifyBool ZifyNat.
Import ListNotations.
Open Scope Z_scope.

Section K.
Variables (A : Z) (s : list Z) (junk : Z -> Z) (slot : Z) (avx2 popcnt : bool) (c : Z).
Hypothesis HA : 4096 <= A.
Hypothesis Hlen : A + X86.len s < two63.
Hypothesis Hslot : 0 <= slot < two64.

Notation P := prog_index_non_ascii_go122_amd64.
Notation run := (X86.run A s junk slot avx2 popcnt c P).
Notation len := (X86.len s).

Lemma in64_true v : 0 <= v < two64 -> in64 v = true.
Proof. unfold in64. lia. Qed.

Ltac xstep :=
  match goal with
  | |- context [X86.run _ _ _ _ _ _ _ ?PR (S ?f) ?pc ?st] =>
    rewrite (run_S A s junk slot avx2 popcnt c PR f pc st _ eq_refl);
    cbv beta iota zeta delta [X86.step val ea wr64 wr64f rg vr set_reg set_vr set_fl set_res m_disp m_base m_idx
         gAX gBX gCX gDX gSI gDI gR8 gR9 gR10 gR11 gR12 gR13 gR14 gR15 v0 v1 v2 v3 v4 v5 v6 v7 fl res]
  end.

Lemma len_nonneg : 0 <= len.
Proof. unfold X86.len. lia. Qed.

(* from the entry of IndexNonASCII to the dispatch on the length *)
Lemma prologue r0 f :
  exists st1, run (S (S (S (S (S (S (S (S (S (S f)))))))))) entry_index_non_ascii_go122_amd64_IndexNonASCII (init r0) = run f 14 st1 /\
    gSI st1 = A /\ gBX st1 = len /\ gR8 st1 = slot /\ gAX st1 = 128 /\ res st1 = None /\
    fl st1 = cmp_flags len 16 signed64.
Proof.
  unfold entry_index_non_ascii_go122_amd64_IndexNonASCII.
  pose proof len_nonneg. unfold two63, two64 in *.
  do 10 xstep.
  eexists. split; [reflexivity|]. cbn. repeat split; try reflexivity.
Qed.


(* an explicit machine state *)
Definition mk ax bx cx dx si di r8 r9 r10 r11 r12 r13 r14 r15 x0 x1 x2 x3 x4 x5 x6 x7 f rs : st :=
  {| gAX := ax; gBX := bx; gCX := cx; gDX := dx; gSI := si; gDI := di; gR8 := r8; gR9 := r9; gR10 := r10; gR11 := r11;
     gR12 := r12; gR13 := r13; gR14 := r14; gR15 := r15; v0 := x0; v1 := x1; v2 := x2; v3 := x3; v4 := x4; v5 := x5;
     v6 := x6; v7 := x7; fl := f; res := rs |}.

Hypothesis Hwf : Forall (fun b => 0 <= b < 256) s.

Lemma slot_eq : (slot =? slot) = true.
Proof. apply Z.eqb_refl. Qed.

Lemma store_m1 : signed64 ((-1) mod two64) = -1.
Proof. reflexivity. Qed.

Lemma nil_of_len0 : len = 0 -> s = [].
Proof. unfold X86.len. destruct s; [reflexivity|cbn [length]; lia]. Qed.

Lemma bytes_range a n : Forall (fun b => 0 <= b < 256) (bytes_at A s junk a n).
Proof.
  revert a. induction n as [|n IH]; intros a; [constructor|]. cbn [bytes_at]. constructor; [|apply IH].
  unfold X86.byte_at. destruct ((A <=? a) && (a <? A + len)) eqn:E.
  - rewrite Forall_forall in Hwf. apply Hwf. apply nth_In. unfold X86.len in E. lia.
  - lia.
Qed.

(* SHLL len; SHRL 16 on the mask of [16-len stray bytes ++ s]: a separate lemma, because lia would pick this
   non-linear fact up from the context of the stepping proof and not come back *)
Lemma shift_mask (J : list Z) : 1 <= len <= 15 -> length J = (16 - length s)%nat ->
  ((movmsk (J ++ s) mod two32 * 2 ^ (len mod two32 mod 32) mod two32) mod two32 / 2 ^ (16 mod two64 mod 32)) mod two32 = movmsk s.
Proof.
  intros Hl LJ0. set (n := length s) in *. assert (Hn : len = Z.of_nat n) by reflexivity.
  pose proof (movmsk_range s) as Rs. fold n in Rs. pose proof (movmsk_range J) as RJ. rewrite LJ0 in RJ.
  assert (Emsk : movmsk (J ++ s) = movmsk J + 2 ^ Z.of_nat (16 - n) * movmsk s) by (rewrite movmsk_app, LJ0; reflexivity).
  change (16 mod two64) with 16. replace (len mod two32) with (Z.of_nat n) by (unfold two32; lia).
  rewrite Emsk. clear Emsk. rewrite (shift_out_junk (movmsk J) (movmsk s) n) by lia.
  assert (H15 : 2 ^ Z.of_nat n <= 2 ^ 15) by (apply Z.pow_le_mono_r; lia). change (2 ^ 15) with 32768 in H15.
  apply Z.mod_small. unfold two32. lia.
Qed.

(* lengths below 16 *)
Lemma small_path ax cx dx di r9 r10 r11 r12 r13 r14 r15 x0 x1 x2 x3 x4 x5 x6 x7 :
  len < 16 ->
  exists fuel, run fuel 14 (mk ax len cx dx A di slot r9 r10 r11 r12 r13 r14 r15 x0 x1 x2 x3 x4 x5 x6 x7 (cmp_flags len 16 signed64) None)
               = Done (Some (fh s)).
Proof.
  intros Hl. pose proof len_nonneg as H0. unfold mk. unfold two63 in Hlen.
  destruct (Z.eq_dec len 0) as [E0|N0].
  { (* empty *)
    exists 5%nat. xstep. rewrite holds_cmp_LT by (unfold two63; lia). replace (len <? 16) with true by lia. cbv iota.
    xstep. xstep. cbn [holds zf logic_flags zflag]. rewrite Z.land_diag. replace (len =? 0) with true by lia. cbv iota.
    xstep. replace (0 + slot + 0 =? slot) with true by lia. cbv iota. rewrite store_m1. xstep.
    rewrite (nil_of_len0 E0). reflexivity. }
  destruct (Z_lt_le_dec ((16 + A + 0) mod 4096) 16) as [Pg|Pg].
  - (* the 16-byte load at s would cross into the next page: load the 16 bytes that END at the end of s *)
    set (n := length s). assert (Hn : len = Z.of_nat n) by reflexivity.
    assert (Hrd : forall k, (k < 16)%nat -> readable A s (-16 + A + len * 1 + Z.of_nat k) = true).
    { intros k Hk. destruct (Z_lt_le_dec (-16 + A + len * 1 + Z.of_nat k) A) as [Lo|Hi].
      - apply (readable_first_page A s junk); lia.
      - apply (readable_inside A s junk); lia. }
    set (J := bytes_at A s junk (A - Z.of_nat (16 - n)) (16 - n)).
    assert (Eb : bytes_at A s junk (-16 + A + len * 1) 16 = J ++ s).
    { replace (-16 + A + len * 1) with (A - Z.of_nat (16 - n)) by lia.
      pose proof (bytes_at_app A s junk (A - Z.of_nat (16 - n)) (16 - n) n) as B.
      replace ((16 - n) + n)%nat with 16%nat in B by lia. rewrite B.
      replace (A - Z.of_nat (16 - n) + Z.of_nat (16 - n)) with A by lia. unfold J. f_equal. apply bytes_at_whole. }
    assert (LJ : length (J ++ s) = 16%nat) by (rewrite app_length; unfold J; rewrite bytes_at_length; lia).
    assert (LJ0 : length J = (16 - n)%nat) by (unfold J; apply bytes_at_length).
    pose proof (movmsk_range s) as Rs. fold n in Rs. pose proof (movmsk_range J) as RJ. rewrite LJ0 in RJ.
    destruct (Z.eq_dec (movmsk s) 0) as [Mz|Mnz].
    + exists 16%nat. xstep. rewrite holds_cmp_LT by (unfold two63; lia). replace (len <? 16) with true by lia. cbv iota.
      xstep. xstep. cbn [holds zf logic_flags zflag]. rewrite Z.land_diag. replace (len =? 0) with false by lia. cbv iota.
      xstep. rewrite in64_true by (unfold two64; lia). cbv iota.
      xstep. xstep. cbn [holds zf logic_flags zflag]. rewrite testw_page by lia. replace ((16 + A + 0) mod 4096 <? 16) with true by lia. cbv iota.
      xstep. rewrite (load_bytes A s junk 16 _ Hrd), Eb. cbv iota.
      xstep. xstep. rewrite (vlow_vput 16 _ _ LJ).
      xstep. xstep. xstep. xstep. rewrite (shift_mask J) by (try exact LJ0; lia). rewrite Mz. change (0 =? 0) with true. cbv iota.
      xstep. cbn [holds zf logic_flags zflag]. cbv iota.
      xstep. replace (0 + slot + 0 =? slot) with true by lia. cbv iota. rewrite store_m1. xstep.
      f_equal. f_equal. symmetry. apply movmsk_zero. exact Mz.
    + assert (Hbsf : bsf (movmsk s) = fh s) by (apply bsf_movmsk; [fold n; lia|exact Mnz]).
      pose proof (fh_range s) as Rfs. fold n in Rfs.
      assert (Hne : fh s <> -1) by (intros E; apply movmsk_zero in E; congruence).
      exists 16%nat. xstep. rewrite holds_cmp_LT by (unfold two63; lia). replace (len <? 16) with true by lia. cbv iota.
      xstep. xstep. cbn [holds zf logic_flags zflag]. rewrite Z.land_diag. replace (len =? 0) with false by lia. cbv iota.
      xstep. rewrite in64_true by (unfold two64; lia). cbv iota.
      xstep. xstep. cbn [holds zf logic_flags zflag]. rewrite testw_page by lia. replace ((16 + A + 0) mod 4096 <? 16) with true by lia. cbv iota.
      xstep. rewrite (load_bytes A s junk 16 _ Hrd), Eb. cbv iota.
      xstep. xstep. rewrite (vlow_vput 16 _ _ LJ).
      xstep. xstep. xstep. xstep. rewrite (shift_mask J) by (try exact LJ0; lia). replace (movmsk s =? 0) with false by lia. cbv iota. rewrite Hbsf.
      xstep. cbn [holds zf logic_flags zflag]. cbv iota.
      xstep. replace (0 + slot + 0 =? slot) with true by lia. cbv iota. xstep.
      f_equal. f_equal. unfold signed64, two63. replace (fh s <? 9223372036854775808) with true by lia. reflexivity.
  - (* load 16 bytes at s: s followed by 16 - len bytes of the same page *)
    set (n := length s). assert (Hn : len = Z.of_nat n) by reflexivity.
    assert (Hrd : forall k, (k < 16)%nat -> readable A s (0 + A + 0 + Z.of_nat k) = true).
    { intros k Hk. apply (readable_first_page A s junk); lia. }
    set (J := bytes_at A s junk (A + Z.of_nat n) (16 - n)).
    assert (Eb : bytes_at A s junk (0 + A + 0) 16 = s ++ J).
    { replace (0 + A + 0) with A by lia. replace 16%nat with (n + (16 - n))%nat by lia.
      rewrite bytes_at_app. unfold n at 1. rewrite bytes_at_whole. reflexivity. }
    assert (LJ : length (s ++ J) = 16%nat) by (rewrite app_length; unfold J; rewrite bytes_at_length; lia).
    assert (Emsk : movmsk (s ++ J) = movmsk s + 2 ^ Z.of_nat n * movmsk J) by apply movmsk_app.
    pose proof (movmsk_range s) as Rs. pose proof (movmsk_range J) as RJ.
    destruct (Z.eq_dec (movmsk (s ++ J)) 0) as [Mz|Mnz].
    + (* no high byte among the 16: none in s *)
      exists 13%nat. xstep. rewrite holds_cmp_LT by (unfold two63; lia). replace (len <? 16) with true by lia. cbv iota.
      xstep. xstep. cbn [holds zf logic_flags zflag]. rewrite Z.land_diag. replace (len =? 0) with false by lia. cbv iota.
      xstep. rewrite in64_true by (unfold two64; lia). cbv iota.
      xstep. xstep. cbn [holds zf logic_flags zflag]. rewrite testw_page by lia. replace ((16 + A + 0) mod 4096 <? 16) with false by lia. cbv iota.
      xstep. rewrite (load_bytes A s junk 16 _ Hrd), Eb. cbv iota.
      xstep. xstep. rewrite (vlow_vput 16 _ _ LJ).
      xstep. rewrite (movmsk_small16 _ LJ), Mz. change (0 =? 0) with true. cbv iota.
      xstep. cbn [holds zf logic_flags zflag]. cbv iota.
      xstep. replace (0 + slot + 0 =? slot) with true by lia. cbv iota. rewrite store_m1. xstep.
      f_equal. f_equal. symmetry. apply movmsk_zero. assert (0 <= 2 ^ Z.of_nat n) by (apply Z.pow_nonneg; lia). nia.
    + (* a high byte among the 16: in s iff its index is below len *)
      set (k := fh (s ++ J)).
      assert (Hk : 0 <= k < 16).
      { destruct (fh_range (s ++ J)) as [E|E]; [apply movmsk_zero in E; congruence|]. rewrite LJ in E. exact E. }
      assert (Hbsf : bsf (movmsk (s ++ J)) = k) by (apply bsf_movmsk; [rewrite LJ; lia|exact Mnz]).
      assert (Hks : k = if fh s <? 0 then (if fh J <? 0 then -1 else Z.of_nat n + fh J) else fh s) by (unfold k; apply fh_app).
      pose proof (fh_range s) as Rfs. fold n in Rfs. pose proof (fh_range J) as RfJ.
      exists 15%nat. xstep. rewrite holds_cmp_LT by (unfold two63; lia). replace (len <? 16) with true by lia. cbv iota.
      xstep. xstep. cbn [holds zf logic_flags zflag]. rewrite Z.land_diag. replace (len =? 0) with false by lia. cbv iota.
      xstep. rewrite in64_true by (unfold two64; lia). cbv iota.
      xstep. xstep. cbn [holds zf logic_flags zflag]. rewrite testw_page by lia. replace ((16 + A + 0) mod 4096 <? 16) with false by lia. cbv iota.
      xstep. rewrite (load_bytes A s junk 16 _ Hrd), Eb. cbv iota.
      xstep. xstep. rewrite (vlow_vput 16 _ _ LJ).
      xstep. rewrite (movmsk_small16 _ LJ). replace (movmsk (s ++ J) =? 0) with false by lia. cbv iota. rewrite Hbsf.
      xstep. cbn [holds zf logic_flags zflag]. cbv iota.
      xstep. xstep. rewrite holds_cmp_AE. unfold two32.
      rewrite (Z.mod_small k) by lia. rewrite (Z.mod_small len) by lia.
      assert (Hcase : (fh s = -1 /\ len <= k) \/ (0 <= fh s /\ k = fh s /\ k < len)).
      { destruct (fh s <? 0) eqn:Fs; destruct (fh J <? 0) eqn:FJ; lia. }
      destruct Hcase as [[Fs Hge]|(Fs & Ek & Hlt)].
      * (* the first high byte lies beyond s *)
        replace (len <=? k) with true by lia. cbv iota.
        xstep. replace (0 + slot + 0 =? slot) with true by lia. cbv iota. rewrite store_m1. xstep. congruence.
      * replace (len <=? k) with false by lia. cbv iota.
        xstep. replace (0 + slot + 0 =? slot) with true by lia. cbv iota. xstep.
        f_equal. f_equal. unfold signed64, two63. replace (k <? 9223372036854775808) with true by lia. lia.
Qed.


(* ---------- lengths from 16: the SSE loop ---------- *)

Lemma chunk_readable a n : A <= a -> a + Z.of_nat n <= A + len ->
  forall k, (k < n)%nat -> readable A s (a + Z.of_nat k) = true.
Proof. intros Ha Hb k Hk. apply (readable_inside A s junk). lia. Qed.

Lemma chunk_bytes off : (off + 16 <= length s)%nat ->
  load A s junk 16 (A + Z.of_nat off) = Some (firstn 16 (skipn off s)) /\ length (firstn 16 (skipn off s)) = 16%nat.
Proof.
  intros H. split.
  - rewrite (load_bytes A s junk 16) by (apply chunk_readable; unfold X86.len; lia).
    rewrite (bytes_at_inside A s junk) by (unfold X86.len; lia). do 3 f_equal. lia.
  - rewrite firstn_length, skipn_length. lia.
Qed.

(* ssesuccess: the offset of the chunk plus the index inside it *)
Lemma sse_success ax cx dx di r9 r10 r11 r12 r13 r14 r15 x0 x1 x2 x3 x4 x5 x6 x7 f :
  0 <= di - A -> 0 <= dx -> di - A + dx < two63 ->
  run 4 37 (mk ax len cx dx A di slot r9 r10 r11 r12 r13 r14 r15 x0 x1 x2 x3 x4 x5 x6 x7 f None) = Done (Some (di - A + dx)).
Proof.
  intros H1 H2 H3. unfold mk. unfold two63 in *.
  xstep. rewrite in64_true by (unfold two64; lia). cbv iota.
  xstep. rewrite in64_true by (unfold two64; lia). cbv iota.
  xstep. replace (0 + slot + 0 =? slot) with true by lia. cbv iota.
  xstep. f_equal. f_equal. unfold signed64, two63. replace (di - A + dx <? 9223372036854775808) with true by lia. reflexivity.
Qed.

(* the last, overlapping chunk [len-16, len) *)
Lemma sse_final ax cx dx di r9 r10 r11 r12 r13 r14 r15 x0 x1 x2 x3 x4 x5 x6 x7 f :
  16 <= len -> ax = A + len - 16 -> fh (firstn (length s - 16) s) = -1 ->
  exists fuel, run fuel 29 (mk ax len cx dx A di slot r9 r10 r11 r12 r13 r14 r15 x0 x1 x2 x3 x4 x5 x6 x7 f None) = Done (Some (fh s)).
Proof.
  intros Hl Eax Hp. pose proof len_nonneg as H0. unfold two63 in Hlen.
  assert (Hn : len = Z.of_nat (length s)) by reflexivity.
  destruct (chunk_bytes (length s - 16)) as [Hld Hlc]; [lia|].
  replace (A + Z.of_nat (length s - 16)) with ax in Hld by lia.
  set (ch := firstn 16 (skipn (length s - 16) s)) in *.
  destruct (fh_chunk s (length s - 16) 16 ltac:(lia) Hp) as [Cz Cnz]. fold ch in Cz, Cnz.
  replace (length s - 16 + 16)%nat with (length s) in Cz by lia. rewrite fh_all in Cz.
  destruct (Z.eq_dec (movmsk ch) 0) as [Mz|Mnz].
  - exists 8%nat. unfold mk. xstep. xstep. replace (0 + ax + 0) with ax by lia. rewrite Hld. cbv iota.
    xstep. xstep. rewrite (vlow_vput 16 _ _ Hlc).
    xstep. rewrite (movmsk_small16 _ Hlc), Mz. change (0 =? 0) with true. cbv iota.
    xstep. cbn [holds zf negb option_map zflag]. cbv iota.
    xstep. replace (0 + slot + 0 =? slot) with true by lia. cbv iota. rewrite store_m1.
    xstep. rewrite (Cz Mz). reflexivity.
  - destruct (Cnz Mnz) as [Efh Rfh].
    assert (Hbsf : bsf (movmsk ch) = fh ch) by (apply bsf_movmsk; [lia|exact Mnz]).
    exists 10%nat. unfold mk. xstep. xstep. replace (0 + ax + 0) with ax by lia. rewrite Hld. cbv iota.
    xstep. xstep. rewrite (vlow_vput 16 _ _ Hlc).
    xstep. rewrite (movmsk_small16 _ Hlc). replace (movmsk ch =? 0) with false by lia. cbv iota. rewrite Hbsf.
    xstep. cbn [holds zf negb option_map zflag]. cbv iota.
    match goal with |- X86.run _ _ _ _ _ _ _ _ 4 37 ?st = _ =>
      pose proof (sse_success ax cx (fh ch) ax r9 r10 r11 r12 r13 r14 r15) as S4 end.
    unfold mk in S4. rewrite S4 by (unfold two63; lia). f_equal. f_equal. lia.
Qed.

(* the loop: invariant "the first 16k bytes hold no high byte", measure = chunks left *)
Lemma sse_loop (m : nat) : forall (k : nat) ax cx dx di r9 r10 r11 r12 r13 r14 r15 x0 x1 x2 x3 x4 x5 x6 x7 f,
  16 <= len -> ax = A + len - 16 -> di = A + 16 * Z.of_nat k -> 16 * Z.of_nat k <= len ->
  fh (firstn (16 * k) s) = -1 -> len - 16 - 16 * Z.of_nat k <= 16 * Z.of_nat m ->
  exists fuel, run fuel 27 (mk ax len cx dx A di slot r9 r10 r11 r12 r13 r14 r15 x0 x1 x2 x3 x4 x5 x6 x7 f None) = Done (Some (fh s)).
Proof.
  induction m as [|m IH]; intros k ax cx dx di r9 r10 r11 r12 r13 r14 r15 x0 x1 x2 x3 x4 x5 x6 x7 f Hl Eax Edi Hk Hp Hm;
    pose proof len_nonneg as H0; unfold two63 in Hlen; assert (Hn : len = Z.of_nat (length s)) by reflexivity.
  - (* no chunk left: the loop exits at once *)
    assert (Hge : ax <= di) by lia.
    destruct (sse_final ax cx dx di r9 r10 r11 r12 r13 r14 r15 x0 x1 x2 x3 x4 x5 x6 x7 (cmp_flags di ax signed64) Hl Eax) as [fu Hfu].
    { apply (fh_firstn_prefix s (16 * k)); [exact Hp|lia]. }
    exists (S (S fu)). unfold mk. xstep. xstep. rewrite holds_cmp_B. replace (di <? ax) with false by lia. cbv iota.
    exact Hfu.
  - destruct (Z_lt_le_dec di ax) as [Hlt|Hge].
    + (* one more chunk [16k, 16k+16) *)
      destruct (chunk_bytes (16 * k)) as [Hld Hlc]; [lia|].
      replace (A + Z.of_nat (16 * k)) with di in Hld by lia.
      set (ch := firstn 16 (skipn (16 * k) s)) in *.
      destruct (fh_chunk s (16 * k) 16 ltac:(lia) Hp) as [Cz Cnz]. fold ch in Cz, Cnz.
      destruct (Z.eq_dec (movmsk ch) 0) as [Mz|Mnz].
      * specialize (Cz Mz). replace (16 * k + 16)%nat with (16 * S k)%nat in Cz by lia.
        destruct (IH (S k) ax cx 0 (di + 16) r9 r10 r11 r12 r13 r14 r15 (vput 16 (map2 Z.land (vput 16 ch x1) x0) x0) (vput 16 ch x1) x2 x3 x4 x5 x6 x7
                  noflags Hl Eax) as [fu Hfu]; [lia|lia|exact Cz|lia|].
        exists (S (S (S (S (S (S (S (S fu)))))))). unfold mk. xstep. xstep. rewrite holds_cmp_B. replace (di <? ax) with true by lia. cbv iota.
        xstep. replace (0 + di + 0) with di by lia. rewrite Hld. cbv iota.
        xstep. xstep. rewrite (vlow_vput 16 _ _ Hlc).
        xstep. rewrite (movmsk_small16 _ Hlc), Mz. change (0 =? 0) with true. cbv iota.
        xstep. cbn [holds zf negb option_map zflag]. cbv iota.
        xstep. change (16 mod two64) with 16. rewrite in64_true by (unfold two64; lia). cbv iota.
        unfold mk in Hfu. exact Hfu.
      * destruct (Cnz Mnz) as [Efh Rfh].
        assert (Hbsf : bsf (movmsk ch) = fh ch) by (apply bsf_movmsk; [lia|exact Mnz]).
        exists 11%nat. unfold mk. xstep. xstep. rewrite holds_cmp_B. replace (di <? ax) with true by lia. cbv iota.
        xstep. replace (0 + di + 0) with di by lia. rewrite Hld. cbv iota.
        xstep. xstep. rewrite (vlow_vput 16 _ _ Hlc).
        xstep. rewrite (movmsk_small16 _ Hlc). replace (movmsk ch =? 0) with false by lia. cbv iota. rewrite Hbsf.
        xstep. cbn [holds zf negb option_map zflag]. cbv iota.
        match goal with |- X86.run _ _ _ _ _ _ _ _ 4 37 ?st = _ =>
          pose proof (sse_success ax cx (fh ch) di r9 r10 r11 r12 r13 r14 r15) as S4 end.
        unfold mk in S4. rewrite S4 by (unfold two63; lia). f_equal. f_equal. lia.
    + destruct (sse_final ax cx dx di r9 r10 r11 r12 r13 r14 r15 x0 x1 x2 x3 x4 x5 x6 x7 (cmp_flags di ax signed64) Hl Eax) as [fu Hfu].
      { apply (fh_firstn_prefix s (16 * k)); [exact Hp|lia]. }
      exists (S (S fu)). unfold mk. xstep. xstep. rewrite holds_cmp_B. replace (di <? ax) with false by lia. cbv iota.
      exact Hfu.
Qed.

(* from the dispatch: lengths 16..32, and every length from 16 when the CPU has no AVX2 *)
Lemma sse_path ax cx dx di r9 r10 r11 r12 r13 r14 r15 x0 x1 x2 x3 x4 x5 x6 x7 :
  16 <= len -> (len <= 32 \/ avx2 = false) ->
  exists fuel, run fuel 14 (mk ax len cx dx A di slot r9 r10 r11 r12 r13 r14 r15 x0 x1 x2 x3 x4 x5 x6 x7 (cmp_flags len 16 signed64) None)
               = Done (Some (fh s)).
Proof.
  intros Hl Hor. pose proof len_nonneg as H0. unfold two63 in Hlen.
  destruct (Z_le_gt_dec len 32) as [H32|H32].
  - destruct (sse_loop (Z.to_nat len) 0 (-16 + A + len * 1) cx dx A r9 r10 r11 r12 r13 r14 r15 x0 x1 x2 x3 x4 x5 x6 x7
                (cmp_flags len (32 mod two64) signed64) Hl) as [fu Hfu]; try lia; [reflexivity|].
    exists (S (S (S (S (S (S fu)))))). unfold mk.
    xstep. rewrite holds_cmp_LT by (unfold two63; lia). replace (len <? 16) with false by lia. cbv iota.
    xstep. xstep. xstep. rewrite holds_cmp_A. change (32 mod two64) with 32. replace (32 <? len) with false by lia. cbv iota.
    xstep. rewrite in64_true by (unfold two64; lia). cbv iota.
    xstep. exact Hfu.
  - destruct Hor as [Hor|Hor]; [lia|].
    destruct (sse_loop (Z.to_nat len) 0 (-16 + A + len * 1) cx dx A r9 r10 r11 r12 r13 r14 r15 x0 x1 x2 x3 x4 x5 x6 x7
                (cmp_flags 0 1 (fun v => v)) Hl) as [fu Hfu]; try lia; [reflexivity|].
    exists (S (S (S (S (S (S (S (S fu)))))))). unfold mk.
    xstep. rewrite holds_cmp_LT by (unfold two63; lia). replace (len <? 16) with false by lia. cbv iota.
    xstep. xstep. xstep. rewrite holds_cmp_A. change (32 mod two64) with 32. replace (32 <? len) with true by lia. cbv iota.
    xstep. replace (if avx2 then 1 else 0) with 0 by (rewrite Hor; reflexivity). xstep. rewrite holds_cmp_NE. change (negb (0 =? 1)) with true. cbv iota.
    xstep. rewrite in64_true by (unfold two64; lia). cbv iota.
    xstep. exact Hfu.
Qed.

(* ---------- lengths above 32 with AVX2 ---------- *)

Notation r128 := (repeat 128 32).
Definition y2of (data : list Z) := map2 Z.land r128 data.
Definition y3of (data : list Z) := map2 eqmask r128 (y2of data).

Lemma chunk32 off : (off + 32 <= length s)%nat ->
  let data := firstn 32 (skipn off s) in
  load A s junk 32 (A + Z.of_nat off) = Some data /\ length data = 32%nat /\
  movmsk (y3of data) = movmsk data /\ forallb (fun x => x =? 0) (map2 Z.land (y3of data) (y3of data)) = (movmsk data =? 0) /\
  length (y3of data) = 32%nat /\ length (y2of data) = 32%nat.
Proof.
  intros H data.
  assert (Eb : bytes_at A s junk (A + Z.of_nat off) 32 = data).
  { rewrite (bytes_at_inside A s junk) by (unfold X86.len; lia). unfold data. do 2 f_equal. lia. }
  assert (L : length data = 32%nat) by (unfold data; rewrite firstn_length, skipn_length; lia).
  assert (W : Forall (fun b => 0 <= b < 256) data) by (rewrite <- Eb; apply bytes_range).
  split; [|split; [exact L|]].
  - rewrite (load_bytes A s junk 32) by (apply chunk_readable; unfold X86.len; lia). rewrite Eb. reflexivity.
  - destruct (hi_mask32 data W L) as (M1 & M2 & M3). unfold y3of, y2of. repeat split; try assumption.
    rewrite map2_length, repeat_length, L. reflexivity.
Qed.

(* avx2success *)
Lemma avx2_success data ax cx dx di r9 r10 r11 r12 r13 r14 r15 x0 x1 x2 x4 x5 x6 x7 f :
  length data = 32%nat -> length (y3of data) = 32%nat -> movmsk (y3of data) = movmsk data -> movmsk data <> 0 ->
  0 <= di - A -> di - A + 32 < two63 ->
  run 7 90 (mk ax len cx dx A di slot r9 r10 r11 r12 r13 r14 r15 x0 x1 x2 (y3of data) x4 x5 x6 x7 f None)
  = Done (Some (di - A + fh data)).
Proof.
  intros L L3 M Mnz H1 H2. unfold mk. unfold two63 in *.
  assert (Hbsf : bsf (movmsk data) = fh data) by (apply bsf_movmsk; [lia|exact Mnz]).
  pose proof (movmsk_range data) as R. rewrite L in R. change (2 ^ Z.of_nat 32) with 4294967296 in R.
  destruct (fh_range data) as [E|E]; [apply movmsk_zero in E; congruence|]. rewrite L in E.
  xstep. rewrite (vlow_full 32 _ L3), M.
  xstep. unfold two32. rewrite (Z.mod_small (movmsk data)) by lia. replace (movmsk data =? 0) with false by lia. cbv iota. rewrite Hbsf.
  xstep. rewrite in64_true by (unfold two64; lia). cbv iota.
  xstep. rewrite in64_true by (unfold two64; lia). cbv iota.
  xstep. replace (0 + slot + 0 =? slot) with true by lia. cbv iota.
  xstep. xstep. f_equal. f_equal. unfold signed64, two63. replace (fh data + (di - A) <? 9223372036854775808) with true by lia. lia.
Qed.

(* the five instructions that test one 32-byte chunk (at avx2_loop and after it) *)
Ltac avx2_chunk di data x2 x3 Hld L L2 L3 Mf Hx2 Hx3 :=
  xstep; replace (0 + di + 0) with di by lia; rewrite Hld; cbv iota; rewrite (vput_full 32 data x2 L Hx2);
  xstep; change (map2 Z.land r128 data) with (y2of data); rewrite (vput_full 32 (y2of data) data L2) by lia;
  xstep; change (map2 (fun x y => if x =? y then 255 else 0) r128 (y2of data)) with (y3of data);
    rewrite (vput_full 32 (y3of data) x3 L3 Hx3);
  xstep; rewrite Mf;
  xstep; cbn [holds zf negb option_map zflag].

(* the last, overlapping chunk [len-32, len) *)
Lemma avx2_final ax cx dx di r9 r10 r11 r12 r13 r14 r15 x0 x2 x3 x5 x6 x7 f :
  32 <= len -> r11 = A + len - 32 -> fh (firstn (length s - 32) s) = -1 -> (length x2 <= 32)%nat -> (length x3 <= 32)%nat ->
  exists fuel, run fuel 81 (mk ax len cx dx A di slot r9 r10 r11 r12 r13 r14 r15 x0 r128 x2 x3 r128 x5 x6 x7 f None) = Done (Some (fh s)).
Proof.
  intros Hl Er Hp Hx2 Hx3. pose proof len_nonneg as H0. unfold two63 in Hlen.
  assert (Hn : len = Z.of_nat (length s)) by reflexivity.
  destruct (chunk32 (length s - 32)) as (Hld & L & M & Mf & L3 & L2); [lia|].
  replace (A + Z.of_nat (length s - 32)) with r11 in Hld by lia.
  set (data := firstn 32 (skipn (length s - 32) s)) in *.
  destruct (fh_chunk s (length s - 32) 32 ltac:(lia) Hp) as [Cz Cnz]. fold data in Cz, Cnz.
  replace (length s - 32 + 32)%nat with (length s) in Cz by lia. rewrite fh_all in Cz.
  destruct (Z.eq_dec (movmsk data) 0) as [Mz|Mnz].
  - exists 9%nat. unfold mk. xstep.
    avx2_chunk r11 data x2 x3 Hld L L2 L3 Mf Hx2 Hx3.
    rewrite Mz. change (negb (0 =? 0)) with false. cbv iota.
    xstep. xstep. replace (0 + slot + 0 =? slot) with true by lia. cbv iota. rewrite store_m1.
    xstep. rewrite (Cz Mz). reflexivity.
  - destruct (Cnz Mnz) as [Efh Rfh].
    exists 13%nat. unfold mk. xstep.
    avx2_chunk r11 data x2 x3 Hld L L2 L3 Mf Hx2 Hx3.
    replace (movmsk data =? 0) with false by lia. cbv [negb]. cbv iota.
    pose proof (avx2_success data ax cx dx r11 r9 r10 r11 r12 r13 r14 r15 x0 r128 (y2of data) r128 x5 x6 x7) as S7.
    unfold mk in S7. rewrite S7 by (try assumption; unfold two63; lia). f_equal. f_equal. lia.
Qed.

(* the loop (entered with at least one whole chunk ahead): invariant "the first 32k bytes hold no high byte" *)
Lemma avx2_loop (m : nat) : forall (k : nat) ax cx dx di r9 r10 r11 r12 r13 r14 r15 x0 x2 x3 x5 x6 x7 f,
  32 <= len -> r11 = A + len - 32 -> di = A + 32 * Z.of_nat k -> 32 * Z.of_nat k + 32 <= len ->
  fh (firstn (32 * k) s) = -1 -> len - 32 - 32 * Z.of_nat k <= 32 * Z.of_nat m -> (length x2 <= 32)%nat -> (length x3 <= 32)%nat ->
  exists fuel, run fuel 73 (mk ax len cx dx A di slot r9 r10 r11 r12 r13 r14 r15 x0 r128 x2 x3 r128 x5 x6 x7 f None) = Done (Some (fh s)).
Proof.
  induction m as [|m IH].
  - intros k ax cx dx di r9 r10 r11 r12 r13 r14 r15 x0 x2 x3 x5 x6 x7 f Hl Er Edi Hk Hp Hm Hx2 Hx3;
    pose proof len_nonneg as H0; unfold two63 in Hlen; assert (Hn : len = Z.of_nat (length s)) by reflexivity;
    destruct (chunk32 (32 * k)) as (Hld & L & M & Mf & L3 & L2); [lia|];
    replace (A + Z.of_nat (32 * k)) with di in Hld by lia;
    set (data := firstn 32 (skipn (32 * k) s)) in *;
    (destruct (fh_chunk s (32 * k) 32 ltac:(lia) Hp) as [Cz Cnz]); fold data in Cz, Cnz;
    (destruct (Z.eq_dec (movmsk data) 0) as [Mz|Mnz]).
    + specialize (Cz Mz). destruct (Z_lt_le_dec (di + 32) r11) as [Hlt|Hge]; [exfalso; lia|].
      destruct (avx2_final ax cx dx (di + 32) r9 r10 r11 r12 r13 r14 r15 x0 (y2of data) (y3of data) x5 x6 x7 (cmp_flags (di + 32) r11 signed64) ltac:(lia) Er) as [fu Hfu]; [|lia|lia|].
      { apply (fh_firstn_prefix s (32 * k + 32)); [exact Cz|lia]. }
      exists (S (S (S (S (S (S (S (S fu)))))))). unfold mk.
      avx2_chunk di data x2 x3 Hld L L2 L3 Mf Hx2 Hx3.
      rewrite Mz. change (negb (0 =? 0)) with false. cbv iota.
      xstep. change (32 mod two64) with 32. rewrite in64_true by (unfold two64; lia). cbv iota.
      xstep. xstep. rewrite holds_cmp_LT by (unfold two63; lia). replace (di + 32 <? r11) with false by lia. cbv iota.
      unfold mk in Hfu. exact Hfu.
    + 
    destruct (Cnz Mnz) as [Efh Rfh].
    exists 12%nat. unfold mk.
    avx2_chunk di data x2 x3 Hld L L2 L3 Mf Hx2 Hx3.
    replace (movmsk data =? 0) with false by lia. cbv [negb]. cbv iota.
    pose proof (avx2_success data ax cx dx di r9 r10 r11 r12 r13 r14 r15 x0 r128 (y2of data) r128 x5 x6 x7) as S7.
    unfold mk in S7. rewrite S7 by (try assumption; unfold two63; lia). f_equal. f_equal. lia.
  - intros k ax cx dx di r9 r10 r11 r12 r13 r14 r15 x0 x2 x3 x5 x6 x7 f Hl Er Edi Hk Hp Hm Hx2 Hx3;
    pose proof len_nonneg as H0; unfold two63 in Hlen; assert (Hn : len = Z.of_nat (length s)) by reflexivity;
    destruct (chunk32 (32 * k)) as (Hld & L & M & Mf & L3 & L2); [lia|];
    replace (A + Z.of_nat (32 * k)) with di in Hld by lia;
    set (data := firstn 32 (skipn (32 * k) s)) in *;
    (destruct (fh_chunk s (32 * k) 32 ltac:(lia) Hp) as [Cz Cnz]); fold data in Cz, Cnz;
    (destruct (Z.eq_dec (movmsk data) 0) as [Mz|Mnz]).
    + specialize (Cz Mz). destruct (Z_lt_le_dec (di + 32) r11) as [Hlt|Hge].
      {
      replace (32 * k + 32)%nat with (32 * S k)%nat in Cz by lia.
      destruct (IH (S k) ax cx dx (di + 32) r9 r10 r11 r12 r13 r14 r15 x0 (y2of data) (y3of data) x5 x6 x7 (cmp_flags (di + 32) r11 signed64) Hl Er) as [fu Hfu]; try lia.
      exists (S (S (S (S (S (S (S (S fu)))))))). unfold mk.
      avx2_chunk di data x2 x3 Hld L L2 L3 Mf Hx2 Hx3.
      rewrite Mz. change (negb (0 =? 0)) with false. cbv iota.
      xstep. change (32 mod two64) with 32. rewrite in64_true by (unfold two64; lia). cbv iota.
      xstep. xstep. rewrite holds_cmp_LT by (unfold two63; lia). replace (di + 32 <? r11) with true by lia. cbv iota.
      unfold mk in Hfu. exact Hfu.
      }
      destruct (avx2_final ax cx dx (di + 32) r9 r10 r11 r12 r13 r14 r15 x0 (y2of data) (y3of data) x5 x6 x7 (cmp_flags (di + 32) r11 signed64) ltac:(lia) Er) as [fu Hfu]; [|lia|lia|].
      { apply (fh_firstn_prefix s (32 * k + 32)); [exact Cz|lia]. }
      exists (S (S (S (S (S (S (S (S fu)))))))). unfold mk.
      avx2_chunk di data x2 x3 Hld L L2 L3 Mf Hx2 Hx3.
      rewrite Mz. change (negb (0 =? 0)) with false. cbv iota.
      xstep. change (32 mod two64) with 32. rewrite in64_true by (unfold two64; lia). cbv iota.
      xstep. xstep. rewrite holds_cmp_LT by (unfold two63; lia). replace (di + 32 <? r11) with false by lia. cbv iota.
      unfold mk in Hfu. exact Hfu.
    + 
    destruct (Cnz Mnz) as [Efh Rfh].
    exists 12%nat. unfold mk.
    avx2_chunk di data x2 x3 Hld L L2 L3 Mf Hx2 Hx3.
    replace (movmsk data =? 0) with false by lia. cbv [negb]. cbv iota.
    pose proof (avx2_success data ax cx dx di r9 r10 r11 r12 r13 r14 r15 x0 r128 (y2of data) r128 x5 x6 x7) as S7.
    unfold mk in S7. rewrite S7 by (try assumption; unfold two63; lia). f_equal. f_equal. lia.
Qed.

(* from the dispatch: lengths above 32 on a CPU with AVX2 *)
Lemma avx2_path cx dx di r9 r10 r11 r12 r13 r14 r15 x0 x1 x2 x3 x4 x5 x6 x7 :
  32 < len -> avx2 = true -> (length x2 <= 32)%nat -> (length x3 <= 32)%nat ->
  exists fuel, run fuel 14 (mk (128 mod two64) len cx dx A di slot r9 r10 r11 r12 r13 r14 r15 x0 x1 x2 x3 x4 x5 x6 x7 (cmp_flags len 16 signed64) None)
               = Done (Some (fh s)).
Proof.
  intros Hl Hav Hx2 Hx3. pose proof len_nonneg as H0. unfold two63 in Hlen.
  set (x0' := vput 16 (le_bytes4 ((128 mod two64) mod two32) ++ repeat 0 12) (vput 16 (le_bytes4 ((128 mod two64) mod two32) ++ repeat 0 12) x0)).
  destruct (avx2_loop (Z.to_nat len) 0 (128 mod two64) cx dx A r9 r10 (-32 + A + len * 1) r12 r13 r14 r15 x0' x2 x3 x5 x6 x7
              (cmp_flags 1 1 (fun v => v))) as [fu Hfu]; try lia; [reflexivity|].
  exists (S (S (S (S (S (S (S (S (S (S (S (S fu)))))))))))). unfold mk.
  xstep. rewrite holds_cmp_LT by (unfold two63; lia). replace (len <? 16) with false by lia. cbv iota.
  xstep. xstep. xstep. rewrite holds_cmp_A. change (32 mod two64) with 32. replace (32 <? len) with true by lia. cbv iota.
  xstep. replace (if avx2 then 1 else 0) with 1 by (rewrite Hav; reflexivity).
  xstep. rewrite holds_cmp_NE. change (negb (1 =? 1)) with false. cbv iota.
  xstep. xstep. rewrite hd_movd. change (((128 mod two64) mod two32) mod 256) with 128.
  xstep. xstep. rewrite in64_true by (unfold two64; lia). cbv iota.
  xstep. rewrite hd_movd. change (((128 mod two64) mod two32) mod 256) with 128.
  xstep. unfold mk, x0' in Hfu. exact Hfu.
Qed.

(* the state at the dispatch, reached from either entry point *)
Lemma prologue_str r0 : exists x0, forall f,
  run (S (S (S (S (S (S (S (S (S (S f)))))))))) entry_index_non_ascii_go122_amd64_IndexNonASCII (init r0)
  = run f 14 (mk (128 mod two64) len (r0 CX) (r0 DX) A (r0 DI) slot (r0 R9) (r0 R10) (r0 R11) (r0 R12) (r0 R13) (r0 R14) (r0 R15)
                 x0 (repeat 0 32) (repeat 0 32) (repeat 0 32) (repeat 0 32) (repeat 0 32) (repeat 0 32) (repeat 0 32)
                 (cmp_flags len (16 mod two64) signed64) None).
Proof.
  eexists. intros f. unfold entry_index_non_ascii_go122_amd64_IndexNonASCII, init.
  do 10 xstep. unfold mk. reflexivity.
Qed.

Lemma prologue_byt r0 : exists x0, forall f,
  run (S (S (S (S (S (S (S (S (S (S f)))))))))) entry_index_non_ascii_go122_amd64_IndexByteNonASCII (init r0)
  = run f 14 (mk (128 mod two64) len (r0 CX) (r0 DX) A (r0 DI) slot (r0 R9) (r0 R10) (r0 R11) (r0 R12) (r0 R13) (r0 R14) (r0 R15)
                 x0 (repeat 0 32) (repeat 0 32) (repeat 0 32) (repeat 0 32) (repeat 0 32) (repeat 0 32) (repeat 0 32)
                 (cmp_flags len (16 mod two64) signed64) None).
Proof.
  eexists. intros f. unfold entry_index_non_ascii_go122_amd64_IndexByteNonASCII, init.
  do 10 xstep. unfold mk. reflexivity.
Qed.

Lemma body_from_dispatch cx dx di r9 r10 r11 r12 r13 r14 r15 x0 :
  exists fuel, run fuel 14 (mk (128 mod two64) len cx dx A di slot r9 r10 r11 r12 r13 r14 r15
                 x0 (repeat 0 32) (repeat 0 32) (repeat 0 32) (repeat 0 32) (repeat 0 32) (repeat 0 32) (repeat 0 32)
                 (cmp_flags len (16 mod two64) signed64) None) = Done (Some (fh s)).
Proof.
  change (16 mod two64) with 16.
  destruct (Z_lt_le_dec len 16) as [H16|H16]; [apply small_path; exact H16|].
  destruct (Z_le_gt_dec len 32) as [H32|H32]; [apply sse_path; [exact H16|left; exact H32]|].
  destruct (bool_dec avx2 true) as [Hav|Hav].
  - apply avx2_path; [lia|exact Hav|rewrite repeat_length; lia|rewrite repeat_length; lia].
  - apply sse_path; [exact H16|right; apply not_true_is_false; exact Hav].
Qed.

(* THE KERNEL THEOREM: both entry points, started with arbitrary register contents, return the offset of the first
   byte >= 0x80 of the argument (or -1): at every address >= 4096 and alignment, for every content of the
   surrounding memory, with and without AVX2; no load leaves the pages of the argument (a load elsewhere is a
   Fault of the machine, not Done) and the only store is the result slot. *)
Theorem index_non_ascii_str r0 :
  exists fuel, run fuel entry_index_non_ascii_go122_amd64_IndexNonASCII (init r0) = Done (Some (fh s)).
Proof.
  destruct (prologue_str r0) as [x0 Hp].
  destruct (body_from_dispatch (r0 CX) (r0 DX) (r0 DI) (r0 R9) (r0 R10) (r0 R11) (r0 R12) (r0 R13) (r0 R14) (r0 R15) x0) as [fu Hfu].
  exists (S (S (S (S (S (S (S (S (S (S fu)))))))))). rewrite Hp. exact Hfu.
Qed.

Theorem index_non_ascii_byt r0 :
  exists fuel, run fuel entry_index_non_ascii_go122_amd64_IndexByteNonASCII (init r0) = Done (Some (fh s)).
Proof.
  destruct (prologue_byt r0) as [x0 Hp].
  destruct (body_from_dispatch (r0 CX) (r0 DX) (r0 DI) (r0 R9) (r0 R10) (r0 R11) (r0 R12) (r0 R13) (r0 R14) (r0 R15) x0) as [fu Hfu].
  exists (S (S (S (S (S (S (S (S (S (S fu)))))))))). rewrite Hp. exact Hfu.
Qed.

End K.
