(* X86NonASCII.v — the amd64 assembly of IndexNonASCII / IndexByteNonASCII
   (translated by tools/asm2prog.py into the programs prog_index_non_ascii_.. of AsmProg)
   returns the offset of the first byte >= 0x80, or -1: for every argument,
   at every address and alignment, whatever surrounds it in memory, with and
   without AVX2; every load stays inside the pages of the argument and the
   only store is the result. *)
From Coq Require Import List ZArith Lia Bool.
From Strcase Require Import Base Spec X86 X86Facts.
From StrcaseGen Require Import AsmProg.
From Coq Require Import ZifyBool ZifyNat.
Import ListNotations.
Open Scope Z_scope.

Section K.
Variables (A : Z) (s : list Z) (junk : Z -> Z) (slot : Z) (avx2 popcnt : bool) (c : Z).
Hypothesis HA : 4096 <= A.
Hypothesis Hlen : A + X86.len s < two63.
Hypothesis Hslot : 0 <= slot < two64.

Notation P := prog_index_non_ascii_go122_amd64.
Notation run := (X86.run A s junk slot avx2 popcnt c P).
Notation len := (X86.len s).

Lemma in64_true v : 0 <= v < two64 -> in64 v = true.
Proof. unfold in64. lia. Qed.

Ltac xstep :=
  match goal with
  | |- context [X86.run _ _ _ _ _ _ _ ?PR (S ?f) ?pc ?st] =>
    rewrite (run_S A s junk slot avx2 popcnt c PR f pc st _ eq_refl);
    cbv beta iota zeta delta [X86.step val ea wr64 rg vr set_reg set_vr set_fl set_res m_disp m_base m_idx
         gAX gBX gCX gDX gSI gDI gR8 gR9 gR10 gR11 gR12 gR13 gR14 gR15 v0 v1 v2 v3 v4 v5 v6 v7 fl res]
  end.

Lemma len_nonneg : 0 <= len.
Proof. unfold X86.len. lia. Qed.

(* from the entry of IndexNonASCII to the dispatch on the length *)
Lemma prologue r0 f :
  exists st1, run (S (S (S (S (S (S (S (S (S (S f)))))))))) entry_index_non_ascii_go122_amd64_IndexNonASCII (init r0) = run f 14 st1 /\
    gSI st1 = A /\ gBX st1 = len /\ gR8 st1 = slot /\ gAX st1 = 128 /\ res st1 = None /\
    fl st1 = cmp_flags len 16 signed64.
Proof.
  unfold entry_index_non_ascii_go122_amd64_IndexNonASCII.
  pose proof len_nonneg. unfold two63, two64 in *.
  do 10 xstep.
  eexists. split; [reflexivity|]. cbn. repeat split; try reflexivity.
Qed.


(* an explicit machine state *)
Definition mk ax bx cx dx si di r8 r9 r10 r11 r12 r13 r14 r15 x0 x1 x2 x3 x4 x5 x6 x7 f rs : st :=
  {| gAX := ax; gBX := bx; gCX := cx; gDX := dx; gSI := si; gDI := di; gR8 := r8; gR9 := r9; gR10 := r10; gR11 := r11;
     gR12 := r12; gR13 := r13; gR14 := r14; gR15 := r15; v0 := x0; v1 := x1; v2 := x2; v3 := x3; v4 := x4; v5 := x5;
     v6 := x6; v7 := x7; fl := f; res := rs |}.

Hypothesis Hwf : Forall (fun b => 0 <= b < 256) s.

Lemma slot_eq : (slot =? slot) = true.
Proof. apply Z.eqb_refl. Qed.

Lemma store_m1 : signed64 ((-1) mod two64) = -1.
Proof. reflexivity. Qed.

Lemma nil_of_len0 : len = 0 -> s = [].
Proof. unfold X86.len. destruct s; [reflexivity|cbn [length]; lia]. Qed.

Lemma bytes_range a n : Forall (fun b => 0 <= b < 256) (bytes_at A s junk a n).
Proof.
  revert a. induction n as [|n IH]; intros a; [constructor|]. cbn [bytes_at]. constructor; [|apply IH].
  unfold X86.byte_at. destruct ((A <=? a) && (a <? A + len)) eqn:E.
  - rewrite Forall_forall in Hwf. apply Hwf. apply nth_In. unfold X86.len in E. lia.
  - lia.
Qed.

Lemma vlow_vput w (v old : list Z) : length v = w -> vlow w (vput w v old) = v.
Proof.
  intros H. unfold vlow, vput. rewrite firstn_app, firstn_firstn, Nat.min_id, firstn_length, H, Nat.min_id, Nat.sub_diag.
  cbn [firstn]. rewrite app_nil_r. apply firstn_all2. lia.
Qed.

Lemma movmsk_small16 (v : list Z) : length v = 16%nat -> movmsk v mod two32 = movmsk v.
Proof. intros H. pose proof (movmsk_range v) as R. rewrite H in R. change (2 ^ Z.of_nat 16) with 65536 in R. unfold two32. lia. Qed.

(* SHLL len; SHRL 16 on the mask of [16-len stray bytes ++ s]: a separate lemma, because lia would pick this
   non-linear fact up from the context of the stepping proof and not come back *)
Lemma shift_mask (J : list Z) : 1 <= len <= 15 -> length J = (16 - length s)%nat ->
  ((movmsk (J ++ s) mod two32 * 2 ^ (len mod two32 mod 32) mod two32) mod two32 / 2 ^ (16 mod two64 mod 32)) mod two32 = movmsk s.
Proof.
  intros Hl LJ0. set (n := length s) in *. assert (Hn : len = Z.of_nat n) by reflexivity.
  pose proof (movmsk_range s) as Rs. fold n in Rs. pose proof (movmsk_range J) as RJ. rewrite LJ0 in RJ.
  assert (Emsk : movmsk (J ++ s) = movmsk J + 2 ^ Z.of_nat (16 - n) * movmsk s) by (rewrite movmsk_app, LJ0; reflexivity).
  change (16 mod two64) with 16. replace (len mod two32) with (Z.of_nat n) by (unfold two32; lia).
  rewrite Emsk. clear Emsk. rewrite (shift_out_junk (movmsk J) (movmsk s) n) by lia.
  assert (H15 : 2 ^ Z.of_nat n <= 2 ^ 15) by (apply Z.pow_le_mono_r; lia). change (2 ^ 15) with 32768 in H15.
  apply Z.mod_small. unfold two32. lia.
Qed.

(* lengths below 16 *)
Lemma small_path ax cx dx di r9 r10 r11 r12 r13 r14 r15 x0 x1 x2 x3 x4 x5 x6 x7 :
  len < 16 ->
  exists fuel, run fuel 14 (mk ax len cx dx A di slot r9 r10 r11 r12 r13 r14 r15 x0 x1 x2 x3 x4 x5 x6 x7 (cmp_flags len 16 signed64) None)
               = Done (Some (fh s)).
Proof.
  intros Hl. pose proof len_nonneg as H0. unfold mk. unfold two63 in Hlen.
  destruct (Z.eq_dec len 0) as [E0|N0].
  { (* empty *)
    exists 5%nat. xstep. rewrite holds_cmp_LT by (unfold two63; lia). replace (len <? 16) with true by lia. cbv iota.
    xstep. xstep. cbn [holds zf]. rewrite Z.land_diag. replace (len =? 0) with true by lia. cbv iota.
    xstep. replace (0 + slot + 0 =? slot) with true by lia. cbv iota. rewrite store_m1. xstep.
    rewrite (nil_of_len0 E0). reflexivity. }
  destruct (Z_lt_le_dec ((16 + A + 0) mod 4096) 16) as [Pg|Pg].
  - (* the 16-byte load at s would cross into the next page: load the 16 bytes that END at the end of s *)
    set (n := length s). assert (Hn : len = Z.of_nat n) by reflexivity.
    assert (Hrd : forall k, (k < 16)%nat -> readable A s (-16 + A + len * 1 + Z.of_nat k) = true).
    { intros k Hk. destruct (Z_lt_le_dec (-16 + A + len * 1 + Z.of_nat k) A) as [Lo|Hi].
      - apply (readable_first_page A s junk); lia.
      - apply (readable_inside A s junk); lia. }
    set (J := bytes_at A s junk (A - Z.of_nat (16 - n)) (16 - n)).
    assert (Eb : bytes_at A s junk (-16 + A + len * 1) 16 = J ++ s).
    { replace (-16 + A + len * 1) with (A - Z.of_nat (16 - n)) by lia.
      pose proof (bytes_at_app A s junk (A - Z.of_nat (16 - n)) (16 - n) n) as B.
      replace ((16 - n) + n)%nat with 16%nat in B by lia. rewrite B.
      replace (A - Z.of_nat (16 - n) + Z.of_nat (16 - n)) with A by lia. unfold J. f_equal. apply bytes_at_whole. }
    assert (LJ : length (J ++ s) = 16%nat) by (rewrite app_length; unfold J; rewrite bytes_at_length; lia).
    assert (LJ0 : length J = (16 - n)%nat) by (unfold J; apply bytes_at_length).
    pose proof (movmsk_range s) as Rs. fold n in Rs. pose proof (movmsk_range J) as RJ. rewrite LJ0 in RJ.
    destruct (Z.eq_dec (movmsk s) 0) as [Mz|Mnz].
    + exists 16%nat. xstep. rewrite holds_cmp_LT by (unfold two63; lia). replace (len <? 16) with true by lia. cbv iota.
      xstep. xstep. cbn [holds zf]. rewrite Z.land_diag. replace (len =? 0) with false by lia. cbv iota.
      xstep. rewrite in64_true by (unfold two64; lia). cbv iota.
      xstep. xstep. cbn [holds zf]. rewrite testw_page by lia. replace ((16 + A + 0) mod 4096 <? 16) with true by lia. cbv iota.
      xstep. rewrite (load_bytes A s junk 16 _ Hrd), Eb. cbv iota.
      xstep. xstep. rewrite (vlow_vput 16 _ _ LJ).
      xstep. xstep. xstep. xstep. rewrite (shift_mask J) by (try exact LJ0; lia). rewrite Mz. change (0 =? 0) with true. cbv iota.
      xstep. cbn [holds zf]. cbv iota.
      xstep. replace (0 + slot + 0 =? slot) with true by lia. cbv iota. rewrite store_m1. xstep.
      f_equal. f_equal. symmetry. apply movmsk_zero. exact Mz.
    + assert (Hbsf : bsf (movmsk s) = fh s) by (apply bsf_movmsk; [fold n; lia|exact Mnz]).
      pose proof (fh_range s) as Rfs. fold n in Rfs.
      assert (Hne : fh s <> -1) by (intros E; apply movmsk_zero in E; congruence).
      exists 16%nat. xstep. rewrite holds_cmp_LT by (unfold two63; lia). replace (len <? 16) with true by lia. cbv iota.
      xstep. xstep. cbn [holds zf]. rewrite Z.land_diag. replace (len =? 0) with false by lia. cbv iota.
      xstep. rewrite in64_true by (unfold two64; lia). cbv iota.
      xstep. xstep. cbn [holds zf]. rewrite testw_page by lia. replace ((16 + A + 0) mod 4096 <? 16) with true by lia. cbv iota.
      xstep. rewrite (load_bytes A s junk 16 _ Hrd), Eb. cbv iota.
      xstep. xstep. rewrite (vlow_vput 16 _ _ LJ).
      xstep. xstep. xstep. xstep. rewrite (shift_mask J) by (try exact LJ0; lia). replace (movmsk s =? 0) with false by lia. cbv iota. rewrite Hbsf.
      xstep. cbn [holds zf]. cbv iota.
      xstep. replace (0 + slot + 0 =? slot) with true by lia. cbv iota. xstep.
      f_equal. f_equal. unfold signed64, two63. replace (fh s <? 9223372036854775808) with true by lia. reflexivity.
  - (* load 16 bytes at s: s followed by 16 - len bytes of the same page *)
    set (n := length s). assert (Hn : len = Z.of_nat n) by reflexivity.
    assert (Hrd : forall k, (k < 16)%nat -> readable A s (0 + A + 0 + Z.of_nat k) = true).
    { intros k Hk. apply (readable_first_page A s junk); lia. }
    set (J := bytes_at A s junk (A + Z.of_nat n) (16 - n)).
    assert (Eb : bytes_at A s junk (0 + A + 0) 16 = s ++ J).
    { replace (0 + A + 0) with A by lia. replace 16%nat with (n + (16 - n))%nat by lia.
      rewrite bytes_at_app. unfold n at 1. rewrite bytes_at_whole. reflexivity. }
    assert (LJ : length (s ++ J) = 16%nat) by (rewrite app_length; unfold J; rewrite bytes_at_length; lia).
    assert (Emsk : movmsk (s ++ J) = movmsk s + 2 ^ Z.of_nat n * movmsk J) by apply movmsk_app.
    pose proof (movmsk_range s) as Rs. pose proof (movmsk_range J) as RJ.
    destruct (Z.eq_dec (movmsk (s ++ J)) 0) as [Mz|Mnz].
    + (* no high byte among the 16: none in s *)
      exists 13%nat. xstep. rewrite holds_cmp_LT by (unfold two63; lia). replace (len <? 16) with true by lia. cbv iota.
      xstep. xstep. cbn [holds zf]. rewrite Z.land_diag. replace (len =? 0) with false by lia. cbv iota.
      xstep. rewrite in64_true by (unfold two64; lia). cbv iota.
      xstep. xstep. cbn [holds zf]. rewrite testw_page by lia. replace ((16 + A + 0) mod 4096 <? 16) with false by lia. cbv iota.
      xstep. rewrite (load_bytes A s junk 16 _ Hrd), Eb. cbv iota.
      xstep. xstep. rewrite (vlow_vput 16 _ _ LJ).
      xstep. rewrite (movmsk_small16 _ LJ), Mz. change (0 =? 0) with true. cbv iota.
      xstep. cbn [holds zf]. cbv iota.
      xstep. replace (0 + slot + 0 =? slot) with true by lia. cbv iota. rewrite store_m1. xstep.
      f_equal. f_equal. symmetry. apply movmsk_zero. assert (0 <= 2 ^ Z.of_nat n) by (apply Z.pow_nonneg; lia). nia.
    + (* a high byte among the 16: in s iff its index is below len *)
      set (k := fh (s ++ J)).
      assert (Hk : 0 <= k < 16).
      { destruct (fh_range (s ++ J)) as [E|E]; [apply movmsk_zero in E; congruence|]. rewrite LJ in E. exact E. }
      assert (Hbsf : bsf (movmsk (s ++ J)) = k) by (apply bsf_movmsk; [rewrite LJ; lia|exact Mnz]).
      assert (Hks : k = if fh s <? 0 then (if fh J <? 0 then -1 else Z.of_nat n + fh J) else fh s) by (unfold k; apply fh_app).
      pose proof (fh_range s) as Rfs. fold n in Rfs. pose proof (fh_range J) as RfJ.
      exists 15%nat. xstep. rewrite holds_cmp_LT by (unfold two63; lia). replace (len <? 16) with true by lia. cbv iota.
      xstep. xstep. cbn [holds zf]. rewrite Z.land_diag. replace (len =? 0) with false by lia. cbv iota.
      xstep. rewrite in64_true by (unfold two64; lia). cbv iota.
      xstep. xstep. cbn [holds zf]. rewrite testw_page by lia. replace ((16 + A + 0) mod 4096 <? 16) with false by lia. cbv iota.
      xstep. rewrite (load_bytes A s junk 16 _ Hrd), Eb. cbv iota.
      xstep. xstep. rewrite (vlow_vput 16 _ _ LJ).
      xstep. rewrite (movmsk_small16 _ LJ). replace (movmsk (s ++ J) =? 0) with false by lia. cbv iota. rewrite Hbsf.
      xstep. cbn [holds zf]. cbv iota.
      xstep. xstep. rewrite holds_cmp_AE. unfold two32.
      rewrite (Z.mod_small k) by lia. rewrite (Z.mod_small len) by lia.
      assert (Hcase : (fh s = -1 /\ len <= k) \/ (0 <= fh s /\ k = fh s /\ k < len)).
      { destruct (fh s <? 0) eqn:Fs; destruct (fh J <? 0) eqn:FJ; lia. }
      destruct Hcase as [[Fs Hge]|(Fs & Ek & Hlt)].
      * (* the first high byte lies beyond s *)
        replace (len <=? k) with true by lia. cbv iota.
        xstep. replace (0 + slot + 0 =? slot) with true by lia. cbv iota. rewrite store_m1. xstep. congruence.
      * replace (len <=? k) with false by lia. cbv iota.
        xstep. replace (0 + slot + 0 =? slot) with true by lia. cbv iota. xstep.
        f_equal. f_equal. unfold signed64, two63. replace (k <? 9223372036854775808) with true by lia. lia.
Qed.


End K.
