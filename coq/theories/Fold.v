(* Fold.v — model of internal/tables lookup functions over an abstract
   table record; the records for the two shipped table files are built in
   FoldTables.v from the regenerated coq/gen/Tables*.v.
   The five lookup function bodies are hand-modelled (validated by the
   correspondence check on all keys, near keys, colliding values and random
   int32); the table data, seeds, shifts and sizes are translated. *)
From Strcase Require Import Base.
From Coq Require Import FMapPositive.

Definition two32 : Z := 4294967296.
Definition u32 (r : Z) : Z := r mod two32.                 (* uint32(r) *)
Definition to_rune (u : Z) : Z := if u <? 2147483648 then u else u - two32.  (* rune(u) *)

Definition pmap := PositiveMap.t (list Z).

Definition build (es : list (Z * list Z)) : pmap :=
  fold_left (fun m e => PositiveMap.add (Z.to_pos (fst e + 1)) (snd e) m) es (PositiveMap.empty _).

(* array read; absent slots hold the zero value *)
Definition slot (m : pmap) (width : nat) (h : Z) : list Z :=
  match PositiveMap.find (Z.to_pos (h + 1)) m with
  | Some v => v
  | None => repeat 0 width
  end.

Record tables := {
  cf_seed : Z; cf_shift : Z; cf_size : Z; cf_map : pmap;
  ul_seed : Z; ul_shift : Z; ul_size : Z; ul_map : pmap;
  fm_seed : Z; fm_shift : Z; fm_size : Z; fm_map : pmap;
  fx_size : Z; fx_map : pmap;
  ul_special : list (Z * (Z * Z))
}.

Definition hash (seed shift u : Z) : Z := Z.shiftr ((u * seed) mod two32) shift.

Section Lookup.
Variable T : tables.

(* tables.CaseFold *)
Definition case_fold (r : Z) : Z :=
  let u := u32 r in
  match slot (cf_map T) 2 (hash (cf_seed T) (cf_shift T) u) with
  | [from; to] => if from =? u then to_rune to else r
  | _ => r
  end.

(* tables.FoldMap: Some [4]uint16 or nil *)
Definition fold_map (r : Z) : option (list Z) :=
  let u := u32 r in
  let p := slot (fm_map T) 4 (hash (fm_seed T) (fm_shift T) u) in
  match p with
  | p0 :: _ => if p0 =? u then Some p else None
  | [] => None
  end.

(* tables.FoldMapExcludingUpperLower: [2]rune *)
Definition fold_map_excl (r : Z) : Z * Z :=
  let u := u32 r in
  match slot (fx_map T) 3 (hash (fm_seed T) (fm_shift T) u) with
  | [pr; a0; a1] => if pr =? u then (a0, a1) else (0, 0)
  | _ => (0, 0)
  end.

Fixpoint assoc (r : Z) (l : list (Z * (Z * Z))) : option (Z * Z) :=
  match l with
  | [] => None
  | (k, v) :: l' => if k =? r then Some v else assoc r l'
  end.

(* tables.ToUpperLower *)
Definition to_upper_lower (r : Z) : Z * Z * bool :=
  if r <=? 128 then
    if (65 <=? r) && (r <=? 90) then (r, r + 32, true)
    else if (97 <=? r) && (r <=? 122) then (r - 32, r, true)
    else (r, r, false)
  else
    let u := u32 r in
    let h := ((Z.lor u ((u * 16777216) mod two32)) * ul_seed T) mod two32 in
    match slot (ul_map T) 2 (Z.shiftr h (ul_shift T)) with
    | [p0; p1] =>
      if (p0 =? u) || (p1 =? u) then (to_rune p0, to_rune p1, true)
      else match assoc r (ul_special T) with
           | Some (up, lo) => (up, lo, true)
           | None => (r, r, false)
           end
    | _ => (r, r, false)
    end.

End Lookup.

(* strcase._lower / bytcase._lower as a function of an abstract 256-list *)
Definition lower_of (tbl : list Z) (b : Z) : Z := nth (Z.to_nat b) tbl 0.
