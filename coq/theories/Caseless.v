(* Caseless.v — C20, caseless class: for well-formed UTF-8 arguments none of
   whose code points is changed by case folding, the rune-sequence functions
   of Spec are the byte-level functions of strings/bytes (StdAscii's
   byte-exact models) on the arguments themselves.  The heart is alignment:
   in well-formed UTF-8 a byte-level occurrence of a well-formed non-empty
   needle starts on a code-point boundary and is an occurrence of the needle's
   code points, and conversely. *)
From Strcase Require Import Base Utf8 Utf8Facts Utf8Last Spec SpecFacts SpecIndex SpecAffix SpecChars Utf8Enc
  Refine_RuneCase Refine_Byte Refine_Rune Refine_RK Refine_Index Refine_RKRev Refine_Last StdAscii.
From Coq Require Import ZifyBool ZifyNat.

(* ---------- well-formed strings are the concatenation of the encodings of their code points ---------- *)

Lemma valid_seg_not_RE1 d : valid_seg d = true -> d <> RE1.
Proof. intros H E. subst d. discriminate. Qed.

Lemma bytes_of_runes s : wf s -> valid_utf8 s = true -> s = flat_map encode (runes s).
Proof.
  intros Hw. induction s as [|b l IH] using segs_ind; intros Hv; [reflexivity|].
  rewrite valid_utf8_cons in Hv. apply andb_true_iff in Hv as [Hv1 Hv2].
  destruct (encode_decode b l Hw (valid_seg_not_RE1 _ Hv1)) as [E _].
  unfold runes. rewrite segs_cons. cbn [map flat_map]. fold (runes (skipn (snd (decode (b :: l))) (b :: l))).
  rewrite <- E, <- (IH (wf_skipn _ _ Hw) Hv2). symmetry. apply firstn_skipn.
Qed.

Lemma valid_first_start c t : valid_utf8 (c :: t) = true -> is_start c = true.
Proof.
  intros Hv. rewrite valid_utf8_cons in Hv. apply andb_true_iff in Hv as [Hv1 _].
  rewrite is_start_cont. destruct (is_cont c) eqn:C; [|reflexivity].
  rewrite (decode_cont_head c t C) in Hv1. discriminate.
Qed.

Lemma forallb_firstn {A} (f : A -> bool) n l : forallb f l = true -> forallb f (firstn n l) = true.
Proof.
  revert l. induction n as [|n IH]; intros l H; [reflexivity|]. destruct l as [|x l]; [reflexivity|].
  cbn [forallb firstn] in *. apply andb_true_iff in H as [H1 H2]. rewrite H1, (IH l H2). reflexivity.
Qed.

Lemma valid_skipn_off s a : valid_utf8 s = true -> valid_utf8 (skipn (off s a) s) = true.
Proof. intros H. unfold valid_utf8 in *. rewrite segs_skipn_off. apply forallb_skipn. exact H. Qed.

Lemma valid_firstn_off s a : valid_utf8 s = true -> valid_utf8 (firstn (off s a) s) = true.
Proof. intros H. unfold valid_utf8 in *. rewrite segs_firstn_off. apply forallb_firstn. exact H. Qed.

Lemma runes_app_valid a b : valid_utf8 a = true -> runes (a ++ b) = runes a ++ runes b.
Proof. intros H. unfold runes. rewrite segs_app_valid by exact H. apply map_app. Qed.

(* ---------- UTF-8 preserves code-point order ---------- *)

Lemma bytes_compare_app_same e x y : bytes_compare (e ++ x) (e ++ y) = bytes_compare x y.
Proof. induction e as [|b e IH]; [reflexivity|]. cbn [app bytes_compare]. rewrite Z.ltb_irrefl. exact IH. Qed.

Lemma utf8_order r1 r2 x y :
  valid_rune r1 = true -> valid_rune r2 = true -> r1 < r2 ->
  bytes_compare (encode r1 ++ x) (encode r2 ++ y) = -1.
Proof.
  unfold valid_rune, MaxRune. intros V1 V2 L. unfold encode.
  destruct ((0 <=? r1) && (r1 <? 128)) eqn:A1; destruct ((0 <=? r2) && (r2 <? 128)) eqn:A2; try lia;
  destruct ((0 <=? r1) && (r1 <? 2048)) eqn:B1; destruct ((0 <=? r2) && (r2 <? 2048)) eqn:B2; try lia;
  unfold valid_rune, MaxRune; rewrite ?V1, ?V2; cbn [negb];
  destruct (r1 <? 65536) eqn:C1; destruct (r2 <? 65536) eqn:C2; try lia;
  cbn [app bytes_compare];
  repeat match goal with |- context [if ?c then _ else _] => destruct c eqn:? end; try reflexivity; exfalso; lia.
Qed.

Lemma utf8_order_gt r1 r2 x y :
  valid_rune r1 = true -> valid_rune r2 = true -> r2 < r1 ->
  bytes_compare (encode r1 ++ x) (encode r2 ++ y) = 1.
Proof.
  unfold valid_rune, MaxRune. intros V1 V2 L. unfold encode.
  destruct ((0 <=? r1) && (r1 <? 128)) eqn:A1; destruct ((0 <=? r2) && (r2 <? 128)) eqn:A2; try lia;
  destruct ((0 <=? r1) && (r1 <? 2048)) eqn:B1; destruct ((0 <=? r2) && (r2 <? 2048)) eqn:B2; try lia;
  unfold valid_rune, MaxRune; rewrite ?V1, ?V2; cbn [negb];
  destruct (r1 <? 65536) eqn:C1; destruct (r2 <? 65536) eqn:C2; try lia;
  cbn [app bytes_compare];
  repeat match goal with |- context [if ?c then _ else _] => destruct c eqn:? end; try reflexivity; exfalso; lia.
Qed.

(* UTF-8 preserves code-point order: on well-formed strings the order of the code-point sequences is the byte order *)
Lemma lex_runes_bytes n : forall s t, (length s <= n)%nat -> wf s -> wf t -> valid_utf8 s = true -> valid_utf8 t = true ->
  lex (runes s) (runes t) = bytes_compare s t.
Proof.
  induction n as [|n IH]; intros s t Hn Hws Hwt Hvs Hvt.
  - destruct s; [|cbn in Hn; lia]. destruct t as [|c t']; [reflexivity|]. unfold runes at 2. rewrite segs_cons. reflexivity.
  - destruct s as [|b l]; [destruct t as [|c t']; [reflexivity|unfold runes at 2; rewrite segs_cons; reflexivity]|].
    destruct t as [|c t']; [unfold runes at 1; rewrite segs_cons; reflexivity|].
    rewrite valid_utf8_cons in Hvs, Hvt. apply andb_true_iff in Hvs as [Hv1 Hv1']. apply andb_true_iff in Hvt as [Hv2 Hv2'].
    destruct (encode_decode b l Hws (valid_seg_not_RE1 _ Hv1)) as [E1 V1].
    destruct (encode_decode c t' Hwt (valid_seg_not_RE1 _ Hv2)) as [E2 V2].
    pose proof (decode_width_pos b l) as W1. pose proof (decode_width_le (b :: l)) as L1.
    set (r1 := fst (decode (b :: l))) in *. set (r2 := fst (decode (c :: t'))) in *.
    set (s' := skipn (snd (decode (b :: l))) (b :: l)) in *. set (t2 := skipn (snd (decode (c :: t'))) (c :: t')) in *.
    assert (Es : b :: l = encode r1 ++ s') by (rewrite <- E1; symmetry; apply firstn_skipn).
    assert (Et : c :: t' = encode r2 ++ t2) by (rewrite <- E2; symmetry; apply firstn_skipn).
    assert (Rs : runes (b :: l) = r1 :: runes s') by (unfold runes; rewrite segs_cons; reflexivity).
    assert (Rt : runes (c :: t') = r2 :: runes t2) by (unfold runes; rewrite segs_cons; reflexivity).
    rewrite Rs, Rt, Es, Et. cbn [lex].
    destruct (Z.lt_trichotomy r1 r2) as [Lt|[Eq|Gt]].
    + replace (r1 =? r2) with false by lia. rewrite (utf8_order r1 r2 s' t2 V1 V2 Lt). unfold clamp. replace (r1 - r2 <? 0) with true by lia. reflexivity.
    + replace (r1 =? r2) with true by lia. rewrite Eq, bytes_compare_app_same.
      apply IH; [unfold s'; rewrite skipn_length; cbn [length] in *; lia|apply wf_skipn; exact Hws|apply wf_skipn; exact Hwt|exact Hv1'|exact Hv2'].
    + replace (r1 =? r2) with false by lia. rewrite (utf8_order_gt r1 r2 s' t2 V1 V2 Gt). unfold clamp.
      replace (r1 - r2 <? 0) with false by lia. replace (0 <? r1 - r2) with true by lia. reflexivity.
Qed.

Lemma bool_eq_iff'' (a b : bool) : (a = true <-> b = true) -> a = b.
Proof. destruct a, b; intros [H1 H2]; try reflexivity; [symmetry; apply H1; reflexivity|apply H2; reflexivity]. Qed.

(* ---------- alignment ---------- *)

Lemma align s t p :
  wf s -> valid_utf8 s = true -> wf t -> valid_utf8 t = true -> t <> [] ->
  (prefixb t (skipn p s) = true <->
   exists a, (a <= rune_count s)%nat /\ off s a = p /\ prefixb (runes t) (skipn a (runes s)) = true).
Proof.
  intros Hws Hvs Hwt Hvt Hne. split.
  - intros P. apply prefixb_spec in P as [rest E].
    destruct t as [|c t']; [congruence|].
    assert (Hp : (p < length s)%nat).
    { destruct (le_lt_dec (length s) p) as [Hge|]; [|assumption]. rewrite skipn_all2 in E by exact Hge. discriminate. }
    assert (Hn : nth p s 0 = c).
    { rewrite (skipn_nth_cons s p Hp) in E. cbn [app] in E. congruence. }
    destruct (start_is_boundary s p Hp ltac:(rewrite Hn; apply (valid_first_start c t' Hvt))) as (a & Ha & Oa).
    exists a. split; [exact Ha|]. split; [exact Oa|].
    rewrite <- runes_skipn_off, Oa, E, (runes_app_valid _ rest Hvt). apply prefixb_app.
  - intros (a & Ha & Oa & P). apply prefixb_spec in P as [R E]. subst p.
    set (u := skipn (off s a) s).
    assert (Hwu : wf u) by (apply wf_skipn; exact Hws).
    assert (Hvu : valid_utf8 u = true) by (apply valid_skipn_off; exact Hvs).
    assert (Eu : runes u = runes t ++ R) by (unfold u; rewrite runes_skipn_off; exact E).
    rewrite (bytes_of_runes u Hwu Hvu), Eu, flat_map_app, <- (bytes_of_runes t Hwt Hvt). apply prefixb_app.
Qed.

Lemma off_lt_inv s a b : (a <= rune_count s)%nat -> (b <= rune_count s)%nat -> (off s a < off s b)%nat -> (a < b)%nat.
Proof.
  intros Ha Hb H. destruct (le_lt_dec b a) as [Hle|]; [|assumption].
  pose proof (off_mono s b a Hle). lia.
Qed.

(* ---------- the functions ---------- *)

Section C.
Variable fold : Z -> Z.

(* well-formed, and case folding changes none of its code points *)
Definition caseless (s : bytes) : Prop := valid_utf8 s = true /\ forall x, In x (runes s) -> fold x = x.

Lemma key_caseless s : caseless s -> key fold s = runes s.
Proof.
  intros [_ H]. rewrite key_runes_map. rewrite <- (map_id (runes s)) at 2. apply map_ext_in. exact H.
Qed.

Variables s t : bytes.
Hypothesis Hws : wf s.
Hypothesis Hwt : wf t.
Hypothesis Hcs : caseless s.
Hypothesis Hct : caseless t.

Lemma rc_len_key : length (runes s) = rune_count s.
Proof. apply runes_length. Qed.

Theorem caseless_index : index fold s t = std_index s t.
Proof.
  destruct Hcs as [Hvs _]. destruct Hct as [Hvt _].
  unfold index, std_index. rewrite (key_caseless s Hcs), (key_caseless t Hct).
  destruct t as [|c t'] eqn:Et.
  { change (runes []) with (@nil Z). destruct (runes s), s; reflexivity. }
  rewrite <- Et in *. assert (Hne : t <> []) by (rewrite Et; discriminate).
  destruct (find_first (runes t) (runes s) 0) as [k|] eqn:F; cbn [offz].
  - apply find_first_some in F as (d & -> & Hd & Hm & Hn). cbn [Nat.add] in *. rewrite runes_length in Hd.
    rewrite (find_first_least t s (off s d)); [reflexivity| | |apply off_le].
    + apply (align s t (off s d) Hws Hvs Hwt Hvt Hne). exists d. repeat split; assumption.
    + intros q Hq. destruct (prefixb t (skipn q s)) eqn:P; [|reflexivity]. exfalso.
      apply (align s t q Hws Hvs Hwt Hvt Hne) in P as (a & Ha & Oa & Pa).
      rewrite (Hn a) in Pa; [discriminate|]. apply (off_lt_inv s a d Ha Hd). lia.
  - rewrite (find_first_absent t s); [reflexivity|]. intros q.
    destruct (prefixb t (skipn q s)) eqn:P; [|reflexivity]. exfalso.
    apply (align s t q Hws Hvs Hwt Hvt Hne) in P as (a & Ha & Oa & Pa).
    rewrite (find_first_none _ _ _ F a) in Pa. discriminate.
Qed.

Theorem caseless_compare : compare fold s t = std_compare s t.
Proof.
  destruct Hcs as [Hvs _]. destruct Hct as [Hvt _].
  unfold compare, std_compare. rewrite (key_caseless s Hcs), (key_caseless t Hct).
  apply (lex_runes_bytes (length s)); try assumption; lia.
Qed.

Theorem caseless_contains : contains fold s t = std_contains s t.
Proof. unfold contains, std_contains. rewrite caseless_index. reflexivity. Qed.

Theorem caseless_last_index : last_index fold s t = std_last_index s t.
Proof.
  destruct Hcs as [Hvs _]. destruct Hct as [Hvt _].
  unfold last_index, std_last_index. rewrite (key_caseless s Hcs), (key_caseless t Hct).
  destruct t as [|c t'] eqn:Et.
  { change (runes []) with (@nil Z). pose proof (last_index_empty fold s) as L. unfold last_index in L.
    change (key fold []) with (@nil Z) in L. rewrite (key_caseless s Hcs) in L.
    pose proof (last_index_empty (fun x => x) s) as L2. unfold last_index in L2. change (key (fun x => x) []) with (@nil Z) in L2.
    assert (G : forall (l : list Z) k, find_last [] l k = Some (k + length l)%nat).
    { induction l as [|x l IH]; intros k; cbn [find_last prefixb]; [f_equal; cbn; lia|]. rewrite IH. f_equal. cbn [length]. lia. }
    rewrite !G. cbn [offz Nat.add]. rewrite runes_length, off_all by lia. reflexivity. }
  rewrite <- Et in *. assert (Hne : t <> []) by (rewrite Et; discriminate).
  destruct (find_last (runes t) (runes s) 0) as [k|] eqn:F; cbn [offz].
  - apply find_last_some in F as (d & -> & Hd & Hm & Hn). cbn [Nat.add] in *. rewrite runes_length in Hd.
    rewrite (find_last_greatest t s (off s d)); [reflexivity| | |apply off_le].
    + apply (align s t (off s d) Hws Hvs Hwt Hvt Hne). exists d. repeat split; assumption.
    + intros q Hq Hq2. destruct (prefixb t (skipn q s)) eqn:P; [|reflexivity]. exfalso.
      apply (align s t q Hws Hvs Hwt Hvt Hne) in P as (a & Ha & Oa & Pa).
      rewrite (Hn a) in Pa; [discriminate| |rewrite runes_length; exact Ha]. apply (off_lt_inv s d a Hd Ha). lia.
  - rewrite (find_last_absent t s); [reflexivity|]. intros q.
    destruct (prefixb t (skipn q s)) eqn:P; [|reflexivity]. exfalso.
    apply (align s t q Hws Hvs Hwt Hvt Hne) in P as (a & Ha & Oa & Pa).
    rewrite (find_last_none _ _ _ F a) in Pa. discriminate.
Qed.


(* the byte-level leftmost occurrence is the rune-level one, at its boundary *)
Lemma find_first_align :
  valid_utf8 s = true -> valid_utf8 t = true -> t <> [] ->
  find_first t s 0 = option_map (off s) (find_first (runes t) (runes s) 0).
Proof.
  intros Hvs Hvt Hne.
  destruct (find_first (runes t) (runes s) 0) as [k|] eqn:F; cbn [option_map].
  - apply find_first_some in F as (d & -> & Hd & Hm & Hn). cbn [Nat.add] in *. rewrite runes_length in Hd.
    apply find_first_least; [| |apply off_le].
    + apply (align s t (off s d) Hws Hvs Hwt Hvt Hne). exists d. repeat split; assumption.
    + intros q Hq. destruct (prefixb t (skipn q s)) eqn:P; [|reflexivity]. exfalso.
      apply (align s t q Hws Hvs Hwt Hvt Hne) in P as (a & Ha & Oa & Pa).
      rewrite (Hn a) in Pa; [discriminate|]. apply (off_lt_inv s a d Ha Hd). lia.
  - apply find_first_absent. intros q.
    destruct (prefixb t (skipn q s)) eqn:P; [|reflexivity]. exfalso.
    apply (align s t q Hws Hvs Hwt Hvt Hne) in P as (a & Ha & Oa & Pa).
    rewrite (find_first_none _ _ _ F a) in Pa. discriminate.
Qed.

(* a match of t at boundary k of s ends at the boundary k + |t| *)
Lemma match_end k :
  valid_utf8 s = true -> valid_utf8 t = true -> (k <= rune_count s)%nat ->
  prefixb (runes t) (skipn k (runes s)) = true -> off s (k + rune_count t) = (off s k + length t)%nat.
Proof.
  intros Hvs Hvt Hk P. destruct (list_eq_dec Z.eq_dec t []) as [->|Hne]; [change (rune_count []) with 0%nat; cbn [length]; rewrite !Nat.add_0_r; reflexivity|].
  assert (Pb : prefixb t (skipn (off s k) s) = true).
  { apply (align s t (off s k) Hws Hvs Hwt Hvt Hne). exists k. repeat split; assumption. }
  apply prefixb_spec in Pb as [rest E]. rewrite off_add, E, (off_app_valid_l t rest _ Hvt) by lia.
  rewrite (off_all t (rune_count t)) by lia. reflexivity.
Qed.

Theorem caseless_has_prefix : has_prefix fold s t = std_has_prefix s t.
Proof.
  destruct Hcs as [Hvs _]. destruct Hct as [Hvt _].
  unfold has_prefix, std_has_prefix. rewrite (key_caseless s Hcs), (key_caseless t Hct).
  destruct (list_eq_dec Z.eq_dec t []) as [->|Hne]; [reflexivity|].
  apply bool_eq_iff''. change s with (skipn 0 s) at 2. rewrite (align s t 0 Hws Hvs Hwt Hvt Hne). split.
  - intros P. exists 0%nat. split; [lia|]. split; [apply off_0|exact P].
  - intros (a & Ha & Oa & P). assert (a = 0%nat); [|subst a; exact P].
    destruct a as [|a]; [reflexivity|]. pose proof (off_lt s 0 (S a) ltac:(lia) Ha) as L. rewrite off_0 in L. lia.
Qed.

Theorem caseless_trim_prefix : trim_prefix fold s t = std_trim_prefix s t.
Proof.
  pose proof caseless_has_prefix as HP. destruct Hcs as [Hvs _]. destruct Hct as [Hvt _].
  unfold trim_prefix, std_trim_prefix. rewrite HP. unfold std_has_prefix.
  destruct (prefixb t s) eqn:P; [|reflexivity]. f_equal.
  rewrite (key_length fold). unfold has_prefix, std_has_prefix in HP. rewrite P, (key_caseless s Hcs), (key_caseless t Hct) in HP.
  pose proof (match_end 0 Hvs Hvt ltac:(lia) HP) as E. rewrite off_0 in E. cbn [Nat.add] in E. unfold len. lia.
Qed.

Theorem caseless_cut_prefix : cut_prefix fold s t = (std_trim_prefix s t, std_has_prefix s t).
Proof. unfold cut_prefix. rewrite caseless_trim_prefix, caseless_has_prefix. reflexivity. Qed.

Theorem caseless_cut : cut fold s t = std_cut s t.
Proof.
  destruct Hcs as [Hvs _]. destruct Hct as [Hvt _].
  unfold cut, std_cut. rewrite (key_caseless s Hcs), (key_caseless t Hct).
  destruct (list_eq_dec Z.eq_dec t []) as [->|Hne].
  { change (runes []) with (@nil Z). destruct (runes s), s; reflexivity. }
  rewrite (find_first_align Hvs Hvt Hne).
  destruct (find_first (runes t) (runes s) 0) as [k|] eqn:F; cbn [option_map]; [|reflexivity].
  apply find_first_some in F as (d & -> & Hd & Hm & _). cbn [Nat.add] in *. rewrite runes_length in *.
  rewrite (match_end d Hvs Hvt Hd Hm). unfold len. repeat f_equal; lia.
Qed.


(* ---------- suffixes ---------- *)

Lemma suffix_align :
  valid_utf8 s = true -> valid_utf8 t = true ->
  suffixb (runes t) (runes s) = suffixb t s /\
  (suffixb t s = true -> off s (rune_count s - rune_count t) = (length s - length t)%nat).
Proof.
  intros Hvs Hvt.
  destruct (list_eq_dec Z.eq_dec t []) as [->|Hne].
  { change (runes []) with (@nil Z). rewrite !suffixb_nil. split; [reflexivity|]. intros _.
    change (rune_count []) with 0%nat. cbn [length]. rewrite !Nat.sub_0_r. apply off_all. lia. }
  assert (Fwd : suffixb t s = true ->
                suffixb (runes t) (runes s) = true /\ off s (rune_count s - rune_count t) = (length s - length t)%nat).
  { intros S. apply suffixb_spec in S as [q E].
    assert (Pq : prefixb t (skipn (length q) s) = true).
    { rewrite E, skipn_app, skipn_all, Nat.sub_diag. cbn [app skipn]. apply prefixb_refl. }
    apply (align s t (length q) Hws Hvs Hwt Hvt Hne) in Pq as (a & Ha & Oa & _).
    assert (Eu : skipn (off s a) s = t) by (rewrite Oa, E, skipn_app, skipn_all, Nat.sub_diag; reflexivity).
    assert (Er : skipn a (runes s) = runes t) by (rewrite <- runes_skipn_off, Eu; reflexivity).
    assert (Ea : (a = rune_count s - rune_count t)%nat).
    { apply (f_equal (@length Z)) in Er. rewrite skipn_length, !runes_length in Er. lia. }
    split.
    - apply suffixb_spec. exists (firstn a (runes s)). rewrite <- Er. symmetry. apply firstn_skipn.
    - rewrite <- Ea, Oa, E, app_length. lia. }
  split; [|intros S; apply (proj2 (Fwd S))].
  apply bool_eq_iff''. split; [|intros S; apply (proj1 (Fwd S))].
  intros S. apply suffixb_spec in S as [Q E].
  set (a := length Q).
  assert (Er : skipn a (runes s) = runes t) by (unfold a; rewrite E, skipn_app, skipn_all, Nat.sub_diag; reflexivity).
  set (u := skipn (off s a) s).
  assert (Hwu : wf u) by (apply wf_skipn; exact Hws).
  assert (Hvu : valid_utf8 u = true) by (apply valid_skipn_off; exact Hvs).
  assert (Eu : u = t).
  { rewrite (bytes_of_runes u Hwu Hvu), (bytes_of_runes t Hwt Hvt). f_equal. unfold u. rewrite runes_skipn_off. exact Er. }
  apply suffixb_spec. exists (firstn (off s a) s). rewrite <- Eu. symmetry. apply firstn_skipn.
Qed.

Theorem caseless_has_suffix : has_suffix fold s t = std_has_suffix s t.
Proof.
  destruct Hcs as [Hvs _]. destruct Hct as [Hvt _].
  unfold has_suffix, std_has_suffix. rewrite (key_caseless s Hcs), (key_caseless t Hct).
  apply (proj1 (suffix_align Hvs Hvt)).
Qed.

Theorem caseless_trim_suffix : trim_suffix fold s t = std_trim_suffix s t.
Proof.
  pose proof caseless_has_suffix as HS. destruct Hcs as [Hvs _]. destruct Hct as [Hvt _].
  unfold trim_suffix, std_trim_suffix. rewrite HS. unfold std_has_suffix.
  destruct (suffixb t s) eqn:S; [|reflexivity]. f_equal. unfold suffix_cut. rewrite !(key_length fold).
  rewrite (proj2 (suffix_align Hvs Hvt) S). unfold len.
  apply suffixb_spec in S as [q E]. apply (f_equal (@length Z)) in E. rewrite app_length in E. lia.
Qed.

Theorem caseless_cut_suffix : cut_suffix fold s t = (std_trim_suffix s t, std_has_suffix s t).
Proof. unfold cut_suffix. rewrite caseless_trim_suffix, caseless_has_suffix. reflexivity. Qed.

End C.

(* ---------- Count: the greedy unfolding is the same at both levels ---------- *)

Lemma find_first_align' s t :
  wf s -> wf t -> valid_utf8 s = true -> valid_utf8 t = true -> t <> [] ->
  find_first t s 0 = option_map (off s) (find_first (runes t) (runes s) 0).
Proof.
  intros Hws Hwt Hvs Hvt Hne.
  destruct (find_first (runes t) (runes s) 0) as [k|] eqn:F; cbn [option_map].
  - apply find_first_some in F as (d & -> & Hd & Hm & Hn). cbn [Nat.add] in *. rewrite runes_length in Hd.
    apply find_first_least; [| |apply off_le].
    + apply (align s t (off s d) Hws Hvs Hwt Hvt Hne). exists d. repeat split; assumption.
    + intros q Hq. destruct (prefixb t (skipn q s)) eqn:P; [|reflexivity]. exfalso.
      apply (align s t q Hws Hvs Hwt Hvt Hne) in P as (a & Ha & Oa & Pa).
      rewrite (Hn a) in Pa; [discriminate|]. apply (off_lt_inv s a d Ha Hd). lia.
  - apply find_first_absent. intros q.
    destruct (prefixb t (skipn q s)) eqn:P; [|reflexivity]. exfalso.
    apply (align s t q Hws Hvs Hwt Hvt Hne) in P as (a & Ha & Oa & Pa).
    rewrite (find_first_none _ _ _ F a) in Pa. discriminate.
Qed.

Lemma runes_nonempty t : t <> [] -> runes t <> [].
Proof. intros H. destruct t as [|b l]; [congruence|]. unfold runes. rewrite segs_cons. discriminate. Qed.

Lemma count_align t : wf t -> valid_utf8 t = true -> t <> [] ->
  forall n s, (length s <= n)%nat -> wf s -> valid_utf8 s = true ->
  count_aux (runes t) (runes s) 0 = count_aux t s 0.
Proof.
  intros Hwt Hvt Hne. induction n as [|n IH]; intros s Hn Hws Hvs.
  - destruct s; [|cbn in Hn; lia]. reflexivity.
  - rewrite (count_aux_unfold (runes t) (runes s) (runes_nonempty t Hne)), (count_aux_unfold t s Hne).
    rewrite (find_first_align' s t Hws Hwt Hvs Hvt Hne).
    destruct (find_first (runes t) (runes s) 0) as [k|] eqn:F; cbn [option_map]; [|reflexivity].
    apply find_first_some in F as (d & -> & Hd & Hm & _). cbn [Nat.add] in *. rewrite runes_length in *.
    assert (Pb : prefixb t (skipn (off s d) s) = true).
    { apply (align s t (off s d) Hws Hvs Hwt Hvt Hne). exists d. repeat split; assumption. }
    apply prefixb_spec in Pb as [rest E].
    assert (Eo : off s (d + rune_count t) = (off s d + length t)%nat).
    { rewrite off_add, E, (off_app_valid_l t rest _ Hvt) by lia. rewrite (off_all t (rune_count t)) by lia. reflexivity. }
    f_equal. rewrite <- Eo, <- runes_skipn_off.
    apply IH; [|apply wf_skipn; exact Hws|apply valid_skipn_off; exact Hvs].
    rewrite skipn_length, Eo. destruct t; [congruence|]. cbn [length] in *. lia.
Qed.

Section C2.
Variable fold : Z -> Z.
Variables s t : bytes.
Hypothesis Hws : wf s.
Hypothesis Hwt : wf t.
Hypothesis Hcs : caseless fold s.
Hypothesis Hct : caseless fold t.

Theorem caseless_count : count fold s t = std_count s t.
Proof.
  destruct Hcs as [Hvs _]. destruct Hct as [Hvt _].
  unfold count, std_count. destruct t as [|c t'] eqn:Et; [reflexivity|]. rewrite <- Et in *.
  rewrite (key_caseless fold s Hcs), (key_caseless fold t Hct). f_equal.
  apply (count_align t Hwt Hvt ltac:(rewrite Et; discriminate) (length s) s); [lia|exact Hws|exact Hvs].
Qed.

End C2.

(* ---------- the character searches ---------- *)

Section C3.
Variable fold : Z -> Z.
Variables s chars : bytes.
Hypothesis Hws : wf s.
Hypothesis Hcs : caseless fold s.

(* IndexRune(s, r) for a code point that folding leaves alone: the byte-level search for its encoding *)
Theorem caseless_index_rune r :
  valid_rune r = true -> fold r = r -> index_rune fold s r = std_index s (encode r).
Proof.
  intros V Fr.
  assert (Hke : key fold (encode r) = [fold r]).
  { pose proof (decode_encode r [] V) as D. rewrite app_nil_r in D. unfold Spec.key.
    assert (Hne : encode r <> []) by (unfold encode; repeat match goal with |- context [if ?c then _ else _] => destruct c end; discriminate).
    rewrite (segs_full (encode r) Hne) by (rewrite D; reflexivity). rewrite D. reflexivity. }
  assert (Hre : runes (encode r) = [r]).
  { pose proof (decode_encode r [] V) as D. rewrite app_nil_r in D. unfold runes.
    assert (Hne : encode r <> []) by (unfold encode; repeat match goal with |- context [if ?c then _ else _] => destruct c end; discriminate).
    rewrite (segs_full (encode r) Hne) by (rewrite D; reflexivity). rewrite D. reflexivity. }
  assert (Hce : caseless fold (encode r)).
  { split.
    - unfold valid_utf8. pose proof (decode_encode r [] V) as D. rewrite app_nil_r in D.
      assert (Hne : encode r <> []) by (unfold encode; repeat match goal with |- context [if ?c then _ else _] => destruct c end; discriminate).
      rewrite (segs_full (encode r) Hne) by (rewrite D; reflexivity). rewrite D. cbn [forallb]. rewrite andb_true_r.
      unfold valid_seg. cbn [fst snd]. destruct (r =? RuneError) eqn:E; [|reflexivity].
      assert (r = RuneError) by lia. subst r. reflexivity.
    - intros x Hx. rewrite Hre in Hx. destruct Hx as [<-|[]]. exact Fr. }
  assert (Hwe : wf (encode r)).
  { unfold wf, encode, valid_rune, MaxRune in *. repeat match goal with |- context [if ?c then _ else _] => destruct c eqn:? end;
      repeat constructor; lia. }
  rewrite <- (caseless_index fold s (encode r) Hws Hwe Hcs Hce).
  unfold index_rune, index. rewrite V, Hke. symmetry.
  assert (G : forall l k0, find_first [fold r] l k0 = index_where (fun y => y =? fold r) l k0).
  { induction l as [|y l IH]; intros k0; [reflexivity|]. cbn [find_first index_where prefixb].
    rewrite andb_true_r, (Z.eqb_sym (fold r) y). destruct (y =? fold r); [reflexivity|apply IH]. }
  rewrite G. reflexivity.
Qed.

(* IndexAny / LastIndexAny: folding plays no role *)
Hypothesis Hcc : caseless fold chars.

Lemma key_id l : key (fun x => x) l = runes l.
Proof. rewrite key_runes_map. apply map_id. Qed.

Theorem caseless_index_any : index_any fold s chars = index_any (fun x => x) s chars.
Proof.
  unfold index_any. pose proof (key_caseless fold s Hcs) as E1. pose proof (key_caseless fold chars Hcc) as E2.
  pose proof (key_id s) as E3. pose proof (key_id chars) as E4. rewrite E1, E2, E3, E4. reflexivity.
Qed.

Theorem caseless_last_index_any : last_index_any fold s chars = last_index_any (fun x => x) s chars.
Proof.
  unfold last_index_any. pose proof (key_caseless fold s Hcs) as E1. pose proof (key_caseless fold chars Hcc) as E2.
  pose proof (key_id s) as E3. pose proof (key_id chars) as E4. rewrite E1, E2, E3, E4. reflexivity.
Qed.

End C3.
