(* FoldTables.v — the table records for the two shipped table files, built
   from the regenerated data in coq/gen (re-translated from /repo on every
   run), and the [_lower] tables of both packages. *)
From Strcase Require Import Base Fold.
From StrcaseGen Require Tables121 Tables116 Consts.

Definition T121 : tables := {|
  cf_seed := Tables121.CaseFolds_seed; cf_shift := Tables121.CaseFolds_shift;
  cf_size := Tables121.CaseFolds_size; cf_map := build Tables121.CaseFolds_entries;
  ul_seed := Tables121.UpperLower_seed; ul_shift := Tables121.UpperLower_shift;
  ul_size := Tables121.UpperLower_size; ul_map := build Tables121.UpperLower_entries;
  fm_seed := Tables121.FoldMap_seed; fm_shift := Tables121.FoldMap_shift;
  fm_size := Tables121.FoldMap_size; fm_map := build Tables121.FoldMap_entries;
  fx_size := Tables121.FoldMapExcludingUpperLower_size;
  fx_map := build Tables121.FoldMapExcludingUpperLower_entries;
  ul_special := Tables121.upper_lower_special
|}.

Definition T116 : tables := {|
  cf_seed := Tables116.CaseFolds_seed; cf_shift := Tables116.CaseFolds_shift;
  cf_size := Tables116.CaseFolds_size; cf_map := build Tables116.CaseFolds_entries;
  ul_seed := Tables116.UpperLower_seed; ul_shift := Tables116.UpperLower_shift;
  ul_size := Tables116.UpperLower_size; ul_map := build Tables116.UpperLower_entries;
  fm_seed := Tables116.FoldMap_seed; fm_shift := Tables116.FoldMap_shift;
  fm_size := Tables116.FoldMap_size; fm_map := build Tables116.FoldMap_entries;
  fx_size := Tables116.FoldMapExcludingUpperLower_size;
  fx_map := build Tables116.FoldMapExcludingUpperLower_entries;
  ul_special := Tables116.upper_lower_special
|}.

Definition lower_str : Z -> Z := lower_of Consts.str_lower.
Definition lower_byt : Z -> Z := lower_of Consts.byt_lower.
