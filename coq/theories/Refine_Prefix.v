(* Refine_Prefix.v — Impl.hasPrefixUnicode / HasPrefix / TrimPrefix / CutPrefix
   refine Spec for both package shapes, on all well-formed byte lists
   (valid UTF-8 or not).  Includes the soundness of the length-ratio
   pre-check (the "x2 unless Kelvin or U+FFFD, never more than x3" shortcut,
   defect D6) and of the [exhausted] flag the Index strategies rely on. *)
From Strcase Require Import Base Utf8 Utf8Facts Spec SpecFacts SpecIndex Impl Refine_Compare.
From Coq Require Import ZifyBool ZifyNat.

(* what the pre-check needs to know about the fold function; proved for the
   regenerated tables in FoldFacts121.v (width_ratio, rune_error_alone) *)
Record width_facts (fold : Z -> Z) : Prop := {
  wfa_ratio : forall a b, 0 <= a <= MaxRune -> 0 <= b <= MaxRune ->
     1 <= rune_len a -> 1 <= rune_len b -> fold a = fold b ->
     rune_len a <= 3 * rune_len b /\ (2 * rune_len b < rune_len a -> a = 8490);
  wfa_error : forall x, 0 <= x <= MaxRune -> fold x = fold RuneError -> x = RuneError
}.

(* ------------------------------------------------------------------ *)
(* decoding: a segment is either an ill-formed byte or a scalar value whose
   width is its RuneLen *)

Ltac split_ifs :=
  repeat match goal with
  | |- context [if ?c then _ else _] => destruct c eqn:?
  end.

Lemma decode_class b s :
  wf (b :: s) ->
  decode (b :: s) = (RuneError, 1%nat) \/
  (Z.of_nat (snd (decode (b :: s))) = rune_len (fst (decode (b :: s))) /\
   0 <= fst (decode (b :: s)) <= MaxRune).
Proof.
  intros H. unfold decode, MaxRune, RuneError, is_cont in *.
  inversion H as [|? ? H0 H']; subst.
  destruct (b <? 128) eqn:?.
  { right. cbn [fst snd]. unfold rune_len. split_ifs; lia. }
  destruct ((194 <=? b) && (b <=? 223)) eqn:?.
  { destruct s as [|b1 s]; [left; reflexivity|]. inversion H'; subst.
    destruct ((128 <=? b1) && (b1 <=? 191)) eqn:?; [|left; reflexivity].
    right. cbn [fst snd]. unfold rune_len, MaxRune. split_ifs; lia. }
  destruct ((224 <=? b) && (b <=? 239)) eqn:?.
  { destruct s as [|b1 [|b2 s]]; try (left; reflexivity).
    inversion H' as [|? ? ? H'']; subst. inversion H''; subst.
    match goal with |- context [if ?c then _ else _] => destruct c eqn:? end; [|left; reflexivity].
    right. cbn [fst snd].
    assert (2048 <= (b - 224) * 4096 + (b1 - 128) * 64 + (b2 - 128) < 65536 /\
            ~ (55296 <= (b - 224) * 4096 + (b1 - 128) * 64 + (b2 - 128) <= 57343)).
    { destruct (b =? 224) eqn:?; destruct (b =? 237) eqn:?; lia. }
    unfold rune_len, MaxRune. split_ifs; lia. }
  destruct ((240 <=? b) && (b <=? 244)) eqn:?; [|left; reflexivity].
  destruct s as [|b1 [|b2 [|b3 s]]]; try (left; reflexivity).
  inversion H' as [|? ? ? H'']; subst. inversion H'' as [|? ? ? H3]; subst. inversion H3; subst.
  match goal with |- context [if ?c then _ else _] => destruct c eqn:? end; [|left; reflexivity].
  right. cbn [fst snd].
  assert (65536 <= (b - 240) * 262144 + (b1 - 128) * 4096 + (b2 - 128) * 64 + (b3 - 128) <= 1114111).
  { destruct (b =? 240) eqn:?; destruct (b =? 244) eqn:?; lia. }
  unfold rune_len, MaxRune. split_ifs; lia.
Qed.

(* the three bytes of a width-3 segment decoding to U+212A or U+FFFD *)
Lemma decode_wide b s r :
  wf (b :: s) -> decode (b :: s) = (r, 3%nat) -> (r = 8490 \/ r = RuneError) ->
  exists s', b :: s = (if r =? 8490 then kelvin else fffd) ++ s'.
Proof.
  intros H D Hr. unfold decode, RuneError, is_cont in *.
  inversion H as [|? ? H0 H']; subst.
  destruct (b <? 128) eqn:?; [inversion D|].
  destruct ((194 <=? b) && (b <=? 223)) eqn:?.
  { destruct s as [|b1 s]; [inversion D|]. destruct ((128 <=? b1) && (b1 <=? 191)); inversion D. }
  destruct ((224 <=? b) && (b <=? 239)) eqn:?.
  { destruct s as [|b1 [|b2 s]]; try (inversion D; fail).
    inversion H' as [|? ? ? H'']; subst. inversion H''; subst.
    match type of D with (if ?c then _ else _) = _ => destruct c eqn:? end; [|inversion D].
    inversion D as [E]. exists s.
    destruct (b =? 224) eqn:?; destruct (b =? 237) eqn:?;
    destruct Hr as [->| ->].
    all: try (assert (b = 226 /\ b1 = 132 /\ b2 = 170) as (-> & -> & ->) by lia; reflexivity).
    all: try (assert (b = 239 /\ b1 = 191 /\ b2 = 189) as (-> & -> & ->) by lia; reflexivity).
    all: lia. }
  destruct ((240 <=? b) && (b <=? 244)) eqn:?; [|inversion D].
  destruct s as [|b1 [|b2 [|b3 s]]]; try (inversion D; fail).
  match type of D with (if ?c then _ else _) = _ => destruct c eqn:? end; inversion D.
Qed.

Section Refine.
Variables fold lower : Z -> Z.
Hypothesis FF : fold_facts fold lower.
Hypothesis WF : width_facts fold.

Notation key := (key fold).
Notation has_prefix := (has_prefix fold).
Notation match_at := (match_at fold).

Lemma rune_len_error : rune_len RuneError = 3.
Proof. reflexivity. Qed.

(* widths of two fold-equal segments *)
Lemma seg_width_ratio b s c t :
  wf (b :: s) -> wf (c :: t) ->
  fold (fst (decode (b :: s))) = fold (fst (decode (c :: t))) ->
  let wa := snd (decode (b :: s)) in let wb := snd (decode (c :: t)) in
  (wa <= 3 * wb)%nat /\
  ((2 * wb < wa)%nat -> wa = 3%nat /\ (fst (decode (b :: s)) = 8490 \/ fst (decode (b :: s)) = RuneError)).
Proof.
  intros Hs Ht E. cbv zeta.
  pose proof (decode_width_pos b s) as Wa. pose proof (decode_width_pos c t) as Wb.
  destruct (decode_class b s Hs) as [Da|(La & Ra)].
  { rewrite Da. cbn [fst snd]. lia. }
  destruct (decode_class c t Ht) as [Db|(Lb & Rb)].
  { rewrite Db in *. cbn [fst snd] in *.
    apply (wfa_error _ WF) in E; [|exact Ra]. rewrite E in La. rewrite rune_len_error in La.
    split; [lia|]. intros _. split; [lia|right; exact E]. }
  destruct (wfa_ratio _ WF _ _ Ra Rb ltac:(lia) ltac:(lia) E) as [R3 R2].
  split; [lia|]. intros Hlt. assert (Ek : fst (decode (b :: s)) = 8490) by (apply R2; lia).
  split; [|left; exact Ek]. rewrite Ek in La. change (rune_len 8490) with 3 in La. lia.
Qed.

(* ---------------- containsKelvin ---------------- *)

Definition wide_seg (d : Z * nat) : bool :=
  (snd d =? 3)%nat && ((fst d =? 8490) || (fst d =? RuneError)).
Definition has_wide (p : bytes) : bool := existsb wide_seg (segs p).

Lemma raw_index_m1_shift pats s i j :
  0 <= i -> 0 <= j -> raw_index_pats pats s i = -1 -> raw_index_pats pats s j = -1.
Proof.
  revert i j. induction s as [|b s IH]; intros i j Hi Hj; cbn [raw_index_pats]; [reflexivity|].
  destruct (existsb _ pats); [lia|]. apply IH; lia.
Qed.

Lemma raw_index_ge pats s i : 0 <= i -> raw_index_pats pats s i = -1 \/ i <= raw_index_pats pats s i.
Proof.
  revert i. induction s as [|b s IH]; intros i Hi; cbn [raw_index_pats]; [left; reflexivity|].
  destruct (existsb _ pats); [right; lia|]. destruct (IH (i + 1) ltac:(lia)); [left; assumption|right; lia].
Qed.

Lemma raw_contains_cons pat b s : raw_contains pat s = true -> raw_contains pat (b :: s) = true.
Proof.
  unfold raw_contains. cbn [raw_index_pats]. intros H. destruct (existsb _ [pat]); [reflexivity|].
  destruct (raw_index_ge [pat] s (0 + 1) ltac:(lia)) as [E|E]; [|lia].
  apply (raw_index_m1_shift _ _ _ 0) in E; lia.
Qed.

Lemma raw_contains_skipn pat n s : raw_contains pat (skipn n s) = true -> raw_contains pat s = true.
Proof.
  revert s. induction n as [|n IH]; intros s H; [exact H|].
  destruct s as [|b s]; [exact H|]. apply raw_contains_cons. apply IH. exact H.
Qed.

Lemma starts_with_app p s : starts_with p (p ++ s) = true.
Proof. induction p as [|x p IH]; [reflexivity|]. cbn. rewrite Z.eqb_refl. exact IH. Qed.

Lemma raw_contains_here pat b s :
  starts_with pat (b :: s) = true -> raw_contains pat (b :: s) = true.
Proof. unfold raw_contains. cbn [raw_index_pats existsb]. intros ->. reflexivity. Qed.

Lemma has_wide_contains_kelvin p : wf p -> has_wide p = true -> contains_kelvin p = true.
Proof.
  induction p as [|b r IH] using segs_ind; intros Hw H; [discriminate|].
  unfold has_wide in H. rewrite segs_cons in H. cbn [existsb] in H.
  unfold contains_kelvin. rewrite len_cons. pose proof (len_nonneg r).
  replace (len r + 1 =? 0) with false by lia. cbn [negb andb].
  apply orb_true_iff in H as [H|H].
  - unfold wide_seg in H. destruct (decode (b :: r)) as [x w] eqn:D. cbn [fst snd] in H.
    assert (w = 3%nat) by lia. subst w.
    assert (Hx : x = 8490 \/ x = RuneError) by lia.
    destruct (decode_wide b r x Hw D Hx) as (s' & E).
    destruct (x =? 8490) eqn:K; rewrite E.
    + assert (X : raw_contains kelvin (kelvin ++ s') = true).
      { apply (raw_contains_here kelvin 226). apply (starts_with_app kelvin). }
      rewrite X. reflexivity.
    + assert (X : raw_contains fffd (fffd ++ s') = true).
      { apply (raw_contains_here fffd 239). apply (starts_with_app fffd). }
      rewrite X. apply orb_true_r.
  - assert (C : contains_kelvin (skipn (snd (decode (b :: r))) (b :: r)) = true).
    { apply IH; [apply wf_skipn; exact Hw|exact H]. }
    unfold contains_kelvin in C. apply andb_true_iff in C as [_ C].
    apply orb_true_iff in C as [C|C]; apply raw_contains_skipn in C; rewrite C.
    + reflexivity.
    + apply orb_true_r.
Qed.

(* ---------------- the length-ratio pre-check ---------------- *)

Lemma len_skipn_decode b s :
  len (b :: s) = Z.of_nat (snd (decode (b :: s))) + len (skipn (snd (decode (b :: s))) (b :: s)).
Proof. unfold len. rewrite skipn_length. pose proof (decode_width_le (b :: s)). lia. Qed.

Lemma prefix_len_bound p s :
  wf p -> wf s -> prefixb (key p) (key s) = true ->
  len p <= 3 * len s /\ (has_wide p = false -> len p <= 2 * len s).
Proof.
  revert s. induction p as [|b r IH] using segs_ind; intros s Hp Hs H.
  { pose proof (len_nonneg s). change (len []) with 0. lia. }
  destruct s as [|c t].
  { rewrite key_nil in H. pose proof (key_nonempty fold b r). destruct (key (b :: r)); [congruence|discriminate]. }
  rewrite (key_cons fold b r), (key_cons fold c t) in H. cbn [prefixb] in H.
  apply andb_true_iff in H as [E H]. apply Z.eqb_eq in E.
  destruct (seg_width_ratio b r c t Hp Hs E) as [R3 R2].
  destruct (IH _ (wf_skipn _ _ Hp) (wf_skipn _ _ Hs) H) as [I3 I2].
  rewrite (len_skipn_decode b r), (len_skipn_decode c t). split; [lia|].
  intros NW. unfold has_wide in NW. rewrite segs_cons in NW. cbn [existsb] in NW.
  apply orb_false_iff in NW as [NW1 NW2]. specialize (I2 NW2).
  assert (~ (2 * snd (decode (c :: t)) < snd (decode (b :: r)))%nat).
  { intros Hlt. destruct (R2 Hlt) as [W3 Hx]. unfold wide_seg in NW1. lia. }
  lia.
Qed.

Lemma precheck_sound s prefix :
  wf s -> wf prefix ->
  (len s * 3 <? len prefix) || ((len s * 2 <? len prefix) && negb (contains_kelvin prefix)) = true ->
  forall k, match_at s prefix k = false.
Proof.
  intros Hs Hp C k. unfold SpecIndex.match_at.
  destruct (prefixb (key prefix) (skipn k (key s))) eqn:M; [|reflexivity]. exfalso.
  assert (E : skipn k (key s) = key (skipn (off s k) s)).
  { unfold Spec.key. rewrite segs_skipn_off. apply skipn_map. }
  rewrite E in M. destruct (prefix_len_bound _ _ Hp (wf_skipn (off s k) _ Hs) M) as [B3 B2].
  assert (L : len (skipn (off s k) s) <= len s) by (unfold len; rewrite skipn_length; lia).
  apply orb_true_iff in C as [C|C]; [lia|]. apply andb_true_iff in C as [C1 C2].
  destruct (has_wide prefix) eqn:W.
  - rewrite (has_wide_contains_kelvin _ Hp W) in C2. discriminate.
  - specialize (B2 eq_refl). lia.
Qed.

Lemma match_at_0 s p : match_at s p 0 = has_prefix s p.
Proof. reflexivity. Qed.

(* ---------------- next_raw ---------------- *)

Lemma next_raw_key b s :
  wf (b :: s) ->
  exists k rest, next_raw lower (b :: s) = (k, rest) /\
    key (b :: s) = fold k :: key rest /\
    (length rest < length (b :: s))%nat /\
    rest = skipn (snd (decode (b :: s))) (b :: s).
Proof.
  intros Hwf. assert (Hb : 0 <= b < 256) by (inversion Hwf; assumption).
  unfold next_raw. destruct (b <? 128) eqn:E.
  - exists (lower b), s. rewrite key_ascii by lia. rewrite (ff_lower _ _ FF) by lia.
    rewrite (ff_idem _ _ FF) by (unfold MaxRune; lia). rewrite decode_ascii by lia. cbn [snd skipn length].
    repeat split; lia.
  - eexists _, _. split; [reflexivity|]. rewrite key_cons. repeat split. apply skipn_decode_length.
Qed.

Lemma rune_count_cons b s :
  rune_count (b :: s) = S (rune_count (skipn (snd (decode (b :: s))) (b :: s))).
Proof. unfold rune_count. rewrite segs_cons. reflexivity. Qed.

Lemma prefixb_cons_nil x p : prefixb (x :: p) [] = false.
Proof. reflexivity. Qed.

Lemma eqb_or_fold a b : ((a =? b) || (fold a =? fold b)) = (fold a =? fold b).
Proof.
  destruct (a =? b) eqn:E; [|reflexivity]. apply Z.eqb_eq in E. subst. symmetry. apply Z.eqb_refl.
Qed.

(* result shape shared by the loops of hasPrefixUnicode *)
Definition hp_post (s prefix : bytes) (r : res (bool * bool)) : Prop :=
  exists ex, r = Ok (prefixb (key prefix) (key s), ex) /\
    (ex = true -> prefixb (key prefix) (key s) = false -> (rune_count s <= rune_count prefix)%nat).

Lemma hp_runes_str_ok fuel s prefix :
  wf s -> wf prefix -> (length prefix < fuel)%nat ->
  hp_post s prefix (hp_runes_str fold lower fuel s prefix).
Proof.
  revert s prefix. induction fuel as [|f IH]; intros s prefix Hs Hp Hf; [lia|].
  unfold hp_post. cbn [hp_runes_str]. destruct prefix as [|c t].
  { exists (is_nil s). split; [reflexivity|]. rewrite key_nil. cbn. discriminate. }
  destruct s as [|b s].
  { exists true. rewrite key_nil. pose proof (key_nonempty fold c t).
    destruct (key (c :: t)) eqn:K; [congruence|]. split; [reflexivity|]. intros _ _. cbn. lia. }
  destruct (next_raw_key b s Hs) as (k & rest & E & K & L & R). rewrite E.
  rewrite K, (key_cons fold c t). cbn [prefixb].
  rewrite eqb_or_fold. destruct (fold (fst (decode (c :: t))) =? fold k) eqn:Q; cbn [andb].
  - destruct (IH rest (skipn (snd (decode (c :: t))) (c :: t))) as (ex & E2 & P2).
    + subst rest. apply wf_skipn. exact Hs.
    + apply wf_skipn. exact Hp.
    + pose proof (skipn_decode_length c t). cbn [length] in *. lia.
    + exists ex. split; [exact E2|]. intros He Hm. specialize (P2 He Hm).
      rewrite (rune_count_cons b s), (rune_count_cons c t). subst rest. lia.
  - exists (is_nil rest). split; [reflexivity|]. intros He _.
    rewrite (rune_count_cons b s), (rune_count_cons c t). subst rest.
    destruct (skipn (snd (decode (b :: s))) (b :: s)); [cbn; lia|discriminate].
Qed.

Lemma hp_runes_byt_ok fuel s prefix :
  wf s -> wf prefix -> (length prefix < fuel)%nat ->
  hp_post s prefix (hp_runes_byt fold lower fuel s prefix).
Proof.
  revert s prefix. induction fuel as [|f IH]; intros s prefix Hs Hp Hf; [lia|].
  unfold hp_post. cbn [hp_runes_byt]. destruct prefix as [|c t].
  { exists (is_nil s). split; [reflexivity|]. rewrite key_nil. cbn. discriminate. }
  destruct s as [|b s].
  { exists true. rewrite key_nil. pose proof (key_nonempty fold c t).
    destruct (key (c :: t)) eqn:K; [congruence|]. split; [reflexivity|]. intros _ _. cbn. lia. }
  destruct (next_raw_key c t Hp) as (k2 & rest2 & E2 & K2 & L2 & R2). rewrite E2.
  destruct (next_raw_key b s Hs) as (k & rest & E & K & L & R). rewrite E.
  rewrite K, K2. cbn [prefixb].
  rewrite eqb_or_fold. destruct (fold k2 =? fold k) eqn:Q; cbn [andb].
  - destruct (IH rest rest2) as (ex & E3 & P3).
    + subst rest. apply wf_skipn. exact Hs.
    + subst rest2. apply wf_skipn. exact Hp.
    + cbn [length] in *. lia.
    + exists ex. split; [exact E3|]. intros He Hm. specialize (P3 He Hm).
      rewrite (rune_count_cons b s), (rune_count_cons c t). subst rest rest2. lia.
  - exists (is_nil rest). split; [reflexivity|]. intros He _.
    rewrite (rune_count_cons b s), (rune_count_cons c t). subst rest.
    destruct (skipn (snd (decode (b :: s))) (b :: s)); [cbn; lia|discriminate].
Qed.

Lemma hp_runes_ok p fuel s prefix :
  wf s -> wf prefix -> (length prefix < fuel)%nat ->
  hp_post s prefix (hp_runes fold lower p fuel s prefix).
Proof. destruct p; [apply hp_runes_str_ok|apply hp_runes_byt_ok]. Qed.

Lemma rune_count_ascii_cons b s : b < 128 -> rune_count (b :: s) = S (rune_count s).
Proof. intros H. unfold rune_count. rewrite segs_ascii by assumption. reflexivity. Qed.

Lemma hp_ascii_ok p s prefix :
  wf s -> wf prefix -> hp_post s prefix (hp_ascii fold lower p s prefix).
Proof.
  revert prefix. induction s as [|b s IH]; intros prefix Hs Hp; unfold hp_post.
  - cbn [hp_ascii]. destruct prefix as [|c t].
    + exists true. split; [reflexivity|]. cbn. discriminate.
    + exists true. rewrite key_nil. pose proof (key_nonempty fold c t).
      destruct (key (c :: t)) eqn:K; [congruence|]. split; [reflexivity|]. intros _ _. cbn. lia.
  - destruct prefix as [|c t].
    + cbn [hp_ascii]. exists false. split; [reflexivity|]. discriminate.
    + cbn [hp_ascii].
      apply wf_cons_inv in Hs as Hs'. destruct Hs' as [Hb Hs'].
      apply wf_cons_inv in Hp as Hp'. destruct Hp' as [Hc Hp'].
      unfold non_ascii2. destruct ((128 <=? b) || (128 <=? c)) eqn:E.
      * apply hp_runes_ok; try assumption. lia.
      * rewrite !key_ascii by lia. cbn [prefixb].
        rewrite !(ff_lower _ _ FF) by lia. rewrite (Z.eqb_sym (fold b) (fold c)).
        rewrite eqb_or_fold. destruct (fold c =? fold b) eqn:Q; cbn [andb].
        -- destruct (IH t Hs' Hp') as (ex & E2 & P2). exists ex. split; [exact E2|].
           intros He Hm. specialize (P2 He Hm). rewrite !rune_count_ascii_cons by lia. lia.
        -- exists (is_nil s). split; [reflexivity|]. intros He _.
           rewrite !rune_count_ascii_cons by lia. destruct s; [cbn; lia|discriminate].
Qed.

(* hasPrefixUnicode: the match flag is Spec.has_prefix; when the exhausted
   flag is set without a match, no boundary-suffix of s starts with prefix *)
Theorem hasPrefixUnicode_ok p s prefix :
  wf s -> wf prefix ->
  exists ex, hasPrefixUnicode fold lower p s prefix = Ok (has_prefix s prefix, ex) /\
    (ex = true -> has_prefix s prefix = false -> forall k, match_at s prefix k = false).
Proof.
  intros Hs Hp. unfold hasPrefixUnicode.
  destruct ((len s * 3 <? len prefix) || ((len s * 2 <? len prefix) && negb (contains_kelvin prefix))) eqn:C.
  - pose proof (precheck_sound s prefix Hs Hp C) as N. exists true.
    rewrite <- match_at_0, (N 0%nat). split; [reflexivity|]. intros _ _. exact N.
  - destruct (hp_ascii_ok p s prefix Hs Hp) as (ex & E & P). exists ex. split; [exact E|].
    intros He Hm k. specialize (P He Hm). destruct k as [|k]; [exact Hm|].
    unfold SpecIndex.match_at. destruct (prefixb (key prefix) (skipn (S k) (key s))) eqn:M; [|reflexivity].
    apply prefixb_length in M. rewrite skipn_length, !(key_length fold) in M.
    destruct (rune_count s) eqn:RC.
    + assert (Kn : key s = []) by (apply length_zero_iff_nil; rewrite (key_length fold); exact RC).
      unfold Spec.has_prefix in Hm. rewrite Kn in *. cbn [skipn] in *.
      destruct (key prefix) eqn:Kp; [discriminate|]. apply (f_equal (@length Z)) in Kp.
      rewrite (key_length fold) in Kp. cbn [length] in Kp. lia.
    + lia.
Qed.

Theorem hasprefix_refines p s prefix :
  wf s -> wf prefix -> HasPrefix fold lower p s prefix = Ok (has_prefix s prefix).
Proof.
  intros Hs Hp. unfold HasPrefix. destruct (hasPrefixUnicode_ok p s prefix Hs Hp) as (ex & E & _).
  rewrite E. reflexivity.
Qed.

(* ---------------- TrimPrefix ---------------- *)

Definition tp_spec (slen lo : Z) (s prefix : bytes) : Z * Z :=
  if prefixb (key prefix) (key s) then (lo + Z.of_nat (off s (length (key prefix))), slen) else (0, slen).

Lemma len_sub_rest b s :
  len (b :: s) - len (skipn (snd (decode (b :: s))) (b :: s)) = Z.of_nat (snd (decode (b :: s))).
Proof. rewrite (len_skipn_decode b s). lia. Qed.

Lemma eqb_or_fold_r a k : fold k = k -> ((a =? k) || (fold a =? k)) = (fold a =? k).
Proof.
  intros I. destruct (a =? k) eqn:E; [|reflexivity]. apply Z.eqb_eq in E. subst. rewrite I. symmetry. apply Z.eqb_refl.
Qed.

Lemma tp_runes_str_ok fuel slen lo s prefix :
  wf s -> wf prefix -> (length prefix < fuel)%nat ->
  tp_runes_str fold lower fuel slen lo s prefix = Ok (tp_spec slen lo s prefix).
Proof.
  revert lo s prefix. induction fuel as [|f IH]; intros lo s prefix Hs Hp Hf; [lia|].
  cbn [tp_runes_str]. unfold tp_spec. destruct prefix as [|c t].
  { rewrite key_nil. cbn [prefixb length]. rewrite off_0. f_equal. f_equal. lia. }
  destruct s as [|b s].
  { rewrite key_nil. pose proof (key_nonempty fold c t). destruct (key (c :: t)); [congruence|reflexivity]. }
  destruct (next_folded_key fold lower FF b s Hs) as (k & rest & E & K & I & L & R). rewrite E.
  rewrite K, (key_cons fold c t). cbn [prefixb length].
  rewrite (eqb_or_fold_r _ _ I). destruct (fold (fst (decode (c :: t))) =? k) eqn:Q; cbn [andb]; [|reflexivity].
  rewrite IH.
  - unfold tp_spec. subst rest. destruct (prefixb _ _); [|reflexivity].
    rewrite off_cons, len_sub_rest. f_equal. f_equal. lia.
  - subst rest. apply wf_skipn. exact Hs.
  - apply wf_skipn. exact Hp.
  - pose proof (skipn_decode_length c t). cbn [length] in *. lia.
Qed.

Lemma tp_runes_byt_ok fuel slen lo s prefix :
  wf s -> wf prefix -> (length prefix < fuel)%nat ->
  tp_runes_byt fold lower fuel slen lo s prefix = Ok (tp_spec slen lo s prefix).
Proof.
  revert lo s prefix. induction fuel as [|f IH]; intros lo s prefix Hs Hp Hf; [lia|].
  cbn [tp_runes_byt]. unfold tp_spec. destruct prefix as [|c t].
  { rewrite key_nil. cbn [prefixb length]. rewrite off_0. f_equal. f_equal. lia. }
  destruct s as [|b s].
  { rewrite key_nil. pose proof (key_nonempty fold c t). destruct (key (c :: t)); [congruence|reflexivity]. }
  destruct (next_folded_key fold lower FF c t Hp) as (k2 & rest2 & E2 & K2 & I2 & L2 & R2). rewrite E2.
  destruct (next_folded_key fold lower FF b s Hs) as (k & rest & E & K & I & L & R). rewrite E.
  rewrite K, K2. cbn [prefixb length].
  rewrite I2, orb_diag. destruct (k2 =? k) eqn:Q; cbn [andb]; [|reflexivity].
  rewrite IH.
  - unfold tp_spec. subst rest. destruct (prefixb _ _); [|reflexivity].
    rewrite off_cons, len_sub_rest. f_equal. f_equal. lia.
  - subst rest. apply wf_skipn. exact Hs.
  - subst rest2. apply wf_skipn. exact Hp.
  - cbn [length] in *. lia.
Qed.

Lemma tp_runes_ok p fuel slen lo s prefix :
  wf s -> wf prefix -> (length prefix < fuel)%nat ->
  tp_runes fold lower p fuel slen lo s prefix = Ok (tp_spec slen lo s prefix).
Proof. destruct p; [apply tp_runes_str_ok|apply tp_runes_byt_ok]. Qed.

Lemma off_ascii_cons b s k : b < 128 -> off (b :: s) (S k) = S (off s k).
Proof. intros H. rewrite off_cons, decode_ascii by assumption. reflexivity. Qed.

Lemma tp_ascii_ok p slen i s prefix :
  wf s -> wf prefix ->
  tp_ascii fold lower p slen i s prefix = Ok (tp_spec slen i s prefix).
Proof.
  revert i prefix. induction s as [|b s IH]; intros i prefix Hs Hp.
  - cbn [tp_ascii]. unfold tp_spec. destruct prefix as [|c t].
    + cbn. f_equal. f_equal. lia.
    + rewrite key_nil. pose proof (key_nonempty fold c t). destruct (key (c :: t)); [congruence|reflexivity].
  - destruct prefix as [|c t].
    + cbn [tp_ascii is_nil]. unfold tp_spec. rewrite key_nil. cbn [prefixb length]. rewrite off_0. f_equal. f_equal. lia.
    + cbn [tp_ascii].
      apply wf_cons_inv in Hs as Hs'. destruct Hs' as [Hb Hs'].
      apply wf_cons_inv in Hp as Hp'. destruct Hp' as [Hc Hp'].
      unfold non_ascii2. destruct ((128 <=? b) || (128 <=? c)) eqn:E.
      * apply tp_runes_ok; try assumption. lia.
      * unfold tp_spec. rewrite !key_ascii by lia. cbn [prefixb length].
        rewrite !(ff_lower _ _ FF) by lia. rewrite (Z.eqb_sym (fold b) (fold c)).
        rewrite eqb_or_fold. destruct (fold c =? fold b) eqn:Q; cbn [andb]; [|reflexivity].
        rewrite IH by assumption. unfold tp_spec. destruct (prefixb _ _); [|reflexivity].
        rewrite off_ascii_cons by lia. f_equal. f_equal. lia.
Qed.

Theorem trimprefix_refines p s prefix :
  wf s -> wf prefix -> TrimPrefix fold lower p s prefix = Ok (trim_prefix fold s prefix).
Proof.
  intros Hs Hp. unfold TrimPrefix, trim_prefix.
  destruct ((len s * 3 <? len prefix) || ((len s * 2 <? len prefix) && negb (contains_kelvin prefix))) eqn:C.
  - pose proof (precheck_sound s prefix Hs Hp C 0%nat) as N. rewrite match_at_0 in N. rewrite N. reflexivity.
  - rewrite tp_ascii_ok by assumption. unfold tp_spec, Spec.has_prefix.
    destruct (prefixb _ _); [|reflexivity]. f_equal.
Qed.

Theorem cutprefix_refines p s prefix :
  wf s -> wf prefix -> CutPrefix fold lower p s prefix = Ok (cut_prefix fold s prefix).
Proof.
  intros Hs Hp. unfold CutPrefix, cut_prefix. destruct prefix as [|c t].
  - cbn [is_nil]. unfold trim_prefix, Spec.has_prefix. rewrite key_nil. cbn [prefixb length]. rewrite off_0. reflexivity.
  - cbn [is_nil]. rewrite trimprefix_refines by assumption. cbn [bind].
    unfold trim_prefix. destruct (has_prefix s (c :: t)) eqn:H; cbn [fst snd].
    + unfold Spec.has_prefix in H. apply prefixb_length in H as L. rewrite (key_length fold s) in L.
      pose proof (key_nonempty fold c t) as NE.
      assert (0 < length (key (c :: t)))%nat by (destruct (key (c :: t)); [congruence|cbn; lia]).
      pose proof (off_lt s 0 (length (key (c :: t))) ltac:(lia) L) as O. rewrite off_0 in O.
      replace (len s - Z.of_nat (off s (length (key (c :: t)))) =? len s) with false by lia. reflexivity.
    + rewrite Z.sub_0_r, Z.eqb_refl. reflexivity.
Qed.

End Refine.
