(* X86IndexByte.v — the amd64 assembly of IndexByte / IndexByteString
   (indexbyte_go122_amd64.s, translated by tools/asm2prog.py into
   prog_indexbyte_go122_amd64): the body for needles that are not ASCII
   letters (indexbytebody) returns the offset of the first byte equal to the
   needle, or -1; the body for letters (indexbytebodyCase) the offset of the
   first byte equal to the needle in either case; for every argument, at every
   address and alignment, whatever surrounds it in memory, with and without
   AVX2; every load stays inside the pages of the argument and the only store
   is the result.  Both wrappers select the body by the letter test. *)
From Coq Require Import List ZArith Lia Bool.
From Strcase Require Import Base Spec Kernels X86 X86Facts.
From StrcaseGen Require Import AsmProg.
From Coq Require Import ZifyBool ZifyNat.
Import ListNotations.
Open Scope Z_scope.

(* an explicit machine state *)
Definition mk ax bx cx dx si di r8 r9 r10 r11 r12 r13 r14 r15 x0 x1 x2 x3 x4 x5 x6 x7 f rs : st :=
  {| gAX := ax; gBX := bx; gCX := cx; gDX := dx; gSI := si; gDI := di; gR8 := r8; gR9 := r9; gR10 := r10; gR11 := r11;
     gR12 := r12; gR13 := r13; gR14 := r14; gR15 := r15; v0 := x0; v1 := x1; v2 := x2; v3 := x3; v4 := x4; v5 := x5;
     v6 := x6; v7 := x7; fl := f; res := rs |}.

Lemma in64_true v : 0 <= v < two64 -> in64 v = true.
Proof. unfold in64. lia. Qed.

Lemma store_m1 : signed64 ((-1) mod two64) = -1.
Proof. reflexivity. Qed.

(* VPTEST Y3, Y3 on a PCMPEQB result *)
Lemma ptest_ind f data :
  forallb (fun x => x =? 0) (map2 Z.land (map (ind f) data) (map (ind f) data)) = (movmsk (map (ind f) data) =? 0).
Proof.
  induction data as [|b data IH]; [reflexivity|]. cbn [map map2 forallb movmsk]. rewrite IH.
  pose proof (movmsk_range (map (ind f) data)) as R. set (v := map (ind f) data) in *. unfold ind. destruct (f b).
  - change (Z.land 255 255 =? 0) with false. change (128 <=? 255) with true. cbn [andb]. lia.
  - change (Z.land 0 0 =? 0) with true. change (128 <=? 0) with false. cbn [andb]. lia.
Qed.

Section K.
Variables (A : Z) (s : list Z) (junk : Z -> Z) (slot : Z) (avx2 popcnt : bool) (c : Z).
Hypothesis HA : 4096 <= A.
Hypothesis Hlen : A + X86.len s < two63.
Hypothesis Hwf : Forall (fun b => 0 <= b < 256) s.

Notation P := prog_indexbyte_go122_amd64.
Notation run := (X86.run A s junk slot avx2 popcnt c P).
Notation len := (X86.len s).

(* one instruction; the fuel may be an existential variable, which is then refined to a successor *)
Ltac ystep :=
  lazymatch goal with
  | |- context [X86.run _ _ _ _ _ _ _ ?PR ?fu ?pc ?st] =>
    (tryif is_evar fu then (let e := open_constr:(_ : nat) in unify fu (S e)) else idtac);
    lazymatch goal with
    | |- context [X86.run _ _ _ _ _ _ _ PR (S ?f) pc st] =>
      rewrite (run_S A s junk slot avx2 popcnt c PR f pc st _ eq_refl);
      cbv beta iota zeta delta [X86.step val ea wr64 wr64f rg vr set_reg set_vr set_fl set_res m_disp m_base m_idx
           gAX gBX gCX gDX gSI gDI gR8 gR9 gR10 gR11 gR12 gR13 gR14 gR15 v0 v1 v2 v3 v4 v5 v6 v7 fl res]
    end
  end.

Lemma len_nonneg : 0 <= len.
Proof. unfold X86.len. lia. Qed.

Lemma nil_of_len0 : len = 0 -> s = [].
Proof. unfold X86.len. destruct s; [reflexivity|cbn [length]; lia]. Qed.

Lemma bytes_range a n : Forall (fun b => 0 <= b < 256) (bytes_at A s junk a n).
Proof.
  revert a. induction n as [|n IH]; intros a; [constructor|]. cbn [bytes_at]. constructor; [|apply IH].
  unfold X86.byte_at. destruct ((A <=? a) && (a <? A + len)) eqn:E.
  - rewrite Forall_forall in Hwf. apply Hwf. apply nth_In. unfold X86.len in E. lia.
  - lia.
Qed.

Lemma chunk_readable a n : A <= a -> a + Z.of_nat n <= A + len ->
  forall k, (k < n)%nat -> readable A s (a + Z.of_nat k) = true.
Proof. intros Ha Hb k Hk. apply (readable_inside A s junk). lia. Qed.

(* ===================================================================== *)
(* the body for needles that are not letters: lanes equal to cc           *)
(* ===================================================================== *)
Section Plain.
Variable cc : Z.
Notation f := (Z.eqb cc).
Notation t := (map (ind f) s).

Lemma t_length : length t = length s.
Proof. apply map_length. Qed.

Lemma chunkT w off : (off + w <= length s)%nat ->
  let data := firstn w (skipn off s) in
  load A s junk w (A + Z.of_nat off) = Some data /\ length data = w /\ map (ind f) data = firstn w (skipn off t).
Proof.
  intros H data. split; [|split].
  - rewrite (load_bytes A s junk w) by (apply chunk_readable; unfold X86.len; lia).
    rewrite (bytes_at_inside A s junk) by (unfold X86.len; lia). unfold data. do 3 f_equal. lia.
  - unfold data. rewrite firstn_length, skipn_length. lia.
  - unfold data. rewrite skipn_map, firstn_map. reflexivity.
Qed.

(* ---------- lengths below 16 ---------- *)
Lemma small_path ax cx dx di r9 r10 r11 r12 r13 r14 r15 x0 x1 x2 x3 x4 x5 x6 x7 :
  len < 16 -> vlow 16 x0 = repeat cc 16 ->
  exists fuel, run fuel 130 (mk ax len cx dx A di slot r9 r10 r11 r12 r13 r14 r15 x0 x1 x2 x3 x4 x5 x6 x7 (cmp_flags len 16 signed64) None)
               = Done (Some (fh t)).
Proof.
  intros Hl Hx0. pose proof len_nonneg as H0. unfold mk. unfold two63 in Hlen.
  destruct (Z.eq_dec len 0) as [E0|N0].
  { (* empty *)
    eexists. ystep. rewrite holds_cmp_LT by (unfold two63; lia). replace (len <? 16) with true by lia. cbv iota.
    ystep. ystep. cbn [holds zf logic_flags zflag]. rewrite Z.land_diag. replace (len =? 0) with true by lia. cbv iota.
    ystep. replace (0 + slot + 0 =? slot) with true by lia. cbv iota. rewrite store_m1. ystep.
    rewrite (nil_of_len0 E0). reflexivity. }
  set (n := length s). assert (Hn : len = Z.of_nat n) by reflexivity.
  assert (Lt : length t = n) by apply t_length.
  destruct (Z_lt_le_dec ((16 + A + 0) mod 4096) 16) as [Pg|Pg].
  - (* the 16-byte load at s would cross into the next page: load the 16 bytes that END at the end of s *)
    assert (Hrd : forall k, (k < 16)%nat -> readable A s (-16 + A + len * 1 + Z.of_nat k) = true).
    { intros k Hk. destruct (Z_lt_le_dec (-16 + A + len * 1 + Z.of_nat k) A) as [Lo|Hi].
      - apply (readable_first_page A s junk); lia.
      - apply (readable_inside A s junk); lia. }
    set (J := bytes_at A s junk (A - Z.of_nat (16 - n)) (16 - n)).
    assert (Eb : bytes_at A s junk (-16 + A + len * 1) 16 = J ++ s).
    { replace (-16 + A + len * 1) with (A - Z.of_nat (16 - n)) by lia.
      pose proof (bytes_at_app A s junk (A - Z.of_nat (16 - n)) (16 - n) n) as B.
      replace ((16 - n) + n)%nat with 16%nat in B by lia. rewrite B.
      replace (A - Z.of_nat (16 - n) + Z.of_nat (16 - n)) with A by lia. unfold J. f_equal. apply bytes_at_whole. }
    assert (LJ : length (J ++ s) = 16%nat) by (rewrite app_length; unfold J; rewrite bytes_at_length; lia).
    assert (LJ0 : length (map (ind f) J) = (16 - length t)%nat) by (rewrite map_length, Lt; unfold J; apply bytes_at_length).
    pose proof (movmsk_range t) as Rs. rewrite Lt in Rs.
    destruct (Z.eq_dec (movmsk t) 0) as [Mz|Mnz].
    + eexists. ystep. rewrite holds_cmp_LT by (unfold two63; lia). replace (len <? 16) with true by lia. cbv iota.
      ystep. ystep. cbn [holds zf logic_flags zflag]. rewrite Z.land_diag. replace (len =? 0) with false by lia. cbv iota.
      ystep. rewrite in64_true by (unfold two64; lia). cbv iota.
      ystep. ystep. cbn [holds zf logic_flags zflag]. rewrite testw_page by lia. replace ((16 + A + 0) mod 4096 <? 16) with true by lia. cbv iota.
      ystep. rewrite (load_bytes A s junk 16 _ Hrd), Eb. cbv iota.
      ystep. ystep. rewrite (cmp_low16 cc _ _ _ _ Hx0 LJ), map_app.
      ystep. ystep. ystep. ystep. replace len with (Z.of_nat (length t)) by lia.
      rewrite (shift_mask_gen (map (ind f) J) t) by (try exact LJ0; lia). rewrite Mz. change (0 =? 0) with true. cbv iota.
      ystep. cbn [holds zf logic_flags zflag]. cbv iota.
      ystep. replace (0 + slot + 0 =? slot) with true by lia. cbv iota. rewrite store_m1. ystep.
      f_equal. f_equal. symmetry. apply movmsk_zero. exact Mz.
    + assert (Hbsf : bsf (movmsk t) = fh t) by (apply bsf_movmsk; [lia|exact Mnz]).
      pose proof (fh_range t) as Rfs. rewrite Lt in Rfs.
      assert (Hne : fh t <> -1) by (intros E; apply movmsk_zero in E; congruence).
      eexists. ystep. rewrite holds_cmp_LT by (unfold two63; lia). replace (len <? 16) with true by lia. cbv iota.
      ystep. ystep. cbn [holds zf logic_flags zflag]. rewrite Z.land_diag. replace (len =? 0) with false by lia. cbv iota.
      ystep. rewrite in64_true by (unfold two64; lia). cbv iota.
      ystep. ystep. cbn [holds zf logic_flags zflag]. rewrite testw_page by lia. replace ((16 + A + 0) mod 4096 <? 16) with true by lia. cbv iota.
      ystep. rewrite (load_bytes A s junk 16 _ Hrd), Eb. cbv iota.
      ystep. ystep. rewrite (cmp_low16 cc _ _ _ _ Hx0 LJ), map_app.
      ystep. ystep. ystep. ystep. replace len with (Z.of_nat (length t)) by lia.
      rewrite (shift_mask_gen (map (ind f) J) t) by (try exact LJ0; lia). replace (movmsk t =? 0) with false by lia. cbv iota. rewrite Hbsf.
      ystep. cbn [holds zf logic_flags zflag]. cbv iota.
      ystep. replace (0 + slot + 0 =? slot) with true by lia. cbv iota. ystep.
      f_equal. f_equal. unfold signed64, two63. replace (fh t <? 9223372036854775808) with true by lia. reflexivity.
  - (* load 16 bytes at s: s followed by 16 - len bytes of the same page *)
    assert (Hrd : forall k, (k < 16)%nat -> readable A s (0 + A + 0 + Z.of_nat k) = true).
    { intros k Hk. apply (readable_first_page A s junk); lia. }
    set (J := bytes_at A s junk (A + Z.of_nat n) (16 - n)).
    assert (Eb : bytes_at A s junk (0 + A + 0) 16 = s ++ J).
    { replace (0 + A + 0) with A by lia. replace 16%nat with (n + (16 - n))%nat by lia.
      rewrite bytes_at_app. unfold n at 1. rewrite bytes_at_whole. reflexivity. }
    assert (LJ : length (s ++ J) = 16%nat) by (rewrite app_length; unfold J; rewrite bytes_at_length; lia).
    set (tJ := map (ind f) J).
    assert (LtJ : length (t ++ tJ) = 16%nat) by (rewrite app_length, Lt; unfold tJ; rewrite map_length; unfold J; rewrite bytes_at_length; lia).
    assert (Emsk : movmsk (t ++ tJ) = movmsk t + 2 ^ Z.of_nat n * movmsk tJ) by (rewrite movmsk_app, Lt; reflexivity).
    pose proof (movmsk_range t) as Rs. pose proof (movmsk_range tJ) as RJ.
    destruct (Z.eq_dec (movmsk (t ++ tJ)) 0) as [Mz|Mnz].
    + eexists. ystep. rewrite holds_cmp_LT by (unfold two63; lia). replace (len <? 16) with true by lia. cbv iota.
      ystep. ystep. cbn [holds zf logic_flags zflag]. rewrite Z.land_diag. replace (len =? 0) with false by lia. cbv iota.
      ystep. rewrite in64_true by (unfold two64; lia). cbv iota.
      ystep. ystep. cbn [holds zf logic_flags zflag]. rewrite testw_page by lia. replace ((16 + A + 0) mod 4096 <? 16) with false by lia. cbv iota.
      ystep. rewrite (load_bytes A s junk 16 _ Hrd), Eb. cbv iota.
      ystep. ystep. rewrite (cmp_low16 cc _ _ _ _ Hx0 LJ), map_app. fold tJ.
      ystep. rewrite (movmsk_small16 _ LtJ), Mz. change (0 =? 0) with true. cbv iota.
      ystep. cbn [holds zf logic_flags zflag]. cbv iota.
      ystep. replace (0 + slot + 0 =? slot) with true by lia. cbv iota. rewrite store_m1. ystep.
      f_equal. f_equal. symmetry. apply movmsk_zero. assert (0 <= 2 ^ Z.of_nat n) by (apply Z.pow_nonneg; lia). nia.
    + set (k := fh (t ++ tJ)).
      assert (Hk : 0 <= k < 16).
      { destruct (fh_range (t ++ tJ)) as [E|E]; [apply movmsk_zero in E; congruence|]. rewrite LtJ in E. exact E. }
      assert (Hbsf : bsf (movmsk (t ++ tJ)) = k) by (apply bsf_movmsk; [rewrite LtJ; lia|exact Mnz]).
      assert (Hks : k = if fh t <? 0 then (if fh tJ <? 0 then -1 else Z.of_nat (length t) + fh tJ) else fh t) by (unfold k; apply fh_app).
      rewrite Lt in Hks.
      pose proof (fh_range t) as Rfs. rewrite Lt in Rfs. pose proof (fh_range tJ) as RfJ.
      assert (Hcase : (fh t = -1 /\ len <= k) \/ (0 <= fh t /\ k = fh t /\ k < len)).
      { destruct (fh t <? 0) eqn:Fs; destruct (fh tJ <? 0) eqn:FJ; lia. }
      destruct Hcase as [[Fs Hge]|(Fs & Ek & Hlt)].
      * eexists. ystep. rewrite holds_cmp_LT by (unfold two63; lia). replace (len <? 16) with true by lia. cbv iota.
        ystep. ystep. cbn [holds zf logic_flags zflag]. rewrite Z.land_diag. replace (len =? 0) with false by lia. cbv iota.
        ystep. rewrite in64_true by (unfold two64; lia). cbv iota.
        ystep. ystep. cbn [holds zf logic_flags zflag]. rewrite testw_page by lia. replace ((16 + A + 0) mod 4096 <? 16) with false by lia. cbv iota.
        ystep. rewrite (load_bytes A s junk 16 _ Hrd), Eb. cbv iota.
        ystep. ystep. rewrite (cmp_low16 cc _ _ _ _ Hx0 LJ), map_app. fold tJ.
        ystep. rewrite (movmsk_small16 _ LtJ). replace (movmsk (t ++ tJ) =? 0) with false by lia. cbv iota. rewrite Hbsf.
        ystep. cbn [holds zf logic_flags zflag]. cbv iota.
        ystep. ystep. rewrite holds_cmp_AE. unfold two32.
        rewrite (Z.mod_small k) by lia. rewrite (Z.mod_small len) by lia.
        replace (len <=? k) with true by lia. cbv iota.
        ystep. replace (0 + slot + 0 =? slot) with true by lia. cbv iota. rewrite store_m1. ystep. congruence.
      * eexists. ystep. rewrite holds_cmp_LT by (unfold two63; lia). replace (len <? 16) with true by lia. cbv iota.
        ystep. ystep. cbn [holds zf logic_flags zflag]. rewrite Z.land_diag. replace (len =? 0) with false by lia. cbv iota.
        ystep. rewrite in64_true by (unfold two64; lia). cbv iota.
        ystep. ystep. cbn [holds zf logic_flags zflag]. rewrite testw_page by lia. replace ((16 + A + 0) mod 4096 <? 16) with false by lia. cbv iota.
        ystep. rewrite (load_bytes A s junk 16 _ Hrd), Eb. cbv iota.
        ystep. ystep. rewrite (cmp_low16 cc _ _ _ _ Hx0 LJ), map_app. fold tJ.
        ystep. rewrite (movmsk_small16 _ LtJ). replace (movmsk (t ++ tJ) =? 0) with false by lia. cbv iota. rewrite Hbsf.
        ystep. cbn [holds zf logic_flags zflag]. cbv iota.
        ystep. ystep. rewrite holds_cmp_AE. unfold two32.
        rewrite (Z.mod_small k) by lia. rewrite (Z.mod_small len) by lia.
        replace (len <=? k) with false by lia. cbv iota.
        ystep. replace (0 + slot + 0 =? slot) with true by lia. cbv iota. ystep.
        f_equal. f_equal. unfold signed64, two63. replace (k <? 9223372036854775808) with true by lia. lia.
  Unshelve. all: exact O.
Qed.

(* ---------- lengths from 16: the SSE loop ---------- *)

Lemma sse_success ax cx dx di r9 r10 r11 r12 r13 r14 r15 x0 x1 x2 x3 x4 x5 x6 x7 fl0 :
  0 <= di - A -> 0 <= dx -> di - A + dx < two63 ->
  exists fuel, run fuel 153 (mk ax len cx dx A di slot r9 r10 r11 r12 r13 r14 r15 x0 x1 x2 x3 x4 x5 x6 x7 fl0 None) = Done (Some (di - A + dx)).
Proof.
  intros H1 H2 H3. unfold mk. unfold two63 in *. eexists.
  ystep. rewrite in64_true by (unfold two64; lia). cbv iota.
  ystep. rewrite in64_true by (unfold two64; lia). cbv iota.
  ystep. replace (0 + slot + 0 =? slot) with true by lia. cbv iota.
  ystep. f_equal. f_equal. unfold signed64, two63. replace (di - A + dx <? 9223372036854775808) with true by lia. reflexivity.
  Unshelve. all: exact O.
Qed.

(* the last, overlapping chunk [len-16, len) *)
Lemma sse_final ax cx dx di r9 r10 r11 r12 r13 r14 r15 x0 x1 x2 x3 x4 x5 x6 x7 fl0 :
  16 <= len -> ax = A + len - 16 -> fh (firstn (length s - 16) t) = -1 -> vlow 16 x0 = repeat cc 16 ->
  exists fuel, run fuel 145 (mk ax len cx dx A di slot r9 r10 r11 r12 r13 r14 r15 x0 x1 x2 x3 x4 x5 x6 x7 fl0 None) = Done (Some (fh t)).
Proof.
  intros Hl Eax Hp Hx0. pose proof len_nonneg as H0. unfold two63 in Hlen.
  assert (Hn : len = Z.of_nat (length s)) by reflexivity. pose proof t_length as Lt.
  destruct (chunkT 16 (length s - 16)) as (Hld & Hlc & Hm); [lia|].
  replace (A + Z.of_nat (length s - 16)) with ax in Hld by lia.
  set (data := firstn 16 (skipn (length s - 16) s)) in *.
  destruct (fh_chunk t (length s - 16) 16 ltac:(lia) Hp) as [Cz Cnz]. rewrite <- Hm in Cz, Cnz.
  replace (length s - 16 + 16)%nat with (length t) in Cz by lia. rewrite fh_all in Cz.
  assert (Lm : length (map (ind f) data) = 16%nat) by (rewrite map_length; exact Hlc).
  destruct (Z.eq_dec (movmsk (map (ind f) data)) 0) as [Mz|Mnz].
  - eexists. unfold mk. ystep. ystep. replace (0 + ax + 0) with ax by lia. rewrite Hld. cbv iota.
    ystep. ystep. rewrite (cmp_low16 cc _ _ _ _ Hx0 Hlc).
    ystep. rewrite (movmsk_small16 _ Lm), Mz. change (0 =? 0) with true. cbv iota.
    ystep. cbn [holds zf negb option_map zflag]. cbv iota.
    ystep. replace (0 + slot + 0 =? slot) with true by lia. cbv iota. rewrite store_m1.
    ystep. rewrite (Cz Mz). reflexivity.
  - destruct (Cnz Mnz) as [Efh Rfh].
    assert (Hbsf : bsf (movmsk (map (ind f) data)) = fh (map (ind f) data)) by (apply bsf_movmsk; [lia|exact Mnz]).
    destruct (sse_success ax cx (fh (map (ind f) data)) ax r9 r10 r11 r12 r13 r14 r15 x0
                (vput 16 (map2 (fun x y => if x =? y then 255 else 0) x0 (vput 16 data x1)) (vput 16 data x1)) x2 x3 x4 x5 x6 x7
                (zflag false)) as [fu Hfu]; try (unfold two63; lia).
    eexists. unfold mk. ystep. ystep. replace (0 + ax + 0) with ax by lia. rewrite Hld. cbv iota.
    ystep. ystep. rewrite (cmp_low16 cc _ _ _ _ Hx0 Hlc).
    ystep. rewrite (movmsk_small16 _ Lm). replace (movmsk (map (ind f) data) =? 0) with false by lia. cbv iota. rewrite Hbsf.
    ystep. cbn [holds zf negb option_map zflag]. cbv iota.
    unfold mk in Hfu. rewrite Hfu. f_equal. f_equal. lia.
  Unshelve. all: exact O.
Qed.

(* the loop: invariant "the first 16k lanes of t hold no match", measure = chunks left *)
Lemma sse_loop (m : nat) : forall (k : nat) ax cx dx di r9 r10 r11 r12 r13 r14 r15 x0 x1 x2 x3 x4 x5 x6 x7 fl0,
  16 <= len -> ax = A + len - 16 -> di = A + 16 * Z.of_nat k -> 16 * Z.of_nat k <= len ->
  fh (firstn (16 * k) t) = -1 -> len - 16 - 16 * Z.of_nat k <= 16 * Z.of_nat m -> vlow 16 x0 = repeat cc 16 ->
  exists fuel, run fuel 143 (mk ax len cx dx A di slot r9 r10 r11 r12 r13 r14 r15 x0 x1 x2 x3 x4 x5 x6 x7 fl0 None) = Done (Some (fh t)).
Proof.
  induction m as [|m IH]; intros k ax cx dx di r9 r10 r11 r12 r13 r14 r15 x0 x1 x2 x3 x4 x5 x6 x7 fl0 Hl Eax Edi Hk Hp Hm Hx0;
    pose proof len_nonneg as H0; unfold two63 in Hlen; assert (Hn : len = Z.of_nat (length s)) by reflexivity; pose proof t_length as Lt.
  - assert (Hge : ax <= di) by lia.
    destruct (sse_final ax cx dx di r9 r10 r11 r12 r13 r14 r15 x0 x1 x2 x3 x4 x5 x6 x7 (cmp_flags di ax signed64) Hl Eax) as [fu Hfu]; [|exact Hx0|].
    { apply (fh_firstn_prefix t (16 * k)); [exact Hp|lia]. }
    eexists. unfold mk. ystep. ystep. rewrite holds_cmp_B. replace (di <? ax) with false by lia. cbv iota.
    exact Hfu.
  - destruct (Z_lt_le_dec di ax) as [Hlt|Hge].
    + destruct (chunkT 16 (16 * k)) as (Hld & Hlc & Hmm); [lia|].
      replace (A + Z.of_nat (16 * k)) with di in Hld by lia.
      set (data := firstn 16 (skipn (16 * k) s)) in *.
      destruct (fh_chunk t (16 * k) 16 ltac:(lia) Hp) as [Cz Cnz]. rewrite <- Hmm in Cz, Cnz.
      assert (Lm : length (map (ind f) data) = 16%nat) by (rewrite map_length; exact Hlc).
      destruct (Z.eq_dec (movmsk (map (ind f) data)) 0) as [Mz|Mnz].
      * specialize (Cz Mz). replace (16 * k + 16)%nat with (16 * S k)%nat in Cz by lia.
        destruct (IH (S k) ax cx 0 (di + 16) r9 r10 r11 r12 r13 r14 r15 x0
                    (vput 16 (map2 (fun x y => if x =? y then 255 else 0) x0 (vput 16 data x1)) (vput 16 data x1)) x2 x3 x4 x5 x6 x7
                    noflags Hl Eax) as [fu Hfu]; try lia; [exact Hx0|].
        eexists. unfold mk. ystep. ystep. rewrite holds_cmp_B. replace (di <? ax) with true by lia. cbv iota.
        ystep. replace (0 + di + 0) with di by lia. rewrite Hld. cbv iota.
        ystep. ystep. rewrite (cmp_low16 cc _ _ _ _ Hx0 Hlc).
        ystep. rewrite (movmsk_small16 _ Lm), Mz. change (0 =? 0) with true. cbv iota.
        ystep. cbn [holds zf negb option_map zflag]. cbv iota.
        ystep. change (16 mod two64) with 16. rewrite in64_true by (unfold two64; lia). cbv iota.
        unfold mk in Hfu. exact Hfu.
      * destruct (Cnz Mnz) as [Efh Rfh].
        assert (Hbsf : bsf (movmsk (map (ind f) data)) = fh (map (ind f) data)) by (apply bsf_movmsk; [lia|exact Mnz]).
        destruct (sse_success ax cx (fh (map (ind f) data)) di r9 r10 r11 r12 r13 r14 r15 x0
                    (vput 16 (map2 (fun x y => if x =? y then 255 else 0) x0 (vput 16 data x1)) (vput 16 data x1)) x2 x3 x4 x5 x6 x7
                    (zflag false)) as [fu Hfu]; try (unfold two63; lia).
        eexists. unfold mk. ystep. ystep. rewrite holds_cmp_B. replace (di <? ax) with true by lia. cbv iota.
        ystep. replace (0 + di + 0) with di by lia. rewrite Hld. cbv iota.
        ystep. ystep. rewrite (cmp_low16 cc _ _ _ _ Hx0 Hlc).
        ystep. rewrite (movmsk_small16 _ Lm). replace (movmsk (map (ind f) data) =? 0) with false by lia. cbv iota. rewrite Hbsf.
        ystep. cbn [holds zf negb option_map zflag]. cbv iota.
        unfold mk in Hfu. rewrite Hfu. f_equal. f_equal. lia.
    + destruct (sse_final ax cx dx di r9 r10 r11 r12 r13 r14 r15 x0 x1 x2 x3 x4 x5 x6 x7 (cmp_flags di ax signed64) Hl Eax) as [fu Hfu]; [|exact Hx0|].
      { apply (fh_firstn_prefix t (16 * k)); [exact Hp|lia]. }
      eexists. unfold mk. ystep. ystep. rewrite holds_cmp_B. replace (di <? ax) with false by lia. cbv iota.
      exact Hfu.
  Unshelve. all: exact O.
Qed.

(* from the dispatch: lengths 16..32, and every length from 16 when the CPU has no AVX2 *)
Lemma sse_path ax cx dx di r9 r10 r11 r12 r13 r14 r15 x0 x1 x2 x3 x4 x5 x6 x7 :
  16 <= len -> (len <= 32 \/ avx2 = false) -> vlow 16 x0 = repeat cc 16 ->
  exists fuel, run fuel 130 (mk ax len cx dx A di slot r9 r10 r11 r12 r13 r14 r15 x0 x1 x2 x3 x4 x5 x6 x7 (cmp_flags len 16 signed64) None)
               = Done (Some (fh t)).
Proof.
  intros Hl Hor Hx0. pose proof len_nonneg as H0. unfold two63 in Hlen.
  destruct (Z_le_gt_dec len 32) as [H32|H32].
  - destruct (sse_loop (Z.to_nat len) 0 (-16 + A + len * 1) cx dx A r9 r10 r11 r12 r13 r14 r15 x0 x1 x2 x3 x4 x5 x6 x7
                (cmp_flags len (32 mod two64) signed64) Hl) as [fu Hfu]; try lia; [reflexivity|exact Hx0|].
    eexists. unfold mk.
    ystep. rewrite holds_cmp_LT by (unfold two63; lia). replace (len <? 16) with false by lia. cbv iota.
    ystep. ystep. ystep. rewrite holds_cmp_A. change (32 mod two64) with 32. replace (32 <? len) with false by lia. cbv iota.
    ystep. rewrite in64_true by (unfold two64; lia). cbv iota.
    ystep. exact Hfu.
  - destruct Hor as [Hor|Hor]; [lia|].
    destruct (sse_loop (Z.to_nat len) 0 (-16 + A + len * 1) cx dx A r9 r10 r11 r12 r13 r14 r15 x0 x1 x2 x3 x4 x5 x6 x7
                (cmp_flags 0 1 (fun v => v)) Hl) as [fu Hfu]; try lia; [reflexivity|exact Hx0|].
    eexists. unfold mk.
    ystep. rewrite holds_cmp_LT by (unfold two63; lia). replace (len <? 16) with false by lia. cbv iota.
    ystep. ystep. ystep. rewrite holds_cmp_A. change (32 mod two64) with 32. replace (32 <? len) with true by lia. cbv iota.
    ystep. replace (if avx2 then 1 else 0) with 0 by (rewrite Hor; reflexivity). ystep. rewrite holds_cmp_NE. change (negb (0 =? 1)) with true. cbv iota.
    ystep. rewrite in64_true by (unfold two64; lia). cbv iota.
    ystep. exact Hfu.
  Unshelve. all: exact O.
Qed.

(* ---------- lengths above 32 with AVX2 ---------- *)

(* avx2success *)
Lemma avx2_success data ax cx dx di r9 r10 r11 r12 r13 r14 r15 x0 x1 x2 x4 x5 x6 x7 fl0 :
  length data = 32%nat -> movmsk (map (ind f) data) <> 0 ->
  0 <= di - A -> di - A + 32 < two63 ->
  exists fuel, run fuel 202 (mk ax len cx dx A di slot r9 r10 r11 r12 r13 r14 r15 x0 x1 x2 (map (ind f) data) x4 x5 x6 x7 fl0 None)
  = Done (Some (di - A + fh (map (ind f) data))).
Proof.
  intros L Mnz H1 H2. unfold mk. unfold two63 in *.
  assert (L3 : length (map (ind f) data) = 32%nat) by (rewrite map_length; exact L).
  assert (Hbsf : bsf (movmsk (map (ind f) data)) = fh (map (ind f) data)) by (apply bsf_movmsk; [lia|exact Mnz]).
  pose proof (movmsk_range (map (ind f) data)) as R. rewrite L3 in R. change (2 ^ Z.of_nat 32) with 4294967296 in R.
  destruct (fh_range (map (ind f) data)) as [E|E]; [apply movmsk_zero in E; congruence|]. rewrite L3 in E.
  eexists.
  ystep. rewrite (vlow_full 32 _ L3).
  ystep. unfold two32. rewrite (Z.mod_small (movmsk (map (ind f) data))) by lia. replace (movmsk (map (ind f) data) =? 0) with false by lia. cbv iota. rewrite Hbsf.
  ystep. rewrite in64_true by (unfold two64; lia). cbv iota.
  ystep. rewrite in64_true by (unfold two64; lia). cbv iota.
  ystep. replace (0 + slot + 0 =? slot) with true by lia. cbv iota.
  ystep. ystep. f_equal. f_equal. unfold signed64, two63.
  replace (fh (map (ind f) data) + (di - A) <? 9223372036854775808) with true by lia. lia.
  Unshelve. all: exact O.
Qed.

(* the four instructions that test one 32-byte chunk (at avx2_loop and after it) *)
Ltac avx2_chunk di data x2 x3 Hld L Hx2 Hx3 :=
  ystep; replace (0 + di + 0) with di by lia; rewrite Hld; cbv iota; rewrite (vput_full 32 data x2 L Hx2);
  ystep; rewrite (cmp32 cc data x3 L Hx3);
  ystep; rewrite ptest_ind;
  ystep; cbn [holds zf negb option_map zflag].

(* the last, overlapping chunk [len-32, len) *)
Lemma avx2_final ax cx dx di r9 r10 r11 r12 r13 r14 r15 x0 x2 x3 x4 x5 x6 x7 fl0 :
  32 <= len -> r11 = A + len - 32 -> fh (firstn (length s - 32) t) = -1 -> (length x2 <= 32)%nat -> (length x3 <= 32)%nat ->
  exists fuel, run fuel 194 (mk ax len cx dx A di slot r9 r10 r11 r12 r13 r14 r15 x0 (repeat cc 32) x2 x3 x4 x5 x6 x7 fl0 None) = Done (Some (fh t)).
Proof.
  intros Hl Er Hp Hx2 Hx3. pose proof len_nonneg as H0. unfold two63 in Hlen.
  assert (Hn : len = Z.of_nat (length s)) by reflexivity. pose proof t_length as Lt.
  destruct (chunkT 32 (length s - 32)) as (Hld & L & Hmm); [lia|].
  replace (A + Z.of_nat (length s - 32)) with r11 in Hld by lia.
  set (data := firstn 32 (skipn (length s - 32) s)) in *.
  destruct (fh_chunk t (length s - 32) 32 ltac:(lia) Hp) as [Cz Cnz]. rewrite <- Hmm in Cz, Cnz.
  replace (length s - 32 + 32)%nat with (length t) in Cz by lia. rewrite fh_all in Cz.
  destruct (Z.eq_dec (movmsk (map (ind f) data)) 0) as [Mz|Mnz].
  - eexists. unfold mk. ystep.
    avx2_chunk r11 data x2 x3 Hld L Hx2 Hx3.
    rewrite Mz. change (negb (0 =? 0)) with false. cbv iota.
    ystep. ystep. replace (0 + slot + 0 =? slot) with true by lia. cbv iota. rewrite store_m1.
    ystep. rewrite (Cz Mz). reflexivity.
  - destruct (Cnz Mnz) as [Efh Rfh].
    destruct (avx2_success data ax cx dx r11 r9 r10 r11 r12 r13 r14 r15 x0 (repeat cc 32) data x4 x5 x6 x7
                (zflag false) L Mnz) as [fu Hfu]; try (unfold two63; lia).
    eexists. unfold mk. ystep.
    avx2_chunk r11 data x2 x3 Hld L Hx2 Hx3.
    replace (movmsk (map (ind f) data) =? 0) with false by lia. cbv [negb]. cbv iota.
    unfold mk in Hfu. rewrite Hfu. f_equal. f_equal. lia.
  Unshelve. all: exact O.
Qed.

(* the loop (entered with at least one whole chunk ahead): invariant "the first 32k lanes of t hold no match" *)
Lemma avx2_loop (m : nat) : forall (k : nat) ax cx dx di r9 r10 r11 r12 r13 r14 r15 x0 x2 x3 x4 x5 x6 x7 fl0,
  32 <= len -> r11 = A + len - 32 -> di = A + 32 * Z.of_nat k -> 32 * Z.of_nat k + 32 <= len ->
  fh (firstn (32 * k) t) = -1 -> len - 32 - 32 * Z.of_nat k <= 32 * Z.of_nat m -> (length x2 <= 32)%nat -> (length x3 <= 32)%nat ->
  exists fuel, run fuel 187 (mk ax len cx dx A di slot r9 r10 r11 r12 r13 r14 r15 x0 (repeat cc 32) x2 x3 x4 x5 x6 x7 fl0 None) = Done (Some (fh t)).
Proof.
  induction m as [|m IH].
  - intros k ax cx dx di r9 r10 r11 r12 r13 r14 r15 x0 x2 x3 x4 x5 x6 x7 fl0 Hl Er Edi Hk Hp Hm Hx2 Hx3;
    pose proof len_nonneg as H0; unfold two63 in Hlen; assert (Hn : len = Z.of_nat (length s)) by reflexivity; pose proof t_length as Lt;
    destruct (chunkT 32 (32 * k)) as (Hld & L & Hmm); [lia|];
    replace (A + Z.of_nat (32 * k)) with di in Hld by lia;
    set (data := firstn 32 (skipn (32 * k) s)) in *;
    (destruct (fh_chunk t (32 * k) 32 ltac:(lia) Hp) as [Cz Cnz]); rewrite <- Hmm in Cz, Cnz;
    assert (Lm : length (map (ind f) data) = 32%nat) by (rewrite map_length; exact L);
    (destruct (Z.eq_dec (movmsk (map (ind f) data)) 0) as [Mz|Mnz]).
    + specialize (Cz Mz). destruct (Z_lt_le_dec (di + 32) r11) as [Hlt|Hge]; [exfalso; lia|].
      destruct (avx2_final ax cx dx (di + 32) r9 r10 r11 r12 r13 r14 r15 x0 data (map (ind f) data) x4 x5 x6 x7 (cmp_flags (di + 32) r11 signed64) ltac:(lia) Er) as [fu Hfu]; [|lia|lia|].
      { apply (fh_firstn_prefix t (32 * k + 32)); [exact Cz|lia]. }
      eexists. unfold mk.
      avx2_chunk di data x2 x3 Hld L Hx2 Hx3.
      rewrite Mz. change (negb (0 =? 0)) with false. cbv iota.
      ystep. change (32 mod two64) with 32. rewrite in64_true by (unfold two64; lia). cbv iota.
      ystep. ystep. rewrite holds_cmp_LT by (unfold two63; lia). replace (di + 32 <? r11) with false by lia. cbv iota.
      unfold mk in Hfu. exact Hfu.
    + 
    destruct (Cnz Mnz) as [Efh Rfh].
    destruct (avx2_success data ax cx dx di r9 r10 r11 r12 r13 r14 r15 x0 (repeat cc 32) data x4 x5 x6 x7
                (zflag false) L Mnz) as [fu Hfu]; try (unfold two63; lia).
    eexists. unfold mk.
    avx2_chunk di data x2 x3 Hld L Hx2 Hx3.
    replace (movmsk (map (ind f) data) =? 0) with false by lia. cbv [negb]. cbv iota.
    unfold mk in Hfu. rewrite Hfu. f_equal. f_equal. lia.
  - intros k ax cx dx di r9 r10 r11 r12 r13 r14 r15 x0 x2 x3 x4 x5 x6 x7 fl0 Hl Er Edi Hk Hp Hm Hx2 Hx3;
    pose proof len_nonneg as H0; unfold two63 in Hlen; assert (Hn : len = Z.of_nat (length s)) by reflexivity; pose proof t_length as Lt;
    destruct (chunkT 32 (32 * k)) as (Hld & L & Hmm); [lia|];
    replace (A + Z.of_nat (32 * k)) with di in Hld by lia;
    set (data := firstn 32 (skipn (32 * k) s)) in *;
    (destruct (fh_chunk t (32 * k) 32 ltac:(lia) Hp) as [Cz Cnz]); rewrite <- Hmm in Cz, Cnz;
    assert (Lm : length (map (ind f) data) = 32%nat) by (rewrite map_length; exact L);
    (destruct (Z.eq_dec (movmsk (map (ind f) data)) 0) as [Mz|Mnz]).
    + specialize (Cz Mz). destruct (Z_lt_le_dec (di + 32) r11) as [Hlt|Hge].
      {
      replace (32 * k + 32)%nat with (32 * S k)%nat in Cz by lia.
      destruct (IH (S k) ax cx dx (di + 32) r9 r10 r11 r12 r13 r14 r15 x0 data (map (ind f) data) x4 x5 x6 x7 (cmp_flags (di + 32) r11 signed64) Hl Er) as [fu Hfu]; try lia.
      eexists. unfold mk.
      avx2_chunk di data x2 x3 Hld L Hx2 Hx3.
      rewrite Mz. change (negb (0 =? 0)) with false. cbv iota.
      ystep. change (32 mod two64) with 32. rewrite in64_true by (unfold two64; lia). cbv iota.
      ystep. ystep. rewrite holds_cmp_LT by (unfold two63; lia). replace (di + 32 <? r11) with true by lia. cbv iota.
      unfold mk in Hfu. exact Hfu.
      }
      destruct (avx2_final ax cx dx (di + 32) r9 r10 r11 r12 r13 r14 r15 x0 data (map (ind f) data) x4 x5 x6 x7 (cmp_flags (di + 32) r11 signed64) ltac:(lia) Er) as [fu Hfu]; [|lia|lia|].
      { apply (fh_firstn_prefix t (32 * k + 32)); [exact Cz|lia]. }
      eexists. unfold mk.
      avx2_chunk di data x2 x3 Hld L Hx2 Hx3.
      rewrite Mz. change (negb (0 =? 0)) with false. cbv iota.
      ystep. change (32 mod two64) with 32. rewrite in64_true by (unfold two64; lia). cbv iota.
      ystep. ystep. rewrite holds_cmp_LT by (unfold two63; lia). replace (di + 32 <? r11) with false by lia. cbv iota.
      unfold mk in Hfu. exact Hfu.
    + 
    destruct (Cnz Mnz) as [Efh Rfh].
    destruct (avx2_success data ax cx dx di r9 r10 r11 r12 r13 r14 r15 x0 (repeat cc 32) data x4 x5 x6 x7
                (zflag false) L Mnz) as [fu Hfu]; try (unfold two63; lia).
    eexists. unfold mk.
    avx2_chunk di data x2 x3 Hld L Hx2 Hx3.
    replace (movmsk (map (ind f) data) =? 0) with false by lia. cbv [negb]. cbv iota.
    unfold mk in Hfu. rewrite Hfu. f_equal. f_equal. lia.
  Unshelve. all: exact O.
Qed.

(* from the dispatch: lengths above 32 on a CPU with AVX2 *)
Lemma avx2_path ax cx dx di r9 r10 r11 r12 r13 r14 r15 x0 x1 x2 x3 x4 x5 x6 x7 :
  32 < len -> avx2 = true -> (ax mod two32) mod 256 = cc -> (length x2 <= 32)%nat -> (length x3 <= 32)%nat ->
  exists fuel, run fuel 130 (mk ax len cx dx A di slot r9 r10 r11 r12 r13 r14 r15 x0 x1 x2 x3 x4 x5 x6 x7 (cmp_flags len 16 signed64) None)
               = Done (Some (fh t)).
Proof.
  intros Hl Hav Hax Hx2 Hx3. pose proof len_nonneg as H0. unfold two63 in Hlen.
  destruct (avx2_loop (Z.to_nat len) 0 ax cx dx A r9 r10 (-32 + A + len * 1) r12 r13 r14 r15
              (vput 16 (le_bytes4 (ax mod two32) ++ repeat 0 12) x0) x2 x3 x4 x5 x6 x7
              (cmp_flags 1 1 (fun v => v))) as [fu Hfu]; try lia; [reflexivity|].
  eexists. unfold mk.
  ystep. rewrite holds_cmp_LT by (unfold two63; lia). replace (len <? 16) with false by lia. cbv iota.
  ystep. ystep. ystep. rewrite holds_cmp_A. change (32 mod two64) with 32. replace (32 <? len) with true by lia. cbv iota.
  ystep. replace (if avx2 then 1 else 0) with 1 by (rewrite Hav; reflexivity).
  ystep. rewrite holds_cmp_NE. change (negb (1 =? 1)) with false. cbv iota.
  ystep. ystep. rewrite in64_true by (unfold two64; lia). cbv iota.
  ystep. rewrite hd_movd, Hax.
  ystep. unfold mk in Hfu. exact Hfu.
  Unshelve. all: exact O.
Qed.

Lemma from_dispatch ax cx dx di r9 r10 r11 r12 r13 r14 r15 x0 x1 x2 x3 x4 x5 x6 x7 :
  (ax mod two32) mod 256 = cc -> vlow 16 x0 = repeat cc 16 -> (length x2 <= 32)%nat -> (length x3 <= 32)%nat ->
  exists fuel, run fuel 130 (mk ax len cx dx A di slot r9 r10 r11 r12 r13 r14 r15 x0 x1 x2 x3 x4 x5 x6 x7 (cmp_flags len 16 signed64) None)
               = Done (Some (fh t)).
Proof.
  intros Hax Hx0 Hx2 Hx3.
  destruct (Z_lt_le_dec len 16) as [H16|H16]; [apply small_path; assumption|].
  destruct (Z_le_gt_dec len 32) as [H32|H32]; [apply sse_path; [exact H16|left; exact H32|exact Hx0]|].
  destruct (bool_dec avx2 true) as [Hav|Hav].
  - apply avx2_path; try assumption. lia.
  - apply sse_path; [exact H16|right; apply not_true_is_false; exact Hav|exact Hx0].
Qed.

(* the body, entered with the needle in AL *)
Theorem body_plain ax cx dx di r9 r10 r11 r12 r13 r14 r15 x0 x1 x2 x3 x4 x5 x6 x7 fl0 :
  (ax mod two32) mod 256 = cc -> (length x2 <= 32)%nat -> (length x3 <= 32)%nat ->
  exists fuel, run fuel 125 (mk ax len cx dx A di slot r9 r10 r11 r12 r13 r14 r15 x0 x1 x2 x3 x4 x5 x6 x7 fl0 None) = Done (Some (fh t)).
Proof.
  intros Hax Hx2 Hx3.
  destruct (from_dispatch ax cx dx di r9 r10 r11 r12 r13 r14 r15 (bcast16 (ax mod two32) x0) x1 x2 x3 x4 x5 x6 x7 Hax) as [fu Hfu];
    [rewrite bcast16_low, Hax; reflexivity|exact Hx2|exact Hx3|].
  eexists. unfold mk. ystep. ystep. ystep. ystep. ystep. change (16 mod two64) with 16.
  unfold mk, bcast16 in Hfu. exact Hfu.
  Unshelve. all: exact O.
Qed.

Lemma fh_t : fh t = index_byte_from f s 0.
Proof. apply fh_map_ind. Qed.

End Plain.
(* ===================================================================== *)
(* the body for letters: a lane matches when (lane OR 0x20) = cc           *)
(* ===================================================================== *)
Section Case.
Variable cc : Z.
Notation f := (fun b => cc =? Z.lor 32 b).
Notation t := (map (ind f) s).

Lemma t_length_c : length t = length s.
Proof. apply map_length. Qed.

Lemma chunkT_c w off : (off + w <= length s)%nat ->
  let data := firstn w (skipn off s) in
  load A s junk w (A + Z.of_nat off) = Some data /\ length data = w /\ map (ind f) data = firstn w (skipn off t).
Proof.
  intros H data. split; [|split].
  - rewrite (load_bytes A s junk w) by (apply chunk_readable; unfold X86.len; lia).
    rewrite (bytes_at_inside A s junk) by (unfold X86.len; lia). unfold data. do 3 f_equal. lia.
  - unfold data. rewrite firstn_length, skipn_length. lia.
  - unfold data. rewrite skipn_map, firstn_map. reflexivity.
Qed.

(* ---------- lengths below 16 ---------- *)
Lemma small_path_c ax cx dx di r9 r10 r11 r12 r13 r14 r15 x0 x1 x2 x3 x4 x5 x6 x7 :
  len < 16 -> vlow 16 x0 = repeat cc 16 -> vlow 16 x2 = repeat 32 16 ->
  exists fuel, run fuel 39 (mk ax len cx dx A di slot r9 r10 r11 r12 r13 r14 r15 x0 x1 x2 x3 x4 x5 x6 x7 (cmp_flags len 16 signed64) None)
               = Done (Some (fh t)).
Proof.
  intros Hl Hx0 Hx2m. pose proof len_nonneg as H0. unfold mk. unfold two63 in Hlen.
  destruct (Z.eq_dec len 0) as [E0|N0].
  { (* empty *)
    eexists. ystep. rewrite holds_cmp_LT by (unfold two63; lia). replace (len <? 16) with true by lia. cbv iota.
    ystep. ystep. cbn [holds zf logic_flags zflag]. rewrite Z.land_diag. replace (len =? 0) with true by lia. cbv iota.
    ystep. replace (0 + slot + 0 =? slot) with true by lia. cbv iota. rewrite store_m1. ystep.
    rewrite (nil_of_len0 E0). reflexivity. }
  set (n := length s). assert (Hn : len = Z.of_nat n) by reflexivity.
  assert (Lt : length t = n) by apply t_length_c.
  destruct (Z_lt_le_dec ((16 + A + 0) mod 4096) 16) as [Pg|Pg].
  - (* the 16-byte load at s would cross into the next page: load the 16 bytes that END at the end of s *)
    assert (Hrd : forall k, (k < 16)%nat -> readable A s (-16 + A + len * 1 + Z.of_nat k) = true).
    { intros k Hk. destruct (Z_lt_le_dec (-16 + A + len * 1 + Z.of_nat k) A) as [Lo|Hi].
      - apply (readable_first_page A s junk); lia.
      - apply (readable_inside A s junk); lia. }
    set (J := bytes_at A s junk (A - Z.of_nat (16 - n)) (16 - n)).
    assert (Eb : bytes_at A s junk (-16 + A + len * 1) 16 = J ++ s).
    { replace (-16 + A + len * 1) with (A - Z.of_nat (16 - n)) by lia.
      pose proof (bytes_at_app A s junk (A - Z.of_nat (16 - n)) (16 - n) n) as B.
      replace ((16 - n) + n)%nat with 16%nat in B by lia. rewrite B.
      replace (A - Z.of_nat (16 - n) + Z.of_nat (16 - n)) with A by lia. unfold J. f_equal. apply bytes_at_whole. }
    assert (LJ : length (J ++ s) = 16%nat) by (rewrite app_length; unfold J; rewrite bytes_at_length; lia).
    assert (LJ0 : length (map (ind f) J) = (16 - length t)%nat) by (rewrite map_length, Lt; unfold J; apply bytes_at_length).
    pose proof (movmsk_range t) as Rs. rewrite Lt in Rs.
    destruct (Z.eq_dec (movmsk t) 0) as [Mz|Mnz].
    + eexists. ystep. rewrite holds_cmp_LT by (unfold two63; lia). replace (len <? 16) with true by lia. cbv iota.
      ystep. ystep. cbn [holds zf logic_flags zflag]. rewrite Z.land_diag. replace (len =? 0) with false by lia. cbv iota.
      ystep. rewrite in64_true by (unfold two64; lia). cbv iota.
      ystep. ystep. cbn [holds zf logic_flags zflag]. rewrite testw_page by lia. replace ((16 + A + 0) mod 4096 <? 16) with true by lia. cbv iota.
      ystep. rewrite (load_bytes A s junk 16 _ Hrd), Eb. cbv iota.
      ystep. ystep. ystep. rewrite (cmp_or_low16 cc _ _ _ _ _ Hx0 Hx2m LJ), map_app.
      ystep. ystep. ystep. ystep. replace len with (Z.of_nat (length t)) by lia.
      rewrite (shift_mask_gen (map (ind f) J) t) by (try exact LJ0; lia). rewrite Mz. change (0 =? 0) with true. cbv iota.
      ystep. cbn [holds zf logic_flags zflag]. cbv iota.
      ystep. replace (0 + slot + 0 =? slot) with true by lia. cbv iota. rewrite store_m1. ystep.
      f_equal. f_equal. symmetry. apply movmsk_zero. exact Mz.
    + assert (Hbsf : bsf (movmsk t) = fh t) by (apply bsf_movmsk; [lia|exact Mnz]).
      pose proof (fh_range t) as Rfs. rewrite Lt in Rfs.
      assert (Hne : fh t <> -1) by (intros E; apply movmsk_zero in E; congruence).
      eexists. ystep. rewrite holds_cmp_LT by (unfold two63; lia). replace (len <? 16) with true by lia. cbv iota.
      ystep. ystep. cbn [holds zf logic_flags zflag]. rewrite Z.land_diag. replace (len =? 0) with false by lia. cbv iota.
      ystep. rewrite in64_true by (unfold two64; lia). cbv iota.
      ystep. ystep. cbn [holds zf logic_flags zflag]. rewrite testw_page by lia. replace ((16 + A + 0) mod 4096 <? 16) with true by lia. cbv iota.
      ystep. rewrite (load_bytes A s junk 16 _ Hrd), Eb. cbv iota.
      ystep. ystep. ystep. rewrite (cmp_or_low16 cc _ _ _ _ _ Hx0 Hx2m LJ), map_app.
      ystep. ystep. ystep. ystep. replace len with (Z.of_nat (length t)) by lia.
      rewrite (shift_mask_gen (map (ind f) J) t) by (try exact LJ0; lia). replace (movmsk t =? 0) with false by lia. cbv iota. rewrite Hbsf.
      ystep. cbn [holds zf logic_flags zflag]. cbv iota.
      ystep. replace (0 + slot + 0 =? slot) with true by lia. cbv iota. ystep.
      f_equal. f_equal. unfold signed64, two63. replace (fh t <? 9223372036854775808) with true by lia. reflexivity.
  - (* load 16 bytes at s: s followed by 16 - len bytes of the same page *)
    assert (Hrd : forall k, (k < 16)%nat -> readable A s (0 + A + 0 + Z.of_nat k) = true).
    { intros k Hk. apply (readable_first_page A s junk); lia. }
    set (J := bytes_at A s junk (A + Z.of_nat n) (16 - n)).
    assert (Eb : bytes_at A s junk (0 + A + 0) 16 = s ++ J).
    { replace (0 + A + 0) with A by lia. replace 16%nat with (n + (16 - n))%nat by lia.
      rewrite bytes_at_app. unfold n at 1. rewrite bytes_at_whole. reflexivity. }
    assert (LJ : length (s ++ J) = 16%nat) by (rewrite app_length; unfold J; rewrite bytes_at_length; lia).
    set (tJ := map (ind f) J).
    assert (LtJ : length (t ++ tJ) = 16%nat) by (rewrite app_length, Lt; unfold tJ; rewrite map_length; unfold J; rewrite bytes_at_length; lia).
    assert (Emsk : movmsk (t ++ tJ) = movmsk t + 2 ^ Z.of_nat n * movmsk tJ) by (rewrite movmsk_app, Lt; reflexivity).
    pose proof (movmsk_range t) as Rs. pose proof (movmsk_range tJ) as RJ.
    destruct (Z.eq_dec (movmsk (t ++ tJ)) 0) as [Mz|Mnz].
    + eexists. ystep. rewrite holds_cmp_LT by (unfold two63; lia). replace (len <? 16) with true by lia. cbv iota.
      ystep. ystep. cbn [holds zf logic_flags zflag]. rewrite Z.land_diag. replace (len =? 0) with false by lia. cbv iota.
      ystep. rewrite in64_true by (unfold two64; lia). cbv iota.
      ystep. ystep. cbn [holds zf logic_flags zflag]. rewrite testw_page by lia. replace ((16 + A + 0) mod 4096 <? 16) with false by lia. cbv iota.
      ystep. rewrite (load_bytes A s junk 16 _ Hrd), Eb. cbv iota.
      ystep. ystep. ystep. rewrite (cmp_or_low16 cc _ _ _ _ _ Hx0 Hx2m LJ), map_app. fold tJ.
      ystep. rewrite (movmsk_small16 _ LtJ), Mz. change (0 =? 0) with true. cbv iota.
      ystep. cbn [holds zf logic_flags zflag]. cbv iota.
      ystep. replace (0 + slot + 0 =? slot) with true by lia. cbv iota. rewrite store_m1. ystep.
      f_equal. f_equal. symmetry. apply movmsk_zero. assert (0 <= 2 ^ Z.of_nat n) by (apply Z.pow_nonneg; lia). nia.
    + set (k := fh (t ++ tJ)).
      assert (Hk : 0 <= k < 16).
      { destruct (fh_range (t ++ tJ)) as [E|E]; [apply movmsk_zero in E; congruence|]. rewrite LtJ in E. exact E. }
      assert (Hbsf : bsf (movmsk (t ++ tJ)) = k) by (apply bsf_movmsk; [rewrite LtJ; lia|exact Mnz]).
      assert (Hks : k = if fh t <? 0 then (if fh tJ <? 0 then -1 else Z.of_nat (length t) + fh tJ) else fh t) by (unfold k; apply fh_app).
      rewrite Lt in Hks.
      pose proof (fh_range t) as Rfs. rewrite Lt in Rfs. pose proof (fh_range tJ) as RfJ.
      assert (Hcase : (fh t = -1 /\ len <= k) \/ (0 <= fh t /\ k = fh t /\ k < len)).
      { destruct (fh t <? 0) eqn:Fs; destruct (fh tJ <? 0) eqn:FJ; lia. }
      destruct Hcase as [[Fs Hge]|(Fs & Ek & Hlt)].
      * eexists. ystep. rewrite holds_cmp_LT by (unfold two63; lia). replace (len <? 16) with true by lia. cbv iota.
        ystep. ystep. cbn [holds zf logic_flags zflag]. rewrite Z.land_diag. replace (len =? 0) with false by lia. cbv iota.
        ystep. rewrite in64_true by (unfold two64; lia). cbv iota.
        ystep. ystep. cbn [holds zf logic_flags zflag]. rewrite testw_page by lia. replace ((16 + A + 0) mod 4096 <? 16) with false by lia. cbv iota.
        ystep. rewrite (load_bytes A s junk 16 _ Hrd), Eb. cbv iota.
        ystep. ystep. ystep. rewrite (cmp_or_low16 cc _ _ _ _ _ Hx0 Hx2m LJ), map_app. fold tJ.
        ystep. rewrite (movmsk_small16 _ LtJ). replace (movmsk (t ++ tJ) =? 0) with false by lia. cbv iota. rewrite Hbsf.
        ystep. cbn [holds zf logic_flags zflag]. cbv iota.
        ystep. ystep. rewrite holds_cmp_AE. unfold two32.
        rewrite (Z.mod_small k) by lia. rewrite (Z.mod_small len) by lia.
        replace (len <=? k) with true by lia. cbv iota.
        ystep. replace (0 + slot + 0 =? slot) with true by lia. cbv iota. rewrite store_m1. ystep. congruence.
      * eexists. ystep. rewrite holds_cmp_LT by (unfold two63; lia). replace (len <? 16) with true by lia. cbv iota.
        ystep. ystep. cbn [holds zf logic_flags zflag]. rewrite Z.land_diag. replace (len =? 0) with false by lia. cbv iota.
        ystep. rewrite in64_true by (unfold two64; lia). cbv iota.
        ystep. ystep. cbn [holds zf logic_flags zflag]. rewrite testw_page by lia. replace ((16 + A + 0) mod 4096 <? 16) with false by lia. cbv iota.
        ystep. rewrite (load_bytes A s junk 16 _ Hrd), Eb. cbv iota.
        ystep. ystep. ystep. rewrite (cmp_or_low16 cc _ _ _ _ _ Hx0 Hx2m LJ), map_app. fold tJ.
        ystep. rewrite (movmsk_small16 _ LtJ). replace (movmsk (t ++ tJ) =? 0) with false by lia. cbv iota. rewrite Hbsf.
        ystep. cbn [holds zf logic_flags zflag]. cbv iota.
        ystep. ystep. rewrite holds_cmp_AE. unfold two32.
        rewrite (Z.mod_small k) by lia. rewrite (Z.mod_small len) by lia.
        replace (len <=? k) with false by lia. cbv iota.
        ystep. replace (0 + slot + 0 =? slot) with true by lia. cbv iota. ystep.
        f_equal. f_equal. unfold signed64, two63. replace (k <? 9223372036854775808) with true by lia. lia.
  Unshelve. all: exact O.
Qed.

(* ---------- lengths from 16: the SSE loop ---------- *)

Lemma sse_success_c ax cx dx di r9 r10 r11 r12 r13 r14 r15 x0 x1 x2 x3 x4 x5 x6 x7 fl0 :
  0 <= di - A -> 0 <= dx -> di - A + dx < two63 ->
  exists fuel, run fuel 64 (mk ax len cx dx A di slot r9 r10 r11 r12 r13 r14 r15 x0 x1 x2 x3 x4 x5 x6 x7 fl0 None) = Done (Some (di - A + dx)).
Proof.
  intros H1 H2 H3. unfold mk. unfold two63 in *. eexists.
  ystep. rewrite in64_true by (unfold two64; lia). cbv iota.
  ystep. rewrite in64_true by (unfold two64; lia). cbv iota.
  ystep. replace (0 + slot + 0 =? slot) with true by lia. cbv iota.
  ystep. f_equal. f_equal. unfold signed64, two63. replace (di - A + dx <? 9223372036854775808) with true by lia. reflexivity.
  Unshelve. all: exact O.
Qed.

(* the last, overlapping chunk [len-16, len) *)
Lemma sse_final_c ax cx dx di r9 r10 r11 r12 r13 r14 r15 x0 x1 x2 x3 x4 x5 x6 x7 fl0 :
  16 <= len -> ax = A + len - 16 -> fh (firstn (length s - 16) t) = -1 -> vlow 16 x0 = repeat cc 16 -> vlow 16 x2 = repeat 32 16 ->
  exists fuel, run fuel 55 (mk ax len cx dx A di slot r9 r10 r11 r12 r13 r14 r15 x0 x1 x2 x3 x4 x5 x6 x7 fl0 None) = Done (Some (fh t)).
Proof.
  intros Hl Eax Hp Hx0 Hx2m. pose proof len_nonneg as H0. unfold two63 in Hlen.
  assert (Hn : len = Z.of_nat (length s)) by reflexivity. pose proof t_length_c as Lt.
  destruct (chunkT_c 16 (length s - 16)) as (Hld & Hlc & Hm); [lia|].
  replace (A + Z.of_nat (length s - 16)) with ax in Hld by lia.
  set (data := firstn 16 (skipn (length s - 16) s)) in *.
  destruct (fh_chunk t (length s - 16) 16 ltac:(lia) Hp) as [Cz Cnz]. rewrite <- Hm in Cz, Cnz.
  replace (length s - 16 + 16)%nat with (length t) in Cz by lia. rewrite fh_all in Cz.
  assert (Lm : length (map (ind f) data) = 16%nat) by (rewrite map_length; exact Hlc).
  destruct (Z.eq_dec (movmsk (map (ind f) data)) 0) as [Mz|Mnz].
  - eexists. unfold mk. ystep. ystep. replace (0 + ax + 0) with ax by lia. rewrite Hld. cbv iota.
    ystep. ystep. ystep. rewrite (cmp_or_low16 cc _ _ _ _ _ Hx0 Hx2m Hlc).
    ystep. rewrite (movmsk_small16 _ Lm), Mz. change (0 =? 0) with true. cbv iota.
    ystep. cbn [holds zf negb option_map zflag]. cbv iota.
    ystep. replace (0 + slot + 0 =? slot) with true by lia. cbv iota. rewrite store_m1.
    ystep. rewrite (Cz Mz). reflexivity.
  - destruct (Cnz Mnz) as [Efh Rfh].
    assert (Hbsf : bsf (movmsk (map (ind f) data)) = fh (map (ind f) data)) by (apply bsf_movmsk; [lia|exact Mnz]).
    destruct (sse_success_c ax cx (fh (map (ind f) data)) ax r9 r10 r11 r12 r13 r14 r15 x0
                (vput 16 (map2 (fun x y => if x =? y then 255 else 0) x0 (vput 16 (map2 Z.lor x2 (vput 16 data x1)) (vput 16 data x1))) (vput 16 (map2 Z.lor x2 (vput 16 data x1)) (vput 16 data x1))) x2 x3 x4 x5 x6 x7
                (zflag false)) as [fu Hfu]; try (unfold two63; lia).
    eexists. unfold mk. ystep. ystep. replace (0 + ax + 0) with ax by lia. rewrite Hld. cbv iota.
    ystep. ystep. ystep. rewrite (cmp_or_low16 cc _ _ _ _ _ Hx0 Hx2m Hlc).
    ystep. rewrite (movmsk_small16 _ Lm). replace (movmsk (map (ind f) data) =? 0) with false by lia. cbv iota. rewrite Hbsf.
    ystep. cbn [holds zf negb option_map zflag]. cbv iota.
    unfold mk in Hfu. rewrite Hfu. f_equal. f_equal. lia.
  Unshelve. all: exact O.
Qed.

(* the loop: invariant "the first 16k lanes of t hold no match", measure = chunks left *)
Lemma sse_loop_c (m : nat) : forall (k : nat) ax cx dx di r9 r10 r11 r12 r13 r14 r15 x0 x1 x2 x3 x4 x5 x6 x7 fl0,
  16 <= len -> ax = A + len - 16 -> di = A + 16 * Z.of_nat k -> 16 * Z.of_nat k <= len ->
  fh (firstn (16 * k) t) = -1 -> len - 16 - 16 * Z.of_nat k <= 16 * Z.of_nat m -> vlow 16 x0 = repeat cc 16 -> vlow 16 x2 = repeat 32 16 ->
  exists fuel, run fuel 53 (mk ax len cx dx A di slot r9 r10 r11 r12 r13 r14 r15 x0 x1 x2 x3 x4 x5 x6 x7 fl0 None) = Done (Some (fh t)).
Proof.
  induction m as [|m IH]; intros k ax cx dx di r9 r10 r11 r12 r13 r14 r15 x0 x1 x2 x3 x4 x5 x6 x7 fl0 Hl Eax Edi Hk Hp Hm Hx0 Hx2m;
    pose proof len_nonneg as H0; unfold two63 in Hlen; assert (Hn : len = Z.of_nat (length s)) by reflexivity; pose proof t_length_c as Lt.
  - assert (Hge : ax <= di) by lia.
    destruct (sse_final_c ax cx dx di r9 r10 r11 r12 r13 r14 r15 x0 x1 x2 x3 x4 x5 x6 x7 (cmp_flags di ax signed64) Hl Eax) as [fu Hfu]; [|exact Hx0|exact Hx2m|].
    { apply (fh_firstn_prefix t (16 * k)); [exact Hp|lia]. }
    eexists. unfold mk. ystep. ystep. rewrite holds_cmp_B. replace (di <? ax) with false by lia. cbv iota.
    exact Hfu.
  - destruct (Z_lt_le_dec di ax) as [Hlt|Hge].
    + destruct (chunkT_c 16 (16 * k)) as (Hld & Hlc & Hmm); [lia|].
      replace (A + Z.of_nat (16 * k)) with di in Hld by lia.
      set (data := firstn 16 (skipn (16 * k) s)) in *.
      destruct (fh_chunk t (16 * k) 16 ltac:(lia) Hp) as [Cz Cnz]. rewrite <- Hmm in Cz, Cnz.
      assert (Lm : length (map (ind f) data) = 16%nat) by (rewrite map_length; exact Hlc).
      destruct (Z.eq_dec (movmsk (map (ind f) data)) 0) as [Mz|Mnz].
      * specialize (Cz Mz). replace (16 * k + 16)%nat with (16 * S k)%nat in Cz by lia.
        destruct (IH (S k) ax cx 0 (di + 16) r9 r10 r11 r12 r13 r14 r15 x0
                    (vput 16 (map2 (fun x y => if x =? y then 255 else 0) x0 (vput 16 (map2 Z.lor x2 (vput 16 data x1)) (vput 16 data x1))) (vput 16 (map2 Z.lor x2 (vput 16 data x1)) (vput 16 data x1))) x2 x3 x4 x5 x6 x7
                    noflags Hl Eax) as [fu Hfu]; try lia; [exact Hx0|exact Hx2m|].
        eexists. unfold mk. ystep. ystep. rewrite holds_cmp_B. replace (di <? ax) with true by lia. cbv iota.
        ystep. replace (0 + di + 0) with di by lia. rewrite Hld. cbv iota.
        ystep. ystep. ystep. rewrite (cmp_or_low16 cc _ _ _ _ _ Hx0 Hx2m Hlc).
        ystep. rewrite (movmsk_small16 _ Lm), Mz. change (0 =? 0) with true. cbv iota.
        ystep. cbn [holds zf negb option_map zflag]. cbv iota.
        ystep. change (16 mod two64) with 16. rewrite in64_true by (unfold two64; lia). cbv iota.
        unfold mk in Hfu. exact Hfu.
      * destruct (Cnz Mnz) as [Efh Rfh].
        assert (Hbsf : bsf (movmsk (map (ind f) data)) = fh (map (ind f) data)) by (apply bsf_movmsk; [lia|exact Mnz]).
        destruct (sse_success_c ax cx (fh (map (ind f) data)) di r9 r10 r11 r12 r13 r14 r15 x0
                    (vput 16 (map2 (fun x y => if x =? y then 255 else 0) x0 (vput 16 (map2 Z.lor x2 (vput 16 data x1)) (vput 16 data x1))) (vput 16 (map2 Z.lor x2 (vput 16 data x1)) (vput 16 data x1))) x2 x3 x4 x5 x6 x7
                    (zflag false)) as [fu Hfu]; try (unfold two63; lia).
        eexists. unfold mk. ystep. ystep. rewrite holds_cmp_B. replace (di <? ax) with true by lia. cbv iota.
        ystep. replace (0 + di + 0) with di by lia. rewrite Hld. cbv iota.
        ystep. ystep. ystep. rewrite (cmp_or_low16 cc _ _ _ _ _ Hx0 Hx2m Hlc).
        ystep. rewrite (movmsk_small16 _ Lm). replace (movmsk (map (ind f) data) =? 0) with false by lia. cbv iota. rewrite Hbsf.
        ystep. cbn [holds zf negb option_map zflag]. cbv iota.
        unfold mk in Hfu. rewrite Hfu. f_equal. f_equal. lia.
    + destruct (sse_final_c ax cx dx di r9 r10 r11 r12 r13 r14 r15 x0 x1 x2 x3 x4 x5 x6 x7 (cmp_flags di ax signed64) Hl Eax) as [fu Hfu]; [|exact Hx0|exact Hx2m|].
      { apply (fh_firstn_prefix t (16 * k)); [exact Hp|lia]. }
      eexists. unfold mk. ystep. ystep. rewrite holds_cmp_B. replace (di <? ax) with false by lia. cbv iota.
      exact Hfu.
  Unshelve. all: exact O.
Qed.

(* from the dispatch: lengths 16..32, and every length from 16 when the CPU has no AVX2 *)
Lemma sse_path_c ax cx dx di r9 r10 r11 r12 r13 r14 r15 x0 x1 x2 x3 x4 x5 x6 x7 :
  16 <= len -> (len <= 32 \/ avx2 = false) -> vlow 16 x0 = repeat cc 16 -> vlow 16 x2 = repeat 32 16 ->
  exists fuel, run fuel 39 (mk ax len cx dx A di slot r9 r10 r11 r12 r13 r14 r15 x0 x1 x2 x3 x4 x5 x6 x7 (cmp_flags len 16 signed64) None)
               = Done (Some (fh t)).
Proof.
  intros Hl Hor Hx0 Hx2m. pose proof len_nonneg as H0. unfold two63 in Hlen.
  destruct (Z_le_gt_dec len 32) as [H32|H32].
  - destruct (sse_loop_c (Z.to_nat len) 0 (-16 + A + len * 1) cx dx A r9 r10 r11 r12 r13 r14 r15 x0 x1 x2 x3 x4 x5 x6 x7
                (cmp_flags len (32 mod two64) signed64) Hl) as [fu Hfu]; try lia; [reflexivity|exact Hx0|exact Hx2m|].
    eexists. unfold mk.
    ystep. rewrite holds_cmp_LT by (unfold two63; lia). replace (len <? 16) with false by lia. cbv iota.
    ystep. ystep. ystep. rewrite holds_cmp_A. change (32 mod two64) with 32. replace (32 <? len) with false by lia. cbv iota.
    ystep. rewrite in64_true by (unfold two64; lia). cbv iota.
    ystep. exact Hfu.
  - destruct Hor as [Hor|Hor]; [lia|].
    destruct (sse_loop_c (Z.to_nat len) 0 (-16 + A + len * 1) cx dx A r9 r10 r11 r12 r13 r14 r15 x0 x1 x2 x3 x4 x5 x6 x7
                (cmp_flags 0 1 (fun v => v)) Hl) as [fu Hfu]; try lia; [reflexivity|exact Hx0|exact Hx2m|].
    eexists. unfold mk.
    ystep. rewrite holds_cmp_LT by (unfold two63; lia). replace (len <? 16) with false by lia. cbv iota.
    ystep. ystep. ystep. rewrite holds_cmp_A. change (32 mod two64) with 32. replace (32 <? len) with true by lia. cbv iota.
    ystep. replace (if avx2 then 1 else 0) with 0 by (rewrite Hor; reflexivity). ystep. rewrite holds_cmp_NE. change (negb (0 =? 1)) with true. cbv iota.
    ystep. rewrite in64_true by (unfold two64; lia). cbv iota.
    ystep. exact Hfu.
  Unshelve. all: exact O.
Qed.

(* ---------- lengths above 32 with AVX2 ---------- *)

(* avx2success *)
Lemma avx2_success_c data ax cx dx di r9 r10 r11 r12 r13 r14 r15 x0 x1 x2 x5 x6 x7 fl0 :
  length data = 32%nat -> movmsk (map (ind f) data) <> 0 ->
  0 <= di - A -> di - A + 32 < two63 ->
  exists fuel, run fuel 118 (mk ax len cx dx A di slot r9 r10 r11 r12 r13 r14 r15 x0 x1 x2 (map (ind f) data) (repeat 32 32) x5 x6 x7 fl0 None)
  = Done (Some (di - A + fh (map (ind f) data))).
Proof.
  intros L Mnz H1 H2. unfold mk. unfold two63 in *.
  assert (L3 : length (map (ind f) data) = 32%nat) by (rewrite map_length; exact L).
  assert (Hbsf : bsf (movmsk (map (ind f) data)) = fh (map (ind f) data)) by (apply bsf_movmsk; [lia|exact Mnz]).
  pose proof (movmsk_range (map (ind f) data)) as R. rewrite L3 in R. change (2 ^ Z.of_nat 32) with 4294967296 in R.
  destruct (fh_range (map (ind f) data)) as [E|E]; [apply movmsk_zero in E; congruence|]. rewrite L3 in E.
  eexists.
  ystep. rewrite (vlow_full 32 _ L3).
  ystep. unfold two32. rewrite (Z.mod_small (movmsk (map (ind f) data))) by lia. replace (movmsk (map (ind f) data) =? 0) with false by lia. cbv iota. rewrite Hbsf.
  ystep. rewrite in64_true by (unfold two64; lia). cbv iota.
  ystep. rewrite in64_true by (unfold two64; lia). cbv iota.
  ystep. replace (0 + slot + 0 =? slot) with true by lia. cbv iota.
  ystep. ystep. f_equal. f_equal. unfold signed64, two63.
  replace (fh (map (ind f) data) + (di - A) <? 9223372036854775808) with true by lia. lia.
  Unshelve. all: exact O.
Qed.

(* the five instructions that test one 32-byte chunk (at avx2_loop_c and after it) *)
Ltac avx2_chunk_c di data x2 x3 Hld L Hx2 Hx3 :=
  ystep; replace (0 + di + 0) with di by lia; rewrite Hld; cbv iota; rewrite (vput_full 32 data x2 L Hx2);
  ystep; rewrite (or32 data data L) by lia;
  ystep; rewrite (cmp_or32 cc data x3 L Hx3);
  ystep; rewrite ptest_ind;
  ystep; cbn [holds zf negb option_map zflag].

(* the last, overlapping chunk [len-32, len) *)
Lemma avx2_final_c ax cx dx di r9 r10 r11 r12 r13 r14 r15 x0 x2 x3 x5 x6 x7 fl0 :
  32 <= len -> r11 = A + len - 32 -> fh (firstn (length s - 32) t) = -1 -> (length x2 <= 32)%nat -> (length x3 <= 32)%nat ->
  exists fuel, run fuel 109 (mk ax len cx dx A di slot r9 r10 r11 r12 r13 r14 r15 x0 (repeat cc 32) x2 x3 (repeat 32 32) x5 x6 x7 fl0 None) = Done (Some (fh t)).
Proof.
  intros Hl Er Hp Hx2 Hx3. pose proof len_nonneg as H0. unfold two63 in Hlen.
  assert (Hn : len = Z.of_nat (length s)) by reflexivity. pose proof t_length_c as Lt.
  destruct (chunkT_c 32 (length s - 32)) as (Hld & L & Hmm); [lia|].
  replace (A + Z.of_nat (length s - 32)) with r11 in Hld by lia.
  set (data := firstn 32 (skipn (length s - 32) s)) in *.
  destruct (fh_chunk t (length s - 32) 32 ltac:(lia) Hp) as [Cz Cnz]. rewrite <- Hmm in Cz, Cnz.
  replace (length s - 32 + 32)%nat with (length t) in Cz by lia. rewrite fh_all in Cz.
  destruct (Z.eq_dec (movmsk (map (ind f) data)) 0) as [Mz|Mnz].
  - eexists. unfold mk. ystep.
    avx2_chunk_c r11 data x2 x3 Hld L Hx2 Hx3.
    rewrite Mz. change (negb (0 =? 0)) with false. cbv iota.
    ystep. ystep. replace (0 + slot + 0 =? slot) with true by lia. cbv iota. rewrite store_m1.
    ystep. rewrite (Cz Mz). reflexivity.
  - destruct (Cnz Mnz) as [Efh Rfh].
    destruct (avx2_success_c data ax cx dx r11 r9 r10 r11 r12 r13 r14 r15 x0 (repeat cc 32) (map (Z.lor 32) data) x5 x6 x7
                (zflag false) L Mnz) as [fu Hfu]; try (unfold two63; lia).
    eexists. unfold mk. ystep.
    avx2_chunk_c r11 data x2 x3 Hld L Hx2 Hx3.
    replace (movmsk (map (ind f) data) =? 0) with false by lia. cbv [negb]. cbv iota.
    unfold mk in Hfu. rewrite Hfu. f_equal. f_equal. lia.
  Unshelve. all: exact O.
Qed.

(* the loop (entered with at least one whole chunk ahead): invariant "the first 32k lanes of t hold no match" *)
Lemma avx2_loop_c (m : nat) : forall (k : nat) ax cx dx di r9 r10 r11 r12 r13 r14 r15 x0 x2 x3 x5 x6 x7 fl0,
  32 <= len -> r11 = A + len - 32 -> di = A + 32 * Z.of_nat k -> 32 * Z.of_nat k + 32 <= len ->
  fh (firstn (32 * k) t) = -1 -> len - 32 - 32 * Z.of_nat k <= 32 * Z.of_nat m -> (length x2 <= 32)%nat -> (length x3 <= 32)%nat ->
  exists fuel, run fuel 101 (mk ax len cx dx A di slot r9 r10 r11 r12 r13 r14 r15 x0 (repeat cc 32) x2 x3 (repeat 32 32) x5 x6 x7 fl0 None) = Done (Some (fh t)).
Proof.
  induction m as [|m IH].
  - intros k ax cx dx di r9 r10 r11 r12 r13 r14 r15 x0 x2 x3 x5 x6 x7 fl0 Hl Er Edi Hk Hp Hm Hx2 Hx3;
    pose proof len_nonneg as H0; unfold two63 in Hlen; assert (Hn : len = Z.of_nat (length s)) by reflexivity; pose proof t_length_c as Lt;
    destruct (chunkT_c 32 (32 * k)) as (Hld & L & Hmm); [lia|];
    replace (A + Z.of_nat (32 * k)) with di in Hld by lia;
    set (data := firstn 32 (skipn (32 * k) s)) in *;
    (destruct (fh_chunk t (32 * k) 32 ltac:(lia) Hp) as [Cz Cnz]); rewrite <- Hmm in Cz, Cnz;
    assert (Lm : length (map (ind f) data) = 32%nat) by (rewrite map_length; exact L);
    (destruct (Z.eq_dec (movmsk (map (ind f) data)) 0) as [Mz|Mnz]).
    + specialize (Cz Mz). destruct (Z_lt_le_dec (di + 32) r11) as [Hlt|Hge]; [exfalso; lia|].
      destruct (avx2_final_c ax cx dx (di + 32) r9 r10 r11 r12 r13 r14 r15 x0 (map (Z.lor 32) data) (map (ind f) data) x5 x6 x7 (cmp_flags (di + 32) r11 signed64) ltac:(lia) Er) as [fu Hfu]; [|rewrite map_length; lia|lia|].
      { apply (fh_firstn_prefix t (32 * k + 32)); [exact Cz|lia]. }
      eexists. unfold mk.
      avx2_chunk_c di data x2 x3 Hld L Hx2 Hx3.
      rewrite Mz. change (negb (0 =? 0)) with false. cbv iota.
      ystep. change (32 mod two64) with 32. rewrite in64_true by (unfold two64; lia). cbv iota.
      ystep. ystep. rewrite holds_cmp_LT by (unfold two63; lia). replace (di + 32 <? r11) with false by lia. cbv iota.
      unfold mk in Hfu. exact Hfu.
    + 
    destruct (Cnz Mnz) as [Efh Rfh].
    destruct (avx2_success_c data ax cx dx di r9 r10 r11 r12 r13 r14 r15 x0 (repeat cc 32) (map (Z.lor 32) data) x5 x6 x7
                (zflag false) L Mnz) as [fu Hfu]; try (unfold two63; lia).
    eexists. unfold mk.
    avx2_chunk_c di data x2 x3 Hld L Hx2 Hx3.
    replace (movmsk (map (ind f) data) =? 0) with false by lia. cbv [negb]. cbv iota.
    unfold mk in Hfu. rewrite Hfu. f_equal. f_equal. lia.
  - intros k ax cx dx di r9 r10 r11 r12 r13 r14 r15 x0 x2 x3 x5 x6 x7 fl0 Hl Er Edi Hk Hp Hm Hx2 Hx3;
    pose proof len_nonneg as H0; unfold two63 in Hlen; assert (Hn : len = Z.of_nat (length s)) by reflexivity; pose proof t_length_c as Lt;
    destruct (chunkT_c 32 (32 * k)) as (Hld & L & Hmm); [lia|];
    replace (A + Z.of_nat (32 * k)) with di in Hld by lia;
    set (data := firstn 32 (skipn (32 * k) s)) in *;
    (destruct (fh_chunk t (32 * k) 32 ltac:(lia) Hp) as [Cz Cnz]); rewrite <- Hmm in Cz, Cnz;
    assert (Lm : length (map (ind f) data) = 32%nat) by (rewrite map_length; exact L);
    (destruct (Z.eq_dec (movmsk (map (ind f) data)) 0) as [Mz|Mnz]).
    + specialize (Cz Mz). destruct (Z_lt_le_dec (di + 32) r11) as [Hlt|Hge].
      {
      replace (32 * k + 32)%nat with (32 * S k)%nat in Cz by lia.
      destruct (IH (S k) ax cx dx (di + 32) r9 r10 r11 r12 r13 r14 r15 x0 (map (Z.lor 32) data) (map (ind f) data) x5 x6 x7 (cmp_flags (di + 32) r11 signed64) Hl Er) as [fu Hfu]; try lia; [rewrite map_length; lia|].
      eexists. unfold mk.
      avx2_chunk_c di data x2 x3 Hld L Hx2 Hx3.
      rewrite Mz. change (negb (0 =? 0)) with false. cbv iota.
      ystep. change (32 mod two64) with 32. rewrite in64_true by (unfold two64; lia). cbv iota.
      ystep. ystep. rewrite holds_cmp_LT by (unfold two63; lia). replace (di + 32 <? r11) with true by lia. cbv iota.
      unfold mk in Hfu. exact Hfu.
      }
      destruct (avx2_final_c ax cx dx (di + 32) r9 r10 r11 r12 r13 r14 r15 x0 (map (Z.lor 32) data) (map (ind f) data) x5 x6 x7 (cmp_flags (di + 32) r11 signed64) ltac:(lia) Er) as [fu Hfu]; [|rewrite map_length; lia|lia|].
      { apply (fh_firstn_prefix t (32 * k + 32)); [exact Cz|lia]. }
      eexists. unfold mk.
      avx2_chunk_c di data x2 x3 Hld L Hx2 Hx3.
      rewrite Mz. change (negb (0 =? 0)) with false. cbv iota.
      ystep. change (32 mod two64) with 32. rewrite in64_true by (unfold two64; lia). cbv iota.
      ystep. ystep. rewrite holds_cmp_LT by (unfold two63; lia). replace (di + 32 <? r11) with false by lia. cbv iota.
      unfold mk in Hfu. exact Hfu.
    + 
    destruct (Cnz Mnz) as [Efh Rfh].
    destruct (avx2_success_c data ax cx dx di r9 r10 r11 r12 r13 r14 r15 x0 (repeat cc 32) (map (Z.lor 32) data) x5 x6 x7
                (zflag false) L Mnz) as [fu Hfu]; try (unfold two63; lia).
    eexists. unfold mk.
    avx2_chunk_c di data x2 x3 Hld L Hx2 Hx3.
    replace (movmsk (map (ind f) data) =? 0) with false by lia. cbv [negb]. cbv iota.
    unfold mk in Hfu. rewrite Hfu. f_equal. f_equal. lia.
  Unshelve. all: exact O.
Qed.


(* from the dispatch: lengths above 32 on a CPU with AVX2 *)
Lemma avx2_path_c ax cx dx di r9 r10 r11 r12 r13 r14 r15 x0 x1 x2 x3 x4 x5 x6 x7 :
  32 < len -> avx2 = true -> (ax mod two32) mod 256 = cc -> vlow 16 x2 = repeat 32 16 -> (length x2 <= 32)%nat -> (length x3 <= 32)%nat ->
  exists fuel, run fuel 39 (mk ax len cx dx A di slot r9 r10 r11 r12 r13 r14 r15 x0 x1 x2 x3 x4 x5 x6 x7 (cmp_flags len 16 signed64) None)
               = Done (Some (fh t)).
Proof.
  intros Hl Hav Hax Hx2m Hx2 Hx3. pose proof len_nonneg as H0. unfold two63 in Hlen.
  destruct (avx2_loop_c (Z.to_nat len) 0 ax cx dx A r9 r10 (-32 + A + len * 1) r12 r13 r14 r15
              (vput 16 (le_bytes4 (ax mod two32) ++ repeat 0 12) x0) x2 x3 x5 x6 x7
              (cmp_flags 1 1 (fun v => v))) as [fu Hfu]; try lia; [reflexivity|].
  eexists. unfold mk.
  ystep. rewrite holds_cmp_LT by (unfold two63; lia). replace (len <? 16) with false by lia. cbv iota.
  ystep. ystep. ystep. rewrite holds_cmp_A. change (32 mod two64) with 32. replace (32 <? len) with true by lia. cbv iota.
  ystep. replace (if avx2 then 1 else 0) with 1 by (rewrite Hav; reflexivity).
  ystep. rewrite holds_cmp_NE. change (negb (1 =? 1)) with false. cbv iota.
  ystep. rewrite (hd_vlow16 x2 32 Hx2m).
  ystep. ystep. rewrite in64_true by (unfold two64; lia). cbv iota.
  ystep. rewrite hd_movd, Hax.
  ystep. unfold mk in Hfu. exact Hfu.
  Unshelve. all: exact O.
Qed.

Lemma from_dispatch_c ax cx dx di r9 r10 r11 r12 r13 r14 r15 x0 x1 x2 x3 x4 x5 x6 x7 :
  (ax mod two32) mod 256 = cc -> vlow 16 x0 = repeat cc 16 -> vlow 16 x2 = repeat 32 16 -> (length x2 <= 32)%nat -> (length x3 <= 32)%nat ->
  exists fuel, run fuel 39 (mk ax len cx dx A di slot r9 r10 r11 r12 r13 r14 r15 x0 x1 x2 x3 x4 x5 x6 x7 (cmp_flags len 16 signed64) None)
               = Done (Some (fh t)).
Proof.
  intros Hax Hx0 Hx2m Hx2 Hx3.
  destruct (Z_lt_le_dec len 16) as [H16|H16]; [apply small_path_c; assumption|].
  destruct (Z_le_gt_dec len 32) as [H32|H32]; [apply sse_path_c; [exact H16|left; exact H32|exact Hx0|exact Hx2m]|].
  destruct (bool_dec avx2 true) as [Hav|Hav].
  - apply avx2_path_c; try assumption. lia.
  - apply sse_path_c; [exact H16|right; apply not_true_is_false; exact Hav|exact Hx0|exact Hx2m].
Qed.

(* the body, entered with the needle (a letter, either case) in AL *)
Theorem body_case ax cx dx di r9 r10 r11 r12 r13 r14 r15 x0 x1 x2 x3 x4 x5 x6 x7 fl0 :
  Z.lor (ax mod 256) 32 = cc -> (length x2 <= 32)%nat -> (length x3 <= 32)%nat ->
  exists fuel, run fuel 28 (mk ax len cx dx A di slot r9 r10 r11 r12 r13 r14 r15 x0 x1 x2 x3 x4 x5 x6 x7 fl0 None) = Done (Some (fh t)).
Proof.
  intros Hax Hx2 Hx3.
  set (ax1 := Z.lor ax (32 mod two64) mod two32).
  assert (Hax1 : (ax1 mod two32) mod 256 = cc).
  { unfold ax1. rewrite <- Hax. pose proof (lor_low8 ax 32) as E. change (32 mod 256) with 32 in E. rewrite <- E.
    change (32 mod two64) with 32. generalize (Z.lor ax 32). intros v. unfold two32. lia. }
  destruct (from_dispatch_c ax1 (32 mod two64) dx di r9 r10 r11 r12 r13 r14 r15 (bcast16 (ax1 mod two32) x0) x1
              (bcast16q (32 mod two64) x2) x3 x4 x5 x6 x7 Hax1) as [fu Hfu];
    [rewrite bcast16_low, Hax1; reflexivity|rewrite bcast16q_low; reflexivity|apply bcast16q_length; exact Hx2|exact Hx3|].
  eexists. unfold mk. ystep. fold ax1. ystep. ystep. ystep. ystep. ystep. ystep. ystep. ystep. ystep. ystep. change (16 mod two64) with 16.
  unfold mk, bcast16, bcast16q in Hfu. exact Hfu.
  Unshelve. all: exact O.
Qed.

Lemma fh_t_c : fh t = index_byte_from f s 0.
Proof. apply fh_map_ind. Qed.

End Case.

(* ===================================================================== *)
(* the wrappers: the letter test selects the body                          *)
(* ===================================================================== *)
Notation c8 := (c mod 256).

Lemma wrap_upper_byt r0 : (c8 - 65) mod 256 <= 25 ->
  exists ax' cx' fl', ax' mod 256 = c8 /\ forall f,
    run (S (S (S (S (S (S (S (S (S f))))))))) 0 (init r0)
    = run f 28 (mk ax' len cx' (r0 DX) A (r0 DI) slot (r0 R9) (r0 R10) (r0 R11) (r0 R12) (r0 R13) (r0 R14) (r0 R15)
                      (repeat 0 32) (repeat 0 32) (repeat 0 32) (repeat 0 32) (repeat 0 32) (repeat 0 32) (repeat 0 32) (repeat 0 32) fl' None).
Proof.
  intros Hc. pose proof (Z.mod_pos_bound c 256 ltac:(lia)) as Hc8.
  do 3 eexists. split; cycle 1.
  { intros f. unfold init.
    ystep. ystep. ystep. ystep. ystep. ystep.
    ystep. rewrite holds_cmp_BE. match goal with |- context [if ?b then _ else _] => replace b with true by (unfold two32, two64; lia) end. cbv iota.
    ystep. ystep.
    unfold mk. reflexivity. }
  cbv beta. unfold two32, two64. lia.
Qed.

Lemma wrap_lower_byt r0 : 25 < (c8 - 65) mod 256 /\ (c8 - 97) mod 256 <= 25 ->
  exists ax' cx' fl', ax' mod 256 = c8 /\ forall f,
    run (S (S (S (S (S (S (S (S (S (S (S (S f)))))))))))) 0 (init r0)
    = run f 28 (mk ax' len cx' (r0 DX) A (r0 DI) slot (r0 R9) (r0 R10) (r0 R11) (r0 R12) (r0 R13) (r0 R14) (r0 R15)
                      (repeat 0 32) (repeat 0 32) (repeat 0 32) (repeat 0 32) (repeat 0 32) (repeat 0 32) (repeat 0 32) (repeat 0 32) fl' None).
Proof.
  intros Hc. pose proof (Z.mod_pos_bound c 256 ltac:(lia)) as Hc8.
  do 3 eexists. split; cycle 1.
  { intros f. unfold init.
    ystep. ystep. ystep. ystep. ystep. ystep.
    ystep. rewrite holds_cmp_BE. match goal with |- context [if ?b then _ else _] => replace b with false by (unfold two32, two64; lia) end. cbv iota.
    ystep. ystep. ystep. rewrite holds_cmp_A. match goal with |- context [if ?b then _ else _] => replace b with false by (unfold two32, two64; lia) end. cbv iota.
    ystep. ystep.
    unfold mk. reflexivity. }
  cbv beta. unfold two32, two64. lia.
Qed.

Lemma wrap_plain_byt r0 : 25 < (c8 - 65) mod 256 /\ 25 < (c8 - 97) mod 256 ->
  exists ax' cx' fl', (ax' mod two32) mod 256 = c8 /\ forall f,
    run (S (S (S (S (S (S (S (S (S (S (S (S f)))))))))))) 0 (init r0)
    = run f 125 (mk ax' len cx' (r0 DX) A (r0 DI) slot (r0 R9) (r0 R10) (r0 R11) (r0 R12) (r0 R13) (r0 R14) (r0 R15)
                      (repeat 0 32) (repeat 0 32) (repeat 0 32) (repeat 0 32) (repeat 0 32) (repeat 0 32) (repeat 0 32) (repeat 0 32) fl' None).
Proof.
  intros Hc. pose proof (Z.mod_pos_bound c 256 ltac:(lia)) as Hc8.
  do 3 eexists. split; cycle 1.
  { intros f. unfold init.
    ystep. ystep. ystep. ystep. ystep. ystep.
    ystep. rewrite holds_cmp_BE. match goal with |- context [if ?b then _ else _] => replace b with false by (unfold two32, two64; lia) end. cbv iota.
    ystep. ystep. ystep. rewrite holds_cmp_A. match goal with |- context [if ?b then _ else _] => replace b with true by (unfold two32, two64; lia) end. cbv iota.
    ystep. ystep.
    unfold mk. reflexivity. }
  cbv beta. unfold two32, two64. lia.
Qed.

Lemma wrap_upper_str r0 : (c8 - 65) mod 256 <= 25 ->
  exists ax' cx' fl', ax' mod 256 = c8 /\ forall f,
    run (S (S (S (S (S (S (S (S (S f))))))))) 14 (init r0)
    = run f 28 (mk ax' len cx' (r0 DX) A (r0 DI) slot (r0 R9) (r0 R10) (r0 R11) (r0 R12) (r0 R13) (r0 R14) (r0 R15)
                      (repeat 0 32) (repeat 0 32) (repeat 0 32) (repeat 0 32) (repeat 0 32) (repeat 0 32) (repeat 0 32) (repeat 0 32) fl' None).
Proof.
  intros Hc. pose proof (Z.mod_pos_bound c 256 ltac:(lia)) as Hc8.
  do 3 eexists. split; cycle 1.
  { intros f. unfold init.
    ystep. ystep. ystep. ystep. ystep. ystep.
    ystep. rewrite holds_cmp_BE. match goal with |- context [if ?b then _ else _] => replace b with true by (unfold two32, two64; lia) end. cbv iota.
    ystep. ystep.
    unfold mk. reflexivity. }
  cbv beta. unfold two32, two64. lia.
Qed.

Lemma wrap_lower_str r0 : 25 < (c8 - 65) mod 256 /\ (c8 - 97) mod 256 <= 25 ->
  exists ax' cx' fl', ax' mod 256 = c8 /\ forall f,
    run (S (S (S (S (S (S (S (S (S (S (S (S f)))))))))))) 14 (init r0)
    = run f 28 (mk ax' len cx' (r0 DX) A (r0 DI) slot (r0 R9) (r0 R10) (r0 R11) (r0 R12) (r0 R13) (r0 R14) (r0 R15)
                      (repeat 0 32) (repeat 0 32) (repeat 0 32) (repeat 0 32) (repeat 0 32) (repeat 0 32) (repeat 0 32) (repeat 0 32) fl' None).
Proof.
  intros Hc. pose proof (Z.mod_pos_bound c 256 ltac:(lia)) as Hc8.
  do 3 eexists. split; cycle 1.
  { intros f. unfold init.
    ystep. ystep. ystep. ystep. ystep. ystep.
    ystep. rewrite holds_cmp_BE. match goal with |- context [if ?b then _ else _] => replace b with false by (unfold two32, two64; lia) end. cbv iota.
    ystep. ystep. ystep. rewrite holds_cmp_A. match goal with |- context [if ?b then _ else _] => replace b with false by (unfold two32, two64; lia) end. cbv iota.
    ystep. ystep.
    unfold mk. reflexivity. }
  cbv beta. unfold two32, two64. lia.
Qed.

Lemma wrap_plain_str r0 : 25 < (c8 - 65) mod 256 /\ 25 < (c8 - 97) mod 256 ->
  exists ax' cx' fl', (ax' mod two32) mod 256 = c8 /\ forall f,
    run (S (S (S (S (S (S (S (S (S (S (S (S f)))))))))))) 14 (init r0)
    = run f 125 (mk ax' len cx' (r0 DX) A (r0 DI) slot (r0 R9) (r0 R10) (r0 R11) (r0 R12) (r0 R13) (r0 R14) (r0 R15)
                      (repeat 0 32) (repeat 0 32) (repeat 0 32) (repeat 0 32) (repeat 0 32) (repeat 0 32) (repeat 0 32) (repeat 0 32) fl' None).
Proof.
  intros Hc. pose proof (Z.mod_pos_bound c 256 ltac:(lia)) as Hc8.
  do 3 eexists. split; cycle 1.
  { intros f. unfold init.
    ystep. ystep. ystep. ystep. ystep. ystep.
    ystep. rewrite holds_cmp_BE. match goal with |- context [if ?b then _ else _] => replace b with false by (unfold two32, two64; lia) end. cbv iota.
    ystep. ystep. ystep. rewrite holds_cmp_A. match goal with |- context [if ?b then _ else _] => replace b with true by (unfold two32, two64; lia) end. cbv iota.
    ystep. ystep.
    unfold mk. reflexivity. }
  cbv beta. unfold two32, two64. lia.
Qed.

(* the two lane tests are the scalar definition byte_match: all 256 x 256 (needle, byte) pairs *)
Lemma asm_match_chk :
  chk_pairs (fun c b => if ((c - 65) mod 256 <=? 25) || ((c - 97) mod 256 <=? 25)
                        then Bool.eqb (Z.lor c 32 =? Z.lor 32 b) (byte_match c b)
                        else Bool.eqb (c =? b) (byte_match c b)) = true.
Proof. vm_compute. reflexivity. Qed.

Lemma match_case x : 0 <= x < 256 -> ((x - 65) mod 256 <= 25 \/ (x - 97) mod 256 <= 25) ->
  index_byte_from (fun b => Z.lor x 32 =? Z.lor 32 b) s 0 = k_index_byte s x.
Proof.
  intros Hx Ha. unfold k_index_byte. apply index_from_ext_wf; [exact Hwf|]. intros b Hb.
  pose proof (chk_pairs_spec _ asm_match_chk x b Hx Hb) as C. cbv beta in C.
  replace (((x - 65) mod 256 <=? 25) || ((x - 97) mod 256 <=? 25)) with true in C by lia. apply eqb_prop in C. exact C.
Qed.

Lemma match_plain x : 0 <= x < 256 -> (25 < (x - 65) mod 256 /\ 25 < (x - 97) mod 256) ->
  index_byte_from (Z.eqb x) s 0 = k_index_byte s x.
Proof.
  intros Hx Ha. unfold k_index_byte. apply index_from_ext_wf; [exact Hwf|]. intros b Hb.
  pose proof (chk_pairs_spec _ asm_match_chk x b Hx Hb) as C. cbv beta in C.
  replace (((x - 65) mod 256 <=? 25) || ((x - 97) mod 256 <=? 25)) with false in C by lia. apply eqb_prop in C. exact C.
Qed.

(* THE KERNEL THEOREM for IndexByte / IndexByteString: started with arbitrary register contents, for every needle
   byte, the run returns the scalar definition k_index_byte (the first byte equal to the needle or, for an ASCII
   letter, to its other case; -1 if none): at every address >= 4096 and alignment, for every content of the
   surrounding memory, with and without AVX2; Done also says that no load left the pages of the argument, that the
   only store was the result and that no address computation wrapped. *)

Theorem index_byte_asm_byt r0 :
  exists fuel, run fuel entry_indexbyte_go122_amd64_IndexByte (init r0) = Done (Some (k_index_byte s c8)).
Proof.
  pose proof (Z.mod_pos_bound c 256 ltac:(lia)) as Hc8. unfold entry_indexbyte_go122_amd64_IndexByte.
  assert (L32 : (length (repeat 0 32) <= 32)%nat) by (rewrite repeat_length; lia).
  destruct (Z_le_gt_dec ((c8 - 65) mod 256) 25) as [Hu|Hu].
  - destruct (wrap_upper_byt r0 Hu) as (ax' & cx' & fl' & Hax & Hrun).
    destruct (body_case (Z.lor c8 32) ax' cx' (r0 DX) (r0 DI) (r0 R9) (r0 R10) (r0 R11) (r0 R12) (r0 R13) (r0 R14) (r0 R15)
                (repeat 0 32) (repeat 0 32) (repeat 0 32) (repeat 0 32) (repeat 0 32) (repeat 0 32) (repeat 0 32) (repeat 0 32) fl'
                ltac:(rewrite Hax; reflexivity) L32 L32) as [fu Hfu].
    eexists. rewrite Hrun. rewrite Hfu. rewrite fh_t_c. f_equal. f_equal. apply match_case; [exact Hc8|left; exact Hu].
  - destruct (Z_le_gt_dec ((c8 - 97) mod 256) 25) as [Hl|Hl].
    + destruct (wrap_lower_byt r0 ltac:(lia)) as (ax' & cx' & fl' & Hax & Hrun).
      destruct (body_case (Z.lor c8 32) ax' cx' (r0 DX) (r0 DI) (r0 R9) (r0 R10) (r0 R11) (r0 R12) (r0 R13) (r0 R14) (r0 R15)
                  (repeat 0 32) (repeat 0 32) (repeat 0 32) (repeat 0 32) (repeat 0 32) (repeat 0 32) (repeat 0 32) (repeat 0 32) fl'
                  ltac:(rewrite Hax; reflexivity) L32 L32) as [fu Hfu].
      eexists. rewrite Hrun. rewrite Hfu. rewrite fh_t_c. f_equal. f_equal. apply match_case; [exact Hc8|right; lia].
    + destruct (wrap_plain_byt r0 ltac:(lia)) as (ax' & cx' & fl' & Hax & Hrun).
      destruct (body_plain c8 ax' cx' (r0 DX) (r0 DI) (r0 R9) (r0 R10) (r0 R11) (r0 R12) (r0 R13) (r0 R14) (r0 R15)
                  (repeat 0 32) (repeat 0 32) (repeat 0 32) (repeat 0 32) (repeat 0 32) (repeat 0 32) (repeat 0 32) (repeat 0 32) fl'
                  Hax L32 L32) as [fu Hfu].
      eexists. rewrite Hrun. rewrite Hfu. rewrite fh_t. f_equal. f_equal. apply match_plain; [exact Hc8|lia].
Qed.

Theorem index_byte_asm_str r0 :
  exists fuel, run fuel entry_indexbyte_go122_amd64_IndexByteString (init r0) = Done (Some (k_index_byte s c8)).
Proof.
  pose proof (Z.mod_pos_bound c 256 ltac:(lia)) as Hc8. unfold entry_indexbyte_go122_amd64_IndexByteString.
  assert (L32 : (length (repeat 0 32) <= 32)%nat) by (rewrite repeat_length; lia).
  destruct (Z_le_gt_dec ((c8 - 65) mod 256) 25) as [Hu|Hu].
  - destruct (wrap_upper_str r0 Hu) as (ax' & cx' & fl' & Hax & Hrun).
    destruct (body_case (Z.lor c8 32) ax' cx' (r0 DX) (r0 DI) (r0 R9) (r0 R10) (r0 R11) (r0 R12) (r0 R13) (r0 R14) (r0 R15)
                (repeat 0 32) (repeat 0 32) (repeat 0 32) (repeat 0 32) (repeat 0 32) (repeat 0 32) (repeat 0 32) (repeat 0 32) fl'
                ltac:(rewrite Hax; reflexivity) L32 L32) as [fu Hfu].
    eexists. rewrite Hrun. rewrite Hfu. rewrite fh_t_c. f_equal. f_equal. apply match_case; [exact Hc8|left; exact Hu].
  - destruct (Z_le_gt_dec ((c8 - 97) mod 256) 25) as [Hl|Hl].
    + destruct (wrap_lower_str r0 ltac:(lia)) as (ax' & cx' & fl' & Hax & Hrun).
      destruct (body_case (Z.lor c8 32) ax' cx' (r0 DX) (r0 DI) (r0 R9) (r0 R10) (r0 R11) (r0 R12) (r0 R13) (r0 R14) (r0 R15)
                  (repeat 0 32) (repeat 0 32) (repeat 0 32) (repeat 0 32) (repeat 0 32) (repeat 0 32) (repeat 0 32) (repeat 0 32) fl'
                  ltac:(rewrite Hax; reflexivity) L32 L32) as [fu Hfu].
      eexists. rewrite Hrun. rewrite Hfu. rewrite fh_t_c. f_equal. f_equal. apply match_case; [exact Hc8|right; lia].
    + destruct (wrap_plain_str r0 ltac:(lia)) as (ax' & cx' & fl' & Hax & Hrun).
      destruct (body_plain c8 ax' cx' (r0 DX) (r0 DI) (r0 R9) (r0 R10) (r0 R11) (r0 R12) (r0 R13) (r0 R14) (r0 R15)
                  (repeat 0 32) (repeat 0 32) (repeat 0 32) (repeat 0 32) (repeat 0 32) (repeat 0 32) (repeat 0 32) (repeat 0 32) fl'
                  Hax L32 L32) as [fu Hfu].
      eexists. rewrite Hrun. rewrite Hfu. rewrite fh_t. f_equal. f_equal. apply match_plain; [exact Hc8|lia].
Qed.

End K.
